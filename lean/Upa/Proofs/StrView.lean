import Upa.Impl.StrView
/-
  Lemmas about the model of upa::str_view (Impl/StrView.lean).
-/
namespace Upa.Impl.SV
open StdView

theorem toList_length (v : View) (h : v.Valid) : v.toList.length = v.len := by
  unfold View.Valid at h
  simp [View.toList, List.length_take, List.length_drop]; omega

/-- `Traits::compare` reads inside both arrays and its sign is the specified one -/
theorem traitsCompare_spec (mag : Nat → Nat → Nat) (a b : List Nat) : ∀ (n ao bo : Nat),
    ao + n ≤ a.length → bo + n ≤ b.length →
    ∃ r, traitsCompare mag a ao b bo n = some r ∧
      r.sign = traitsCompareSign ((a.drop ao).take n) ((b.drop bo).take n) := by
  intro n
  induction n with
  | zero => intro ao bo _ _; exact ⟨0, rfl, by simp [traitsCompareSign]⟩
  | succ n ih =>
    intro ao bo ha hb
    have ha' : ao < a.length := by omega
    have hb' : bo < b.length := by omega
    simp only [traitsCompare, List.getElem?_eq_getElem ha', List.getElem?_eq_getElem hb']
    rw [List.drop_eq_getElem_cons ha', List.drop_eq_getElem_cons hb', List.take_succ_cons, List.take_succ_cons]
    simp only [traitsCompareSign]
    split
    · exact ⟨_, rfl, Int.sign_eq_neg_one_of_neg (by omega)⟩
    · split
      · exact ⟨_, rfl, Int.sign_eq_one_of_pos (by omega)⟩
      · exact ih (ao + 1) (bo + 1) (by omega) (by omega)

theorem traitsCompareSign_range : ∀ (a b : List Nat),
    traitsCompareSign a b = -1 ∨ traitsCompareSign a b = 0 ∨ traitsCompareSign a b = 1 := by
  intro a
  induction a with
  | nil => intro b; simp [traitsCompareSign]
  | cons x xs ih =>
    intro b
    cases b with
    | nil => simp [traitsCompareSign]
    | cons y ys =>
      simp only [traitsCompareSign]
      split
      · simp
      · split
        · simp
        · exact ih ys

theorem traitsCompareSign_eq_zero : ∀ (a b : List Nat), a.length = b.length →
    (traitsCompareSign a b = 0 ↔ a = b) := by
  intro a
  induction a with
  | nil => intro b h; cases b <;> simp_all [traitsCompareSign]
  | cons x xs ih =>
    intro b h
    cases b with
    | nil => simp at h
    | cons y ys =>
      simp only [traitsCompareSign]
      simp only [List.length_cons, Nat.add_right_cancel_iff] at h
      split
      · simp; omega
      · split
        · simp; omega
        · rw [ih ys h]
          have : x = y := by omega
          simp [this]

theorem compareSign_cons (x y : Nat) (xs ys : List Nat) :
    compareSign (x :: xs) (y :: ys) = if x < y then -1 else if y < x then 1 else compareSign xs ys := by
  simp only [compareSign, List.length_cons, Nat.succ_min_succ, List.take_succ_cons, traitsCompareSign]
  split
  · simp
  · split
    · simp
    · simp only [Nat.add_lt_add_iff_right, Nat.add_right_cancel_iff]

theorem compareSign_lex : ∀ (a b : List Nat), compareSign a b = ordSign (lexCmp a b) := by
  intro a
  induction a with
  | nil =>
    intro b
    cases b with
    | nil => simp [compareSign, traitsCompareSign, lexCmp, ordSign]
    | cons y ys => simp [compareSign, traitsCompareSign, lexCmp, ordSign]
  | cons x xs ih =>
    intro b
    cases b with
    | nil => simp [compareSign, traitsCompareSign, lexCmp, ordSign]
    | cons y ys =>
      rw [compareSign_cons, lexCmp]
      split
      · rfl
      · split
        · rfl
        · exact ih ys

theorem lexCmp_eq : ∀ (a b : List Nat), lexCmp a b = .eq ↔ a = b := by
  intro a
  induction a with
  | nil => intro b; cases b <;> simp [lexCmp]
  | cons x xs ih =>
    intro b
    cases b with
    | nil => simp [lexCmp]
    | cons y ys =>
      simp only [lexCmp]
      split
      · simp; omega
      · split
        · simp; omega
        · rw [ih ys]
          have : x = y := by omega
          simp [this]

theorem ordSign_eq_zero (o : Ordering) : ordSign o = 0 ↔ o = .eq := by
  cases o <;> simp [ordSign]

theorem stdEq_iff (a b : List Nat) : StdView.eq a b = decide (a = b) := by
  unfold StdView.eq
  rw [compareSign_lex]
  by_cases h : a = b
  · have := (lexCmp_eq a b).2 h
    rw [this]; simp [h, ordSign]
  · have : ¬ lexCmp a b = .eq := fun h' => h ((lexCmp_eq a b).1 h')
    have h0 : ¬ ordSign (lexCmp a b) = 0 := fun h' => this ((ordSign_eq_zero _).1 h')
    simp [h, h0]

theorem toList_take_min (v x : View) :
    v.toList.take (min v.len x.len) = (v.base.drop v.off).take (min v.len x.len) := by
  simp only [View.toList, List.take_take]
  congr 1; omega

theorem toList_take_min' (v x : View) :
    x.toList.take (min v.len x.len) = (x.base.drop x.off).take (min v.len x.len) := by
  simp only [View.toList, List.take_take]
  congr 1; omega

theorem compare_spec (mag : Nat → Nat → Nat) (v x : View) (hv : v.Valid) (hx : x.Valid) :
    ∃ r, compare mag v x = some r ∧ r.sign = compareSign v.toList x.toList := by
  have lv := toList_length v hv
  have lx := toList_length x hx
  unfold View.Valid at hv hx
  obtain ⟨c, hc, hs⟩ := traitsCompare_spec mag v.base x.base (min v.len x.len) v.off x.off (by omega) (by omega)
  simp only [compare, hc]
  refine ⟨_, rfl, ?_⟩
  simp only [compareSign, lv, lx, toList_take_min, toList_take_min', ← hs]
  by_cases h0 : c = 0
  · subst h0
    simp only [ne_eq, not_true_eq_false, if_false, Int.sign_zero]
    by_cases h1 : v.len = x.len
    · simp [h1]
    · by_cases h2 : v.len < x.len
      · simp [h1, h2]
      · simp [h1, h2]
  · have : ¬ c.sign = 0 := by rw [Int.sign_eq_zero_iff_zero]; exact h0
    simp [h0, this]

theorem equal_spec (mag : Nat → Nat → Nat) (v x : View) (hv : v.Valid) (hx : x.Valid) :
    equal mag v x = some (decide (v.toList = x.toList)) := by
  have lv := toList_length v hv
  have lx := toList_length x hx
  unfold equal
  split
  · rename_i hl
    unfold View.Valid at hv hx
    obtain ⟨c, hc, hs⟩ := traitsCompare_spec mag v.base x.base v.len v.off x.off (by omega) (by omega)
    rw [hc]
    have e1 : (v.base.drop v.off).take v.len = v.toList := rfl
    have e2 : (x.base.drop x.off).take v.len = x.toList := by rw [hl]; rfl
    rw [e1, e2] at hs
    have := traitsCompareSign_eq_zero v.toList x.toList (by omega)
    rw [← hs, Int.sign_eq_zero_iff_zero] at this
    simp only [Option.map_some, Option.some.injEq]
    by_cases h0 : c = 0
    · simp [h0, this.1 h0]
    · have : ¬ v.toList = x.toList := fun h => h0 (this.2 h)
      simp [h0, this]
  · rename_i hl
    have : ¬ v.toList = x.toList := by
      intro h; rw [h] at lv; omega
    simp [this]

theorem removePrefix_spec (v : View) (n : Nat) (hv : v.Valid) (hl : v.len < 18446744073709551616)
    (hn : n ≤ v.len) :
    (removePrefix v n).Valid ∧ (removePrefix v n).len = v.len - n ∧
      (removePrefix v n).toList = v.toList.drop n := by
  unfold View.Valid at hv
  have e : (v.len + 18446744073709551616 - n) % 18446744073709551616 = v.len - n := by omega
  refine ⟨?_, ?_, ?_⟩
  · simp only [View.Valid, removePrefix, e]; omega
  · simp only [removePrefix, e]
  · simp only [View.toList, removePrefix, e]
    rw [List.drop_take, List.drop_drop]

theorem removeSuffix_spec (v : View) (n : Nat) (hv : v.Valid) (hl : v.len < 18446744073709551616)
    (hn : n ≤ v.len) :
    (removeSuffix v n).Valid ∧ (removeSuffix v n).len = v.len - n ∧
      (removeSuffix v n).toList = v.toList.take (v.toList.length - n) := by
  have lv := toList_length v hv
  unfold View.Valid at hv
  have e : (v.len + 18446744073709551616 - n) % 18446744073709551616 = v.len - n := by omega
  refine ⟨?_, ?_, ?_⟩
  · simp only [View.Valid, removeSuffix, e]; omega
  · simp only [removeSuffix, e]
  · rw [lv]
    simp only [View.toList, removeSuffix, e, List.take_take]
    congr 1; omega

theorem get_spec (v : View) (i : Nat) (hi : i < v.len) : get v i = v.toList[i]? := by
  simp only [get, View.toList, List.getElem?_take, hi, if_true, List.getElem?_drop]

theorem ofList_valid (l : List Nat) : (ofList l).Valid := by simp [View.Valid, ofList]
theorem ofList_toList (l : List Nat) : (ofList l).toList = l := by simp [View.toList, ofList]

end Upa.Impl.SV
