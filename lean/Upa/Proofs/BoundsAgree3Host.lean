import Upa.Proofs.BoundsAgree3Dec
import Upa.Proofs.BoundsAgree3Ip6
import Upa.Proofs.BoundsMiscAgree2Host
import Upa.Proofs.BoundsMiscAgree2Dom
import Upa.Proofs.BoundsMiscAgree2Ip
/-
  Helper lemmas for C04h, part 4: `parseHostM` (url_host.h:158-287, instrumented) = `Impl.parseHost` on the
  decoded input, every branch.
-/
namespace Upa.Impl.B
open Upa.Proofs.C10b
open Upa.Proofs.V6 (mainLoop_step implStart implV4 implFinal ipv6Parse_eq parse_good)

/-! ### the IDNA input -/

/-- `buff_uc` of the list model = UTF-16 of the UTF-8 decoding (with replacement) of the Standard's string
    percent-decode -/
theorem buffUc_eq (D : List Nat) (hs : ∀ c ∈ D, Spec.isScalar c = true) :
    Impl.encodeUtf16 (Impl.decode .u8 (Impl.percentDecode D)) = E16 (Spec.stringPercentDecode D) := by
  unfold E16 Impl.percentDecode
  rw [(Upa.Proofs.C14.aux_eq D.length D (Nat.le_refl _) hs).1]
  have hb := Upa.Proofs.C14.spd_lt D hs
  have hsc := Impl.decode_u8_scalar _ hb
  rw [Impl.encodeUtf8_eq _ hsc]
  have := Impl.decode_encode .u8 _ hsc
  simp only [Spec.encode] at this
  rw [this]

/-! ### parse_ipv4, parse_ipv6 of the host parser -/

theorem parseIpv4M_agrees (a : Array Nat) (first last : Nat) (h : first ≤ last) (hl : last ≤ a.size) :
    parseIpv4M a first last = .ok (Impl.hostParseIpv4 (slice a first last)) := by
  unfold parseIpv4M Impl.hostParseIpv4
  rw [ipv4Parse_agrees a first last h hl]
  simp only [R.ok_bind]
  cases Impl.ipv4Parse (slice a first last) with
  | none => rfl
  | some n =>
    simp only [ipv4SerializeM_agrees, R.ok_bind]
    rfl

theorem range8_getD (l : List Nat) (h : l.length = 8) : (List.range 8).map (fun i => l.getD i 0) = l := by
  rcases l with _ | ⟨x0, _ | ⟨x1, _ | ⟨x2, _ | ⟨x3, _ | ⟨x4, _ | ⟨x5, _ | ⟨x6, _ | ⟨x7, _ | ⟨x8, t⟩⟩⟩⟩⟩⟩⟩⟩⟩ <;>
    simp at h
  rfl

theorem parseIpv6M_agrees (a : Array Nat) (first last : Nat) (h : first ≤ last) (hl : last ≤ a.size) :
    parseIpv6M a first last = .ok (Impl.hostParseIpv6 (slice a first last)) := by
  unfold parseIpv6M Impl.hostParseIpv6
  rw [ipv6Parse_agrees a first last h hl]
  simp only [R.ok_bind]
  cases hp : Impl.ipv6Parse (slice a first last) with
  | none => rfl
  | some addr =>
    obtain ⟨h8, hlt⟩ := parse_good _ _ hp
    simp only [range8_getD addr h8]
    have hsl : slice addr.toArray 0 8 = addr := by rw [← h8]; exact slice_ofList addr
    rw [ipv6SerializeM_agrees addr.toArray 0 8 (by decide) (by simp [h8]) (by
      intro i _ hi
      have : addr.toArray[i]! ∈ addr := by
        rw [getElem!_pos addr.toArray i (by simp [h8]; exact hi)]
        simp
      exact hlt _ this)]
    simp only [R.ok_bind, hsl]
    rfl

/-! ### ipv6_parse accepts ASCII only -/

theorem getHex_prefix : ∀ (max : Nat) (l : List Nat) (v n : Nat),
    ∃ pre, l = pre ++ (Impl.getHexNumber max l v n).2.2 ∧ ∀ c ∈ pre, c < 0x80 := by
  intro max
  induction max with
  | zero => intro l v n; rw [getHexL_zero]; exact ⟨[], rfl, by simp⟩
  | succ m ih =>
    intro l v n
    cases l with
    | nil => rw [getHexL_nil]; exact ⟨[], rfl, by simp⟩
    | cons c r =>
      rw [getHexL_cons]
      by_cases hc : isHex c = true
      · rw [if_pos hc]
        obtain ⟨pre, e1, e2⟩ := ih r (v * 0x10 + hexVal c) (n + 1)
        refine ⟨c :: pre, by rw [List.cons_append, ← e1], ?_⟩
        intro x hx
        rcases List.mem_cons.1 hx with rfl | hx
        · exact Upa.Proofs.C14.isHex_lt _ hc
        · exact e2 x hx
      · rw [if_neg hc]; exact ⟨[], rfl, by simp⟩

theorem digits_prefix : ∀ (l : List Nat) (v x : Nat) (rest : List Nat), Impl.v6Digits l v = some (x, rest) →
    ∃ pre, l = pre ++ rest ∧ ∀ c ∈ pre, c < 0x80 := by
  intro l
  induction l with
  | nil =>
    intro v x rest h
    rw [v6DigL_nil] at h
    simp only [Option.some.injEq, Prod.mk.injEq] at h
    exact ⟨[], by rw [← h.2]; rfl, by simp⟩
  | cons d r ih =>
    intro v x rest h
    rw [v6DigL_cons] at h
    by_cases hd : isDigit d = true
    · rw [if_pos hd] at h
      split at h
      · cases h
      split at h
      · cases h
      obtain ⟨pre, e1, e2⟩ := ih _ _ _ h
      refine ⟨d :: pre, by rw [List.cons_append, ← e1], ?_⟩
      intro c hc
      rcases List.mem_cons.1 hc with rfl | hc
      · simp [isDigit] at hd; omega
      · exact e2 c hc
    · rw [if_neg hd] at h
      simp only [Option.some.injEq, Prod.mk.injEq] at h
      exact ⟨[], by rw [← h.2]; rfl, by simp⟩

theorem mainAscii : ∀ (f : Nat) (p : List Nat) (st st' : Impl.V6St) (v4 : Option (List Nat)),
    Impl.v6MainLoop f p st = some (st', v4) → ∃ pre, p = pre ++ v4.getD [] ∧ ∀ c ∈ pre, c < 0x80 := by
  intro f
  induction f with
  | zero => intro p st st' v4 h; simp [Impl.v6MainLoop] at h
  | succ f ih =>
    intro p st st' v4 h
    cases p with
    | nil =>
      simp only [Impl.v6MainLoop, Option.some.injEq, Prod.mk.injEq] at h
      rw [← h.2]
      exact ⟨[], rfl, by simp⟩
    | cons c r =>
      rcases hg : Impl.getHexNumber 4 (c :: r) 0 0 with ⟨value, n, p'⟩
      rw [mainLoop_step f c r st value n p' hg] at h
      obtain ⟨hpre, hp1, hp2⟩ := getHex_prefix 4 (c :: r) 0 0
      rw [hg] at hp1
      simp only at hp1
      split at h
      · cases h
      split at h
      · rename_i hc
        split at h
        · cases h
        obtain ⟨pre, e1, e2⟩ := ih r _ _ _ h
        refine ⟨c :: pre, by rw [List.cons_append, ← e1], ?_⟩
        intro x hx
        rcases List.mem_cons.1 hx with rfl | hx
        · omega
        · exact e2 x hx
      · cases p' with
        | nil =>
          simp only at h
          obtain ⟨pre, e1, e2⟩ := ih [] _ _ _ h
          have := List.append_eq_nil_iff.1 e1.symm
          refine ⟨hpre, ?_, hp2⟩
          rw [this.2, List.append_nil]
          simpa using hp1
        | cons ch p1 =>
          simp only at h
          split at h
          · split at h
            · cases h
            · simp only [Option.some.injEq, Prod.mk.injEq] at h
              rw [← h.2]
              exact ⟨[], rfl, by simp⟩
          · split at h
            · rename_i hch
              split at h
              · cases h
              obtain ⟨pre, e1, e2⟩ := ih p1 _ _ _ h
              refine ⟨hpre ++ ch :: pre, ?_, ?_⟩
              · rw [hp1, e1]; simp
              · intro x hx
                rcases List.mem_append.1 hx with hx | hx
                · exact hp2 x hx
                · rcases List.mem_cons.1 hx with rfl | hx
                  · omega
                  · exact e2 x hx
            · cases h

theorem v4Ascii : ∀ (f : Nat) (q : List Nat) (ns : Nat) (st st' : Impl.V6St),
    Impl.v6V4Loop f q ns st = some st' → ∀ c ∈ q, c < 0x80 := by
  intro f
  induction f with
  | zero => intro q ns st st' h; simp [Impl.v6V4Loop] at h
  | succ f ih =>
    intro q ns st st' h
    cases q with
    | nil => intro c hc; cases hc
    | cons c r =>
      rw [v4L_step] at h
      have key : ∀ l : List Nat, v4Body f ns st l = some st' → ∀ x ∈ l, x < 0x80 := by
        intro l hl
        cases l with
        | nil => intro x hx; cases hx
        | cons d r' =>
          simp only [v4Body] at hl
          split at hl
          · cases hl
          rename_i hd
          cases hdig : Impl.v6Digits r' (d - 0x30) with
          | none => rw [hdig] at hl; cases hl
          | some pr =>
            obtain ⟨piece, rest⟩ := pr
            rw [hdig] at hl
            simp only at hl
            obtain ⟨pre, e1, e2⟩ := digits_prefix _ _ _ _ hdig
            have hrest := ih rest _ _ _ hl
            intro x hx
            rcases List.mem_cons.1 hx with rfl | hx
            · simp [isDigit] at hd; omega
            · rw [e1] at hx
              rcases List.mem_append.1 hx with hx | hx
              · exact e2 x hx
              · exact hrest x hx
      by_cases hns : ns > 0
      · rw [if_pos hns] at h
        by_cases hc : c = 0x2E ∧ ns < 4
        · rw [if_pos hc] at h
          simp only at h
          have := key r h
          intro x hx
          rcases List.mem_cons.1 hx with rfl | hx
          · omega
          · exact this x hx
        · rw [if_neg hc] at h
          cases h
      · rw [if_neg hns] at h
        simp only at h
        exact key (c :: r) h

theorem ipv6Parse_ascii (l r : List Nat) (h : Impl.ipv6Parse l = some r) : ∀ c ∈ l, c < 0x80 := by
  rw [ipv6Parse_eq] at h
  split at h
  · cases h
  cases hs : implStart l with
  | none => rw [hs] at h; cases h
  | some ps =>
    obtain ⟨p, st⟩ := ps
    rw [hs] at h
    change (implV4 (l.length + 1) (Impl.v6MainLoop (l.length + 1) p st)).bind implFinal = some r at h
    have hp : (∃ t, l = 0x3A :: 0x3A :: t ∧ p = t) ∨ p = l := by
      rcases l with _ | ⟨x, _ | ⟨y, t⟩⟩
      · right; simp [implStart] at hs; first | exact hs.1.symm | exact hs.1
      · right; simp [implStart] at hs; first | exact hs.1.symm | exact hs.1
      · by_cases hx : x = 0x3A
        · subst hx
          simp only [implStart] at hs
          split at hs
          · cases hs
          · rename_i hy
            simp only [Option.some.injEq, Prod.mk.injEq] at hs
            have hy' : y = 0x3A := by
              apply Classical.byContradiction
              intro hh; exact hy hh
            left
            exact ⟨t, by rw [hy'], hs.1.symm⟩
        · right
          unfold implStart at hs
          split at hs
          · rename_i heq
            simp only [List.cons.injEq] at heq
            exact absurd heq.1 hx
          · simp only [Option.some.injEq, Prod.mk.injEq] at hs
            exact hs.1.symm
    have hpa : ∀ c ∈ p, c < 0x80 := by
      cases hm : Impl.v6MainLoop (l.length + 1) p st with
      | none => rw [hm] at h; simp [implV4] at h
      | some res =>
        obtain ⟨st', v4⟩ := res
        rw [hm] at h
        obtain ⟨pre, e1, e2⟩ := mainAscii _ _ _ _ _ hm
        cases v4 with
        | none =>
          simp only [Option.getD_none, List.append_nil] at e1
          rw [e1]; exact e2
        | some q =>
          have h' : implV4 (l.length + 1) (some (st', some q)) =
              (if st'.pieceIndex > 6 then none else Impl.v6V4Loop (l.length + 1) q 0 st') := rfl
          rw [h'] at h
          by_cases h6 : st'.pieceIndex > 6
          · rw [if_pos h6] at h; simp at h
          rw [if_neg h6] at h
          cases h4 : Impl.v6V4Loop (l.length + 1) q 0 st' with
          | none => rw [h4] at h; simp at h
          | some st4 =>
            have hq := v4Ascii _ _ _ _ _ h4
            simp only [Option.getD_some] at e1
            intro c hc
            rw [e1] at hc
            rcases List.mem_append.1 hc with hc | hc
            · exact e2 c hc
            · exact hq c hc
    rcases hp with ⟨t, e1, e2⟩ | e1
    · intro c hc
      rw [e1] at hc
      rcases List.mem_cons.1 hc with rfl | hc
      · omega
      rcases List.mem_cons.1 hc with rfl | hc
      · omega
      · exact hpa c (by rw [e2]; exact hc)
    · rw [← e1]; exact hpa

theorem decode_ascii_all (e : Enc) : ∀ l : List Nat, (∀ c ∈ l, c < 0x80) → Impl.decode e l = l := by
  intro l
  induction l with
  | nil => intro _; exact Impl.decode_nil e
  | cons x r ih =>
    intro h
    rw [decode_cons_ascii e x r (h x List.mem_cons_self), ih (fun c hc => h c (List.mem_cons_of_mem _ hc))]

theorem decode_hi_mem (e : Enc) : ∀ l : List Nat, UOk e l → (∃ c ∈ l, ¬ c < 0x80) →
    ∃ c ∈ Impl.decode e l, ¬ c < 0x80 := by
  intro l
  induction l with
  | nil => intro _ ⟨c, hc, _⟩; cases hc
  | cons x r ih =>
    intro hu ⟨c, hc, hcn⟩
    by_cases hx : x < 0x80
    · rw [decode_cons_ascii e x r hx]
      rcases List.mem_cons.1 hc with rfl | hc
      · exact absurd hx hcn
      · obtain ⟨c', h1, h2⟩ := ih hu.tail ⟨c, hc, hcn⟩
        exact ⟨c', List.mem_cons_of_mem _ h1, h2⟩
    · obtain ⟨hd, hcp, _⟩ := decode_cons_hi e x r hu hx
      rw [hd]
      exact ⟨_, List.mem_cons_self, hcp⟩

theorem ipv6Parse_decode (e : Enc) (l : List Nat) (hu : UOk e l) :
    Impl.ipv6Parse (Impl.decode e l) = Impl.ipv6Parse l := by
  by_cases hall : ∀ c ∈ l, c < 0x80
  · rw [decode_ascii_all e l hall]
  · have hex : ∃ c ∈ l, ¬ c < 0x80 := by
      apply Classical.byContradiction
      intro hh
      apply hall
      intro c hc
      apply Classical.byContradiction
      intro hcn
      exact hh ⟨c, hc, hcn⟩
    have h1 : Impl.ipv6Parse l = none := by
      cases hp : Impl.ipv6Parse l with
      | none => rfl
      | some r => exact absurd (ipv6Parse_ascii l r hp) hall
    have h2 : Impl.ipv6Parse (Impl.decode e l) = none := by
      cases hp : Impl.ipv6Parse (Impl.decode e l) with
      | none => rfl
      | some r =>
        obtain ⟨c, hc, hcn⟩ := decode_hi_mem e l hu hex
        exact absurd (ipv6Parse_ascii _ r hp c hc) hcn
    rw [h1, h2]

/-! ### the fast-path decision on raw units = on decoded text -/

theorem forbiddenDomain_ascii : AsciiPred Spec.forbiddenDomain := by
  intro c h
  simp only [Spec.forbiddenDomain, Bool.or_eq_true, beq_iff_eq, decide_eq_true_eq] at h
  rcases h with ((h | h) | h) | h
  · exact forbiddenHost_ascii c h
  · omega
  · omega
  · omega

theorem asciiDomain_props (c : Nat) (h : Spec.asciiDomainChar c = true) : c < 0x80 ∧ c ≠ 0x25 := by
  refine ⟨asciiDomainChar_ascii c h, ?_⟩
  intro hc
  subst hc
  revert h
  decide

theorem headTest_decode (e : Enc) (rest : List Nat) (hu : UOk e rest) :
    (match Impl.decode e rest with | n :: _ => decide (n ≥ 0x80) || n == 0x25 | [] => false) =
    (match rest with | n :: _ => decide (n ≥ 0x80) || n == 0x25 | [] => false) := by
  cases rest with
  | nil => rw [Impl.decode_nil]
  | cons n t =>
    by_cases hn : n < 0x80
    · rw [decode_cons_ascii e n t hn]
    · obtain ⟨hd, hc, _⟩ := decode_cons_hi e n t hu hn
      rw [hd]
      have h1 : cpOf (Impl.readChar e (n :: t)) ≥ 0x80 := by omega
      have h2 : n ≥ 0x80 := by omega
      simp [h1, h2]

theorem dropWhile_nil_all (p : Nat → Bool) : ∀ l : List Nat, l.dropWhile p = [] → ∀ c ∈ l, p c = true := by
  intro l
  induction l with
  | nil => intro _ c hc; cases hc
  | cons x r ih =>
    intro h c hc
    cases hpx : p x with
    | false => rw [List.dropWhile_cons_of_neg (by simp [hpx])] at h; cases h
    | true =>
      rw [List.dropWhile_cons_of_pos hpx] at h
      rcases List.mem_cons.1 hc with rfl | hc
      · exact hpx
      · exact ih h c hc

theorem hostFastL_decode (e : Enc) (l : List Nat) (hu : UOk e l) : hostFastL (Impl.decode e l) = hostFastL l := by
  unfold hostFastL
  rw [dropWhile_decode e asciiDomainChar_ascii l hu]
  cases htail : l.dropWhile Spec.asciiDomainChar with
  | nil =>
    have hall : ∀ c ∈ l, c < 0x80 := by
      intro c hc
      have := dropWhile_nil_all _ l htail c hc
      exact asciiDomainChar_ascii c this
    rw [Impl.decode_nil, decode_ascii_all e l hall]
  | cons p rest =>
    have hut : UOk e (p :: rest) := by rw [← htail]; exact hu.dropWhile _
    by_cases hp : p < 0x80
    · rw [decode_cons_ascii e p rest hp]
      simp only []
      cases rest with
      | nil => rw [Impl.decode_nil]
      | cons n t =>
        by_cases hn : n < 0x80
        · rw [decode_cons_ascii e n t hn]
        · obtain ⟨hd, hc, _⟩ := decode_cons_hi e n t hut.tail hn
          rw [hd]
          have h1 : cpOf (Impl.readChar e (n :: t)) ≥ 0x80 := by omega
          have h2 : n ≥ 0x80 := by omega
          simp [h1, h2]
    · obtain ⟨hd, hc, _⟩ := decode_cons_hi e p rest hut hp
      rw [hd]
      simp only []
      rw [if_neg (fun hh => hc hh.1), if_neg (fun hh => hp hh.1)]

/-- the decision before the IDNA path, completely: the pointer, the ASCII-domain prefix, and the verdict
    of the list model -/
theorem hostFastPathM_agrees2 (a : Array Nat) (first last : Nat) (h : first ≤ last) (hl : last ≤ a.size) :
    (hostFastPathM a first last).sat (fun r => first ≤ r.1 ∧ r.1 ≤ last ∧
      (∀ i, first ≤ i → i < r.1 → Spec.asciiDomainChar a[i]! = true) ∧
      r.2 = hostFastL (slice a first last)) := by
  unfold hostFastPathM
  have hpred : ∀ c, (do let b ← charInSetM Spec.asciiDomainChar c; pure (!b) : R Bool) =
      .ok (!Spec.asciiDomainChar c) := by
    intro c
    rw [charInSetM_ascii _ asciiDomainChar_ascii c]
    rfl
  refine R.sat_bind (findIfM_spec a first last _ (fun c => !Spec.asciiDomainChar c) hpred hl (last - first) first
    (Nat.le_refl _) (by omega)) ?_
  intro ptr ⟨p1, p2, p3, p4⟩
  have hpre : ∀ i, first ≤ i → i < ptr → Spec.asciiDomainChar a[i]! = true := by
    intro i hi1 hi2
    have := p3 i hi1 hi2
    simpa using this
  have hdw : (slice a first last).dropWhile Spec.asciiDomainChar = slice a ptr last := by
    have := dropWhile_slice Spec.asciiDomainChar a last hl (ptr - first) first (by omega)
      (by intro i hi1 hi2; exact hpre i hi1 (by omega))
      (by intro hlt; have := p4 (by omega); have e : first + (ptr - first) = ptr := by omega
          rw [e]; simpa using this)
    have e : first + (ptr - first) = ptr := by omega
    rw [e] at this
    exact this
  split
  · rename_i hpl
    subst hpl
    have hnil : (slice a first ptr).dropWhile Spec.asciiDomainChar = [] := by
      rw [hdw, slice_nil a ptr ptr (by omega)]
    rw [hasXnLabel_agrees a first ptr h hl]
    simp only [R.ok_bind]
    split
    · rename_i hxn
      rw [endsInNumber_agrees a first ptr h hl]
      simp only [R.ok_bind]
      split
      · rename_i hnum
        rw [parseIpv4M_agrees a first ptr h hl]
        simp only [R.ok_bind]
        refine R.sat_pure ⟨p1, Nat.le_refl _, hpre, ?_⟩
        simp only [hostFastL, hnil, hxn, hnum, if_true]
      · rename_i hnum
        simp only [sub_ok (Nat.le_refl first) h (Nat.le_refl ptr), R.ok_bind]
        refine R.sat_pure ⟨p1, Nat.le_refl _, hpre, ?_⟩
        simp only [hostFastL, hnil, hxn, hnum, if_true]
        rfl
    · rename_i hxn
      refine R.sat_pure ⟨p1, Nat.le_refl _, hpre, ?_⟩
      simp only [hostFastL, hnil, hxn]
      rfl
  · rename_i hpl
    have hlt : ptr < last := by omega
    rw [hostForbiddenCheckM_agrees a first last ptr p1 hlt hl]
    simp only [R.ok_bind]
    have hcons : (slice a first last).dropWhile Spec.asciiDomainChar = a[ptr]! :: slice a (ptr + 1) last := by
      rw [hdw, slice_cons a ptr last hlt hl]
    have key : hostFastL (slice a first last) =
        (if hostBadL a[ptr]! (slice a (ptr + 1) last) = true then some none else none) := by
      simp only [hostFastL, hcons]
      exact hostFast_tail _ _
    rw [key]
    cases hB : hostBadL a[ptr]! (slice a (ptr + 1) last)
    · simp only [Bool.false_eq_true, if_false]
      exact R.sat_pure ⟨p1, by omega, hpre, rfl⟩
    · simp only [if_true]
      exact R.sat_pure ⟨p1, by omega, hpre, rfl⟩

/-! ### parse_host -/

theorem parseHostM_agrees (idna : Idna) (e : Enc) (a : Array Nat) (first last : Nat) (isOpaque : Bool)
    (h : first ≤ last) (hl : last ≤ a.size) (hu : UOk e (slice a first last)) :
    parseHostM idna e a first last isOpaque =
      .ok (Impl.parseHost idna (Impl.decode e (slice a first last)) isOpaque) := by
  by_cases hfl : first = last
  · unfold parseHostM
    rw [if_pos hfl, slice_nil a first last (by omega), Impl.decode_nil]
    cases isOpaque <;> rfl
  have hlt : first < last := by omega
  have hsl := slice_cons a first last hlt hl
  by_cases hb : a[first]! = 0x5B
  · -- bracketed: IPv6
    have hdec : Impl.decode e (slice a first last) = 0x5B :: Impl.decode e (slice a (first + 1) last) := by
      rw [hsl, hb, decode_cons_ascii e _ _ (by decide)]
    unfold parseHostM
    rw [if_neg hfl]
    simp only [rd_ok (Nat.le_refl _) hlt hl, rdPrev_ok hlt (Nat.le_refl _) hl, R.ok_bind, if_pos hb]
    have hsn := slice_snoc a first last hlt hl
    by_cases hcl : a[last - 1]! = 0x5D
    · have hne : first ≠ last - 1 := by
        intro hh
        rw [← hh, hb] at hcl
        cases hcl
      rw [if_pos hcl]
      psimp
      simp only [sub_ok (by omega : first ≤ first + 1) (by omega : first + 1 ≤ last - 1) (by omega : last - 1 ≤ last),
        R.ok_bind]
      rw [parseIpv6M_agrees a (first + 1) (last - 1) (by omega) (by omega)]
      congr 1
      have hmid : slice a (first + 1) last = slice a (first + 1) (last - 1) ++ [0x5D] := by
        rw [slice_snoc a (first + 1) last (by omega) hl, hcl]
      rw [hdec, hmid, decode_concat_ascii e _ _ (by decide)]
      have humid : UOk e (slice a (first + 1) (last - 1)) := by
        refine hu.subset ?_
        intro x hx
        rw [hsl, hmid]
        exact List.mem_cons_of_mem _ (List.mem_append_left _ hx)
      have hgl : (0x5B :: (Impl.decode e (slice a (first + 1) (last - 1)) ++ [0x5D])).getLast? = some 0x5D := by
        rw [← List.cons_append, List.getLast?_concat]
      simp only [Impl.parseHost, if_true]
      rw [if_pos hgl]
      simp only [List.drop_succ_cons, List.drop_zero, List.dropLast_concat]
      unfold Impl.hostParseIpv6
      rw [ipv6Parse_decode e _ humid]
    · rw [if_neg hcl]
      congr 1
      rw [hdec]
      simp only [Impl.parseHost, if_true]
      rw [if_neg]
      intro hlast
      rw [← hdec] at hlast
      have := decode_last e _ hu 0x5D hlast (by decide)
      rw [hsn, List.getLast?_concat] at this
      exact hcl (Option.some.inj this)
  · cases isOpaque with
    | true => exact parseHostM_opaque_agrees idna e a first last h hl hu (fun _ => hb)
    | false =>
      have hne : slice a first last ≠ [] := by rw [hsl]; exact List.cons_ne_nil _ _
      have hcp := (readChar_cp e _ hne hu).2
      have hD := decode_step' e _ hne
      generalize cpOf (Impl.readChar e (slice a first last)) = c0 at hcp hD
      generalize Impl.decode e (Impl.readChar e (slice a first last)).2.2 = t at hD
      have hc0 : c0 ≠ 0x5B := by
        intro hh
        have := hcp (by omega)
        rw [hsl] at this
        have := (List.cons.inj this).1
        exact hb (by omega)
      have hscal := decode_scalars e _ hu
      have hbuff : Impl.encodeUtf16 (Impl.decode .u8 (Impl.percentDecode (c0 :: t))) = E16 (G e (slice a first last)) := by
        rw [← hD, buffUc_eq _ hscal]
        rfl
      rw [hD, parseHost_eq_fast idna c0 t hc0, hbuff, ← hD, hostFastL_decode e _ hu]
      apply R.sat_eq
      unfold parseHostM
      rw [if_neg hfl]
      simp only [rd_ok (Nat.le_refl _) hlt hl, R.ok_bind, if_neg hb, Bool.false_eq_true, if_false]
      refine R.sat_bind (hostFastPathM_agrees2 a first last h hl) ?_
      intro ⟨ptr, fast⟩ ⟨p1, p2, p3, hfast⟩
      simp only at p1 p2 p3 hfast ⊢
      rw [hfast]
      cases hostFastL (slice a first last) with
      | some r => exact R.sat_pure rfl
      | none =>
        simp only []
        rw [hostDecodeM_agrees e a first last ptr p1 p2 hl hu (fun i hi1 hi2 => asciiDomain_props _ (p3 i hi1 hi2))]
        simp only [R.ok_bind]
        cases idna (E16 (G e (slice a first last))) with
        | none => exact R.sat_pure rfl
        | some ascii =>
          simp only []
          have hany := findIfM_any ascii.toArray 0 ascii.length (charInSetM Spec.forbiddenDomain) Spec.forbiddenDomain
            (charInSetM_ascii _ forbiddenDomain_ascii) (Nat.zero_le _) (by simp)
          rw [Nat.sub_zero, slice_ofList] at hany
          refine R.sat_bind hany ?_
          intro p hp
          split
          · rename_i hpne
            rw [if_pos (hp.1 hpne)]
            exact R.sat_pure rfl
          · rename_i hpne
            have hnany : ¬ (ascii.any Spec.forbiddenDomain = true) := fun hh => hpne (hp.2 hh)
            rw [if_neg hnany]
            rw [endsInNumber_agrees ascii.toArray 0 ascii.length (Nat.zero_le _) (by simp), slice_ofList]
            simp only [R.ok_bind]
            split
            · rw [parseIpv4M_agrees ascii.toArray 0 ascii.length (Nat.zero_le _) (by simp), slice_ofList]
              exact R.sat_ok rfl
            · exact R.sat_pure rfl

end Upa.Impl.B
