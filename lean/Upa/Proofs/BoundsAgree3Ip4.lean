import Upa.Proofs.BoundsMiscAgree2Dom
/-
  Helper lemmas for C04h, part 1: `ipv4Parse` of `Upa/Impl/Bounds.lean` (url_ip.h:135-208, array + index,
  local arrays `part[6]`, `number[4]`) computes `Impl.ipv4Parse` on `slice a first last`.
-/
namespace Upa.Impl.B

/-- the finished parts, as the pointer array `part[0..dc]` delimits them -/
def partsOf (a : Array Nat) (part : Loc) (dc : Nat) : List (List Nat) :=
  (List.range dc).map (fun k => slice a (part.get k) (part.get (k + 1) - 1))

theorem partsOf_succ (a : Array Nat) (part : Loc) (dc v : Nat) :
    partsOf a ⟨part.size, fun j => if j = dc + 1 then v else part.get j⟩ (dc + 1) =
      partsOf a part dc ++ [slice a (part.get dc) (v - 1)] := by
  unfold partsOf
  rw [List.range_succ, List.map_append]
  congr 1
  · apply List.map_congr_left
    intro k hk
    have hk' : k < dc := List.mem_range.1 hk
    simp only [if_neg (by omega : ¬ k = dc + 1), if_neg (by omega : ¬ k + 1 = dc + 1)]
  · simp

theorem ipv4Char_lt (c : Nat) (h : Spec.ipv4Char c = true) : c < 256 := by
  apply Classical.byContradiction
  intro hc
  have : Spec.ipv4Char c = false := by
    simp [Spec.ipv4Char, isHex, isDigit]
    omega
  rw [this] at h
  cases h

theorem ipv4Scan_nil (cur : List Nat) (parts : List (List Nat)) :
    Impl.ipv4Scan [] cur parts = some ((cur.reverse :: parts).reverse) := by
  rw [Impl.ipv4Scan]

theorem ipv4Scan_cons (c : Nat) (cs cur : List Nat) (parts : List (List Nat)) :
    Impl.ipv4Scan (c :: cs) cur parts =
      if c = 0x2E then
        if parts.length = 4 then none
        else if cur = [] then none
        else Impl.ipv4Scan cs [] (cur.reverse :: parts)
      else if (!Spec.ipv4Char c) = true then none
      else Impl.ipv4Scan cs (c :: cur) parts := by
  rw [Impl.ipv4Scan]

theorem slice_eq_nil_iff (a : Array Nat) (p q : Nat) (hl : q ≤ a.size) : slice a p q = [] ↔ q ≤ p := by
  constructor
  · intro he
    have := slice_length a p q hl
    rw [he] at this
    simp at this
    omega
  · intro h; exact slice_nil a p q h

/-- the splitting loop: same verdict, and the pointer array delimits the parts of the list model -/
theorem ipv4Scan_agrees (a : Array Nat) (first last : Nat) (h : first ≤ last) (hl : last ≤ a.size) :
    (ipv4Scan a first last).sat (fun r => match r with
      | none => Impl.ipv4Scan (slice a first last) [] [] = none
      | some (dc, part) =>
        Impl.ipv4Scan (slice a first last) [] [] = some (partsOf a part dc ++ [slice a (part.get dc) last]) ∧
        (∀ i, first ≤ i → i < last → a[i]! < 256)) := by
  unfold ipv4Scan
  simp only [Loc.wr_ok (show 0 < (Loc.new 6).size by decide), R.ok_bind]
  refine iter_sat _
    (fun s => first ≤ s.1 ∧ s.1 ≤ last ∧ s.2.1 ≤ 4 ∧ s.2.2.size = 6 ∧ s.2.2.get s.2.1 ≤ s.1 ∧
      (∀ i, first ≤ i → i < s.1 → a[i]! < 256) ∧
      Impl.ipv4Scan (slice a s.1 last) (slice a (s.2.2.get s.2.1) s.1).reverse (partsOf a s.2.2 s.2.1).reverse =
        Impl.ipv4Scan (slice a first last) [] [])
    (fun s => last - s.1) _ ?_ _ _ ?_ ?_
  · intro ⟨it, dc, part⟩ hI
    simp only at hI ⊢
    obtain ⟨h1, h2, h3, h4, h5, h6, h7⟩ := hI
    split
    · rename_i hit
      subst hit
      refine R.sat_pure ?_
      simp only []
      rw [slice_nil a it it (Nat.le_refl _), ipv4Scan_nil] at h7
      refine ⟨?_, h6⟩
      rw [← h7]
      simp
    · rename_i hit
      have hlt : it < last := by omega
      simp only [rd_ok h1 hlt hl, R.ok_bind]
      rw [slice_cons a it last hlt hl, ipv4Scan_cons] at h7
      split
      · rename_i hdot
        rw [if_pos hdot] at h7
        have hlen : (partsOf a part dc).reverse.length = dc := by simp [partsOf]
        rw [hlen] at h7
        split
        · rename_i hd4
          rw [if_pos hd4] at h7
          exact R.sat_pure h7.symm
        · rename_i hd4
          rw [if_neg hd4] at h7
          simp only [Loc.rd_ok (by omega : dc < part.size), R.ok_bind]
          have hcur : ((slice a (part.get dc) it).reverse = []) ↔ part.get dc = it := by
            rw [List.reverse_eq_nil_iff, slice_eq_nil_iff a _ _ (by omega)]
            omega
          split
          · rename_i hpd
            rw [if_pos (hcur.2 hpd)] at h7
            exact R.sat_pure h7.symm
          · rename_i hpd
            rw [if_neg (fun hh => hpd (hcur.1 hh))] at h7
            psimp
            simp only [Loc.wr_ok (by omega : dc + 1 < part.size), R.ok_bind]
            refine R.sat_pure ?_
            simp only []
            refine ⟨⟨by omega, by omega, by omega, h4, by simp, ?_, ?_⟩, by omega⟩
            · intro i hi1 hi2
              by_cases hii : i = it
              · subst hii; rw [hdot]; decide
              · exact h6 i hi1 (by omega)
            · rw [partsOf_succ, ← h7]
              simp only [if_pos, Nat.add_sub_cancel, List.reverse_reverse, List.reverse_append,
                List.reverse_cons, List.reverse_nil, List.nil_append, List.singleton_append]
              rw [slice_nil a (it + 1) (it + 1) (Nat.le_refl _)]
              rfl
      · rename_i hdot
        rw [if_neg hdot] at h7
        split
        · rename_i hbad
          rw [if_pos hbad] at h7
          exact R.sat_pure h7.symm
        · rename_i hbad
          rw [if_neg hbad] at h7
          psimp
          refine R.sat_pure ?_
          simp only []
          refine ⟨⟨by omega, by omega, h3, h4, by omega, ?_, ?_⟩, by omega⟩
          · intro i hi1 hi2
            by_cases hii : i = it
            · subst hii
              exact ipv4Char_lt _ (by simpa using hbad)
            · exact h6 i hi1 (by omega)
          · rw [← h7, slice_snoc a (part.get dc) (it + 1) (by omega) (by omega)]
            simp only [Nat.add_sub_cancel, List.reverse_append, List.reverse_cons, List.reverse_nil,
              List.nil_append, List.singleton_append]
  · simp only [Loc.new]
    refine ⟨Nat.le_refl _, h, by omega, by first | rfl | trivial, by simp, by intro i h1 h2; omega, ?_⟩
    simp [partsOf, slice_nil]
  · rarith

/-! ### the tail of ipv4_parse on the parsed numbers -/

/-- steps 7, 8, 14.1 of the list model on the list of numbers -/
def v4Tail (number : List Nat) : Option Nat :=
  let partCount := number.length
  if (number.take (partCount - 1)).any (fun n => decide (n > 255)) then none
  else
    let ipv4 := number.getD (partCount - 1) 0
    if ipv4 > (0xFFFFFFFF >>> (8 * (partCount - 1))) then none
    else some (Impl.ipv4Parse.add (number.take (partCount - 1)) 0 ipv4)

/-- the list model, with the trailing-empty-part rule and the tail named -/
theorem ipv4Parse_list (s : List Nat) :
    Impl.ipv4Parse s =
      if s = [] then none
      else match Impl.ipv4Scan s [] [] with
        | none => none
        | some parts =>
          let parts := if parts.length > 1 ∧ parts.getLast? = some [] then parts.dropLast else parts
          if parts.length > 4 then none
          else match parts.mapM Impl.ipv4ParseNumber with
            | none => none
            | some number => v4Tail number := by
  rfl

theorem ipv4Combine_agrees (number : Loc) (pc : Nat) (hn : number.size = 4) (h1 : 1 ≤ pc) (h4 : pc ≤ 4) :
    ipv4Combine number pc = .ok (v4Tail ((List.range pc).map number.get)) := by
  have e1 : pc = 1 ∨ pc = 2 ∨ pc = 3 ∨ pc = 4 := by omega
  rcases e1 with rfl | rfl | rfl | rfl <;>
    by_cases c0 : 255 < number.get 0 <;> by_cases c1 : 255 < number.get 1 <;> by_cases c2 : 255 < number.get 2 <;>
    simp [ipv4Combine, iter, Loc.rd, hn, v4Tail, List.range_succ, Impl.ipv4Parse.add, c0, c1, c2, R.pure_eq] <;>
    (try split) <;> (try simp)

/-- `g i, …, g (j-1)` -/
def segs {α : Type} (g : Nat → α) (i j : Nat) : List α := (List.range (j - i)).map (fun t => g (i + t))

theorem segs_cons {α : Type} (g : Nat → α) (i j : Nat) (h : i < j) : segs g i j = g i :: segs g (i + 1) j := by
  unfold segs
  have e : j - i = (j - (i + 1)) + 1 := by omega
  rw [e, List.range_succ_eq_map, List.map_cons, List.map_map]
  simp only [Nat.add_zero, List.cons.injEq, true_and]
  apply List.map_congr_left
  intro t _
  simp only [Function.comp]
  congr 1
  omega

theorem segs_nil {α : Type} (g : Nat → α) (i j : Nat) (h : j ≤ i) : segs g i j = [] := by
  unfold segs
  have : j - i = 0 := by omega
  rw [this]; rfl

theorem segs_zero {α : Type} (g : Nat → α) (j : Nat) : segs g 0 j = (List.range j).map g := by
  unfold segs
  simp

theorem segs_snoc {α : Type} (g : Nat → α) (j : Nat) : segs g 0 (j + 1) = segs g 0 j ++ [g j] := by
  rw [segs_zero, segs_zero, List.range_succ, List.map_append]
  rfl

theorem segs_congr {α : Type} (g g' : Nat → α) (i j : Nat) (h : ∀ t, i ≤ t → t < j → g t = g' t) :
    segs g i j = segs g' i j := by
  unfold segs
  apply List.map_congr_left
  intro t ht
  have := List.mem_range.mp ht
  exact h (i + t) (by omega) (by omega)

theorem ipv4Parse_agrees (a : Array Nat) (first last : Nat) (h : first ≤ last) (hl : last ≤ a.size) :
    ipv4Parse a first last = .ok (Impl.ipv4Parse (slice a first last)) := by
  apply R.sat_eq
  rw [ipv4Parse_list]
  unfold ipv4Parse
  split
  · rename_i hfl
    rw [slice_nil a first last (by omega)]
    exact R.sat_pure rfl
  rename_i hne
  have hsne : slice a first last ≠ [] := fun hh => by
    have := (slice_eq_nil_iff a first last hl).1 hh
    omega
  rw [if_neg hsne]
  refine R.sat_bind (R.sat_and (ipv4Scan_sat a first last h hl) (ipv4Scan_agrees a first last h hl)) ?_
  intro scan ⟨hinv, hag⟩
  cases scan with
  | none =>
    simp only [] at hag
    rw [hag]
    exact R.sat_pure rfl
  | some dp =>
    obtain ⟨dc, part⟩ := dp
    obtain ⟨h3, h4, h5, h6, h7⟩ := hinv dc part rfl
    obtain ⟨hag, hb⟩ := hag
    rw [hag]
    simp only
    -- the parts as the numbers loop addresses them
    let seg : Nat → List Nat := fun ind => slice a (part.get ind) (if ind < dc then part.get (ind + 1) - 1 else last)
    have hP0 : partsOf a part dc = segs seg 0 dc := by
      rw [segs_zero]
      unfold partsOf
      apply List.map_congr_left
      intro k hk
      have hk' : k < dc := List.mem_range.1 hk
      simp only [seg, if_pos hk']
    have hP1 : partsOf a part dc ++ [slice a (part.get dc) last] = segs seg 0 (dc + 1) := by
      rw [segs_snoc, hP0]
      simp only [seg, if_neg (Nat.lt_irrefl dc)]
    refine R.sat_bind (P := fun b => b = decide (dc > 0 ∧ part.get dc = last)) ?_ ?_
    · split
      · rename_i hd0
        simp only [Loc.rd_ok (by omega : dc < part.size), R.ok_bind]
        exact R.sat_pure (by simp [hd0])
      · rename_i hd0
        exact R.sat_pure (by simp [hd0])
    intro dropLast hdrop
    generalize hpc : (if dropLast = true then dc + 1 - 1 else dc + 1) = partCount
    have hpc1 : 1 ≤ partCount ∧ partCount ≤ dc + 1 := by
      rw [← hpc, hdrop]; split
      · rename_i hb'; simp at hb'; omega
      · omega
    have hparts : (if (partsOf a part dc ++ [slice a (part.get dc) last]).length > 1 ∧
          (partsOf a part dc ++ [slice a (part.get dc) last]).getLast? = some [] then
          (partsOf a part dc ++ [slice a (part.get dc) last]).dropLast
        else partsOf a part dc ++ [slice a (part.get dc) last]) = segs seg 0 partCount := by
      have hlen : (partsOf a part dc).length = dc := by simp [partsOf]
      have hd := h5 dc (Nat.le_refl _)
      rw [← hpc, hdrop]
      by_cases hc : dc > 0 ∧ part.get dc = last
      · rw [if_pos (by simp [hlen, hc.1, slice_eq_nil_iff a _ _ hl]; omega)]
        simp [hc, hP0]
      · rw [if_neg (by simp [hlen, slice_eq_nil_iff a _ _ hl]; omega)]
        simp [hc, hP1]
    rw [hparts]
    have hslen : (segs seg 0 partCount).length = partCount := by simp [segs]
    simp only [hslen]
    split
    · exact R.sat_pure rfl
    rename_i hpc4
    refine R.sat_bind (iter_sat _
      (fun s => s.1 ≤ partCount ∧ s.2.size = 4 ∧
        (segs seg 0 partCount).mapM Impl.ipv4ParseNumber =
          ((segs seg s.1 partCount).mapM Impl.ipv4ParseNumber).map (fun r => segs s.2.get 0 s.1 ++ r))
      (fun s => partCount - s.1)
      (fun r => match r with
        | none => (segs seg 0 partCount).mapM Impl.ipv4ParseNumber = none
        | some number => number.size = 4 ∧
            (segs seg 0 partCount).mapM Impl.ipv4ParseNumber = some ((List.range partCount).map number.get))
      ?_ _ _ ?_ ?_) ?_
    · intro ⟨ind, number⟩ ⟨hI1, hI2, hI3⟩
      simp only at hI1 hI2 hI3 ⊢
      split
      · rename_i hind
        have a1 := h5 ind (by omega)
        refine R.sat_bind (P := fun pe => pe = (if ind < dc then part.get (ind + 1) - 1 else last) ∧
          part.get ind ≤ pe ∧ pe ≤ last) ?_ ?_
        · split
          · rename_i hid
            have a2 := h5 (ind + 1) (by omega)
            have a3 := h6 ind hid
            simp only [Loc.rd_ok (by omega : ind + 1 < part.size), R.ok_bind]
            psimp
            exact R.sat_pure ⟨rfl, by omega, by omega⟩
          · exact R.sat_pure ⟨rfl, a1.2, Nat.le_refl _⟩
        intro pe ⟨hpe0, hpe1, hpe2⟩
        simp only [Loc.rd_ok (by omega : ind < part.size), sub_ok a1.1 hpe1 hpe2, R.ok_bind]
        rw [ipv4ParseNumber_agrees a _ _ hpe1 (by omega) (fun i hi1 hi2 => hb i (by omega) (by omega))]
        simp only [R.ok_bind]
        rw [segs_cons seg ind partCount hind, List.mapM_cons] at hI3
        have hseg : seg ind = slice a (part.get ind) pe := by rw [hpe0]
        rw [hseg] at hI3
        cases hnum : Impl.ipv4ParseNumber (slice a (part.get ind) pe) with
        | none =>
          rw [hnum] at hI3
          exact R.sat_pure hI3
        | some n =>
          rw [hnum] at hI3
          simp only [Loc.wr_ok (by omega : ind < number.size), R.ok_bind]
          refine R.sat_pure ?_
          simp only []
          refine ⟨⟨by omega, hI2, ?_⟩, by omega⟩
          rw [hI3, segs_snoc]
          have hcg : segs (fun j => if j = ind then n else number.get j) 0 ind = segs number.get 0 ind := by
            apply segs_congr
            intro t _ ht
            simp only [if_neg (by omega : ¬ t = ind)]
          rw [hcg]
          cases (segs seg (ind + 1) partCount).mapM Impl.ipv4ParseNumber <;> simp
      · rename_i hind
        refine R.sat_pure ?_
        simp only []
        refine ⟨hI2, ?_⟩
        rw [hI3, segs_nil seg ind partCount (by omega)]
        have : ind = partCount := by omega
        subst this
        simp [segs_zero]
    · refine ⟨Nat.zero_le _, rfl, ?_⟩
      simp only []
      rw [segs_nil (Loc.new 4).get 0 0 (Nat.le_refl _)]
      cases (segs seg 0 partCount).mapM Impl.ipv4ParseNumber <;> simp
    · rarith
    intro numbers hnum
    cases numbers with
    | none =>
      simp only [] at hnum
      rw [hnum]
      exact R.sat_pure rfl
    | some number =>
      obtain ⟨hn4, hnum⟩ := hnum
      rw [hnum]
      simp only []
      rw [ipv4Combine_agrees number partCount hn4 hpc1.1 (by omega)]
      exact R.sat_ok rfl

end Upa.Impl.B
