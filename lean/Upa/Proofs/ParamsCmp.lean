import Upa.Basic
import Upa.Impl.Utf
import Upa.Spec.Encoding
import Upa.Spec.Form
import Upa.Impl.Form
/-
  C16, comparator part: `Impl.compareByCodeUnits` on UTF-8 byte strings orders them exactly as the
  UTF-16 code units of the decoded strings are ordered lexicographically (`Spec.lexLt`).
-/
namespace Upa.Proofs.C16
open Upa Upa.Spec Upa.Impl

/-! ### `lexLt` is a strict total order on code unit lists -/

theorem lexLt_irrefl (a : List Nat) : lexLt a a = false := by
  induction a with
  | nil => rfl
  | cons x xs ih => simp [lexLt, ih]

theorem lexLt_trans : ∀ {a b c : List Nat}, lexLt a b = true → lexLt b c = true → lexLt a c = true
  | [], [], _, h, _ => by simp [lexLt] at h
  | [], _ :: _, [], _, h => by simp [lexLt] at h
  | [], _ :: _, _ :: _, _, _ => by simp [lexLt]
  | _ :: _, [], _, h, _ => by simp [lexLt] at h
  | _ :: _, _ :: _, [], _, h => by simp [lexLt] at h
  | x :: xs, y :: ys, z :: zs, h1, h2 => by
    simp only [lexLt] at h1 h2 ⊢
    by_cases hxy : x < y
    · by_cases hyz : y < z
      · have : x < z := by omega
        simp [this]
      · by_cases hzy : y > z
        · simp [hyz, hzy] at h2
        · have : y = z := by omega
          subst this; simp [hxy]
    · by_cases hyx : x > y
      · simp [hxy, hyx] at h1
      · have : x = y := by omega
        subst this
        simp only [hxy, if_false] at h1
        by_cases hyz : x < z
        · simp [hyz]
        · by_cases hzy : x > z
          · simp [hyz, hzy] at h2
          · simp only [hyz, hzy, if_false] at h2 ⊢
            exact lexLt_trans h1 h2

theorem lexLt_asymm {a b : List Nat} (h : lexLt a b = true) : lexLt b a = false := by
  cases hb : lexLt b a with
  | false => rfl
  | true => have := lexLt_trans h hb; rw [lexLt_irrefl] at this; cases this

theorem lexLt_trichotomy : ∀ (a b : List Nat), lexLt a b = true ∨ a = b ∨ lexLt b a = true
  | [], [] => by simp
  | [], _ :: _ => by simp [lexLt]
  | _ :: _, [] => by simp [lexLt]
  | x :: xs, y :: ys => by
    simp only [lexLt]
    by_cases hxy : x < y
    · simp [hxy]
    · by_cases hyx : x > y
      · have : y < x := hyx
        simp [this]
      · have : x = y := by omega
        subst this
        simp only [hxy, if_false, List.cons.injEq, true_and]
        exact lexLt_trichotomy xs ys

theorem lexLt_incomp_eq {a b : List Nat} (h1 : lexLt a b = false) (h2 : lexLt b a = false) : a = b := by
  rcases lexLt_trichotomy a b with h | h | h
  · rw [h1] at h; cases h
  · exact h
  · rw [h2] at h; cases h

theorem lexLt_append_left (p s t : List Nat) : lexLt (p ++ s) (p ++ t) = lexLt s t := by
  induction p with
  | nil => rfl
  | cons x xs ih => simp [lexLt, ih]

theorem lexLt_cons_ne {x y : Nat} (h : x ≠ y) (s t : List Nat) :
    lexLt (x :: s) (y :: t) = decide (x < y) := by
  simp only [lexLt]
  by_cases hxy : x < y
  · simp [hxy]
  · have : x > y := by omega
    simp [hxy, this]

/-! ### bit-level facts used by the UTF-8 reader -/

theorem and_two_pow_of_lt {x s : Nat} (h : x < 2 ^ s) : x &&& 2 ^ s = 0 := by
  apply Nat.eq_of_testBit_eq
  intro j
  simp only [Nat.testBit_and, Nat.testBit_two_pow, Nat.zero_testBit]
  by_cases hj : s = j
  · subst hj; simp [Nat.testBit_lt_two_pow h]
  · simp [hj]

theorem shl6_or {x t : Nat} (h : t < 64) : (x <<< 6) ||| t = x * 64 + t := by
  rw [← Nat.shiftLeft_add_eq_or_of_lt (i := 6) (by simpa using h), Nat.shiftLeft_eq]

theorem and_1F (b : Nat) : b &&& 0x1F = b % 32 := Nat.and_two_pow_sub_one_eq_mod b 5
theorem and_F (b : Nat) : b &&& 0xF = b % 16 := Nat.and_two_pow_sub_one_eq_mod b 4
theorem and_3F (b : Nat) : b &&& 0x3F = b % 64 := Nat.and_two_pow_sub_one_eq_mod b 6
theorem and_3FF (b : Nat) : b &&& 0x3FF = b % 1024 := Nat.and_two_pow_sub_one_eq_mod b 10

theorem getD_ge {l : List Nat} {i : Nat} (h : l.length ≤ i) : l.getD i 0 = 0 := by
  rw [List.getD_eq_getElem?_getD, List.getElem?_eq_none h]; rfl

theorem lead3_lt (c : Nat) : lead3T1Bits.getD c 0 < 2 ^ 6 := by
  by_cases h : c < 16
  · revert c; decide
  · rw [getD_ge (by simp [lead3T1Bits]; omega)]; decide

theorem lead4_ge {i : Nat} (h : 16 ≤ i) : lead4T1Bits.getD i 0 = 0 :=
  getD_ge (by simp [lead4T1Bits]; omega)

theorem lead3_tbl : ∀ c, c < 16 → ∀ b1, b1 < 192 →
    lead3T1Bits.getD c 0 &&& (1 <<< (b1 >>> 5)) ≠ 0 → (c = 0 → 32 ≤ b1 % 64) ∧ (c = 13 → b1 % 64 < 32) := by
  decide +kernel

theorem lead3_tbl' : ∀ x, x < 16 → ∀ y, y < 64 → (x = 0 → 32 ≤ y) → (x = 13 → y < 32) →
    lead3T1Bits.getD x 0 &&& (1 <<< ((0x80 + y) >>> 5)) ≠ 0 := by
  decide +kernel

theorem lead4_tbl : ∀ c, c < 5 → ∀ b1, b1 < 256 →
    lead4T1Bits.getD (b1 >>> 4) 0 &&& (1 <<< c) ≠ 0 → (c = 0 → 16 ≤ b1 % 64) ∧ (c = 4 → b1 % 64 < 16) := by
  decide +kernel

theorem lead4_tbl' : ∀ x, x < 5 → ∀ y, y < 64 → (x = 0 → 16 ≤ y) → (x = 4 → y < 16) →
    lead4T1Bits.getD ((0x80 + y) >>> 4) 0 &&& (1 <<< x) ≠ 0 := by
  decide +kernel

/-- three-byte lead: the table test bounds the second byte -/
theorem lead3_cond {c b1 : Nat} (hc : c < 16)
    (h : lead3T1Bits.getD c 0 &&& (1 <<< (b1 >>> 5)) ≠ 0) :
    (c = 0 → 32 ≤ b1 % 64) ∧ (c = 13 → b1 % 64 < 32) := by
  have hb : b1 < 192 := by
    apply Classical.byContradiction; intro hn
    apply h
    rw [Nat.one_shiftLeft]
    apply and_two_pow_of_lt
    have h6 : 6 ≤ b1 >>> 5 := by rw [Nat.shiftRight_eq_div_pow]; omega
    exact Nat.lt_of_lt_of_le (lead3_lt c) (Nat.pow_le_pow_right (by decide) h6)
  exact lead3_tbl c hc b1 hb h

theorem lead4_cond {c b1 : Nat} (hc : c ≤ 4)
    (h : lead4T1Bits.getD (b1 >>> 4) 0 &&& (1 <<< c) ≠ 0) :
    (c = 0 → 16 ≤ b1 % 64) ∧ (c = 4 → b1 % 64 < 16) := by
  have hb : b1 < 256 := by
    apply Classical.byContradiction; intro hn
    apply h
    rw [lead4_ge (by rw [Nat.shiftRight_eq_div_pow]; omega), Nat.zero_and]
  exact lead4_tbl c (by omega) b1 hb h

/-! ### `readU8` -/

theorem scalar_of {cp : Nat} (h1 : cp ≤ 0x10FFFF) (h2 : ¬ (0xD800 ≤ cp ∧ cp ≤ 0xDFFF)) : isScalar cp = true := by
  simp [isScalar, isSurrogate]; omega

theorem cp2_val {a t : Nat} (ht : t ≤ 63) : (a &&& 31) <<< 6 ||| t = a % 32 * 64 + t := by
  rw [shl6_or (by omega)]; rw [show (31 : Nat) = 0x1F from rfl, and_1F]

theorem cp3_val {a b1 t : Nat} (ht : t ≤ 63) :
    ((a &&& 15) <<< 6 ||| b1 &&& 63) <<< 6 ||| t = (a % 16 * 64 + b1 % 64) * 64 + t := by
  rw [shl6_or (by omega)]
  rw [show (63 : Nat) = 0x3F from rfl, and_3F, shl6_or (Nat.mod_lt _ (by decide))]
  rw [show (15 : Nat) = 0xF from rfl, and_F]

theorem cp4_val {c b1 t t3 : Nat} (ht : t ≤ 63) (ht3 : t3 ≤ 63) :
    ((c <<< 6 ||| b1 &&& 63) <<< 6 ||| t) <<< 6 ||| t3 = ((c * 64 + b1 % 64) * 64 + t) * 64 + t3 := by
  rw [shl6_or (by omega), shl6_or (by omega)]
  rw [show (63 : Nat) = 0x3F from rfl, and_3F, shl6_or (Nat.mod_lt _ (by decide))]

theorem readU8_ge (a : Nat) (ra : List Nat) (h : 0x80 ≤ a) :
    (readU8 (a :: ra)).2.2.length ≤ ra.length ∧
    ((readU8 (a :: ra)).1 = true → 0x80 ≤ (readU8 (a :: ra)).2.1 ∧ isScalar (readU8 (a :: ra)).2.1 = true) := by
  unfold readU8
  simp only [show ¬ a < 0x80 by omega, if_false]
  split
  · simp
  · rename_i b1 r1
    split
    · split
      · split
        · split
          · simp
          · split
            · rename_i h1 h2 hc b2 r2 ht
              have hc16 : a &&& 15 < 16 := Nat.and_lt_two_pow a (n := 4) (by decide)
              have hcond := lead3_cond hc16 h2
              have ha : a &&& 15 = a % 16 := and_F a
              rw [ha] at hcond
              refine ⟨by simp; omega, fun _ => ?_⟩
              simp only
              rw [cp3_val ht]
              have hb := Nat.mod_lt b1 (show 0 < 64 by decide)
              refine ⟨by omega, scalar_of (by omega) (by omega)⟩
            · simp
        · simp
      · split
        · split
          · simp
          · split
            · split
              · simp
              · split
                · rename_i hc _ _ ht _ _ _ ht3
                  have hcond := lead4_cond hc.1 hc.2
                  refine ⟨by simp; omega, fun _ => ?_⟩
                  simp only
                  rw [cp4_val ht ht3]
                  have hb := Nat.mod_lt b1 (show 0 < 64 by decide)
                  refine ⟨by omega, scalar_of (by omega) (by omega)⟩
                · simp
            · simp
        · simp
    · split
      · split
        · rename_i _ ha ht
          refine ⟨by simp, fun _ => ?_⟩
          simp only
          rw [cp2_val ht]
          refine ⟨by omega, scalar_of (by omega) (by omega)⟩
        · simp
      · simp


theorem readU8_ascii (a : Nat) (ra : List Nat) (h : a < 0x80) : readU8 (a :: ra) = (true, a, ra) := by
  simp [readU8, h]

theorem subByte80_enc {y : Nat} (h : y < 64) : subByte80 (0x80 + y) = y := by
  simp only [subByte80]; omega

/-- the decoder inverts the Encoding Standard UTF-8 encoder on scalar values -/
theorem readU8_encode (c : Nat) (rest : List Nat) (h : isScalar c = true) :
    readU8 (utf8EncodeChar c ++ rest) = (true, c, rest) := by
  simp only [isScalar, isSurrogate, Bool.and_eq_true, decide_eq_true_eq, Bool.not_eq_true',
    Bool.and_eq_false_iff, decide_eq_false_iff_not] at h
  unfold utf8EncodeChar
  split
  · exact readU8_ascii _ _ (by omega)
  · split
    · rename_i h1 h2
      have ht : subByte80 (0x80 + c % 64) = c % 64 := subByte80_enc (Nat.mod_lt _ (by decide))
      simp only [List.cons_append, List.nil_append, readU8]
      rw [if_neg (by omega), if_neg (by omega), if_pos (by omega), ht, if_pos (by omega)]
      rw [show (0x1F : Nat) = 31 from rfl, cp2_val (by omega)]
      simp only [Prod.mk.injEq, true_and, and_true]
      omega
    · split
      · rename_i h1 h2 h3
        have ht : subByte80 (0x80 + c % 64) = c % 64 := subByte80_enc (Nat.mod_lt _ (by decide))
        have hx : (0xE0 + c / 4096) &&& 0xF = c / 4096 := by rw [and_F]; omega
        have hcond := lead3_tbl' (c / 4096) (by omega) (c / 64 % 64) (Nat.mod_lt _ (by decide))
          (by omega) (by omega)
        simp only [List.cons_append, List.nil_append, readU8]
        rw [if_neg (by omega), if_pos (by omega), if_pos (by omega)]
        simp only [hx, ht]
        rw [if_pos hcond, if_pos (by omega)]
        have hy : (0x80 + c / 64 % 64) &&& 0x3F = c / 64 % 64 := by rw [and_3F]; omega
        rw [hy, shl6_or (by omega), shl6_or (by omega)]
        simp only [Prod.mk.injEq, true_and, and_true]
        omega
      · rename_i h1 h2 h3
        have ht : subByte80 (0x80 + c % 64) = c % 64 := subByte80_enc (Nat.mod_lt _ (by decide))
        have ht2 : subByte80 (0x80 + c / 64 % 64) = c / 64 % 64 := subByte80_enc (Nat.mod_lt _ (by decide))
        have hx : 0xF0 + c / 262144 - 0xF0 = c / 262144 := by omega
        have hcond := lead4_tbl' (c / 262144) (by omega) (c / 4096 % 64) (Nat.mod_lt _ (by decide))
          (by omega) (by omega)
        simp only [List.cons_append, List.nil_append, readU8]
        rw [if_neg (by omega), if_pos (by omega), if_neg (by omega)]
        simp only [hx, ht, ht2]
        rw [if_pos ⟨by omega, hcond⟩, if_pos (by omega), if_pos (by omega)]
        have hy : (0x80 + c / 4096 % 64) &&& 0x3F = c / 4096 % 64 := by rw [and_3F]; omega
        rw [hy, shl6_or (by omega), shl6_or (by omega), shl6_or (by omega)]
        simp only [Prod.mk.injEq, true_and, and_true]
        omega


/-! ### `read_utf_char` and the decode loop on UTF-8 -/

theorem readUtfChar_ascii (a : Nat) (ra : List Nat) (h : a < 0x80) :
    readUtfChar .u8 (a :: ra) = (a, ra) := by
  simp [readUtfChar, readChar, readU8_ascii a ra h]

theorem readUtfChar_ge (a : Nat) (ra : List Nat) (h : 0x80 ≤ a) :
    (readUtfChar .u8 (a :: ra)).2.length ≤ ra.length ∧ 0x80 ≤ (readUtfChar .u8 (a :: ra)).1 ∧
      isScalar (readUtfChar .u8 (a :: ra)).1 = true := by
  have := readU8_ge a ra h
  match hr : readU8 (a :: ra) with
  | (ok, cp, r) =>
    rw [hr] at this
    simp only [readUtfChar, readChar, hr]
    cases ok with
    | true => simpa using this
    | false => exact ⟨this.1, by simp, by simp; decide⟩

theorem readUtfChar_len (a : Nat) (ra : List Nat) :
    (readUtfChar .u8 (a :: ra)).2.length ≤ ra.length := by
  by_cases h : a < 0x80
  · rw [readUtfChar_ascii a ra h]; exact Nat.le_refl _
  · exact (readUtfChar_ge a ra (by omega)).1

theorem readUtfChar_encode (c : Nat) (rest : List Nat) (h : isScalar c = true) :
    readUtfChar .u8 (utf8EncodeChar c ++ rest) = (c, rest) := by
  simp [readUtfChar, readChar, readU8_encode c rest h]

theorem decodeAux_fuel : ∀ (f1 f2 : Nat) (l : List Nat), l.length ≤ f1 → l.length ≤ f2 →
    decodeAux .u8 f1 l = decodeAux .u8 f2 l := by
  intro f1
  induction f1 with
  | zero =>
    intro f2 l h1 _
    have : l = [] := List.eq_nil_of_length_eq_zero (by omega)
    subst this
    cases f2 <;> rfl
  | succ n ih =>
    intro f2 l h1 h2
    cases l with
    | nil => cases f2 <;> rfl
    | cons a ra =>
      cases f2 with
      | zero => simp at h2
      | succ m =>
        simp only [decodeAux]
        have hl := readUtfChar_len a ra
        simp only [List.length_cons] at h1 h2
        rw [ih m _ (by omega) (by omega)]

theorem decode_nil : Impl.decode .u8 [] = [] := rfl

theorem decode_cons (a : Nat) (ra : List Nat) :
    Impl.decode .u8 (a :: ra) =
      (readUtfChar .u8 (a :: ra)).1 :: Impl.decode .u8 (readUtfChar .u8 (a :: ra)).2 := by
  simp only [Impl.decode, List.length_cons, decodeAux]
  rw [decodeAux_fuel ra.length _ _ (readUtfChar_len a ra) (Nat.le_refl _)]

/-- the UTF-16 code units of the string that a UTF-8 byte string decodes to (ill-formed
    subsequences are read as U+FFFD, exactly as `read_utf_char` does) -/
def key (x : List Nat) : List Nat := utf16Encode (Impl.decode .u8 x)

theorem key_nil : key [] = [] := rfl

theorem key_cons (a : Nat) (ra : List Nat) :
    key (a :: ra) = utf16EncodeChar (readUtfChar .u8 (a :: ra)).1 ++ key (readUtfChar .u8 (a :: ra)).2 := by
  simp [key, decode_cons, utf16Encode]

theorem decode_encode (s : List Nat) (h : ∀ c ∈ s, isScalar c = true) :
    Impl.decode .u8 (utf8Encode s) = s := by
  induction s with
  | nil => rfl
  | cons c cs ih =>
    have hc := h c (List.mem_cons_self)
    have hcs : ∀ d ∈ cs, isScalar d = true := fun d hd => h d (List.mem_cons_of_mem _ hd)
    have hne : ∃ b r, utf8EncodeChar c = b :: r := by
      unfold utf8EncodeChar; split
      · exact ⟨_, _, rfl⟩
      · split
        · exact ⟨_, _, rfl⟩
        · split <;> exact ⟨_, _, rfl⟩
    obtain ⟨b, r, hbr⟩ := hne
    have : utf8Encode (c :: cs) = b :: (r ++ utf8Encode cs) := by
      simp [utf8Encode, hbr]
    rw [this, decode_cons]
    have h2 : b :: (r ++ utf8Encode cs) = utf8EncodeChar c ++ utf8Encode cs := by simp [hbr]
    rw [h2, readUtfChar_encode c _ hc, ih hcs]

theorem key_encode (s : List Nat) (h : ∀ c ∈ s, isScalar c = true) :
    key (utf8Encode s) = utf16Encode s := by
  rw [key, decode_encode s h]


/-! ### the comparator agrees with `lexLt` on the keys -/

/-- the sign of `r` is the three-way comparison of `kx` and `ky` -/
def Agrees (r : Int) (kx ky : List Nat) : Prop :=
  (r < 0 ↔ lexLt kx ky = true) ∧ (0 < r ↔ lexLt ky kx = true)

theorem agrees_sub {x y : Nat} (h : x ≠ y) (s t : List Nat) :
    Agrees ((x : Int) - (y : Int)) (x :: s) (y :: t) := by
  simp only [Agrees, lexLt_cons_ne h, lexLt_cons_ne (Ne.symm h), decide_eq_true_eq]
  omega

theorem agrees_prefix {r : Int} {s t : List Nat} (p : List Nat) (h : Agrees r s t) :
    Agrees r (p ++ s) (p ++ t) := by
  simpa only [Agrees, lexLt_append_left] using h

theorem agrees_zero_nil : Agrees 0 [] [] := by simp [Agrees, lexLt]

/-- first code unit of a scalar value -/
def cuHead (c : Nat) : Nat := if c ≤ 0xFFFF then c else 0xD800 + (c - 0x10000) / 0x400
def cuTail (c : Nat) : List Nat := if c ≤ 0xFFFF then [] else [0xDC00 + (c - 0x10000) % 0x400]

theorem utf16EncodeChar_eq (c : Nat) : utf16EncodeChar c = cuHead c :: cuTail c := by
  unfold utf16EncodeChar cuHead cuTail; split <;> rfl

theorem cuHead_ge {c : Nat} (h : 0x80 ≤ c) : 0x80 ≤ cuHead c := by
  unfold cuHead; split <;> omega

theorem scalar_iff {c : Nat} : isScalar c = true ↔ c ≤ 0x10FFFF ∧ ¬ (0xD800 ≤ c ∧ c ≤ 0xDFFF) := by
  simp [isScalar, isSurrogate]; omega

/-- the code-unit comparison made when the two code points differ -/
theorem cmp_units {c d : Nat} (hc : isScalar c = true) (hd : isScalar d = true) (hne : c ≠ d)
    (s t : List Nat) :
    Agrees
      (if (if c ≤ 0xFFFF then c else (c >>> 10) + 0xD7C0) = (if d ≤ 0xFFFF then d else (d >>> 10) + 0xD7C0)
        then ((c &&& 0x3FF : Nat) : Int) - ((d &&& 0x3FF : Nat) : Int)
        else ((if c ≤ 0xFFFF then c else (c >>> 10) + 0xD7C0 : Nat) : Int) -
             ((if d ≤ 0xFFFF then d else (d >>> 10) + 0xD7C0 : Nat) : Int))
      (utf16EncodeChar c ++ s) (utf16EncodeChar d ++ t) := by
  rw [scalar_iff] at hc hd
  simp only [Nat.shiftRight_eq_div_pow, and_3FF]
  unfold utf16EncodeChar
  by_cases h1 : c ≤ 0xFFFF <;> by_cases h2 : d ≤ 0xFFFF
  · simp only [h1, h2, if_true, if_neg hne, List.cons_append, List.nil_append]
    exact agrees_sub hne _ _
  · simp only [h1, h2, if_true, if_false, List.cons_append, List.nil_append]
    have e : d / 2 ^ 10 + 0xD7C0 = 0xD800 + (d - 0x10000) / 0x400 := by omega
    rw [e, if_neg (by omega)]
    exact agrees_sub (by omega) _ _
  · simp only [h1, h2, if_true, if_false, List.cons_append, List.nil_append]
    have e : c / 2 ^ 10 + 0xD7C0 = 0xD800 + (c - 0x10000) / 0x400 := by omega
    rw [e, if_neg (by omega)]
    exact agrees_sub (by omega) _ _
  · simp only [h1, h2, if_false, List.cons_append, List.nil_append]
    have e1 : c / 2 ^ 10 + 0xD7C0 = 0xD800 + (c - 0x10000) / 0x400 := by omega
    have e2 : d / 2 ^ 10 + 0xD7C0 = 0xD800 + (d - 0x10000) / 0x400 := by omega
    rw [e1, e2]
    by_cases hh : 0xD800 + (c - 0x10000) / 0x400 = 0xD800 + (d - 0x10000) / 0x400
    · rw [if_pos hh, hh]
      apply agrees_prefix [_]
      have l1 : c % 1024 = (c - 0x10000) % 0x400 := by omega
      have l2 : d % 1024 = (d - 0x10000) % 0x400 := by omega
      have hlo : 0xDC00 + (c - 0x10000) % 0x400 ≠ 0xDC00 + (d - 0x10000) % 0x400 := by omega
      have := agrees_sub hlo s t
      rw [l1, l2]
      have e : (((c - 0x10000) % 0x400 : Nat) : Int) - (((d - 0x10000) % 0x400 : Nat) : Int) =
          ((0xDC00 + (c - 0x10000) % 0x400 : Nat) : Int) - ((0xDC00 + (d - 0x10000) % 0x400 : Nat) : Int) := by
        omega
      rw [e]; exact this
    · rw [if_neg hh]
      exact agrees_sub hh _ _


theorem key_cons_ascii {a : Nat} (ra : List Nat) (h : a < 0x80) : key (a :: ra) = a :: key ra := by
  rw [key_cons, readUtfChar_ascii a ra h]
  simp only [utf16EncodeChar]
  rw [if_pos (by omega)]; rfl

theorem key_cons_ge {a : Nat} (ra : List Nat) (h : 0x80 ≤ a) :
    ∃ u us, key (a :: ra) = u :: us ∧ 0x80 ≤ u := by
  rw [key_cons, utf16EncodeChar_eq]
  exact ⟨_, _, rfl, cuHead_ge (readUtfChar_ge a ra h).2.1⟩

theorem key_cons_ne_nil (a : Nat) (ra : List Nat) : ∃ u us, key (a :: ra) = u :: us := by
  rw [key_cons, utf16EncodeChar_eq]; exact ⟨_, _, rfl⟩

theorem cmpAux_agrees : ∀ (fuel : Nat) (x y : List Nat), x.length + y.length < fuel →
    Agrees (compareByCodeUnitsAux fuel x y) (key x) (key y) := by
  intro fuel
  induction fuel with
  | zero => intro x y h; omega
  | succ n ih =>
    intro x y hlen
    cases x with
    | nil =>
      cases y with
      | nil => simp only [compareByCodeUnitsAux]; exact agrees_zero_nil
      | cons b rb =>
        obtain ⟨u, us, hk⟩ := key_cons_ne_nil b rb
        simp [compareByCodeUnitsAux, Agrees, key_nil, hk, lexLt]
    | cons a ra =>
      cases y with
      | nil =>
        obtain ⟨u, us, hk⟩ := key_cons_ne_nil a ra
        simp [compareByCodeUnitsAux, Agrees, key_nil, hk, lexLt]
      | cons b rb =>
        simp only [List.length_cons] at hlen
        simp only [compareByCodeUnitsAux]
        by_cases hasc : a < 0x80 ∨ b < 0x80
        · rw [if_pos hasc]
          by_cases hab : a = b
          · subst hab
            have ha : a < 0x80 := by omega
            rw [if_pos rfl, key_cons_ascii ra ha, key_cons_ascii rb ha]
            exact agrees_prefix [a] (ih ra rb (by omega))
          · rw [if_neg hab]
            by_cases ha : a < 0x80
            · by_cases hb : b < 0x80
              · rw [key_cons_ascii ra ha, key_cons_ascii rb hb]
                exact agrees_sub hab _ _
              · obtain ⟨u, us, hk, hu⟩ := key_cons_ge rb (show 0x80 ≤ b by omega)
                rw [key_cons_ascii ra ha, hk]
                have hau : a ≠ u := by omega
                simp only [Agrees, lexLt_cons_ne hau, lexLt_cons_ne (Ne.symm hau), decide_eq_true_eq]
                omega
            · have hb : b < 0x80 := by omega
              obtain ⟨u, us, hk, hu⟩ := key_cons_ge ra (show 0x80 ≤ a by omega)
              rw [key_cons_ascii rb hb, hk]
              have hau : u ≠ b := by omega
              simp only [Agrees, lexLt_cons_ne hau, lexLt_cons_ne (Ne.symm hau), decide_eq_true_eq]
              omega
        · rw [if_neg hasc]
          have ha : 0x80 ≤ a := by omega
          have hb : 0x80 ≤ b := by omega
          obtain ⟨hl1, _, hs1⟩ := readUtfChar_ge a ra ha
          obtain ⟨hl2, _, hs2⟩ := readUtfChar_ge b rb hb
          rw [key_cons a ra, key_cons b rb]
          generalize readUtfChar .u8 (a :: ra) = p1 at *
          generalize readUtfChar .u8 (b :: rb) = p2 at *
          obtain ⟨cp1, r1⟩ := p1
          obtain ⟨cp2, r2⟩ := p2
          simp only at hl1 hl2 hs1 hs2 ⊢
          by_cases hcp : cp1 = cp2
          · subst hcp
            rw [if_pos rfl]
            exact agrees_prefix _ (ih r1 r2 (by omega))
          · rw [if_neg hcp]
            exact cmp_units hs1 hs2 hcp _ _


theorem cmp_agrees (x y : List Nat) : Agrees (compareByCodeUnits x y) (key x) (key y) :=
  cmpAux_agrees _ x y (Nat.lt_succ_self _)

theorem cmp_lt_iff (x y : List Nat) : compareByCodeUnits x y < 0 ↔ lexLt (key x) (key y) = true :=
  (cmp_agrees x y).1

theorem cmp_gt_iff (x y : List Nat) : compareByCodeUnits x y > 0 ↔ lexLt (key y) (key x) = true :=
  (cmp_agrees x y).2

theorem cmp_eq_iff (x y : List Nat) : compareByCodeUnits x y = 0 ↔ key x = key y := by
  have h := cmp_agrees x y
  constructor
  · intro h0
    apply lexLt_incomp_eq
    · cases hl : lexLt (key x) (key y) with
      | false => rfl
      | true => have := h.1.2 hl; omega
    · cases hl : lexLt (key y) (key x) with
      | false => rfl
      | true => have := h.2.2 hl; omega
  · intro hk
    rw [hk] at h
    have h1 : ¬ compareByCodeUnits x y < 0 := fun hh => by
      have := h.1.1 hh; rw [lexLt_irrefl] at this; cases this
    have h2 : ¬ 0 < compareByCodeUnits x y := fun hh => by
      have := h.2.1 hh; rw [lexLt_irrefl] at this; cases this
    omega

theorem utf16Encode_cons (c : Nat) (cs : List Nat) :
    utf16Encode (c :: cs) = utf16EncodeChar c ++ utf16Encode cs := by
  simp [utf16Encode]

theorem utf16Encode_inj : ∀ (a b : List Nat), (∀ c ∈ a, isScalar c = true) → (∀ c ∈ b, isScalar c = true) →
    utf16Encode a = utf16Encode b → a = b := by
  intro a
  induction a with
  | nil =>
    intro b _ _ h
    cases b with
    | nil => rfl
    | cons d ds => rw [utf16Encode_cons, utf16EncodeChar_eq] at h; cases h
  | cons c cs ih =>
    intro b ha hb h
    cases b with
    | nil => rw [utf16Encode_cons, utf16EncodeChar_eq] at h; cases h
    | cons d ds =>
      have hc := scalar_iff.1 (ha c List.mem_cons_self)
      have hd := scalar_iff.1 (hb d List.mem_cons_self)
      have hcs : ∀ x ∈ cs, isScalar x = true := fun x hx => ha x (List.mem_cons_of_mem _ hx)
      have hds : ∀ x ∈ ds, isScalar x = true := fun x hx => hb x (List.mem_cons_of_mem _ hx)
      rw [utf16Encode_cons, utf16Encode_cons] at h
      unfold utf16EncodeChar at h
      by_cases h1 : c ≤ 0xFFFF <;> by_cases h2 : d ≤ 0xFFFF
      · simp only [h1, h2, if_true, List.cons_append, List.nil_append, List.cons.injEq] at h
        rw [h.1, ih ds hcs hds h.2]
      · simp only [h1, h2, if_true, if_false, List.cons_append, List.nil_append, List.cons.injEq] at h
        omega
      · simp only [h1, h2, if_true, if_false, List.cons_append, List.nil_append, List.cons.injEq] at h
        omega
      · simp only [h1, h2, if_false, List.cons_append, List.nil_append, List.cons.injEq] at h
        have : c = d := by omega
        rw [this, ih ds hcs hds h.2.2]

/-! ### `nameLess` is a strict weak order (on all byte strings) -/

theorem nameLess_eq (a b : BPair) : nameLess a b = lexLt (key a.1) (key b.1) := by
  unfold nameLess
  cases h : lexLt (key a.1) (key b.1) with
  | true => exact decide_eq_true ((cmp_lt_iff _ _).2 h)
  | false =>
    apply decide_eq_false
    intro hh
    rw [(cmp_lt_iff _ _).1 hh] at h; cases h

theorem nameLess_irrefl (a : BPair) : nameLess a a = false := by
  rw [nameLess_eq, lexLt_irrefl]

theorem nameLess_trans {a b c : BPair} (h1 : nameLess a b = true) (h2 : nameLess b c = true) :
    nameLess a c = true := by
  rw [nameLess_eq] at *; exact lexLt_trans h1 h2

theorem nameLess_asymm {a b : BPair} (h : nameLess a b = true) : nameLess b a = false := by
  rw [nameLess_eq] at *; exact lexLt_asymm h

theorem nameLess_incomp_trans {a b c : BPair}
    (h1 : nameLess a b = false) (h1' : nameLess b a = false)
    (h2 : nameLess b c = false) (h2' : nameLess c b = false) :
    nameLess a c = false ∧ nameLess c a = false := by
  simp only [nameLess_eq] at *
  have e1 := lexLt_incomp_eq h1 h1'
  have e2 := lexLt_incomp_eq h2 h2'
  rw [e1, e2, lexLt_irrefl]; exact ⟨rfl, rfl⟩

/-- the `le` handed to `mergeSort` -/
def nameLe (a b : BPair) : Bool := !nameLess b a

theorem nameLe_total (a b : BPair) : (nameLe a b || nameLe b a) = true := by
  unfold nameLe
  cases h : nameLess b a with
  | false => rfl
  | true => simp [nameLess_asymm h]

theorem nameLe_trans (a b c : BPair) (h1 : nameLe a b = true) (h2 : nameLe b c = true) :
    nameLe a c = true := by
  unfold nameLe at *
  simp only [Bool.not_eq_true', nameLess_eq] at *
  cases h : lexLt (key c.1) (key a.1) with
  | false => rfl
  | true =>
    rcases lexLt_trichotomy (key a.1) (key b.1) with hab | hab | hab
    · rw [lexLt_trans h hab] at h2; cases h2
    · rw [← hab, h] at h2; cases h2
    · rw [hab] at h1; cases h1


end Upa.Proofs.C16
