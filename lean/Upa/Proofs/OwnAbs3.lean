import Upa.Proofs.OwnAbs2
/-
  C06b, layer 4 (continued): the setters; the operations on params objects.
-/
set_option linter.unusedSimpArgs false
set_option linter.unusedVariables false

namespace Upa.Proofs.Own
open Upa Upa.Impl Upa.Impl.Own

/-! ## setters -/

theorem urlSetOther_abs (h : Heap) (u : Nat) (r : Url) (u' : Nat) :
    abs (urlSetOther h u r) u' =
      if u' = u then (if (abs h u).url.isNone then abs h u else { abs h u with url := some r }) else abs h u' := by
  unfold urlSetOther
  simp only [abs_url]
  by_cases hv : (h.recOf u).isNone = true
  · simp only [hv, if_true]; split
    · subst_vars; rfl
    · rfl
  · simp only [hv, if_false]
    by_cases huu : u' = u
    · subst huu
      simp only [if_true]
      rcases hsu : sp h u' with _ | _ | p
      · rw [recOf_dead h u' hsu] at hv; simp at hv
      · rw [abs_none (by simpa using hsu), abs_none hsu]; simp [hsu]
      · rw [abs_some (p := p) (by simpa using hsu), abs_some hsu]; simp [hsu]
    · simp only [huu, if_false]
      apply abs_congr <;> simp [*]

theorem urlSetSearch_abs (h : Heap) (u : Nat) (r : Url) (e : Bool) (hi : OwnG h) (u' : Nat) :
    abs (urlSetSearch h u r e) u' =
      if u' = u then
        (if (abs h u).url.isNone then abs h u
         else if e then ({ abs h u with url := some r } : UrlObj).clearParams
         else ({ abs h u with url := some r } : UrlObj).reparseParams)
      else abs h u' := by
  obtain ⟨f, b, fu, fp⟩ := hi
  unfold urlSetSearch clearSearchParams parseSearchParams UrlObj.clearParams UrlObj.reparseParams
  simp only [abs_url, spOf_eq, sp_setRec]
  by_cases hv : (h.recOf u).isNone = true
  · simp only [hv, if_true]; split
    · subst_vars; rfl
    · rfl
  · simp only [hv, if_false]
    rcases hsu : sp h u with _ | _ | p
    · rw [recOf_dead h u hsu] at hv; simp at hv
    · by_cases huu : u' = u
      · subst huu
        cases e <;> simp [hsu] <;> rw [abs_none (by simpa using hsu), abs_none hsu] <;> simp [hsu]
      · cases e <;> simp [hsu, huu] <;> apply abs_congr <;> simp [*]
    · obtain ⟨c, hc⟩ := cont_live (f _ _ hsu)
      by_cases huu : u' = u
      · subst huu
        cases e <;> simp [hsu] <;> rw [abs_some (p := p) (by simpa using hsu), abs_some hsu] <;> simp [hsu, hc]
      · cases e <;> simp [hsu, huu] <;> apply abs_congr <;> simp [*] <;> grind

theorem live_newUrl (h : Heap) (x : Nat) : (sp (newUrl h).1 x).isSome = (decide (x = h.next) || (sp h x).isSome) := by
  unfold newUrl; simp; grind

/-- the `href` setter: parse into a temporary url, `safe_assign` it, destroy it -/
theorem urlSetHref_abs (h : Heap) (u : Nat) (res : Option Url) (hi : OwnG h) (hu : h.liveU u = true) (u' : Nat) :
    abs (urlSetHref h u res) u' =
      if u' = u then
        (match res with
         | some r => ({ abs h u with url := some r } : UrlObj).reparseParams
         | none => abs h u)
      else abs h u' := by
  unfold urlSetHref
  simp only [hu, Bool.not_true, Bool.false_eq_true, if_false]
  rcases res with _ | r
  · simp only; split
    · subst_vars; rfl
    · rfl
  · dsimp only
    rw [show (newUrl h).2 = h.next from rfl]
    have hu' := hu
    rw [liveU_eq] at hu'
    obtain ⟨ou, hou⟩ := Option.isSome_iff_exists.1 hu'
    have hut := fresh_lt hi hou
    have hdead : abs h h.next = {} := abs_dead (hi.freshU _ (Nat.le_refl _))
    have hi1 : OwnG ((newUrl h).1.setRec h.next (some r)) :=
      SameG.ownG (by unfold SameG; simp [newUrl]) (newUrl_ownG h hi)
    have e1 : ∀ x, abs ((newUrl h).1.setRec h.next (some r)) x =
        if x = h.next then { url := some r, sp := none } else abs h x := by
      intro x
      split
      · subst_vars; rw [abs_none (by simp [newUrl])]; simp [newUrl]
      · apply abs_congr <;> simp [newUrl, *]
    have l1 : ∀ x, (sp ((newUrl h).1.setRec h.next (some r)) x).isSome = (decide (x = h.next) || (sp h x).isSome) := by
      intro x; simp [live_newUrl]
    generalize (newUrl h).1.setRec h.next (some r) = h1 at *
    have lu1 : h1.liveU u = true := by rw [liveU_eq, l1]; simp [hu']
    have lt1 : h1.liveU h.next = true := by rw [liveU_eq, l1]; simp
    have e2 := urlSafeAssign_abs h1 u h.next hi1 lu1 lt1 (by omega)
    have hi2 := urlSafeAssign_ownG h1 u h.next hi1
    rw [destroyUrl_abs _ _ hi2, e2]
    simp only [e1, safeAssign, UrlObj.reparseParams]
    have hne : u ≠ h.next := by omega
    by_cases h1' : u' = h.next
    · subst h1'; simp [hdead, Ne.symm hne]
    · simp only [h1', if_false, hne]
      split
      · cases (abs h u).sp <;> simp
      · rfl

/-- the ten setters are `UrlObj.set` -/
theorem urlSet_abs (idna : Idna) (h : Heap) (u : Nat) (s : Setter) (e : Enc) (units : List Nat) (hi : OwnG h)
    (hu : h.liveU u = true) (u' : Nat) :
    abs (urlSet idna h u s e units) u' = if u' = u then ((abs h u).set idna s e units).1 else abs h u' := by
  unfold urlSet UrlObj.set
  rw [abs_url]
  split
  · rw [urlSetHref_abs h u _ hi hu]
    split
    · split <;> simp_all
    · rfl
  · rename_i hn
    split
    · subst_vars
      rw [hn]
      split <;> simp_all
    · rfl
  · rename_i r hr
    rw [urlSetSearch_abs h u _ _ hi, abs_url]
    simp [hr]
  · rename_i s' r hne1 hne2 hr
    rw [urlSetOther_abs h u, abs_url]
    simp only [hr]
    cases s' <;> simp_all

/-! ## params objects -/

theorem update_eq (r : Option Url) (p : Params) :
    UrlObj.update { url := r, sp := some p } = { url := recUpdate r p.list, sp := some p } := by
  unfold UrlObj.update recUpdate
  cases r with
  | none => rfl
  | some u => dsimp only; split <;> rfl

/-- a list edit through a params object followed by `update()` is `UrlObj.spApply` on the url that
    `url_ptr_` names, and leaves every other url as it is -/
theorem paramsMutate_abs (h : Heap) (p : Nat) (f : Params → Params) (a : Bool) (hi : OwnG h)
    (hp : h.liveP p = true) (u' : Nat) :
    abs (paramsMutate h p f a) u' = if up h p = some (some u') then (abs h u').spApply f a else abs h u' := by
  obtain ⟨fw, b, fu, fp⟩ := hi
  unfold paramsMutate
  simp only [hp, Bool.not_true, Bool.false_eq_true, if_false]
  rw [liveP_eq] at hp
  obtain ⟨o, ho⟩ := Option.isSome_iff_exists.1 hp
  obtain ⟨c, hc⟩ := cont_live ho
  have hl : h.listOf p = c.list := by simp [listOf_eq, hc]
  have hso : h.sortedOf p = c.isSorted := by simp [sortedOf_eq, hc]
  rw [hl, hso]
  by_cases hu : up h p = some (some u')
  · have hsu := b _ _ hu
    simp only [hu, if_true]
    rw [abs_some hsu]
    unfold UrlObj.spApply UrlObj.searchParams
    simp only [hc]
    split
    · rw [abs_some (p := p) (by simpa using hsu), update_eq]
      simp [recOf_update, hu, hc, listOf_eq]
    · rw [abs_some (p := p) (by simpa using hsu)]
      simp [hc]
  · simp only [hu, if_false]
    split
    · apply abs_congr <;> simp [recOf_update, *] <;> grind
    · apply abs_congr <;> simp [*] <;> grind

/-- `update()` alone is `UrlObj.update` on the url that `url_ptr_` names -/
theorem update_abs (h : Heap) (p : Nat) (hi : OwnG h) (u' : Nat) :
    abs (update h p) u' = if up h p = some (some u') then (abs h u').update else abs h u' := by
  obtain ⟨fw, b, fu, fp⟩ := hi
  by_cases hu : up h p = some (some u')
  · have hsu := b _ _ hu
    obtain ⟨c, hc⟩ := cont_live hu
    simp only [hu, if_true]
    rw [abs_some hsu, abs_some (p := p) (by simpa using hsu), hc]
    simp only [cont_update, hc, update_eq]
    simp [recOf_update, hu, hc, listOf_eq]
  · simp only [hu, if_false]
    have hj : (up h p).join ≠ some u' := by
      rcases hup : up h p with _ | _ | v <;> simp_all
    apply abs_congr <;> simp [recOf_update, hj]

/-- copy assignment to a params object is the edit "replace list and flag by the source's" -/
theorem paramsCopyAssign_eq (h : Heap) (d s : Nat) (hds : d ≠ s) (hd : h.liveP d = true) (hs : h.liveP s = true) :
    paramsCopyAssign h d s = paramsMutate h d (fun _ => { list := h.listOf s, isSorted := h.sortedOf s }) true := by
  unfold paramsCopyAssign paramsMutate
  simp [hds, hd, hs]

/-- `safe_assign` from a FREE source: the same edit on the destination's url -/
theorem paramsSafeAssign_abs (h : Heap) (d s : Nat) (hi : OwnG h) (hds : d ≠ s) (hd : h.liveP d = true)
    (hs : up h s = some none) (u' : Nat) :
    abs (paramsSafeAssign h d s) u' =
      if up h d = some (some u') then
        (abs h u').spApply (fun _ => { list := h.listOf s, isSorted := h.sortedOf s }) true
      else abs h u' := by
  have hs' : h.liveP s = true := by rw [liveP_eq, hs]; rfl
  rw [← paramsMutate_abs h d _ true hi hd]
  obtain ⟨fw, b, fu, fp⟩ := hi
  unfold paramsSafeAssign paramsMutate moveParams
  simp only [hds, hd, hs', Bool.and_self, Bool.not_true, Bool.false_eq_true, or_self, if_false, Bool.true_or, if_true]
  apply abs_congr
  · simp
  · simp [recOf_update, listOf_eq, hds, Ne.symm hds]
  · intro q hq
    have : q ≠ s := by
      intro he; subst he
      have := fw _ _ (by simpa using hq)
      rw [hs] at this; cases this
    simp [this, Ne.symm this]

/-! ## operations that leave every `abs` as it is -/

theorem newUrl_abs (h : Heap) (hi : OwnG h) (u' : Nat) : abs (newUrl h).1 u' = abs h u' := by
  unfold newUrl
  by_cases hu : u' = h.next
  · subst hu; rw [abs_none (by simp), abs_dead (hi.freshU _ (Nat.le_refl _))]; simp
  · apply abs_congr <;> simp [*]

/-- allocation of a FREE object -/
theorem allocP_free_abs (h : Heap) (c : PCell) (hi : OwnG h) (u' : Nat) : abs (h.allocP c) u' = abs h u' := by
  obtain ⟨fw, b, fu, fp⟩ := hi
  apply abs_congr <;> simp <;> grind

theorem newParams_abs (h : Heap) (l : List BPair) (hi : OwnG h) (u' : Nat) : abs (newParams h l).1 u' = abs h u' :=
  allocP_free_abs h _ hi u'
theorem paramsCopyConstruct_abs (h : Heap) (p : Nat) (hi : OwnG h) (u' : Nat) :
    abs (paramsCopyConstruct h p).1 u' = abs h u' := allocP_free_abs h _ hi u'

/-- a content change of a FREE object -/
theorem setContent_free_abs (h : Heap) (p : Nat) (l : List BPair) (s : Bool) (hi : OwnG h)
    (hp : ∀ u, up h p ≠ some (some u)) (u' : Nat) : abs (h.setContent p l s) u' = abs h u' := by
  obtain ⟨fw, b, fu, fp⟩ := hi
  apply abs_congr <;> simp <;> grind

theorem paramsMoveConstruct_abs (h : Heap) (p : Nat) (hi : OwnG h) (hp : ∀ u, up h p ≠ some (some u)) (u' : Nat) :
    abs (paramsMoveConstruct h p).1 u' = abs h u' := by
  unfold paramsMoveConstruct
  have hi1 : OwnG (h.allocP { list := h.listOf p, isSorted := h.sortedOf p, urlPtr := none }) :=
    paramsCopyConstruct_ownG h p hi
  rw [setContent_free_abs _ _ _ _ hi1, allocP_free_abs _ _ hi]
  intro u; simp only [up_allocP]; split
  · simp
  · exact hp u

theorem paramsMoveAssign_abs (h : Heap) (d s : Nat) (hi : OwnG h) (hd : ∀ u, up h d ≠ some (some u))
    (hs : ∀ u, up h s ≠ some (some u)) (u' : Nat) : abs (paramsMoveAssign h d s) u' = abs h u' := by
  unfold paramsMoveAssign moveParams
  split
  · rfl
  · have hi1 : OwnG (h.setContent d (h.listOf s) (h.sortedOf s)) := SameG.ownG (by unfold SameG; simp) hi
    rw [setContent_free_abs _ _ _ _ hi1 (by simpa using hs), setContent_free_abs _ _ _ _ hi hd]

theorem paramsSwap_abs (h : Heap) (a b : Nat) (hi : OwnG h) (ha : ∀ u, up h a ≠ some (some u))
    (hb : ∀ u, up h b ≠ some (some u)) (u' : Nat) : abs (paramsSwap h a b) u' = abs h u' := by
  unfold paramsSwap
  split
  · rfl
  · have hi1 : OwnG (h.setContent a (h.listOf b) (h.sortedOf b)) := SameG.ownG (by unfold SameG; simp) hi
    rw [setContent_free_abs _ _ _ _ hi1 (by simpa using hb), setContent_free_abs _ _ _ _ hi ha]

theorem destroyParams_abs (h : Heap) (p : Nat) (hi : OwnG h) (hp : ∀ u, up h p ≠ some (some u)) (u' : Nat) :
    abs (destroyParams h p) u' = abs h u' := by
  obtain ⟨fw, b, fu, fp⟩ := hi
  unfold destroyParams
  apply abs_congr <;> simp <;> grind

theorem urlSearchParamsRvalue_abs (h : Heap) (u : Nat) (hi : OwnG h) (hu : h.spOf u = none) (u' : Nat) :
    abs (urlSearchParamsRvalue h u).1 u' = abs h u' := by
  unfold urlSearchParamsRvalue
  rw [hu]
  exact newParams_abs h _ hi u'

end Upa.Proofs.Own
