import Upa.Impl.SetRep
import Upa.Proofs.Rep
/-
  Helpers for C05b: the in-place edits of `Impl/SetRep.lean` commute with `layout`.

  A representation is presented as a list `A` of at most eleven SEGMENTS (`mkRep`): the string is
  their concatenation, offset `i` is the total length of the first `i + 1` segments, and the offsets
  of the parts beyond `A` are `0` (never started).  `replacePart_mkRep` is the general lemma:
  splicing the segments `firstPt .. lastPt` of a segment-wise laid out string replaces exactly these
  segments and shifts exactly the later (started) offsets.
-/
set_option linter.unusedSimpArgs false

namespace Upa.Proofs.SetRep
open Upa Upa.Impl Upa.Proofs.C05

/-! ### running end offsets of a list of segments -/

def sums : Nat → List (List Nat) → List Nat
  | _, [] => []
  | acc, s :: ss => (acc + s.length) :: sums (acc + s.length) ss

@[simp] theorem sums_nil (acc : Nat) : sums acc [] = [] := rfl
@[simp] theorem sums_cons (acc : Nat) (s : List Nat) (ss : List (List Nat)) :
    sums acc (s :: ss) = (acc + s.length) :: sums (acc + s.length) ss := rfl

@[simp] theorem sums_length (acc : Nat) (A : List (List Nat)) : (sums acc A).length = A.length := by
  induction A generalizing acc with
  | nil => rfl
  | cons s ss ih => simp [ih]

theorem sums_append (acc : Nat) (A B : List (List Nat)) :
    sums acc (A ++ B) = sums acc A ++ sums (acc + A.flatten.length) B := by
  induction A generalizing acc with
  | nil => simp
  | cons s ss ih => simp [ih, Nat.add_assoc]

theorem sums_replicate_nil (acc m : Nat) : sums acc (List.replicate m []) = List.replicate m acc := by
  induction m with
  | zero => rfl
  | succ k ih => simp [List.replicate_succ, ih]

theorem sums_ge (acc : Nat) (A : List (List Nat)) : ∀ x ∈ sums acc A, acc ≤ x := by
  induction A generalizing acc with
  | nil => simp
  | cons s ss ih =>
    intro x hx
    simp only [sums_cons, List.mem_cons] at hx
    rcases hx with h | h
    · omega
    · have := ih _ x h; omega

theorem sums_getD (acc : Nat) (A : List (List Nat)) (i : Nat) (h : i < A.length) :
    (sums acc A).getD i 0 = acc + ((A.take (i + 1)).flatten).length := by
  induction A generalizing acc i with
  | nil => simp at h
  | cons s ss ih =>
    cases i with
    | zero => simp
    | succ j =>
      simp only [List.length_cons] at h
      rw [sums_cons, List.getD_cons_succ, ih (acc + s.length) j (by omega)]
      simp only [List.take_succ_cons, List.flatten_cons, List.length_append]
      omega

theorem getD_append_left' {l₁ l₂ : List Nat} {i : Nat} (h : i < l₁.length) :
    (l₁ ++ l₂).getD i 0 = l₁.getD i 0 := by
  simp [List.getD_eq_getElem?_getD, List.getElem?_append_left h]

theorem getD_append_right' {l₁ l₂ : List Nat} {i : Nat} (h : l₁.length ≤ i) :
    (l₁ ++ l₂).getD i 0 = l₂.getD (i - l₁.length) 0 := by
  simp [List.getD_eq_getElem?_getD, List.getElem?_append_right h]

theorem getD_replicate_zero (m i : Nat) : (List.replicate m 0).getD i 0 = 0 := by
  simp only [List.getD_eq_getElem?_getD, List.getElem?_replicate]
  split <;> rfl

/-! ### a representation given by segments -/

/-- string = concatenation of the segments `A`, offsets = running sums, then zeros; flags etc. of `r0` -/
def mkRep (r0 : Rep) (A : List (List Nat)) : Rep :=
  { r0 with norm := A.flatten, partEnd := sums 0 A ++ List.replicate (11 - A.length) 0 }

/-- total length of the first `n` segments -/
def off (A : List (List Nat)) (n : Nat) : Nat := ((A.take n).flatten).length

theorem pe_mkRep (r0 : Rep) (A : List (List Nat)) (i : Nat) :
    (mkRep r0 A).pe i = if i < A.length then off A (i + 1) else 0 := by
  unfold Rep.pe mkRep off
  simp only
  split
  · next h =>
    rw [getD_append_left' (by simpa using h), sums_getD 0 A i h]; simp
  · next h =>
    rw [getD_append_right' (by simpa using h), getD_replicate_zero]

theorem pe_mkRep_lt (r0 : Rep) (A : List (List Nat)) (i : Nat) (h : i < A.length) :
    (mkRep r0 A).pe i = off A (i + 1) := by rw [pe_mkRep, if_pos h]

theorem pe_mkRep_ge (r0 : Rep) (A : List (List Nat)) (i : Nat) (h : A.length ≤ i) :
    (mkRep r0 A).pe i = 0 := by rw [pe_mkRep, if_neg (by omega)]

@[simp] theorem norm_mkRep (r0 : Rep) (A : List (List Nat)) : (mkRep r0 A).norm = A.flatten := rfl


theorem mkRep_congr {r0 r1 : Rep} {A B : List (List Nat)}
    (h1 : r0.hostNotNull = r1.hostNotNull) (h2 : r0.portNotNull = r1.portNotNull)
    (h3 : r0.queryNotNull = r1.queryNotNull) (h4 : r0.fragmentNotNull = r1.fragmentNotNull)
    (h5 : r0.opaquePath = r1.opaquePath) (h6 : r0.hostType = r1.hostType)
    (h7 : r0.segCount = r1.segCount) (h8 : r0.schemeIdx = r1.schemeIdx) (hA : A = B) :
    mkRep r0 A = mkRep r1 B := by
  subst hA
  simp only [mkRep, h1, h2, h3, h4, h5, h6, h7, h8]

/-! ### the general lemma about `replace_part` -/

theorem sums_last (b : Nat) (M : List (List Nat)) (hM : M ≠ []) :
    ∃ I, I.length = M.length - 1 ∧ sums b M = I ++ [b + M.flatten.length] := by
  refine ⟨sums b M.dropLast, by simp, ?_⟩
  have h : M = M.dropLast ++ [M.getLast hM] := (List.dropLast_concat_getLast hM).symm
  conv => lhs; rw [h]
  rw [sums_append]
  conv => rhs; rw [h]
  simp [Nat.add_assoc]

theorem shiftTail_zeros (f : Nat → Nat) (m : Nat) :
    shiftTail f (List.replicate m 0) = List.replicate m 0 := by
  cases m with
  | zero => rfl
  | succ k => simp [List.replicate_succ, shiftTail]

theorem shiftTail_sums (n l m : Nat) (C : List (List Nat)) (acc : Nat) (h1 : l ≤ acc) (h2 : 0 < acc) :
    shiftTail (fun x => x + n - l) (sums acc C ++ List.replicate m 0) =
      sums (acc + n - l) C ++ List.replicate m 0 := by
  induction C generalizing acc with
  | nil => simpa using shiftTail_zeros _ m
  | cons s ss ih =>
    simp only [sums_cons, List.cons_append, shiftTail]
    rw [if_neg (by omega), ih (acc + s.length) (by omega) (by omega)]
    have e : acc + s.length + n - l = acc + n - l + s.length := by omega
    rw [e]

theorem replacePart_mkRep (r0 : Rep) (X M M' C : List (List Nat)) (str : List Nat) (len0 : Nat)
    (hM : M ≠ []) (hlen : (X ++ M ++ C).length ≤ 11)
    (hM'len : M'.length = M.length) (hM'flat : M'.flatten = str)
    (hM'sums : sums X.flatten.length M' =
      List.replicate (M.length - 1) (X.flatten.length + len0) ++ [X.flatten.length + str.length])
    (hpos : 0 < (X ++ M).flatten.length) :
    replacePart (mkRep r0 (X ++ M ++ C)) (X.length + M.length - 1) X.length str len0
      = mkRep r0 (X ++ M' ++ C) := by
  have hMlen : 0 < M.length := List.length_pos_iff.mpr hM
  have hb : (mkRep r0 (X ++ M ++ C)).partPos X.length = X.flatten.length := by
    unfold Rep.partPos
    split
    · next h =>
      rw [pe_mkRep_lt _ _ _ (by simp; omega)]
      unfold off
      have : X.length - 1 + 1 = X.length := by simp [SCHEME] at h; omega
      rw [this, List.append_assoc, List.take_left' rfl]
    · next h =>
      have : X = [] := by
        cases X with
        | nil => rfl
        | cons x xs => simp [SCHEME] at h
      simp [this]
  have hl : (mkRep r0 (X ++ M ++ C)).pe (X.length + M.length - 1) =
      X.flatten.length + M.flatten.length := by
    rw [pe_mkRep_lt _ _ _ (by simp; omega)]
    unfold off
    have : X.length + M.length - 1 + 1 = (X ++ M).length := by simp; omega
    rw [this, List.take_left' rfl]
    simp
  obtain ⟨I, hI, hIs⟩ := sums_last X.flatten.length M hM
  unfold replacePart
  simp only [hb, hl, Nat.add_sub_cancel_left]
  have hnorm : List.take X.flatten.length (mkRep r0 (X ++ M ++ C)).norm ++ str ++
      List.drop (X.flatten.length + M.flatten.length) (mkRep r0 (X ++ M ++ C)).norm =
      (X ++ M' ++ C).flatten := by
    simp only [norm_mkRep, List.flatten_append]
    rw [List.drop_left' (by simp), List.append_assoc X.flatten, List.take_left' rfl, hM'flat]
  -- the offsets
  have hZ : 11 - (X ++ M' ++ C).length = 11 - (X ++ M ++ C).length := by simp [hM'len]
  have hP : (mkRep r0 (X ++ M ++ C)).partEnd =
      sums 0 X ++ (I ++ ([X.flatten.length + M.flatten.length] ++
        (sums (X.flatten.length + M.flatten.length) C ++
          List.replicate (11 - (X ++ M ++ C).length) 0))) := by
    simp only [mkRep, sums_append, hIs, List.append_assoc, List.flatten_append, List.length_append,
      Nat.zero_add]
  have hfill : fillRange (mkRep r0 (X ++ M ++ C)).partEnd X.length (X.length + M.length - 1)
      (X.flatten.length + len0) =
      sums 0 X ++ (List.replicate (M.length - 1) (X.flatten.length + len0) ++
        ([X.flatten.length + M.flatten.length] ++
        (sums (X.flatten.length + M.flatten.length) C ++
          List.replicate (11 - (X ++ M ++ C).length) 0))) := by
    unfold fillRange
    rw [if_pos (by omega), hP, List.take_left' (by simp)]
    have e1 : X.length + M.length - 1 - X.length = M.length - 1 := by omega
    have e2 : X.length + M.length - 1 = (sums 0 X ++ I).length := by simp [hI]; omega
    rw [e1, e2, ← List.append_assoc (sums 0 X) I, List.drop_left' rfl, List.append_assoc]
  have htarget : (mkRep r0 (X ++ M' ++ C)).partEnd =
      sums 0 X ++ (List.replicate (M.length - 1) (X.flatten.length + len0) ++
        ([X.flatten.length + str.length] ++
        (sums (X.flatten.length + str.length) C ++
          List.replicate (11 - (X ++ M ++ C).length) 0))) := by
    show sums 0 (X ++ M' ++ C) ++ List.replicate (11 - (X ++ M' ++ C).length) 0 = _
    rw [hZ]
    simp only [sums_append, hM'sums, hM'flat, List.append_assoc, List.flatten_append,
      List.length_append, Nat.zero_add]
  have hpe : (if str.length = M.flatten.length then
        fillRange (mkRep r0 (X ++ M ++ C)).partEnd X.length (X.length + M.length - 1)
          (X.flatten.length + len0)
      else shiftFrom (fillRange (mkRep r0 (X ++ M ++ C)).partEnd X.length (X.length + M.length - 1)
          (X.flatten.length + len0)) (X.length + M.length - 1)
          (fun x => x + str.length - M.flatten.length)) =
      (mkRep r0 (X ++ M' ++ C)).partEnd := by
    rw [hfill, htarget]
    split
    · next h => rw [h]
    · next h =>
      unfold shiftFrom
      have e2 : X.length + M.length - 1 =
          (sums 0 X ++ List.replicate (M.length - 1) (X.flatten.length + len0)).length := by
        simp; omega
      rw [e2, ← List.append_assoc (sums 0 X), List.take_left' rfl, List.drop_left' rfl]
      have hp : 0 < X.flatten.length + M.flatten.length := by simpa using hpos
      simp only [List.cons_append, List.nil_append, shiftTail]
      rw [if_neg (by omega), shiftTail_sums _ _ _ _ _ (by omega) hp]
      have e3 : X.flatten.length + M.flatten.length + str.length - M.flatten.length =
          X.flatten.length + str.length := by omega
      rw [e3, List.append_assoc]
  rw [hnorm, hpe]
  rfl


/-! ### `A` presents the started parts of the eleven segments `S` -/

/-- `S`: the eleven segments of a laid-out record; `A`: the segments of the parts that were started
    (at least up to HOST), all the others being empty; the first segment (scheme) is non-empty -/
structure Rp (S A : List (List Nat)) : Prop where
  lenS : S.length = 11
  lo : 6 ≤ A.length
  hi : A.length ≤ 11
  pad : S = A ++ List.replicate (11 - A.length) []
  pos : 0 < off S 1

theorem flatten_replicate_nil (m : Nat) : (List.replicate m ([] : List Nat)).flatten = [] := by
  induction m with
  | zero => rfl
  | succ k ih => simp [List.replicate_succ, ih]

theorem Rp.take {S A : List (List Nat)} (h : Rp S A) {n : Nat} (hn : n ≤ A.length) :
    A.take n = S.take n := by
  conv => rhs; rw [h.pad]
  rw [List.take_append_of_le_length hn]

theorem Rp.drop {S A : List (List Nat)} (h : Rp S A) {n : Nat} (hn : n ≤ A.length) :
    S.drop n = A.drop n ++ List.replicate (11 - A.length) [] := by
  conv => lhs; rw [h.pad]
  rw [List.drop_append_of_le_length hn]

theorem Rp.flatten {S A : List (List Nat)} (h : Rp S A) : A.flatten = S.flatten := by
  conv => rhs; rw [h.pad]
  simp [flatten_replicate_nil]

theorem Rp.off {S A : List (List Nat)} (h : Rp S A) (n : Nat) : off A n = off S n := by
  unfold SetRep.off
  by_cases hn : n ≤ A.length
  · rw [h.take hn]
  · conv => rhs; rw [h.pad]
    rw [List.take_append, List.take_of_length_le (by omega)]
    simp [flatten_replicate_nil]

theorem Rp.pe {S A : List (List Nat)} (h : Rp S A) (r0 : Rep) (i : Nat) :
    (mkRep r0 A).pe i = if i < A.length then SetRep.off S (i + 1) else 0 := by
  rw [pe_mkRep, h.off]

theorem Rp.pe_lt {S A : List (List Nat)} (h : Rp S A) (r0 : Rep) (i : Nat) (hi : i < 6) :
    (mkRep r0 A).pe i = SetRep.off S (i + 1) := by
  rw [h.pe, if_pos (by have := h.lo; omega)]

theorem Rp.normLen {S A : List (List Nat)} (h : Rp S A) (r0 : Rep) :
    (mkRep r0 A).norm.length = SetRep.off S 11 := by
  rw [norm_mkRep, h.flatten]
  unfold SetRep.off
  rw [List.take_of_length_le (by rw [h.lenS]; omega)]

theorem off_mono (S : List (List Nat)) {m n : Nat} (h : m ≤ n) : off S m ≤ off S n := by
  unfold off
  have e : n = m + (n - m) := by omega
  rw [e, List.take_add]
  simp only [List.flatten_append, List.length_append]
  omega

theorem Rp.pos' {S A : List (List Nat)} (h : Rp S A) {n : Nat} (hn : 1 ≤ n) : 0 < SetRep.off S n :=
  Nat.lt_of_lt_of_le h.pos (off_mono S hn)

/-- `replace_part` on a representation presented by `A`: the segments `firstPt .. lastPt` are replaced
    by `M'` -/
theorem replacePart_Rp (r0 : Rep) {S A : List (List Nat)} (h : Rp S A) (firstPt lastPt : Nat)
    (M' : List (List Nat)) (str : List Nat) (len0 : Nat)
    (hf : firstPt ≤ lastPt) (hl : lastPt < A.length)
    (hM'len : M'.length = lastPt - firstPt + 1) (hflat : M'.flatten = str)
    (hsums : sums (off S firstPt) M' =
      List.replicate (lastPt - firstPt) (off S firstPt + len0) ++ [off S firstPt + str.length])
    (hpos' : 0 < off (S.take firstPt ++ M' ++ S.drop (lastPt + 1)) 1) :
    replacePart (mkRep r0 A) lastPt firstPt str len0 =
        mkRep r0 (A.take firstPt ++ M' ++ A.drop (lastPt + 1)) ∧
      Rp (S.take firstPt ++ M' ++ S.drop (lastPt + 1)) (A.take firstPt ++ M' ++ A.drop (lastPt + 1)) := by
  have hAdec : A = A.take firstPt ++ (A.drop firstPt).take (lastPt - firstPt + 1) ++ A.drop (lastPt + 1) := by
    have e : lastPt + 1 = firstPt + (lastPt - firstPt + 1) := by omega
    rw [e, ← List.drop_drop, List.append_assoc, List.take_append_drop, List.take_append_drop]
  have hXlen : (A.take firstPt).length = firstPt := by simp; omega
  have hMlen : ((A.drop firstPt).take (lastPt - firstPt + 1)).length = lastPt - firstPt + 1 := by
    simp; omega
  have hoffX : (A.take firstPt).flatten.length = off S firstPt := by
    rw [← h.off]; rfl
  constructor
  · have key := replacePart_mkRep r0 (A.take firstPt) ((A.drop firstPt).take (lastPt - firstPt + 1)) M'
      (A.drop (lastPt + 1)) str len0
      (by intro hc; rw [hc] at hMlen; simp at hMlen)
      (by rw [← hAdec]; exact h.hi)
      (by rw [hM'len, hMlen]) hflat
      (by rw [hMlen, hoffX]; simpa using hsums)
      (by
        have e : A.take firstPt ++ (A.drop firstPt).take (lastPt - firstPt + 1) = A.take (lastPt + 1) := by
          have e' : lastPt + 1 = firstPt + (lastPt - firstPt + 1) := by omega
          conv => rhs; rw [e', List.take_add]
        rw [e]
        have : (A.take (lastPt + 1)).flatten.length = off S (lastPt + 1) := by rw [← h.off]; rfl
        rw [this]; exact h.pos' (by omega))
    rw [← hAdec, hXlen, hMlen] at key
    have e : firstPt + (lastPt - firstPt + 1) - 1 = lastPt := by omega
    rw [e] at key
    exact key
  · have hhi := h.hi
    have hlenS := h.lenS
    have hlen' : (A.take firstPt ++ M' ++ A.drop (lastPt + 1)).length = A.length := by
      simp only [List.length_append, List.length_take, List.length_drop, hM'len]; omega
    refine ⟨?_, by rw [hlen']; exact h.lo, by rw [hlen']; exact h.hi, ?_, hpos'⟩
    · simp only [List.length_append, List.length_take, List.length_drop, hM'len, hlenS]; omega
    · rw [hlen', h.take (by omega), h.drop (by omega)]
      simp only [List.append_assoc]

/-! ### truncation, and appending through `url_serializer::start_part` -/

theorem rep_eq_mkRep {r r0 : Rep} {A : List (List Nat)} (hn : r.norm = A.flatten)
    (hp : r.partEnd = sums 0 A ++ List.replicate (11 - A.length) 0)
    (h1 : r.hostNotNull = r0.hostNotNull) (h2 : r.portNotNull = r0.portNotNull)
    (h3 : r.queryNotNull = r0.queryNotNull) (h4 : r.fragmentNotNull = r0.fragmentNotNull)
    (h5 : r.opaquePath = r0.opaquePath) (h6 : r.hostType = r0.hostType)
    (h7 : r.segCount = r0.segCount) (h8 : r.schemeIdx = r0.schemeIdx) : r = mkRep r0 A := by
  cases r
  simp only [mkRep] at *
  simp only [hn, hp, h1, h2, h3, h4, h5, h6, h7, h8]

theorem setWhileNonzero_zeros (w m : Nat) :
    setWhileNonzero w (List.replicate m 0) = List.replicate m 0 := by
  cases m with
  | zero => rfl
  | succ k => simp [List.replicate_succ, setWhileNonzero]

theorem setWhileNonzero_sums (w m : Nat) (C : List (List Nat)) (acc : Nat) (h : 0 < acc) :
    setWhileNonzero w (sums acc C ++ List.replicate m 0) =
      List.replicate C.length w ++ List.replicate m 0 := by
  induction C generalizing acc with
  | nil => simpa using setWhileNonzero_zeros w m
  | cons s ss ih =>
    simp only [sums_cons, List.cons_append, setWhileNonzero]
    rw [if_neg (by omega), ih (acc + s.length) (by omega)]
    simp [List.replicate_succ]

theorem off_succ_pos (A : List (List Nat)) (hpos : 0 < off A 1) {n : Nat} (hn : 1 ≤ n) : 0 < off A n :=
  Nat.lt_of_lt_of_le hpos (off_mono A hn)

/-- url.h:2859-2864: the string is cut at the end of part `pt - 1`, offsets from `pt` on become 0 -/
theorem truncate_mkRep (r0 : Rep) (A : List (List Nat)) (pt : Nat) (hpt : pt < A.length)
    (hpt1 : 1 ≤ pt) (hA : A.length ≤ 11) (hpos : 0 < off A 1) :
    ({ mkRep r0 A with
        norm := (mkRep r0 A).norm.take ((mkRep r0 A).pe (pt - 1)),
        partEnd := ((mkRep r0 A).partEnd.set pt 0).take (pt + 1) ++
          setWhileNonzero 0 (((mkRep r0 A).partEnd.set pt 0).drop (pt + 1)) } : Rep) =
      mkRep r0 (A.take pt) := by
  have hXlen : (A.take pt).length = pt := by simp; omega
  obtain ⟨s, C, hsC⟩ : ∃ s C, A.drop pt = s :: C := by
    cases h : A.drop pt with
    | nil => simp at h; omega
    | cons s C => exact ⟨s, C, rfl⟩
  have hAdec : A = A.take pt ++ s :: C := by rw [← hsC, List.take_append_drop]
  have hClen : A.length = pt + 1 + C.length := by
    have := congrArg List.length hAdec
    simp only [List.length_append, hXlen, List.length_cons] at this; omega
  have hpe : (mkRep r0 A).pe (pt - 1) = (A.take pt).flatten.length := by
    rw [pe_mkRep_lt _ _ _ (by omega)]
    have : pt - 1 + 1 = pt := by omega
    rw [this]; rfl
  have hv : 0 < (A.take pt).flatten.length := off_succ_pos A hpos hpt1
  apply rep_eq_mkRep <;> try rfl
  · show List.take ((mkRep r0 A).pe (pt - 1)) (mkRep r0 A).norm = _
    rw [hpe, norm_mkRep]
    have : A.flatten = (A.take pt).flatten ++ (A.drop pt).flatten := by
      rw [← List.flatten_append, List.take_append_drop]
    rw [this, List.take_left' rfl]
  · show ((mkRep r0 A).partEnd.set pt 0).take (pt + 1) ++
          setWhileNonzero 0 (((mkRep r0 A).partEnd.set pt 0).drop (pt + 1)) = _
    have hP : (mkRep r0 A).partEnd = sums 0 (A.take pt) ++
        (((A.take pt).flatten.length + s.length) ::
          (sums ((A.take pt).flatten.length + s.length) C ++ List.replicate (11 - A.length) 0)) := by
      show sums 0 A ++ List.replicate (11 - A.length) 0 = _
      conv => lhs; rw [hAdec, sums_append]
      simp only [Nat.zero_add, sums_cons, List.append_assoc, List.cons_append]
      rw [← hAdec]
    rw [hP, List.set_append_right _ _ (by simp [hXlen])]
    have e0 : pt - (sums 0 (A.take pt)).length = 0 := by simp [hXlen]
    rw [e0, List.set_cons_zero]
    have e1 : pt + 1 = (sums 0 (A.take pt) ++ [0]).length := by simp [hXlen]
    have e2 : sums 0 (A.take pt) ++ (0 :: (sums ((A.take pt).flatten.length + s.length) C ++
        List.replicate (11 - A.length) 0)) = (sums 0 (A.take pt) ++ [0]) ++
        (sums ((A.take pt).flatten.length + s.length) C ++ List.replicate (11 - A.length) 0) := by
      simp
    rw [e2, e1, List.take_left' rfl, List.drop_left' rfl,
      setWhileNonzero_sums _ _ _ _ (by omega), hXlen]
    have e3 : 11 - pt = 1 + (C.length + (11 - A.length)) := by omega
    rw [e3, List.append_assoc]
    simp only [List.cons_append, List.nil_append, List.replicate_append_replicate]
    rw [Nat.add_comm 1, List.replicate_succ]

/-- the delimiter `url_serializer::start_part` appends for the new part (second switch) -/
def delim (pt : Nat) : List Nat :=
  if pt = PORT then [0x3A] else if pt = QUERY then [0x3F] else if pt = FRAGMENT then [0x23] else []

/-- `url_serializer::start_part(pt)` with `last_pt_ = lastPt ≥ HOST_START` on a representation that
    ends with part `lastPt`; append `text`; `save_part` -/
theorem serWrite_mkRep (r0 : Rep) (X : List (List Nat)) (lastPt pt : Nat) (text : List Nat)
    (hX : X.length = lastPt + 1) (h4 : 4 ≤ lastPt) (hlt : lastPt < pt) (hpt : pt ≤ 10) :
    serSavePart ({ serStartPart (mkRep r0 X) lastPt pt with
        norm := (serStartPart (mkRep r0 X) lastPt pt).norm ++ text }) pt =
      mkRep r0 (X ++ List.replicate (pt - X.length) [] ++ [delim pt ++ text]) := by
  have c1 : ¬ (lastPt = PATH ∧ pt = PATH) := by simp only [PATH]; omega
  have c2 : ¬ lastPt = SCHEME := by simp only [SCHEME]; omega
  have c3 : ¬ lastPt = USERNAME := by simp only [USERNAME]; omega
  have c4 : ¬ lastPt = PASSWORD := by simp only [PASSWORD]; omega
  have hstart : serStartPart (mkRep r0 X) lastPt pt =
      { mkRep r0 X with
        partEnd := fillRange (mkRep r0 X).partEnd (lastPt + 1) pt (mkRep r0 X).norm.length,
        norm := (mkRep r0 X).norm ++ delim pt } := by
    unfold serStartPart
    rw [if_neg c1]
    simp only [if_neg c2, if_neg c3, if_neg c4]
    rfl
  rw [hstart]
  have hfill : fillRange (mkRep r0 X).partEnd (lastPt + 1) pt (mkRep r0 X).norm.length =
      sums 0 X ++ (List.replicate (pt - X.length) X.flatten.length ++
        (0 :: List.replicate (10 - pt) 0)) := by
    unfold fillRange
    rw [if_pos (by omega)]
    show List.take (lastPt + 1) (sums 0 X ++ List.replicate (11 - X.length) 0) ++
      List.replicate (pt - (lastPt + 1)) X.flatten.length ++
      List.drop pt (sums 0 X ++ List.replicate (11 - X.length) 0) = _
    rw [List.take_left' (by simp [hX]), List.drop_append, List.drop_of_length_le (by simp; omega)]
    simp only [sums_length, List.drop_replicate, List.nil_append, hX, List.append_assoc]
    have e : 11 - (lastPt + 1) - (pt - (lastPt + 1)) = (10 - pt) + 1 := by omega
    rw [e, List.replicate_succ]
  apply rep_eq_mkRep <;> try rfl
  · show (mkRep r0 X).norm ++ delim pt ++ text = _
    simp [flatten_replicate_nil]
  · show (fillRange (mkRep r0 X).partEnd (lastPt + 1) pt (mkRep r0 X).norm.length).set pt
        ((mkRep r0 X).norm ++ delim pt ++ text).length = _
    rw [hfill, ← List.append_assoc, List.set_append_right _ _ (by simp; omega)]
    have e0 : pt - (sums 0 X ++ List.replicate (pt - X.length) X.flatten.length).length = 0 := by
      simp; omega
    rw [e0, List.set_cons_zero]
    simp only [sums_append, sums_replicate_nil, Nat.zero_add, sums_cons, sums_nil, norm_mkRep,
      List.length_append, List.length_replicate, List.length_cons, List.length_nil,
      List.append_assoc, List.flatten_append, flatten_replicate_nil, List.append_nil,
      List.cons_append, List.nil_append]
    have e1 : 11 - (X.length + (pt - X.length + (0 + 1))) = 10 - pt := by omega
    rw [e1, Nat.add_zero]

/-- url_setter::find_last_part on a representation whose started parts are `A` -/
theorem findLastPart_mkRep (r0 : Rep) (A : List (List Nat)) (hA : 2 ≤ A.length)
    (hpos : 0 < off A 1) (d : Nat) :
    findLastPart (mkRep r0 A) (A.length - 1 + d) = A.length - 1 := by
  induction d with
  | zero =>
    obtain ⟨m, hm⟩ : ∃ m, A.length - 1 = m + 1 := ⟨A.length - 2, by omega⟩
    rw [Nat.add_zero, hm]
    unfold findLastPart
    rw [if_pos]
    rw [← hm, pe_mkRep_lt _ _ _ (by omega)]
    have := off_succ_pos A hpos (n := A.length - 1 + 1) (by omega)
    omega
  | succ k ih =>
    have e : A.length - 1 + (k + 1) = (A.length - 1 + k) + 1 := by omega
    rw [e]
    unfold findLastPart
    rw [if_neg, ih]
    rw [pe_mkRep_ge _ _ _ (by omega)]
    simp

/-! ### `url_setter::start_part` … `save_part`: the case "last part or never started" -/

theorem off_split (S : List (List Nat)) (hS : S.length = 11) (n : Nat) :
    off S 11 = off S n + (S.drop n).flatten.length := by
  unfold off
  rw [List.take_of_length_le (by omega)]
  conv => lhs; rw [← List.take_append_drop n S]
  simp only [List.flatten_append, List.length_append]

theorem eq_replicate_of_flatten_nil (L : List (List Nat)) (h : L.flatten = []) :
    L = List.replicate L.length [] := by
  induction L with
  | nil => rfl
  | cons x xs ih =>
    simp only [List.flatten_cons, List.append_eq_nil_iff] at h
    rw [List.length_cons, List.replicate_succ, ← ih h.2, h.1]

theorem Rp.drop_absent {S A : List (List Nat)} (h : Rp S A) {n : Nat} (hn : A.length ≤ n) :
    (S.drop n).flatten = [] := by
  rw [h.pad, List.drop_append, List.drop_of_length_le hn]
  simp [flatten_replicate_nil]

theorem Rp.present {S A : List (List Nat)} (h : Rp S A) {pt : Nat}
    (hne : (S.drop (pt + 1)).flatten ≠ []) : pt + 1 < A.length := by
  apply Classical.byContradiction
  intro hc
  exact hne (h.drop_absent (by omega))

theorem Rp.pe_ne_zero {S A : List (List Nat)} (h : Rp S A) (r0 : Rep) {i : Nat} (hi : i < A.length) :
    (mkRep r0 A).pe i ≠ 0 := by
  rw [h.pe, if_pos hi]
  have := h.pos' (n := i + 1) (by omega)
  omega

/-- the part `pt` is the last one with text, or was never started: it is (re)written by appending -/
theorem writePart_last (r0 : Rep) {S A : List (List Nat)} (h : Rp S A) (pt : Nat) (text : List Nat)
    (hpt5 : 5 ≤ pt) (hpt : pt ≤ 10) (hlast : (S.drop (pt + 1)).flatten = []) :
    ∃ A', writePart (mkRep r0 A) pt text = mkRep r0 A' ∧
      Rp (S.take pt ++ [delim pt ++ text] ++ S.drop (pt + 1)) A' := by
  have hlo := h.lo
  have hhi := h.hi
  have hlenS := h.lenS
  have hposA : 0 < off A 1 := by rw [h.off]; exact h.pos
  refine ⟨A.take pt ++ List.replicate (pt - (A.take pt).length) [] ++ [delim pt ++ text], ?_, ?_⟩
  · unfold writePart setStartPart
    by_cases hA : pt < A.length
    · rw [if_pos (h.pe_ne_zero r0 hA)]
      have hnot : ¬ (pt < FRAGMENT ∧ (mkRep r0 A).pe pt < (mkRep r0 A).norm.length) := by
        rw [h.pe, if_pos hA, h.normLen, off_split S hlenS (pt + 1), hlast]
        simp
      rw [if_neg hnot]
      simp only
      rw [truncate_mkRep r0 A pt hA (by omega) hhi hposA]
      simp only [Open.append, setSavePart, Bool.false_eq_true, if_false]
      have hXl : (A.take pt).length = pt - 1 + 1 := by simp; omega
      have := serWrite_mkRep r0 (A.take pt) (pt - 1) pt text hXl (by omega) (by omega) hpt
      exact this
    · have hz : (mkRep r0 A).pe pt = 0 := pe_mkRep_ge _ _ _ (by omega)
      rw [if_neg (by simp [hz])]
      have hfl : findLastPart (mkRep r0 A) pt = A.length - 1 := by
        have := findLastPart_mkRep r0 A (by omega) hposA (pt - (A.length - 1))
        have e : A.length - 1 + (pt - (A.length - 1)) = pt := by omega
        rw [e] at this; exact this
      rw [hfl]
      simp only [Open.append, setSavePart, Bool.false_eq_true, if_false]
      have htk : A.take pt = A := List.take_of_length_le (by omega)
      rw [htk]
      exact serWrite_mkRep r0 A (A.length - 1) pt text (by omega) (by omega) (by omega) hpt
  · have hdrop : S.drop (pt + 1) = List.replicate (10 - pt) [] := by
      have := eq_replicate_of_flatten_nil _ hlast
      rw [this]; simp [hlenS]
    have htake : S.take pt = A.take pt ++ List.replicate (pt - (A.take pt).length) [] := by
      conv => lhs; rw [h.pad]
      rw [List.take_append, List.take_replicate]
      congr 2
      simp only [List.length_take]; omega
    refine ⟨?_, ?_, ?_, ?_, ?_⟩
    · simp [hlenS]; omega
    · simp; omega
    · simp; omega
    · rw [htake, hdrop]
      congr 1
      simp only [List.length_append, List.length_take, List.length_replicate, List.length_cons,
        List.length_nil]
      congr 1; omega
    · have : off (S.take pt ++ [delim pt ++ text] ++ S.drop (pt + 1)) 1 = off S 1 := by
        unfold off
        rw [List.append_assoc, List.take_append_of_le_length (by simp [hlenS]; omega),
          List.take_take]
        congr 3
        omega
      rw [this]; exact h.pos

/-! ### `url_setter::start_part` … `save_part`: the case "other parts follow" (`use_strp_`) -/

theorem off_one_splice (S M R : List (List Nat)) (pt : Nat) (h1 : 1 ≤ pt) (h2 : pt ≤ S.length) :
    off (S.take pt ++ M ++ R) 1 = off S 1 := by
  unfold off
  rw [List.append_assoc, List.take_append_of_le_length (by simp; omega), List.take_take]
  congr 3
  omega

/-- the buffer `strp_` as `url_setter::start_part` initialises it (url.h:2838-2855) -/
def strpInit (r : Rep) (pt : Nat) : List Nat :=
  if pt = HOST then (if r.partLen SCHEME_SEP < 3 then [0x3A, 0x2F, 0x2F] else [])
  else if pt = PASSWORD ∨ pt = PORT then [0x3A]
  else if pt = QUERY then [0x3F]
  else []

theorem setStartPart_strp (r0 : Rep) {S A : List (List Nat)} (h : Rp S A) (pt : Nat) (text : List Nat)
    (hne : (S.drop (pt + 1)).flatten ≠ []) :
    (setStartPart (mkRep r0 A) pt).append text =
      { rep := mkRep r0 A, useStrp := true, strp := strpInit (mkRep r0 A) pt ++ text, currPt := pt } := by
  have hA : pt + 1 < A.length := h.present hne
  have hhi := h.hi
  unfold setStartPart
  rw [if_pos (h.pe_ne_zero r0 (by omega))]
  have hyes : pt < FRAGMENT ∧ (mkRep r0 A).pe pt < (mkRep r0 A).norm.length := by
    refine ⟨by simp only [FRAGMENT]; omega, ?_⟩
    rw [h.pe, if_pos (by omega), h.normLen, off_split S h.lenS (pt + 1)]
    have : (S.drop (pt + 1)).flatten.length ≠ 0 := by
      intro hc; exact hne (List.eq_nil_of_length_eq_zero hc)
    omega
  rw [if_pos hyes]
  rfl

/-- PORT / QUERY followed by other parts: `replace_part(pt, delimiter ++ text)` -/
theorem writePart_mid (r0 : Rep) {S A : List (List Nat)} (h : Rp S A) (pt : Nat) (text : List Nat)
    (hpt : pt = PORT ∨ pt = QUERY) (htext : pt = PORT → text ≠ [])
    (hne : (S.drop (pt + 1)).flatten ≠ []) :
    ∃ A', writePart (mkRep r0 A) pt text = mkRep r0 A' ∧
      Rp (S.take pt ++ [delim pt ++ text] ++ S.drop (pt + 1)) A' := by
  have hA : pt + 1 < A.length := h.present hne
  have hlenS := h.lenS
  have hhi := h.hi
  have key := replacePart_Rp r0 h pt pt [delim pt ++ text] (delim pt ++ text) 0 (Nat.le_refl _)
    (by omega) (by simp) (by simp) (by simp)
    (by rw [off_one_splice _ _ _ _ (by rcases hpt with h | h <;> simp [h, PORT, QUERY])
          (by rcases hpt with h | h <;> simp [h, PORT, QUERY, hlenS])]; exact h.pos)
  refine ⟨_, ?_, key.2⟩
  rw [← key.1]
  unfold writePart
  rw [setStartPart_strp r0 h pt text hne]
  rcases hpt with hp | hp
  · subst hp
    have : text ≠ [] := htext rfl
    simp [setSavePart, strpInit, delim, PORT, HOST, PASSWORD, USERNAME, QUERY, kPartStart,
      replacePart1, this]
  · subst hp
    simp [setSavePart, strpInit, delim, PORT, HOST, PASSWORD, USERNAME, QUERY, kPartStart,
      replacePart1]

/-- "write part" for PORT, QUERY, FRAGMENT: the segment of the part becomes delimiter ++ text -/
theorem writePart_tail (r0 : Rep) {S A : List (List Nat)} (h : Rp S A) (pt : Nat) (text : List Nat)
    (hpt : pt = PORT ∨ pt = QUERY ∨ pt = FRAGMENT) (htext : pt = PORT → text ≠ []) :
    ∃ A', writePart (mkRep r0 A) pt text = mkRep r0 A' ∧
      Rp (S.take pt ++ [delim pt ++ text] ++ S.drop (pt + 1)) A' := by
  by_cases hne : (S.drop (pt + 1)).flatten = []
  · exact writePart_last r0 h pt text (by rcases hpt with h | h | h <;> simp [h, PORT, QUERY, FRAGMENT])
      (by rcases hpt with h | h | h <;> simp [h, PORT, QUERY, FRAGMENT]) hne
  · rcases hpt with hp | hp | hp
    · exact writePart_mid r0 h pt text (Or.inl hp) htext hne
    · exact writePart_mid r0 h pt text (Or.inr hp) htext hne
    · exfalso
      subst hp
      apply hne
      rw [List.drop_of_length_le (by rw [h.lenS]; simp [FRAGMENT])]
      rfl

/-! ### clear_part -/

theorem setNull_mkRep (r0 : Rep) (A : List (List Nat)) (pt : Nat) :
    (mkRep r0 A).setNull pt = mkRep (r0.setNull pt) A := by
  unfold Rep.setNull
  split
  · rfl
  · split
    · rfl
    · split
      · rfl
      · split <;> rfl

theorem setNotNull_mkRep (r0 : Rep) (A : List (List Nat)) (pt : Nat) :
    (mkRep r0 A).setNotNull pt = mkRep (r0.setNotNull pt) A := by
  unfold Rep.setNotNull
  split
  · rfl
  · split
    · rfl
    · split
      · rfl
      · split <;> rfl

theorem setHostType_mkRep (r0 : Rep) (A : List (List Nat)) (ht : Nat) :
    (mkRep r0 A).setHostType ht = mkRep (r0.setHostType ht) A := rfl

/-- `clear_part(pt)` / `empty_part(pt)`: the segment becomes empty; when the part was never started
    nothing happens (and the segment was empty already) -/
theorem emptyPart_Rp (r0 : Rep) {S A : List (List Nat)} (h : Rp S A) (pt : Nat)
    (hpt1 : 1 ≤ pt) (hpt : pt ≤ 10) :
    (pt < A.length ∧
      replacePart1 (mkRep r0 A) pt [] = mkRep r0 (A.take pt ++ [[]] ++ A.drop (pt + 1)) ∧
      Rp (S.take pt ++ [[]] ++ S.drop (pt + 1)) (A.take pt ++ [[]] ++ A.drop (pt + 1))) ∨
    (A.length ≤ pt ∧ (mkRep r0 A).pe pt = 0 ∧ S.take pt ++ [[]] ++ S.drop (pt + 1) = S) := by
  by_cases hA : pt < A.length
  · left
    have key := replacePart_Rp r0 h pt pt [[]] [] 0 (Nat.le_refl _) hA (by simp) (by simp) (by simp)
      (by rw [off_one_splice _ _ _ _ hpt1 (by rw [h.lenS]; omega)]; exact h.pos)
    exact ⟨hA, key.1, key.2⟩
  · right
    refine ⟨by omega, pe_mkRep_ge _ _ _ (by omega), ?_⟩
    have hhi := h.hi
    have hlo := h.lo
    conv => rhs; rw [← List.take_append_drop pt S]
    rw [List.append_assoc]
    congr 1
    have : S.drop pt = List.replicate (11 - pt) [] := by
      have := eq_replicate_of_flatten_nil _ (h.drop_absent (n := pt) (by omega))
      rw [this]; simp [h.lenS]
    have e : S.drop (pt + 1) = List.replicate (10 - pt) [] := by
      rw [← List.drop_drop, this]; simp; omega
    rw [this, e]
    have e2 : 11 - pt = (10 - pt) + 1 := by omega
    rw [e2, List.replicate_succ]
    rfl

/-! ### the segments of a record -/

def segsOf (u : Url) : List (List Nat) :=
  [u.scheme, 0x3A :: sepSeg u, userSeg u, passSeg u, atSeg u, u.hostText, portSeg u, prefixSeg u,
   pathText u, querySeg u, fragSeg u]

/-- `r` is the layout of `u`, except that the offsets of some trailing parts without text may be `0` -/
def Represents (r : Rep) (u : Url) : Prop := ∃ A, Rp (segsOf u) A ∧ r = mkRep (layout u) A

theorem mkRep_segsOf (u : Url) : mkRep (layout u) (segsOf u) = layout u := by
  symm
  apply rep_eq_mkRep <;> try rfl
  · rw [layout_norm]; simp [segNorm, segsOf]
  · rw [layout_partEnd]
    simp only [segsOf, segEnds, sums_cons, sums_nil, List.length_cons, List.length_nil, oFragment,
      oQuery, oPath, oPrefix, oPort, oHost, oHostStart, oPass, oUser, oSep, oScheme]
    simp
    omega

theorem rp_segsOf (u : Url) (hs : u.scheme ≠ []) : Rp (segsOf u) (segsOf u) := by
  refine ⟨rfl, by simp [segsOf], by simp [segsOf], by simp [segsOf], ?_⟩
  simp [off, segsOf]
  exact List.length_pos_iff.mpr hs

theorem represents_layout (u : Url) (hs : u.scheme ≠ []) : Represents (layout u) u :=
  ⟨segsOf u, rp_segsOf u hs, (mkRep_segsOf u).symm⟩

theorem represents_of {r r0 : Rep} {u' : Url} {S' A' : List (List Nat)} (h : Rp S' A')
    (hS : segsOf u' = S') (hr : r = mkRep r0 A')
    (h1 : r0.hostNotNull = (layout u').hostNotNull) (h2 : r0.portNotNull = (layout u').portNotNull)
    (h3 : r0.queryNotNull = (layout u').queryNotNull)
    (h4 : r0.fragmentNotNull = (layout u').fragmentNotNull)
    (h5 : r0.opaquePath = (layout u').opaquePath) (h6 : r0.hostType = (layout u').hostType)
    (h7 : r0.segCount = (layout u').segCount) (h8 : r0.schemeIdx = (layout u').schemeIdx) :
    Represents r u' := by
  subst hS
  exact ⟨A', h, by rw [hr]; exact mkRep_congr h1 h2 h3 h4 h5 h6 h7 h8 rfl⟩

/-! ### query, fragment, port at the record level -/

theorem write_query (u : Url) (q : List Nat) {r : Rep} (h : Represents r u) :
    Represents (writePartFlag r QUERY q) { u with query := some q } := by
  obtain ⟨A, hA, rfl⟩ := h
  obtain ⟨A', h1, h2⟩ := writePart_tail (layout u) hA QUERY q (Or.inr (Or.inl rfl)) (by simp [QUERY, PORT])
  unfold writePartFlag
  rw [h1, setNotNull_mkRep]
  refine represents_of h2 ?_ rfl rfl rfl rfl rfl rfl rfl rfl rfl
  simp [segsOf, delim, QUERY, PORT, sepSeg, userSeg, passSeg, atSeg, portSeg, prefixSeg, querySeg,
    fragSeg, credOn, Url.hostText, pathText, needsPathPrefix, Url.hasCredentials]

theorem write_fragment (u : Url) (f : List Nat) {r : Rep} (h : Represents r u) :
    Represents (writePartFlag r FRAGMENT f) { u with fragment := some f } := by
  obtain ⟨A, hA, rfl⟩ := h
  obtain ⟨A', h1, h2⟩ := writePart_tail (layout u) hA FRAGMENT f (Or.inr (Or.inr rfl))
    (by simp [FRAGMENT, PORT])
  unfold writePartFlag
  rw [h1, setNotNull_mkRep]
  refine represents_of h2 ?_ rfl rfl rfl rfl rfl rfl rfl rfl rfl
  simp [segsOf, delim, QUERY, PORT, FRAGMENT, sepSeg, userSeg, passSeg, atSeg, portSeg, prefixSeg,
    querySeg, fragSeg, credOn, Url.hostText, pathText, needsPathPrefix, Url.hasCredentials]

theorem write_port (u : Url) (p : Nat) {r : Rep} (h : Represents r u) (hh : u.host.isSome) :
    Represents (writePartFlag r PORT (toDecimal p)) { u with port := some p } := by
  obtain ⟨A, hA, rfl⟩ := h
  obtain ⟨A', h1, h2⟩ := writePart_tail (layout u) hA PORT (toDecimal p) (Or.inl rfl)
    (fun _ => toDecimal_ne_nil p)
  unfold writePartFlag
  rw [h1, setNotNull_mkRep]
  refine represents_of h2 ?_ rfl rfl rfl rfl rfl rfl rfl rfl rfl
  cases hhost : u.host with
  | none => simp [hhost] at hh
  | some x =>
    simp [segsOf, delim, QUERY, PORT, FRAGMENT, sepSeg, userSeg, passSeg, atSeg, portSeg, prefixSeg,
      querySeg, fragSeg, credOn, Url.hostText, pathText, needsPathPrefix, Url.hasCredentials, hhost]

theorem portSeg_eq_nil {u : Url} (wf : RecWF u) (h : portSeg u = []) : u.port = none := by
  cases hh : u.host with
  | none => exact (wf.2 hh).2.2
  | some x =>
    cases hp : u.port with
    | none => rfl
    | some p => simp [portSeg, hh, hp] at h

theorem clear_port (u : Url) {r : Rep} (wf : RecWF u) (h : Represents r u) :
    Represents (clearPart r PORT) { u with port := none } := by
  obtain ⟨A, hA, rfl⟩ := h
  have hS : segsOf { u with port := none } =
      (segsOf u).take PORT ++ [[]] ++ (segsOf u).drop (PORT + 1) := by
    cases hhost : u.host <;>
    simp [segsOf, PORT, sepSeg, userSeg, passSeg, atSeg, portSeg, prefixSeg,
      querySeg, fragSeg, credOn, Url.hostText, pathText, needsPathPrefix, Url.hasCredentials, hhost]
  unfold clearPart
  rcases emptyPart_Rp (layout u) hA PORT (by simp [PORT]) (by simp [PORT]) with ⟨h0, h1, h2⟩ | ⟨h0, h1, h2⟩
  · rw [if_pos (hA.pe_ne_zero _ h0), h1, setNull_mkRep]
    exact represents_of h2 hS rfl rfl rfl rfl rfl rfl rfl rfl rfl
  · rw [if_neg (by simp [h1])]
    rw [h2] at hS
    have hp : u.port = none := by
      apply portSeg_eq_nil wf
      have := congrArg (fun l => l.getD 6 []) h2
      simpa [segsOf, PORT] using this.symm
    refine represents_of hA hS rfl rfl ?_ rfl rfl rfl rfl rfl rfl
    simp [layout, hp]

theorem clear_query (u : Url) {r : Rep} (h : Represents r u) :
    Represents (clearPart r QUERY) { u with query := none } := by
  obtain ⟨A, hA, rfl⟩ := h
  have hS : segsOf { u with query := none } =
      (segsOf u).take QUERY ++ [[]] ++ (segsOf u).drop (QUERY + 1) := by
    simp [segsOf, QUERY, sepSeg, userSeg, passSeg, atSeg, portSeg, prefixSeg,
      querySeg, fragSeg, credOn, Url.hostText, pathText, needsPathPrefix, Url.hasCredentials]
  unfold clearPart
  rcases emptyPart_Rp (layout u) hA QUERY (by simp [QUERY]) (by simp [QUERY]) with ⟨h0, h1, h2⟩ | ⟨h0, h1, h2⟩
  · rw [if_pos (hA.pe_ne_zero _ h0), h1, setNull_mkRep]
    exact represents_of h2 hS rfl rfl rfl rfl rfl rfl rfl rfl rfl
  · rw [if_neg (by simp [h1])]
    rw [h2] at hS
    have hp : u.query = none := by
      have := congrArg (fun l => l.getD 9 []) h2
      have hq : querySeg u = [] := by simpa [segsOf, QUERY] using this.symm
      cases hq' : u.query with
      | none => rfl
      | some q => simp [querySeg, hq'] at hq
    refine represents_of hA hS rfl rfl rfl ?_ rfl rfl rfl rfl rfl
    simp [layout, hp]

theorem clear_fragment (u : Url) {r : Rep} (h : Represents r u) :
    Represents (clearPart r FRAGMENT) { u with fragment := none } := by
  obtain ⟨A, hA, rfl⟩ := h
  have hS : segsOf { u with fragment := none } =
      (segsOf u).take FRAGMENT ++ [[]] ++ (segsOf u).drop (FRAGMENT + 1) := by
    simp [segsOf, FRAGMENT, sepSeg, userSeg, passSeg, atSeg, portSeg, prefixSeg,
      querySeg, fragSeg, credOn, Url.hostText, pathText, needsPathPrefix, Url.hasCredentials]
  unfold clearPart
  rcases emptyPart_Rp (layout u) hA FRAGMENT (by simp [FRAGMENT]) (by simp [FRAGMENT]) with
    ⟨h0, h1, h2⟩ | ⟨h0, h1, h2⟩
  · rw [if_pos (hA.pe_ne_zero _ h0), h1, setNull_mkRep]
    exact represents_of h2 hS rfl rfl rfl rfl rfl rfl rfl rfl rfl
  · rw [if_neg (by simp [h1])]
    rw [h2] at hS
    have hp : u.fragment = none := by
      have := congrArg (fun l => l.getD 10 []) h2
      have hq : fragSeg u = [] := by simpa [segsOf, FRAGMENT] using this.symm
      cases hq' : u.fragment with
      | none => rfl
      | some q => simp [fragSeg, hq'] at hq
    refine represents_of hA hS rfl rfl rfl rfl ?_ rfl rfl rfl rfl
    simp [layout, hp]

/-! ### username / password (segment level) -/

theorem repl_lit (r0 : Rep) {S A : List (List Nat)} (h : Rp S A) (firstPt lastPt : Nat)
    (M' : List (List Nat)) (str : List Nat) (len0 : Nat) {S' : List (List Nat)}
    (hf : firstPt ≤ lastPt) (hl : lastPt < 6)
    (hM'len : M'.length = lastPt - firstPt + 1) (hflat : M'.flatten = str)
    (hsums : sums (off S firstPt) M' =
      List.replicate (lastPt - firstPt) (off S firstPt + len0) ++ [off S firstPt + str.length])
    (hS' : S.take firstPt ++ M' ++ S.drop (lastPt + 1) = S')
    (hpos' : 0 < off S' 1) :
    ∃ A', replacePart (mkRep r0 A) lastPt firstPt str len0 = mkRep r0 A' ∧ Rp S' A' := by
  subst hS'
  have := replacePart_Rp r0 h firstPt lastPt M' str len0 hf (by have := h.lo; omega) hM'len hflat
    hsums hpos'
  exact ⟨_, this.1, this.2⟩

section
variable (r0 : Rep) {s0 s1 s2 s3 s4 s5 s6 s7 s8 s9 s10 : List Nat} {A : List (List Nat)}
  (h : Rp [s0, s1, s2, s3, s4, s5, s6, s7, s8, s9, s10] A)
include h

theorem isEmpty_user : (mkRep r0 A).isEmpty USERNAME = decide (s2 = []) := by
  have hlo := h.lo
  have hp1 : (mkRep r0 A).pe 1 = s0.length + s1.length := by
    rw [h.pe_lt r0 1 (by omega)]; simp [off]
  have hp2 : (mkRep r0 A).pe 2 = s0.length + s1.length + s2.length := by
    rw [h.pe_lt r0 2 (by omega)]; simp [off]; omega
  simp only [Rep.isEmpty, USERNAME, SCHEME, kPartStart, hp1, hp2]
  cases s2 <;> simp

theorem isEmpty_pass : (mkRep r0 A).isEmpty PASSWORD = decide (s3.length ≤ 1) := by
  have hlo := h.lo
  have hp2 : (mkRep r0 A).pe 2 = s0.length + s1.length + s2.length := by
    rw [h.pe_lt r0 2 (by omega)]; simp [off]; omega
  have hp3 : (mkRep r0 A).pe 3 = s0.length + s1.length + s2.length + s3.length := by
    rw [h.pe_lt r0 3 (by omega)]; simp [off]; omega
  simp only [Rep.isEmpty, PASSWORD, SCHEME, kPartStart, hp2, hp3]
  simp

theorem writePart_username_S (hhost : s5 ≠ []) (t : List Nat) :
    ∃ A', writePart (mkRep r0 A) USERNAME t = mkRep r0 A' ∧
      Rp (if t ≠ [] ∧ s2 = [] ∧ s3.length ≤ 1 then [s0, s1, t, [], [0x40], s5, s6, s7, s8, s9, s10]
          else if t = [] ∧ s3.length ≤ 1 then [s0, s1, [], [], [], s5, s6, s7, s8, s9, s10]
          else [s0, s1, t, s3, s4, s5, s6, s7, s8, s9, s10]) A' := by
  have hlo := h.lo
  have hpos : 0 < s0.length := by simpa [off] using h.pos
  have hne : (List.drop (USERNAME + 1) [s0, s1, s2, s3, s4, s5, s6, s7, s8, s9, s10]).flatten ≠ [] := by
    simp [USERNAME, hhost]
  unfold writePart
  rw [setStartPart_strp r0 h USERNAME t hne]
  have hstrp : strpInit (mkRep r0 A) USERNAME = [] := by simp [strpInit, USERNAME, HOST, PASSWORD, PORT, QUERY]
  rw [hstrp]
  have hE2 := isEmpty_user r0 h
  have hE3 := isEmpty_pass r0 h
  simp only [USERNAME, PASSWORD] at hE2 hE3
  simp only [setSavePart, Rep.hasCredentials, USERNAME, PASSWORD, HOST, PORT, hE2, hE3,
    kPartStart, List.nil_append, if_true]
  by_cases ht : t = [] <;> by_cases h2 : s2 = [] <;> by_cases h3 : s3.length ≤ 1 <;>
    simp [ht, h2, h3, replacePart1, HOST_START]
  · exact repl_lit r0 h 2 4 [[], [], []] [] 0 (by omega) (by omega) (by simp) (by simp)
      (by simp [off]) (by simp) (by simpa [off] using hpos)
  · exact repl_lit r0 h 2 2 [[]] [] 0 (by omega) (by omega) (by simp) (by simp)
      (by simp [off]) (by simp [h2]) (by simpa [off] using hpos)
  · exact repl_lit r0 h 2 4 [[], [], []] [] 0 (by omega) (by omega) (by simp) (by simp)
      (by simp [off]) (by simp) (by simpa [off] using hpos)
  · exact repl_lit r0 h 2 2 [[]] [] 0 (by omega) (by omega) (by simp) (by simp)
      (by simp [off]) (by simp) (by simpa [off] using hpos)
  · exact repl_lit r0 h 2 4 [t, [], [64]] _ t.length (by omega) (by omega) (by simp) (by simp)
      (by simp [off]; omega) (by simp) (by simpa [off] using hpos)
  · exact repl_lit r0 h 2 2 [t] t 0 (by omega) (by omega) (by simp) (by simp)
      (by simp [off]) (by simp) (by simpa [off] using hpos)
  · exact repl_lit r0 h 2 2 [t] t 0 (by omega) (by omega) (by simp) (by simp)
      (by simp [off]) (by simp) (by simpa [off] using hpos)
  · exact repl_lit r0 h 2 2 [t] t 0 (by omega) (by omega) (by simp) (by simp)
      (by simp [off]) (by simp) (by simpa [off] using hpos)

theorem writePart_password_S (hhost : s5 ≠ []) (t : List Nat) :
    ∃ A', writePart (mkRep r0 A) PASSWORD t = mkRep r0 A' ∧
      Rp (if t ≠ [] ∧ s2 = [] ∧ s3.length ≤ 1 then
            [s0, s1, s2, 0x3A :: t, [0x40], s5, s6, s7, s8, s9, s10]
          else if t = [] ∧ s2 = [] then [s0, s1, s2, [], [], s5, s6, s7, s8, s9, s10]
          else [s0, s1, s2, (if t = [] then [] else 0x3A :: t), s4, s5, s6, s7, s8, s9, s10]) A' := by
  have hlo := h.lo
  have hpos : 0 < s0.length := by simpa [off] using h.pos
  have hne : (List.drop (PASSWORD + 1) [s0, s1, s2, s3, s4, s5, s6, s7, s8, s9, s10]).flatten ≠ [] := by
    simp [PASSWORD, hhost]
  unfold writePart
  rw [setStartPart_strp r0 h PASSWORD t hne]
  have hstrp : strpInit (mkRep r0 A) PASSWORD = [0x3A] := by
    simp [strpInit, USERNAME, HOST, PASSWORD, PORT, QUERY]
  rw [hstrp]
  have hE2 := isEmpty_user r0 h
  have hE3 := isEmpty_pass r0 h
  simp only [USERNAME, PASSWORD] at hE2 hE3
  simp only [setSavePart, Rep.hasCredentials, USERNAME, PASSWORD, HOST, PORT, hE2, hE3,
    kPartStart, if_true]
  by_cases ht : t = [] <;> by_cases h2 : s2 = [] <;> by_cases h3 : s3.length ≤ 1 <;>
    simp [ht, h2, h3, replacePart1, HOST_START, hE2]
  · exact repl_lit r0 h 3 4 [[], []] [] 0 (by omega) (by omega) (by simp) (by simp)
      (by simp [off]) (by simp [h2]) (by simpa [off] using hpos)
  · exact repl_lit r0 h 3 4 [[], []] [] 0 (by omega) (by omega) (by simp) (by simp)
      (by simp [off]) (by simp [h2]) (by simpa [off] using hpos)
  · exact repl_lit r0 h 3 3 [[]] [] 0 (by omega) (by omega) (by simp) (by simp)
      (by simp [off]) (by simp) (by simpa [off] using hpos)
  · exact repl_lit r0 h 3 3 [[]] [] 0 (by omega) (by omega) (by simp) (by simp)
      (by simp [off]) (by simp) (by simpa [off] using hpos)
  · exact repl_lit r0 h 3 4 [58 :: t, [64]] _ (t.length + 1) (by omega) (by omega) (by simp) (by simp)
      (by simp [off]; omega) (by simp [h2]) (by simpa [off] using hpos)
  · exact repl_lit r0 h 3 3 [58 :: t] _ 0 (by omega) (by omega) (by simp) (by simp)
      (by simp [off]) (by simp [h2]) (by simpa [off] using hpos)
  · exact repl_lit r0 h 3 3 [58 :: t] _ 0 (by omega) (by omega) (by simp) (by simp)
      (by simp [off]) (by simp) (by simpa [off] using hpos)
  · exact repl_lit r0 h 3 3 [58 :: t] _ 0 (by omega) (by omega) (by simp) (by simp)
      (by simp [off]) (by simp) (by simpa [off] using hpos)
end

/-! ### username / password (record level) -/

theorem write_username (u : Url) (t : List Nat) {r : Rep} (h : Represents r u) {x : Host}
    (hh : u.host = some x) (hx : x.text ≠ []) :
    Represents (writePart r USERNAME t) { u with username := t } := by
  obtain ⟨A, hA, rfl⟩ := h
  unfold segsOf at hA
  obtain ⟨A', h1, h2⟩ := writePart_username_S (layout u) hA (by simp [Url.hostText, hh, hx]) t
  rw [h1]
  refine represents_of h2 ?_ rfl rfl rfl rfl rfl rfl rfl rfl rfl
  by_cases ht : t = [] <;> by_cases hu : u.username = [] <;> by_cases hp : u.password = [] <;>
    simp [segsOf, sepSeg, userSeg, passSeg, atSeg, portSeg, prefixSeg, querySeg, fragSeg, credOn,
      Url.hostText, pathText, needsPathPrefix, Url.hasCredentials, hh, ht, hu, hp]

theorem write_password (u : Url) (t : List Nat) {r : Rep} (h : Represents r u) {x : Host}
    (hh : u.host = some x) (hx : x.text ≠ []) :
    Represents (writePart r PASSWORD t) { u with password := t } := by
  obtain ⟨A, hA, rfl⟩ := h
  unfold segsOf at hA
  obtain ⟨A', h1, h2⟩ := writePart_password_S (layout u) hA (by simp [Url.hostText, hh, hx]) t
  rw [h1]
  refine represents_of h2 ?_ rfl rfl rfl rfl rfl rfl rfl rfl rfl
  by_cases ht : t = [] <;> by_cases hu : u.username = [] <;> by_cases hp : u.password = [] <;>
    simp [segsOf, sepSeg, userSeg, passSeg, atSeg, portSeg, prefixSeg, querySeg, fragSeg, credOn,
      Url.hostText, pathText, needsPathPrefix, Url.hasCredentials, hh, ht, hu, hp]

/-! ### host (segment level) -/

section
variable (r0 : Rep) {s0 s1 s2 s3 s4 s5 s6 s7 s8 s9 s10 : List Nat} {A : List (List Nat)}
  (h : Rp [s0, s1, s2, s3, s4, s5, s6, s7, s8, s9, s10] A)
include h

theorem isEmpty_prefix : (mkRep r0 A).isEmpty PATH_PREFIX = decide (s7 = []) := by
  have hlo := h.lo
  by_cases h7 : 7 < A.length
  · have hp6 : (mkRep r0 A).pe 6 = off [s0, s1, s2, s3, s4, s5, s6, s7, s8, s9, s10] 7 := by
      rw [h.pe, if_pos (by omega)]
    have hp7 : (mkRep r0 A).pe 7 = off [s0, s1, s2, s3, s4, s5, s6, s7, s8, s9, s10] 8 := by
      rw [h.pe, if_pos (by omega)]
    simp only [Rep.isEmpty, PATH_PREFIX, SCHEME, kPartStart, hp6, hp7]
    cases s7 <;> simp [off] <;> omega
  · have hp7 : (mkRep r0 A).pe 7 = 0 := by rw [h.pe r0 7, if_neg h7]
    have := h.drop_absent (n := 7) (by omega)
    simp at this
    simp [Rep.isEmpty, PATH_PREFIX, SCHEME, kPartStart, hp7, this.1]

theorem partLen_sep : (mkRep r0 A).partLen SCHEME_SEP = s1.length := by
  have hlo := h.lo
  unfold Rep.partLen
  rw [h.pe_lt r0 _ (by simp [SCHEME_SEP]), h.pe_lt r0 _ (by simp [SCHEME_SEP])]
  simp [off, SCHEME_SEP]

/-- removal of the "/." prefix in `hostDone` / `adjust_path_prefix` -/
theorem removePrefix_S :
    ∃ A', (if !(mkRep r0 A).isEmpty PATH_PREFIX then replacePart1 (mkRep r0 A) PATH_PREFIX []
        else mkRep r0 A) = mkRep r0 A' ∧
      Rp [s0, s1, s2, s3, s4, s5, s6, [], s8, s9, s10] A' := by
  rw [isEmpty_prefix r0 h]
  by_cases h7 : s7 = []
  · simp only [h7, decide_true, Bool.not_true, Bool.false_eq_true, if_false]
    subst h7
    exact ⟨A, rfl, h⟩
  · simp only [h7, decide_false, Bool.not_false, if_true]
    rcases emptyPart_Rp r0 h PATH_PREFIX (by simp [PATH_PREFIX]) (by simp [PATH_PREFIX]) with
      ⟨_, h1, h2⟩ | ⟨h0, _, _⟩
    · exact ⟨_, h1, by simpa [PATH_PREFIX] using h2⟩
    · exfalso
      have := h.drop_absent (n := 7) (by simpa [PATH_PREFIX] using h0)
      simp at this
      exact h7 this.1

theorem writePart_host_S (text : List Nat)
    (hok : s1.length < 3 → (s6 ++ s7 ++ s8 ++ s9 ++ s10) ≠ []) :
    ∃ A', writePart (mkRep r0 A) HOST text = mkRep r0 A' ∧
      Rp (if s1.length < 3 then [s0, [0x3A, 0x2F, 0x2F], [], [], [], text, s6, s7, s8, s9, s10]
          else [s0, s1, s2, s3, s4, text, s6, s7, s8, s9, s10]) A' := by
  have hpos : 0 < s0.length := by simpa [off] using h.pos
  by_cases hlast : (List.drop (HOST + 1) [s0, s1, s2, s3, s4, s5, s6, s7, s8, s9, s10]).flatten = []
  · have h3 : ¬ s1.length < 3 := by
      intro hc; apply hok hc
      simpa [HOST] using hlast
    rw [if_neg h3]
    obtain ⟨A', h1, h2⟩ := writePart_last r0 h HOST text (by simp [HOST]) (by simp [HOST]) hlast
    exact ⟨A', h1, by simpa [HOST, delim, PORT, QUERY, FRAGMENT] using h2⟩
  · unfold writePart
    rw [setStartPart_strp r0 h HOST text hlast]
    simp only [setSavePart, strpInit, partLen_sep r0 h, HOST, if_true]
    by_cases h3 : s1.length < 3
    · simp only [h3, if_true]
      exact repl_lit r0 h 1 5 [[0x3A, 0x2F, 0x2F], [], [], [], text] _ 3 (by omega) (by omega)
        (by simp) (by simp) (by simp [off]; omega) (by simp) (by simpa [off] using hpos)
    · simp only [h3, if_false, replacePart1, List.nil_append]
      exact repl_lit r0 h 5 5 [text] _ 0 (by omega) (by omega)
        (by simp) (by simp) (by simp [off]) (by simp) (by simpa [off] using hpos)

theorem writeHost_S (text : List Nat) (ht : Nat)
    (hok : s1.length < 3 → (s6 ++ s7 ++ s8 ++ s9 ++ s10) ≠ []) :
    ∃ A', writeHost (mkRep r0 A) text ht = mkRep (r0.setHostType ht) A' ∧
      Rp (if s1.length < 3 then [s0, [0x3A, 0x2F, 0x2F], [], [], [], text, s6, [], s8, s9, s10]
          else [s0, s1, s2, s3, s4, text, s6, [], s8, s9, s10]) A' := by
  obtain ⟨A1, h1, h2⟩ := writePart_host_S r0 h text hok
  unfold writeHost hostDone
  unfold writePart at h1
  simp only [h1, setHostType_mkRep]
  by_cases h3 : s1.length < 3
  · rw [if_pos h3] at h2 ⊢
    exact removePrefix_S _ h2
  · rw [if_neg h3] at h2 ⊢
    exact removePrefix_S _ h2
end

/-! ### host (record level) -/

/-- what the representation needs of a record, beyond `RecWF`:
    * a null host comes with a non-empty list path unless the path is opaque (the parser never
      produces "scheme:" with an empty non-opaque path: `path_start_state`/`path_state` append at
      least one segment when there is no host; `url_setter::start_part(HOST)` relies on it, see
      `C05b_host_null_empty_path_counterexample`);
    * an opaque path comes with a null host. -/
def RepOk (u : Url) : Prop :=
  RecWF u ∧ (u.host = none → u.hasOpaquePath = false → u.path ≠ []) ∧
    (u.hasOpaquePath = true → u.host = none)

instance (u : Url) : Decidable (RepOk u) := by unfold RepOk; infer_instance

theorem pathText_ne_nil {u : Url} (ho : u.hasOpaquePath = false) (hp : u.path ≠ []) :
    pathText u ≠ [] := by
  unfold pathText
  rw [ho]
  cases hpp : u.path with
  | nil => exact absurd hpp hp
  | cons a b => simp

theorem write_host (u : Url) (hd : Host) {r : Rep} (ok : RepOk u) (h : Represents r u)
    (ho : u.hasOpaquePath = false) :
    Represents (writeHost r hd.text (hostKindCode hd.kind)) { u with host := some hd } := by
  obtain ⟨A, hA, rfl⟩ := h
  unfold segsOf at hA
  obtain ⟨wf, hpath, _⟩ := ok
  have hok : (0x3A :: sepSeg u).length < 3 →
      (portSeg u ++ prefixSeg u ++ pathText u ++ querySeg u ++ fragSeg u) ≠ [] := by
    intro hlen
    cases hh : u.host with
    | some y => simp [sepSeg, hh] at hlen
    | none =>
      have := pathText_ne_nil ho (hpath hh ho)
      simp [this]
  obtain ⟨A', h1, h2⟩ := writeHost_S (layout u) hA hd.text (hostKindCode hd.kind) hok
  rw [h1]
  refine represents_of h2 ?_ rfl rfl rfl rfl rfl rfl rfl rfl rfl
  cases hh : u.host with
  | none =>
    obtain ⟨hu, hp, hport⟩ := wf.2 hh
    simp [segsOf, sepSeg, userSeg, passSeg, atSeg, portSeg, prefixSeg, querySeg, fragSeg, credOn,
      Url.hostText, pathText, needsPathPrefix, Url.hasCredentials, hh, hu, hp, hport]
  | some y =>
    simp [segsOf, sepSeg, userSeg, passSeg, atSeg, portSeg, prefixSeg, querySeg, fragSeg, credOn,
      Url.hostText, pathText, needsPathPrefix, Url.hasCredentials, hh]

theorem set_empty_host (u : Url) {r : Rep} (h : Represents r u) (hh : u.host.isSome) :
    Represents (setEmptyHost r) { u with host := some emptyHost } := by
  obtain ⟨A, hA, rfl⟩ := h
  unfold segsOf at hA
  obtain ⟨y, hy⟩ := Option.isSome_iff_exists.mp hh
  have hok : (0x3A :: sepSeg u).length < 3 →
      (portSeg u ++ prefixSeg u ++ pathText u ++ querySeg u ++ fragSeg u) ≠ [] := by
    intro hlen; simp [sepSeg, hy] at hlen
  obtain ⟨A', h1, h2⟩ := writePart_host_S (layout u) hA [] hok
  unfold setEmptyHost
  rw [h1, setHostType_mkRep]
  refine represents_of h2 ?_ rfl rfl rfl rfl rfl rfl rfl rfl rfl
  simp [segsOf, sepSeg, userSeg, passSeg, atSeg, portSeg, prefixSeg, querySeg, fragSeg, credOn,
    Url.hostText, pathText, needsPathPrefix, Url.hasCredentials, hy, emptyHost]

theorem empty_host (u : Url) {r : Rep} (h : Represents r u) (hh : u.host.isSome) :
    Represents (emptyHostRep r) { u with host := some emptyHost } := by
  obtain ⟨A, hA, rfl⟩ := h
  obtain ⟨y, hy⟩ := Option.isSome_iff_exists.mp hh
  have hlo := hA.lo
  unfold emptyHostRep emptyPart
  rw [if_pos (hA.pe_ne_zero _ (by simp only [HOST]; omega))]
  unfold segsOf at hA
  have hpos : 0 < u.scheme.length := by simpa [off] using hA.pos
  obtain ⟨A', h1, h2⟩ := repl_lit (layout u) hA 5 5 [[]] [] 0 (by omega) (by omega) (by simp)
    (by simp) (by simp [off]) rfl (by simpa [off] using hpos)
  unfold replacePart1
  simp only [HOST]
  rw [h1, setHostType_mkRep]
  refine represents_of h2 ?_ rfl rfl rfl rfl rfl rfl rfl rfl rfl
  simp [segsOf, sepSeg, userSeg, passSeg, atSeg, portSeg, prefixSeg, querySeg, fragSeg, credOn,
    Url.hostText, pathText, needsPathPrefix, Url.hasCredentials, hy, emptyHost]

/-! ### path -/

theorem fillUnsetDown_app (Q : List Nat) (x n : Nat) (hx : x ≠ 0) (a : Nat) (T : List Nat) :
    fillUnsetDown (Q ++ [x] ++ List.replicate a 0 ++ T) n (Q.length + a) =
      Q ++ [x] ++ List.replicate a n ++ T := by
  induction a generalizing T with
  | zero =>
    simp only [List.replicate_zero, List.append_nil, Nat.add_zero]
    cases hQ : Q.length with
    | zero => rfl
    | succ m =>
      unfold fillUnsetDown
      rw [if_pos]
      rw [← hQ, List.append_assoc, getD_append_right' (Nat.le_refl _)]
      simpa using hx
  | succ k ih =>
    have e : Q.length + (k + 1) = (Q.length + k) + 1 := by omega
    rw [e]
    unfold fillUnsetDown
    have hrep : List.replicate (k + 1) 0 = List.replicate k 0 ++ [0] := List.replicate_succ'
    have hlen : (Q ++ [x] ++ List.replicate k 0).length = Q.length + k + 1 := by simp; omega
    have hform : Q ++ [x] ++ List.replicate (k + 1) 0 ++ T =
        (Q ++ [x] ++ List.replicate k 0) ++ (0 :: T) := by
      rw [hrep]; simp
    rw [hform, if_neg, List.set_append_right _ _ (by omega)]
    · have e0 : Q.length + k + 1 - (Q ++ [x] ++ List.replicate k 0).length = 0 := by omega
      rw [e0, List.set_cons_zero, ih (n :: T), List.replicate_succ']
      simp
    · rw [getD_append_right' (by omega)]
      have e0 : Q.length + k + 1 - (Q ++ [x] ++ List.replicate k 0).length = 0 := by omega
      rw [e0]; simp

/-- url.h:2941-2944 on a presented representation: the parts up to PATH count as started -/
theorem fillUnset_mkRep (r0 : Rep) {S A : List (List Nat)} (h : Rp S A) :
    ({ mkRep r0 A with partEnd := fillUnsetDown (mkRep r0 A).partEnd (mkRep r0 A).norm.length PATH } : Rep)
      = mkRep r0 (A ++ List.replicate (9 - A.length) []) ∧
    Rp S (A ++ List.replicate (9 - A.length) []) := by
  have hlo := h.lo
  have hhi := h.hi
  by_cases h9 : 9 ≤ A.length
  · have e : 9 - A.length = 0 := by omega
    rw [e, List.replicate_zero, List.append_nil]
    refine ⟨?_, h⟩
    have : fillUnsetDown (mkRep r0 A).partEnd (mkRep r0 A).norm.length PATH = (mkRep r0 A).partEnd := by
      show fillUnsetDown _ _ (7 + 1) = _
      unfold fillUnsetDown
      rw [if_pos]
      exact h.pe_ne_zero r0 (i := 8) (by omega)
    rw [this]
  · constructor
    · apply rep_eq_mkRep <;> try rfl
      · simp [flatten_replicate_nil]
      · show fillUnsetDown (sums 0 A ++ List.replicate (11 - A.length) 0) A.flatten.length PATH = _
        have hAne : A ≠ [] := by intro hc; rw [hc] at hlo; simp at hlo
        obtain ⟨Q, hQ, hQs⟩ := sums_last 0 A hAne
        have hx : 0 + A.flatten.length ≠ 0 := by
          have := h.pos' (n := 11) (by omega)
          rw [← h.off, off, List.take_of_length_le (by omega)] at this
          omega
        have e1 : 11 - A.length = (9 - A.length) + 2 := by omega
        have e2 : PATH = Q.length + (9 - A.length) := by simp only [PATH]; omega
        rw [hQs, e1, ← List.replicate_append_replicate, ← List.append_assoc, e2,
          fillUnsetDown_app Q _ _ hx]
        rw [sums_append, hQs, sums_replicate_nil]
        simp only [List.length_append, List.length_replicate, Nat.zero_add]
        have e3 : 11 - (A.length + (9 - A.length)) = 2 := by omega
        rw [e3]
    · refine ⟨h.lenS, by simp; omega, by simp; omega, ?_, h.pos⟩
      conv => lhs; rw [h.pad]
      simp only [List.length_append, List.length_replicate, List.append_assoc,
        List.replicate_append_replicate]
      congr 2; omega


theorem repl_lit' (r0 : Rep) {S A : List (List Nat)} (h : Rp S A) (firstPt lastPt : Nat)
    (M' : List (List Nat)) (str : List Nat) (len0 : Nat) {S' : List (List Nat)}
    (hf : firstPt ≤ lastPt) (hl : lastPt < A.length)
    (hM'len : M'.length = lastPt - firstPt + 1) (hflat : M'.flatten = str)
    (hsums : sums (off S firstPt) M' =
      List.replicate (lastPt - firstPt) (off S firstPt + len0) ++ [off S firstPt + str.length])
    (hS' : S.take firstPt ++ M' ++ S.drop (lastPt + 1) = S')
    (hpos' : 0 < off S' 1) :
    ∃ A', replacePart (mkRep r0 A) lastPt firstPt str len0 = mkRep r0 A' ∧ Rp S' A' ∧
      A'.length = A.length := by
  subst hS'
  have := replacePart_Rp r0 h firstPt lastPt M' str len0 hf hl hM'len hflat hsums hpos'
  refine ⟨_, this.1, this.2, ?_⟩
  have hhi := h.hi
  simp only [List.length_append, List.length_take, List.length_drop, hM'len]; omega

section
variable (r0 : Rep) {s0 s1 s2 s3 s4 s5 s6 s7 s8 s9 s10 : List Nat} {A : List (List Nat)}
  (h : Rp [s0, s1, s2, s3, s4, s5, s6, s7, s8, s9, s10] A)
include h

theorem partView_path (h8 : 8 < A.length) : (mkRep r0 A).partView PATH = s8 := by
  have hp7 : (mkRep r0 A).pe 7 = off [s0, s1, s2, s3, s4, s5, s6, s7, s8, s9, s10] 8 := by
    rw [h.pe, if_pos (by omega)]
  have hp8 : (mkRep r0 A).pe 8 = off [s0, s1, s2, s3, s4, s5, s6, s7, s8, s9, s10] 9 := by
    rw [h.pe, if_pos (by omega)]
  simp only [Rep.partView, PATH, SCHEME, kPartStart, hp7, hp8, norm_mkRep, h.flatten]
  exact view0_eq (a := s0 ++ s1 ++ s2 ++ s3 ++ s4 ++ s5 ++ s6 ++ s7) (b := s8) (c := s9 ++ s10)
    (by simp) (by simp [off]) (by simp [off]; omega)

/-- the "/." decision of `adjust_path_prefix` -/
def wantPrefix (hostNotNull : Bool) (n : Nat) (text : List Nat) : Bool :=
  !hostNotNull && decide (n > 1) &&
    (decide (text.length > 1) && text.getD 0 0 == 0x2F && text.getD 1 0 == 0x2F)

theorem commitPath_S (text : List Nat) (n : Nat) (h7 : s7 = [] ∨ s7 = [0x2F, 0x2E]) :
    ∃ A', commitPath (mkRep r0 A) text n = mkRep { r0 with segCount := n } A' ∧
      Rp [s0, s1, s2, s3, s4, s5, s6,
          (if wantPrefix r0.hostNotNull n text then [0x2F, 0x2E] else []), text, s9, s10] A' := by
  have hpos : 0 < s0.length := by simpa [off] using h.pos
  obtain ⟨hf1, hf2⟩ := fillUnset_mkRep r0 h
  unfold commitPath
  simp only [hf1]
  have hlen1 : 8 < (A ++ List.replicate (9 - A.length) []).length := by simp; omega
  obtain ⟨A2, h21, h22, h23⟩ := repl_lit' r0 hf2 8 8 [text] text 0 (by omega) hlen1 (by simp) (by simp)
    (by simp [off]) rfl (by simpa [off] using hpos)
  simp only [replacePart1, PATH, h21] at *
  simp only [List.take, List.drop, List.cons_append, List.nil_append] at h22
  have hA2 : 8 < A2.length := by omega
  have hr3 : ({ mkRep r0 A2 with segCount := n } : Rep) = mkRep { r0 with segCount := n } A2 := rfl
  rw [hr3]
  unfold adjustPathPrefix
  rw [partView_path _ h22 hA2, isEmpty_prefix _ h22]
  show ∃ A', (if (decide (s7 = []) != (if wantPrefix r0.hostNotNull n text = true then [0x2F, 0x2E] else []).isEmpty) = true
      then replacePart1 (mkRep { r0 with segCount := n } A2) PATH_PREFIX
        (if wantPrefix r0.hostNotNull n text = true then [0x2F, 0x2E] else [])
      else mkRep { r0 with segCount := n } A2) = _ ∧ _
  cases hw : wantPrefix r0.hostNotNull n text <;> rcases h7 with h7 | h7 <;> subst h7
  · exact ⟨A2, by simp, h22⟩
  · obtain ⟨A3, h31, h32, _⟩ := repl_lit' { r0 with segCount := n } h22 7 7 [[]] [] 0 (by omega) (by omega)
      (by simp) (by simp) (by simp [off]) rfl (by simpa [off] using hpos)
    exact ⟨A3, by simpa [replacePart1, PATH_PREFIX] using h31, by simpa using h32⟩
  · obtain ⟨A3, h31, h32, _⟩ := repl_lit' { r0 with segCount := n } h22 7 7 [[0x2F, 0x2E]] [0x2F, 0x2E] 0
      (by omega) (by omega) (by simp) (by simp) (by simp [off]) rfl (by simpa [off] using hpos)
    exact ⟨A3, by simpa [replacePart1, PATH_PREFIX] using h31, by simpa using h32⟩
  · exact ⟨A2, by simp, by simpa using h22⟩
end


/-! ### path (record level) -/

/-- the C++ decides on the "/." prefix by looking at the first two characters of the serialised
    path (url.h:2653-2655); the record (and the Standard) by "first segment empty".  The two agree
    because a path segment never starts with "/" (segments are split at "/"). -/
theorem wantPrefix_eq (hostNotNull : Bool) (p : List (List Nat))
    (hp : p.head?.bind List.head? ≠ some 0x2F) :
    wantPrefix hostNotNull p.length (p.flatMap (fun seg => 0x2F :: seg)) =
      (!hostNotNull && decide (p.length > 1) && p.head? == some []) := by
  unfold wantPrefix
  match p, hp with
  | [], _ => simp
  | [a], _ => simp
  | [] :: b :: rest, _ => simp
  | (c :: a) :: b :: rest, hp =>
    have : c ≠ 0x2F := by simpa using hp
    simp [this]

theorem commit_path (u : Url) (p : List (List Nat)) {r : Rep} (h : Represents r u)
    (ho : u.hasOpaquePath = false) (hp : p.head?.bind List.head? ≠ some 0x2F) :
    Represents (commitPath r (pathText { u with path := p }) p.length) { u with path := p } := by
  obtain ⟨A, hA, rfl⟩ := h
  unfold segsOf at hA
  have h7 : prefixSeg u = [] ∨ prefixSeg u = [0x2F, 0x2E] := by
    unfold prefixSeg; split <;> simp
  obtain ⟨A', h1, h2⟩ := commitPath_S (layout u) hA (pathText { u with path := p }) p.length h7
  rw [h1]
  have htext : pathText { u with path := p } = p.flatMap (fun seg => 0x2F :: seg) := by
    simp [pathText, ho]
  refine represents_of h2 ?_ rfl rfl rfl rfl rfl rfl rfl ?_ rfl
  · rw [htext, wantPrefix_eq _ _ hp]
    cases hh : u.host <;>
    simp [segsOf, sepSeg, userSeg, passSeg, atSeg, portSeg, prefixSeg, querySeg, fragSeg, credOn,
      Url.hostText, pathText, needsPathPrefix, Url.hasCredentials, layout, ho, hh]
  · simp [layout, ho]

/-! ### scheme -/

theorem set_zero_getD (l : List Nat) (h : 0 < l.length) : l.set 0 (l.getD 0 0) = l := by
  cases l with
  | nil => simp at h
  | cons x xs => simp

section
variable (r0 : Rep) {s0 s1 s2 s3 s4 s5 s6 s7 s8 s9 s10 : List Nat} {A : List (List Nat)}
  (h : Rp [s0, s1, s2, s3, s4, s5, s6, s7, s8, s9, s10] A)
include h

theorem partView_scheme : (mkRep r0 A).partView SCHEME = s0 := by
  have hlo := h.lo
  have hp0 : (mkRep r0 A).pe 0 = s0.length := by
    rw [h.pe_lt r0 0 (by omega)]; simp [off]
  simp only [Rep.partView, SCHEME, hp0, norm_mkRep, h.flatten, if_true]
  exact slice_eq (a := []) (b := s0) (c := s1 ++ s2 ++ s3 ++ s4 ++ s5 ++ s6 ++ s7 ++ s8 ++ s9 ++ s10)
    (by simp) rfl (by simp)

theorem saveScheme_S (s : List Nat) (hs : s ≠ []) :
    ∃ A', saveScheme (mkRep r0 A) s = mkRep { r0 with schemeIdx := schemeIndex s } A' ∧
      Rp [s, s1, s2, s3, s4, s5, s6, s7, s8, s9, s10] A' := by
  have hspos : 0 < s.length := List.length_pos_iff.mpr hs
  obtain ⟨A', h1, h2⟩ := repl_lit r0 h 0 0 [s] s 0 (by omega) (by omega) (by simp) (by simp)
    (by simp [off]) rfl (by simpa [off] using hspos)
  simp only [List.take, List.drop, List.nil_append, List.cons_append] at h2
  refine ⟨A', ?_, h2⟩
  unfold saveScheme
  simp only [replacePart1, SCHEME, h1]
  have hlo := h2.lo
  have hp0 : (mkRep r0 A').pe 0 = s.length := by
    rw [h2.pe_lt r0 0 (by omega)]; simp [off]
  have hset : (mkRep r0 A').partEnd.set 0 s.length = (mkRep r0 A').partEnd := by
    have := set_zero_getD (mkRep r0 A').partEnd (by simp [mkRep]; omega)
    rw [show (mkRep r0 A').partEnd.getD 0 0 = (mkRep r0 A').pe 0 from rfl, hp0] at this
    exact this
  rw [hset]
  have hv := partView_scheme r0 h2
  simp only [SCHEME] at hv
  show ({ mkRep r0 A' with schemeIdx := schemeIndex ((mkRep r0 A').partView 0) } : Rep) = _
  rw [hv]
  rfl
end

/-! ### scheme (record level) -/

theorem save_scheme (u : Url) (s : List Nat) {r : Rep} (h : Represents r u) (hs : s ≠ []) :
    Represents (saveScheme r s) { u with scheme := s } := by
  obtain ⟨A, hA, rfl⟩ := h
  unfold segsOf at hA
  obtain ⟨A', h1, h2⟩ := saveScheme_S (layout u) hA s hs
  rw [h1]
  refine represents_of h2 ?_ rfl rfl rfl rfl rfl rfl rfl rfl rfl
  cases hh : u.host <;>
  simp [segsOf, sepSeg, userSeg, passSeg, atSeg, portSeg, prefixSeg, querySeg, fragSeg, credOn,
    Url.hostText, pathText, needsPathPrefix, Url.hasCredentials, hh]


/-! ### trailing spaces of an opaque path -/

theorem dropWhile_append_stop (f : Nat → Bool) (c : Nat) (hc : f c = false) (l1 l2 : List Nat) :
    (l1 ++ c :: l2).dropWhile f = l1.dropWhile f ++ c :: l2 := by
  induction l1 with
  | nil => simp [List.dropWhile, hc]
  | cons x xs ih =>
    simp only [List.cons_append, List.dropWhile]
    cases hx : f x
    · simp
    · simpa using ih

theorem lastNotSpaceLen_stop (p q : List Nat) (c : Nat) (hc : c ≠ 0x20) :
    lastNotSpaceLen (p ++ c :: q) = p.length + 1 + lastNotSpaceLen q := by
  unfold lastNotSpaceLen
  have : (p ++ c :: q).reverse = q.reverse ++ c :: p.reverse := by simp
  rw [this, dropWhile_append_stop _ c (by simpa using hc)]
  simp; omega

theorem strip_eq_take (l : List Nat) :
    (l.reverse.dropWhile (· == 0x20)).reverse = l.take (lastNotSpaceLen l) := by
  unfold lastNotSpaceLen
  have h := List.takeWhile_append_dropWhile (p := (· == 0x20)) (l := l.reverse)
  have h2 : l = (l.reverse.dropWhile (· == 0x20)).reverse ++ (l.reverse.takeWhile (· == 0x20)).reverse := by
    rw [← List.reverse_append, h, List.reverse_reverse]
  conv => rhs; rw [h2]
  rw [List.take_left' (by simp)]

theorem lastNotSpaceLen_le (l : List Nat) : lastNotSpaceLen l ≤ l.length := by
  unfold lastNotSpaceLen
  have h := List.takeWhile_append_dropWhile (p := (· == 0x20)) (l := l.reverse)
  have := congrArg List.length h
  rw [List.length_append, List.length_reverse] at this
  omega

section
variable (r0 : Rep) {s0 s8 : List Nat} {c : Nat} {A : List (List Nat)}
  (h : Rp [s0, [c], [], [], [], [], [], [], s8, [], []] A)
include h

theorem strip_S (hc : c ≠ 0x20) :
    ∃ A', ({ mkRep r0 A with
        norm := (mkRep r0 A).norm.take (lastNotSpaceLen (mkRep r0 A).norm),
        partEnd := (mkRep r0 A).partEnd.take PATH ++
          setWhileNonzero (lastNotSpaceLen (mkRep r0 A).norm) ((mkRep r0 A).partEnd.drop PATH) } : Rep)
        = mkRep r0 A' ∧
      Rp [s0, [c], [], [], [], [], [], [], s8.take (lastNotSpaceLen s8), [], []] A' := by
  have hlo := h.lo
  have hhi := h.hi
  have hpos : 0 < s0.length := by simpa [off] using h.pos
  have hnorm : (mkRep r0 A).norm = s0 ++ c :: s8 := by
    rw [norm_mkRep, h.flatten]; simp
  have hnl : lastNotSpaceLen (mkRep r0 A).norm = s0.length + 1 + lastNotSpaceLen s8 := by
    rw [hnorm, lastNotSpaceLen_stop _ _ _ hc]
  have hk := lastNotSpaceLen_le s8
  have htakeN : (mkRep r0 A).norm.take (s0.length + 1 + lastNotSpaceLen s8) =
      s0 ++ c :: s8.take (lastNotSpaceLen s8) := by
    rw [hnorm]
    have : s0 ++ c :: s8 = (s0 ++ [c]) ++ s8 := by simp
    rw [this, List.take_append, List.take_of_length_le (by simp)]
    simp
  rw [hnl, htakeN]
  by_cases h9 : 9 ≤ A.length
  · -- PATH was started: PATH and the later started offsets become newlen
    have hA8 : A.take 8 = [s0, [c], [], [], [], [], [], []] := by rw [h.take (by omega)]; rfl
    have hAdec : A = A.take 8 ++ A.drop 8 := (List.take_append_drop 8 A).symm
    have hD : (A.drop 8).length = A.length - 8 := by simp
    have hDflat : (A.drop 8).flatten = s8 := by
      have := h.flatten
      rw [hAdec, List.flatten_append, hA8] at this
      simpa using this
    refine ⟨A.take 8 ++ [s8.take (lastNotSpaceLen s8)] ++ List.replicate (A.length - 9) [], ?_, ?_⟩
    · apply rep_eq_mkRep <;> try rfl
      · simp [hA8, flatten_replicate_nil]
      · have hlen' : (A.take 8 ++ [s8.take (lastNotSpaceLen s8)] ++
            List.replicate (A.length - 9) []).length = A.length := by
          simp; omega
        show (mkRep r0 A).partEnd.take PATH ++
          setWhileNonzero (s0.length + 1 + lastNotSpaceLen s8) ((mkRep r0 A).partEnd.drop PATH) =
          sums 0 _ ++ List.replicate (11 - _) 0
        rw [hlen']
        have hsA : sums 0 A = sums 0 (A.take 8) ++ sums (s0.length + 1) (A.drop 8) := by
          conv => lhs; rw [hAdec, sums_append]
          rw [hA8]; simp
        have hP : (mkRep r0 A).partEnd = sums 0 (A.take 8) ++
            (sums (s0.length + 1) (A.drop 8) ++ List.replicate (11 - A.length) 0) := by
          show sums 0 A ++ _ = _
          rw [hsA, List.append_assoc]
        have hsA' : sums 0 (A.take 8 ++ [s8.take (lastNotSpaceLen s8)] ++
            List.replicate (A.length - 9) []) = sums 0 (A.take 8) ++
            ((s0.length + 1 + lastNotSpaceLen s8) ::
              List.replicate (A.length - 9) (s0.length + 1 + lastNotSpaceLen s8)) := by
          rw [List.append_assoc, sums_append, hA8]
          have e2 : min (lastNotSpaceLen s8) s8.length = lastNotSpaceLen s8 := by omega
          simp [sums_replicate_nil, e2]
        rw [hP, List.take_left' (by simp [PATH]; omega), List.drop_left' (by simp [PATH]; omega),
          setWhileNonzero_sums _ _ _ _ (by omega), hD, hsA']
        have e1 : A.length - 8 = (A.length - 9) + 1 := by omega
        rw [e1, List.replicate_succ]
        simp
    · refine ⟨rfl, by simp; omega, by simp; omega, ?_, by simpa [off] using hpos⟩
      rw [hA8]
      simp only [List.length_append, List.length_cons, List.length_nil, List.length_replicate,
        List.cons_append, List.nil_append, List.append_assoc, List.replicate_append_replicate]
      have e : A.length - 9 + (11 - (A.length - 9 + 1 + 1 + 1 + 1 + 1 + 1 + 1 + 1 + 1)) = 2 := by
        omega
      rw [e]; rfl
  · -- PATH was never started: the path is empty and nothing changes
    have hs8 : s8 = [] := by
      have := h.drop_absent (n := 8) (by omega)
      simpa using this
    subst hs8
    refine ⟨A, ?_, by simpa [lastNotSpaceLen] using h⟩
    apply rep_eq_mkRep <;> try rfl
    · rw [h.flatten]; simp
    · show (mkRep r0 A).partEnd.take PATH ++
        setWhileNonzero (s0.length + 1 + lastNotSpaceLen []) ((mkRep r0 A).partEnd.drop PATH) = _
      have hdrop : (mkRep r0 A).partEnd.drop PATH = List.replicate 3 0 := by
        show (sums 0 A ++ List.replicate (11 - A.length) 0).drop PATH = _
        rw [List.drop_append, List.drop_of_length_le (by simp [PATH]; omega)]
        simp only [sums_length, List.drop_replicate, List.nil_append, PATH]
        have e : 11 - A.length - (8 - A.length) = 3 := by omega
        rw [e]
      rw [hdrop, setWhileNonzero_zeros, ← hdrop, List.take_append_drop]
      rfl
end


/-! ### trailing spaces (record level) -/

theorem strip_spaces (u : Url) {r : Rep} (ok : RepOk u) (h : Represents r u) :
    Represents (stripTrailingSpacesRep r) (stripTrailingSpaces u) := by
  obtain ⟨A, hA, rfl⟩ := h
  unfold stripTrailingSpacesRep stripTrailingSpaces
  have hflags : ((mkRep (layout u) A).opaquePath && !(mkRep (layout u) A).fragmentNotNull &&
      !(mkRep (layout u) A).queryNotNull) =
      (u.hasOpaquePath && u.fragment.isNone && u.query.isNone) := by
    show (u.hasOpaquePath && !u.fragment.isSome && !u.query.isSome) = _
    cases u.hasOpaquePath <;> cases u.fragment <;> cases u.query <;> rfl
  rw [hflags]
  by_cases hc : (u.hasOpaquePath && u.fragment.isNone && u.query.isNone) = true
  · rw [if_pos hc, if_pos hc]
    simp only [Bool.and_eq_true, Option.isNone_iff_eq_none] at hc
    obtain ⟨⟨ho, hf⟩, hq⟩ := hc
    have hh : u.host = none := ok.2.2 ho
    have hS : segsOf u = [u.scheme, [0x3A], [], [], [], [], [], [], u.opaquePath, [], []] := by
      simp [segsOf, sepSeg, userSeg, passSeg, atSeg, portSeg, prefixSeg, querySeg, fragSeg, credOn,
        Url.hostText, pathText, needsPathPrefix, Url.hasCredentials, hh, ho, hf, hq]
    rw [hS] at hA
    obtain ⟨A', h1, h2⟩ := strip_S (layout u) hA (by decide)
    rw [h1]
    refine represents_of h2 ?_ rfl rfl rfl rfl rfl rfl rfl ?_ rfl
    · rw [strip_eq_take]
      simp [segsOf, sepSeg, userSeg, passSeg, atSeg, portSeg, prefixSeg, querySeg, fragSeg, credOn,
        Url.hostText, pathText, needsPathPrefix, Url.hasCredentials, hh, ho, hf, hq]
    · simp [layout, ho]
  · rw [if_neg hc, if_neg hc]
    exact ⟨A, hA, rfl⟩


/-! ### `Represents` = `equiv` with the layout + `wf` -/

theorem fillTrailing_zeros (n m : Nat) : fillTrailing n (List.replicate m 0) = List.replicate m n := by
  induction m with
  | zero => rfl
  | succ k ih => simp [List.replicate_succ, fillTrailing, ih]

/-- a list of offsets ends in zeros after a part `P` that is empty or ends with a non-zero offset -/
theorem trailing_decomp (l : List Nat) :
    ∃ P m, l = P ++ List.replicate m 0 ∧ (P = [] ∨ ∃ Q x, P = Q ++ [x] ∧ x ≠ 0) := by
  induction l with
  | nil => exact ⟨[], 0, rfl, Or.inl rfl⟩
  | cons a l ih =>
    obtain ⟨P, m, hl, hP⟩ := ih
    rcases hP with hP | ⟨Q, x, hQ, hx⟩
    · subst hP
      by_cases ha : a = 0
      · exact ⟨[], m + 1, by simp [hl, ha, List.replicate_succ], Or.inl rfl⟩
      · exact ⟨[a], m, by simp [hl], Or.inr ⟨[], a, rfl, ha⟩⟩
    · exact ⟨a :: P, m, by simp [hl], Or.inr ⟨a :: Q, x, by simp [hQ], hx⟩⟩

theorem fillTrailing_decomp (n : Nat) (Q : List Nat) (x m : Nat) (hx : x ≠ 0) :
    fillTrailing n (Q ++ [x] ++ List.replicate m 0) = Q ++ [x] ++ List.replicate m n := by
  induction Q with
  | nil => simp [fillTrailing, hx, fillTrailing_zeros]
  | cons a Q ih =>
    simp only [List.cons_append, fillTrailing]
    rw [if_neg]
    · simpa using ih
    · intro hc
      have := hc.2
      simp [hx] at this

theorem sums_nozero (acc : Nat) (A : List (List Nat)) (h : 0 < acc) : ∀ x ∈ sums acc A, x ≠ 0 := by
  intro x hx
  have := sums_ge acc A x hx
  omega

theorem fillTrailing_sums (n m : Nat) (A : List (List Nat)) (hA : A ≠ []) (hpos : 0 < off A 1) :
    fillTrailing n (sums 0 A ++ List.replicate m 0) = sums 0 A ++ List.replicate m n := by
  obtain ⟨Q, _, hQ⟩ := sums_last 0 A hA
  rw [hQ]
  apply fillTrailing_decomp
  have := off_succ_pos A hpos (n := A.length) (List.length_pos_iff.mpr hA)
  rw [off, List.take_of_length_le (Nat.le_refl _)] at this
  omega

theorem fill_layout (u : Url) (hs : u.scheme ≠ []) : (layout u).fill = layout u := by
  have h := rp_segsOf u hs
  conv => lhs; rw [← mkRep_segsOf u]
  unfold Rep.fill
  have : fillTrailing (mkRep (layout u) (segsOf u)).norm.length (mkRep (layout u) (segsOf u)).partEnd =
      (mkRep (layout u) (segsOf u)).partEnd := by
    show fillTrailing _ (sums 0 (segsOf u) ++ List.replicate (11 - (segsOf u).length) 0) = _
    rw [fillTrailing_sums _ _ _ (by simp [segsOf]) h.pos]
    have e : 11 - (segsOf u).length = 0 := rfl
    rw [e]; rfl
  rw [this]
  exact mkRep_segsOf u

theorem Rp.ne_nil {S A : List (List Nat)} (h : Rp S A) : A ≠ [] := by
  intro hc; have := h.lo; rw [hc] at this; simp at this

theorem represents_equiv (u : Url) {r : Rep} (wf : RecWF u) (h : Represents r u) :
    r.equiv (layout u) ∧ r.wf := by
  obtain ⟨A, hA, rfl⟩ := h
  have hlo := hA.lo
  have hhi := hA.hi
  have hposA : 0 < off A 1 := by rw [hA.off]; exact hA.pos
  constructor
  · unfold Rep.equiv
    rw [fill_layout u wf.1]
    conv => rhs; rw [← mkRep_segsOf u]
    unfold Rep.fill
    have hp : fillTrailing (mkRep (layout u) A).norm.length (mkRep (layout u) A).partEnd =
        (mkRep (layout u) (segsOf u)).partEnd := by
      show fillTrailing _ (sums 0 A ++ List.replicate (11 - A.length) 0) =
        sums 0 (segsOf u) ++ List.replicate (11 - (segsOf u).length) 0
      rw [fillTrailing_sums _ _ _ hA.ne_nil hposA]
      conv => rhs; rw [hA.pad, sums_append, sums_replicate_nil]
      simp
      omega
    have hn : (mkRep (layout u) A).norm = (mkRep (layout u) (segsOf u)).norm := by
      simp [hA.flatten]
    rw [hp]
    simp only [mkRep] at hn ⊢
    rw [hn]
  · refine ⟨by simp [mkRep]; omega, ?_, hA.pe_ne_zero _ (by simp only [HOST]; omega), ?_⟩
    · intro i hi hz
      rw [pe_mkRep] at hz
      have hge : A.length ≤ i + 1 := by
        apply Classical.byContradiction
        intro hc
        rw [if_pos (by omega)] at hz
        have := off_succ_pos A hposA (n := i + 1 + 1) (by omega)
        omega
      by_cases hi' : A.length ≤ i
      · left; exact pe_mkRep_ge _ _ _ hi'
      · right
        rw [pe_mkRep_lt _ _ _ (by omega), norm_mkRep, off]
        have : i + 1 = A.length := by omega
        rw [this, List.take_of_length_le (Nat.le_refl _)]
    · intro hport
      have hport' : u.port.isSome = true := hport
      apply hA.pe_ne_zero
      apply Classical.byContradiction
      intro hc
      have hps : portSeg u = [] := by
        have := hA.drop_absent (n := 6) (by simp only [PORT] at hc; omega)
        simp [segsOf] at this
        exact this.1
      rw [portSeg_eq_nil wf hps] at hport'
      simp at hport'


/-! ### the shape of a well-formed offset table -/

theorem getD_mid (Q : List Nat) (x : Nat) (T : List Nat) :
    (Q ++ [x] ++ T).getD Q.length 0 = x := by
  rw [List.append_assoc, getD_append_right' (Nat.le_refl _)]
  simp

theorem getD_tail_zero (Q : List Nat) (x m i : Nat) (hi : Q.length < i) :
    (Q ++ [x] ++ List.replicate m 0).getD i 0 = 0 := by
  rw [getD_append_right' (by simp; omega), getD_replicate_zero]

theorem getD_tail_n (Q : List Nat) (x m n i : Nat) (hi : Q.length < i) (hi' : i < Q.length + 1 + m) :
    (Q ++ [x] ++ List.replicate m n).getD i 0 = n := by
  rw [getD_append_right' (by simp; omega)]
  simp only [List.getD_eq_getElem?_getD, List.getElem?_replicate, List.length_append,
    List.length_cons, List.length_nil]
  rw [if_pos (by omega)]
  rfl

theorem getD_head (Q : List Nat) (x : Nat) (T T' : List Nat) (i : Nat) (hi : i ≤ Q.length) :
    (Q ++ [x] ++ T).getD i 0 = (Q ++ [x] ++ T').getD i 0 := by
  rw [getD_append_left' (l₁ := Q ++ [x]) (by simp; omega),
    getD_append_left' (l₁ := Q ++ [x]) (by simp; omega)]

theorem wf_decomp (r : Rep) (h : r.wf) :
    ∃ Q x m, r.partEnd = Q ++ [x] ++ List.replicate m 0 ∧ x ≠ 0 ∧ Q.length + 1 + m = 11 ∧
      5 ≤ Q.length ∧ (0 < m → x = r.norm.length) ∧ (r.portNotNull = true → 6 ≤ Q.length) := by
  obtain ⟨hlen, htight, hhost, hport⟩ := h
  obtain ⟨P, m, hl, hP⟩ := trailing_decomp r.partEnd
  rcases hP with hP | ⟨Q, x, hQ, hx⟩
  · exfalso
    apply hhost
    unfold Rep.pe
    rw [hl, hP, List.nil_append, getD_replicate_zero]
  · subst hQ
    have hlen' : Q.length + 1 + m = 11 := by
      rw [hl] at hlen; simp at hlen; omega
    have h5 : 5 ≤ Q.length := by
      apply Classical.byContradiction
      intro hc
      apply hhost
      unfold Rep.pe
      rw [hl, getD_tail_zero _ _ _ _ (by simp only [HOST]; omega)]
    refine ⟨Q, x, m, hl, hx, hlen', h5, ?_, ?_⟩
    · intro hm
      have h1 := htight Q.length (by omega)
        (by unfold Rep.pe; rw [hl, getD_tail_zero _ _ _ _ (by omega)])
      unfold Rep.pe at h1
      rw [hl, getD_mid] at h1
      rcases h1 with h1 | h1
      · exact absurd h1 hx
      · exact h1
    · intro hp
      apply Classical.byContradiction
      intro hc
      apply hport hp
      unfold Rep.pe
      rw [hl, getD_tail_zero _ _ _ _ (by simp only [PORT]; omega)]

/-- the offsets of `r.fill` against those of `r` -/
theorem fill_cases (r : Rep) (h : r.wf) :
    ∃ k, 6 ≤ k ∧ k ≤ 11 ∧ (∀ i, i < k → r.fill.pe i = r.pe i) ∧
      (∀ i, k ≤ i → i < 11 → r.pe i = 0 ∧ r.fill.pe i = r.norm.length) ∧
      (k < 11 → r.pe (k - 1) = r.norm.length) ∧ r.pe (k - 1) ≠ 0 ∧
      (r.portNotNull = true → 7 ≤ k) := by
  obtain ⟨Q, x, m, hl, hx, hlen, h5, hm, hp⟩ := wf_decomp r h
  have hfill : r.fill.partEnd = Q ++ [x] ++ List.replicate m r.norm.length := by
    show fillTrailing r.norm.length r.partEnd = _
    rw [hl, fillTrailing_decomp _ _ _ _ hx]
  refine ⟨Q.length + 1, by omega, by omega, ?_, ?_, ?_, ?_, by intro hh; have := hp hh; omega⟩
  · intro i hi
    unfold Rep.pe
    rw [hfill, hl]
    exact getD_head _ _ _ _ _ (by omega)
  · intro i hi hi'
    unfold Rep.pe
    rw [hfill, hl]
    exact ⟨getD_tail_zero _ _ _ _ (by omega), getD_tail_n _ _ _ _ _ (by omega) (by omega)⟩
  · intro hk
    have e : Q.length + 1 - 1 = Q.length := by omega
    unfold Rep.pe
    rw [e, hl, getD_mid]
    exact hm (by omega)
  · have e : Q.length + 1 - 1 = Q.length := by omega
    unfold Rep.pe
    rw [e, hl, getD_mid]
    exact hx


/-! ### every getter reads `r` and `r.fill` alike -/

theorem fill_partView (r : Rep) (h : r.wf) (t : Nat) (ht1 : 1 ≤ t) (ht : t ≤ 10) :
    r.fill.partView t = r.partView t := by
  obtain ⟨k, hk6, hk11, hlt, hge, hlast, _, _⟩ := fill_cases r h
  unfold Rep.partView
  rw [if_neg (show ¬ t = SCHEME by show ¬ t = 0; omega), if_neg (show ¬ t = SCHEME by show ¬ t = 0; omega)]
  show (if r.fill.pe t > r.fill.pe (t - 1) + kPartStart.getD t 0 then
      slice r.norm (r.fill.pe (t - 1) + kPartStart.getD t 0) (r.fill.pe t) else []) =
    (if r.pe t > r.pe (t - 1) + kPartStart.getD t 0 then
      slice r.norm (r.pe (t - 1) + kPartStart.getD t 0) (r.pe t) else [])
  by_cases htk : t < k
  · rw [hlt t htk, hlt (t - 1) (by omega)]
  · have h1 := hge t (by omega) (by omega)
    have h2 : r.fill.pe (t - 1) = r.norm.length := by
      by_cases htk' : t - 1 < k
      · have e : t - 1 = k - 1 := by omega
        rw [hlt _ htk', e]; exact hlast (by omega)
      · exact (hge (t - 1) (by omega) (by omega)).2
    rw [h1.1, h1.2, h2, if_neg (by omega), if_neg (by omega)]

theorem fill_isEmpty (r : Rep) (h : r.wf) (t : Nat) (ht1 : 1 ≤ t) (ht : t ≤ 10) :
    r.fill.isEmpty t = r.isEmpty t := by
  obtain ⟨k, hk6, hk11, hlt, hge, hlast, _, _⟩ := fill_cases r h
  unfold Rep.isEmpty
  rw [if_neg (show ¬ t = SCHEME by show ¬ t = 0; omega), if_neg (show ¬ t = SCHEME by show ¬ t = 0; omega)]
  by_cases htk : t < k
  · rw [hlt t htk, hlt (t - 1) (by omega)]
  · have h1 := hge t (by omega) (by omega)
    have h2 : r.fill.pe (t - 1) = r.norm.length := by
      by_cases htk' : t - 1 < k
      · have e : t - 1 = k - 1 := by omega
        rw [hlt _ htk', e]; exact hlast (by omega)
      · exact (hge (t - 1) (by omega) (by omega)).2
    rw [h1.1, h1.2, h2]
    simp

theorem slice_self (l : List Nat) (n : Nat) : slice l n n = [] := by
  unfold slice
  apply List.drop_eq_nil_of_le
  simp; omega

theorem slice_all (l : List Nat) : slice l 0 l.length = l := by
  unfold slice; simp

theorem fill_getters (r : Rep) (h : r.wf) :
    r.fill.href = r.href ∧ r.fill.protocol = r.protocol ∧ r.fill.username = r.username ∧
    r.fill.password = r.password ∧ r.fill.host = r.host ∧ r.fill.hostname = r.hostname ∧
    r.fill.port = r.port ∧ r.fill.pathname = r.pathname ∧ r.fill.path = r.path ∧
    r.fill.search = r.search ∧ r.fill.hash = r.hash ∧
    r.fill.serializeNoFragment = r.serializeNoFragment := by
  obtain ⟨k, hk6, hk11, hlt, hge, hlast, hne, hport⟩ := fill_cases r h
  refine ⟨rfl, ?_, fill_partView r h 2 (by omega) (by omega), fill_partView r h 3 (by omega) (by omega),
    ?_, fill_partView r h 5 (by omega) (by omega), fill_partView r h 6 (by omega) (by omega),
    fill_partView r h 8 (by omega) (by omega), ?_, ?_, ?_, ?_⟩
  · -- protocol
    unfold Rep.protocol
    show slice r.norm 0 _ = _
    rw [hlt 0 (by omega)]
  · -- host
    unfold Rep.host
    show (if (!r.hostNotNull) = true then [] else
      slice r.norm (r.fill.pe HOST_START) (if (!r.portNotNull) = true then r.fill.pe HOST else r.fill.pe PORT)) = _
    rw [hlt HOST_START (by simp only [HOST_START]; omega), hlt HOST (by simp only [HOST]; omega)]
    cases hp : r.portNotNull
    · rfl
    · rw [hlt PORT (by have := hport hp; simp only [PORT]; omega)]
  · -- path
    unfold Rep.path
    show (if (if r.fill.pe QUERY ≠ 0 then r.fill.pe QUERY else r.fill.pe PATH) ≠ 0 then
        slice r.norm (r.fill.pe (PATH - 1)) (if r.fill.pe QUERY ≠ 0 then r.fill.pe QUERY else r.fill.pe PATH)
      else []) =
      (if (if r.pe QUERY ≠ 0 then r.pe QUERY else r.pe PATH) ≠ 0 then
        slice r.norm (r.pe (PATH - 1)) (if r.pe QUERY ≠ 0 then r.pe QUERY else r.pe PATH)
      else [])
    simp only [QUERY, PATH]
    by_cases h10 : 10 ≤ k
    · rw [hlt 9 (by omega), hlt 8 (by omega), hlt (8 - 1) (by omega)]
    · have h9 := hge 9 (by omega) (by omega)
      by_cases h9k : k = 9
      · have h8 : r.pe 8 = r.norm.length := by have := hlast (by omega); rwa [h9k] at this
        have h8' : r.pe 8 ≠ 0 := by rwa [h9k] at hne
        have hn : r.norm.length ≠ 0 := by rw [← h8]; exact h8'
        rw [hlt 8 (by omega), hlt (8 - 1) (by omega), h9.1, h9.2]
        simp [hn, h8]
      · have h8 := hge 8 (by omega) (by omega)
        have h7 : r.fill.pe (8 - 1) = r.norm.length := by
          by_cases h7k : 8 - 1 < k
          · have e : 8 - 1 = k - 1 := by omega
            rw [hlt _ h7k, e]; exact hlast (by omega)
          · exact (hge _ (by omega) (by omega)).2
        rw [h9.1, h9.2, h8.1, h8.2, h7]
        by_cases hn : r.norm.length = 0 <;> simp [hn, slice_self]
  · -- search
    unfold Rep.search
    rw [fill_isEmpty r h 9 (by omega) (by omega)]
    show (if r.isEmpty QUERY = true then [] else slice r.norm (r.fill.pe (QUERY - 1)) (r.fill.pe QUERY)) = _
    by_cases h10 : 10 ≤ k
    · rw [hlt _ (by simp only [QUERY]; omega), hlt _ (by simp only [QUERY]; omega)]
    · have h9 := hge 9 (by omega) (by omega)
      have : r.isEmpty QUERY = true := by
        simp only [Rep.isEmpty, QUERY, SCHEME, h9.1]; simp
      rw [this]
      simp [Rep.search, this]
  · -- hash
    unfold Rep.hash
    rw [fill_isEmpty r h 10 (by omega) (by omega)]
    show (if r.isEmpty FRAGMENT = true then [] else slice r.norm (r.fill.pe (FRAGMENT - 1)) (r.fill.pe FRAGMENT)) = _
    by_cases h11 : 11 ≤ k
    · rw [hlt _ (by simp only [FRAGMENT]; omega), hlt _ (by simp only [FRAGMENT]; omega)]
    · have h10 := hge 10 (by omega) (by omega)
      have : r.isEmpty FRAGMENT = true := by
        simp only [Rep.isEmpty, FRAGMENT, SCHEME, h10.1]; simp
      rw [this]
      simp [Rep.hash, this]
  · -- serializeNoFragment
    unfold Rep.serializeNoFragment
    show (if r.fill.pe FRAGMENT ≠ 0 then slice r.norm 0 (r.fill.pe QUERY) else r.norm) = _
    by_cases h11 : 11 ≤ k
    · rw [hlt _ (by simp only [FRAGMENT]; omega), hlt _ (by simp only [QUERY]; omega)]
    · have h10 := hge 10 (by omega) (by omega)
      have hn : r.norm.length ≠ 0 := by rw [← hlast (by omega)]; exact hne
      have h9 : r.fill.pe QUERY = r.norm.length := by
        simp only [QUERY]
        by_cases h9k : 9 < k
        · have e : 9 = k - 1 := by omega
          rw [hlt _ h9k, e]; exact hlast (by omega)
        · exact (hge _ (by omega) (by omega)).2
      simp only [FRAGMENT] at *
      rw [h10.1, h10.2, h9, if_pos hn, slice_all]
      simp

/-- `≈` preserves every getter of `Impl/Rep.lean` (on well-formed offset tables) -/
theorem equiv_getters (a b : Rep) (he : a.equiv b) (ha : a.wf) (hb : b.wf) :
    a.href = b.href ∧ a.protocol = b.protocol ∧ a.username = b.username ∧
    a.password = b.password ∧ a.host = b.host ∧ a.hostname = b.hostname ∧
    a.port = b.port ∧ a.pathname = b.pathname ∧ a.path = b.path ∧
    a.search = b.search ∧ a.hash = b.hash ∧
    a.serializeNoFragment = b.serializeNoFragment := by
  obtain ⟨a1, a2, a3, a4, a5, a6, a7, a8, a9, a10, a11, a12⟩ := fill_getters a ha
  obtain ⟨b1, b2, b3, b4, b5, b6, b7, b8, b9, b10, b11, b12⟩ := fill_getters b hb
  unfold Rep.equiv at he
  rw [← a1, ← a2, ← a3, ← a4, ← a5, ← a6, ← a7, ← a8, ← a9, ← a10, ← a11, ← a12,
    ← b1, ← b2, ← b3, ← b4, ← b5, ← b6, ← b7, ← b8, ← b9, ← b10, ← b11, ← b12, he]
  exact ⟨rfl, rfl, rfl, rfl, rfl, rfl, rfl, rfl, rfl, rfl, rfl, rfl⟩


/-! ### the converse: a well-formed representation equivalent to the layout is presented by segments -/

theorem sums_take (acc : Nat) (S : List (List Nat)) (k : Nat) :
    (sums acc S).take k = sums acc (S.take k) := by
  induction S generalizing acc k with
  | nil => simp
  | cons s ss ih =>
    cases k with
    | zero => simp
    | succ j => simp [ih]

theorem sums_drop (acc : Nat) (S : List (List Nat)) (k : Nat) :
    (sums acc S).drop k = sums (acc + (S.take k).flatten.length) (S.drop k) := by
  induction S generalizing acc k with
  | nil => simp
  | cons s ss ih =>
    cases k with
    | zero => simp
    | succ j => simp [ih, Nat.add_assoc]

theorem flatten_nil_of_sums_const (acc m : Nat) (L : List (List Nat))
    (h : sums acc L = List.replicate m acc) : L.flatten = [] := by
  induction L generalizing m with
  | nil => rfl
  | cons s ss ih =>
    cases m with
    | zero => simp at h
    | succ j =>
      simp only [sums_cons, List.replicate_succ, List.cons.injEq] at h
      have hs : s = [] := List.eq_nil_of_length_eq_zero (by omega)
      subst hs
      simp only [List.length_nil, Nat.add_zero] at h
      simp [ih j h.2]

theorem represents_of_equiv (u : Url) {r : Rep} (hs : u.scheme ≠ [])
    (he : r.equiv (layout u)) (hw : r.wf) : Represents r u := by
  unfold Rep.equiv at he
  rw [fill_layout u hs] at he
  have hnorm : r.norm = (layout u).norm := (congrArg Rep.norm he : r.fill.norm = _)
  have hpe : fillTrailing r.norm.length r.partEnd = sums 0 (segsOf u) := by
    have h1 : r.fill.partEnd = (layout u).partEnd := congrArg Rep.partEnd he
    have h2 : (layout u).partEnd = sums 0 (segsOf u) := by
      conv => lhs; rw [← mkRep_segsOf u]
      show sums 0 (segsOf u) ++ List.replicate (11 - (segsOf u).length) 0 = _
      have e : 11 - (segsOf u).length = 0 := rfl
      rw [e]; simp
    rw [← h2, ← h1]; rfl
  have hnS : (layout u).norm = (segsOf u).flatten := by
    conv => lhs; rw [← mkRep_segsOf u]
    rfl
  obtain ⟨Q, x, m, hl, hx, hlen, h5, hm, _⟩ := wf_decomp r hw
  rw [hl, fillTrailing_decomp _ _ _ _ hx] at hpe
  have hSlen : (segsOf u).length = 11 := rfl
  -- the started segments
  have hk : (Q ++ [x]).length = Q.length + 1 := by simp
  have htake : Q ++ [x] = sums 0 ((segsOf u).take (Q.length + 1)) := by
    have := congrArg (List.take (Q.length + 1)) hpe
    rw [List.take_left' hk, sums_take] at this
    exact this
  have hdrop : List.replicate m r.norm.length =
      sums (0 + ((segsOf u).take (Q.length + 1)).flatten.length) ((segsOf u).drop (Q.length + 1)) := by
    have := congrArg (List.drop (Q.length + 1)) hpe
    rw [List.drop_left' hk, sums_drop] at this
    exact this
  have hAne : (segsOf u).take (Q.length + 1) ≠ [] := by simp [segsOf]
  have hxoff : x = ((segsOf u).take (Q.length + 1)).flatten.length := by
    obtain ⟨I, hI, hIs⟩ := sums_last 0 _ hAne
    rw [hIs] at htake
    have := congrArg List.getLast? htake
    simpa using this
  have hrest : ((segsOf u).drop (Q.length + 1)).flatten = [] := by
    by_cases hm0 : m = 0
    · have : (segsOf u).drop (Q.length + 1) = [] := List.drop_of_length_le (by rw [hSlen]; omega)
      rw [this]; rfl
    · have hxn := hm (by omega)
      rw [Nat.zero_add, ← hxoff, hxn] at hdrop
      exact flatten_nil_of_sums_const _ _ _ hdrop.symm
  have hAlen : ((segsOf u).take (Q.length + 1)).length = Q.length + 1 := by
    rw [List.length_take, hSlen]; omega
  have hrp : Rp (segsOf u) ((segsOf u).take (Q.length + 1)) := by
    refine ⟨rfl, by rw [hAlen]; omega, by rw [hAlen]; omega, ?_, ?_⟩
    · conv => lhs; rw [← List.take_append_drop (Q.length + 1) (segsOf u)]
      congr 1
      rw [eq_replicate_of_flatten_nil _ hrest, hAlen, List.length_drop, hSlen]
    · simp [off, segsOf]; exact List.length_pos_iff.mpr hs
  refine ⟨_, hrp, ?_⟩
  apply rep_eq_mkRep
  · rw [hnorm, hnS, ← hrp.flatten]
  · rw [hl, htake, hAlen]
    congr 2; omega
  · exact (congrArg Rep.hostNotNull he : r.fill.hostNotNull = _)
  · exact (congrArg Rep.portNotNull he : r.fill.portNotNull = _)
  · exact (congrArg Rep.queryNotNull he : r.fill.queryNotNull = _)
  · exact (congrArg Rep.fragmentNotNull he : r.fill.fragmentNotNull = _)
  · exact (congrArg Rep.opaquePath he : r.fill.opaquePath = _)
  · exact (congrArg Rep.hostType he : r.fill.hostType = _)
  · exact (congrArg Rep.segCount he : r.fill.segCount = _)
  · exact (congrArg Rep.schemeIdx he : r.fill.schemeIdx = _)

/-- the representation predicate of the C05b theorems, in terms of `≈` and `wf` only -/
theorem represents_iff (u : Url) (wf : RecWF u) (r : Rep) :
    Represents r u ↔ r.equiv (layout u) ∧ r.wf :=
  ⟨represents_equiv u wf, fun h => represents_of_equiv u wf.1 h.1 h.2⟩


/-! ### the path buffer of the setter (`strp_`, `path_seg_end_`) -/

/-- the segments with their leading "/" -/
def slashed (p : List (List Nat)) : List (List Nat) := p.map (fun seg => 0x2F :: seg)

theorem slashed_flatten (p : List (List Nat)) :
    (slashed p).flatten = p.flatMap (fun seg => 0x2F :: seg) := by
  simp [slashed, List.flatMap]

theorem foldl_push (p : List (List Nat)) (b : PathBuf) :
    p.foldl PathBuf.push b =
      { strp := b.strp ++ (slashed p).flatten, segEnd := b.segEnd ++ sums b.strp.length (slashed p) } := by
  induction p generalizing b with
  | nil => simp [slashed]
  | cons s r ih =>
    rw [List.foldl_cons, ih]
    simp [PathBuf.push, slashed, Nat.add_assoc]

/-- `strp_` is the serialised path, `path_seg_end_` the end offset of every segment in it -/
theorem ofPath_eq (p : List (List Nat)) :
    PathBuf.ofPath p = { strp := (slashed p).flatten, segEnd := sums 0 (slashed p) } := by
  unfold PathBuf.ofPath
  rw [foldl_push]
  rfl

theorem sums_dropLast (acc : Nat) (A : List (List Nat)) :
    (sums acc A).dropLast = sums acc A.dropLast := by
  induction A generalizing acc with
  | nil => rfl
  | cons s r ih =>
    cases r with
    | nil => rfl
    | cons t r' =>
      have := ih (acc + s.length)
      simp only [sums_cons, List.dropLast_cons_cons] at this ⊢
      rw [this]

theorem sums_getLast (A : List (List Nat)) (hA : A ≠ []) :
    (sums 0 A).getLast?.getD 0 = A.flatten.length := by
  obtain ⟨I, _, hI⟩ := sums_last 0 A hA
  rw [hI]; simp

/-- "shorten a path" on a list of segments (`url::get_shorten_path`, `Impl.shortenPath`) -/
def shortenList (isFile : Bool) (p : List (List Nat)) : List (List Nat) :=
  match p with
  | [] => []
  | [seg] =>
    if isFile && (match seg with | [a, b] => isNormalizedWindowsDrive a b | _ => false) then [seg] else []
  | _ => p.dropLast

theorem shortenPath_path (u : Url) : (shortenPath u).path = shortenList u.isFile u.path := by
  unfold shortenPath shortenList
  split
  · next h => simp [h]
  · next seg h =>
    simp only [h]
    split
    · next a b => split <;> simp [h]
    · simp
  · next h1 h2 =>
    split
    · next h => exact absurd h h1
    · next seg h => exact absurd h (h2 seg)
    · rfl

theorem shorten_list (isFile : Bool) (p : List (List Nat)) :
    (PathBuf.ofPath p).shorten isFile = PathBuf.ofPath (shortenList isFile p) := by
  rw [ofPath_eq, ofPath_eq]
  unfold PathBuf.shorten shortenList
  match p with
  | [] => simp [slashed]
  | [seg] =>
    simp only [slashed, List.map_cons, List.map_nil, sums_cons, sums_nil, List.length_cons,
      List.length_nil, List.flatten_cons, List.flatten_nil, List.append_nil, if_true]
    match seg with
    | [] => simp
    | [a] => simp
    | [a, b] =>
      cases isFile <;> cases hd : isNormalizedWindowsDrive a b <;> simp [hd]
    | a :: b :: c :: r => simp
  | s1 :: s2 :: rest =>
    have hlen : (sums 0 (slashed (s1 :: s2 :: rest))).length = rest.length + 2 := by simp [slashed]
    rw [if_neg (by rw [hlen]; omega), if_pos (by rw [hlen]; omega)]
    have hdl : (slashed (s1 :: s2 :: rest)).dropLast = slashed (s1 :: s2 :: rest).dropLast := by
      simp [slashed, List.map_dropLast]
    have hne' : slashed (s1 :: s2 :: rest).dropLast ≠ [] := by
      simp [slashed, List.dropLast]
    simp only [sums_dropLast, hdl, sums_getLast _ hne']
    have hsplit : (slashed (s1 :: s2 :: rest)).flatten =
        (slashed (s1 :: s2 :: rest).dropLast).flatten ++
          (0x2F :: (s1 :: s2 :: rest).getLast (by simp)) := by
      conv => lhs; rw [← List.dropLast_concat_getLast (l := s1 :: s2 :: rest) (by simp)]
      simp [slashed]
    rw [hsplit, List.take_left' rfl]

/-- `url_setter::shorten_path` on the buffer = `url::get_shorten_path` on the record's path -/
theorem shorten_ofPath (u : Url) :
    (PathBuf.ofPath u.path).shorten u.isFile = PathBuf.ofPath (shortenPath u).path := by
  rw [shortenPath_path]; exact shorten_list _ _

theorem commitPathBuf_ofPath (r : Rep) (u : Url) (p : List (List Nat)) (ho : u.hasOpaquePath = false) :
    commitPathBuf r (PathBuf.ofPath p) = commitPath r (pathText { u with path := p }) p.length := by
  rw [ofPath_eq]
  simp only [commitPathBuf, slashed_flatten, pathText, ho, sums_length]
  simp [slashed]


end Upa.Proofs.SetRep
