import Upa.Proofs.Lockstep
import Upa.Proofs.OwnAbs3
/-
  C06b, layer 5: the lock-step half at heap level.  `LockInv h`: every url, seen through `abs`,
  satisfies the invariant `LockS` of C06, and every FREE params object holds well-formed pairs (it may
  be assigned to an owned one later).  Each heap operation preserves it, by the refinement lemmas of
  layer 4 and the `UrlObj`-level lemmas of `Upa/Proofs/Lockstep.lean`.
-/
set_option linter.unusedSimpArgs false
set_option linter.unusedVariables false

namespace Upa.Proofs.Own
open Upa Upa.Impl Upa.Impl.Own Upa.Proofs.C06

structure LockInv (h : Heap) : Prop where
  /-- `LockS` of C06 for what every url id stands for -/
  lock : ∀ u, LockS (abs h u)
  /-- FREE params objects hold well-formed UTF-8 names and values -/
  wfFree : ∀ p c, cont h p = some c → up h p = some none → AllWFP c.list

theorem lockInv_empty : LockInv {} := ⟨fun _ => lockS_init, fun _ _ h => (by cases h)⟩

/-- under `OwnG`, every params object (FREE or OWNED) holds well-formed pairs -/
theorem LockInv.wf_all {h : Heap} (hl : LockInv h) (hi : OwnG h) : ∀ p c, cont h p = some c → AllWFP c.list := by
  intro p c hc
  rcases hup : up h p with _ | _ | u
  · rw [(cont_eq_none h p).2 hup] at hc; cases hc
  · exact hl.wfFree p c hc hup
  · have hs := hi.back p u hup
    have := (hl.lock u).wf c (by rw [abs_some hs]; exact hc)
    exact this

theorem LockInv.wf_listOf {h : Heap} (hl : LockInv h) (hi : OwnG h) (p : Nat) : AllWFP (h.listOf p) := by
  rw [listOf_eq]
  cases hc : cont h p with
  | none => exact AllWFP_nil
  | some c => exact hl.wf_all hi p c hc

theorem LockInv.qbytes {h : Heap} (hl : LockInv h) (u : Nat) : QBytes (h.recOf u) := by
  rw [← abs_url]; exact (hl.lock u).qbytes

/-! ## FREE objects are not touched by the url operations -/

/-- every object that is FREE afterwards was FREE before, with the same content -/
def FreeKeep (h h' : Heap) : Prop := ∀ p, up h' p = some none → up h p = some none ∧ cont h' p = cont h p

theorem FreeKeep.refl (h : Heap) : FreeKeep h h := fun _ hp => ⟨hp, rfl⟩
theorem FreeKeep.trans {h h' h'' : Heap} (a : FreeKeep h h') (b : FreeKeep h' h'') : FreeKeep h h'' :=
  fun p hp => ⟨(a p (b p hp).1).1, (b p hp).2.trans (a p (b p hp).1).2⟩

theorem FreeKeep.wfFree {h h' : Heap} (k : FreeKeep h h') (hl : LockInv h) :
    ∀ p c, cont h' p = some c → up h' p = some none → AllWFP c.list :=
  fun p c hc hp => hl.wfFree p c ((k p hp).2 ▸ hc) (k p hp).1

theorem freeKeep_setRec (h : Heap) (u : Nat) (r : Option Url) : FreeKeep h (h.setRec u r) := by
  intro p; simp
theorem freeKeep_newUrl (h : Heap) : FreeKeep h (newUrl h).1 := by
  intro p; simp [newUrl]
theorem freeKeep_urlCopyConstruct (h : Heap) (s : Nat) : FreeKeep h (urlCopyConstruct h s).1 := by
  intro p; simp [urlCopyConstruct]
theorem freeKeep_urlSearchParams (h : Heap) (u : Nat) (hi : OwnG h) : FreeKeep h (urlSearchParams h u) := by
  obtain ⟨f, b, fu, fp⟩ := hi
  unfold urlSearchParams
  intro p
  split
  · simp
  · split
    · simp
    · simp; grind
theorem freeKeep_urlMoveConstruct (h : Heap) (s : Nat) (hi : OwnG h) : FreeKeep h (urlMoveConstruct h s).1 := by
  obtain ⟨f, b, fu, fp⟩ := hi
  unfold urlMoveConstruct
  rw [spOf_eq]
  intro p
  rcases hss : sp h s with _ | _ | ps <;> simp <;> grind
theorem freeKeep_urlMoveAssign (h : Heap) (d s : Nat) (hi : OwnG h) : FreeKeep h (urlMoveAssign h d s) := by
  obtain ⟨f, b, fu, fp⟩ := hi
  unfold urlMoveAssign moveRecord
  split
  · exact FreeKeep.refl h
  · rename_i hc
    have hds : d ≠ s := fun e => hc (Or.inl e)
    rw [spOf_eq, spOf_eq]
    intro p
    rcases hsd : sp h d with _ | _ | pd <;> rcases hss : sp h s with _ | _ | ps <;>
      simp [hds, Ne.symm hds] <;> grind
theorem freeKeep_urlSafeAssign (h : Heap) (d s : Nat) (hi : OwnG h) : FreeKeep h (urlSafeAssign h d s) := by
  obtain ⟨f, b, fu, fp⟩ := hi
  unfold urlSafeAssign moveRecord moveParams
  split
  · exact FreeKeep.refl h
  · rename_i hc
    have hds : d ≠ s := fun e => hc (Or.inl e)
    rw [spOf_eq, spOf_eq]
    intro p
    rcases hsd : sp h d with _ | _ | pd <;> rcases hss : sp h s with _ | _ | ps <;>
      simp [hds, Ne.symm hds] <;> grind
theorem freeKeep_destroyUrl (h : Heap) (u : Nat) : FreeKeep h (destroyUrl h u) := by
  unfold destroyUrl
  intro p
  split <;> simp <;> grind
theorem freeKeep_urlClear (h : Heap) (u : Nat) (hi : OwnG h) : FreeKeep h (urlClear h u) := by
  obtain ⟨f, b, fu, fp⟩ := hi
  unfold urlClear clearSearchParams
  simp only [spOf_eq, sp_setRec]
  intro p
  rcases hsu : sp h u with _ | _ | pu <;> simp <;> grind
theorem freeKeep_parseSearchParams (h : Heap) (u : Nat) (hi : OwnG h) : FreeKeep h (parseSearchParams h u) := by
  obtain ⟨f, b, fu, fp⟩ := hi
  unfold parseSearchParams
  simp only [spOf_eq]
  intro p
  rcases hsu : sp h u with _ | _ | pu <;> simp <;> grind
theorem freeKeep_clearSearchParams (h : Heap) (u : Nat) (hi : OwnG h) : FreeKeep h (clearSearchParams h u) := by
  obtain ⟨f, b, fu, fp⟩ := hi
  unfold clearSearchParams
  simp only [spOf_eq]
  intro p
  rcases hsu : sp h u with _ | _ | pu <;> simp <;> grind
theorem ownG_setRec (h : Heap) (u : Nat) (r : Option Url) (hi : OwnG h) : OwnG (h.setRec u r) :=
  SameG.ownG (by unfold SameG; simp) hi
theorem freeKeep_urlDoParse (h : Heap) (u : Nat) (res : Option Url) (hi : OwnG h) : FreeKeep h (urlDoParse h u res) := by
  unfold urlDoParse
  dsimp only
  have h1 : FreeKeep h (if (h.recOf u).isSome = true then urlClear h u else h) := by
    split
    · exact freeKeep_urlClear h u hi
    · exact FreeKeep.refl h
  have hi1 : OwnG (if (h.recOf u).isSome = true then urlClear h u else h) := by
    split
    · exact (sameG_urlClear h u).ownG hi
    · exact hi
  generalize (if (h.recOf u).isSome = true then urlClear h u else h) = h' at *
  split
  · exact h1.trans ((freeKeep_setRec _ _ _).trans (freeKeep_parseSearchParams _ _ (ownG_setRec _ _ _ hi1)))
  · exact h1.trans (freeKeep_setRec _ _ _)
theorem freeKeep_urlSetSearch (h : Heap) (u : Nat) (r : Url) (e : Bool) (hi : OwnG h) :
    FreeKeep h (urlSetSearch h u r e) := by
  unfold urlSetSearch
  dsimp only
  split
  · exact FreeKeep.refl h
  · split
    · exact (freeKeep_setRec _ _ _).trans (freeKeep_clearSearchParams _ _ (ownG_setRec _ _ _ hi))
    · exact (freeKeep_setRec _ _ _).trans (freeKeep_parseSearchParams _ _ (ownG_setRec _ _ _ hi))
theorem freeKeep_urlSetOther (h : Heap) (u : Nat) (r : Url) : FreeKeep h (urlSetOther h u r) := by
  unfold urlSetOther
  split
  · exact FreeKeep.refl h
  · exact freeKeep_setRec _ _ _
theorem freeKeep_urlSetHref (h : Heap) (u : Nat) (res : Option Url) (hi : OwnG h) : FreeKeep h (urlSetHref h u res) := by
  unfold urlSetHref
  split
  · exact FreeKeep.refl h
  · split
    · exact FreeKeep.refl h
    · rename_i r
      have hi1 : OwnG ((newUrl h).1.setRec (newUrl h).2 (some r)) := ownG_setRec _ _ _ (newUrl_ownG h hi)
      exact (freeKeep_newUrl h).trans ((freeKeep_setRec _ _ _).trans
        ((freeKeep_urlSafeAssign _ _ _ hi1).trans (freeKeep_destroyUrl _ _)))
theorem freeKeep_urlSet (idna : Idna) (h : Heap) (u : Nat) (s : Setter) (e : Enc) (units : List Nat) (hi : OwnG h) :
    FreeKeep h (urlSet idna h u s e units) := by
  unfold urlSet
  split
  · exact freeKeep_urlSetHref h u _ hi
  · exact FreeKeep.refl h
  · exact freeKeep_urlSetSearch _ _ _ _ hi
  · exact freeKeep_urlSetOther _ _ _
theorem freeKeep_urlSwap (h : Heap) (a b : Nat) (hi : OwnG h) : FreeKeep h (urlSwap h a b) := by
  unfold urlSwap
  split
  · exact FreeKeep.refl h
  · have hi1 := urlMoveConstruct_ownG h a hi
    have hi2 := urlMoveAssign_ownG _ a b hi1
    exact (freeKeep_urlMoveConstruct h a hi).trans ((freeKeep_urlMoveAssign _ _ _ hi1).trans
      ((freeKeep_urlMoveAssign _ _ _ hi2).trans (freeKeep_destroyUrl _ _)))
theorem freeKeep_urlCopyAssign (h : Heap) (d s : Nat) (hi : OwnG h) : FreeKeep h (urlCopyAssign h d s) := by
  obtain ⟨f, b, fu, fp⟩ := hi
  unfold urlCopyAssign
  dsimp only
  split
  · exact FreeKeep.refl h
  · rw [spOf_eq, spOf_eq]
    intro p
    rcases hsd : sp h d with _ | _ | pd
    · simp
    · simp
    · simp only [Option.join_some]
      split
      · simp
      · rcases hss : sp h s with _ | _ | ps
        · simp [urlPtrOf_eq]; split <;> simp <;> grind
        · simp [urlPtrOf_eq]; split <;> simp <;> grind
        · simp; grind

end Upa.Proofs.Own
