import Upa.Impl.Conc
/-
  Invariants of the magic-static protocol (`Upa.Impl.Conc`), for every number of threads and every
  schedule.  Used by `Upa.Props.C19`.
-/
namespace Upa.Impl.Conc

/-- neither inside the initialiser nor past the guard -/
def Pc.outside (pc : Pc) : Prop := pc = .idle ∨ pc = .checkGuard
/-- not inside the initialiser; a handle already read is the initialised one -/
def Pc.reader (pc : Pc) : Prop :=
  pc = .idle ∨ pc = .checkGuard ∨ pc = .readHandle ∨ pc = .readVersion (some (freshHandle 0))

/-- where the thread that holds the guard is, and what it has written so far -/
def InitPhase (s : State) (t : Nat) : Prop :=
  ((s.thr t).pc = .initPtr ∧ s.initCount = 0 ∧ s.uidnaPtr = none ∧ s.icuVersion = none) ∨
  ((s.thr t).pc = .initVer ∧ s.initCount = 1 ∧ s.uidnaPtr = some (freshHandle 0) ∧ s.icuVersion = none) ∨
  ((s.thr t).pc = .finishInit ∧ s.initCount = 1 ∧ s.uidnaPtr = some (freshHandle 0) ∧ s.icuVersion = some icuMajor)

/-- the inductive invariant of the magic-static protocol -/
structure Inv (s : State) : Prop where
  logs   : ∀ u o, o ∈ (s.thr u).log → o = good
  uninit : s.guard = .uninit →
    s.initCount = 0 ∧ s.uidnaPtr = none ∧ s.icuVersion = none ∧ ∀ u, (s.thr u).pc.outside
  inprog : ∀ t, s.guard = .inProgress t → InitPhase s t ∧ ∀ u, u ≠ t → (s.thr u).pc.outside
  done   : s.guard = .done →
    s.initCount = 1 ∧ s.uidnaPtr = some (freshHandle 0) ∧ s.icuVersion = some icuMajor ∧
    ∀ u, (s.thr u).pc.reader

theorem inv_init (progs : List (List Call)) : Inv (init progs) := by
  constructor <;> simp [init, Pc.outside]

theorem inv_initDone (progs : List (List Call)) : Inv (initDone progs) := by
  constructor <;> simp [initDone, init, Pc.reader]

@[simp] theorem setThr_guard (s : State) (t th) : (s.setThr t th).guard = s.guard := rfl
@[simp] theorem setThr_ptr (s : State) (t th) : (s.setThr t th).uidnaPtr = s.uidnaPtr := rfl
@[simp] theorem setThr_ver (s : State) (t th) : (s.setThr t th).icuVersion = s.icuVersion := rfl
@[simp] theorem setThr_count (s : State) (t th) : (s.setThr t th).initCount = s.initCount := rfl
@[simp] theorem setThr_thr (s : State) (t th u) :
    (s.setThr t th).thr u = if u = t then th else s.thr u := rfl

theorem step_inv {s s' : State} {t : Nat} (h : Inv s) (hs : step .magicStatic s t = some s') : Inv s' := by
  obtain ⟨hl, hu, hi, hd⟩ := h
  simp only [InitPhase, Pc.outside, Pc.reader, good] at hl hu hi hd
  unfold step at hs
  simp only at hs
  repeat' split at hs
  all_goals
    cases hs <;> constructor <;>
      simp only [InitPhase, Pc.outside, Pc.reader, good, setThr_guard, setThr_ptr, setThr_ver, setThr_count,
        setThr_thr] <;>
      rcases hg : s.guard with _ | t' | _ <;> grind

theorem exec_nil (p : Proto) (s : State) : exec p s [] = s := rfl
theorem exec_cons (p : Proto) (s : State) (t : Nat) (r : List Nat) :
    exec p s (t :: r) = exec p ((step p s t).getD s) r := rfl
theorem exec_append (p : Proto) (s : State) (a b : List Nat) :
    exec p s (a ++ b) = exec p (exec p s a) b := by simp [exec, List.foldl_append]

theorem exec_inv {s : State} (h : Inv s) (sched : List Nat) : Inv (exec .magicStatic s sched) := by
  induction sched generalizing s with
  | nil => exact h
  | cons t r ih =>
    rw [exec_cons]
    cases hs : step .magicStatic s t with
    | none => exact ih h
    | some s' => exact ih (step_inv h hs)

/-- observation still owed by the call in progress -/
def pending (pc : Pc) : List Obs := if pc = .idle then [] else [good]

/-- what a thread has logged and computed so far, plus what its remaining calls mean sequentially,
    is the sequential meaning of its whole program -/
structure Track (prog0 : List Call) (th : Thread) : Prop where
  log  : th.log ++ pending th.pc ++ seqLog th.prog = seqLog prog0
  priv : seqPriv th.prog th.priv = seqPriv prog0 0

theorem track_init (progs : List (List Call)) (u : Nat) : Track (progs.getD u []) ((init progs).thr u) := by
  constructor <;> simp [init, pending]

theorem step_frame {p : Proto} {s s' : State} {t u : Nat} (hs : step p s t = some s') (hut : u ≠ t) :
    s'.thr u = s.thr u := by
  unfold step at hs
  simp only at hs
  repeat' split at hs
  all_goals cases hs <;> simp [State.setThr, hut]

/-- a thread past the guard with a handle in hand holds the initialised one, and the version is set -/
theorem inv_readVersion {s : State} (h : Inv s) {t : Nat} {a : Option Nat}
    (hpc : (s.thr t).pc = .readVersion a) : a = some (freshHandle 0) ∧ s.icuVersion = some icuMajor := by
  obtain ⟨hl, hu, hi, hd⟩ := h
  simp only [InitPhase, Pc.outside, Pc.reader] at hu hi hd
  rcases hg : s.guard with _ | t' | _ <;> grind

theorem step_track_self {s s' : State} {t : Nat} {prog0 : List Call} (h : Inv s)
    (hs : step .magicStatic s t = some s') (ht : Track prog0 (s.thr t)) : Track prog0 (s'.thr t) := by
  have hr := @inv_readVersion s h t
  clear h
  obtain ⟨h1, h2⟩ := ht
  unfold step at hs
  simp only at hs
  repeat' split at hs
  all_goals cases hs
  all_goals
    constructor <;> simp only [State.setThr, if_true] <;> simp_all [pending, seqLog, seqPriv, good]

theorem exec_track {s : State} {prog0 : Nat → List Call} (h : Inv s) (ht : ∀ u, Track (prog0 u) (s.thr u))
    (sched : List Nat) : ∀ u, Track (prog0 u) ((exec .magicStatic s sched).thr u) := by
  induction sched generalizing s with
  | nil => exact ht
  | cons t r ih =>
    rw [exec_cons]
    cases hs : step .magicStatic s t with
    | none => exact ih h ht
    | some s' =>
      refine ih (step_inv h hs) (fun u => ?_)
      by_cases hut : u = t
      · subst hut; exact step_track_self h hs (ht u)
      · show Track (prog0 u) (s'.thr u)
        rw [step_frame hs hut]; exact ht u

theorem track_finished {prog0 : List Call} {th : Thread} (ht : Track prog0 th) (hf : th.finished = true) :
    th.log = seqLog prog0 ∧ th.priv = seqPriv prog0 0 := by
  obtain ⟨h1, h2⟩ := ht
  simp only [Thread.finished, Bool.and_eq_true, beq_iff_eq, List.isEmpty_iff] at hf
  simp_all [pending, seqLog, seqPriv]

/-- on an initialised state a thread completes one call in `cost` of its own steps, whatever the
    other threads are doing in between is irrelevant here: this is the solo run -/
theorem solo_finish (prog : List Call) (s : State) (hg : s.guard = .done) (hpc : (s.thr 0).pc = .idle)
    (hp : (s.thr 0).prog = prog) :
    ((exec .magicStatic s (List.replicate (prog.map Call.cost).sum 0)).thr 0).finished = true := by
  induction prog generalizing s with
  | nil => simp [exec, Thread.finished, hpc, hp]
  | cons c r ih =>
    rw [List.map_cons, List.sum_cons, ← List.replicate_append_replicate, exec_append]
    cases c with
    | pure f =>
      apply ih <;> simp [Call.cost, exec, step, hpc, hp, hg, State.setThr]
    | idna =>
      apply ih <;> simp [Call.cost, exec, step, hpc, hp, hg, State.setThr, List.replicate]

/-- no deadlock: in a reachable state, if some thread is not finished then some thread can step
    (the holder of the guard is never blocked) -/
theorem inv_progress {s : State} (h : Inv s) {u : Nat} (hu : (s.thr u).finished = false) :
    ∃ t, (step .magicStatic s t).isSome = true := by
  obtain ⟨_, _, hi, _⟩ := h
  have self : s.guard = .uninit ∨ s.guard = .done → (step .magicStatic s u).isSome = true := by
    intro hg
    simp only [Thread.finished] at hu
    cases hpc : (s.thr u).pc <;> rcases hg with hg | hg <;> simp [step, hpc, hg]
    all_goals cases hp : (s.thr u).prog with
      | nil => simp [hpc, hp] at hu
      | cons c r => cases c <;> simp
  rcases hg : s.guard with _ | t' | _
  · exact ⟨u, self (.inl hg)⟩
  · refine ⟨t', ?_⟩
    have := (hi t' hg).1
    unfold step
    rcases this with h | h | h <;> simp [h.1]
  · exact ⟨u, self (.inr hg)⟩

theorem track_initDone (progs : List (List Call)) (u : Nat) :
    Track (progs.getD u []) ((initDone progs).thr u) := by
  constructor <;> simp [initDone, init, pending]

/-- the solo run on a pre-initialised state computes the sequential meaning -/
theorem soloRun_eq (prog : List Call) :
    (soloRun prog).finished = true ∧ (soloRun prog).log = seqLog prog ∧ (soloRun prog).priv = seqPriv prog 0 := by
  have hf : (soloRun prog).finished = true :=
    solo_finish prog (initDone [prog]) rfl rfl rfl
  have ht := exec_track (inv_initDone [prog]) (track_initDone [prog])
    (List.replicate (prog.map Call.cost).sum 0) 0
  exact ⟨hf, track_finished ht hf⟩

end Upa.Impl.Conc
