import Upa.Props.C04c
import Upa.Proofs.SetRepExc
/-
  Helpers for C20b, part 2: the representations at the throwing primitives of the `url_setter`
  operations.  All of them have the shape `ShapeOf r0 m r`: the string is the concatenation of the
  segments `A` of the started parts (at least `m` of them) followed by text `extra` of a part whose end
  offset is not written yet; the offsets are the running sums of `A`, then zeros; flags etc. are those
  of `r0`.  Such a representation has its offsets in bounds and ascending.
-/
set_option linter.unusedSimpArgs false

namespace Upa.Proofs.SetRepExc
open Upa Upa.Impl Upa.Proofs.C05 Upa.Proofs.SetRep Upa.Proofs.SetRepApi Upa.Props

/-! ### the shape -/

/-- `mkRep r0 A` with `extra` appended to the string -/
def mkRepE (r0 : Rep) (A : List (List Nat)) (extra : List Nat) : Rep :=
  { mkRep r0 A with norm := A.flatten ++ extra }

theorem mkRepE_nil (r0 : Rep) (A : List (List Nat)) : mkRepE r0 A [] = mkRep r0 A := by
  simp [mkRepE, mkRep]

def ShapeOf (r0 : Rep) (m : Nat) (r : Rep) : Prop :=
  ∃ (A : List (List Nat)) (extra : List Nat), m ≤ A.length ∧ A.length ≤ 11 ∧ 0 < off A 1 ∧
    r = mkRepE r0 A extra

theorem ShapeOf.mono {r0 r : Rep} {m m' : Nat} (h : ShapeOf r0 m r) (hm : m' ≤ m) : ShapeOf r0 m' r := by
  obtain ⟨A, e, h1, h2, h3, h4⟩ := h
  exact ⟨A, e, by omega, h2, h3, h4⟩

theorem shapeOf_mkRep (r0 : Rep) (A : List (List Nat)) (hA : A.length ≤ 11) (hpos : 0 < off A 1) :
    ShapeOf r0 A.length (mkRep r0 A) :=
  ⟨A, [], Nat.le_refl _, hA, hpos, (mkRepE_nil r0 A).symm⟩

theorem shapeOf_rp (r0 : Rep) {S A : List (List Nat)} (h : Rp S A) : ShapeOf r0 A.length (mkRep r0 A) :=
  shapeOf_mkRep r0 A h.hi (by rw [h.off]; exact h.pos)

theorem ShapeOf.append {r0 r : Rep} {m : Nat} (h : ShapeOf r0 m r) (t : List Nat) :
    ShapeOf r0 m { r with norm := r.norm ++ t } := by
  obtain ⟨A, e, h1, h2, h3, rfl⟩ := h
  exact ⟨A, e ++ t, h1, h2, h3, by simp [mkRepE, mkRep]⟩

/-- the flags etc. come from `r0` only through the eight non-string fields -/
theorem mkRepE_congr {r0 r1 : Rep} (A : List (List Nat)) (e : List Nat)
    (h1 : r0.hostNotNull = r1.hostNotNull) (h2 : r0.portNotNull = r1.portNotNull)
    (h3 : r0.queryNotNull = r1.queryNotNull) (h4 : r0.fragmentNotNull = r1.fragmentNotNull)
    (h5 : r0.opaquePath = r1.opaquePath) (h6 : r0.hostType = r1.hostType)
    (h7 : r0.segCount = r1.segCount) (h8 : r0.schemeIdx = r1.schemeIdx) :
    mkRepE r0 A e = mkRepE r1 A e := by
  simp only [mkRepE, mkRep, h1, h2, h3, h4, h5, h6, h7, h8]

theorem ShapeOf.setHostType {r0 r : Rep} {m : Nat} (h : ShapeOf r0 m r) (ht : Nat) :
    ShapeOf (r0.setHostType ht) m (r.setHostType ht) := by
  obtain ⟨A, e, h1, h2, h3, rfl⟩ := h
  exact ⟨A, e, h1, h2, h3, rfl⟩

theorem ShapeOf.segCount {r0 r : Rep} {m : Nat} (h : ShapeOf r0 m r) (n : Nat) :
    ShapeOf { r0 with segCount := n } m { r with segCount := n } := by
  obtain ⟨A, e, h1, h2, h3, rfl⟩ := h
  exact ⟨A, e, h1, h2, h3, rfl⟩

/-! ### a representation of that shape has its offsets in bounds and ascending -/

theorem sums_le (acc : Nat) (A : List (List Nat)) : ∀ x ∈ sums acc A, x ≤ acc + A.flatten.length := by
  induction A generalizing acc with
  | nil => simp
  | cons s ss ih =>
    intro x hx
    simp only [sums_cons, List.mem_cons] at hx
    simp only [List.flatten_cons, List.length_append]
    rcases hx with h | h
    · omega
    · have := ih _ x h; omega

theorem sums_pairwise (acc : Nat) (A : List (List Nat)) : List.Pairwise (· ≤ ·) (sums acc A) := by
  induction A generalizing acc with
  | nil => exact List.Pairwise.nil
  | cons s ss ih =>
    rw [sums_cons]
    exact List.pairwise_cons.mpr ⟨fun x hx => sums_ge _ _ x hx, ih _⟩

theorem ShapeOf.offsetsOk {r0 r : Rep} {m : Nat} (h : ShapeOf r0 m r) : OffsetsOk r := by
  obtain ⟨A, e, _, hA, hpos, rfl⟩ := h
  have hAne : A ≠ [] := by
    intro hc; rw [hc] at hpos; simp [off] at hpos
  have hn : (mkRepE r0 A e).norm.length = A.flatten.length + e.length := by simp [mkRepE]
  have hpe : (mkRepE r0 A e).partEnd = sums 0 A ++ List.replicate (11 - A.length) 0 := rfl
  have hfill : (mkRepE r0 A e).fill.partEnd =
      sums 0 A ++ List.replicate (11 - A.length) (A.flatten.length + e.length) := by
    show fillTrailing (mkRepE r0 A e).norm.length (mkRepE r0 A e).partEnd = _
    rw [hn, hpe, fillTrailing_sums _ _ _ hAne hpos]
  have hsl : ∀ x ∈ sums 0 A, x ≤ A.flatten.length + e.length := by
    intro x hx; have := sums_le 0 A x hx; omega
  refine ⟨by rw [hpe]; simp; omega, ?_, ?_, ?_⟩
  · intro x hx
    rw [hpe] at hx
    rw [hn]
    rcases List.mem_append.mp hx with h1 | h1
    · exact hsl x h1
    · have := (List.mem_replicate.mp h1).2; omega
  · rw [hfill]
    refine List.pairwise_append.mpr ⟨sums_pairwise 0 A, ?_, ?_⟩
    · exact List.pairwise_replicate.mpr (Or.inr (Nat.le_refl _))
    · intro a ha b hb
      rw [(List.mem_replicate.mp hb).2]
      exact hsl a ha
  · intro x hx
    rw [hfill] at hx
    rw [hn]
    rcases List.mem_append.mp hx with h1 | h1
    · exact hsl x h1
    · rw [(List.mem_replicate.mp h1).2]; exact Nat.le_refl _

/-! ### appending to `norm_url_` -/

theorem appendUnitsX_shape {r0 r : Rep} {m : Nat} (h : ShapeOf r0 m r) (t : List Nat) :
    ∀ r' ∈ (appendUnitsX r t).pts, ShapeOf r0 m r' := by
  induction t generalizing r with
  | nil => intro r' hr'; simp [appendUnitsX] at hr'
  | cons c t ih =>
    intro r' hr'
    simp only [appendUnitsX, pts_bind, appendNormX_pts, appendNormX_val, List.mem_append,
      List.mem_singleton] at hr'
    rcases hr' with rfl | hr'
    · exact h
    · exact ih (h.append [c]) r' hr'

/-! ### `url_serializer::start_part` behind the last started part -/

theorem serSwitch1X_ge4 (r : Rep) (lastPt pt : Nat) (h4 : 4 ≤ lastPt) :
    serSwitch1X r lastPt pt = pure (r, lastPt + 1) := by
  unfold serSwitch1X
  rw [if_neg (by simp only [SCHEME]; omega), if_neg (by simp only [USERNAME]; omega),
    if_neg (by simp only [PASSWORD]; omega)]

/-- `fill_parts_offset(last_pt + 1, new_pt, length)` (url.h:2641): the parts skipped count as started
    (and empty) -/
theorem serFill_mkRep (r0 : Rep) (X : List (List Nat)) (lastPt pt : Nat)
    (hX : X.length = lastPt + 1) (hlt : lastPt < pt) (_hpt : pt ≤ 10) :
    ({ mkRep r0 X with
        partEnd := fillRange (mkRep r0 X).partEnd (lastPt + 1) pt (mkRep r0 X).norm.length } : Rep) =
      mkRep r0 (X ++ List.replicate (pt - X.length) []) := by
  apply rep_eq_mkRep <;> try rfl
  · simp [flatten_replicate_nil]
  · show fillRange (mkRep r0 X).partEnd (lastPt + 1) pt (mkRep r0 X).norm.length = _
    unfold fillRange
    rw [if_pos (by omega)]
    show List.take (lastPt + 1) (sums 0 X ++ List.replicate (11 - X.length) 0) ++
      List.replicate (pt - (lastPt + 1)) X.flatten.length ++
      List.drop pt (sums 0 X ++ List.replicate (11 - X.length) 0) = _
    rw [List.take_left' (by simp [hX]), List.drop_append, List.drop_of_length_le (by simp; omega)]
    simp only [sums_length, List.drop_replicate, List.nil_append, hX, List.append_assoc, sums_append,
      sums_replicate_nil, Nat.zero_add, List.length_append, List.length_replicate]
    congr 2
    congr 1
    omega

theorem serStartPartX_ge4 (r : Rep) (lastPt pt : Nat) (h4 : 4 ≤ lastPt) (hlt : lastPt < pt) :
    (serStartPartX r lastPt pt).pts =
      (if delim pt = [] then []
       else [{ r with partEnd := fillRange r.partEnd (lastPt + 1) pt r.norm.length }]) ∧
    (serStartPartX r lastPt pt).val =
      { r with partEnd := fillRange r.partEnd (lastPt + 1) pt r.norm.length, norm := r.norm ++ delim pt } := by
  unfold serStartPartX delim
  rw [if_neg (by simp only [PATH]; omega), serSwitch1X_ge4 _ _ _ h4]
  generalize (if pt = PORT then [0x3A] else if pt = QUERY then [0x3F]
      else if pt = FRAGMENT then [0x23] else ([] : List Nat)) = d
  by_cases hd : d = []
  · simp only [pts_bind, val_bind, pts_pure, val_pure, if_pos hd, List.append_nil]
    subst hd
    refine ⟨trivial, ?_⟩
    simp
  · simp only [pts_bind, val_bind, pts_pure, val_pure, if_neg hd, List.nil_append]
    exact ⟨rfl, rfl⟩

theorem serStartPartX_shape (r0 : Rep) (X : List (List Nat)) (lastPt pt : Nat)
    (hX : X.length = lastPt + 1) (h4 : 4 ≤ lastPt) (hlt : lastPt < pt) (hpt : pt ≤ 10)
    (hpos : 0 < off X 1) :
    (∀ r' ∈ (serStartPartX (mkRep r0 X) lastPt pt).pts, ShapeOf r0 X.length r') ∧
      ShapeOf r0 X.length (serStartPartX (mkRep r0 X) lastPt pt).val := by
  have hposX' : 0 < off (X ++ List.replicate (pt - X.length) ([] : List Nat)) 1 := by
    unfold off at hpos ⊢
    rw [List.take_append_of_le_length (by omega)]
    exact hpos
  have hs3 : ShapeOf r0 X.length (mkRep r0 (X ++ List.replicate (pt - X.length) [])) :=
    (shapeOf_mkRep r0 _ (by simp; omega) hposX').mono (by simp)
  obtain ⟨hp, hv⟩ := serStartPartX_ge4 (mkRep r0 X) lastPt pt h4 hlt
  have hfill := serFill_mkRep r0 X lastPt pt hX hlt hpt
  refine ⟨?_, ?_⟩
  · intro r' hr'
    rw [hp] at hr'
    split at hr'
    · simp at hr'
    · rw [List.mem_singleton] at hr'
      rw [hr', hfill]; exact hs3
  · rw [hv]
    have := hs3.append (delim pt)
    rw [← hfill] at this
    exact this

/-! ### `url_setter::start_part` -/

theorem mem_ite_nil_singleton {α : Type} {c : Prop} [Decidable c] {x a : α}
    (h : x ∈ (if c then [] else [a])) : x = a := by
  split at h
  · simp at h
  · simpa using h

/-- other parts follow: only the temporary `strp_` is touched -/
theorem setStartPartX_strp (r0 : Rep) {S A : List (List Nat)} (h : Rp S A) (pt : Nat)
    (hne : (S.drop (pt + 1)).flatten ≠ []) :
    (∀ r' ∈ (setStartPartX (mkRep r0 A) pt).pts, r' = mkRep r0 A) ∧
      (setStartPartX (mkRep r0 A) pt).val.rep = mkRep r0 A ∧
      (setStartPartX (mkRep r0 A) pt).val.useStrp = true := by
  have hA : pt + 1 < A.length := h.present hne
  have hhi := h.hi
  unfold setStartPartX
  rw [if_pos (h.pe_ne_zero r0 (by omega))]
  have hyes : pt < FRAGMENT ∧ (mkRep r0 A).pe pt < (mkRep r0 A).norm.length := by
    refine ⟨by simp only [FRAGMENT]; omega, ?_⟩
    rw [h.pe, if_pos (by omega), h.normLen, off_split S h.lenS (pt + 1)]
    have : (S.drop (pt + 1)).flatten.length ≠ 0 := by
      intro hc; exact hne (List.eq_nil_of_length_eq_zero hc)
    omega
  rw [if_pos hyes]
  refine ⟨?_, rfl, rfl⟩
  intro r' hr'
  simp only [pts_bind, pts_pure, List.append_nil, pts_ite, pts_mayThrow] at hr'
  exact mem_ite_nil_singleton hr'

/-- the part is the last one with text, or was never started: the string is cut (or not), the
    skipped offsets are filled, the delimiter is appended -/
theorem setStartPartX_last (r0 : Rep) {S A : List (List Nat)} (h : Rp S A) (pt : Nat)
    (hpt5 : 5 ≤ pt) (hpt : pt ≤ 10) (hlast : (S.drop (pt + 1)).flatten = []) :
    (∀ r' ∈ (setStartPartX (mkRep r0 A) pt).pts, ShapeOf r0 (min A.length pt) r') ∧
      ShapeOf r0 (min A.length pt) (setStartPartX (mkRep r0 A) pt).val.rep ∧
      (setStartPartX (mkRep r0 A) pt).val.useStrp = false := by
  have hlo := h.lo
  have hhi := h.hi
  have hlenS := h.lenS
  have hposA : 0 < off A 1 := by rw [h.off]; exact h.pos
  unfold setStartPartX
  by_cases hA : pt < A.length
  · rw [if_pos (h.pe_ne_zero r0 hA)]
    have hnot : ¬ (pt < FRAGMENT ∧ (mkRep r0 A).pe pt < (mkRep r0 A).norm.length) := by
      rw [h.pe, if_pos hA, h.normLen, off_split S hlenS (pt + 1), hlast]
      simp
    rw [if_neg hnot]
    simp only
    rw [truncate_mkRep r0 A pt hA (by omega) hhi hposA]
    have hXl : (A.take pt).length = pt - 1 + 1 := by simp; omega
    have hposX : 0 < off (A.take pt) 1 := by
      unfold off at hposA ⊢
      rw [List.take_take]
      have : min 1 pt = 1 := by omega
      rw [this]; exact hposA
    obtain ⟨k1, k2⟩ := serStartPartX_shape r0 (A.take pt) (pt - 1) pt hXl (by omega) (by omega) hpt hposX
    have hm : (A.take pt).length = min A.length pt := by simp; omega
    rw [hm] at k1 k2
    simp only [pts_bind, pts_pure, List.append_nil, val_bind, val_pure]
    exact ⟨k1, k2, trivial⟩
  · have hz : (mkRep r0 A).pe pt = 0 := pe_mkRep_ge _ _ _ (by omega)
    rw [if_neg (by simp [hz])]
    have hfl : findLastPart (mkRep r0 A) pt = A.length - 1 := by
      have := findLastPart_mkRep r0 A (by omega) hposA (pt - (A.length - 1))
      have e : A.length - 1 + (pt - (A.length - 1)) = pt := by omega
      rw [e] at this; exact this
    rw [hfl]
    obtain ⟨k1, k2⟩ := serStartPartX_shape r0 A (A.length - 1) pt (by omega) (by omega) (by omega) hpt hposA
    have hm : A.length = min A.length pt := by omega
    rw [← hm]
    simp only [pts_bind, pts_pure, List.append_nil, val_bind, val_pure]
    exact ⟨k1, k2, trivial⟩

/-! ### appending the part text, `url_setter::save_part` -/

theorem appendX_strp (o : Open) (t : List Nat) (h : o.useStrp = true) :
    (∀ r' ∈ (o.appendX t).pts, r' = o.rep) ∧ (o.appendX t).val.rep = o.rep ∧
      (o.appendX t).val.useStrp = true := by
  unfold Open.appendX
  rw [if_pos h]
  refine ⟨?_, rfl, h⟩
  intro r' hr'
  simp only [pts_bind, pts_mayThrowN, pts_pure, List.append_nil] at hr'
  exact (List.mem_replicate.mp hr').2

theorem appendX_nostrp {r0 : Rep} {m : Nat} (o : Open) (t : List Nat) (h : o.useStrp = false)
    (hs : ShapeOf r0 m o.rep) :
    (∀ r' ∈ (o.appendX t).pts, ShapeOf r0 m r') ∧ ShapeOf r0 m (o.appendX t).val.rep ∧
      (o.appendX t).val.useStrp = false := by
  unfold Open.appendX
  rw [if_neg (by simp [h])]
  simp only [pts_bind, pts_pure, List.append_nil, val_bind, val_pure, appendUnitsX_val]
  exact ⟨appendUnitsX_shape hs t, hs.append t, h⟩

/-- every branch of `url_setter::save_part` ends in one `replace_part`: a failure leaves the
    representation as it was when `save_part` was entered -/
theorem setSavePartX_pts (o : Open) : ∀ r' ∈ (setSavePartX o).pts, r' = o.rep := by
  intro r' hr'
  unfold setSavePartX at hr'
  simp only [pts_ite, pts_bind, pts_pure, pts_mayThrow, replacePartX_pts, replacePart1X_pts] at hr'
  repeat' split at hr'
  all_goals simp at hr'
  all_goals first | exact hr' | (rcases hr' with h | h <;> exact h)

theorem setSavePartX_nostrp (o : Open) (h : o.useStrp = false) :
    (setSavePartX o).pts = [] ∧ (setSavePartX o).val = serSavePart o.rep o.currPt := by
  unfold setSavePartX
  simp only
  rw [if_neg (by simp [h])]
  exact ⟨rfl, rfl⟩

/-! ### `start_part`; append; `save_part` -/

/-- other parts follow: the call is all-or-nothing -/
theorem writePartX_strp (r0 : Rep) {S A : List (List Nat)} (h : Rp S A) (pt : Nat) (text : List Nat)
    (hne : (S.drop (pt + 1)).flatten ≠ []) :
    ∀ r' ∈ (writePartX (mkRep r0 A) pt text).pts, r' = mkRep r0 A := by
  obtain ⟨k1, k2, k3⟩ := setStartPartX_strp r0 h pt hne
  obtain ⟨a1, a2, _⟩ := appendX_strp (setStartPartX (mkRep r0 A) pt).val text k3
  intro r' hr'
  simp only [writePartX, pts_bind, List.mem_append] at hr'
  rcases hr' with hr' | hr' | hr'
  · exact k1 r' hr'
  · rw [a1 r' hr', k2]
  · rw [setSavePartX_pts _ r' hr', a2, k2]

theorem writePartX_last (r0 : Rep) {S A : List (List Nat)} (h : Rp S A) (pt : Nat) (text : List Nat)
    (hpt5 : 5 ≤ pt) (hpt : pt ≤ 10) (hlast : (S.drop (pt + 1)).flatten = []) :
    ∀ r' ∈ (writePartX (mkRep r0 A) pt text).pts, ShapeOf r0 (min A.length pt) r' := by
  obtain ⟨k1, k2, k3⟩ := setStartPartX_last r0 h pt hpt5 hpt hlast
  obtain ⟨a1, _, a3⟩ := appendX_nostrp (setStartPartX (mkRep r0 A) pt).val text k3 k2
  intro r' hr'
  simp only [writePartX, pts_bind, List.mem_append] at hr'
  rcases hr' with hr' | hr' | hr'
  · exact k1 r' hr'
  · exact a1 r' hr'
  · rw [(setSavePartX_nostrp _ a3).1] at hr'
    simp at hr'

theorem writePartX_shape (r0 : Rep) {S A : List (List Nat)} (h : Rp S A) (pt : Nat) (text : List Nat)
    (hpt5 : 5 ≤ pt) (hpt : pt ≤ 10) :
    ∀ r' ∈ (writePartX (mkRep r0 A) pt text).pts, ShapeOf r0 (min A.length pt) r' := by
  by_cases hlast : (S.drop (pt + 1)).flatten = []
  · exact writePartX_last r0 h pt text hpt5 hpt hlast
  · intro r' hr'
    rw [writePartX_strp r0 h pt text hlast r' hr']
    exact (shapeOf_rp r0 h).mono (Nat.min_le_left _ _)

theorem writePartFlagX_pts (r : Rep) (pt : Nat) (text : List Nat) :
    (writePartFlagX r pt text).pts = (writePartX r pt text).pts := by
  simp [writePartFlagX]

theorem clearPartX_pts (r : Rep) (pt : Nat) : ∀ r' ∈ (clearPartX r pt).pts, r' = r := by
  intro r' hr'
  unfold clearPartX at hr'
  split at hr'
  · simpa using hr'
  · simp at hr'

theorem emptyPartX_pts (r : Rep) (pt : Nat) : ∀ r' ∈ (emptyPartX r pt).pts, r' = r := by
  intro r' hr'
  unfold emptyPartX at hr'
  split at hr'
  · simpa using hr'
  · simp at hr'

theorem emptyHostRepX_pts (r : Rep) : ∀ r' ∈ (emptyHostRepX r).pts, r' = r := by
  intro r' hr'
  simp only [emptyHostRepX, pts_bind, pts_pure, List.append_nil] at hr'
  exact emptyPartX_pts r HOST r' hr'

theorem saveSchemeX_pts (r : Rep) (s : List Nat) : (saveSchemeX r s).pts = [r] := by
  simp [saveSchemeX]

/-! ### the two forms of the conclusion -/

/-- `url::host()` (url.h:1187-1194) computes `e - b` from the raw offsets, `e = part_end_[PORT]` when
    the port is non-null, else `part_end_[HOST]`, `b = part_end_[HOST_START]`, WITHOUT the guard
    `e > b` of `get_part_view`: for a non-null host the view is inside the string only if `b ≤ e` -/
def HostViewOk (r : Rep) : Prop :=
  r.hostNotNull = true → r.pe HOST_START ≤ (if r.portNotNull then r.pe PORT else r.pe HOST)

instance (r : Rep) : Decidable (HostViewOk r) := by unfold HostViewOk; infer_instance

/-- some shape: enough for offsets in bounds and ascending -/
def Pt (r : Rep) : Prop := ∃ r0 m, ShapeOf r0 m r

/-- a shape in which HOST was started, and PORT too if the port is non-null -/
def PtS (r : Rep) : Prop := ∃ r0 m, ShapeOf r0 m r ∧ 6 ≤ m ∧ (r0.portNotNull = true → 7 ≤ m)

theorem PtS.pt {r : Rep} (h : PtS r) : Pt r := by
  obtain ⟨r0, m, h1, _, _⟩ := h
  exact ⟨r0, m, h1⟩

theorem Pt.offsetsOk {r : Rep} (h : Pt r) : OffsetsOk r := by
  obtain ⟨r0, m, h1⟩ := h
  exact h1.offsetsOk

theorem pe_mkRepE (r0 : Rep) (A : List (List Nat)) (e : List Nat) (i : Nat) :
    (mkRepE r0 A e).pe i = (mkRep r0 A).pe i := rfl

theorem PtS.hostViewOk {r : Rep} (h : PtS r) : HostViewOk r := by
  obtain ⟨r0, m, ⟨A, e, hm, hA, hpos, rfl⟩, h6, h7⟩ := h
  intro _
  have hmono : ∀ i j, i ≤ j → off A i ≤ off A j := fun i j hij => off_mono A hij
  have hp : (mkRepE r0 A e).portNotNull = r0.portNotNull := rfl
  rw [hp]
  cases hpn : r0.portNotNull with
  | true =>
    have := h7 hpn
    simp only [if_true, pe_mkRepE]
    rw [pe_mkRep_lt _ _ _ (by simp only [HOST_START]; omega), pe_mkRep_lt _ _ _ (by simp only [PORT]; omega)]
    exact hmono _ _ (by simp [HOST_START, PORT])
  | false =>
    simp only [Bool.false_eq_true, if_false, pe_mkRepE]
    rw [pe_mkRep_lt _ _ _ (by simp only [HOST_START]; omega), pe_mkRep_lt _ _ _ (by simp only [HOST]; omega)]
    exact hmono _ _ (by simp [HOST_START, HOST])

/-- a representation of a record is of the strong form -/
theorem ptS_of_represents {r : Rep} {u : Url} (wf : RecWF u) (h : Represents r u) : PtS r := by
  have hwf := (represents_equiv u wf h).2
  obtain ⟨A, hA, rfl⟩ := h
  refine ⟨layout u, A.length, shapeOf_rp _ hA, hA.lo, ?_⟩
  intro hp
  have := hwf.2.2.2 hp
  rw [pe_mkRep] at this
  by_cases h7 : PORT < A.length
  · simp only [PORT] at h7; omega
  · rw [if_neg h7] at this; exact absurd rfl this

theorem ptS_of_repFor {r : Rep} {u : Url} (wf : RecWF u) (h : RepFor r u) : PtS r :=
  ptS_of_represents wf ((repFor_iff u wf r).mp h)

/-! ### host -/

theorem hostDoneX_pts (o : Open) (ht : Nat) :
    ∀ r' ∈ (hostDoneX o ht).pts, r' ∈ (setSavePartX o).pts ∨ r' = (setSavePart o).setHostType ht := by
  intro r' hr'
  unfold hostDoneX at hr'
  simp only [pts_bind, setSavePartX_val, List.mem_append, pts_ite, replacePart1X_pts, pts_pure] at hr'
  rcases hr' with hr' | hr'
  · exact Or.inl hr'
  · split at hr'
    · exact Or.inr (by simpa using hr')
    · simp at hr'

/-- `hostStart()`; the host text; `hostDone(ht)` on a representation of `u`.  A failure leaves the
    representation as it was, or - the host being the last part - cut at HOST_START with a prefix of
    the new host appended and `part_end_[HOST] = 0`, or the host written and "/." not yet removed. -/
theorem writeHostX_pts (u : Url) (text : List Nat) (ht : Nat) {r : Rep} (ok : RepOk u)
    (h : Represents r u) (ho : u.hasOpaquePath = false) :
    ∀ r' ∈ (writeHostX r text ht).pts, Pt r' ∧
      ((portSeg u ++ prefixSeg u ++ pathText u ++ querySeg u ++ fragSeg u) ≠ [] → PtS r') := by
  have hrS : PtS r := ptS_of_represents ok.1 h
  obtain ⟨A, hA, rfl⟩ := h
  obtain ⟨wf, hpath, _⟩ := ok
  have hok : (0x3A :: sepSeg u).length < 3 →
      (portSeg u ++ prefixSeg u ++ pathText u ++ querySeg u ++ fragSeg u) ≠ [] := by
    intro hlen
    cases hh : u.host with
    | some y => simp [sepSeg, hh] at hlen
    | none =>
      have := pathText_ne_nil ho (hpath hh ho)
      simp [this]
  have hA' := hA
  unfold segsOf at hA'
  obtain ⟨A1, h1, h2⟩ := writePart_host_S (layout u) hA' text hok
  have hfollow : (List.drop (HOST + 1) (segsOf u)).flatten =
      portSeg u ++ prefixSeg u ++ pathText u ++ querySeg u ++ fragSeg u := by
    simp [segsOf, HOST]
  -- the state after `save_part` and `set_host_type`
  have hr3 : ∀ r', r' = (setSavePart ((setStartPart (mkRep (layout u) A) HOST).append text)).setHostType ht →
      PtS r' := by
    intro r' hr'
    have e : setSavePart ((setStartPart (mkRep (layout u) A) HOST).append text) =
        writePart (mkRep (layout u) A) HOST text := rfl
    rw [hr', e, h1, setHostType_mkRep]
    refine ⟨_, A1.length, shapeOf_rp _ h2, h2.lo, ?_⟩
    intro hp
    have hp' : u.port.isSome = true := hp
    apply Classical.byContradiction
    intro hc
    have hd := h2.drop_absent (n := 6) (by omega)
    have hps : portSeg u = [] := by
      split at hd <;> simp at hd <;> exact hd.1
    rw [portSeg_eq_nil wf hps] at hp'
    simp at hp'
  intro r' hr'
  simp only [writeHostX, pts_bind, List.mem_append] at hr'
  by_cases hlast : (List.drop (HOST + 1) (segsOf u)).flatten = []
  · obtain ⟨k1, k2, k3⟩ := setStartPartX_last (layout u) hA HOST (by simp [HOST]) (by simp [HOST]) hlast
    obtain ⟨a1, _, a3⟩ := appendX_nostrp (setStartPartX (mkRep (layout u) A) HOST).val text k3 k2
    have hP : Pt r' := by
      rcases hr' with hr' | hr' | hr'
      · exact ⟨_, _, k1 r' hr'⟩
      · exact ⟨_, _, a1 r' hr'⟩
      · rcases hostDoneX_pts _ ht r' hr' with hs | hs
        · rw [(setSavePartX_nostrp _ a3).1] at hs
          simp at hs
        · rw [appendX_val, setStartPartX_val] at hs
          exact (hr3 r' hs).pt
    refine ⟨hP, ?_⟩
    intro hf
    rw [hfollow] at hlast
    exact absurd hlast hf
  · obtain ⟨k1, k2, k3⟩ := setStartPartX_strp (layout u) hA HOST hlast
    obtain ⟨a1, a2, _⟩ := appendX_strp (setStartPartX (mkRep (layout u) A) HOST).val text k3
    have hS : PtS r' := by
      rcases hr' with hr' | hr' | hr'
      · rw [k1 r' hr']; exact hrS
      · rw [a1 r' hr', k2]; exact hrS
      · rcases hostDoneX_pts _ ht r' hr' with hs | hs
        · rw [setSavePartX_pts _ r' hs, a2, k2]; exact hrS
        · rw [appendX_val, setStartPartX_val] at hs
          exact hr3 r' hs
    exact ⟨hS.pt, fun _ => hS⟩

/-- `set_empty_host` (file URLs): `start_part(HOST)`; `save_part()` -/
theorem setEmptyHostX_pts (r0 : Rep) {S A : List (List Nat)} (h : Rp S A) :
    ∀ r' ∈ (setEmptyHostX (mkRep r0 A)).pts, Pt r' := by
  intro r' hr'
  simp only [setEmptyHostX, pts_bind, pts_pure, List.append_nil] at hr'
  exact ⟨_, _, writePartX_shape r0 h HOST [] (by simp [HOST]) (by simp [HOST]) r' hr'⟩

/-! ### path -/

theorem mem_ite_nil_singleton' {α : Type} {c : Prop} [Decidable c] {x a : α}
    (h : x ∈ (if c then [a] else [])) : x = a := by
  split at h
  · simpa using h
  · simp at h

theorem adjustPathPrefixX_pts (r : Rep) : ∀ r' ∈ (adjustPathPrefixX r).pts, r' = r := by
  intro r' hr'
  unfold adjustPathPrefixX at hr'
  simp only [pts_ite, replacePart1X_pts, pts_pure] at hr'
  exact mem_ite_nil_singleton' hr'

/-- `commit_path`: a failure of the first `replace_part` leaves the offsets of never-started parts
    up to PATH filled (the same record); a failure of the second one (the "/." prefix) leaves the new
    path and segment count written and the prefix as it was -/
theorem commitPathX_pts (r0 : Rep) {S A : List (List Nat)} (h : Rp S A) (text : List Nat) (n : Nat) :
    ∀ r' ∈ (commitPathX (mkRep r0 A) text n).pts, PtS r' := by
  obtain ⟨hf1, hf2⟩ := fillUnset_mkRep r0 h
  have hlo := h.lo
  have hlen1 : 8 < (A ++ List.replicate (9 - A.length) ([] : List Nat)).length := by simp; omega
  obtain ⟨A2, h21, h22, h23⟩ := repl_lit' r0 hf2 8 8 [text] text 0 (by omega) hlen1 (by simp) (by simp)
    (by simp) rfl (by
      rw [off_one_splice _ _ _ _ (by omega) (by rw [h.lenS]; omega)]; exact h.pos)
  intro r' hr'
  simp only [commitPathX, pts_bind, replacePart1X_pts, replacePart1X_val, List.mem_append,
    List.mem_singleton] at hr'
  rcases hr' with hr' | hr'
  · rw [hr', hf1]
    exact ⟨r0, _, shapeOf_rp r0 hf2, by omega, fun _ => by omega⟩
  · rw [adjustPathPrefixX_pts _ r' hr', hf1]
    simp only [replacePart1, PATH]
    rw [h21]
    have e : ({ mkRep r0 A2 with segCount := n } : Rep) = mkRep { r0 with segCount := n } A2 := rfl
    rw [e]
    exact ⟨_, _, shapeOf_rp _ h22, by omega, fun _ => by omega⟩

end Upa.Proofs.SetRepExc
