import Upa.Impl.HostNS
/-
  Lemmas for C09b: the explicit validate-only host parser (`Upa.Impl.HostNS`) returns, for every
  input, the verdict of the saving host parser (`Impl.parseHost`), and so the `…NS'` blocks equal the
  `…NS` blocks of `Upa/Impl/CanParse.lean`.  No hypothesis on `idna` is used anywhere.
-/
namespace Upa.Proofs.HostNS
open Upa Upa.Impl Upa.Impl.HostNS

theorem ipv4_agree (s : List Nat) : hostParseIpv4NS s = (hostParseIpv4 s).isSome := by
  unfold hostParseIpv4NS hostParseIpv4
  cases ipv4Parse s <;> rfl

theorem ipv6_agree (s : List Nat) : hostParseIpv6NS s = (hostParseIpv6 s).isSome := by
  unfold hostParseIpv6NS hostParseIpv6
  cases ipv6Parse s <;> rfl

theorem opaque_agree (s : List Nat) : parseOpaqueHostNS s = (parseOpaqueHost s).isSome := by
  unfold parseOpaqueHostNS parseOpaqueHost
  split <;> rfl

/-- the `ptr != last` branch (url_host.h:206-214): return failure / fall through to the IDNA path -/
theorem fast_cons (A B : Prop) [Decidable A] [Decidable B] (X : Bool) (Y : Option Host)
    (h : X = Y.isSome) :
    (match (if A then (if B then some false else none) else none : Option Bool) with
      | some v => v
      | none => X) =
    (match (if A then (if B then some none else none) else none : Option (Option Host)) with
      | some r => r
      | none => Y).isSome := by
  by_cases hA : A <;> by_cases hB : B <;> simp [hA, hB, h]

/-- the validate-only host parser and the saving one reach the same verdict, for every IDNA function,
    every input and both modes -/
theorem parseHostNS_agree (idna : Idna) (s : List Nat) (o : Bool) :
    HostNS.parseHostNS idna s o = (Impl.parseHost idna s o).isSome := by
  unfold HostNS.parseHostNS Impl.parseHost
  cases s with
  | nil => cases o <;> rfl
  | cons c0 r =>
    simp only []
    by_cases h5b : c0 = 0x5B
    · simp only [h5b, if_true]
      split
      · exact ipv6_agree _
      · rfl
    · simp only [h5b, if_false]
      cases o with
      | true => simp only [if_true]; exact opaque_agree _
      | false =>
        simp only [Bool.false_eq_true, if_false]
        -- the IDNA path, shared by all ways to fall through
        have slow : (match idna (encodeUtf16 (decode .u8 (percentDecode (c0 :: r)))) with
            | none => false
            | some ascii =>
              if ascii.any Spec.forbiddenDomain = true then false
              else if endsInNumber ascii = true then hostParseIpv4NS ascii else true) =
            (match idna (encodeUtf16 (decode .u8 (percentDecode (c0 :: r)))) with
            | none => none
            | some ascii =>
              if ascii.any Spec.forbiddenDomain = true then none
              else if endsInNumber ascii = true then hostParseIpv4 ascii
              else some { kind := .domain, text := ascii }).isSome := by
          cases idna (encodeUtf16 (decode .u8 (percentDecode (c0 :: r)))) with
          | none => rfl
          | some ascii =>
            simp only []
            split
            · rfl
            · split
              · exact ipv4_agree _
              · rfl
        cases ht : List.dropWhile Spec.asciiDomainChar (c0 :: r) with
        | nil =>
          simp only []
          by_cases hx : hasXnLabel (c0 :: r) = true
          · simp only [hx, Bool.not_true, Bool.false_eq_true, if_false]
            exact slow
          · simp only [Bool.not_eq_true] at hx
            simp only [hx, Bool.not_false, if_true]
            split
            · exact ipv4_agree _
            · rfl
        | cons p rest =>
          simp only []
          exact fast_cons _ _ _ _ slow

/-! ### the blocks above the host parser -/

theorem parseHostNS_eq (idna : Idna) (s : List Nat) (o : Bool) :
    HostNS.parseHostNS idna s o = Impl.parseHostNS idna s o := by
  rw [parseHostNS_agree]; rfl

theorem fileHostStateNS_eq (idna : Idna) (sp : Bool) (p : List Nat) :
    fileHostStateNS' idna sp p = fileHostStateNS idna sp p := by
  unfold fileHostStateNS' fileHostStateNS
  simp only [parseHostNS_eq]
  try rfl

theorem fileSlashStateNS_eq (idna : Idna) (p : List Nat) :
    fileSlashStateNS' idna p = fileSlashStateNS idna p := by
  unfold fileSlashStateNS' fileSlashStateNS
  simp only [fileHostStateNS_eq]
  try rfl

theorem fileStateNS_eq (idna : Idna) (p : List Nat) :
    fileStateNS' idna p = fileStateNS idna p := by
  unfold fileStateNS' fileStateNS
  simp only [fileSlashStateNS_eq]
  try rfl

theorem hostStateNS_eq (idna : Idna) (sp : Bool) (p : List Nat) :
    hostStateNS' idna sp p = hostStateNS idna sp p := by
  unfold hostStateNS' hostStateNS
  simp only [parseHostNS_eq]
  try rfl

theorem authorityStateNS_eq (idna : Idna) (sp : Bool) (p : List Nat) :
    authorityStateNS' idna sp p = authorityStateNS idna sp p := by
  unfold authorityStateNS' authorityStateNS
  simp only [hostStateNS_eq]
  try rfl

theorem ignoreSlashesStateNS_eq (idna : Idna) (sp : Bool) (p : List Nat) :
    ignoreSlashesStateNS' idna sp p = ignoreSlashesStateNS idna sp p := by
  unfold ignoreSlashesStateNS' ignoreSlashesStateNS
  simp only [authorityStateNS_eq]
  try rfl

theorem specialAuthoritySlashesStateNS_eq (idna : Idna) (p : List Nat) :
    specialAuthoritySlashesStateNS' idna p = specialAuthoritySlashesStateNS idna p := by
  unfold specialAuthoritySlashesStateNS' specialAuthoritySlashesStateNS
  simp only [ignoreSlashesStateNS_eq]
  try rfl

theorem relativeSlashStateNS_eq (idna : Idna) (sp : Bool) (p : List Nat) :
    relativeSlashStateNS' idna sp p = relativeSlashStateNS idna sp p := by
  unfold relativeSlashStateNS' relativeSlashStateNS
  simp only [ignoreSlashesStateNS_eq, authorityStateNS_eq]
  try rfl

theorem relativeStateNS_eq (idna : Idna) (b : Url) (p : List Nat) :
    relativeStateNS' idna b p = relativeStateNS idna b p := by
  unfold relativeStateNS' relativeStateNS
  simp only [relativeSlashStateNS_eq]
  try rfl

theorem noSchemeStateNS_eq (idna : Idna) (base : Option Url) (p : List Nat) :
    noSchemeStateNS' idna base p = noSchemeStateNS idna base p := by
  unfold noSchemeStateNS' noSchemeStateNS
  simp only [fileStateNS_eq, relativeStateNS_eq]
  try rfl

theorem schemeStateNS_eq (idna : Idna) (base : Option Url) (p : List Nat) :
    schemeStateNS' idna base p = schemeStateNS idna base p := by
  unfold schemeStateNS' schemeStateNS
  simp only [fileStateNS_eq, relativeStateNS_eq, ignoreSlashesStateNS_eq,
    specialAuthoritySlashesStateNS_eq, authorityStateNS_eq, noSchemeStateNS_eq]
  rfl

theorem canParseNS_eq (idna : Idna) (e : Enc) (units : List Nat) (base : Option Url) :
    canParseNS' idna e units base = canParse idna e units base := by
  unfold canParseNS' canParse
  simp only [schemeStateNS_eq, noSchemeStateNS_eq]
  try rfl

end Upa.Proofs.HostNS
