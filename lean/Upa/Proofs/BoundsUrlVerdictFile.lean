import Upa.Proofs.BoundsUrlVerdictChain
/-
  Helper lemmas for C04f, part 3: file_host_state, file_slash_state, file_state of the instrumented model
  answer what `Impl.fileHostState`, `Impl.fileSlashState`, `Impl.fileState` answer on the decoded rest.
-/
namespace Upa.Impl.B
open UP Upa.Proofs.C10b

/-- the first decoded value at `p` compared with ASCII constants behaves like the unit at `p` -/
theorem Ctx.D_peek' (c : Ctx) (W : c.Wf) (p : Nat) (h : p < c.last) :
    ∃ ch t, c.D p = ch :: t ∧ (∀ k, k < 0x80 → (ch = k ↔ c.a[p]! = k)) ∧
      (c.a[p]! < 0x80 → ch = c.a[p]! ∧ t = c.D (p + 1)) := by
  obtain ⟨ch, t, hd, hc⟩ := c.D_peek W p h
  refine ⟨ch, t, hd, ?_, ?_⟩
  · intro k hk
    rcases hc with ⟨_, h2, _⟩ | ⟨h1, h2⟩
    · rw [h2]
    · constructor <;> intro hh <;> omega
  · intro ha
    rcases hc with ⟨_, h2, h3⟩ | ⟨h1, _⟩
    · exact ⟨h2, h3⟩
    · exact absurd ha h1

/-- `pointer != last ? *pointer : 0` -/
theorem peekOr0B_spec (c : Ctx) (W : c.Wf) (p : Nat) (h1 : c.first ≤ p) (h2 : p ≤ c.last) :
    (peekOr0B c.a c.first c.last p 0).sat (fun ch => (p < c.last ∧ ch = c.a[p]!) ∨ (p = c.last ∧ ch = 0)) := by
  have hl := W.hl
  unfold peekOr0B
  simp only [Nat.add_zero]
  split
  · upsimp; exact R.sat_pure (Or.inl ⟨by omega, rfl⟩)
  · exact R.sat_pure (Or.inr ⟨by omega, rfl⟩)

theorem wd_ascii {x y : Nat} (h : isWindowsDrive x y = true) : x < 0x80 ∧ y < 0x80 := by
  simp [isWindowsDrive, isAlpha] at h
  omega

theorem wd_false_l {x y : Nat} (h : ¬ x < 0x80) : isWindowsDrive x y = false := by
  cases hh : isWindowsDrive x y with
  | false => rfl
  | true => exact absurd (wd_ascii hh).1 h

theorem wd_false_r {x y : Nat} (h : ¬ y < 0x80) : isWindowsDrive x y = false := by
  cases hh : isWindowsDrive x y with
  | false => rfl
  | true => exact absurd (wd_ascii hh).2 h

/-- "the buffer is a Windows drive letter": two decoded values ↔ two units -/
theorem Dl_winDrive (e : Enc) (a : Array Nat) (hu : UOk e a.toList) (p q : Nat) (h : p ≤ q) (hq : q ≤ a.size) :
    (match Dl e a p q with | [x, y] => isWindowsDrive x y | _ => false) =
      (decide (q - p = 2) && isWindowsDrive a[p]! a[p + 1]!) := by
  by_cases h2 : q - p = 2
  · obtain rfl : q = p + 2 := by omega
    simp only [h2, decide_true, Bool.true_and]
    obtain ⟨c0, t0, hd0, hc0⟩ := Dl_peek e a hu p (p + 2) (by omega) hq
    rcases hc0 with ⟨ha0, rfl, rfl⟩ | ⟨ha0, hn0⟩
    · obtain ⟨c1, t1, hd1, hc1⟩ := Dl_peek e a hu (p + 1) (p + 2) (by omega) hq
      rcases hc1 with ⟨ha1, rfl, rfl⟩ | ⟨ha1, hn1⟩
      · rw [hd0, hd1, Dl_nil e a (p + 1 + 1) (p + 2) (by omega)]
      · rw [hd0, hd1, wd_false_r ha1]
        cases t1 with
        | nil => exact wd_false_r hn1
        | cons _ _ => rfl
    · rw [hd0, wd_false_l ha0]
      match t0 with
      | [] => rfl
      | [y] => exact wd_false_l hn0
      | _ :: _ :: _ => rfl
  · simp only [h2, decide_false, Bool.false_and]
    match hL : Dl e a p q with
    | [] => rfl
    | [_] => rfl
    | _ :: _ :: _ :: _ => rfl
    | [x, y] =>
      simp only []
      cases hw : isWindowsDrive x y with
      | false => rfl
      | true =>
        exfalso
        obtain ⟨hx, hy⟩ := wd_ascii hw
        have hpq : p < q := by
          apply Classical.byContradiction
          intro hge
          rw [Dl_nil e a p q (by omega)] at hL
          cases hL
        obtain ⟨c0, t0, hd0, hc0⟩ := Dl_peek e a hu p q hpq hq
        rw [hL] at hd0
        obtain ⟨rfl, rfl⟩ := List.cons.inj hd0
        rcases hc0 with ⟨_, _, ht0⟩ | ⟨_, hn0⟩
        · have hpq1 : p + 1 < q := by
            apply Classical.byContradiction
            intro hge
            rw [Dl_nil e a (p + 1) q (by omega)] at ht0
            cases ht0
          obtain ⟨c1, t1, hd1, hc1⟩ := Dl_peek e a hu (p + 1) q hpq1 hq
          rw [← ht0] at hd1
          obtain ⟨rfl, rfl⟩ := List.cons.inj hd1
          rcases hc1 with ⟨_, _, ht1⟩ | ⟨_, hn1⟩
          · have := (Dl_eq_nil_iff e a (p + 1 + 1) q (by omega) hq).1 ht1.symm
            omega
          · exact hn1 hy
        · exact hn0 hx

/-- the same with the matcher `Impl.fileHostState` was compiled with -/
theorem Dl_winDrive_m (e : Enc) (a : Array Nat) (hu : UOk e a.toList) (p q : Nat) (h : p ≤ q) (hq : q ≤ a.size) :
    shortenPath.match_1 (fun _ => Bool) (Dl e a p q) (fun x y => isWindowsDrive x y) (fun _ => false) =
      (decide (q - p = 2) && isWindowsDrive a[p]! a[p + 1]!) := by
  rw [← Dl_winDrive e a hu p q h hq]
  match Dl e a p q with
  | [] => rfl
  | [_] => rfl
  | [_, _] => rfl
  | _ :: _ :: _ :: _ => rfl

theorem isSAE_ascii : ∀ ch, (!isSpecialAuthorityEnd ch) = false → ch < 0x80 := by
  intro ch h
  simp [isSpecialAuthorityEnd] at h
  omega

section
variable (c : Ctx) (W : c.Wf)
include W

theorem sim_fileHost (m : M) (u : Url) (hI : Inv c m u) (hs : m.state = .fileHost) :
    kFileHost c m = .ok (vd (fileHostState c.idna c.ov u (c.D m.pointer))) := by
  obtain ⟨st, p, sp, fl⟩ := m
  obtain ⟨⟨h1, h2⟩, h3, h4⟩ := hI
  simp only [] at hs h1 h2 h3 h4
  subst hs
  have hl := W.hl
  refine stepB_ok rfl ?_
  unfold bFileHost
  simp only []
  upsimp
  refine R.sat_bind (findIf_specV c.a c.first c.last isSpecialAuthorityEnd hl (c.last - p) p h1 (by omega)) ?_
  intro eoa ⟨e1, e2, e3, e4⟩
  have hscan := Dl_scan_delim c.e c.a W.hu (fun ch => !isSpecialAuthorityEnd ch) isSAE_ascii p eoa c.last e1
    (by omega) hl (by intro i hi1 hi2; simp [e3 i hi1 hi2])
    (by
      by_cases hlt : eoa < p + (c.last - p)
      · right; simp [e4 hlt]
      · left; omega)
  have hnil := Dl_eq_nil_iff c.e c.a p eoa e1 (by omega)
  have hwd := Dl_winDrive_m c.e c.a W.hu p eoa e1 (by omega)
  unfold fileHostState
  simp only [Ctx.D, hscan.1, hscan.2]
  by_cases hpe : p = eoa
  · rw [if_pos hpe, if_pos (hnil.2 hpe)]
    split
    · exact R.sat_pure rfl
    · rw [vd_pathStartState]
      exact R.sat_pure (tail_ok c W _ ⟨h1, h2⟩ rfl)
  · rw [if_neg hpe, if_neg (fun hh => hpe (hnil.1 hh))]
    rw [hwd]
    by_cases hov : c.ov.isNone = true ∧ eoa - p = 2
    · rw [if_pos hov]
      upsimp
      simp only [hov.1, hov.2, decide_true, Bool.true_and]
      cases hw : isWindowsDrive c.a[p]! c.a[p + 1]! with
      | true =>
        simp only [if_true, vd_pathState]
        exact R.sat_pure (tail_ok c W _ ⟨h1, h2⟩ rfl)
      | false =>
        simp only [Bool.false_eq_true, if_false]
        upsimp
        show (_ : R (M ⊕ Bool)).sat _
        simp only [Ctx.orc, Oracles.real, Ctx.ui, UrlInfo.ofUrl, Bool.not_true, Bool.or_false, h3]
        have hov' : c.ov.isSome = false := by
          cases hh : c.ov with
          | none => rfl
          | some _ => rw [hh] at hov; simp at hov
        cases hph : parseHost c.idna (decode c.e (c.a.extract p eoa).toList) (!u.isSpecial) with
        | none =>
          simp only [Dl, slice, hph, Option.isSome_none, Bool.not_false, if_true]
          exact R.sat_pure rfl
        | some hh =>
          simp only [Dl, slice, hph, Option.isSome_some, Bool.not_true, Bool.false_eq_true, if_false, hov']
          rw [vd_pathStartState]
          exact R.sat_pure (tail_ok c W _ ⟨by simp only []; omega, by simp only []; omega⟩ rfl)
    · rw [if_neg hov]
      have hwf : (c.ov.isNone && (decide (eoa - p = 2) && isWindowsDrive c.a[p]! c.a[p + 1]!)) = false := by
        cases h1 : c.ov.isNone with
        | false => rfl
        | true =>
          cases h2 : decide (eoa - p = 2) with
          | false => rfl
          | true => exact absurd ⟨h1, of_decide_eq_true h2⟩ hov
      simp only [hwf, Bool.false_eq_true, if_false]
      upsimp
      show (_ : R (M ⊕ Bool)).sat _
      simp only [Ctx.orc, Oracles.real, Ctx.ui, UrlInfo.ofUrl, Bool.not_true, Bool.or_false, h3]
      cases hph : parseHost c.idna (decode c.e (c.a.extract p eoa).toList) (!u.isSpecial) with
      | none =>
        simp only [Dl, slice, hph, Option.isSome_none, Bool.not_false, if_true]
        exact R.sat_pure rfl
      | some hh =>
        simp only [Dl, slice, hph, Option.isSome_some, Bool.not_true, Bool.false_eq_true, if_false]
        split
        · exact R.sat_pure rfl
        · rw [vd_pathStartState]
          exact R.sat_pure (tail_ok c W _ ⟨by simp only []; omega, by simp only []; omega⟩ rfl)

/-! ### a tail state reached from an earlier block -/

omit W in
theorem ne_of_tail {s t : St} (hs : isTail s = true) (ht : isTail t = false) : s ≠ t := by
  intro h; rw [h, ht] at hs; cases hs

theorem tail_kFileHost (m : M) (hb : Bnd c m) (hs : isTail m.state = true) : kFileHost c m = .ok true := by
  rw [kFileHost_skip c m (ne_of_tail hs rfl)]; exact tail_ok c W m hb hs
theorem tail_kFileSlash (m : M) (hb : Bnd c m) (hs : isTail m.state = true) : kFileSlash c m = .ok true := by
  rw [kFileSlash_skip c m (ne_of_tail hs rfl)]; exact tail_kFileHost c W m hb hs
theorem tail_kFile (m : M) (hb : Bnd c m) (hs : isTail m.state = true) : kFile c m = .ok true := by
  rw [kFile_skip c m (ne_of_tail hs rfl)]; exact tail_kFileSlash c W m hb hs
theorem tail_kPort (m : M) (hb : Bnd c m) (hs : isTail m.state = true) : kPort c m = .ok true := by
  rw [kPort_skip c m (ne_of_tail hs rfl)]; exact tail_kFile c W m hb hs
theorem tail_kHost (m : M) (hb : Bnd c m) (hs : isTail m.state = true) : kHost c m = .ok true := by
  rw [kHost_skip c m (ne_of_tail hs rfl) (ne_of_tail hs rfl)]; exact tail_kPort c W m hb hs
theorem tail_kAuthority (m : M) (hb : Bnd c m) (hs : isTail m.state = true) : kAuthority c m = .ok true := by
  rw [kAuthority_skip c m (ne_of_tail hs rfl)]; exact tail_kHost c W m hb hs
theorem tail_kSAIS (m : M) (hb : Bnd c m) (hs : isTail m.state = true) : kSAIS c m = .ok true := by
  rw [kSAIS_skip c m (ne_of_tail hs rfl)]; exact tail_kAuthority c W m hb hs
theorem tail_kSAS (m : M) (hb : Bnd c m) (hs : isTail m.state = true) : kSAS c m = .ok true := by
  rw [kSAS_skip c m (ne_of_tail hs rfl)]; exact tail_kSAIS c W m hb hs
theorem tail_kRelativeSlash (m : M) (hb : Bnd c m) (hs : isTail m.state = true) : kRelativeSlash c m = .ok true := by
  rw [kRelativeSlash_skip c m (ne_of_tail hs rfl)]; exact tail_kSAS c W m hb hs
theorem tail_kRelative (m : M) (hb : Bnd c m) (hs : isTail m.state = true) : kRelative c m = .ok true := by
  rw [kRelative_skip c m (ne_of_tail hs rfl)]; exact tail_kRelativeSlash c W m hb hs
theorem tail_kPathOrAuthority (m : M) (hb : Bnd c m) (hs : isTail m.state = true) :
    kPathOrAuthority c m = .ok true := by
  rw [kPathOrAuthority_skip c m (ne_of_tail hs rfl)]; exact tail_kRelative c W m hb hs
theorem tail_kSRoA (m : M) (hb : Bnd c m) (hs : isTail m.state = true) : kSRoA c m = .ok true := by
  rw [kSRoA_skip c m (ne_of_tail hs rfl)]; exact tail_kPathOrAuthority c W m hb hs
theorem tail_kNoScheme (m : M) (hb : Bnd c m) (hs : isTail m.state = true) : kNoScheme c m = .ok true := by
  rw [kNoScheme_skip c m (ne_of_tail hs rfl)]; exact tail_kSRoA c W m hb hs

/-! ### file_slash_state, file_state -/

omit W in
theorem vd_fileSlashDefault (base : Option Url) (ov : Option Override) (u : Url) (l : List Nat) :
    vd (fileSlashState.fileSlashDefault base ov u l) = true := by
  unfold fileSlashState.fileSlashDefault; exact vd_pathState _ _ _

omit W in
theorem vd_fileDefault (base : Option Url) (ov : Option Override) (u : Url) (l : List Nat) :
    vd (fileState.fileDefault base ov u l) = true := by
  unfold fileState.fileDefault
  split
  · split
    · split
      · rfl
      · split
        · exact vd_queryState _ _ _
        · split
          · rfl
          · split <;> exact vd_pathState _ _ _
    · exact vd_pathState _ _ _
  · exact vd_pathState _ _ _

theorem sim_fileSlash (m : M) (u : Url) (hI : Inv c m u) (hs : m.state = .fileSlash) :
    kFileSlash c m = .ok (vd (fileSlashState c.idna c.baseU c.ov u (c.D m.pointer))) := by
  obtain ⟨st, p, sp, fl⟩ := m
  obtain ⟨⟨h1, h2⟩, h3, h4⟩ := hI
  simp only [] at hs h1 h2 h3 h4
  subst hs
  have hl := W.hl
  refine stepB_ok rfl ?_
  simp only []
  unfold bFileSlash
  refine R.sat_bind (peekOr0B_spec c W p h1 h2) ?_
  intro ch hch
  simp only []
  split
  · rename_i hsl
    have hp : p < c.last ∧ ch = c.a[p]! := by
      rcases hch with h | h
      · exact h
      · omega
    upsimp
    refine R.sat_pure ?_
    simp only []
    have hD := c.D_ascii W p hp.1 (by omega)
    have hslash : isSlash c.a[p]! = true := by
      simp only [isSlash, Bool.or_eq_true, beq_iff_eq]; omega
    have : fileSlashState c.idna c.baseU c.ov u (c.D p) = fileHostState c.idna c.ov u (c.D (p + 1)) := by
      rw [hD]; simp only [fileSlashState, hslash, if_true]
    rw [this]
    exact sim_fileHost c W _ u ⟨⟨by simp only []; omega, by simp only []; omega⟩, h3, h4⟩ rfl
  · rename_i hsl
    have hlist : vd (fileSlashState c.idna c.baseU c.ov u (c.D p)) = true := by
      rcases hch with ⟨hp, hc⟩ | ⟨hp, hc⟩
      · obtain ⟨ch', t, hD, hk, _⟩ := c.D_peek' W p hp
        have e1 := hk 0x2F (by omega)
        have e2 := hk 0x5C (by omega)
        have hns : isSlash ch' = false := by
          simp only [isSlash, Bool.or_eq_false_iff, beq_eq_false_iff_ne, ne_eq, e1, e2]; omega
        rw [hD]; simp only [fileSlashState, hns, Bool.false_eq_true, if_false]
        exact vd_fileSlashDefault _ _ _ _
      · rw [hp, c.D_end]; simp only [fileSlashState]
        exact vd_fileSlashDefault _ _ _ _
    rw [hlist]
    split <;> (try split) <;>
      first
      | exact R.sat_pure (tail_kFileHost c W _ ⟨h1, h2⟩ rfl)
      | (upsimp
         refine R.sat_bind (startsWithWindowsDrive_sat c.a p c.last h2 hl) ?_
         intro _ _
         exact R.sat_pure (tail_kFileHost c W _ ⟨h1, h2⟩ rfl))

omit W in
theorem fileState_u (u : Url) :
    let u1 : Url := if (!u.isFile) = true then { u with scheme := sFile } else u
    u1.isSpecial = true ∧ u1.isFile = true := by
  simp only []
  cases hf : u.isFile with
  | true =>
    simp only [Bool.not_true, Bool.false_eq_true, if_false, hf, and_true]
    simp only [Url.isFile, isFileScheme, beq_iff_eq] at hf
    simp only [Url.isSpecial, hf]
    decide
  | false =>
    simp only [Bool.not_false, if_true]
    exact ⟨show isSpecialScheme sFile = true by decide, show isFileScheme sFile = true by decide⟩

theorem sim_file (m : M) (u : Url) (hI : Inv c m u) (hs : m.state = .file) :
    kFile c m = .ok (vd (fileState c.idna c.baseU c.ov u (c.D m.pointer))) := by
  obtain ⟨st, p, sp, fl⟩ := m
  obtain ⟨⟨h1, h2⟩, h3, h4⟩ := hI
  simp only [] at hs h1 h2 h3 h4
  subst hs
  have hl := W.hl
  refine stepB_ok rfl ?_
  unfold bFile
  simp only []
  refine R.sat_bind (peekOr0B_spec c W p h1 h2) ?_
  intro ch hch
  obtain ⟨hu1, hu2⟩ := fileState_u u
  split
  · rename_i hsl
    have hp : p < c.last ∧ ch = c.a[p]! := by
      rcases hch with h | h
      · exact h
      · omega
    upsimp
    refine R.sat_pure ?_
    simp only []
    have hD := c.D_ascii W p hp.1 (by omega)
    have hslash : isSlash c.a[p]! = true := by
      simp only [isSlash, Bool.or_eq_true, beq_iff_eq]; omega
    rw [hD]
    simp only [fileState, hslash, if_true]
    exact sim_fileSlash c W _ _ ⟨⟨by simp only []; omega, by simp only []; omega⟩, hu1.symm, hu2.symm⟩ rfl
  · rename_i hsl
    have hlist : vd (fileState c.idna c.baseU c.ov u (c.D p)) = true := by
      rcases hch with ⟨hp, hc⟩ | ⟨hp, hc⟩
      · obtain ⟨ch', t, hD, hk, _⟩ := c.D_peek' W p hp
        have e1 := hk 0x2F (by omega)
        have e2 := hk 0x5C (by omega)
        have hns : isSlash ch' = false := by
          simp only [isSlash, Bool.or_eq_false_iff, beq_eq_false_iff_ne, ne_eq, e1, e2]; omega
        rw [hD]; simp only [fileState, hns, Bool.false_eq_true, if_false]
        exact vd_fileDefault _ _ _ _
      · rw [hp, c.D_end]; simp only [fileState]
        exact vd_fileDefault _ _ _ _
    rw [hlist]
    have fin : ∀ (m' : M), Bnd c m' → isTail m'.state = true →
        (pure (Sum.inl m' : M ⊕ Bool) : R (M ⊕ Bool)).sat
          (fun r => match r with | .inl m' => kFileSlash c m' = .ok true | .inr w => w = true) :=
      fun m' hb' hs' => R.sat_pure (tail_kFileSlash c W m' hb' hs')
    split
    · split
      · split
        · exact R.sat_pure rfl
        · upsimp
          split
          · upsimp; exact fin _ ⟨by simp only []; omega, by simp only []; omega⟩ rfl
          · split
            · upsimp; exact fin _ ⟨by simp only []; omega, by simp only []; omega⟩ rfl
            · refine R.sat_bind (startsWithWindowsDrive_sat c.a p c.last h2 hl) ?_
              intro _ _
              exact fin _ ⟨h1, h2⟩ rfl
      · exact fin _ ⟨h1, h2⟩ rfl
    · exact fin _ ⟨h1, h2⟩ rfl

end

end Upa.Impl.B
