import Upa.Proofs.BoundsAgree3Dec
/-
  Helper lemmas for C04h, part 5: `checkFixUtf8` of `Upa/Impl/Bounds.lean` (src/url_utf.cpp:37-68, the two
  copy loops with `ptr` / `bgn`) = `Impl.checkFixUtf8` (decode with replacement, re-encode).
  Key fact: a successful `read_code_point` consumed exactly the UTF-8 encoding of the code point it returns.
-/
set_option linter.unusedSimpArgs false

namespace Upa.Impl.B
open Upa.Proofs.C10b

/-- a successful read consumed the encoding of its result -/
theorem readU8A_ok_encode (l : List Nat) (hl : ∀ x ∈ l, x < 256) (h : (Impl.readU8A l).1 = true) :
    l = Spec.utf8EncodeChar (Impl.readU8A l).2.1 ++ (Impl.readU8A l).2.2 := by
  cases l with
  | nil => simp [Impl.readU8A] at h
  | cons b0 r =>
    have h0 : b0 < 256 := hl b0 (by simp)
    by_cases c0 : b0 < 0x80
    · simp only [Impl.readU8A, if_pos c0, Spec.utf8EncodeChar]
      rw [if_pos (by omega)]
      rfl
    cases r with
    | nil => simp only [Impl.readU8A, if_neg c0] at h; first | cases h | simp at h
    | cons b1 r1 =>
      have h1 : b1 < 256 := hl b1 (by simp)
      by_cases cE : b0 ≥ 0xE0
      · by_cases cF : b0 < 0xF0
        · by_cases c1 : 0x80 ≤ b1 ∧ b1 ≤ 0xBF ∧ (b0 = 0xE0 → 0xA0 ≤ b1) ∧ (b0 = 0xED → b1 ≤ 0x9F)
          · cases r1 with
            | nil => simp only [Impl.readU8A, if_neg c0, if_pos cE, cF, if_true, if_false, if_pos c1] at h; first | cases h | simp at h
            | cons b2 r2 =>
              by_cases c2 : 0x80 ≤ b2 ∧ b2 ≤ 0xBF
              · simp only [Impl.readU8A, if_neg c0, if_pos cE, if_pos cF, if_pos c1, if_pos c2, Spec.utf8EncodeChar]
                have e0 := c1.2.2.1
                rw [if_neg (by omega), if_neg (by omega), if_pos (by omega)]
                simp only [List.cons_append, List.nil_append, List.cons.injEq, and_true]
                omega
              · simp only [Impl.readU8A, if_neg c0, if_pos cE, if_pos cF, if_pos c1, if_neg c2] at h
                cases h
          · simp only [Impl.readU8A, if_neg c0, if_pos cE, if_pos cF, if_neg c1] at h
            cases h
        · by_cases c1 : b0 ≤ 0xF4 ∧ 0x80 ≤ b1 ∧ b1 ≤ 0xBF ∧ (b0 = 0xF0 → 0x90 ≤ b1) ∧ (b0 = 0xF4 → b1 ≤ 0x8F)
          · cases r1 with
            | nil => simp only [Impl.readU8A, if_neg c0, if_pos cE, cF, if_true, if_false, if_pos c1] at h; first | cases h | simp at h
            | cons b2 r2 =>
              by_cases c2 : 0x80 ≤ b2 ∧ b2 ≤ 0xBF
              · cases r2 with
                | nil => simp only [Impl.readU8A, if_neg c0, if_pos cE, cF, if_true, if_false, if_pos c1, if_pos c2] at h; first | cases h | simp at h
                | cons b3 r3 =>
                  by_cases c3 : 0x80 ≤ b3 ∧ b3 ≤ 0xBF
                  · simp only [Impl.readU8A, if_neg c0, if_pos cE, if_neg cF, if_pos c1, if_pos c2, if_pos c3,
                      Spec.utf8EncodeChar]
                    have e0 := c1.2.2.2.1
                    rw [if_neg (by omega), if_neg (by omega), if_neg (by omega)]
                    simp only [List.cons_append, List.nil_append, List.cons.injEq, and_true]
                    omega
                  · simp only [Impl.readU8A, if_neg c0, if_pos cE, if_neg cF, if_pos c1, if_pos c2, if_neg c3] at h
                    cases h
              · simp only [Impl.readU8A, if_neg c0, if_pos cE, if_neg cF, if_pos c1, if_neg c2] at h
                cases h
          · simp only [Impl.readU8A, if_neg c0, if_pos cE, if_neg cF, if_neg c1] at h
            cases h
      · by_cases cC : b0 ≥ 0xC2
        · by_cases c1 : 0x80 ≤ b1 ∧ b1 ≤ 0xBF
          · simp only [Impl.readU8A, if_neg c0, if_neg cE, if_pos cC, if_pos c1, Spec.utf8EncodeChar]
            rw [if_neg (by omega), if_pos (by omega)]
            simp only [List.cons_append, List.nil_append, List.cons.injEq, and_true]
            omega
          · simp only [Impl.readU8A, if_neg c0, if_neg cE, if_pos cC, if_neg c1] at h
            cases h
        · simp only [Impl.readU8A, if_neg c0, if_neg cE, if_neg cC] at h
          cases h

/-- one `read_code_point` on `[it, last)` of a byte buffer, in terms of the list decoder -/
theorem readU8_step (a : Array Nat) (it last : Nat) (hlt : it < last) (hl : last ≤ a.size)
    (hb : ∀ i, it ≤ i → i < last → a[i]! < 256) :
    (readU8 a it last).sat (fun r => it < r.2.2 ∧ r.2.2 ≤ last ∧
      Impl.encodeUtf8 (Impl.decode .u8 (slice a it last)) =
        (if r.1 = true then slice a it r.2.2 else replUtf8) ++ Impl.encodeUtf8 (Impl.decode .u8 (slice a r.2.2 last))) := by
  refine R.sat_mono (R.sat_and (readU8_sat a it last hlt hl) (readU8_agrees a it last hlt hl hb)) ?_
  intro ⟨ok, cp, it'⟩ ⟨hpost, hag⟩
  simp only [ReadPost] at hpost hag ⊢
  refine ⟨hpost.1, hpost.2, ?_⟩
  have hne : slice a it last ≠ [] := by rw [slice_cons a it last hlt hl]; simp
  have hmem : ∀ x ∈ slice a it last, x < 256 := by
    intro x hx
    obtain ⟨i, hi1, hi2, rfl⟩ := mem_slice a it last x hl hx
    exact hb i hi1 hi2
  rw [Upa.Proofs.C14.decode_step_u8 _ hne, Upa.Proofs.C14.encodeUtf8_cons, hag]
  simp only []
  cases ok with
  | false => simp only [Bool.false_eq_true, if_false]; rfl
  | true =>
    simp only [if_true]
    congr 1
    have hA := Impl.readU8_eq_readU8A _ hmem
    rw [hag] at hA
    have hok : (Impl.readU8A (slice a it last)).1 = true := by rw [← hA]
    have henc := readU8A_ok_encode _ hmem hok
    have hsc := Impl.readU8A_scalar _ hok
    rw [← hA] at henc hsc
    simp only [] at henc hsc
    rw [Impl.encodeUtf8Char_eq cp ((Impl.isScalar_iff cp).1 hsc).1]
    have hsplit := slice_append a it it' last (by omega) hpost.2 hl
    rw [← hsplit] at henc
    exact (List.append_cancel_right henc).symm

theorem checkFixUtf8_agrees (a : Array Nat) (first last : Nat) (h : first ≤ last) (hl : last ≤ a.size)
    (hb : ∀ i, first ≤ i → i < last → a[i]! < 256) :
    checkFixUtf8 a first last = .ok (Impl.checkFixUtf8 (slice a first last)) := by
  apply R.sat_eq
  unfold checkFixUtf8 Impl.checkFixUtf8
  refine R.sat_bind (iter_sat _
    (fun s => s.1 = s.2 ∧ first ≤ s.2 ∧ s.2 ≤ last ∧
      slice a first s.2 ++ Impl.encodeUtf8 (Impl.decode .u8 (slice a s.2 last)) =
        Impl.encodeUtf8 (Impl.decode .u8 (slice a first last)))
    (fun s => last - s.2)
    (fun r => (r.1 = last ∧ slice a first last = Impl.encodeUtf8 (Impl.decode .u8 (slice a first last))) ∨
      (first ≤ r.1 ∧ r.1 < r.2 ∧ r.2 ≤ last ∧
        slice a first r.1 ++ replUtf8 ++ Impl.encodeUtf8 (Impl.decode .u8 (slice a r.2 last)) =
          Impl.encodeUtf8 (Impl.decode .u8 (slice a first last)))) ?_ _ _ ?_ ?_) ?_
  · intro ⟨ptr, it⟩ ⟨i0, i1, i2, i3⟩
    simp only at i0 i1 i2 i3 ⊢
    subst i0
    split
    · rename_i hit
      refine R.sat_pure (Or.inl ⟨by omega, ?_⟩)
      have : ptr = last := by omega
      subst this
      rw [slice_nil a ptr ptr (Nat.le_refl _), Impl.decode_nil] at i3
      rw [← i3]
      simp [Impl.encodeUtf8]
    rename_i hit
    have hlt : ptr < last := by omega
    simp only [sub_ok i1 (Nat.le_of_lt hlt) (Nat.le_refl _), R.ok_bind]
    refine R.sat_bind (readU8_step a ptr last hlt hl (fun i hi1 hi2 => hb i (by omega) hi2)) ?_
    intro ⟨ok, cp, it'⟩ ⟨q1, q2, q3⟩
    simp only at q1 q2 q3 ⊢
    rw [q3] at i3
    cases ok with
    | true =>
      simp only [if_true] at i3 ⊢
      refine R.sat_pure ⟨⟨rfl, by rarith, q2, ?_⟩, by rarith⟩
      simp only []
      rw [← i3, ← List.append_assoc, slice_append a first ptr it' i1 (by omega) (by omega)]
    | false =>
      simp only [Bool.false_eq_true, if_false] at i3 ⊢
      refine R.sat_pure (Or.inr ⟨i1, q1, q2, ?_⟩)
      simp only []
      rw [← i3, List.append_assoc]
  · refine ⟨rfl, Nat.le_refl _, h, ?_⟩
    rw [slice_nil a first first (Nat.le_refl _)]; rfl
  · rarith
  intro ⟨ptr, it⟩ hpost
  simp only at hpost ⊢
  rcases hpost with ⟨hp, hT⟩ | ⟨p1, p2, p3, hT⟩
  · rw [if_neg (by omega)]
    refine R.sat_pure ?_
    rw [← hT]; rfl
  · rw [if_pos (by omega)]
    simp only [sub_ok (Nat.le_refl first) p1 (by omega : ptr ≤ last), R.ok_bind]
    refine R.sat_bind (iter_sat _
      (fun s => s.2.2.1 = s.2.2.2 ∧ it ≤ s.2.1 ∧ s.2.1 ≤ s.2.2.2 ∧ s.2.2.2 ≤ last ∧
        s.1 ++ slice a s.2.1 s.2.2.2 ++ Impl.encodeUtf8 (Impl.decode .u8 (slice a s.2.2.2 last)) =
          Impl.encodeUtf8 (Impl.decode .u8 (slice a first last)))
      (fun s => last - s.2.2.2)
      (fun r => it ≤ r.2.1 ∧ r.2.1 ≤ r.2.2 ∧ r.2.2 ≤ last ∧
        r.1 ++ slice a r.2.1 r.2.2 = Impl.encodeUtf8 (Impl.decode .u8 (slice a first last))) ?_ _ _ ?_ ?_) ?_
    · intro ⟨buff, bgn, ptr2, it2⟩ ⟨j0, j1, j2, j3, j4⟩
      simp only at j0 j1 j2 j3 j4 ⊢
      subst j0
      split
      · rename_i hit
        refine R.sat_pure ⟨j1, j2, j3, ?_⟩
        simp only []
        rw [hit, slice_nil a last last (Nat.le_refl _), Impl.decode_nil] at j4
        rw [← j4, hit]
        simp [Impl.encodeUtf8]
      rename_i hit
      have hlt : ptr2 < last := by omega
      simp only [sub_ok (by omega : first ≤ ptr2) (Nat.le_of_lt hlt) (Nat.le_refl _), R.ok_bind]
      refine R.sat_bind (readU8_step a ptr2 last hlt hl (fun i hi1 hi2 => hb i (by omega) hi2)) ?_
      intro ⟨ok, cp, it'⟩ ⟨q1, q2, q3⟩
      simp only at q1 q2 q3 ⊢
      rw [q3] at j4
      cases ok with
      | true =>
        simp only [if_true] at j4 ⊢
        refine R.sat_pure ⟨⟨rfl, j1, by rarith, q2, ?_⟩, by rarith⟩
        simp only []
        rw [← j4, ← slice_append a bgn ptr2 it' j2 (by omega) (by omega)]
        simp only [List.append_assoc]
      | false =>
        simp only [Bool.false_eq_true, if_false] at j4 ⊢
        simp only [sub_ok (by omega : first ≤ bgn) j2 (by omega : ptr2 ≤ last), R.ok_bind]
        refine R.sat_pure ⟨⟨rfl, by rarith, by rarith, q2, ?_⟩, by rarith⟩
        simp only []
        rw [← j4, slice_nil a it' it' (Nat.le_refl _)]
        simp only [List.append_assoc, List.append_nil, List.nil_append]
        rfl
    · refine ⟨rfl, Nat.le_refl _, Nat.le_refl _, p3, ?_⟩
      simp only []
      rw [slice_nil a it it (Nat.le_refl _), List.append_nil]
      exact hT
    · rarith
    intro ⟨buff, bgn, ptr2⟩ ⟨r1, r2, r3, r4⟩
    simp only at r1 r2 r3 r4 ⊢
    simp only [sub_ok (by omega : first ≤ bgn) r2 r3, R.ok_bind]
    refine R.sat_pure ?_
    rw [← r4]
    rfl

/-! ### append_percent_decoded -/

/-- UTF-8 decode with replacement, then UTF-8 encode (= `Impl.checkFixUtf8`) -/
def E8 (x : List Nat) : List Nat := Impl.encodeUtf8 (Impl.decode .u8 x)

theorem E8_nil : E8 [] = [] := by simp [E8, Impl.decode_nil, Impl.encodeUtf8]

theorem E8_ascii (x : Nat) (y : List Nat) (hx : x < 0x80) : E8 (x :: y) = x :: E8 y := by
  unfold E8
  rw [Upa.Proofs.C14.decode_ascii_cons x hx, Upa.Proofs.C14.encodeUtf8_cons, Upa.Proofs.C14.encodeUtf8Char_ascii x hx]
  rfl

theorem E8_scalar (c : Nat) (y : List Nat) (hc : Spec.isScalar c = true) :
    E8 (Spec.utf8EncodeChar c ++ y) = Impl.encodeUtf8Char c ++ E8 y := by
  unfold E8
  rw [Upa.Proofs.C14.decode_scalar_cons c hc, Upa.Proofs.C14.encodeUtf8_cons]

/-- `Impl.percentDecode` on scalar values, through the Standard's string percent-decode -/
theorem percentDecode_eq_E8 (D : List Nat) (hs : ∀ c ∈ D, Spec.isScalar c = true) :
    Impl.percentDecode D = E8 (Spec.stringPercentDecode D) :=
  (Upa.Proofs.C14.aux_eq D.length D (Nat.le_refl _) hs).1

theorem appendPercentDecoded_agrees (e : Enc) (a : Array Nat) (first last : Nat) (h : first ≤ last)
    (hl : last ≤ a.size) (hu : UOk e (slice a first last)) :
    appendPercentDecoded e a first last = .ok (Impl.percentDecode (Impl.decode e (slice a first last))) := by
  rw [percentDecode_eq_E8 _ (decode_scalars e _ hu)]
  show appendPercentDecoded e a first last = .ok (E8 (G e (slice a first last)))
  apply R.sat_eq
  unfold appendPercentDecoded
  refine iter_sat _ (fun s => first ≤ s.1 ∧ s.1 ≤ last ∧
      s.2 ++ E8 (G e (slice a s.1 last)) = E8 (G e (slice a first last)))
    (fun s => last - s.1) _ ?_ _ _ ⟨Nat.le_refl _, h, by simp⟩ (by rarith)
  intro ⟨it, buff⟩ ⟨i1, i2, i3⟩
  simp only at i1 i2 i3 ⊢
  split
  · rename_i hit
    refine R.sat_pure ?_
    rw [hit, slice_nil a last last (Nat.le_refl _), G_nil, E8_nil, List.append_nil] at i3
    exact i3
  rename_i hit
  have hlt : it < last := by omega
  have hfi : first ≤ it := i1
  have hui : UOk e (slice a it last) := UOk_suffix a first it last hfi i2 hl hu
  have hu1 : UOk e (slice a (it + 1) last) := UOk_suffix a first (it + 1) last (by omega) (by omega) hl hu
  simp only [rd_ok hfi hlt hl, R.ok_bind]
  psimp
  rw [slice_cons a it last hlt hl] at i3
  split
  · rename_i h80
    split
    · rename_i h25
      rw [G_ascii e _ _ h80 h25, E8_ascii _ _ h80] at i3
      refine R.sat_pure ⟨⟨by rarith, by rarith, ?_⟩, by rarith⟩
      simp only []
      rw [← i3]; simp
    · rename_i h25
      have h25' : a[it]! = 0x25 := by
        apply Classical.byContradiction
        intro hh; exact h25 hh
      rw [h25'] at i3
      simp only [sub_ok (by omega : first ≤ it + 1) (by omega : it + 1 ≤ last) (Nat.le_refl _), R.ok_bind]
      rw [decodeHexToByte_eq a (it + 1) last (by omega) hl]
      simp only [R.ok_bind]
      have hx := hex2_slice a (it + 1) last (by omega) hl
      by_cases hcond : last - (it + 1) ≥ 2 ∧ isHex a[it + 1]! = true ∧ isHex a[it + 1 + 1]! = true
      · simp only [if_pos hcond]
        rw [slice_cons a (it + 1) last (by omega) hl, slice_cons a (it + 1 + 1) last (by omega) hl,
          G_pct_hex e _ _ _ hcond.2.1 hcond.2.2] at i3
        have hu3 : UOk e (slice a (it + 1 + 1 + 1) last) :=
          UOk_suffix a first (it + 1 + 1 + 1) last (by omega) (by omega) hl hu
        have e3 : it + 1 + 2 = it + 1 + 1 + 1 := by omega
        split
        · rename_i hv
          rw [E8_ascii _ _ hv] at i3
          refine R.sat_pure ⟨⟨by rarith, by rarith, ?_⟩, by rarith⟩
          simp only []
          rw [← i3, e3]; simp
        · rename_i hv
          refine R.sat_bind (pctRun_agrees e a first last hl (it + 1 + 2) [hexVal a[it + 1]! * 16 + hexVal a[it + 1 + 1]!]
            (by omega) (by omega) (by rw [e3]; exact hu3) _ (by omega)) ?_
          intro ⟨it', b8⟩ ⟨r1, r2, r3, run, rb, rlt, rG⟩
          simp only at r1 r2 r3 rb rG ⊢
          have hb8 : ∀ x ∈ b8, x < 256 := by
            intro x hx'
            rw [rb] at hx'
            rcases List.mem_append.1 hx' with hx' | hx'
            · simp only [List.mem_singleton] at hx'
              rw [hx']; exact hexByte_lt _ _ hcond.2.1 hcond.2.2
            · exact rlt x hx'
          rw [checkFixUtf8_agrees b8.toArray 0 b8.length (Nat.zero_le _) (by simp) (by
            intro i _ hi
            have : b8.toArray[i]! ∈ b8 := by
              rw [getElem!_pos b8.toArray i (by simpa using hi)]
              simp
            exact hb8 _ this), slice_ofList]
          simp only [R.ok_bind]
          refine R.sat_pure ⟨⟨by rarith, by rarith, ?_⟩, by rarith⟩
          simp only []
          have hu' : UOk e (slice a it' last) := UOk_suffix a first it' last (by omega) r2 hl hu
          have hsplit := decode_run_split e b8 (slice a it' last) hu' (by
            by_cases hend : it' = last
            · left; rw [hend, slice_nil a last last (Nat.le_refl _)]
            · right
              rcases r3 with r3 | r3
              · exact absurd r3 hend
              · exact ⟨_, _, slice_cons a it' last (by omega) hl, r3⟩)
          rw [e3] at rG
          rw [← i3, rG]
          have : (hexVal a[it + 1]! * 16 + hexVal a[it + 1 + 1]!) :: (run ++ G e (slice a it' last)) =
              b8 ++ G e (slice a it' last) := by rw [rb]; rfl
          rw [this]
          unfold E8 Impl.checkFixUtf8
          rw [hsplit, Upa.Proofs.C14.encodeUtf8_append, List.append_assoc]
      · simp only [if_neg hcond]
        rw [G_pct_nohex e _ hu1 (by rw [hx]; simpa using hcond), E8_ascii _ _ (by decide)] at i3
        refine R.sat_pure ⟨⟨by rarith, by rarith, ?_⟩, by rarith⟩
        simp only []
        rw [← i3]; simp
  · rename_i h80
    simp only [Nat.add_sub_cancel]
    refine R.sat_bind (readUtfChar_agrees e a first last it hfi hlt hl hui) ?_
    intro ⟨cp, it'⟩ ⟨hcp, hrest, q1, q2⟩
    simp only at hcp hrest q1 q2 ⊢
    rw [← slice_cons a it last hlt hl] at i3
    have hsl := slice_cons a it last hlt hl
    have hG := G_hi e a[it]! (slice a (it + 1) last) (by rw [← hsl]; exact hui) h80
    obtain ⟨_, _, hs⟩ := decode_cons_hi e a[it]! (slice a (it + 1) last) (by rw [← hsl]; exact hui) h80
    rw [← hsl, ← hcp, ← hrest] at hG
    rw [← hsl, ← hcp] at hs
    rw [hG, E8_scalar _ _ hs] at i3
    refine R.sat_pure ⟨⟨by rarith, by rarith, ?_⟩, by rarith⟩
    simp only []
    rw [← i3]
    simp

end Upa.Impl.B
