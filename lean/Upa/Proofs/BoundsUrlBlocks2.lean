import Upa.Proofs.BoundsUrlBlocks
/-
  Helper lemmas for C04d, part 3: the blocks from host_state to fragment_state.
-/
namespace Upa.Impl.B
open UP

theorem bHost_blk (a : Array Nat) (first last : Nat) (ov : Option Override) (base : Option BaseInfo) (ui : UrlInfo)
    (orc : Oracles) (fuel : Nat) (hl : last ≤ a.size) (hf : last - first < fuel) (m : M)
    (hI : UInv first last base m) :
    (bHost a first last ov ui orc fuel m).sat (UPost first last base) := by
  obtain ⟨st, p, sp, fl⟩ := m
  obtain ⟨h1, h2, h3, h4⟩ := hI
  simp only [] at h1 h2 h3 h4
  unfold bHost
  simp only []
  split
  · upfin
  · refine R.sat_bind (endOfAuthorityB_sat a first last p sp h1 h2 hl) ?_
    intro eoa heoa
    refine R.sat_bind (iter_sat _ (fun s => p ≤ s.1 ∧ s.1 ≤ eoa) (fun s => eoa - s.1)
      (fun r => p ≤ r.1 ∧ r.1 ≤ eoa ∧ (r.2 = true → r.1 < eoa)) ?_ _ _ ?_ ?_) ?_
    · intro ⟨it, inBr⟩ hI
      simp only [] at hI ⊢
      split
      · upsimp
        split
        · exact R.sat_pure (by simp only []; omega)
        · upsimp; uppure
      · exact R.sat_pure (by simp only []; simp; omega)
    · simp only []; omega
    · simp only []; omega
    · intro ⟨itHostEnd, isPort⟩ hr
      simp only [] at hr ⊢
      split
      · upfin
      · split
        · upfin
        · split
          · upfin
          · upsimp
            split
            · upfin
            · split
              · rename_i hp
                have := hr.2.2 hp
                upfin
              · split
                · upfin
                · upfin

theorem bPort_blk (a : Array Nat) (first last : Nat) (ov : Option Override) (base : Option BaseInfo) (ui : UrlInfo)
    (orc : Oracles) (fuel : Nat) (hl : last ≤ a.size) (hf : last - first < fuel) (m : M)
    (hI : UInv first last base m) :
    (bPort a first last ov ui orc fuel m).sat (UPost first last base) := by
  obtain ⟨st, p, sp, fl⟩ := m
  obtain ⟨h1, h2, h3, h4⟩ := hI
  simp only [] at h1 h2 h3 h4
  unfold bPort
  simp only [Nat.add_zero]
  upsimp
  refine R.sat_bind (findIf_sat a first last _ hl _ p h1 (by omega)) ?_
  intro eod heod
  refine R.sat_bind (P := fun _ => True) ?_ ?_
  · split
    · exact R.sat_pure trivial
    · upsimp
      split
      · exact R.sat_pure trivial
      · exact R.sat_pure trivial
  · intro isEnd _
    split
    · refine R.sat_bind (P := fun _ => True) ?_ ?_
      · split
        · upsimp
          refine R.sat_bind (findIf_sat a first last _ hl _ p h1 (by omega)) ?_
          intro p' hp'
          split
          · exact R.sat_pure trivial
          · refine R.sat_bind (iter_sat _ (fun s => p' ≤ s.1 ∧ s.1 ≤ eod) (fun s => eod - s.1) (fun _ => True)
              ?_ _ _ ?_ ?_) ?_
            · intro ⟨it, acc⟩ hI
              simp only [] at hI ⊢
              split
              · upsimp; uppure
              · exact R.sat_pure trivial
            · simp only []; omega
            · simp only []; omega
            · intro port _
              split
              · exact R.sat_pure trivial
              · split
                · upsimp; exact R.sat_pure trivial
                · exact R.sat_pure trivial
        · exact R.sat_pure trivial
      · intro bad _
        split
        · upfin
        · split
          · upfin
          · upfin
    · upfin

theorem bFile_blk (a : Array Nat) (first last : Nat) (base : Option BaseInfo)
    (hl : last ≤ a.size) (m : M) (hI : UInv first last base m) :
    (bFile a first last base m).sat (UPost first last base) := by
  obtain ⟨st, p, sp, fl⟩ := m
  obtain ⟨h1, h2, h3, h4⟩ := hI
  simp only [] at h1 h2 h3 h4
  unfold bFile
  refine R.sat_bind (peekOr0B_sat a first last p h1 h2 hl) ?_
  intro c hc
  simp only []
  split
  · have := hc (by omega); upfin
  · cases base with
    | none => simp only []; upfin
    | some b =>
      simp only []
      split
      · split
        · upfin
        · upsimp
          split
          · upfin
          · split
            · upfin
            · refine R.sat_bind (startsWithWindowsDrive_sat a p last h2 hl) ?_
              intro _ _
              upfin
      · upfin

theorem bFileSlash_blk (a : Array Nat) (first last : Nat) (base : Option BaseInfo) (ui : UrlInfo)
    (hl : last ≤ a.size) (m : M) (hI : UInv first last base m) :
    (bFileSlash a first last base ui m).sat (UPost first last base) := by
  obtain ⟨st, p, sp, fl⟩ := m
  obtain ⟨h1, h2, h3, h4⟩ := hI
  simp only [] at h1 h2 h3 h4
  unfold bFileSlash
  refine R.sat_bind (peekOr0B_sat a first last p h1 h2 hl) ?_
  intro c hc
  simp only []
  split
  · have := hc (by omega); upfin
  · split <;> (try split) <;>
      first
      | upfin
      | (upsimp
         refine R.sat_bind (startsWithWindowsDrive_sat a p last h2 hl) ?_
         intro _ _
         upfin)

theorem bFileHost_blk (a : Array Nat) (first last : Nat) (ov : Option Override) (base : Option BaseInfo)
    (ui : UrlInfo) (orc : Oracles) (hl : last ≤ a.size) (m : M) (hI : UInv first last base m) :
    (bFileHost a first last ov ui orc m).sat (UPost first last base) := by
  obtain ⟨st, p, sp, fl⟩ := m
  obtain ⟨h1, h2, h3, h4⟩ := hI
  simp only [] at h1 h2 h3 h4
  unfold bFileHost
  simp only []
  upsimp
  refine R.sat_bind (findIf_sat a first last _ hl _ p h1 (by omega)) ?_
  intro eoa heoa
  split
  · split
    · upfin
    · upfin
  · refine R.sat_bind (P := fun _ => True) ?_ ?_
    · split
      · upsimp; exact R.sat_pure trivial
      · exact R.sat_pure trivial
    · intro wd _
      split
      · upfin
      · upsimp
        split
        · upfin
        · split
          · upfin
          · upfin

theorem bNeedSave_blk (first last : Nat) (base : Option BaseInfo) (ui : UrlInfo) (m : M)
    (hI : UInv first last base m) : (bNeedSave ui m).sat (UPost first last base) := by
  unfold bNeedSave
  split
  · exact R.sat_pure trivial
  · exact R.sat_pure hI

theorem bPathStart_blk (a : Array Nat) (first last : Nat) (ov : Option Override) (base : Option BaseInfo)
    (hl : last ≤ a.size) (m : M) (hI : UInv first last base m) :
    (bPathStart a first last ov m).sat (UPost first last base) := by
  obtain ⟨st, p, sp, fl⟩ := m
  obtain ⟨h1, h2, h3, h4⟩ := hI
  simp only [] at h1 h2 h3 h4
  unfold bPathStart
  simp only []
  split
  · split
    · upsimp
      split
      · upfin
      · upfin
    · upfin
  · split
    · split
      · upsimp
        split
        · upfin
        · split
          · upfin
          · split
            · upfin
            · upfin
      · upsimp
        split
        · upfin
        · upfin
    · upfin

theorem afterPathB_sat (a : Array Nat) (first last : Nat) (base : Option BaseInfo) (hl : last ≤ a.size) (m : M)
    (eop : Nat) (h1 : first ≤ eop) (h2 : eop ≤ last) :
    (afterPathB a first last m eop).sat (UPost first last base) := by
  obtain ⟨st, p, sp, fl⟩ := m
  unfold afterPathB
  split
  · upfin
  · upsimp
    split
    · upfin
    · upfin

theorem endOfPathB_sat (a : Array Nat) (first last pointer : Nat) (h1 : first ≤ pointer)
    (h2 : pointer ≤ last) (hl : last ≤ a.size) :
    (endOfPathB a first last pointer).sat (fun q => pointer ≤ q ∧ q ≤ last) := by
  unfold endOfPathB
  upsimp
  exact R.sat_mono (findIf_sat a first last _ hl _ pointer h1 (by omega)) (by intro v hv; omega)

theorem bPath_blk (e : Enc) (a : Array Nat) (first last : Nat) (ov : Option Override) (base : Option BaseInfo)
    (orc : Oracles) (hl : last ≤ a.size) (m : M) (hI : UInv first last base m) :
    (bPath e a first last ov orc m).sat (UPost first last base) := by
  obtain ⟨h1, h2, h3, h4⟩ := hI
  unfold bPath
  refine R.sat_bind (P := fun q => m.pointer ≤ q ∧ q ≤ last) ?_ ?_
  · split
    · exact R.sat_pure (by omega)
    · exact endOfPathB_sat a first last m.pointer h1 h2 hl
  · intro eop heop
    upsimp
    refine R.sat_bind (parsePathB_sat e a m.pointer eop m.special m.file orc.emptyPath heop.1 (by omega)) ?_
    intro _ _
    exact afterPathB_sat a first last base hl m eop (by omega) heop.2

theorem bOpaquePath_blk (e : Enc) (a : Array Nat) (first last : Nat) (base : Option BaseInfo)
    (hl : last ≤ a.size) (m : M) (hI : UInv first last base m) :
    (bOpaquePath e a first last m).sat (UPost first last base) := by
  obtain ⟨h1, h2, h3, h4⟩ := hI
  unfold bOpaquePath
  refine R.sat_bind (endOfPathB_sat a first last m.pointer h1 h2 hl) ?_
  intro eop heop
  upsimp
  refine R.sat_bind (doSimplePathB_sat e a m.pointer eop heop.1 (by omega)) ?_
  intro _ _
  exact afterPathB_sat a first last base hl m eop (by omega) heop.2

theorem bQuery_blk (e : Enc) (a : Array Nat) (first last : Nat) (ov : Option Override) (base : Option BaseInfo)
    (fuel : Nat) (hl : last ≤ a.size) (hf : last - first < fuel) (m : M) (hI : UInv first last base m) :
    (bQuery e a first last ov fuel m).sat (UPost first last base) := by
  obtain ⟨st, p, sp, fl⟩ := m
  obtain ⟨h1, h2, h3, h4⟩ := hI
  simp only [] at h1 h2 h3 h4
  unfold bQuery
  simp only []
  refine R.sat_bind (P := fun q => p ≤ q ∧ q ≤ last) ?_ ?_
  · split
    · exact R.sat_pure (by omega)
    · upsimp
      refine R.sat_bind (findCh_sat a first last 0x23 hl _ p h1 (by omega)) ?_
      intro r hr
      cases r with
      | none => exact R.sat_pure (by omega)
      | some q => have := hr q rfl; exact R.sat_pure (by omega)
  · intro eoq heoq
    refine R.sat_bind (encLoopB_sat e a first last _ _ eoq fuel p h1 heoq.1 heoq.2 hl (by omega)) ?_
    intro _ _
    split
    · upfin
    · upfin

theorem bFragment_blk (e : Enc) (a : Array Nat) (first last : Nat) (base : Option BaseInfo)
    (fuel : Nat) (hl : last ≤ a.size) (hf : last - first < fuel) (m : M) (hI : UInv first last base m)
    (hs : m.state = .fragment) :
    (bFragment e a first last fuel m).sat (UPost first last base) := by
  obtain ⟨st, p, sp, fl⟩ := m
  obtain ⟨h1, h2, h3, h4⟩ := hI
  simp only [] at h1 h2 h3 h4 hs
  subst hs
  unfold bFragment
  simp only []
  refine R.sat_bind (encLoopB_sat e a first last _ _ last fuel p h1 h2 (Nat.le_refl _) hl (by omega)) ?_
  intro r hr
  have hr' : r = last := hr
  rw [hr']
  upfin

end Upa.Impl.B
