import Upa.Impl.Api
import Upa.Proofs.Form
import Upa.Proofs.Utf
/-
  C06 — a URL and its URLSearchParams object stay in lock-step.  Helper lemmas, the operation type
  `Op`, `step`, `run` and the invariants `Lock` / `LockS` for `Upa/Props/C06.lean`.
-/
namespace Upa.Proofs.C06
open Upa Upa.Impl

/-! ## 1. bytes -/

theorem encodeUtf8Char_byte (c : Nat) : ∀ x ∈ encodeUtf8Char c, x < 256 := by
  have h80 : ∀ y, y &&& 0x3F ||| 0x80 < 256 := fun y =>
    Nat.or_lt_two_pow (n := 8) (Nat.lt_of_le_of_lt Nat.and_le_right (by decide)) (by decide)
  unfold encodeUtf8Char
  intro x hx
  split at hx
  · simp at hx; omega
  · split at hx
    · rename_i h1 h2
      simp only [List.mem_cons, List.not_mem_nil, or_false] at hx
      rcases hx with rfl | rfl
      · refine Nat.or_lt_two_pow (n := 8) ?_ (by decide)
        rw [Nat.shiftRight_eq_div_pow]; omega
      · exact h80 _
    · split at hx
      · rename_i h1 h2 h3
        simp only [List.mem_cons, List.not_mem_nil, or_false] at hx
        rcases hx with rfl | rfl | rfl
        · refine Nat.or_lt_two_pow (n := 8) ?_ (by decide)
          rw [Nat.shiftRight_eq_div_pow]; omega
        · exact h80 _
        · exact h80 _
      · simp only [List.mem_cons, List.not_mem_nil, or_false] at hx
        rcases hx with rfl | rfl | rfl | rfl
        · exact Nat.mod_lt _ (by decide)
        · exact h80 _
        · exact h80 _
        · exact h80 _

theorem pctByte_byte (b : Nat) (hb : b < 256) : ∀ x ∈ pctByte b, x < 256 := by
  intro x hx
  simp only [pctByte, List.mem_cons, List.not_mem_nil, or_false] at hx
  rcases hx with rfl | rfl | rfl
  · decide
  · unfold hexDigitUpper; split <;> omega
  · unfold hexDigitUpper; split <;> omega

theorem pctEncodeChar_byte (c : Nat) : ∀ x ∈ pctEncodeChar c, x < 256 := by
  intro x hx
  simp only [pctEncodeChar, List.mem_flatMap] at hx
  obtain ⟨b, hb, hx⟩ := hx
  exact pctByte_byte b (encodeUtf8Char_byte c b hb) x hx

/-- the percent-encoder writes bytes, whatever it is given -/
theorem percentEncode_byte (f : Nat → Bool) (s : List Nat) : ∀ x ∈ percentEncode f s, x < 256 := by
  induction s with
  | nil => simp [percentEncode]
  | cons c cs ih =>
    intro x hx
    simp only [percentEncode, List.mem_append] at hx
    rcases hx with hx | hx
    · split at hx
      · exact pctEncodeChar_byte c x hx
      · split at hx
        · simp at hx; omega
        · exact pctByte_byte c (by omega) x hx
    · exact ih x hx


/-! ## 2. where the query of a parse result comes from

  `P` holds of the query being written, of the base URL's query and of every percent-encoder output;
  then it holds of the query of the result, whatever the outcome. -/

/-- the port computation inside `portState` -/
def portCalc (u : Url) (digits : List Nat) : Option Url :=
  if digits ≠ [] then
    let d := stripLeadingZeros digits
    if d.length > 5 then none
    else
      let port := decimalValue d
      if port > 0xFFFF then none
      else if defaultPort u.scheme = some port then some { u with port := none }
      else some { u with port := some port }
  else some u

def portEnd (u : Url) (rest : List Nat) : Bool :=
  match rest with
  | [] => true
  | c :: _ => isAuthorityEnd c || (c == 0x5C && u.isSpecial)

section Provenance
variable {P : Option (List Nat) → Prop} (hP : ∀ f s, P (some (percentEncode f s)))
include hP

omit hP in
theorem fragmentState_q (u : Url) (p : List Nat) (h : P u.query) : P (fragmentState u p).url.query := h

omit hP in
theorem fragmentState_query (u : Url) (p : List Nat) : (fragmentState u p).url.query = u.query := rfl

theorem queryState_q (ov : Option Override) (u : Url) (p : List Nat) : P (queryState ov u p).url.query := by
  unfold queryState
  dsimp only
  split
  · exact hP _ _
  · exact hP _ _

theorem afterPath_q (ov : Option Override) (u : Url) (p : List Nat) (h : P u.query) :
    P (afterPath ov u p).url.query := by
  unfold afterPath
  split
  · exact h
  · split
    · exact queryState_q hP _ _ _
    · exact h

theorem opaquePathState_q (ov : Option Override) (u : Url) (p : List Nat) (h : P u.query) :
    P (opaquePathState ov u p).url.query := afterPath_q hP _ _ _ h

omit hP in
theorem shortenPath_query (u : Url) : (shortenPath u).query = u.query := by
  unfold shortenPath
  repeat' split
  all_goals rfl

omit hP in
theorem pathSegment_query (u : Url) (seg : List Nat) (l : Bool) : (pathSegment u seg l).query = u.query := by
  unfold pathSegment
  split
  · split
    · exact shortenPath_query u
    · exact shortenPath_query u
  · split
    · split <;> rfl
    · split
      · split <;> rfl
      · rfl

omit hP in
theorem pathSegments_query : ∀ (segs : List (List Nat)) (u : Url), (pathSegments u segs).query = u.query
  | [], u => rfl
  | [seg], u => pathSegment_query u seg true
  | seg :: s2 :: rest, u => by
    show (pathSegments (pathSegment u seg false) (s2 :: rest)).query = _
    rw [pathSegments_query (s2 :: rest), pathSegment_query]

omit hP in
theorem parsePath_query (u : Url) (s : List Nat) : (parsePath u s).query = u.query :=
  pathSegments_query _ u

theorem pathState_q (ov : Option Override) (u : Url) (p : List Nat) (h : P u.query) :
    P (pathState ov u p).url.query :=
  afterPath_q hP _ _ _ (by rw [parsePath_query]; exact h)

theorem pathStartState_q (ov : Option Override) (u : Url) (p : List Nat) (h : P u.query) :
    P (pathStartState ov u p).url.query := by
  unfold pathStartState
  repeat' split
  all_goals first
    | exact pathState_q hP _ _ _ h
    | exact queryState_q hP _ _ _
    | exact h

theorem fileHostState_q (idna : Idna) (ov : Option Override) (u : Url) (p : List Nat) (h : P u.query) :
    P (fileHostState idna ov u p).url.query := by
  unfold fileHostState
  dsimp only
  repeat' split
  all_goals first
    | exact pathState_q hP _ _ _ h
    | exact pathStartState_q hP _ _ _ h
    | exact h

theorem fileSlashDefault_q (base : Option Url) (hb : ∀ b, base = some b → P b.query)
    (ov : Option Override) (u : Url) (p : List Nat) (h : P u.query) :
    P (fileSlashState.fileSlashDefault base ov u p).url.query := by
  unfold fileSlashState.fileSlashDefault
  apply pathState_q hP
  repeat' split
  all_goals exact h

theorem fileSlashState_q (idna : Idna) (base : Option Url) (hb : ∀ b, base = some b → P b.query)
    (ov : Option Override) (u : Url) (p : List Nat) (h : P u.query) :
    P (fileSlashState idna base ov u p).url.query := by
  unfold fileSlashState
  repeat' split
  all_goals first
    | exact fileHostState_q hP _ _ _ _ h
    | exact fileSlashDefault_q hP _ hb _ _ _ h

theorem fileDefault_q (base : Option Url) (hb : ∀ b, base = some b → P b.query)
    (ov : Option Override) (u : Url) (p : List Nat) (h : P u.query) :
    P (fileState.fileDefault base ov u p).url.query := by
  unfold fileState.fileDefault
  cases base with
  | none => exact pathState_q hP _ _ _ h
  | some b =>
  have hb' : P b.query := hb b rfl
  dsimp only
  repeat' split
  all_goals first
    | exact hb'
    | exact queryState_q hP _ _ _
    | exact fragmentState_q _ _ hb'
    | exact pathState_q hP _ _ _ (by rw [shortenPath_query]; exact h)
    | exact pathState_q hP _ _ _ h

theorem fileState_q (idna : Idna) (base : Option Url) (hb : ∀ b, base = some b → P b.query)
    (ov : Option Override) (u : Url) (p : List Nat) (h : P u.query) :
    P (fileState idna base ov u p).url.query := by
  unfold fileState
  dsimp only
  repeat' split
  all_goals first
    | exact fileSlashState_q hP _ _ hb _ _ _ h
    | exact fileDefault_q hP _ hb _ _ _ h

omit hP in
theorem portCalc_query {u u' : Url} {d : List Nat} (h : portCalc u d = some u') : u'.query = u.query := by
  unfold portCalc at h
  dsimp only at h
  repeat' split at h
  all_goals first
    | (injection h with h; subst h; rfl)
    | cases h

omit hP in
theorem portState_eq (ov : Option Override) (u : Url) (p : List Nat) :
    portState ov u p =
      if (portEnd u (p.dropWhile isDigit) || ov.isSome) = true then
        match portCalc u (p.takeWhile isDigit) with
        | none => ⟨.failure, u⟩
        | some u' => if ov.isSome then ⟨.ok, u'⟩ else pathStartState ov u' (p.dropWhile isDigit)
      else ⟨.failure, u⟩ := rfl

theorem portState_q (ov : Option Override) (u : Url) (p : List Nat) (h : P u.query) :
    P (portState ov u p).url.query := by
  rw [portState_eq]
  split
  · cases hc : portCalc u (p.takeWhile isDigit) with
    | none => exact h
    | some u' =>
      have hq := portCalc_query hc
      dsimp only
      split
      · rw [← hq] at h; exact h
      · exact pathStartState_q hP _ _ _ (by rw [hq]; exact h)
  · exact h

theorem hostState_q (idna : Idna) (ov : Option Override) (u : Url) (p : List Nat) (h : P u.query) :
    P (hostState idna ov u p).url.query := by
  unfold hostState
  dsimp only
  repeat' split
  all_goals first
    | exact fileHostState_q hP _ _ _ _ h
    | exact portState_q hP _ _ _ h
    | exact pathStartState_q hP _ _ _ h
    | exact h

theorem authorityState_q (idna : Idna) (ov : Option Override) (u : Url) (p : List Nat) (h : P u.query) :
    P (authorityState idna ov u p).url.query := by
  unfold authorityState
  dsimp only
  repeat' split
  all_goals first
    | exact hostState_q hP _ _ _ _ h
    | exact h

theorem ignoreSlashesState_q (idna : Idna) (ov : Option Override) (u : Url) (p : List Nat) (h : P u.query) :
    P (ignoreSlashesState idna ov u p).url.query := authorityState_q hP _ _ _ _ h

theorem specialAuthoritySlashesState_q (idna : Idna) (ov : Option Override) (u : Url) (p : List Nat)
    (h : P u.query) : P (specialAuthoritySlashesState idna ov u p).url.query := by
  unfold specialAuthoritySlashesState
  split <;> exact ignoreSlashesState_q hP _ _ _ _ h

theorem relativeSlashState_q (idna : Idna) (b : Url) (ov : Option Override) (u : Url) (p : List Nat)
    (h : P u.query) : P (relativeSlashState idna b ov u p).url.query := by
  unfold relativeSlashState
  repeat' split
  all_goals first
    | exact ignoreSlashesState_q hP _ _ _ _ h
    | exact authorityState_q hP _ _ _ _ h
    | exact pathState_q hP _ _ _ h

theorem relativeState_q (idna : Idna) (b : Url) (hb : P b.query) (ov : Option Override) (u : Url)
    (p : List Nat) (h : P u.query) : P (relativeState idna b ov u p).url.query := by
  unfold relativeState
  dsimp only
  repeat' split
  all_goals first
    | exact hb
    | exact relativeSlashState_q hP _ _ _ _ _ h
    | exact queryState_q hP _ _ _
    | exact fragmentState_q _ _ hb
    | exact pathState_q hP _ _ _ h

theorem pathOrAuthorityState_q (idna : Idna) (ov : Option Override) (u : Url) (p : List Nat)
    (h : P u.query) : P (pathOrAuthorityState idna ov u p).url.query := by
  unfold pathOrAuthorityState
  split
  · exact authorityState_q hP _ _ _ _ h
  · exact pathState_q hP _ _ _ h

theorem specialRelativeOrAuthorityState_q (idna : Idna) (b : Url) (hb : P b.query) (ov : Option Override)
    (u : Url) (p : List Nat) (h : P u.query) :
    P (specialRelativeOrAuthorityState idna b ov u p).url.query := by
  unfold specialRelativeOrAuthorityState
  split
  · exact ignoreSlashesState_q hP _ _ _ _ h
  · exact relativeState_q hP _ _ hb _ _ _ h

theorem noSchemeState_q (idna : Idna) (base : Option Url) (hb : ∀ b, base = some b → P b.query)
    (ov : Option Override) (u : Url) (p : List Nat) (h : P u.query) :
    P (noSchemeState idna base ov u p).url.query := by
  unfold noSchemeState
  cases base with
  | none => exact h
  | some b =>
  have hb' : P b.query := hb b rfl
  dsimp only
  repeat' split
  all_goals first
    | exact h
    | exact fragmentState_q _ _ hb'
    | exact fileState_q hP _ _ hb _ _ _ h
    | exact relativeState_q hP _ _ hb' _ _ _ h

theorem schemeState_q (idna : Idna) (base : Option Url) (hb : ∀ b, base = some b → P b.query)
    (ov : Option Override) (u : Url) (p : List Nat) (h : P u.query) :
    P (schemeState idna base ov u p).url.query := by
  unfold schemeState
  dsimp only
  repeat' split
  all_goals first
    | exact h
    | exact noSchemeState_q hP _ _ hb _ _ _ h
    | exact fileState_q hP _ _ hb _ _ _ h
    | exact specialRelativeOrAuthorityState_q hP _ _ (hb _ (by assumption)) _ _ _ h
    | exact specialRelativeOrAuthorityState_q hP _ _ (hb _ rfl) _ _ _ h
    | exact specialAuthoritySlashesState_q hP _ _ _ _ h
    | exact pathOrAuthorityState_q hP _ _ _ _ h
    | exact opaquePathState_q hP _ _ _ h

theorem urlParse_q (idna : Idna) (base : Option Url) (hb : ∀ b, base = some b → P b.query)
    (ov : Option Override) (u : Url) (p : List Nat) (h : P u.query) :
    P (urlParse idna base ov u p).url.query := by
  unfold urlParse
  repeat' split
  all_goals first
    | exact h
    | exact schemeState_q hP _ _ hb _ _ _ h
    | exact noSchemeState_q hP _ _ hb _ _ _ h
    | exact hostState_q hP _ _ _ _ h
    | exact portState_q hP _ _ _ h
    | exact pathStartState_q hP _ _ _ h
    | exact queryState_q hP _ _ _
    | exact fragmentState_q _ _ h

end Provenance


/-! ## 3. with a state override other than `query`, the parser does not touch the query -/

theorem pathState_ov (o : Override) (u : Url) (p : List Nat) :
    (pathState (some o) u p).url.query = u.query := by
  unfold pathState
  simp only [Option.isSome_some, if_true]
  exact parsePath_query u p

theorem pathStartState_ov (o : Override) (u : Url) (p : List Nat) :
    (pathStartState (some o) u p).url.query = u.query := by
  unfold pathStartState
  simp only [Option.isNone_some, Option.isSome_some]
  repeat' split
  all_goals first
    | exact pathState_ov _ _ _
    | rfl
    | (exfalso; simp_all; done)

theorem fileHostState_ov (idna : Idna) (o : Override) (u : Url) (p : List Nat) :
    (fileHostState idna (some o) u p).url.query = u.query := by
  unfold fileHostState
  simp only [Option.isNone_some, Option.isSome_some, Bool.false_and, if_true]
  repeat' split
  all_goals first
    | rfl
    | (exfalso; simp_all; done)

theorem portState_ov (o : Override) (u : Url) (p : List Nat) :
    (portState (some o) u p).url.query = u.query := by
  rw [portState_eq]
  simp only [Option.isSome_some, Bool.or_true, if_true]
  cases hc : portCalc u (p.takeWhile isDigit) with
  | none => rfl
  | some u' => exact portCalc_query hc

theorem hostState_ov (idna : Idna) (o : Override) (u : Url) (p : List Nat) :
    (hostState idna (some o) u p).url.query = u.query := by
  unfold hostState
  simp only [Option.isSome_some]
  repeat' split
  all_goals first
    | exact fileHostState_ov _ _ _ _
    | exact portState_ov _ _ _
    | exact pathStartState_ov _ _ _
    | rfl

theorem schemeState_ov (idna : Idna) (base : Option Url) (o : Override) (u : Url) (p : List Nat) :
    (schemeState idna base (some o) u p).url.query = u.query := by
  unfold schemeState
  simp only [Option.isSome_some, Option.isNone_some, if_true]
  repeat' split
  all_goals first
    | rfl
    | (exfalso; simp_all; done)

/-- `urlParse` with any state override but `query` leaves the query as it is, whatever the outcome -/
theorem urlParse_ov (idna : Idna) (base : Option Url) (o : Override) (ho : o ≠ .query) (u : Url)
    (p : List Nat) : (urlParse idna base (some o) u p).url.query = u.query := by
  unfold urlParse
  cases o with
  | query => exact absurd rfl ho
  | schemeStart =>
    dsimp only
    repeat' split
    all_goals first
      | exact schemeState_ov _ _ _ _ _
      | rfl
      | (exfalso; simp_all; done)
  | host => exact hostState_ov _ _ _ _
  | hostname => exact hostState_ov _ _ _ _
  | port => exact portState_ov _ _ _
  | pathStart => exact pathStartState_ov _ _ _
  | fragment => rfl


/-! ## 4. well-formed stored strings -/

/-- a stored name or value that is well-formed UTF-8: bytes that `check_fix_utf8` leaves alone -/
def WFB (b : List Nat) : Prop := checkFixUtf8 b = b ∧ ∀ x ∈ b, x < 256

/-- a stored pair with a well-formed name and a well-formed value -/
def WFP (x : BPair) : Prop := WFB x.1 ∧ WFB x.2

theorem checkFix_byte (b : List Nat) : ∀ x ∈ checkFixUtf8 b, x < 256 := by
  intro x hx
  simp only [checkFixUtf8, encodeUtf8, List.mem_flatMap] at hx
  obtain ⟨c, _, hx⟩ := hx
  exact encodeUtf8Char_byte c x hx

theorem WFB_checkFix (b : List Nat) (hb : ∀ x ∈ b, x < 256) : WFB (checkFixUtf8 b) :=
  ⟨checkFix_idem b hb, checkFix_byte b⟩

theorem WFB_nil : WFB [] := ⟨rfl, by simp⟩

/-- the other reading of `WFB`: the UTF-8 encoding of a string of scalar values -/
theorem WFB_iff (b : List Nat) :
    WFB b ↔ ∃ s : List Nat, (∀ c ∈ s, Spec.isScalar c = true) ∧ b = Spec.utf8Encode s := by
  constructor
  · rintro ⟨h1, h2⟩
    refine ⟨decode .u8 b, decode_u8_scalar b h2, ?_⟩
    rw [← encodeUtf8_eq _ (decode_u8_scalar b h2)]
    exact h1.symm
  · rintro ⟨s, hs, rfl⟩
    exact ⟨checkFix_wf s hs, utf8Encode_lt s hs⟩

open Upa.Proofs.C15 in
theorem formParse_nil : formParse false [] = [] := by
  simp [formParse_false, formParseAux_nil, FormSt.flush]

open Upa.Proofs.C15 in
/-- every name and value that `do_parse` stores is well-formed -/
theorem formParse_wfp (bytes : List Nat) (hb : ∀ x ∈ bytes, x < 256) :
    ∀ x ∈ formParse false bytes, WFP x := by
  have e : formParse false bytes = (splitOnP (· == 0x26) bytes).flatMap pieceResult := by
    rw [formParse_false]
    conv => lhs; rw [← intercalate_split bytes]
    rw [parse_intercalate _ (split_noamp bytes), List.nil_append]
  intro x hx
  rw [e] at hx
  obtain ⟨p, hp, hx⟩ := List.mem_flatMap.1 hx
  have hpb : ∀ b ∈ p, b < 256 := fun b hb' => hb b (split_mem _ bytes p hp b hb')
  unfold pieceResult at hx
  split at hx
  · simp at hx
  · have hlt1 : ∀ x ∈ (Spec.splitFirst 0x3D p).1, x < 256 := by
      rcases splitFirst_spec 0x3D p with ⟨_, h⟩ | ⟨a, b, h1, _, h⟩
      · rw [h]; exact hpb
      · rw [h]; intro x hx; exact hpb x (by rw [h1]; simp [hx])
    have hlt2 : ∀ x ∈ (Spec.splitFirst 0x3D p).2, x < 256 := by
      rcases splitFirst_spec 0x3D p with ⟨_, h⟩ | ⟨a, b, h1, _, h⟩
      · rw [h]; simp
      · rw [h]; intro x hx; exact hpb x (by rw [h1]; simp [hx])
    rw [List.mem_singleton] at hx
    subst hx
    exact ⟨WFB_checkFix _ (dec_lt _ _ (Nat.le_refl _) hlt1), WFB_checkFix _ (dec_lt _ _ (Nat.le_refl _) hlt2)⟩

open Upa.Proofs.C15 in
theorem formParse_wfp' (r : Bool) (bytes : List Nat) (hb : ∀ x ∈ bytes, x < 256) :
    ∀ x ∈ formParse r bytes, WFP x := by
  cases r with
  | false => exact formParse_wfp bytes hb
  | true =>
    rw [formParse_true]
    apply formParse_wfp
    split
    · intro x hx; exact hb x (by simp [hx])
    · exact hb

theorem isFormChar_lt (c : Nat) (h : Upa.Proofs.C15.isFormChar c = true) : c < 256 := by
  simp only [Upa.Proofs.C15.isFormChar, isAlpha, isDigit, Bool.or_eq_true, Bool.and_eq_true,
    decide_eq_true_eq, beq_iff_eq] at h
  omega

open Upa.Proofs.C15 in
theorem formSerialize_byte (l : List BPair) (hl : ∀ x ∈ l, WFP x) : ∀ c ∈ formSerialize l, c < 256 :=
  fun c hc => isFormChar_lt c (serialize_alphabet l (fun p hp => ⟨(hl p hp).1.2, (hl p hp).2.2⟩) c hc)

open Upa.Proofs.C15 in
/-- C15 round trip on a list of well-formed pairs: parsing the serialization returns the list -/
theorem roundtrip_wfp (l : List BPair) (hl : ∀ x ∈ l, WFP x) : formParse false (formSerialize l) = l := by
  rw [roundtrip_bytes l (fun p hp => ⟨(hl p hp).1.2, (hl p hp).2.2⟩)]
  conv => rhs; rw [← List.map_id l]
  apply List.map_congr_left
  intro p hp
  rw [(hl p hp).1.1, (hl p hp).2.1]
  rfl


/-! ## 5. the invariant -/

/-- the params object lists exactly the pairs of the URL's current query (null query ↦ empty list) -/
def Lock (o : UrlObj) : Prop :=
  ∀ u p, o.url = some u → o.sp = some p → p.list = formParse false (queryBytes (some u))

/-- the stored query consists of bytes -/
def QBytes (u : Option Url) : Prop := ∀ x ∈ queryBytes u, x < 256

def AllWFP (l : List BPair) : Prop := ∀ x ∈ l, WFP x

/-- the invariant that is preserved: `Lock`, the query is a byte string, and every stored name and
    value is well-formed UTF-8 (otherwise `update` followed by a re-parse repairs it: finding F3) -/
structure LockS (o : UrlObj) : Prop where
  lock : Lock o
  qbytes : QBytes o.url
  wf : ∀ p, o.sp = some p → AllWFP p.list

/-- the form of the byte condition that the provenance lemmas of section 2 speak about -/
def QB (q : Option (List Nat)) : Prop := ∀ l, q = some l → ∀ x ∈ l, x < 256

theorem QB_none : QB none := by intro l h; cases h
theorem QB_pe : ∀ f s, QB (some (percentEncode f s)) := by
  intro f s l h; cases h; exact percentEncode_byte f s

theorem qbytes_iff (u : Url) : QBytes (some u) ↔ QB u.query := by
  unfold QBytes QB queryBytes
  cases hq : u.query with
  | none => simp [hq]
  | some q => simp [hq]

theorem QBytes_none : QBytes none := by simp [QBytes, queryBytes]

theorem qbytes_of_query_none {u : Url} (h : u.query = none) : QBytes (some u) := by
  rw [qbytes_iff, h]; exact QB_none

theorem qbytes_congr {u u' : Url} (h : u'.query = u.query) (hq : QBytes (some u)) : QBytes (some u') := by
  rw [qbytes_iff] at *; rw [h]; exact hq

theorem queryBytes_congr {u u' : Url} (h : u'.query = u.query) : queryBytes (some u') = queryBytes (some u) := by
  simp [queryBytes, h]

/-- `Impl.parse` returns a URL whose query is a byte string when the base URL's is -/
theorem parse_qbytes (idna : Idna) (e : Enc) (units : List Nat) (base : Option Url) (u : Url)
    (hb : QBytes base) (h : Impl.parse idna e units base = some u) : QBytes (some u) := by
  unfold Impl.parse at h
  have := urlParse_q (P := QB) QB_pe idna base
    (fun b hb' => by subst hb'; exact (qbytes_iff b).1 hb) none {} (prep e (doTrim units)) QB_none
  split at h
  · rename_i u' heq
    injection h with h; subst h
    rw [heq] at this
    exact (qbytes_iff _).2 this
  · cases h

theorem AllWFP_nil : AllWFP [] := by intro x hx; cases hx

/-! constructors of `LockS` -/

theorem lockS_invalid (sp : Option Params) (h : ∀ p, sp = some p → AllWFP p.list) :
    LockS { url := none, sp := sp } :=
  ⟨fun _ _ hu _ => (by cases hu), QBytes_none, h⟩

theorem lockS_nosp (u : Option Url) (hq : QBytes u) : LockS { url := u, sp := none } :=
  ⟨fun _ _ _ hp => (by cases hp), hq, fun _ hp => (by cases hp)⟩

theorem lockS_fresh (u : Option Url) (hq : QBytes u) (isS : Bool) :
    LockS { url := u, sp := some { list := formParse false (queryBytes u), isSorted := isS } } := by
  refine ⟨?_, hq, ?_⟩
  · intro u' p hu hp
    cases hu; cases hp; rfl
  · intro p hp; cases hp
    exact formParse_wfp _ hq

theorem lockS_same {u u' : Url} {sp : Option Params} (h : LockS { url := some u, sp := sp })
    (hq : u'.query = u.query) : LockS { url := some u', sp := sp } := by
  refine ⟨?_, qbytes_congr hq h.qbytes, h.wf⟩
  intro u'' p hu hp
  cases hu
  rw [queryBytes_congr hq]
  exact h.lock u p rfl hp

theorem lockS_emptied {u : Url} (hq : u.query = none) (isS : Bool) :
    LockS { url := some u, sp := some { list := [], isSorted := isS } } := by
  refine ⟨?_, qbytes_of_query_none hq, ?_⟩
  · intro u' p hu hp
    cases hu; cases hp
    simp [queryBytes, hq, formParse_nil]
  · intro p hp; cases hp; exact AllWFP_nil

theorem lockS_written (u : Url) (l : List BPair) (hl : AllWFP l) (isS : Bool) :
    LockS { url := some { u with query := some (formSerialize l) },
            sp := some { list := l, isSorted := isS } } := by
  refine ⟨?_, ?_, ?_⟩
  · intro u' p hu hp
    cases hu; cases hp
    simp only [queryBytes, Option.getD_some]
    exact (roundtrip_wfp l hl).symm
  · exact formSerialize_byte l hl
  · intro p hp; cases hp; exact hl

theorem stripTrailingSpaces_query (u : Url) : (stripTrailingSpaces u).query = u.query := by
  unfold stripTrailingSpaces; split <;> rfl

/-! the building blocks of the operations -/

theorem reparse_lockS (u : Option Url) (sp : Option Params) (hq : QBytes u) :
    LockS (UrlObj.reparseParams { url := u, sp := sp }) := by
  unfold UrlObj.reparseParams
  cases sp with
  | none => exact lockS_nosp u hq
  | some p => exact lockS_fresh u hq false

theorem clearParams_wf (o : UrlObj) (h : ∀ p, o.sp = some p → AllWFP p.list) :
    ∀ p, o.clearParams.sp = some p → AllWFP p.list := by
  unfold UrlObj.clearParams
  split
  · intro p hp; cases hp; exact AllWFP_nil
  · exact h

theorem clearParams_url (o : UrlObj) : o.clearParams.url = o.url := by
  unfold UrlObj.clearParams; split <;> rfl

theorem clearParams_lockS_of_none {u : Url} (sp : Option Params) (hq : u.query = none) :
    LockS (UrlObj.clearParams { url := some u, sp := sp }) := by
  unfold UrlObj.clearParams
  cases sp with
  | none => exact lockS_nosp _ (qbytes_of_query_none hq)
  | some p => exact lockS_emptied hq true

theorem searchParams_lockS (o : UrlObj) (h : LockS o) : LockS o.searchParams := by
  unfold UrlObj.searchParams
  rcases o with ⟨u, sp⟩
  cases sp with
  | some p => exact h
  | none => exact lockS_fresh u h.qbytes false

theorem update_lockS (u : Option Url) (p : Params) (hq : QBytes u) (hl : AllWFP p.list) :
    LockS (UrlObj.update { url := u, sp := some p }) := by
  unfold UrlObj.update
  cases u with
  | none => exact lockS_invalid _ (fun p' hp => by cases hp; exact hl)
  | some u =>
    dsimp only
    split
    · rename_i hnil
      rcases p with ⟨l, isS⟩
      cases hnil
      exact lockS_emptied (by rw [stripTrailingSpaces_query]) isS
    · rcases p with ⟨l, isS⟩
      exact lockS_written u l hl isS

/-- a params mutation through the URL, followed by `update` -/
theorem spApply_lockS (o : UrlObj) (f : Params → Params) (h : LockS o)
    (hf : ∀ p, AllWFP p.list → AllWFP (f p).list) : LockS (o.spApply f) := by
  have h1 := searchParams_lockS o h
  unfold UrlObj.spApply
  generalize o.searchParams = o1 at h1
  rcases o1 with ⟨u, sp⟩
  cases sp with
  | none => exact h1
  | some p => exact update_lockS u (f p) h1.qbytes (hf p (h1.wf p rfl))

/-- `remove`-style mutation: `update` runs only when the size changed -/
theorem spApply_lockS_filter (o : UrlObj) (q : BPair → Bool) (h : LockS o) :
    LockS (o.spApply (fun p => { p with list := p.list.filter q }) false) := by
  have h1 := searchParams_lockS o h
  unfold UrlObj.spApply
  generalize o.searchParams = o1 at h1
  rcases o1 with ⟨u, sp⟩
  cases sp with
  | none => exact h1
  | some p =>
    have hw : AllWFP (p.list.filter q) := fun x hx => h1.wf p rfl x (List.mem_filter.1 hx).1
    dsimp only
    split
    · exact update_lockS u _ h1.qbytes hw
    · rename_i hne
      have hlen : (p.list.filter q).length = p.list.length := by simpa using hne
      have : p.list.filter q = p.list := List.filter_eq_self.2 (by
        have := List.length_filter_eq_length_iff.1 hlen
        exact this)
      rw [this]
      exact h1


/-! ## 6. the setters -/

/-- the nine setters other than `search` and `href` leave the query as it is, whether they succeed,
    fail or are ignored -/
theorem setValid_query (idna : Idna) (s : Setter) (e : Enc) (units : List Nat) (u : Url)
    (h1 : s ≠ .href) (h2 : s ≠ .search) : (setValid idna s e units u).1.query = u.query := by
  cases s with
  | href => exact absurd rfl h1
  | search => exact absurd rfl h2
  | protocol => exact urlParse_ov idna none .schemeStart (by decide) u _
  | username => simp only [setValid]; split <;> rfl
  | password => simp only [setValid]; split <;> rfl
  | host =>
    simp only [setValid]; split
    · exact urlParse_ov idna none .host (by decide) u _
    · rfl
  | hostname =>
    simp only [setValid]; split
    · exact urlParse_ov idna none .hostname (by decide) u _
    · rfl
  | port =>
    simp only [setValid]; split
    · split
      · rfl
      · exact urlParse_ov idna none .port (by decide) u _
    · rfl
  | pathname =>
    simp only [setValid]; split
    · exact urlParse_ov idna none .pathStart (by decide) { u with path := [] } _
    · rfl
  | hash =>
    simp only [setValid]; split
    · exact stripTrailingSpaces_query _
    · rfl

/-- the `search` setter: the new query is null or a percent-encoder output -/
theorem setValid_search_qb (idna : Idna) (e : Enc) (units : List Nat) (u : Url) :
    QB (setValid idna .search e units u).1.query := by
  simp only [setValid]
  split
  · rw [stripTrailingSpaces_query]; exact QB_none
  · exact queryState_q QB_pe _ _ _

theorem setValid_search_nil (idna : Idna) (e : Enc) (u : Url) :
    (setValid idna .search e [] u).1.query = none := by
  simp only [setValid]
  rw [stripTrailingSpaces_query]

theorem set_lockS (idna : Idna) (o : UrlObj) (s : Setter) (e : Enc) (units : List Nat) (h : LockS o) :
    LockS (o.set idna s e units).1 := by
  rcases o with ⟨url, sp⟩
  by_cases hh : s = .href
  · subst hh
    simp only [UrlObj.set]
    cases hp : Impl.parse idna e units none with
    | none => exact h
    | some u' => exact reparse_lockS (some u') sp (parse_qbytes idna e units none u' QBytes_none hp)
  · cases url with
    | none =>
      have : (UrlObj.set idna { url := none, sp := sp } s e units) = ({ url := none, sp := sp }, false) := by
        cases s <;> first | exact absurd rfl hh | rfl
      rw [this]; exact h
    | some u =>
      by_cases hs : s = .search
      · subst hs
        simp only [UrlObj.set]
        split
        · rename_i hnil
          subst hnil
          exact clearParams_lockS_of_none sp (setValid_search_nil idna e u)
        · exact reparse_lockS _ sp ((qbytes_iff _).2 (setValid_search_qb idna e units u))
      · have : (UrlObj.set idna { url := some u, sp := sp } s e units).1 =
            { url := some (setValid idna s e units u).1, sp := sp } := by
          cases s <;> first | exact absurd rfl hh | exact absurd rfl hs | rfl
        rw [this]
        exact lockS_same h (setValid_query idna s e units u hh hs)

theorem parse_lockS (idna : Idna) (o : UrlObj) (e : Enc) (units : List Nat) (base : Option (Option Url))
    (hb : ∀ b, base = some (some b) → QBytes (some b)) (h : LockS o) :
    LockS (o.parse idna e units base).1 := by
  unfold UrlObj.parse
  have hw : ∀ p, (if o.url.isSome then o.clearParams else o).sp = some p → AllWFP p.list := by
    split
    · exact clearParams_wf o h.wf
    · exact h.wf
  generalize (if o.url.isSome then o.clearParams else o) = o1 at hw
  rcases o1 with ⟨u1, sp1⟩
  dsimp only
  have hbq : QBytes (base.bind id) := by
    cases base with
    | none => exact QBytes_none
    | some b =>
      cases b with
      | none => exact QBytes_none
      | some b => exact hb b rfl
  split
  · exact lockS_invalid sp1 hw
  · cases hp : Impl.parse idna e units (base.bind id) with
    | none => exact lockS_invalid sp1 hw
    | some u' => exact reparse_lockS (some u') sp1 (parse_qbytes idna e units _ u' hbq hp)

theorem clear_lockS (o : UrlObj) (h : LockS o) : LockS o.clear := by
  unfold UrlObj.clear
  have := clearParams_wf { url := none, sp := o.sp } h.wf
  have hu := clearParams_url { url := none, sp := o.sp }
  generalize UrlObj.clearParams { url := none, sp := o.sp } = o1 at this hu
  rcases o1 with ⟨u1, sp1⟩
  cases hu
  exact lockS_invalid sp1 this

/-! ## 7. mutations keep well-formed lists well-formed -/

theorem append_wf (n v : List Nat) (hn : WFB n) (hv : WFB v) (p : Params) (h : AllWFP p.list) :
    AllWFP (p.append n v).list := by
  intro x hx
  simp only [Params.append, List.mem_append, List.mem_singleton] at hx
  rcases hx with hx | rfl
  · exact h x hx
  · exact ⟨hn, hv⟩

theorem setLoop_wf (n v : List Nat) (hv : WFB v) : ∀ (l : List BPair) (m : Bool), AllWFP l →
    AllWFP (setLoop n v l m).1
  | [], _, _ => AllWFP_nil
  | x :: xs, m, h => by
    have hxs : AllWFP xs := fun y hy => h y (by simp [hy])
    have hx : WFP x := h x (by simp)
    unfold setLoop
    split
    · split
      · exact setLoop_wf n v hv xs true hxs
      · intro y hy
        rcases List.mem_cons.1 hy with rfl | hy
        · exact ⟨hx.1, hv⟩
        · exact setLoop_wf n v hv xs true hxs y hy
    · intro y hy
      rcases List.mem_cons.1 hy with rfl | hy
      · exact hx
      · exact setLoop_wf n v hv xs m hxs y hy

theorem set_wf (n v : List Nat) (hn : WFB n) (hv : WFB v) (p : Params) (h : AllWFP p.list) :
    AllWFP (p.set n v).list := by
  unfold Params.set
  have := setLoop_wf n v hv p.list false h
  generalize setLoop n v p.list false = r at this
  rcases r with ⟨l, m⟩
  dsimp only
  split
  · exact append_wf n v hn hv p h
  · exact this

theorem filter_wf (q : BPair → Bool) (p : Params) (h : AllWFP p.list) :
    AllWFP ({ p with list := p.list.filter q } : Params).list :=
  fun x hx => h x (List.mem_filter.1 hx).1

theorem sort_wf (p : Params) (h : AllWFP p.list) : AllWFP p.sort.list := by
  unfold Params.sort
  split
  · intro x hx; exact h x (List.mem_mergeSort.1 hx)
  · exact h

/-! ## 8. operations on one object -/

/-- everything a program can do to one `upa::url` object and, through it, to its params object -/
inductive Op where
  /-- `url.parse(str, base)`; `base = some none`: an invalid base object -/
  | parse (e : Enc) (units : List Nat) (base : Option (Option Url))
  | clear
  /-- the ten setters `href(…)` … `hash(…)` -/
  | set (s : Setter) (e : Enc) (units : List Nat)
  /-- first `url.search_params()` -/
  | searchParams
  /-- `url.search_params().append(n, v)` etc. -/
  | append (n v : List Nat)
  | spSet (n v : List Nat)
  | del (n : List Nat)
  | del2 (n v : List Nat)
  /-- `remove(n)` / `remove(n, v)`: like `del` but `update()` only when something was removed -/
  | remove (n : List Nat)
  | remove2 (n v : List Nat)
  | sort
  | clearParams
  /-- `url.search_params().parse(query)` (`remQmark = true`) -/
  | parseParams (remQmark : Bool) (bytes : List Nat)
  /-- `url.search_params() = other` / `safe_assign(std::move(other))` from a detached params object -/
  | assignParams (l : List BPair) (isSorted : Bool)

/-- side conditions: every name, value and list element handed in is well-formed UTF-8 (finding F3:
    `char`-typed arguments are stored as they are); a query string handed to `parse` and the query of
    a base URL are byte strings (true of every URL the parser produced: `parse_qbytes`) -/
def Op.WF : Op → Prop
  | .parse _ _ base => ∀ b, base = some (some b) → QBytes (some b)
  | .append n v => WFB n ∧ WFB v
  | .spSet n v => WFB n ∧ WFB v
  | .parseParams _ bytes => ∀ x ∈ bytes, x < 256
  | .assignParams l _ => AllWFP l
  | _ => True

def step (idna : Idna) (o : UrlObj) : Op → UrlObj
  | .parse e units base => (o.parse idna e units base).1
  | .clear => o.clear
  | .set s e units => (o.set idna s e units).1
  | .searchParams => o.searchParams
  | .append n v => o.spApply (·.append n v)
  | .spSet n v => o.spApply (·.set n v)
  | .del n => o.spApply (·.del n)
  | .del2 n v => o.spApply (·.del2 n v)
  | .remove n => o.spApply (·.del n) false
  | .remove2 n v => o.spApply (·.del2 n v) false
  | .sort => o.spApply (·.sort)
  | .clearParams => o.spApply (·.clear)
  | .parseParams r bytes => o.spApply (·.parse r bytes)
  | .assignParams l isS => o.spApply (fun _ => { list := l, isSorted := isS })

def run (idna : Idna) (o : UrlObj) (ops : List Op) : UrlObj := ops.foldl (step idna) o

theorem step_lockS (idna : Idna) (o : UrlObj) (op : Op) (h : LockS o) (hop : op.WF) :
    LockS (step idna o op) := by
  cases op with
  | parse e units base => exact parse_lockS idna o e units base hop h
  | clear => exact clear_lockS o h
  | set s e units => exact set_lockS idna o s e units h
  | searchParams => exact searchParams_lockS o h
  | append n v => exact spApply_lockS o _ h (append_wf n v hop.1 hop.2)
  | spSet n v => exact spApply_lockS o _ h (set_wf n v hop.1 hop.2)
  | del n => exact spApply_lockS o _ h (filter_wf _)
  | del2 n v => exact spApply_lockS o _ h (filter_wf _)
  | remove n => exact spApply_lockS_filter o _ h
  | remove2 n v => exact spApply_lockS_filter o _ h
  | sort => exact spApply_lockS o _ h sort_wf
  | clearParams => exact spApply_lockS o _ h (fun _ _ => AllWFP_nil)
  | parseParams r bytes => exact spApply_lockS o _ h (fun _ _ => formParse_wfp' r bytes hop)
  | assignParams l isS => exact spApply_lockS o _ h (fun _ _ => hop)

theorem run_lockS (idna : Idna) (ops : List Op) : ∀ (o : UrlObj), LockS o → (∀ op ∈ ops, op.WF) →
    LockS (run idna o ops) := by
  induction ops with
  | nil => intro o h _; exact h
  | cons op ops ih =>
    intro o h hw
    exact ih (step idna o op) (step_lockS idna o op h (hw op (by simp)))
      (fun op' h' => hw op' (by simp [h']))

theorem lockS_init : LockS {} := lockS_nosp none QBytes_none


/-! ## 9. what `update` writes -/

theorem update_query (u : Url) (p : Params) :
    ∃ u', (UrlObj.update { url := some u, sp := some p }).url = some u' ∧
      (UrlObj.update { url := some u, sp := some p }).sp = some p ∧
      u'.query = if p.list = [] then none else some (formSerialize p.list) := by
  unfold UrlObj.update
  dsimp only
  by_cases h : p.list = []
  · rw [if_pos h, if_pos h]
    exact ⟨_, rfl, rfl, stripTrailingSpaces_query _⟩
  · rw [if_neg h, if_neg h]
    exact ⟨_, rfl, rfl, rfl⟩

/-- after a params mutation through a valid URL: the params object holds `f p` and the URL's query is
    its serialization, null iff the list is empty -/
theorem spApply_query (o : UrlObj) (f : Params → Params) (h : o.url.isSome) :
    ∃ u' p, o.searchParams.sp = some p ∧ (o.spApply f).sp = some (f p) ∧ (o.spApply f).url = some u' ∧
      u'.query = if (f p).list = [] then none else some (formSerialize (f p).list) := by
  rcases o with ⟨url, sp⟩
  cases url with
  | none => cases h
  | some u =>
    cases sp with
    | none =>
      obtain ⟨u', h1, h2, h3⟩ := update_query u (f { list := formParse false (queryBytes (some u)), isSorted := false })
      exact ⟨u', _, rfl, h2, h1, h3⟩
    | some p =>
      obtain ⟨u', h1, h2, h3⟩ := update_query u (f p)
      exact ⟨u', p, rfl, h2, h1, h3⟩

/-! ## 10. two objects -/

theorem copyAssign_lockS (dst src : UrlObj) (hs : LockS src) : LockS (copyAssign dst src) := by
  unfold copyAssign
  rcases src with ⟨su, ssp⟩
  rcases dst with ⟨du, dsp⟩
  cases dsp with
  | none => exact lockS_nosp su hs.qbytes
  | some dp =>
    cases ssp with
    | none => exact reparse_lockS su (some dp) hs.qbytes
    | some sp => exact hs

theorem copyConstruct_lockS (src : UrlObj) (hs : LockS src) : LockS (copyConstruct src) :=
  lockS_nosp src.url hs.qbytes

theorem moveAssign_lockS (src : UrlObj) (hs : LockS src) :
    LockS (moveAssign src).1 ∧ LockS (moveAssign src).2 :=
  ⟨hs, lockS_nosp none QBytes_none⟩

theorem safeAssign_lockS (dst src : UrlObj) (hs : LockS src) :
    LockS (safeAssign dst src).1 ∧ LockS (safeAssign dst src).2 := by
  unfold safeAssign
  rcases src with ⟨su, ssp⟩
  rcases dst with ⟨du, dsp⟩
  refine ⟨?_, ?_⟩
  · cases dsp with
    | none => exact lockS_nosp su hs.qbytes
    | some dp =>
      cases ssp with
      | none => exact lockS_fresh su hs.qbytes false
      | some sp => exact hs
  · apply lockS_invalid
    intro p hp
    cases ssp with
    | none => cases hp
    | some sp => cases hp; exact AllWFP_nil


/-! ## 11. evaluation kit for the concrete histories in `Upa/Props/C06.lean`

  `formParseAux` and `List.mergeSort` are compiled by well-founded recursion, which `decide` does not
  unfold; the lemmas below take the evaluated pieces (`formParseK` is the fuel-driven copy of C15) as
  hypotheses, each of which `decide` / `simp` proves. -/

instance (b : List Nat) : Decidable (WFB b) := inferInstanceAs (Decidable (_ ∧ _))
instance (x : BPair) : Decidable (WFP x) := inferInstanceAs (Decidable (_ ∧ _))
instance (l : List BPair) : Decidable (AllWFP l) := inferInstanceAs (Decidable (∀ x ∈ l, WFP x))
instance (u : Option Url) : Decidable (QBytes u) := inferInstanceAs (Decidable (∀ x ∈ queryBytes u, x < 256))

instance (op : Op) : Decidable op.WF :=
  match op with
  | .parse _ _ none => isTrue (fun _ h => by cases h)
  | .parse _ _ (some none) => isTrue (fun _ h => by cases h)
  | .parse _ _ (some (some b)) =>
    if h : QBytes (some b) then isTrue (fun b' hb => by cases hb; exact h)
    else isFalse (fun hn => h (hn b rfl))
  | .append n v => inferInstanceAs (Decidable (WFB n ∧ WFB v))
  | .spSet n v => inferInstanceAs (Decidable (WFB n ∧ WFB v))
  | .parseParams _ bytes => inferInstanceAs (Decidable (∀ x ∈ bytes, x < 256))
  | .assignParams l _ => inferInstanceAs (Decidable (AllWFP l))
  | .clear => isTrue trivial
  | .set _ _ _ => isTrue trivial
  | .searchParams => isTrue trivial
  | .del _ => isTrue trivial
  | .del2 _ _ => isTrue trivial
  | .remove _ => isTrue trivial
  | .remove2 _ _ => isTrue trivial
  | .sort => isTrue trivial
  | .clearParams => isTrue trivial

/-- the stub IDNA of the examples: lower-casing -/
def stubIdna : Idna := fun l => some (l.map toLower)

theorem run_nil (idna : Idna) (o : UrlObj) : run idna o [] = o := rfl
theorem run_append (idna : Idna) (o : UrlObj) (a b : List Op) :
    run idna o (a ++ b) = run idna (run idna o a) b := List.foldl_append
theorem run_cons (idna : Idna) (o : UrlObj) (op : Op) (ops : List Op) :
    run idna o (op :: ops) = run idna (step idna o op) ops := rfl

open Upa.Proofs.C15 in
theorem eval_searchParams (idna : Idna) (u : Url) (l : List BPair)
    (hl : formParseK false (queryBytes (some u)) = l) :
    step idna { url := some u, sp := none } .searchParams =
      { url := some u, sp := some { list := l, isSorted := false } } := by
  rw [← hl, ← formParse_eqK]; rfl

theorem eval_parse_fresh (idna : Idna) (e : Enc) (units : List Nat) (u : Url)
    (hp : Impl.parse idna e units none = some u) :
    step idna {} (.parse e units none) = { url := some u, sp := none } := by
  simp [step, UrlObj.parse, hp, UrlObj.reparseParams]

theorem eval_parse_fresh_base (idna : Idna) (e : Enc) (units : List Nat) (b u : Url)
    (hp : Impl.parse idna e units (some b) = some u) :
    step idna {} (.parse e units (some (some b))) = { url := some u, sp := none } := by
  simp [step, UrlObj.parse, hp, UrlObj.reparseParams]

/-- a params mutation `f` through the URL (`hop` is `fun _ => rfl`); the evaluated `f p = p'` is a
    hypothesis, the `update` that follows is evaluated by `decide` -/
theorem eval_mut (idna : Idna) (op : Op) (f : Params → Params) (a : Bool)
    (hop : ∀ o, step idna o op = o.spApply f a) (u : Url) (p p' : Params) (hf : f p = p') (o' : UrlObj)
    (hu : UrlObj.spApply { url := some u, sp := some p } (fun _ => p') a = o') :
    step idna { url := some u, sp := some p } op = o' := by
  rw [hop, ← hu, ← hf]; rfl

open Upa.Proofs.C15 in
theorem eval_set_href (idna : Idna) (e : Enc) (units : List Nat) (url : Option Url) (p : Params) (u : Url)
    (l : List BPair) (hp : Impl.parse idna e units none = some u)
    (hl : formParseK false (queryBytes (some u)) = l) :
    step idna { url := url, sp := some p } (.set .href e units) =
      { url := some u, sp := some { list := l, isSorted := false } } := by
  rw [← hl, ← formParse_eqK]
  simp [step, UrlObj.set, hp, UrlObj.reparseParams]

open Upa.Proofs.C15 in
theorem eval_set_search (idna : Idna) (e : Enc) (units : List Nat) (u0 : Url) (p : Params) (u : Url)
    (l : List BPair) (hne : units ≠ []) (hp : (setValid idna .search e units u0).1 = u)
    (hl : formParseK false (queryBytes (some u)) = l) :
    step idna { url := some u0, sp := some p } (.set .search e units) =
      { url := some u, sp := some { list := l, isSorted := false } } := by
  rw [← hl, ← formParse_eqK, ← hp]
  simp [step, UrlObj.set, UrlObj.reparseParams, hne]

open Upa.Proofs.C15 in
/-- `parse` on an object that already has a params object (valid base or none) -/
theorem eval_parse_sp (idna : Idna) (e : Enc) (units : List Nat) (base : Option (Option Url))
    (url : Option Url) (p : Params) (u : Url) (l : List BPair) (hb : base ≠ some none)
    (hp : Impl.parse idna e units (base.bind id) = some u)
    (hl : formParseK false (queryBytes (some u)) = l) :
    step idna { url := url, sp := some p } (.parse e units base) =
      { url := some u, sp := some { list := l, isSorted := false } } := by
  rw [← hl, ← formParse_eqK]
  cases url <;> cases base with
  | none => simp_all [step, UrlObj.parse, UrlObj.reparseParams, UrlObj.clearParams]
  | some b =>
    cases b with
    | none => exact absurd rfl hb
    | some b => simp_all [step, UrlObj.parse, UrlObj.reparseParams, UrlObj.clearParams]

theorem eval_set_other (idna : Idna) (s : Setter) (e : Enc) (units : List Nat) (u0 : Url)
    (sp : Option Params) (u : Url) (h1 : s ≠ .href) (h2 : s ≠ .search)
    (hp : (setValid idna s e units u0).1 = u) :
    step idna { url := some u0, sp := sp } (.set s e units) = { url := some u, sp := sp } := by
  subst hp
  cases s <;> first | exact absurd rfl h1 | exact absurd rfl h2 | rfl

end Upa.Proofs.C06
