import Upa.Impl.SimpleBuffer
/-
  Lemmas about the model of upa::simple_buffer (Impl/SimpleBuffer.lean): the closed form of the checked
  element-wise copy, the growth arithmetic, and one `Good` lemma per member function.
-/
namespace Upa.Impl.SB
open Upa.Impl

theorem copyCells_eq (n : Nat) : ∀ (dst : List Nat) (di : Nat) (src : List Nat) (si : Nat),
    di + n ≤ dst.length → si + n ≤ src.length →
    copyCells dst di src si n = some (dst.take di ++ (src.drop si).take n ++ dst.drop (di + n)) := by
  induction n with
  | zero => intro dst di src si _ _; simp [copyCells]
  | succ n ih =>
    intro dst di src si h1 h2
    have hs : si < src.length := by omega
    have hd : di < dst.length := by omega
    simp only [copyCells, List.getElem?_eq_getElem hs, writeAt, hd, if_true]
    rw [ih _ _ _ _ (by simp; omega) (by omega)]
    congr 1
    apply List.ext_getElem?
    intro i
    simp [List.getElem?_append, List.getElem?_take, List.getElem?_drop, List.getElem?_set]
    grind

/-- copying a whole list `xs` to position `di` -/
theorem copyCells_all (dst : List Nat) (di : Nat) (xs : List Nat) (h : di + xs.length ≤ dst.length) :
    copyCells dst di xs 0 xs.length = some (dst.take di ++ xs ++ dst.drop (di + xs.length)) := by
  rw [copyCells_eq _ _ _ _ _ h (by omega)]; simp

theorem writeAt_eq (m : List Nat) (i v : Nat) (h : i < m.length) :
    writeAt m i v = some (m.take i ++ [v] ++ m.drop (i + 1)) := by
  simp only [writeAt, h, if_true]
  congr 1
  apply List.ext_getElem?
  intro j
  simp [List.getElem?_append, List.getElem?_take, List.getElem?_set]
  grind

theorem take_mid (a xs rest : List Nat) (k : Nat) (h : a.length + xs.length = k) :
    (a ++ xs ++ rest).take k = a ++ xs := List.take_left' (by simp [h])

theorem freshMem_length (e : Env) (k n : Nat) : (freshMem e k n).length = n := by simp [freshMem]

/-! ### growth arithmetic (the loop of Impl/Buffer.lean) -/

theorem growLoop_some' {M minCap : Nat} : ∀ fuel c r, growLoop M minCap fuel c = some r →
    minCap ≤ r ∧ r ≤ M ∧ 2 * c ≤ r := by
  intro fuel
  induction fuel with
  | zero => intro c r h; simp [growLoop] at h
  | succ n ih =>
    intro c r h
    simp only [growLoop] at h
    split at h
    · simp at h
    · split at h
      · have := ih _ _ h; omega
      · simp at h; omega

theorem bufGrow_some {M cap minCap r : Nat} (h : bufGrow M cap minCap = some r) :
    minCap ≤ r ∧ r ≤ M ∧ cap < r := by
  have := growLoop_some' _ _ _ h
  split at this <;> omega

/-- the exact value: the first `c·2^k`, k ≥ 1, that reaches `minCap`, every earlier one passing the guard -/
theorem growLoop_some_least {M minCap : Nat} : ∀ fuel c r, growLoop M minCap fuel c = some r →
    ∃ k, 1 ≤ k ∧ r = c * 2 ^ k ∧ minCap ≤ r ∧ (∀ j, 1 ≤ j → j < k → c * 2 ^ j < minCap) ∧
      c * 2 ^ (k - 1) ≤ M / 2 := by
  intro fuel
  induction fuel with
  | zero => intro c r h; simp [growLoop] at h
  | succ n ih =>
    intro c r h
    simp only [growLoop] at h
    split at h
    · simp at h
    · rename_i hg
      split at h
      · rename_i hlt
        obtain ⟨k, hk1, hr, hmin, hj, hguard⟩ := ih _ _ h
        refine ⟨k + 1, by omega, ?_, hmin, ?_, ?_⟩
        · rw [hr, Nat.pow_succ]; simp [Nat.mul_assoc, Nat.mul_comm]
        · intro j hj1 hjk
          by_cases hj' : j = 1
          · subst hj'; simpa using hlt
          · have := hj (j - 1) (by omega) (by omega)
            have e : c * 2 ^ j = c * 2 * 2 ^ (j - 1) := by
              have : j = (j - 1) + 1 := by omega
              rw [this, Nat.pow_succ]; simp [Nat.mul_assoc, Nat.mul_comm]
            omega
        · have e : c * 2 ^ (k + 1 - 1) = c * 2 * 2 ^ (k - 1) := by
            have : k + 1 - 1 = (k - 1) + 1 := by omega
            rw [this, Nat.pow_succ]; simp [Nat.mul_assoc, Nat.mul_comm]
          omega
      · simp at h
        refine ⟨1, by omega, by simp; omega, by omega, by intro j h1 h2; omega, by simp; omega⟩

/-- `length_error` exactly when a candidate `c·2^k` that has not reached `minCap` fails the guard
    (the fuel of the model is never the reason) -/
theorem growLoop_none_least {M minCap : Nat} : ∀ fuel c, 0 < c → M + 2 ≤ fuel + c →
    growLoop M minCap fuel c = none →
    ∃ k, (∀ j, 1 ≤ j → j ≤ k → c * 2 ^ j < minCap) ∧ M / 2 < c * 2 ^ k := by
  intro fuel
  induction fuel with
  | zero => intro c hc hf _; exact ⟨0, by intro j h1 h2; omega, by simp; omega⟩
  | succ n ih =>
    intro c hc hf h
    simp only [growLoop] at h
    split at h
    · exact ⟨0, by intro j h1 h2; omega, by simpa using ‹c > M / 2›⟩
    · split at h
      · rename_i hlt
        obtain ⟨k, hj, hg⟩ := ih (c * 2) (by omega) (by omega) h
        refine ⟨k + 1, ?_, ?_⟩
        · intro j hj1 hjk
          by_cases hj' : j = 1
          · subst hj'; simpa using hlt
          · have := hj (j - 1) (by omega) (by omega)
            have e : c * 2 ^ j = c * 2 * 2 ^ (j - 1) := by
              have : j = (j - 1) + 1 := by omega
              rw [this, Nat.pow_succ]; simp [Nat.mul_assoc, Nat.mul_comm]
            omega
        · rw [Nat.pow_succ]
          have : c * (2 ^ k * 2) = c * 2 * 2 ^ k := by simp [Nat.mul_assoc, Nat.mul_comm]
          omega
      · simp at h

/-- conversely: when the guard stops the loop at `c·2^k` the result is `none` -/
theorem growLoop_guard_none {M minCap : Nat} : ∀ fuel c k, (∀ j, 1 ≤ j → j ≤ k → c * 2 ^ j < minCap) →
    M / 2 < c * 2 ^ k → growLoop M minCap fuel c = none := by
  intro fuel
  induction fuel with
  | zero => intro c k _ _; simp [growLoop]
  | succ n ih =>
    intro c k hj hg
    simp only [growLoop]
    split
    · rfl
    · rename_i hng
      have hk : k ≠ 0 := by intro h0; subst h0; simp at hg; omega
      have h1 := hj 1 (by omega) (by omega)
      simp at h1
      rw [if_pos h1]
      apply ih (c * 2) (k - 1)
      · intro j hj1 hjk
        have := hj (j + 1) (by omega) (by omega)
        rw [Nat.pow_succ] at this
        have e : c * (2 ^ j * 2) = c * 2 * 2 ^ j := by simp [Nat.mul_assoc, Nat.mul_comm]
        omega
      · have e : c * 2 ^ k = c * 2 * 2 ^ (k - 1) := by
          have : k = (k - 1) + 1 := by omega
          rw [this, Nat.pow_succ]; simp [Nat.mul_assoc, Nat.mul_comm]
        omega

/-! ### one lemma per member function -/

theorem Good.mono {s : State} {Q Q' : State → Prop} {o : Outcome} (h : Good s Q o)
    (hq : ∀ s', Inv s' → s'.fixedCap = s.fixedCap → s'.maxSize = s.maxSize → s.capacity ≤ s'.capacity →
      Q s' → Q' s') : Good s Q' o := by
  cases o with
  | ok s' => exact ⟨h.1, h.2.1, h.2.2.1, h.2.2.2.1, hq _ h.1 h.2.1 h.2.2.1 h.2.2.2.1 h.2.2.2.2⟩
  | oob => exact h
  | lengthError s' => exact h
  | badAlloc s' => exact h

theorem abs_length {s : State} (h : Inv s) : (abs s).length = s.size := by
  simp [abs, List.length_take]; have := h.size_le; have := h.cap_len; omega

theorem init_inv (e : Env) (F M : Nat) (h : F ≤ M) : Inv (init e F M) := by
  constructor <;> simp [init, freshMem_length, h]

theorem init_abs (e : Env) (F M : Nat) : abs (init e F M) = [] := by simp [abs, init]

theorem allocate_none {e : Env} {s s' : State} {n : Nat} (h : allocate e s n = (none, s')) :
    s' = { s with nalloc := s'.nalloc } := by
  unfold allocate at h
  split at h
  · simp at h; subst h; rfl
  · split at h
    · simp at h; subst h; rfl
    · simp at h

theorem allocate_some {e : Env} {s s' : State} {n : Nat} {nm : List Nat} (h : allocate e s n = (some nm, s')) :
    nm.length = n ∧ s' = { s with nalloc := s.nalloc + 1 } ∧ n ≤ s.maxSize ∧ e.allocFails s.nalloc = false := by
  unfold allocate at h
  split at h
  · simp at h
  · split at h
    · simp at h
    · simp at h
      obtain ⟨h1, h2⟩ := h
      subst h1 h2
      refine ⟨freshMem_length _ _ _, rfl, by omega, by simp_all⟩

theorem growCapacity_good (e : Env) (s : State) (n : Nat) (hi : Inv s) (hn : s.capacity < n) :
    Good s (fun s' => s'.mem.take s.size = s.mem.take s.size ∧ s'.size = s.size ∧ s'.capacity = n ∧
      s'.nalloc = s.nalloc + 1 ∧ e.allocFails s.nalloc = false)
      (growCapacity e s n) := by
  unfold growCapacity
  have h1 := hi.size_le; have h2 := hi.cap_len; have h3 := hi.fixed_le
  split
  · rename_i s' heq
    exact allocate_none heq
  · rename_i nm s' heq
    obtain ⟨hlen, hs', hmax, hfail⟩ := allocate_some heq
    subst hs'
    rw [copyCells_eq _ _ _ _ _ (by omega) (by omega)]
    refine ⟨?_, rfl, rfl, ?_, ?_, rfl, rfl, rfl, hfail⟩
    · constructor <;> simp <;> omega
    · show s.capacity ≤ n; omega
    · show List.take s.size (List.take 0 nm ++ List.take s.size (List.drop 0 s.mem) ++ List.drop (0 + s.size) nm) = _
      rw [take_mid _ _ _ _ (by simp; omega)]; simp

theorem reserve_good (e : Env) (s : State) (n : Nat) (hi : Inv s) :
    Good s (fun s' => s'.mem.take s.size = s.mem.take s.size ∧ s'.size = s.size ∧ n ≤ s'.capacity)
      (reserve e s n) := by
  unfold reserve
  split
  · rename_i h
    exact (growCapacity_good e s n hi h).mono (by intro s' _ _ _ _ hq; exact ⟨hq.1, hq.2.1, by omega⟩)
  · simp [Good, hi]; omega

theorem grow_good (e : Env) (s : State) (n : Nat) (hi : Inv s) :
    Good s (fun s' => s'.mem.take s.size = s.mem.take s.size ∧ s'.size = s.size ∧ n ≤ s'.capacity ∧
        s.capacity < s'.capacity)
      (grow e s n) := by
  unfold grow
  split
  · simp [Good]
  · rename_i r hr
    have := bufGrow_some hr
    unfold reserve
    rw [if_pos (by omega)]
    exact (growCapacity_good e s r hi (by omega)).mono
      (by intro s' _ _ _ _ hq; exact ⟨hq.1, hq.2.1, by omega, by omega⟩)

theorem append_good (e : Env) (s : State) (xs : List Nat) (hi : Inv s) :
    Good s (fun s' => abs s' = abs s ++ xs ∧ s'.size = s.size + xs.length) (append e s xs) := by
  unfold append bufAddSizes
  split
  · simp [Good]
  · rename_i ns hns
    split at hns
    · simp at hns
      subst hns
      have key : ∀ s1 : State, Inv s1 → s1.fixedCap = s.fixedCap → s1.maxSize = s.maxSize →
          s.capacity ≤ s1.capacity → s1.mem.take s.size = s.mem.take s.size → s1.size = s.size →
          s.size + xs.length ≤ s1.capacity →
          Good s (fun s' => abs s' = abs s ++ xs ∧ s'.size = s.size + xs.length)
            (match copyCells s1.mem s1.size xs 0 xs.length with
              | none => Outcome.oob
              | some m => Outcome.ok { s1 with mem := m, size := s.size + xs.length }) := by
        intro s1 i1 hf hm hc ht hsz hcap
        have l1 := i1.cap_len
        rw [copyCells_all _ _ _ (by omega)]
        refine ⟨?_, hf, hm, hc, ?_, rfl⟩
        · constructor <;> simp
          · omega
          · have := i1.size_le; omega
          · exact i1.inline
          · exact i1.fixed_le
          · exact i1.cap_max
        · show List.take (s.size + xs.length) (List.take s1.size s1.mem ++ xs ++ _) = List.take s.size s.mem ++ xs
          rw [hsz, take_mid _ _ _ _ (by simp; omega), ht]
      split
      · have hg := grow_good e s (s.size + xs.length) hi
        cases hgo : grow e s (s.size + xs.length) with
        | ok s1 =>
          rw [hgo] at hg
          simp only [Outcome.bind]
          obtain ⟨i1, hf, hm, hc, ht, hsz, hcap, _⟩ := hg
          exact key s1 i1 hf hm hc ht hsz hcap
        | oob => rw [hgo] at hg; exact hg.elim
        | lengthError s1 => rw [hgo] at hg; simpa [Outcome.bind, Good] using hg
        | badAlloc s1 => rw [hgo] at hg; simpa [Outcome.bind, Good] using hg
      · simp only [Outcome.bind]
        exact key s hi rfl rfl (Nat.le_refl _) rfl rfl (by omega)
    · simp at hns

theorem pushBack_good (e : Env) (s : State) (v : Nat) (hi : Inv s) :
    Good s (fun s' => abs s' = abs s ++ [v] ∧ s'.size = s.size + 1) (pushBack e s v) := by
  have key : ∀ s1 : State, Inv s1 → s1.fixedCap = s.fixedCap → s1.maxSize = s.maxSize →
      s.capacity ≤ s1.capacity → s1.mem.take s.size = s.mem.take s.size → s1.size = s.size →
      s.size < s1.capacity →
      Good s (fun s' => abs s' = abs s ++ [v] ∧ s'.size = s.size + 1)
        (match writeAt s1.mem s1.size v with
          | none => Outcome.oob
          | some m => Outcome.ok { s1 with mem := m, size := s1.size + 1 }) := by
    intro s1 i1 hf hm hc ht hsz hcap
    have l1 := i1.cap_len
    rw [writeAt_eq _ _ _ (by omega)]
    refine ⟨?_, hf, hm, hc, ?_, by simp [hsz]⟩
    · constructor <;> simp
      · omega
      · omega
      · exact i1.inline
      · exact i1.fixed_le
      · exact i1.cap_max
    · show List.take (s1.size + 1) (List.take s1.size s1.mem ++ [v] ++ _) = List.take s.size s.mem ++ [v]
      rw [hsz, take_mid _ _ _ _ (by simp; omega), ht]
  unfold pushBack
  split
  · exact key s hi rfl rfl (Nat.le_refl _) rfl rfl (by omega)
  · unfold bufAddSizes
    split
    · simp [Good]
    · rename_i ns hns
      split at hns
      · simp at hns
        subst hns
        have hg := grow_good e s (s.size + 1) hi
        cases hgo : grow e s (s.size + 1) with
        | ok s1 =>
          rw [hgo] at hg
          simp only [Outcome.bind]
          obtain ⟨i1, hf, hm, hc, ht, hsz, hcap, _⟩ := hg
          exact key s1 i1 hf hm hc ht hsz (by omega)
        | oob => rw [hgo] at hg; exact hg.elim
        | lengthError s1 => rw [hgo] at hg; simpa [Outcome.bind, Good] using hg
        | badAlloc s1 => rw [hgo] at hg; simpa [Outcome.bind, Good] using hg
      · simp at hns

theorem resize_good (e : Env) (s : State) (n : Nat) (hi : Inv s) :
    Good s (fun s' => s'.size = n ∧ (abs s').length = n ∧ (abs s').take s.size = (abs s).take n)
      (resize e s n) := by
  unfold resize
  have hg := reserve_good e s n hi
  cases hgo : reserve e s n with
  | ok s1 =>
    rw [hgo] at hg
    simp only [Outcome.bind]
    obtain ⟨i1, hf, hm, hc, ht, hsz, hcap⟩ := hg
    have l1 := i1.cap_len
    refine ⟨?_, hf, hm, hc, rfl, ?_, ?_⟩
    · constructor <;> simp
      · omega
      · omega
      · exact i1.inline
      · exact i1.fixed_le
      · exact i1.cap_max
    · simp [abs, List.length_take]; omega
    · show List.take s.size (List.take n s1.mem) = List.take n (List.take s.size s.mem)
      rw [← ht, List.take_take, List.take_take, Nat.min_comm]
  | oob => rw [hgo] at hg; exact hg.elim
  | lengthError s1 => rw [hgo] at hg; simpa [Outcome.bind, Good] using hg
  | badAlloc s1 => rw [hgo] at hg; simpa [Outcome.bind, Good] using hg

theorem clear_good (s : State) (hi : Inv s) :
    Good s (fun s' => abs s' = [] ∧ s'.size = 0) (.ok (clear s)) := by
  refine ⟨?_, rfl, rfl, Nat.le_refl _, by simp [abs, clear], rfl⟩
  constructor <;> simp [clear]
  · exact hi.cap_len
  · exact hi.inline
  · exact hi.fixed_le
  · exact hi.cap_max

theorem popBack_good (s : State) (hi : Inv s) (h : 0 < s.size) :
    Good s (fun s' => abs s' = (abs s).dropLast ∧ s'.size = s.size - 1) (.ok (popBack s)) := by
  have h1 := hi.size_le; have h2 := hi.cap_len
  have hne : s.size ≠ 0 := by omega
  refine ⟨?_, rfl, rfl, Nat.le_refl _, ?_, by simp [popBack, hne]⟩
  · constructor <;> simp [popBack, hne]
    · omega
    · exact hi.cap_len
    · exact hi.inline
    · exact hi.fixed_le
    · exact hi.cap_max
  · simp only [abs, popBack, hne, if_false]
    rw [List.dropLast_eq_take, List.take_take, List.length_take]
    congr 1; omega

/-- without the precondition: `size_` wraps to 2^64-1 and the invariant is gone -/
theorem popBack_empty (s : State) (h : s.size = 0) : (popBack s).size = 18446744073709551615 := by
  simp [popBack, h]

theorem step_good (e : Env) (s : State) (op : Op) (hi : Inv s) (hp : op = .popBack → 0 < s.size) :
    Good s (fun s' => Refines (abs s) op (abs s') ∧ s'.size = sizeAfter s.size op) (step e s op) := by
  cases op with
  | pushBack v => exact pushBack_good e s v hi
  | append xs => exact append_good e s xs hi
  | clear => exact clear_good s hi
  | popBack => exact popBack_good s hi (hp rfl)
  | reserve n =>
    refine (reserve_good e s n hi).mono ?_
    intro s' i' _ _ _ hq
    refine ⟨?_, hq.2.1⟩
    show abs s' = abs s
    simp only [abs]; rw [hq.2.1, hq.1]
  | resize n =>
    refine (resize_good e s n hi).mono ?_
    intro s' i' _ _ _ hq
    obtain ⟨h1, h2, h3⟩ := hq
    refine ⟨?_, h1⟩
    have hl := abs_length hi
    show if n ≤ (abs s).length then abs s' = (abs s).take n else (abs s').length = n ∧ (abs s').take (abs s).length = abs s
    rw [hl]
    split
    · rw [← h3, List.take_of_length_le (by omega)]
    · refine ⟨h2, ?_⟩
      rw [h3, List.take_of_length_le (by omega)]

theorem stepG_good (e : Env) (s : State) (op : Op) (hi : Inv s) :
    Good s (fun s' => Refines (abs s) op (abs s') ∧ s'.size = sizeAfter s.size op) (stepG e s op) := by
  unfold stepG
  split
  · rename_i h
    obtain ⟨h1, h2⟩ := h
    subst h1
    refine ⟨hi, rfl, rfl, Nat.le_refl _, ?_, by simp [sizeAfter, h2]⟩
    show abs s = (abs s).dropLast
    simp [abs, h2]
  · rename_i h
    apply step_good e s op hi
    intro hop
    have : ¬ s.size = 0 := fun h0 => h ⟨hop, h0⟩
    omega

theorem Inv_nalloc {s : State} (hi : Inv s) (k : Nat) : Inv { s with nalloc := k } :=
  ⟨hi.size_le, hi.cap_len, hi.inline, hi.fixed_le, hi.cap_max⟩

theorem abs_nalloc (s : State) (k : Nat) : abs { s with nalloc := k } = abs s := rfl

/-- a history that returns -/
theorem run_ok (e : Env) : ∀ (ops : List Op) (s s' : State), Inv s → run e s ops = .ok s' →
    Inv s' ∧ s'.fixedCap = s.fixedCap ∧ s'.maxSize = s.maxSize ∧ s.capacity ≤ s'.capacity ∧
      RefinesAll (abs s) ops (abs s') ∧ s'.size = ops.foldl sizeAfter s.size := by
  intro ops
  induction ops with
  | nil => intro s s' hi h; simp [run] at h; subst h; exact ⟨hi, rfl, rfl, Nat.le_refl _, rfl, rfl⟩
  | cons op ops ih =>
    intro s s' hi h
    have hg := stepG_good e s op hi
    simp only [run] at h
    cases hs : stepG e s op with
    | ok s1 =>
      rw [hs] at hg h
      simp only [Outcome.bind] at h
      obtain ⟨i1, hf, hm, hc, hr, hsz⟩ := hg
      obtain ⟨i', hf', hm', hc', hr', hsz'⟩ := ih s1 s' i1 h
      refine ⟨i', by omega, by omega, by omega, ⟨abs s1, hr, hr'⟩, ?_⟩
      simp only [List.foldl_cons]; rw [← hsz]; exact hsz'
    | oob => rw [hs] at h; simp [Outcome.bind] at h
    | lengthError s1 => rw [hs] at h; simp [Outcome.bind] at h
    | badAlloc s1 => rw [hs] at h; simp [Outcome.bind] at h

/-- no history ends in a memory error -/
theorem run_not_oob (e : Env) : ∀ (ops : List Op) (s : State), Inv s → run e s ops ≠ .oob := by
  intro ops
  induction ops with
  | nil => intro s _ h; simp [run] at h
  | cons op ops ih =>
    intro s hi h
    have hg := stepG_good e s op hi
    simp only [run] at h
    cases hs : stepG e s op with
    | ok s1 => rw [hs] at hg h; exact ih s1 hg.1 h
    | oob => rw [hs] at hg; exact hg
    | lengthError s1 => rw [hs] at h; simp [Outcome.bind] at h
    | badAlloc s1 => rw [hs] at h; simp [Outcome.bind] at h

/-- a history that ends with an exception: the operations before the throwing one completed, and the object
    is as they left it -/
theorem run_throw (e : Env) : ∀ (ops : List Op) (s s' : State), Inv s →
    (run e s ops = .badAlloc s' ∨ run e s ops = .lengthError s') →
    ∃ done op rest s'', ops = done ++ op :: rest ∧ run e s done = .ok s'' ∧
      (stepG e s'' op = .badAlloc s' ∨ stepG e s'' op = .lengthError s') ∧
      s' = { s'' with nalloc := s'.nalloc } := by
  intro ops
  induction ops with
  | nil => intro s s' _ h; simp [run] at h
  | cons op ops ih =>
    intro s s' hi h
    have hg := stepG_good e s op hi
    simp only [run] at h
    cases hs : stepG e s op with
    | ok s1 =>
      rw [hs] at hg h
      simp only [Outcome.bind] at h
      obtain ⟨done, op', rest, s'', h1, h2, h3, h4⟩ := ih s1 s' hg.1 h
      refine ⟨op :: done, op', rest, s'', by simp [h1], ?_, h3, h4⟩
      simp [run, hs, Outcome.bind, h2]
    | oob => rw [hs] at hg; exact hg.elim
    | lengthError s1 =>
      rw [hs] at hg h
      simp [Outcome.bind] at h
      subst h
      refine ⟨[], op, ops, s, rfl, rfl, Or.inr hs, ?_⟩
      rw [show s1 = s from hg]
    | badAlloc s1 =>
      rw [hs] at hg h
      simp [Outcome.bind] at h
      subst h
      exact ⟨[], op, ops, s, rfl, rfl, Or.inl hs, hg⟩

/-- exceptions caught, the history goes on: the object holds what the COMPLETED operations make of it -/
theorem runCatch_good (e : Env) : ∀ (ops : List Op) (s : State), Inv s →
    ∃ s' done, runCatch e s ops = some (s', done) ∧ Inv s' ∧ s'.fixedCap = s.fixedCap ∧
      s'.maxSize = s.maxSize ∧ done.Sublist ops ∧ RefinesAll (abs s) done (abs s') := by
  intro ops
  induction ops with
  | nil => intro s hi; exact ⟨s, [], rfl, hi, rfl, rfl, List.Sublist.slnil, rfl⟩
  | cons op ops ih =>
    intro s hi
    have hg := stepG_good e s op hi
    simp only [runCatch]
    cases hs : stepG e s op with
    | ok s1 =>
      rw [hs] at hg
      obtain ⟨i1, hf, hm, hc, hr, hsz⟩ := hg
      obtain ⟨s', done, h1, h2, h3, h4, h5, h6⟩ := ih s1 i1
      refine ⟨s', op :: done, by simp [h1], h2, by omega, by omega, h5.cons_cons op, ⟨abs s1, hr, h6⟩⟩
    | oob => rw [hs] at hg; exact hg.elim
    | lengthError s1 =>
      rw [hs] at hg
      have : s1 = s := hg
      subst this
      obtain ⟨s', done, h1, h2, h3, h4, h5, h6⟩ := ih s1 hi
      exact ⟨s', done, h1, h2, h3, h4, h5.cons op, h6⟩
    | badAlloc s1 =>
      rw [hs] at hg
      have hs1 : s1 = { s with nalloc := s1.nalloc } := hg
      have i1 : Inv s1 := by rw [hs1]; exact Inv_nalloc hi _
      obtain ⟨s', done, h1, h2, h3, h4, h5, h6⟩ := ih s1 i1
      have ha : abs s1 = abs s := by rw [hs1]; rfl
      have hf1 : s1.fixedCap = s.fixedCap := by rw [hs1]
      have hm1 : s1.maxSize = s.maxSize := by rw [hs1]
      refine ⟨s', done, h1, h2, by omega, by omega, h5.cons op, ?_⟩
      rw [← ha]; exact h6

/-! ### the list semantics is a function when no `resize` exposes cells -/

theorem Refines_length {l l' : List Nat} {op : Op} (h : Refines l op l') : l'.length = sizeAfter l.length op := by
  cases op with
  | pushBack v => simp [Refines] at h; simp [h, sizeAfter]
  | append xs => simp [Refines] at h; simp [h, sizeAfter]
  | clear => simp [Refines] at h; simp [h, sizeAfter]
  | popBack => simp [Refines] at h; simp [h, sizeAfter]
  | reserve n => simp [Refines] at h; simp [h, sizeAfter]
  | resize n =>
    simp only [Refines] at h
    split at h
    · simp [h, sizeAfter]; omega
    · simp [h.1, sizeAfter]

theorem RefinesAll_length : ∀ (ops : List Op) (l l' : List Nat), RefinesAll l ops l' →
    l'.length = ops.foldl sizeAfter l.length := by
  intro ops
  induction ops with
  | nil => intro l l' h; simp [RefinesAll] at h; simp [h]
  | cons op ops ih =>
    intro l l' h
    obtain ⟨m, h1, h2⟩ := h
    rw [List.foldl_cons, ← Refines_length h1]
    exact ih m l' h2

theorem RefinesAll_spec : ∀ (ops : List Op) (l l' : List Nat), RefinesAll l ops l' → NoExpose l.length ops →
    l' = specRun l ops := by
  intro ops
  induction ops with
  | nil => intro l l' h _; simpa [RefinesAll, specRun] using h
  | cons op ops ih =>
    intro l l' h hn
    obtain ⟨m, h1, h2⟩ := h
    obtain ⟨hn1, hn2⟩ := hn
    have hm : m = specStep l op := by
      cases op with
      | pushBack v => simpa [Refines, specStep] using h1
      | append xs => simpa [Refines, specStep] using h1
      | clear => simpa [Refines, specStep] using h1
      | popBack => simpa [Refines, specStep] using h1
      | reserve n => simpa [Refines, specStep] using h1
      | resize n =>
        have := hn1 n rfl
        simp only [Refines, this, if_true] at h1
        simpa [specStep] using h1
    rw [← Refines_length h1] at hn2
    have := ih m l' h2 hn2
    rw [this, hm]; rfl

/-! ### `grow`: the exact capacity -/

theorem pow_mono_mul (c : Nat) {i j : Nat} (h : i ≤ j) : c * 2 ^ i ≤ c * 2 ^ j :=
  Nat.mul_le_mul_left c (Nat.pow_le_pow_right (by omega) h)

theorem growsTo_guardStops_absurd {M c0 minCap k k' : Nat} (h : GrowsTo M c0 minCap k)
    (h' : GuardStops M c0 minCap k') : False := by
  obtain ⟨h1, h2, h3, h4⟩ := h
  obtain ⟨g1, g2⟩ := h'
  by_cases hk : k ≤ k'
  · have := g1 k h1 hk; omega
  · have := pow_mono_mul c0 (show k' ≤ k - 1 by omega); omega

theorem growsTo_unique {M c0 minCap k k' : Nat} (h : GrowsTo M c0 minCap k) (h' : GrowsTo M c0 minCap k') :
    k = k' := by
  obtain ⟨h1, h2, h3, h4⟩ := h
  obtain ⟨g1, g2, g3, g4⟩ := h'
  by_cases hlt : k < k'
  · have := g3 k h1 hlt; omega
  · by_cases hgt : k' < k
    · have := h3 k' g1 hgt; omega
    · omega

theorem bufGrow_exact (M cap minCap : Nat) :
    (∀ r, bufGrow M cap minCap = some r ↔
      ∃ k, GrowsTo M (if cap = 0 then 16 else cap) minCap k ∧ r = (if cap = 0 then 16 else cap) * 2 ^ k) ∧
    (bufGrow M cap minCap = none ↔ ∃ k, GuardStops M (if cap = 0 then 16 else cap) minCap k) := by
  have hc0 : 0 < (if cap = 0 then 16 else cap) := by split <;> omega
  have fwd_some : ∀ r, bufGrow M cap minCap = some r →
      ∃ k, GrowsTo M (if cap = 0 then 16 else cap) minCap k ∧ r = (if cap = 0 then 16 else cap) * 2 ^ k := by
    intro r h
    obtain ⟨k, h1, h2, h3, h4, h5⟩ := growLoop_some_least _ _ _ h
    exact ⟨k, ⟨h1, by omega, h4, h5⟩, h2⟩
  have fwd_none : bufGrow M cap minCap = none → ∃ k, GuardStops M (if cap = 0 then 16 else cap) minCap k := by
    intro h
    obtain ⟨k, h1, h2⟩ := growLoop_none_least _ _ hc0 (by omega) h
    exact ⟨k, h1, h2⟩
  refine ⟨fun r => ⟨fwd_some r, ?_⟩, ⟨fwd_none, ?_⟩⟩
  · rintro ⟨k, hk, hr⟩
    cases h : bufGrow M cap minCap with
    | none => obtain ⟨k', hk'⟩ := fwd_none h; exact (growsTo_guardStops_absurd hk hk').elim
    | some r' =>
      obtain ⟨k', hk', hr'⟩ := fwd_some r' h
      have := growsTo_unique hk hk'
      subst this; rw [hr, hr']
  · rintro ⟨k, h1, h2⟩
    exact growLoop_guard_none _ _ k h1 h2

/-- `grow(min_cap)` of the class: the capacity it ends with -/
theorem grow_capacity (e : Env) (s s' : State) (n : Nat) (hi : Inv s) (h : grow e s n = .ok s') :
    bufGrow s.maxSize s.capacity n = some s'.capacity := by
  unfold grow at h
  split at h
  · simp at h
  · rename_i r hr
    have hb := bufGrow_some hr
    unfold reserve at h
    rw [if_pos (by omega)] at h
    have hg := growCapacity_good e s r hi (by omega)
    rw [h] at hg
    rw [hr, hg.2.2.2.2.2.2.1]

/-! ### the harness operation `r<n>` -/

theorem resizeZero_good (e : Env) (s : State) (n : Nat) (hi : Inv s) :
    Good s (fun s' => s'.size = n ∧ abs s' = (abs s).take n ++ List.replicate (n - s.size) 0)
      (resizeZero e s n) := by
  unfold resizeZero
  have hg := resize_good e s n hi
  have hl := abs_length hi
  have hsl := hi.size_le
  cases hgo : resize e s n with
  | ok s1 =>
    rw [hgo] at hg
    simp only [Outcome.bind]
    obtain ⟨i1, hf, hm, hc, hsz, hlen, ht⟩ := hg
    have l1 := i1.cap_len
    have l2 := i1.size_le
    have := copyCells_all s1.mem s.size (List.replicate (n - s.size) 0) (by simp; omega)
    simp only [List.length_replicate] at this
    rw [this]
    refine ⟨?_, hf, hm, hc, hsz, ?_⟩
    · constructor <;> simp
      · exact i1.size_le
      · omega
      · exact i1.inline
      · exact i1.fixed_le
      · exact i1.cap_max
    · show List.take s1.size (List.take s.size s1.mem ++ List.replicate (n - s.size) 0 ++ _) = _
      by_cases hn : s.size ≤ n
      · rw [hsz, take_mid _ _ _ _ (by simp; omega)]
        congr 1
        have : List.take s.size s1.mem = (abs s1).take s.size := by
          simp only [abs]; rw [List.take_take, hsz]; congr 1; omega
        rw [this, ht]
      · have hz : n - s.size = 0 := by omega
        rw [hz]
        simp only [List.replicate_zero, List.append_nil, Nat.add_zero, List.take_append_drop]
        have : List.take s1.size s1.mem = abs s1 := rfl
        rw [this, ← ht, List.take_of_length_le (by omega)]
  | oob => rw [hgo] at hg; exact hg.elim
  | lengthError s1 => rw [hgo] at hg; simpa [Outcome.bind, Good] using hg
  | badAlloc s1 => rw [hgo] at hg; simpa [Outcome.bind, Good] using hg

/-! ### the constructor with an initial capacity -/

theorem construct_good (e : Env) (F M c : Nat) (h : F ≤ M) :
    Good (init e F M) (fun s' => abs s' = [] ∧ s'.size = 0 ∧ s'.capacity = max F c) (construct e F M c) := by
  unfold construct
  simp only
  split
  · rename_i hc
    split
    · rename_i s' heq
      exact allocate_none heq
    · rename_i nm s' heq
      obtain ⟨hlen, hs', hmax, hfail⟩ := allocate_some heq
      subst hs'
      have hmx : max F c = c := by omega
      refine ⟨?_, rfl, rfl, ?_, by simp [abs, init], rfl, by simp [hmx]⟩
      · constructor <;> simp [init, hlen] <;> (try simp [init] at hmax) <;> omega
      · show F ≤ c; omega
  · rename_i hc
    have hmx : max F c = F := by omega
    exact ⟨init_inv e F M h, rfl, rfl, Nat.le_refl _, init_abs e F M, rfl, by simp [init, hmx]⟩

/-! ### arithmetic of util.h -/

theorem addSizesW_eq (M n1 n2 : Nat) (hM : M < 18446744073709551616) (h1 : n1 ≤ M)
    (h2 : n2 < 18446744073709551616) : addSizesW M n1 n2 = bufAddSizes M n1 n2 := by
  unfold addSizesW bufAddSizes
  have e1 : (M + 18446744073709551616 - n1) % 18446744073709551616 = M - n1 := by omega
  rw [e1]
  split
  · have : (n1 + n2) % 18446744073709551616 = n1 + n2 := by omega
    rw [this]
  · rfl

theorem utilAddSizesW_eq (n1 n2 M : Nat) (hM : M < 18446744073709551616) (h1 : n1 ≤ M)
    (h2 : n2 < 18446744073709551616) :
    utilAddSizesW n1 n2 M = if n1 + n2 ≤ M then some (n1 + n2) else none := by
  unfold utilAddSizesW
  have e1 : (M + 18446744073709551616 - n1) % 18446744073709551616 = M - n1 := by omega
  rw [e1]
  split
  · rw [if_neg (by omega)]
  · rw [if_pos (by omega)]
    have : (n1 + n2) % 18446744073709551616 = n1 + n2 := by omega
    rw [this]

theorem checkedDiff_size_ptrdiff (a b : Int) (ha : 0 ≤ a ∧ a < 2^64) (hb : 0 ≤ b ∧ b < 2^64) :
    checkedDiff 64 true 64 a b =
      if -(2^63) ≤ a - b ∧ a - b ≤ 2^63 - 1 then some (a - b) else none := by
  simp only [checkedDiff, toU, limMax, limMin, if_true]
  simp only [Int.reducePow, Nat.reduceSub] at *
  split <;> split <;> split <;> simp <;> omega

theorem checkedDiff_int_int (a b : Int) (ha : -(2^31) ≤ a ∧ a < 2^31) (hb : -(2^31) ≤ b ∧ b < 2^31) :
    checkedDiff 32 true 32 a b =
      if -(2^31) ≤ a - b ∧ a - b ≤ 2^31 - 1 then some (a - b) else none := by
  simp only [checkedDiff, toU, limMax, limMin, if_true]
  simp only [Int.reducePow, Nat.reduceSub] at *
  split <;> split <;> split <;> simp <;> omega

theorem checkedDiff_int_unsigned (a b : Int) (ha : -(2^31) ≤ a ∧ a < 2^31) (hb : -(2^31) ≤ b ∧ b < 2^31) :
    checkedDiff 32 false 32 a b =
      if 0 ≤ a - b ∧ a - b ≤ 2^32 - 1 then some (a - b) else none := by
  simp only [checkedDiff, toU, limMax, limMin, Bool.false_eq_true, if_false]
  simp only [Int.reducePow] at *
  split <;> split <;> (try split) <;> simp <;> omega

end Upa.Impl.SB
