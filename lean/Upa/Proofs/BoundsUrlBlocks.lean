import Upa.Proofs.BoundsUrl
/-
  Helper lemmas for C04d, part 2: every `if (state == X)` block of url_parse keeps the invariant
  `UInv` (`first ≤ pointer ≤ last`; `pointer < last` on entry to scheme_state; `base != nullptr` on entry to
  the blocks that dereference it), runs without `.oob` / `.badptr` / `.hang` / `.abort`, and so does the
  chain `urlParseB`.
-/
namespace Upa.Impl.B
open UP

def UInv (first last : Nat) (base : Option BaseInfo) (m : M) : Prop :=
  first ≤ m.pointer ∧ m.pointer ≤ last ∧ (m.state = .scheme → m.pointer < last) ∧
  (m.state.needsBase = true → base.isSome = true)

def UPost (first last : Nat) (base : Option BaseInfo) (r : M ⊕ Bool) : Prop :=
  match r with
  | .inl m' => UInv first last base m'
  | .inr _ => True

/-- close `(pure r).sat (UPost …)` -/
macro "upfin" : tactic =>
  `(tactic| (upsimp; exact R.sat_pure (by simp [UPost, UInv, St.needsBase, *] <;> omega)))

theorem bSchemeStart_blk (a : Array Nat) (first last : Nat) (ov : Option Override) (base : Option BaseInfo)
    (hl : last ≤ a.size) (m : M) (hI : UInv first last base m) :
    (bSchemeStart a first last ov m).sat (UPost first last base) := by
  obtain ⟨st, p, sp, fl⟩ := m
  obtain ⟨h1, h2, h3, h4⟩ := hI
  simp only [] at h1 h2 h3 h4
  unfold bSchemeStart
  refine R.sat_bind (P := fun b => b = true → p < last) ?_ ?_
  · simp only []
    split
    · upsimp; exact R.sat_pure (by intro _; omega)
    · exact R.sat_pure (by simp)
  · intro b hb
    split
    · have := hb (by assumption); upfin
    · split
      · upfin
      · upfin

theorem bScheme_blk (a : Array Nat) (first last : Nat) (ov : Option Override) (base : Option BaseInfo) (ui : UrlInfo)
    (fuel : Nat) (hl : last ≤ a.size) (hf : last - first < fuel) (m : M) (hI : UInv first last base m)
    (hs : m.state = .scheme) :
    (bScheme a first last ov base ui fuel m).sat (UPost first last base) := by
  obtain ⟨st, p, sp, fl⟩ := m
  obtain ⟨h1, h2, h3, h4⟩ := hI
  simp only [] at h1 h2 h3 h4 hs
  have h3 := h3 hs
  unfold bScheme
  simp only []
  upsimp
  refine R.sat_bind (findIf_sat a first last _ hl _ (p + 1) (by omega) (by omega)) ?_
  intro eos heos
  refine R.sat_bind (P := fun b => b = true → ov.isSome = false → eos < last) ?_ ?_
  · split
    · upsimp; exact R.sat_pure (by intro _ _; omega)
    · exact R.sat_pure (by intro hh hn; rw [hn] at hh; cases hh)
  · intro isScheme hsch
    split
    · refine R.sat_bind (iter_sat _ (fun s => p ≤ s.1 ∧ s.1 ≤ eos) (fun s => eos - s.1) (fun _ => True)
        ?_ _ _ ?_ ?_) ?_
      · intro ⟨it, acc⟩ hI
        simp only [] at hI ⊢
        split
        · exact R.sat_pure trivial
        · upsimp; uppure
      · simp only []; omega
      · simp only []; omega
      · intro scheme _
        split
        · split
          · upfin
          · split
            · upfin
            · split
              · upfin
              · upfin
        · rename_i hov
          have hlt : eos < last := hsch (by assumption) (by simpa using hov)
          upsimp
          split
          · upfin
          · split
            · cases base with
              | none => simp only []; upfin
              | some b =>
                simp only []
                split
                · upfin
                · upfin
            · refine R.sat_bind (peekIsB_sat a first last (eos + 1) 0x2F (by omega) hl) ?_
              intro sl hsl
              split
              · have := hsl (by assumption); upfin
              · upfin
    · split
      · upfin
      · upfin

theorem bNoScheme_blk (a : Array Nat) (first last : Nat) (base : Option BaseInfo)
    (hl : last ≤ a.size) (m : M) (hI : UInv first last base m) :
    (bNoScheme a first last base m).sat (UPost first last base) := by
  obtain ⟨st, p, sp, fl⟩ := m
  obtain ⟨h1, h2, h3, h4⟩ := hI
  simp only [] at h1 h2 h3 h4
  unfold bNoScheme
  cases base with
  | none => simp only []; upfin
  | some b =>
    simp only []
    split
    · refine R.sat_bind (peekIsB_sat a first last p 0x23 h1 hl) ?_
      intro h hh
      split
      · have := hh (by assumption); upfin
      · upfin
    · split
      · upfin
      · upfin

theorem bSpecialRelativeOrAuthority_blk (a : Array Nat) (first last : Nat) (base : Option BaseInfo)
    (hl : last ≤ a.size) (m : M) (hI : UInv first last base m) (hs : m.state = .specialRelativeOrAuthority) :
    (bSpecialRelativeOrAuthority a first last m).sat (UPost first last base) := by
  obtain ⟨st, p, sp, fl⟩ := m
  obtain ⟨h1, h2, h3, h4⟩ := hI
  simp only [] at h1 h2 h3 h4 hs
  have hb : base.isSome = true := h4 (by rw [hs]; rfl)
  unfold bSpecialRelativeOrAuthority
  refine R.sat_bind (twoSlashesB_sat a first last p h1 hl) ?_
  intro t ht
  split
  · have := ht (by assumption); upfin
  · upfin

theorem bPathOrAuthority_blk (a : Array Nat) (first last : Nat) (base : Option BaseInfo)
    (hl : last ≤ a.size) (m : M) (hI : UInv first last base m) :
    (bPathOrAuthority a first last m).sat (UPost first last base) := by
  obtain ⟨st, p, sp, fl⟩ := m
  obtain ⟨h1, h2, h3, h4⟩ := hI
  simp only [] at h1 h2 h3 h4
  unfold bPathOrAuthority
  refine R.sat_bind (peekIsB_sat a first last p 0x2F h1 hl) ?_
  intro t ht
  split
  · have := ht (by assumption); upfin
  · upfin

theorem bRelative_blk (a : Array Nat) (first last : Nat) (base : Option BaseInfo)
    (hl : last ≤ a.size) (m : M) (hI : UInv first last base m) (hs : m.state = .relative) :
    (bRelative a first last base m).sat (UPost first last base) := by
  obtain ⟨st, p, sp, fl⟩ := m
  obtain ⟨h1, h2, h3, h4⟩ := hI
  simp only [] at h1 h2 h3 h4 hs
  have hb : base.isSome = true := h4 (by rw [hs]; rfl)
  unfold bRelative
  cases base with
  | none => cases hb
  | some b =>
    simp only []
    split
    · upfin
    · upsimp
      split
      · upfin
      · split
        · upfin
        · split
          · upfin
          · split
            · upfin
            · have : p + 1 - 1 = p := by omega
              upsimp; upfin

theorem bRelativeSlash_blk (a : Array Nat) (first last : Nat) (base : Option BaseInfo)
    (hl : last ≤ a.size) (m : M) (hI : UInv first last base m) (hs : m.state = .relativeSlash) :
    (bRelativeSlash a first last base m).sat (UPost first last base) := by
  obtain ⟨st, p, sp, fl⟩ := m
  obtain ⟨h1, h2, h3, h4⟩ := hI
  simp only [] at h1 h2 h3 h4 hs
  have hb : base.isSome = true := h4 (by rw [hs]; rfl)
  unfold bRelativeSlash
  refine R.sat_bind (peekOr0B_sat a first last p h1 h2 hl) ?_
  intro c hc
  simp only []
  split
  · have := hc (by omega)
    upsimp
    split
    · upfin
    · upfin
  · split
    · have := hc (by omega); upfin
    · cases base with
      | none => cases hb
      | some b => simp only []; upfin

theorem bSpecialAuthoritySlashes_blk (a : Array Nat) (first last : Nat) (base : Option BaseInfo)
    (hl : last ≤ a.size) (m : M) (hI : UInv first last base m) :
    (bSpecialAuthoritySlashes a first last m).sat (UPost first last base) := by
  obtain ⟨st, p, sp, fl⟩ := m
  obtain ⟨h1, h2, h3, h4⟩ := hI
  simp only [] at h1 h2 h3 h4
  unfold bSpecialAuthoritySlashes
  refine R.sat_bind (twoSlashesB_sat a first last p h1 hl) ?_
  intro t ht
  split
  · have := ht (by assumption); upfin
  · upfin

theorem bSpecialAuthorityIgnoreSlashes_blk (a : Array Nat) (first last : Nat) (base : Option BaseInfo) (fuel : Nat)
    (hl : last ≤ a.size) (hf : last - first < fuel) (m : M) (hI : UInv first last base m) :
    (bSpecialAuthorityIgnoreSlashes a first last fuel m).sat (UPost first last base) := by
  obtain ⟨st, p, sp, fl⟩ := m
  obtain ⟨h1, h2, h3, h4⟩ := hI
  simp only [] at h1 h2 h3 h4
  unfold bSpecialAuthorityIgnoreSlashes
  refine R.sat_bind (iter_sat _ (fun it => first ≤ it ∧ it ≤ last) (fun it => last - it)
    (fun it => first ≤ it ∧ it ≤ last) ?_ _ _ ?_ ?_) ?_
  · intro it hI
    try simp only [] at hI
    split
    · upsimp
      split
      · upsimp; uppure
      · exact R.sat_pure hI
    · exact R.sat_pure hI
  · simp only []; omega
  · simp only []; omega
  · intro it hit
    upfin

theorem endOfAuthorityB_sat (a : Array Nat) (first last pointer : Nat) (special : Bool) (h1 : first ≤ pointer)
    (h2 : pointer ≤ last) (hl : last ≤ a.size) :
    (endOfAuthorityB a first last pointer special).sat (fun q => pointer ≤ q ∧ q ≤ last) := by
  unfold endOfAuthorityB
  upsimp
  exact R.sat_mono (findIf_sat a first last _ hl _ pointer h1 (by omega)) (by intro v hv; omega)

theorem bAuthority_blk (e : Enc) (a : Array Nat) (first last : Nat) (base : Option BaseInfo) (ui : UrlInfo)
    (hl : last ≤ a.size) (m : M) (hI : UInv first last base m) :
    (bAuthority e a first last ui m).sat (UPost first last base) := by
  obtain ⟨st, p, sp, fl⟩ := m
  obtain ⟨h1, h2, h3, h4⟩ := hI
  simp only [] at h1 h2 h3 h4
  unfold bAuthority
  refine R.sat_bind (endOfAuthorityB_sat a first last p sp h1 h2 hl) ?_
  intro eoa heoa
  simp only []
  upsimp
  refine R.sat_bind (findLastB_sat a p eoa 0x40 heoa.1 (by omega)) ?_
  intro itEta hEta
  split
  · split
    · upfin
    · split
      · upsimp
        refine R.sat_bind (P := fun q => p ≤ q ∧ q ≤ itEta) ?_ ?_
        · refine R.sat_bind (findCh_sat a first last 0x3A hl _ p h1 (by omega)) ?_
          intro r hr
          cases r with
          | none => exact R.sat_pure (by omega)
          | some q => have := hr q rfl; exact R.sat_pure (by omega)
        · intro itColon hcol
          split
          · upsimp
            refine R.sat_bind (appendUtf8PctB_sat e a p itColon hcol.1 (by omega)) ?_
            intro _ _
            split
            · rename_i hpw
              have hpw' : itEta - itColon > 1 := by simpa using hpw
              upsimp
              refine R.sat_bind (appendUtf8PctB_sat e a (itColon + 1) itEta (by omega) (by omega)) ?_
              intro _ _
              upfin
            · upfin
          · upfin
      · upfin
  · upfin

end Upa.Impl.B
