import Upa.Proofs.BoundsMisc
/-
  Helper lemmas for C04e, part 2: the instrumented models of `Upa/Impl/BoundsMisc.lean` compute what
  the list models of `Upa/Impl/*.lean` compute on `slice a first last`.
-/
namespace Upa.Impl.B

theorem R.sat_eq {α : Type} {r : R α} {v : α} (h : r.sat (fun x => x = v)) : r = .ok v := by
  obtain ⟨w, hw, he⟩ := h
  rw [hw, he]

theorem slice_snoc (a : Array Nat) (first last : Nat) (h : first < last) (hl : last ≤ a.size) :
    slice a first last = slice a first (last - 1) ++ [a[last - 1]!] := by
  induction hn : last - first generalizing first with
  | zero => omega
  | succ n ih =>
    by_cases h1 : first + 1 = last
    · subst h1
      rw [slice_cons a first (first + 1) (by omega) hl, slice_nil a (first + 1) (first + 1) (by omega)]
      simp only [Nat.add_sub_cancel]
      rw [slice_nil a first first (by omega)]
      rfl
    · rw [slice_cons a first last h hl, ih (first + 1) (by omega) (by omega),
        slice_cons a first (last - 1) (by omega) (by omega)]
      rfl

theorem slice_append (a : Array Nat) (first mid last : Nat) (h1 : first ≤ mid) (h2 : mid ≤ last) (hl : last ≤ a.size) :
    slice a first mid ++ slice a mid last = slice a first last := by
  induction hn : mid - first generalizing first with
  | zero =>
    have : first = mid := by omega
    subst this
    rw [slice_nil a first first (by omega)]; rfl
  | succ n ih =>
    rw [slice_cons a first mid (by omega) (by omega), slice_cons a first last (by omega) hl,
      List.cons_append, ih (first + 1) (by omega) (by omega)]

/-! ### url_search_params::urlencode -/

theorem shr4_eq (c : Nat) : c >>> 4 = c / 16 := by rw [Nat.shiftRight_eq_div_pow]

theorem and_f_eq (c : Nat) : c &&& 0xF = c % 16 := by
  have : (0xF : Nat) = 2 ^ 4 - 1 := by decide
  rw [this, Nat.and_two_pow_sub_one_eq_mod]

theorem urlencodeM_agrees (a : Array Nat) (first last : Nat) (h : first ≤ last) (hl : last ≤ a.size)
    (hb : ∀ i, first ≤ i → i < last → a[i]! < 256) :
    urlencodeM a first last = .ok (Impl.urlencode (slice a first last)) := by
  apply R.sat_eq
  unfold urlencodeM
  refine iter_sat _ (fun s => first ≤ s.1 ∧ s.1 ≤ last ∧
      s.2 ++ Impl.urlencode (slice a s.1 last) = Impl.urlencode (slice a first last)) (fun s => last - s.1) _ ?_ _ _ ?_ ?_
  · intro ⟨it, out⟩ ⟨h1, h2, h3⟩
    simp only at h1 h2 h3 ⊢
    split
    · rename_i he
      subst he
      refine R.sat_pure ?_
      rw [slice_nil a it it (by omega)] at h3
      simpa [Impl.urlencode] using h3
    have hm : a[it]! % 256 = a[it]! := Nat.mod_eq_of_lt (hb it h1 (by omega))
    simp only [rd_ok h1 (by omega : it < last) hl, R.ok_bind, hm, idx_ok (hb it h1 (by omega))]
    rw [slice_cons a it last (by omega) hl] at h3
    simp only [Impl.urlencode, List.flatMap_cons] at h3
    split
    · rename_i hc
      simp only [idx_ok (shr4_lt _ (hb it h1 (by omega))), idx_ok (and_f_lt _), R.ok_bind]
      psimp
      refine R.sat_pure ?_
      simp only []
      refine ⟨⟨by omega, by omega, ?_⟩, by omega⟩
      simp only [Impl.urlencode]
      rw [← h3, if_pos hc, hc, shr4_eq, and_f_eq]
      simp [pctByte]
    · rename_i hc
      psimp
      refine R.sat_pure ?_
      simp only []
      refine ⟨⟨by omega, by omega, ?_⟩, by omega⟩
      simp only [Impl.urlencode]
      rw [← h3, if_neg hc]
      simp
  · exact ⟨Nat.le_refl _, h, rfl⟩
  · simp only []; omega

/-! ### port_from_str -/

theorem portFromStrM_agrees (a : Array Nat) (first last : Nat) (h : first ≤ last) (hl : last ≤ a.size) :
    portFromStrM a first last = .ok (decimalValue (slice a first last)) := by
  apply R.sat_eq
  unfold portFromStrM
  refine iter_sat _ (fun s => first ≤ s.1 ∧ s.1 ≤ last ∧
      (slice a s.1 last).foldl (fun acc c => acc * 10 + (c - 0x30)) s.2 = decimalValue (slice a first last))
    (fun s => last - s.1) _ ?_ _ _ ?_ ?_
  · intro ⟨it, port⟩ ⟨h1, h2, h3⟩
    simp only at h1 h2 h3 ⊢
    split
    · rename_i he
      have he' : it = last := by omega
      subst he'
      refine R.sat_pure ?_
      rw [slice_nil a it it (by omega)] at h3
      simpa using h3
    · simp only [rd_ok h1 (by omega : it < last) hl, R.ok_bind]
      psimp
      rw [slice_cons a it last (by omega) hl, List.foldl_cons] at h3
      exact R.sat_pure ⟨⟨by simp only []; omega, by simp only []; omega, h3⟩, by simp only []; omega⟩
  · exact ⟨Nat.le_refl _, h, rfl⟩
  · simp only []; omega

/-! ### do_remove_whitespace -/

theorem removeWhitespaceM_agrees (a : Array Nat) (first last : Nat) (h : first ≤ last) (hl : last ≤ a.size) :
    (removeWhitespaceM a first last).sat (fun r => r.getD (slice a first last) = Impl.removeWs (slice a first last)) := by
  unfold removeWhitespaceM
  refine iter_sat _ (fun it => first ≤ it ∧ it ≤ last ∧ Impl.removeWs (slice a first it) = slice a first it)
    (fun it => last - it) _ ?_ _ _ ?_ ?_
  · intro it ⟨h1, h2, h3⟩
    split
    · have : it = last := by omega
      subst this
      exact R.sat_pure (by simp only [Option.getD_none]; exact h3.symm)
    simp only [rd_ok h1 (by omega : it < last) hl, R.ok_bind]
    split
    · rename_i hnr
      psimp
      refine R.sat_pure ⟨⟨by omega, by omega, ?_⟩, by omega⟩
      rw [slice_snoc a first (it + 1) (by omega) (by omega)]
      simp only [Nat.add_sub_cancel, Impl.removeWs, List.filter_append] at h3 ⊢
      rw [h3]
      simp [hnr]
    · simp only [sub_ok (Nat.le_refl first) h1 h2, R.ok_bind]
      refine R.sat_bind (iter_sat _ (fun s => it ≤ s.1 ∧ s.1 ≤ last ∧ s.2 = Impl.removeWs (slice a first s.1))
        (fun s => last - s.1) (fun b => b = Impl.removeWs (slice a first last)) ?_ _ _ ?_ ?_) ?_
      · intro ⟨it2, buff⟩ ⟨g1, g2, g3⟩
        simp only at g1 g2 g3 ⊢
        split
        · have : it2 = last := by omega
          subst this
          exact R.sat_pure g3
        · simp only [rd_ok (by omega : first ≤ it2) (by omega : it2 < last) hl, R.ok_bind]
          psimp
          refine R.sat_pure ?_
          simp only []
          refine ⟨⟨by omega, by omega, ?_⟩, by omega⟩
          rw [slice_snoc a first (it2 + 1) (by omega) (by omega)]
          simp only [Nat.add_sub_cancel, Impl.removeWs, List.filter_append] at g3 ⊢
          rw [g3]
          by_cases hr : Impl.isRemovable a[it2]! = true <;> simp [hr]
      · exact ⟨Nat.le_refl _, h2, h3.symm⟩
      · simp only []; omega
      intro b hbv
      exact R.sat_pure (by simp only [Option.getD_some]; exact hbv)
  · refine ⟨Nat.le_refl _, h, ?_⟩
    rw [slice_nil a first first (by omega)]; rfl
  · omega

/-! ### do_trim -/

theorem trimM_agrees (a : Array Nat) (first last : Nat) (h : first ≤ last) (hl : last ≤ a.size) :
    (trimM a first last).sat (fun r => first ≤ r.1 ∧ r.1 ≤ r.2 ∧ r.2 ≤ last ∧
      slice a r.1 r.2 = Impl.doTrim (slice a first last)) := by
  unfold trimM
  refine R.sat_bind (iter_sat _
    (fun p => first ≤ p ∧ p ≤ last ∧
      (slice a first last).dropWhile Impl.isTrimChar = (slice a p last).dropWhile Impl.isTrimChar)
    (fun p => last - p)
    (fun p => first ≤ p ∧ p ≤ last ∧ (slice a first last).dropWhile Impl.isTrimChar = slice a p last) ?_ _ _ ?_ ?_) ?_
  · intro p ⟨h1, h2, h3⟩
    split
    · simp only [rd_ok h1 (by omega : p < last) hl, R.ok_bind]
      rw [slice_cons a p last (by omega) hl] at h3
      split
      · rename_i ht
        psimp
        rw [List.dropWhile_cons_of_pos ht] at h3
        exact R.sat_pure ⟨⟨by omega, by omega, h3⟩, by omega⟩
      · rename_i ht
        rw [List.dropWhile_cons_of_neg ht, ← slice_cons a p last (by omega) hl] at h3
        exact R.sat_pure ⟨h1, h2, h3⟩
    · have : p = last := by omega
      subst this
      rw [slice_nil a p p (by omega)] at h3
      refine R.sat_pure ⟨h1, h2, ?_⟩
      rw [slice_nil a p p (by omega)]
      exact h3
  · exact ⟨Nat.le_refl _, h, rfl⟩
  · omega
  intro f ⟨f1, f2, f3⟩
  refine R.sat_bind (iter_sat _
    (fun q => f ≤ q ∧ q ≤ last ∧
      (slice a f last).reverse.dropWhile Impl.isTrimChar = (slice a f q).reverse.dropWhile Impl.isTrimChar)
    (fun q => q - f)
    (fun q => f ≤ q ∧ q ≤ last ∧ (slice a f last).reverse.dropWhile Impl.isTrimChar = (slice a f q).reverse)
    ?_ _ _ ?_ ?_) ?_
  · intro q ⟨g1, g2, g3⟩
    split
    · simp only [rdPrev_ok (by omega : first < q) g2 hl, R.ok_bind]
      rw [slice_snoc a f q (by omega) (by omega), List.reverse_append, List.reverse_singleton,
        List.singleton_append] at g3
      split
      · rename_i ht
        psimp
        rw [List.dropWhile_cons_of_pos ht] at g3
        exact R.sat_pure ⟨⟨by omega, by omega, g3⟩, by omega⟩
      · rename_i ht
        rw [List.dropWhile_cons_of_neg ht] at g3
        refine R.sat_pure ⟨g1, g2, ?_⟩
        rw [g3, slice_snoc a f q (by omega) (by omega), List.reverse_append, List.reverse_singleton,
          List.singleton_append]
    · have : q = f := by omega
      subst this
      rw [slice_nil a q q (by omega)] at g3
      refine R.sat_pure ⟨g1, g2, ?_⟩
      rw [slice_nil a q q (by omega)]
      exact g3
  · exact ⟨f2, Nat.le_refl _, rfl⟩
  · omega
  intro l ⟨l1, l2, l3⟩
  refine R.sat_pure ⟨f1, l1, l2, ?_⟩
  simp only [Impl.doTrim]
  rw [f3, l3, List.reverse_reverse]

/-! ### parse_host: the decision taken before the IDNA path -/

theorem findIfM_spec (a : Array Nat) (first last : Nat) (pred : Nat → R Bool) (f : Nat → Bool)
    (hp : ∀ c, pred c = .ok (f c)) (hl : last ≤ a.size) :
    ∀ n p, first ≤ p → p + n ≤ last →
      (findIfM a first last pred n p).sat (fun q => p ≤ q ∧ q ≤ p + n ∧ (∀ i, p ≤ i → i < q → f a[i]! = false) ∧
        (q < p + n → f a[q]! = true)) := by
  intro n
  induction n with
  | zero => intro p _ _; exact R.sat_pure ⟨by omega, by omega, by intro i h1 h2; omega, by intro h; omega⟩
  | succ n ih =>
    intro p h1 h2
    simp only [findIfM, rd_ok h1 (by omega : p < last) hl, R.ok_bind, hp]
    split
    · rename_i hc
      exact R.sat_pure ⟨by omega, by omega, by intro i h1 h2; omega, by intro _; exact hc⟩
    · rename_i hc
      refine R.sat_mono (ih (p + 1) (by omega) (by omega)) ?_
      intro q ⟨q1, q2, q3, q4⟩
      refine ⟨by omega, by omega, ?_, by intro hq; exact q4 (by omega)⟩
      intro i hi1 hi2
      by_cases hip : i = p
      · subst hip; simpa using hc
      · exact q3 i (by omega) hi2

theorem dropWhile_slice (g : Nat → Bool) (a : Array Nat) (last : Nat) (hl : last ≤ a.size) :
    ∀ k p, p + k ≤ last → (∀ i, p ≤ i → i < p + k → g a[i]! = true) → (p + k < last → g a[p + k]! = false) →
      (slice a p last).dropWhile g = slice a (p + k) last := by
  intro k
  induction k with
  | zero =>
    intro p h1 _ h3
    by_cases hp : p < last
    · rw [Nat.add_zero, slice_cons a p last hp hl, List.dropWhile_cons_of_neg]
      have := h3 hp
      simpa using this
    · rw [Nat.add_zero, slice_nil a p last (by omega)]; rfl
  | succ k ih =>
    intro p h1 h2 h3
    rw [slice_cons a p last (by omega) hl, List.dropWhile_cons_of_pos (h2 p (Nat.le_refl _) (by omega))]
    have e : p + (k + 1) = p + 1 + k := by omega
    rw [e] at h3 ⊢
    exact ih (p + 1) (by omega) (by intro i hi1 hi2; exact h2 i (by omega) (by omega)) h3

/-- the `let fast` of `Impl.parseHost`, verbatim -/
def hostFastL (s : List Nat) : Option (Option Host) :=
  match s.dropWhile Spec.asciiDomainChar with
  | [] =>
    if !Impl.hasXnLabel s then
      some (if Impl.endsInNumber s then Impl.hostParseIpv4 s
            else some { kind := .domain, text := s.map toLower })
    else none
  | p :: rest =>
    if p < 0x80 ∧ p ≠ 0x25 then
      if ¬ (p ≥ 0x3C ∧ p ≤ 0x3E ∧ (match rest with | n :: _ => decide (n ≥ 0x80) || n == 0x25 | [] => false) = true)
      then some none else none
    else none

/-- `Impl.parseHost` is: brackets, opaque, else `hostFastL`, else the IDNA path -/
theorem parseHost_eq_fast (idna : Idna) (c0 : Nat) (t : List Nat) (hc : c0 ≠ 0x5B) :
    Impl.parseHost idna (c0 :: t) false =
      match hostFastL (c0 :: t) with
      | some r => r
      | none =>
        match idna (Impl.encodeUtf16 (Impl.decode .u8 (Impl.percentDecode (c0 :: t)))) with
        | none => none
        | some ascii =>
          if ascii.any Spec.forbiddenDomain then none
          else if Impl.endsInNumber ascii then Impl.hostParseIpv4 ascii
          else some { kind := .domain, text := ascii } := by
  simp only [Impl.parseHost, hc, if_false, Bool.false_eq_true]
  rfl

theorem asciiDomain_lt (c : Nat) (h : Spec.asciiDomainChar c = true) : c ≤ 0xFF := by
  simp only [Spec.asciiDomainChar, Bool.and_eq_true, decide_eq_true_eq] at h
  omega

/-- the value of the pre-check on the list `c :: rest` -/
def hostBadL (c : Nat) (rest : List Nat) : Bool :=
  decide (c < 0x80 ∧ c ≠ 0x25) &&
    !(decide (c ≥ 0x3C ∧ c ≤ 0x3E) && (match rest with | n :: _ => decide (n ≥ 0x80) || n == 0x25 | [] => false))

theorem hostForbiddenCheckM_agrees (a : Array Nat) (first last ptr : Nat) (h1 : first ≤ ptr) (h2 : ptr < last)
    (hl : last ≤ a.size) :
    hostForbiddenCheckM a first last ptr = .ok (hostBadL a[ptr]! (slice a (ptr + 1) last)) := by
  unfold hostForbiddenCheckM hostBadL
  simp only [rd_ok h1 h2 hl, R.ok_bind]
  by_cases c1 : a[ptr]! < 0x80 ∧ a[ptr]! ≠ 0x25
  · rw [if_pos c1]
    by_cases c2 : a[ptr]! ≥ 0x3C ∧ a[ptr]! ≤ 0x3E
    · rw [if_pos c2]
      psimp
      simp only [Nat.add_zero]
      by_cases c3 : ptr + 1 < last
      · rw [if_pos c3, slice_cons a (ptr + 1) last c3 hl]
        simp only [rd_ok (by omega : first ≤ ptr + 1) c3 hl, R.ok_bind]
        simp [c1, c2, R.pure_eq]
      · rw [if_neg c3, slice_nil a (ptr + 1) last (by omega)]
        simp [c1, c2, R.pure_eq]
    · rw [if_neg c2]
      simp [c1, c2, R.pure_eq]
  · rw [if_neg c1]
    simp [c1, R.pure_eq]

theorem hostFast_tail (c : Nat) (rest : List Nat) :
    (if c < 0x80 ∧ c ≠ 0x25 then
      if ¬ (c ≥ 0x3C ∧ c ≤ 0x3E ∧ (match rest with | n :: _ => decide (n ≥ 0x80) || n == 0x25 | [] => false) = true)
      then some none else none
    else none : Option (Option Host)) = if hostBadL c rest = true then some none else none := by
  unfold hostBadL
  cases rest with
  | nil =>
    by_cases c1 : c < 0x80 ∧ c ≠ 0x25 <;> by_cases c2 : c ≥ 0x3C ∧ c ≤ 0x3E <;> simp [c1, c2]
  | cons n t =>
    by_cases c1 : c < 0x80 ∧ c ≠ 0x25 <;> by_cases c2 : c ≥ 0x3C ∧ c ≤ 0x3E <;>
      by_cases c3 : (decide (n ≥ 0x80) || n == 0x25) = true <;> simp [c1, c2, c3]

theorem hostFastPathM_agrees (a : Array Nat) (first last : Nat) (h : first ≤ last) (hl : last ≤ a.size) :
    (hostFastPathM a first last).sat (fun r =>
      slice a r.1 last = (slice a first last).dropWhile Spec.asciiDomainChar ∧
      (r.2 = none ↔ hostFastL (slice a first last) = none) ∧
      (r.1 ≠ last → r.2 = hostFastL (slice a first last))) := by
  unfold hostFastPathM
  have hpred : ∀ c, (do let b ← charInSetM Spec.asciiDomainChar c; pure (!b) : R Bool) =
      .ok (!Spec.asciiDomainChar c) := by
    intro c
    obtain ⟨v, hv, he⟩ := charInSetM_sat Spec.asciiDomainChar c
    rw [hv, he]
    by_cases hc : c ≤ 0xFF
    · simp [hc, R.pure_eq]
    · have : Spec.asciiDomainChar c = false := by
        cases hh : Spec.asciiDomainChar c
        · rfl
        · exact absurd (asciiDomain_lt c hh) hc
      simp [hc, this, R.pure_eq]
  refine R.sat_bind (findIfM_spec a first last _ (fun c => !Spec.asciiDomainChar c) hpred hl (last - first) first
    (Nat.le_refl _) (by omega)) ?_
  intro ptr ⟨p1, p2, p3, p4⟩
  have hdw : (slice a first last).dropWhile Spec.asciiDomainChar = slice a ptr last := by
    have := dropWhile_slice Spec.asciiDomainChar a last hl (ptr - first) first (by omega)
      (by intro i hi1 hi2; have := p3 i hi1 (by omega); simpa using this)
      (by intro hlt; have := p4 (by omega); have e : first + (ptr - first) = ptr := by omega
          rw [e]; simpa using this)
    have e : first + (ptr - first) = ptr := by omega
    rw [e] at this
    exact this
  split
  · rename_i hpl
    subst hpl
    have hnil : (slice a first ptr).dropWhile Spec.asciiDomainChar = [] := by
      rw [hdw, slice_nil a ptr ptr (by omega)]
    rw [hasXnLabel_agrees a first ptr h hl]
    simp only [R.ok_bind]
    split
    · rename_i hxn
      refine R.sat_bind (endsInNumber_sat a first ptr h hl) ?_
      intro num _
      split
      · refine R.sat_bind (parseIpv4M_sat a first ptr h hl) ?_
        intro r _
        refine R.sat_pure ⟨hdw.symm, ?_, by intro hh; exact absurd rfl hh⟩
        simp only [hostFastL, hnil, hxn]
        simp
      · simp only [sub_ok (Nat.le_refl first) h (Nat.le_refl ptr), R.ok_bind]
        refine R.sat_pure ⟨hdw.symm, ?_, by intro hh; exact absurd rfl hh⟩
        simp only [hostFastL, hnil, hxn]
        simp
    · rename_i hxn
      refine R.sat_pure ⟨hdw.symm, ?_, by intro hh; exact absurd rfl hh⟩
      simp only [hostFastL, hnil, hxn]
      simp
  · rename_i hpl
    have hlt : ptr < last := by omega
    rw [hostForbiddenCheckM_agrees a first last ptr p1 hlt hl]
    simp only [R.ok_bind]
    have hcons : (slice a first last).dropWhile Spec.asciiDomainChar = a[ptr]! :: slice a (ptr + 1) last := by
      rw [hdw, slice_cons a ptr last hlt hl]
    have key : hostFastL (slice a first last) =
        (if hostBadL a[ptr]! (slice a (ptr + 1) last) = true then some none else none) := by
      simp only [hostFastL, hcons]
      exact hostFast_tail _ _
    rw [key]
    cases hB : hostBadL a[ptr]! (slice a (ptr + 1) last)
    · simp only [Bool.false_eq_true, if_false]
      exact R.sat_pure ⟨hdw.symm, by simp, by intro _; rfl⟩
    · simp only [if_true]
      exact R.sat_pure ⟨hdw.symm, by simp, by intro _; rfl⟩

/-! ### util::unsigned_to_str -/

/-- what the divider loop of the list model returns: the number of base-`base` digits of `num0 * base` -/
theorem digitCountLoop_spec (base num0 : Nat) (hb : 2 ≤ base) :
    ∀ fuel divider count, 1 ≤ divider → num0 + 1 - divider ≤ fuel →
      count ≤ Impl.digitCountLoop base num0 fuel divider count ∧
      num0 < divider * base ^ (Impl.digitCountLoop base num0 fuel divider count - count) ∧
      (Impl.digitCountLoop base num0 fuel divider count = count ∨
        divider * base ^ (Impl.digitCountLoop base num0 fuel divider count - count - 1) ≤ num0) := by
  intro fuel
  induction fuel with
  | zero =>
    intro divider count h1 h2
    simp only [Impl.digitCountLoop, Nat.sub_self, Nat.pow_zero, Nat.mul_one]
    exact ⟨Nat.le_refl _, by omega, by simp⟩
  | succ fuel ih =>
    intro divider count h1 h2
    simp only [Impl.digitCountLoop]
    split
    · rename_i hle
      have hgt : divider * 2 ≤ divider * base := Nat.mul_le_mul_left _ hb
      obtain ⟨i1, i2, i3⟩ := ih (divider * base) (count + 1) (by omega) (by omega)
      generalize Impl.digitCountLoop base num0 fuel (divider * base) (count + 1) = r at i1 i2 i3
      refine ⟨by omega, ?_, Or.inr ?_⟩
      · have e : r - count = (r - (count + 1)) + 1 := by omega
        rw [e, Nat.pow_succ, Nat.mul_comm (base ^ _) base, ← Nat.mul_assoc]
        exact i2
      · rcases i3 with i3 | i3
        · have e : r - count - 1 = 0 := by omega
          rw [e, Nat.pow_zero, Nat.mul_one]; exact hle
        · have e : r - count - 1 = (r - (count + 1) - 1) + 1 := by
            have : r ≠ count + 1 := by
              intro hh
              rw [hh] at i3 i2
              simp only [Nat.sub_self, Nat.pow_zero, Nat.mul_one, Nat.zero_sub] at i3 i2
              omega
            omega
          rw [e, Nat.pow_succ, Nat.mul_comm (base ^ _) base, ← Nat.mul_assoc]
          exact i3
    · rename_i hgt
      simp only [Nat.sub_self, Nat.pow_zero, Nat.mul_one]
      exact ⟨Nat.le_refl _, by omega, by simp⟩

/-- the cells `i .. j` of a resized string -/
def cells (g : Nat → Nat) (i j : Nat) : List Nat := (List.range (j - i)).map (fun t => g (i + t))

theorem cells_cons (g : Nat → Nat) (i j : Nat) (h : i < j) : cells g i j = g i :: cells g (i + 1) j := by
  unfold cells
  have e : j - i = (j - (i + 1)) + 1 := by omega
  rw [e, List.range_succ_eq_map, List.map_cons, List.map_map]
  simp only [Nat.add_zero, List.cons.injEq, true_and]
  apply List.map_congr_left
  intro t _
  simp only [Function.comp]
  congr 1
  omega

theorem cells_congr (g g' : Nat → Nat) (i j : Nat) (h : ∀ t, i ≤ t → t < j → g t = g' t) : cells g i j = cells g' i j := by
  unfold cells
  apply List.map_congr_left
  intro t ht
  have := List.mem_range.mp ht
  exact h (i + t) (by omega) (by omega)

theorem pow_unique (base x k r : Nat) (hb : 2 ≤ base) (hk : 1 ≤ k) (hr : 1 ≤ r)
    (k1 : x < base ^ (k - 1)) (k2 : k = 1 ∨ base ^ (k - 2) ≤ x)
    (r1 : x < base ^ (r - 1)) (r2 : r = 1 ∨ base ^ (r - 2) ≤ x) : k = r := by
  apply Classical.byContradiction
  intro hne
  rcases Nat.lt_or_gt_of_ne hne with hlt | hgt
  · rcases r2 with r2 | r2
    · omega
    · have : base ^ (k - 1) ≤ base ^ (r - 2) := Nat.pow_le_pow_right (by omega) (by omega)
      omega
  · rcases k2 with k2 | k2
    · omega
    · have : base ^ (r - 1) ≤ base ^ (k - 2) := Nat.pow_le_pow_right (by omega) (by omega)
      omega

theorem unsignedToStrM_agrees (num base outLen : Nat) (hn : num < 2 ^ 32) (hb2 : 2 ≤ base) (hb16 : base ≤ 16) :
    unsignedToStrM num base outLen = .ok (Impl.unsignedToStr base hexDigitLower num) := by
  apply R.sat_eq
  unfold unsignedToStrM
  simp only []
  -- the divider loop: count = outLen + number of digits
  refine R.sat_bind (iter_sat _
    (fun s => 1 ≤ s.1 ∧ outLen + 1 ≤ s.2 ∧ s.1 = base ^ (s.2 - (outLen + 1)) ∧
      (s.2 = outLen + 1 ∨ base ^ (s.2 - (outLen + 1) - 1) ≤ num / base))
    (fun s => num / base + 1 - s.1)
    (fun c => outLen + 1 ≤ c ∧ num / base < base ^ (c - (outLen + 1)) ∧
      (c = outLen + 1 ∨ base ^ (c - (outLen + 1) - 1) ≤ num / base)) ?_ _ _ ?_ ?_) ?_
  · intro ⟨divider, count⟩ ⟨h1, h2, h3, h4⟩
    simp only at h1 h2 h3 h4 ⊢
    split
    · rename_i hle
      have hmul : divider * base ≤ num := (Nat.le_div_iff_mul_le (by omega)).mp hle
      have hmod : divider * base % 2 ^ 32 = divider * base := Nat.mod_eq_of_lt (by omega)
      have hgt : divider * 2 ≤ divider * base := Nat.mul_le_mul_left _ hb2
      refine R.sat_pure ?_
      simp only [hmod]
      refine ⟨⟨by omega, by omega, ?_, Or.inr ?_⟩, by omega⟩
      · have e : count + 1 - (outLen + 1) = (count - (outLen + 1)) + 1 := by omega
        rw [e, Nat.pow_succ, ← h3]
      · have e : count + 1 - (outLen + 1) - 1 = count - (outLen + 1) := by omega
        rw [e, ← h3]; exact hle
    · rename_i hgt
      refine R.sat_pure ⟨h2, ?_, h4⟩
      rw [← h3]; omega
  · simp only []
    exact ⟨Nat.le_refl _, Nat.le_refl _, by simp, by simp⟩
  · have := Nat.div_le_self num base
    simp only []; omega
  intro c1 ⟨hc1, hc2, hc3⟩
  -- c1 - outLen is the count of the list model
  have hcount : c1 - outLen = Impl.digitCountLoop base (num / base) (num + 1) 1 1 := by
    obtain ⟨s1, s2, s3⟩ := digitCountLoop_spec base (num / base) hb2 (num + 1) 1 1 (Nat.le_refl _)
      (by have := Nat.div_le_self num base; omega)
    generalize Impl.digitCountLoop base (num / base) (num + 1) 1 1 = r at s1 s2 s3
    rw [Nat.one_mul] at s2 s3
    refine pow_unique base (num / base) (c1 - outLen) r hb2 (by omega) s1 ?_ ?_ s2 ?_
    · have e : c1 - outLen - 1 = c1 - (outLen + 1) := by omega
      rw [e]; exact hc2
    · rcases hc3 with hc3 | hc3
      · left; omega
      · right
        have e : c1 - outLen - 2 = c1 - (outLen + 1) - 1 := by omega
        rw [e]; exact hc3
    · rcases s3 with s3 | s3
      · left; exact s3
      · right
        have e : r - 2 = r - 1 - 1 := by omega
        rw [e]; exact s3
  have hnum : num < base ^ (c1 - outLen) := by
    have e : c1 - outLen = (c1 - (outLen + 1)) + 1 := by omega
    rw [e, Nat.pow_succ]
    exact (Nat.div_lt_iff_lt_mul (by omega : 0 < base)).mp hc2
  have hnum2 : c1 - outLen = 1 ∨ base ^ (c1 - outLen - 1) ≤ num := by
    by_cases hce : c1 = outLen + 1
    · left; omega
    · rcases hc3 with hc3 | hc3
      · exact absurd hc3 hce
      · right
        have e : c1 - outLen - 1 = (c1 - (outLen + 1) - 1) + 1 := by omega
        rw [e, Nat.pow_succ]
        exact (Nat.le_div_iff_mul_le (by omega)).mp hc3
  refine R.sat_bind (iter_sat _
    (fun s => s.2.2.size = c1 ∧ s.1 ≤ c1 ∧ outLen < s.1 ∧ s.2.1 < base ^ (s.1 - outLen) ∧
      (s.1 - outLen = 1 ∨ base ^ (s.1 - outLen - 1) ≤ s.2.1) ∧
      Impl.fillDigits base hexDigitLower (s.1 - outLen) s.2.1 (cells s.2.2.get s.1 c1) =
        Impl.fillDigits base hexDigitLower (c1 - outLen) num [])
    (fun s => s.2.1)
    (fun out => cells out.get outLen c1 = Impl.fillDigits base hexDigitLower (c1 - outLen) num []) ?_ _ _ ?_ ?_) ?_
  · intro ⟨count, n, out⟩ ⟨i1, i2, i3, i4, i5, i6⟩
    simp only at i1 i2 i3 i4 i5 i6 ⊢
    have hd : decIdx count = .ok (count - 1) := by unfold decIdx; rw [if_neg (by omega)]
    have hm : n % base < 17 := by have := Nat.mod_lt n (by omega : base > 0); omega
    simp only [hd, idx_ok hm, Loc.wr_ok (by omega : count - 1 < out.size), R.ok_bind]
    have e : count - outLen = (count - 1 - outLen) + 1 := by omega
    have i4' := i4
    rw [e, Nat.pow_succ] at i4'
    have hdiv : n / base < base ^ (count - 1 - outLen) := (Nat.div_lt_iff_lt_mul (by omega : 0 < base)).mpr i4'
    -- the cells after the write
    have hcells : cells (fun j => if j = count - 1 then hexDigitLower (n % base) else out.get j) (count - 1) c1 =
        hexDigitLower (n % base) :: cells out.get count c1 := by
      rw [cells_cons _ (count - 1) c1 (by omega)]
      simp only [if_true]
      have e1 : count - 1 + 1 = count := by omega
      rw [e1]
      congr 1
      apply cells_congr
      intro t ht1 ht2
      rw [if_neg (by omega)]
    have hfill : Impl.fillDigits base hexDigitLower (count - 1 - outLen) (n / base)
        (hexDigitLower (n % base) :: cells out.get count c1) =
        Impl.fillDigits base hexDigitLower (c1 - outLen) num [] := by
      rw [← i6, e]
      rfl
    split
    · rename_i hne
      refine R.sat_pure ?_
      simp only []
      have hpos : 0 < n := by
        apply Nat.pos_of_ne_zero; intro h0; rw [h0] at hne; simp at hne
      have hlt : n / base < n := Nat.div_lt_self hpos (by omega)
      have hge2 : ¬ count - outLen = 1 := by
        intro h1
        rw [h1, Nat.pow_one] at i4
        exact hne ((Nat.div_eq_zero_iff_lt (by omega)).mpr i4)
      have i5' : base ^ (count - outLen - 1) ≤ n := by
        rcases i5 with i5 | i5
        · exact absurd i5 hge2
        · exact i5
      refine ⟨⟨i1, by omega, by omega, hdiv, Or.inr ?_, ?_⟩, hlt⟩
      · have e2 : count - outLen - 1 = (count - 1 - outLen - 1) + 1 := by omega
        rw [e2, Nat.pow_succ] at i5'
        exact (Nat.le_div_iff_mul_le (by omega)).mpr i5'
      · rw [hcells]; exact hfill
    · rename_i hz
      have hz' : n / base = 0 := by
        apply Classical.byContradiction
        intro hh; exact hz hh
      have h1 : count - outLen = 1 := by
        rcases i5 with i5 | i5
        · exact i5
        · apply Classical.byContradiction
          intro hne1
          have hbn : base ≤ n := by
            have : base ^ 1 ≤ base ^ (count - outLen - 1) := Nat.pow_le_pow_right (by omega) (by omega)
            rw [Nat.pow_one] at this
            omega
          have : 1 ≤ n / base := (Nat.le_div_iff_mul_le (by omega)).mpr (by omega)
          omega
      refine R.sat_pure ?_
      simp only []
      have e0 : count - 1 = outLen := by omega
      rw [e0] at hcells hfill ⊢
      rw [hcells]
      rw [Nat.sub_self] at hfill
      exact hfill
  · simp only [Loc.new]
    refine ⟨trivial, Nat.le_refl _, by omega, hnum, hnum2, ?_⟩
    simp [cells]
  · simp only []; omega
  intro out hout
  refine R.sat_pure ?_
  simp only [Impl.unsignedToStr]
  rw [← hcount]
  exact hout

theorem fillDigits_congr (base : Nat) (f g : Nat → Nat) (hb : 0 < base) (h : ∀ d, d < base → f d = g d) :
    ∀ k n acc, Impl.fillDigits base f k n acc = Impl.fillDigits base g k n acc := by
  intro k
  induction k with
  | zero => intro n acc; rfl
  | succ k ih =>
    intro n acc
    simp only [Impl.fillDigits]
    rw [h _ (Nat.mod_lt _ hb), ih]

theorem unsignedToStr_dec (n : Nat) :
    Impl.unsignedToStr 10 hexDigitLower n = Impl.unsignedToStr 10 (fun d => 0x30 + d) n := by
  simp only [Impl.unsignedToStr]
  exact fillDigits_congr 10 _ _ (by decide) (by intro d hd; simp [hexDigitLower, hd]) _ _ _

theorem ipv4SerializeM_agrees (ipv4 : Nat) : ipv4SerializeM ipv4 = .ok (Impl.ipv4Serialize ipv4) := by
  have hu : ∀ x o, unsignedToStrM (x &&& 0xFF) 10 o = .ok (Impl.unsignedToStr 10 (fun d => 0x30 + d) (x &&& 0xFF)) := by
    intro x o
    rw [unsignedToStrM_agrees _ 10 o (and_ff_lt _) (by omega) (by omega), unsignedToStr_dec]
  unfold ipv4SerializeM
  have e5 : (5 : Nat) = 0 + 1 + 1 + 1 + 1 + 1 := rfl
  rw [e5]
  simp only [iter, hu, R.ok_bind, ne_eq, Nat.reduceEqDiff, not_false_eq_true, if_true, Nat.reduceSub,
    not_true_eq_false, if_false, R.pure_eq, Impl.ipv4Serialize]
  simp

/-! ### longest_zero_sequence -/

theorem countZeros_zero (r : List Nat) : Impl.countZeros (0 :: r) = Impl.countZeros r + 1 := by
  simp [Impl.countZeros]

theorem countZeros_ne (c : Nat) (r : List Nat) (h : c ≠ 0) : Impl.countZeros (c :: r) = 0 := by
  cases c with
  | zero => exact absurd rfl h
  | succ n => simp [Impl.countZeros]

theorem lzs_skip_all : ∀ (l : List Nat) (i skip lc cp : Nat), l.length ≤ skip →
    Impl.longestZeroSeq l i skip lc cp = (lc, cp) := by
  intro l
  induction l with
  | nil => intro i skip lc cp _; rfl
  | cons x r ih =>
    intro i skip lc cp h
    simp only [List.length_cons] at h
    rw [Impl.longestZeroSeq, if_pos (by omega)]
    exact ih _ _ _ _ (by omega)

theorem lzs_skip_k (a : Array Nat) (last : Nat) (hl : last ≤ a.size) (lc cp : Nat) :
    ∀ k p i, p + k ≤ last →
      Impl.longestZeroSeq (slice a p last) i k lc cp = Impl.longestZeroSeq (slice a (p + k) last) (i + k) 0 lc cp := by
  intro k
  induction k with
  | zero => intro p i _; rfl
  | succ k ih =>
    intro p i h
    rw [slice_cons a p last (by omega) hl, Impl.longestZeroSeq, if_pos (by omega)]
    have := ih (p + 1) (i + 1) (by omega)
    simp only [Nat.add_sub_cancel]
    rw [this]
    have e1 : p + 1 + k = p + (k + 1) := by omega
    have e2 : i + 1 + k = i + (k + 1) := by omega
    rw [e1, e2]

theorem lzs_zero (rest : List Nat) (i lc cp : Nat) :
    Impl.longestZeroSeq (0 :: rest) i 0 lc cp =
      Impl.longestZeroSeq rest (i + 1) (Impl.countZeros (0 :: rest))
        (if lc < Impl.countZeros (0 :: rest) then Impl.countZeros (0 :: rest) else lc)
        (if lc < Impl.countZeros (0 :: rest) then i else cp) := by
  rw [Impl.longestZeroSeq]
  by_cases h : lc < Impl.countZeros (0 :: rest) <;> simp [h]

theorem lzs_nonzero (c : Nat) (rest : List Nat) (i lc cp : Nat) (h : c ≠ 0) :
    Impl.longestZeroSeq (c :: rest) i 0 lc cp = Impl.longestZeroSeq rest (i + 1) 0 lc cp := by
  rw [Impl.longestZeroSeq]
  simp [h]

def cidx (first : Nat) (c : Option Nat) : Nat := match c with | some p => p - first | none => 0

theorem longestZeroSequenceM_agrees (a : Array Nat) (first last : Nat) (h : first ≤ last) (hl : last ≤ a.size) :
    (longestZeroSequenceM a first last).sat (fun r =>
      (r.1, cidx first r.2) = Impl.longestZeroSeq (slice a first last) 0 0 0 0) := by
  unfold longestZeroSequenceM
  refine iter_sat _ (fun s => first ≤ s.1 ∧ s.1 ≤ last ∧
      Impl.longestZeroSeq (slice a s.1 last) (s.1 - first) 0 s.2.1 (cidx first s.2.2) =
        Impl.longestZeroSeq (slice a first last) 0 0 0 0) (fun s => last - s.1) _ ?_ _ _ ?_ ?_
  · intro ⟨it, lastCount, compress⟩ ⟨h1, h2, h3⟩
    simp only at h1 h2 h3 ⊢
    split
    · rename_i he
      subst he
      rw [slice_nil a it it (by omega)] at h3
      exact R.sat_pure h3
    simp only [rd_ok h1 (by omega : it < last) hl, R.ok_bind]
    rw [slice_cons a it last (by omega) hl] at h3
    split
    · rename_i hz
      psimp
      refine R.sat_bind (iter_sat _
        (fun ite => it < ite ∧ ite ≤ last ∧
          Impl.countZeros (slice a it last) = (ite - it) + Impl.countZeros (slice a ite last))
        (fun ite => last - ite)
        (fun ite => it < ite ∧ ite ≤ last ∧ Impl.countZeros (slice a it last) = ite - it) ?_ _ _ ?_ ?_) ?_
      · intro ite ⟨g1, g2, g3⟩
        split
        · simp only [rd_ok (by omega : first ≤ ite) (by omega : ite < last) hl, R.ok_bind]
          rw [slice_cons a ite last (by omega) hl] at g3
          split
          · rename_i hz2
            psimp
            rw [hz2, countZeros_zero] at g3
            exact R.sat_pure ⟨⟨by omega, by omega, by omega⟩, by omega⟩
          · rename_i hz2
            rw [countZeros_ne _ _ hz2] at g3
            exact R.sat_pure ⟨g1, g2, by omega⟩
        · have : ite = last := by omega
          subst this
          rw [slice_nil a ite ite (by omega)] at g3
          exact R.sat_pure ⟨g1, g2, by simpa [Impl.countZeros] using g3⟩
      · refine ⟨by omega, by omega, ?_⟩
        rw [slice_cons a it last (by omega) hl, hz, countZeros_zero]
        omega
      · omega
      intro ite ⟨e1, e2, e3⟩
      rw [hz, lzs_zero] at h3
      rw [slice_cons a it last (by omega) hl, hz] at e3
      rw [e3] at h3
      have hlc : (if lastCount < ite - it then (ite - it, some it) else (lastCount, compress)).1 =
          (if lastCount < ite - it then ite - it else lastCount) := by split <;> rfl
      have hcp : cidx first (if lastCount < ite - it then (ite - it, some it) else (lastCount, compress)).2 =
          (if lastCount < ite - it then it - first else cidx first compress) := by split <;> rfl
      split
      · rename_i hel
        subst hel
        rw [lzs_skip_all _ _ _ _ _ (by rw [slice_length a _ _ hl]; omega)] at h3
        refine R.sat_pure ?_
        simp only []
        rw [hlc, hcp]
        exact h3
      · rename_i hel
        psimp
        refine R.sat_pure ⟨⟨by simp only []; omega, by simp only []; omega, ?_⟩, by simp only []; omega⟩
        simp only []
        rw [hlc, hcp]
        rw [lzs_skip_k a last hl _ _ (ite - it) (it + 1) _ (by omega)] at h3
        have q1 : it + 1 + (ite - it) = ite + 1 := by omega
        have q2 : it - first + 1 + (ite - it) = ite + 1 - first := by omega
        rw [q1, q2] at h3
        exact h3
    · rename_i hz
      psimp
      rw [lzs_nonzero _ _ _ _ _ hz] at h3
      refine R.sat_pure ⟨⟨by simp only []; omega, by simp only []; omega, ?_⟩, by simp only []; omega⟩
      simp only []
      have q : it - first + 1 = it + 1 - first := by omega
      rw [q] at h3
      exact h3
  · refine ⟨Nat.le_refl _, h, ?_⟩
    simp only [Nat.sub_self]
    rfl
  · simp only []; omega


end Upa.Impl.B
