import Upa.Proofs.ParseRepSim
/-
  Helpers for C05e, part 5: `url_serializer::append_parts` (Impl/ParseRep.lean `Ser.appendParts`) on a
  source representation presented by segments: for ANY representation `mkRep rb0 B` of the base (any
  pattern of never-started trailing parts), the segments `ifirst .. ilast` of the source are appended
  to the destination and their offsets are those of the destination's own layout.
-/
set_option linter.unusedSimpArgs false
set_option linter.unusedVariables false

namespace Upa.Proofs.ParseRep
open Upa Upa.Impl Upa.Proofs.C05 Upa.Proofs.SetRep Upa.Proofs.SetRepApi Upa.Props

/-! ### the `ilast` loop -/

theorem scanDown_mk (r0 : Rep) (B : List (List Nat)) (hpos : 0 < off B 1) (ifirst : Nat) :
    ∀ k, scanDown (mkRep r0 B) ifirst k =
      if ifirst < min k B.length then some (min k B.length - 1) else none := by
  intro k
  induction k with
  | zero => simp [scanDown]
  | succ k ih =>
    unfold scanDown
    by_cases h1 : k < ifirst
    · rw [if_pos h1, if_neg (by omega)]
    · rw [if_neg h1]
      by_cases h2 : k < B.length
      · have hne : (mkRep r0 B).pe k ≠ 0 := by
          rw [pe_mkRep_lt _ _ _ h2]
          have := off_succ_pos B hpos (n := k + 1) (by omega)
          omega
        rw [if_pos hne, if_pos (by omega)]
        congr 1; omega
      · have hz : (mkRep r0 B).pe k = 0 := pe_mkRep_ge _ _ _ (by omega)
        rw [if_neg (by simp [hz]), ih]
        have e : min (k + 1) B.length = min k B.length := by omega
        rw [e]

/-! ### the copy -/

theorem map_shift_sums (M : List (List Nat)) : ∀ (acc len : Nat),
    (sums acc M).map (fun x => x + len - acc) = sums len M := by
  induction M with
  | nil => intro acc len; rfl
  | cons s ss ih =>
    intro acc len
    simp only [sums_cons, List.map_cons]
    have e : acc + s.length + len - acc = len + s.length := by omega
    rw [e]
    congr 1
    rw [← ih (acc + s.length) (len + s.length)]
    apply List.map_congr_left
    intro x _
    omega

theorem decompB (B : List (List Nat)) (ifirst ilast : Nat) (hil : ifirst ≤ ilast) (hB : ilast < B.length) :
    B = B.take ifirst ++ (B.drop ifirst).take (ilast - ifirst) ++ [B.getD ilast []] ++ B.drop (ilast + 1) := by
  have h1 : B = B.take ifirst ++ B.drop ifirst := (List.take_append_drop _ _).symm
  have h2 : B.drop ifirst = (B.drop ifirst).take (ilast - ifirst) ++ (B.drop ifirst).drop (ilast - ifirst) :=
    (List.take_append_drop _ _).symm
  have h3 : (B.drop ifirst).drop (ilast - ifirst) = B.drop ilast := by
    rw [List.drop_drop]; congr 1; omega
  have h4 : B.drop ilast = B.getD ilast [] :: B.drop (ilast + 1) := by
    rw [List.getD_eq_getElem?_getD, List.getElem?_eq_getElem hB]
    simp
  conv => lhs; rw [h1, h2, h3, h4]
  simp

theorem take_ilast (B : List (List Nat)) (ifirst ilast : Nat) (hil : ifirst ≤ ilast) (hB : ilast < B.length) :
    B.take ilast = B.take ifirst ++ (B.drop ifirst).take (ilast - ifirst) := by
  have e : ilast = ifirst + (ilast - ifirst) := by omega
  conv => lhs; rw [e, List.take_add]

/-- the text and the offsets `append_parts` copies (url.h:2796-2809): the segments `ifirst .. ilast`
    of the source, the last one cut after `m` characters -/
theorem appendCopy (r1 rb0 : Rep) (X B : List (List Nat)) (ifirst ilast m : Nat)
    (h1 : 1 ≤ ifirst) (hil : ifirst ≤ ilast) (hB : ilast < B.length) (hB11 : B.length ≤ 11)
    (hXlen : X.length = ifirst) (hn : r1.norm = X.flatten)
    (hpt : r1.partEnd.take ifirst = sums 0 X)
    (hpd : r1.partEnd.drop (ilast + 1) = List.replicate (10 - ilast) 0)
    (hm : m ≤ (B.getD ilast []).length) :
    ({ r1 with
        norm := r1.norm ++ slice (mkRep rb0 B).norm ((mkRep rb0 B).pe (ifirst - 1)) (off B ilast + m),
        partEnd := r1.partEnd.take ifirst ++
          (((mkRep rb0 B).partEnd.drop ifirst).take (ilast - ifirst)).map
            (fun x => x + r1.norm.length - (mkRep rb0 B).pe (ifirst - 1)) ++
          [off B ilast + m + r1.norm.length - (mkRep rb0 B).pe (ifirst - 1)] ++
          r1.partEnd.drop (ilast + 1) } : Rep) =
      mkRep r1 (X ++ (B.drop ifirst).take (ilast - ifirst) ++ [(B.getD ilast []).take m]) := by
  have hoff : (mkRep rb0 B).pe (ifirst - 1) = off B ifirst := by
    rw [pe_mkRep_lt _ _ _ (by omega)]
    congr 1; omega
  have hoffi : off B ilast = off B ifirst + ((B.drop ifirst).take (ilast - ifirst)).flatten.length := by
    unfold off
    rw [take_ilast B ifirst ilast hil hB]
    simp
  have hMlen : ((B.drop ifirst).take (ilast - ifirst)).length = ilast - ifirst := by
    simp; omega
  have hdec := decompB B ifirst ilast hil hB
  apply rep_eq_mkRep <;> try rfl
  · -- the string
    show r1.norm ++ slice (mkRep rb0 B).norm ((mkRep rb0 B).pe (ifirst - 1)) (off B ilast + m) = _
    rw [hoff, hn, norm_mkRep]
    have hsl : slice B.flatten (off B ifirst) (off B ilast + m) =
        ((B.drop ifirst).take (ilast - ifirst)).flatten ++ (B.getD ilast []).take m := by
      have e : B.flatten = (B.take ifirst).flatten ++
          (((B.drop ifirst).take (ilast - ifirst)).flatten ++ (B.getD ilast []).take m) ++
          ((B.getD ilast []).drop m ++ (B.drop (ilast + 1)).flatten) := by
        conv => lhs; rw [hdec]
        simp only [List.flatten_append, List.flatten_cons, List.flatten_nil, List.append_nil,
          List.append_assoc]
        congr 2
        rw [← List.append_assoc, List.take_append_drop]
      refine slice_eq e rfl ?_
      rw [hoffi]
      simp only [List.length_append, List.length_take]
      unfold off
      omega
    rw [hsl]
    simp
  · -- the offsets
    show r1.partEnd.take ifirst ++
        (((mkRep rb0 B).partEnd.drop ifirst).take (ilast - ifirst)).map
          (fun x => x + r1.norm.length - (mkRep rb0 B).pe (ifirst - 1)) ++
        [off B ilast + m + r1.norm.length - (mkRep rb0 B).pe (ifirst - 1)] ++
        r1.partEnd.drop (ilast + 1) = _
    have hsrc : ((mkRep rb0 B).partEnd.drop ifirst).take (ilast - ifirst) =
        sums (off B ifirst) ((B.drop ifirst).take (ilast - ifirst)) := by
      show ((sums 0 B ++ List.replicate (11 - B.length) 0).drop ifirst).take (ilast - ifirst) = _
      rw [List.drop_append_of_le_length (by simp; omega), List.take_append_of_le_length (by simp; omega),
        sums_drop, sums_take, Nat.zero_add]
      rfl
    rw [hsrc, hoff, hpt, hpd, map_shift_sums, hn]
    simp only [sums_append, sums_cons, sums_nil, Nat.zero_add, List.length_append, List.length_cons,
      List.length_nil, hXlen, hMlen, List.flatten_append, List.append_assoc]
    have e1 : off B ilast + m + X.flatten.length - off B ifirst =
        X.flatten.length + ((B.drop ifirst).take (ilast - ifirst)).flatten.length +
          ((B.getD ilast []).take m).length := by
      rw [hoffi]
      simp only [List.length_take]
      omega
    have e2 : 11 - (ifirst + (ilast - ifirst + (0 + 1))) = 10 - ilast := by omega
    rw [e1, e2]

/-! ### `append_parts` unfolded -/

/-- url.h:2749-2761 -/
def apFirst (src : Rep) (t1 : Nat) : Nat :=
  if t1 ≤ HOST then
    if src.hostNotNull then (if t1 = USERNAME ∧ src.hasCredentials then USERNAME else HOST)
    else PATH_PREFIX
  else t1

/-- url.h:2785-2794: the end of the last copied part in the source and `path_segment_count_` -/
def apPair (op : Option PathOp) (src r1 : Rep) (ifirst ilast : Nat) : Nat × Rep :=
  if op.isSome ∧ ilast = PATH then
    match op.bind src.pathOp with
    | some (pe', sc') => (pe', { r1 with segCount := sc' })
    | none => (src.pe ilast, { r1 with segCount := src.segCount })
  else if ifirst ≤ PATH ∧ PATH ≤ ilast then (src.pe ilast, { r1 with segCount := src.segCount })
  else (src.pe ilast, r1)

theorem appendParts_unfold (s : Ser) (src : Rep) (t1 t2 : Nat) (op : Option PathOp) :
    s.appendParts src t1 t2 op =
      if apFirst src t1 ≤ t2 then
        match scanDown src (apFirst src t1) (t2 + 1) with
        | none => { s with rep := copyFlags s.rep src t1 t2 }
        | some ilast =>
          let r1 := serStartPart (copyFlags s.rep src t1 t2) s.lastPt (apFirst src t1)
          let pr := apPair op src r1 (apFirst src t1) ilast
          let offset := src.pe (apFirst src t1 - 1) + kPartStart.getD (apFirst src t1) 0
          ⟨{ pr.2 with
              norm := pr.2.norm ++ slice src.norm offset pr.1,
              partEnd := pr.2.partEnd.take (apFirst src t1) ++
                ((src.partEnd.drop (apFirst src t1)).take (ilast - apFirst src t1)).map
                  (fun x => x + pr.2.norm.length - offset) ++
                [pr.1 + pr.2.norm.length - offset] ++ pr.2.partEnd.drop (ilast + 1) }, ilast⟩
      else { s with rep := copyFlags s.rep src t1 t2 } := by
  unfold Ser.appendParts apFirst apPair Ser.startPart
  rfl

theorem apPair_none (src r1 : Rep) (ifirst ilast : Nat) :
    apPair none src r1 ifirst ilast =
      (src.pe ilast, if ifirst ≤ PATH ∧ PATH ≤ ilast then { r1 with segCount := src.segCount } else r1) := by
  unfold apPair
  simp only [Option.isSome_none, Bool.false_eq_true, false_and, if_false]
  split <;> rfl

theorem apPair_other (op : Option PathOp) (src r1 : Rep) (ifirst ilast : Nat) (h : ilast ≠ PATH) :
    apPair op src r1 ifirst ilast =
      (src.pe ilast, if ifirst ≤ PATH ∧ PATH ≤ ilast then { r1 with segCount := src.segCount } else r1) := by
  unfold apPair
  rw [if_neg (by simp [h])]
  split <;> rfl

theorem apPair_path (o : PathOp) (src r1 : Rep) (ifirst : Nat) :
    apPair (some o) src r1 ifirst PATH =
      (match src.pathOp o with
       | some v => (v.1, { r1 with segCount := v.2 })
       | none => (src.pe PATH, { r1 with segCount := src.segCount })) := by
  unfold apPair
  simp only [Option.isSome_some, true_and, if_true, Option.bind_some]
  cases src.pathOp o with
  | none => rfl
  | some v => rfl

/-- `append_parts` when something is copied, the destination after `start_part(ifirst)` being `r1`
    with the started parts `X` -/
theorem appendParts_mk (s : Ser) (rb0 : Rep) {S B : List (List Nat)} (hRp : Rp S B) (t1 t2 : Nat)
    (op : Option PathOp) (X : List (List Nat)) (r1 : Rep) (m segc : Nat)
    (hk : kPartStart.getD (apFirst (mkRep rb0 B) t1) 0 = 0) (h1 : 1 ≤ apFirst (mkRep rb0 B) t1)
    (hle : apFirst (mkRep rb0 B) t1 ≤ t2) (hlt : apFirst (mkRep rb0 B) t1 < B.length) (ht2 : t2 ≤ 10)
    (hstart : serStartPart (copyFlags s.rep (mkRep rb0 B) t1 t2) s.lastPt (apFirst (mkRep rb0 B) t1) = r1)
    (hXlen : X.length = apFirst (mkRep rb0 B) t1) (hn : r1.norm = X.flatten)
    (hpt : r1.partEnd.take (apFirst (mkRep rb0 B) t1) = sums 0 X)
    (hpd : ∀ j, apFirst (mkRep rb0 B) t1 ≤ j → j ≤ 10 → r1.partEnd.drop (j + 1) = List.replicate (10 - j) 0)
    (hpair : apPair op (mkRep rb0 B) r1 (apFirst (mkRep rb0 B) t1) (min (t2 + 1) B.length - 1) =
      (off B (min (t2 + 1) B.length - 1) + m, { r1 with segCount := segc }))
    (hm : m ≤ (B.getD (min (t2 + 1) B.length - 1) []).length) :
    s.appendParts (mkRep rb0 B) t1 t2 op =
      ⟨mkRep { r1 with segCount := segc }
        (X ++ (B.drop (apFirst (mkRep rb0 B) t1)).take (min (t2 + 1) B.length - 1 - apFirst (mkRep rb0 B) t1) ++
          [(B.getD (min (t2 + 1) B.length - 1) []).take m]), min (t2 + 1) B.length - 1⟩ := by
  have hposB : 0 < off B 1 := by rw [hRp.off]; exact hRp.pos
  have hhi := hRp.hi
  rw [appendParts_unfold, if_pos hle, scanDown_mk _ _ hposB, if_pos (by omega)]
  simp only [hstart, hpair, hk, Nat.add_zero]
  congr 1
  exact appendCopy { r1 with segCount := segc } rb0 X B _ _ m h1 (by omega) (by omega) hhi hXlen hn hpt
    (hpd _ (by omega) (by omega)) hm

/-- `append_parts` when no part of the source is copied: only the flags -/
theorem appendParts_nothing (s : Ser) (rb0 : Rep) {S B : List (List Nat)} (hRp : Rp S B) (t1 t2 : Nat)
    (op : Option PathOp) (h : ¬ (apFirst (mkRep rb0 B) t1 ≤ t2 ∧ apFirst (mkRep rb0 B) t1 < B.length))
    (ht2 : t2 ≤ 10) :
    s.appendParts (mkRep rb0 B) t1 t2 op = { s with rep := copyFlags s.rep (mkRep rb0 B) t1 t2 } := by
  have hposB : 0 < off B 1 := by rw [hRp.off]; exact hRp.pos
  rw [appendParts_unfold]
  split
  · rw [scanDown_mk _ _ hposB, if_neg (by omega)]
  · rfl

/-- the path operation matters only when the last copied part is the path -/
theorem appendParts_op_irrelevant (s : Ser) (rb0 : Rep) {S B : List (List Nat)} (hRp : Rp S B) (t1 t2 : Nat)
    (o : PathOp) (h : min (t2 + 1) B.length - 1 ≠ PATH) :
    s.appendParts (mkRep rb0 B) t1 t2 (some o) = s.appendParts (mkRep rb0 B) t1 t2 none := by
  have hposB : 0 < off B 1 := by rw [hRp.off]; exact hRp.pos
  rw [appendParts_unfold, appendParts_unfold]
  by_cases h1 : apFirst (mkRep rb0 B) t1 ≤ t2
  · rw [if_pos h1, if_pos h1, scanDown_mk _ _ hposB]
    by_cases h2 : apFirst (mkRep rb0 B) t1 < min (t2 + 1) B.length
    · rw [if_pos h2]
      simp only [apPair_other _ _ _ _ _ h, apPair_none]
    · rw [if_neg h2]
  · rw [if_neg h1, if_neg h1]

/-! ### the path operations read only the path part of the source -/

theorem off_succ_getD (B : List (List Nat)) (i : Nat) (hi : i < B.length) :
    off B (i + 1) = off B i + (B.getD i []).length := by
  unfold off
  rw [List.take_add_one, List.getD_eq_getElem?_getD, List.getElem?_eq_getElem hi]
  simp only [Option.toList_some, List.flatten_append, List.flatten_cons, List.flatten_nil, List.append_nil,
    List.length_append, Option.getD_some]

theorem pathFns_congr (r r' : Rep) (h1 : r.segCount = r'.segCount) (h2 : r.opaquePath = r'.opaquePath)
    (h3 : r.schemeIdx = r'.schemeIdx) (h4 : r.pe 7 = r'.pe 7) (h5 : r.pe 8 = r'.pe 8)
    (h6 : slice r.norm (r.pe 7) (r.pe 8) = slice r'.norm (r'.pe 7) (r'.pe 8)) :
    (∀ o, r.pathOp o = r'.pathOp o) ∧ (∀ n, r.getPathFirstString n = r'.getPathFirstString n) := by
  have hk : kPartStart.getD 8 0 = 0 := rfl
  have pv : ∀ x : Rep, x.partView PATH = if x.pe 8 > x.pe 7 then slice x.norm (x.pe 7) (x.pe 8) else [] :=
    fun _ => rfl
  have hv : r.partView PATH = r'.partView PATH := by
    rw [pv, pv, h6, h4, h5]
  have hfs : ∀ n, r.getPathFirstString n = r'.getPathFirstString n := by
    intro n
    unfold Rep.getPathFirstString
    rw [hv, h2]
  have hrl : r.getPathRemLast = r'.getPathRemLast := by
    unfold Rep.getPathRemLast
    show (if r.segCount > 0 then some (r.pe 7 + (((slice r.norm (r.pe 7) (r.pe 8)).reverse.dropWhile
        (· != 0x2F)).length - 1), r.segCount - 1) else none) = (if r'.segCount > 0 then
        some (r'.pe 7 + (((slice r'.norm (r'.pe 7) (r'.pe 8)).reverse.dropWhile (· != 0x2F)).length - 1),
          r'.segCount - 1) else none)
    rw [h6, h1, h4]
  have hsh : r.getShortenPath = r'.getShortenPath := by
    unfold Rep.getShortenPath Rep.isFileScheme
    rw [h1, h3, hfs 2, hrl]
  refine ⟨?_, hfs⟩
  intro o
  cases o with
  | remLast => exact hrl
  | shorten => exact hsh

/-- a representation with the PATH part started, against the one cut after the path -/
theorem pathFns_cut (r0 : Rep) (B : List (List Nat)) (h9 : 9 ≤ B.length) :
    (∀ o, (mkRep r0 B).pathOp o = (mkRep r0 (B.take 8 ++ [B.getD 8 []])).pathOp o) ∧
    (∀ n, (mkRep r0 B).getPathFirstString n = (mkRep r0 (B.take 8 ++ [B.getD 8 []])).getPathFirstString n) := by
  have hX : (B.take 8).length = 8 := by simp; omega
  have e7 : (mkRep r0 B).pe 7 = (B.take 8).flatten.length := by
    rw [pe_mkRep_lt _ _ _ (by omega)]; rfl
  have e8 : (mkRep r0 B).pe 8 = (B.take 8).flatten.length + (B.getD 8 []).length := by
    rw [pe_mkRep_lt _ _ _ (by omega), off_succ_getD B 8 (by omega)]
    rfl
  have hdec : B.flatten = (B.take 8).flatten ++ B.getD 8 [] ++ (B.drop 9).flatten := by
    have := decompB B 8 8 (Nat.le_refl _) (by omega)
    conv => lhs; rw [this]
    simp
  apply pathFns_congr
  · rfl
  · rfl
  · rfl
  · rw [e7, pe7_path r0 _ _ hX]
  · rw [e8, pe8_path r0 _ _ hX]
  · rw [e7, e8, pe7_path r0 _ _ hX, pe8_path r0 _ _ hX, norm_mkRep, norm_mkRep]
    rw [slice_eq hdec rfl rfl]
    exact (slice_eq (c := []) (by simp) rfl rfl).symm

end Upa.Proofs.ParseRep
