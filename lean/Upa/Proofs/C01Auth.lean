import Upa.Proofs.C01Run
/-
  C01 — simulations for the authority group of states of the basic URL parser: port, host / hostname,
  authority, special authority ignore slashes, special authority slashes, path or authority
  (`Impl.portState … Impl.pathOrAuthorityState`  vs  `Spec.step` / `Spec.run`).
  Statement shape: `SimAt` (Upa/Proofs/C01Run.lean).  Everything is for an arbitrary state override
  `ov : Option Override` (`none` = plain parsing).  The tail states and the host parser are HYPOTHESES of
  the theorems here (Upa/Proofs/C01AuthClosed.lean discharges the tail ones with C01Tail.lean):

    sim_pathStart : SimAt idna base ov .pathStart 1 2 (fun _ => True) (Impl.pathStartState ov)
    sim_path      : SimAt idna base ov .path      1 1 (fun _ => True) (Impl.pathState ov)
    hHost         : ∀ s o, (∀ c ∈ s, Spec.isScalar c = true) → Impl.parseHost idna s o = Spec.hostParse idna s o
    sim_fileHost  : ov.isSome = true → SimAt idna base ov .fileHost 1 1 (fun _ => True) (Impl.fileHostState idna ov)
                    (only under an override: host/hostname setter on a file URL)

  ## Full simulations (both components of `Spec.run`'s result, any `ov`)

    sim_port     sim_pathStart                     : SimAt idna base ov .port     1 3 (fun _ => True) (Impl.portState ov)
    sim_host     hHost sim_pathStart sim_fileHost  : SimAt idna base ov .host     1 3 (fun k => k.insideBrackets = false) (Impl.hostState idna ov)
    sim_hostname hHost sim_pathStart sim_fileHost  : SimAt idna base ov .hostname 1 3 (fun k => k.insideBrackets = false) (Impl.hostState idna ov)

  ## FINDING: the authority state is NOT a full simulation; weak simulations

  On an authority "cred@" followed by the end of the authority (e.g. "http://a@", "http://a:b@/x") the
  Standard has already appended the credentials to url's username/password when it returns failure
  (host-missing); the code (Impl, and the C++ url.h:1862-1871) returns before it writes anything.  Both
  return failure; only the second component of `Spec.run` (the URL left behind) differs, which without a
  state override neither the Standard nor the API uses (the authority state is never entered with an
  override).  See the kernel-evaluated `example` at the end of this file.  Hence

    ResAgree r e := r = e ∨ (r.1 = none ∧ e.1 = none)
    SimAtW …     := SimAt with conclusion `ResAgree (run …) (resOf ov (B k.url (inp.toList.drop i)))`
    AuthPre k    := k.atSignSeen = false ∧ k.passwordTokenSeen = false ∧ k.insideBrackets = false ∧
                    k.url.username = [] ∧ k.url.password = []
      (username/password empty is needed: the Standard APPENDS to them, the code OVERWRITES them; true
       wherever the authority state is reached: fresh URL with only the scheme set)

    sim_authority_partial              sim_host           : SimAtW idna base ov .authority 2 4 AuthPre (Impl.authorityState idna ov)
    sim_ignoreSlashes_partial          sim_authority      : SimAtW idna base ov .specialAuthorityIgnoreSlashes 2 5 AuthPre (Impl.ignoreSlashesState idna ov)
    sim_specialAuthoritySlashes_partial sim_authority     : SimAtW idna base ov .specialAuthoritySlashes 2 6 AuthPre (Impl.specialAuthoritySlashesState idna ov)
    sim_pathOrAuthority_partial        sim_path sim_authority : SimAtW idna base ov .pathOrAuthority 2 3 AuthPre (Impl.pathOrAuthorityState idna ov)

  (`a = 2`: after the authority end the Standard rewinds the pointer by |buffer|+1 and re-scans the host
  part in the host state.)  Tools: `SimAt.toW`, `SimAtW.mono`, `SimAtW.after_step`, `SimAtW.basic`
  (first component `= okUrl (B …)` with the fuel of `Spec.basicParse`), `ResAgree.fst`, `ResAgree.snd`.
  The exact value of `Spec.run` from the authority state is `Auth.run_authority` (`Auth.authFin`).

  ## Method
  port: `Auth.run_port` (buffer generalised) against `Auth.portFin`; `Auth.portState_eq`: more than 5
  significant digits ⇒ > 65535, `decimalValue ∘ stripLeadingZeros = decimalValue`.
  host: `Auth.run_host` (buffer and insideBrackets generalised) against `Impl.hostScan` on the authority
  slice; `Auth.hostFin` is the tail of `Impl.hostState`.
  authority: `Auth.authScan` = the Standard's buffer/atSignSeen bookkeeping, `Auth.credStep` = one
  iteration of the credential loop (`Auth.loop_eq`), `Auth.credStep_pct40` ("%40" through the loop = '@'
  through the loop), `Auth.authScan_eq` + `Auth.splitLastAt_eq` (the pieces concatenate to the prefix up
  to the LAST '@'), `Auth.fold_cred_false` (first ':' splits username / password), C14 encoder equality.
-/
namespace Upa.Proofs.C01
open Upa.Spec (State Cfg StepResult step run)

/- helper definitions and lemmas live in `Upa.Proofs.C01.Auth`; the simulation theorems, `ResAgree`,
   `SimAtW` and `AuthPre` are declared in `Upa.Proofs.C01` itself -/
namespace Auth

/-! ## port state -/

/-- port state, step 2.1.1–2.1.3: the value written for the digit string `digits` -/
def portVal (u : Url) (digits : List Nat) : Option Url :=
  if digits ≠ [] then
    if decimalValue digits > 65535 then none
    else some (if Impl.defaultPort u.scheme = some (decimalValue digits) then { u with port := none }
               else { u with port := some (decimalValue digits) })
  else some u

/-- the Standard's port state after the digits (`digits` = buffer, `rest` = input from the first
    non-digit on), result in the shape of the code block -/
def portFin (ov : Option Override) (u : Url) (digits rest : List Nat) : Res :=
  let isEnd := match rest with
    | [] => true
    | c :: _ => Impl.isAuthorityEnd c || (c == 0x5C && u.isSpecial)
  if isEnd || ov.isSome then
    match portVal u digits with
    | none => ⟨.failure, u⟩
    | some u' => if ov.isSome then ⟨.ok, u'⟩ else Impl.pathStartState ov u' rest
  else ⟨.failure, u⟩

theorem decimalValue_foldl (s : List Nat) (acc : Nat) :
    s.foldl (fun acc c => acc * 10 + (c - 0x30)) acc = acc * 10 ^ s.length + decimalValue s := by
  unfold decimalValue
  induction s generalizing acc with
  | nil => simp
  | cons c cs ih =>
    simp only [List.foldl_cons, List.length_cons]
    rw [ih, ih (0 * 10 + (c - 0x30)), Nat.pow_succ]
    simp only [Nat.zero_mul, Nat.zero_add, Nat.add_mul, Nat.mul_assoc, Nat.add_assoc, Nat.mul_comm 10]

theorem decimalValue_cons (c : Nat) (cs : List Nat) :
    decimalValue (c :: cs) = (c - 0x30) * 10 ^ cs.length + decimalValue cs := by
  conv => lhs; unfold decimalValue
  simp only [List.foldl_cons, Nat.zero_mul, Nat.zero_add]
  exact decimalValue_foldl cs _

theorem decimalValue_strip (ds : List Nat) : decimalValue (Impl.stripLeadingZeros ds) = decimalValue ds := by
  fun_induction Impl.stripLeadingZeros ds with
  | case1 c => rfl
  | case2 r h ih => rw [ih, decimalValue_cons]; simp
  | case3 l h1 h2 => rfl

/-- after skipping the leading zeros, more than five digits means more than 65535 -/
theorem strip_long_big (ds : List Nat) (hd : ∀ c ∈ ds, isDigit c = true)
    (hlen : (Impl.stripLeadingZeros ds).length > 5) : decimalValue ds > 65535 := by
  rw [← decimalValue_strip]
  have key : ∀ ds : List Nat, (∀ c ∈ ds, isDigit c = true) → (Impl.stripLeadingZeros ds).length > 5 →
      ∃ c cs, Impl.stripLeadingZeros ds = c :: cs ∧ c ≠ 0x30 ∧ isDigit c = true ∧ cs.length ≥ 5 := by
    intro ds
    fun_induction Impl.stripLeadingZeros ds with
    | case1 c => intro _ h; simp at h
    | case2 cs h ih => intro hd hl; exact ih (fun c hc => hd c (List.mem_cons_of_mem _ hc)) hl
    | case3 cs h1 h2 =>
      intro hd hl
      cases cs with
      | nil => simp at hl
      | cons c cs =>
        refine ⟨c, cs, rfl, ?_, hd c (List.mem_cons_self), by simp at hl; omega⟩
        intro hc; subst hc; exact h2 cs rfl
  obtain ⟨c, cs, he, hc, hdig, hl⟩ := key ds hd hlen
  rw [he, decimalValue_cons]
  have h1 : 1 ≤ c - 0x30 := by
    simp [isDigit] at hdig; omega
  have h5 : (10:Nat)^5 ≤ 10 ^ cs.length := Nat.pow_le_pow_right (by omega) hl
  have : 10^5 ≤ (c - 0x30) * 10 ^ cs.length :=
    calc 10^5 ≤ 10 ^ cs.length := h5
      _ = 1 * 10 ^ cs.length := by simp
      _ ≤ (c-0x30) * 10 ^ cs.length := Nat.mul_le_mul_right _ h1
  have e : (10:Nat)^5 = 100000 := by decide
  omega

theorem all_takeWhile (p : Nat → Bool) (l : List Nat) : ∀ c ∈ l.takeWhile p, p c = true := by
  induction l with
  | nil => simp
  | cons a l ih =>
    by_cases h : p a = true
    · rw [List.takeWhile_cons_of_pos h]; intro c hc
      cases hc with
      | head => exact h
      | tail _ hc => exact ih c hc
    · rw [List.takeWhile_cons_of_neg h]; simp

theorem portVal_eq (u : Url) (digits : List Nat) (hd : ∀ c ∈ digits, isDigit c = true) :
    (if digits ≠ [] then
        if (Impl.stripLeadingZeros digits).length > 5 then none
        else
          if decimalValue (Impl.stripLeadingZeros digits) > 0xFFFF then none
          else if Impl.defaultPort u.scheme = some (decimalValue (Impl.stripLeadingZeros digits)) then
            some { u with port := none }
          else some { u with port := some (decimalValue (Impl.stripLeadingZeros digits)) }
      else some u : Option Url) = portVal u digits := by
  unfold portVal
  by_cases hne : digits ≠ []
  · simp only [if_pos hne]
    by_cases hlen : (Impl.stripLeadingZeros digits).length > 5
    · rw [if_pos hlen, if_pos (strip_long_big _ hd hlen)]
    · rw [if_neg hlen, decimalValue_strip]
      split
      · rfl
      · split <;> rfl
  · simp only [if_neg hne]

/-- the code block = the Standard's arithmetic on the digit string -/
theorem portState_eq (ov : Option Override) (u : Url) (p : List Nat) :
    Impl.portState ov u p = portFin ov u (p.takeWhile isDigit) (p.dropWhile isDigit) := by
  unfold Impl.portState portFin
  simp only
  rw [portVal_eq u _ (all_takeWhile isDigit p)]
  rfl

section
variable {idna : Idna} {base : Option Url} {inp : Array Nat} {ov : Option State}

theorem step_port {k : Cfg} {i : Nat} (hs : k.state = .port) (hp : k.p = (i : Int)) :
    step idna inp base ov k =
      if (match inp[i]? with | some ch => isDigit ch | none => false) = true then
        .continue { k with buffer := k.buffer ++ inp[i]?.toList }
      else if inp[i]?.isNone = true ∨ (inp[i]? == some 0x2F) = true ∨ (inp[i]? == some 0x3F) = true ∨
          (inp[i]? == some 0x23) = true ∨ (Spec.isSpecial k.url = true ∧ (inp[i]? == some 0x5C) = true) ∨
          ov.isSome = true then
        match portVal k.url k.buffer with
        | none => .failure k.url
        | some url =>
          if ov.isSome = true then .done url
          else .continue { k with url := url, buffer := [], state := .pathStart, p := k.p - 1 }
      else .failure k.url := by
  unfold step portVal
  simp only [hs, hp, Int.toNat_natCast, ptr_neg, if_false]
  rfl
end

section
variable {idna : Idna} {base : Option Url} {ov : Option Override}

theorem isSpecial_eq (u : Url) : Spec.isSpecial u = u.isSpecial := rfl

theorem port_end_iff (c : Nat) (u : Url) (o : Option Override) :
    ((some c).isNone = true ∨ (some c == some 0x2F) = true ∨ (some c == some 0x3F) = true ∨
      (some c == some 0x23) = true ∨ (Spec.isSpecial u = true ∧ (some c == some 0x5C) = true) ∨
      (o.map ovState).isSome = true) ↔
    ((Impl.isAuthorityEnd c || (c == 0x5C && u.isSpecial)) || o.isSome) = true := by
  simp only [isSpecial_eq, Impl.isAuthorityEnd, Option.isNone_some, Bool.false_eq_true, false_or,
    Option.isSome_map, Bool.or_eq_true, Bool.and_eq_true, beq_iff_eq, Option.some.injEq, Bool.or_assoc]
  constructor
  · rintro (h | h | h | ⟨h1, h2⟩ | h) <;> simp [*]
  · rintro (h | h | h | ⟨h1, h2⟩ | h) <;> simp [*]

/-- the port state with a general buffer -/
theorem run_port (sim_pathStart : SimAt idna base ov .pathStart 1 2 (fun _ => True) (Impl.pathStartState ov))
    (inp : Array Nat) (hsc : ∀ x ∈ inp.toList, Spec.isScalar x = true) :
    ∀ (rest : List Nat) (k : Cfg) (i fuel : Nat), inp.toList.drop i = rest → k.state = .port →
      k.p = (i : Int) → i ≤ inp.size → fuel ≥ rest.length + 3 →
      run idna inp base (ov.map ovState) fuel k =
        resOf ov (portFin ov k.url (k.buffer ++ rest.takeWhile isDigit) (rest.dropWhile isDigit)) := by
  intro rest
  induction rest with
  | nil =>
    intro k i fuel hd hs hp hi hf
    obtain ⟨hnone, hsize⟩ := getElem?_of_drop_nil hd
    have hst := step_port (idna := idna) (inp := inp) (base := base) (ov := ov.map ovState) hs hp
    simp only [hnone, Option.isNone_none, true_or, if_true, Bool.false_eq_true, if_false] at hst
    simp only [portFin, List.takeWhile_nil, List.dropWhile_nil, List.append_nil, Bool.true_or, if_true]
    obtain ⟨f, rfl, hf'⟩ := fuel_succ (n := 2) hf
    cases hv : portVal k.url k.buffer with
    | none =>
      rw [hv] at hst; simp only at hst ⊢
      rw [run_failure f hst]; rfl
    | some u' =>
      rw [hv] at hst; simp only at hst ⊢
      cases hov : ov with
      | some o =>
        subst hov
        simp only [Option.map_some, Option.isSome_some, if_true] at hst ⊢
        rw [run_done f hst]; rfl
      | none =>
        subst hov
        simp only [Option.map_none, Option.isSome_none, Bool.false_eq_true, if_false] at hst ⊢
        have := SimAt.after_step (j := i) sim_pathStart (k := k) (fuel := f + 1) hst rfl rfl
          (by simp [hp]) trivial hi hsc (by simp; omega)
        rw [hd] at this; exact this
  | cons c r ih =>
    intro k i fuel hd hs hp hi hf
    obtain ⟨hget, hlt, hd'⟩ := getElem?_of_drop_cons hd
    have hst := step_port (idna := idna) (inp := inp) (base := base) (ov := ov.map ovState) hs hp
    simp only [hget] at hst
    by_cases hdig : isDigit c = true
    · simp only [hdig, if_true, Option.toList_some] at hst
      obtain ⟨f, rfl, hf'⟩ := fuel_succ (n := r.length + 3) (by simpa using hf)
      rw [run_continue' (j := i + 1) f hst (by simp [hp]) (by omega)]
      refine (ih _ (i + 1) f hd' ?_ ?_ (by omega) hf').trans ?_
      · exact hs
      · rfl
      simp only [List.takeWhile_cons_of_pos hdig, List.dropWhile_cons_of_pos hdig, List.append_assoc,
        List.singleton_append]
    · have hdig' : isDigit c = false := by simpa using hdig
      simp only [hdig', Bool.false_eq_true, if_false, port_end_iff] at hst
      simp only [portFin, List.takeWhile_cons_of_neg hdig, List.dropWhile_cons_of_neg hdig, List.append_nil]
      obtain ⟨f, rfl, hf'⟩ := fuel_succ (n := r.length + 3) (by simpa using hf)
      by_cases hend : ((Impl.isAuthorityEnd c || (c == 0x5C && k.url.isSpecial)) || ov.isSome) = true
      · rw [if_pos hend] at hst ⊢
        cases hv : portVal k.url k.buffer with
        | none =>
          rw [hv] at hst; simp only at hst ⊢
          rw [run_failure f hst]; rfl
        | some u' =>
          rw [hv] at hst; simp only at hst ⊢
          cases hov : ov with
          | some o =>
            subst hov
            simp only [Option.map_some, Option.isSome_some, if_true] at hst ⊢
            rw [run_done f hst]; rfl
          | none =>
            subst hov
            simp only [Option.map_none, Option.isSome_none, Bool.false_eq_true, if_false] at hst ⊢
            have := SimAt.after_step (j := i) sim_pathStart (k := k) (fuel := f + 1) hst rfl rfl
              (by simp [hp]) trivial hi hsc (by have := drop_length hd; simp at this; omega)
            rw [hd] at this; exact this
      · rw [if_neg hend] at hst ⊢
        rw [run_failure f hst]; rfl

/-- port state -/
theorem _root_.Upa.Proofs.C01.sim_port (sim_pathStart : SimAt idna base ov .pathStart 1 2 (fun _ => True) (Impl.pathStartState ov)) :
    SimAt idna base ov .port 1 3 (fun _ => True) (Impl.portState ov) := by
  intro inp k i fuel hs hb hp _ hi hsc hf
  rw [portState_eq, run_port sim_pathStart inp hsc _ k i fuel rfl hs hp hi (by simp; omega), hb]
  rfl
end

/-! ## host / hostname state -/

section
variable {idna : Idna} {base : Option Url} {inp : Array Nat} {ov : Option State}

theorem step_host {k : Cfg} {i : Nat} (hs : k.state = .host ∨ k.state = .hostname) (hp : k.p = (i : Int)) :
    step idna inp base ov k =
      if ov.isSome = true ∧ k.url.scheme = Impl.sFile then .continue { k with p := k.p - 1, state := .fileHost }
      else if (inp[i]? == some 0x3A) = true ∧ k.insideBrackets = false then
        if k.buffer = [] then .failure k.url
        else if ov = some .hostname then .done k.url
        else match Spec.hostParse idna k.buffer (!Spec.isSpecial k.url) with
          | none => .failure k.url
          | some h => .continue { k with url := { k.url with host := some h }, buffer := [], state := .port }
      else if inp[i]?.isNone = true ∨ (inp[i]? == some 0x2F) = true ∨ (inp[i]? == some 0x3F) = true ∨
          (inp[i]? == some 0x23) = true ∨ (Spec.isSpecial k.url = true ∧ (inp[i]? == some 0x5C) = true) then
        if Spec.isSpecial k.url = true ∧ k.buffer = [] then .failure k.url
        else if ov.isSome = true ∧ k.buffer = [] ∧
            (Spec.includesCredentials k.url || k.url.port.isSome) = true then .done k.url
        else match Spec.hostParse idna k.buffer (!Spec.isSpecial k.url) with
          | none => .failure k.url
          | some h =>
            if ov.isSome = true then .done { k.url with host := some h }
            else .continue { k with url := { k.url with host := some h }, buffer := [], state := .pathStart,
                                    p := k.p - 1 }
      else .continue { k with
        insideBrackets := (if (inp[i]? == some 0x5B) = true then true
                           else if (inp[i]? == some 0x5D) = true then false else k.insideBrackets),
        buffer := k.buffer ++ inp[i]?.toList } := by
  rcases hs with hs | hs <;> (unfold step; simp only [hs, hp, Int.toNat_natCast, ptr_neg, if_false]) <;> rfl
end

/-- the authority end test of the code for the URL's scheme class -/
def isEndC (u : Url) : Nat → Bool :=
  if u.isSpecial then Impl.isSpecialAuthorityEnd else Impl.isAuthorityEnd

theorem end_iff (c : Nat) (u : Url) :
    ((some c).isNone = true ∨ (some c == some 0x2F) = true ∨ (some c == some 0x3F) = true ∨
      (some c == some 0x23) = true ∨ (Spec.isSpecial u = true ∧ (some c == some 0x5C) = true)) ↔
    isEndC u c = true := by
  unfold isEndC
  rw [isSpecial_eq]
  cases u.isSpecial <;>
    simp [Impl.isAuthorityEnd, Impl.isSpecialAuthorityEnd, Bool.or_assoc]

theorem isEndC_colon (u : Url) : isEndC u 0x3A = false := by
  unfold isEndC; split <;> rfl
theorem isEndC_at (u : Url) : isEndC u 0x40 = false := by
  unfold isEndC; split <;> rfl

/-- what the host state does once the host string `buf` is delimited: by a port colon
    (`portPart = some` rest of the authority) or by the end of the authority -/
def hostFin (idna : Idna) (ov : Option Override) (u : Url) (buf : List Nat) (portPart : Option (List Nat))
    (afterAuth : List Nat) : Res :=
  if buf = [] && (portPart.isSome || u.isSpecial) then ⟨.failure, u⟩
  else if buf = [] && ov.isSome && (u.hasCredentials || u.port.isSome) then ⟨.ignored, u⟩
  else if portPart.isSome && ov = some .hostname then ⟨.ignored, u⟩
  else
    match Impl.parseHost idna buf (!u.isSpecial) with
    | none => ⟨.failure, u⟩
    | some h =>
      match portPart with
      | some pp => Impl.portState ov { u with host := some h } (pp ++ afterAuth)
      | none => if ov.isSome then ⟨.ok, { u with host := some h }⟩
                else Impl.pathStartState ov { u with host := some h } afterAuth

theorem hostState_eq (idna : Idna) (ov : Option Override) (u : Url) (p : List Nat)
    (h : ¬ (ov.isSome = true ∧ u.scheme = Impl.sFile)) :
    Impl.hostState idna ov u p =
      hostFin idna ov u (Impl.hostScan (p.takeWhile (fun c => !isEndC u c)) false).1
        (Impl.hostScan (p.takeWhile (fun c => !isEndC u c)) false).2 (p.dropWhile (fun c => !isEndC u c)) := by
  unfold Impl.hostState hostFin isEndC
  have : (ov.isSome && u.isFile) = false := by
    simp only [Url.isFile, Impl.isFileScheme]
    cases ho : ov.isSome <;> simp_all
  rw [this]
  simp only [Bool.false_eq_true, if_false]
  rfl

section
variable {idna : Idna} {base : Option Url} {ov : Option Override}

theorem ov_hostname_iff (ov : Option Override) : ov.map ovState = some State.hostname ↔ ov = some .hostname := by
  cases ov with
  | none => simp
  | some o => cases o <;> simp [ovState]

theorem includesCredentials_eq (u : Url) : Spec.includesCredentials u = u.hasCredentials := rfl

/-- the host state at the end of the authority (EOF or an authority end code point) -/
theorem run_host_end
    (hHost : ∀ s o, (∀ c ∈ s, Spec.isScalar c = true) → Impl.parseHost idna s o = Spec.hostParse idna s o)
    (sim_pathStart : SimAt idna base ov .pathStart 1 2 (fun _ => True) (Impl.pathStartState ov))
    {inp : Array Nat} (hsc : ∀ x ∈ inp.toList, Spec.isScalar x = true) {k : Cfg} {i fuel : Nat}
    (hs : k.state = .host ∨ k.state = .hostname) (hp : k.p = (i : Int)) (hi : i ≤ inp.size)
    (hnf : ¬ (ov.isSome = true ∧ k.url.scheme = Impl.sFile))
    (hbsc : ∀ c ∈ k.buffer, Spec.isScalar c = true)
    (hncolon : ¬ ((inp[i]? == some 0x3A) = true ∧ k.insideBrackets = false))
    (hend : inp[i]?.isNone = true ∨ (inp[i]? == some 0x2F) = true ∨ (inp[i]? == some 0x3F) = true ∨
          (inp[i]? == some 0x23) = true ∨ (Spec.isSpecial k.url = true ∧ (inp[i]? == some 0x5C) = true))
    (hf : fuel ≥ (inp.size - i) + 3) :
    run idna inp base (ov.map ovState) fuel k =
      resOf ov (hostFin idna ov k.url k.buffer none (inp.toList.drop i)) := by
  have hst := step_host (idna := idna) (inp := inp) (base := base) (ov := ov.map ovState) hs hp
  rw [if_neg (by simpa using hnf), if_neg hncolon, if_pos hend] at hst
  obtain ⟨f, rfl, hf'⟩ := fuel_succ (n := inp.size - i + 2) hf
  unfold hostFin
  simp only [isSpecial_eq, includesCredentials_eq, Option.isSome_map] at hst
  simp only [Option.isSome_none, Bool.false_or, Bool.false_and, Bool.false_eq_true, if_false]
  by_cases h1 : k.url.isSpecial = true ∧ k.buffer = []
  · rw [if_pos h1] at hst
    rw [if_pos (by simp [h1.1, h1.2]), run_failure f hst]; rfl
  · rw [if_neg h1] at hst
    rw [if_neg (by simpa [and_comm] using h1)]
    by_cases h2 : ov.isSome = true ∧ k.buffer = [] ∧ (k.url.hasCredentials || k.url.port.isSome) = true
    · rw [if_pos h2] at hst
      rw [if_pos (by simp [h2.1, h2.2.1, h2.2.2]), run_done f hst]
      obtain ⟨o, rfl⟩ := Option.isSome_iff_exists.1 h2.1
      rfl
    · rw [if_neg h2] at hst
      rw [if_neg (by
        intro h; apply h2; simp only [Bool.and_eq_true, decide_eq_true_eq] at h
        exact ⟨h.1.2, h.1.1, h.2⟩)]
      rw [← hHost _ _ hbsc] at hst
      cases hh : Impl.parseHost idna k.buffer (!k.url.isSpecial) with
      | none =>
        rw [hh] at hst; simp only at hst ⊢
        rw [run_failure f hst]; rfl
      | some h =>
        rw [hh] at hst; simp only at hst ⊢
        cases hov : ov with
        | some o =>
          subst hov
          simp only [Option.isSome_some, if_true] at hst ⊢
          rw [run_done f hst]; rfl
        | none =>
          subst hov
          simp only [Option.isSome_none, Bool.false_eq_true, if_false] at hst ⊢
          exact SimAt.after_step (j := i) sim_pathStart (k := k) (fuel := f + 1) hst rfl rfl
            (by simp [hp]) trivial hi hsc (by omega)
end

section
variable {idna : Idna} {base : Option Url} {ov : Option Override}

/-- the host state at a ':' outside square brackets -/
theorem run_host_colon
    (hHost : ∀ s o, (∀ c ∈ s, Spec.isScalar c = true) → Impl.parseHost idna s o = Spec.hostParse idna s o)
    (sim_pathStart : SimAt idna base ov .pathStart 1 2 (fun _ => True) (Impl.pathStartState ov))
    {inp : Array Nat} (hsc : ∀ x ∈ inp.toList, Spec.isScalar x = true) {k : Cfg} {i fuel : Nat}
    (hs : k.state = .host ∨ k.state = .hostname) (hp : k.p = (i : Int)) (hi : i < inp.size)
    (hnf : ¬ (ov.isSome = true ∧ k.url.scheme = Impl.sFile))
    (hbsc : ∀ c ∈ k.buffer, Spec.isScalar c = true)
    (hc : inp[i]? = some 0x3A) (hib : k.insideBrackets = false)
    (pp aa : List Nat) (hpp : inp.toList.drop (i + 1) = pp ++ aa)
    (hf : fuel ≥ (inp.size - i) + 3) :
    run idna inp base (ov.map ovState) fuel k =
      resOf ov (hostFin idna ov k.url k.buffer (some pp) aa) := by
  have hst := step_host (idna := idna) (inp := inp) (base := base) (ov := ov.map ovState) hs hp
  rw [if_neg (by simpa using hnf), if_pos (by simp [hc, hib])] at hst
  obtain ⟨f, rfl, hf'⟩ := fuel_succ (n := inp.size - i + 2) hf
  unfold hostFin
  simp only [isSpecial_eq, ov_hostname_iff] at hst
  simp only [Option.isSome_some, Bool.true_or, Bool.and_true, Bool.true_and]
  by_cases h1 : k.buffer = []
  · rw [if_pos h1] at hst
    rw [if_pos (by simp [h1]), run_failure f hst]; rfl
  · rw [if_neg h1] at hst
    rw [if_neg (by simp [h1]), if_neg (by simp [h1])]
    by_cases h2 : ov = some .hostname
    · rw [if_pos h2] at hst
      rw [if_pos (by simp [h2]), run_done f hst, h2]
      rfl
    · rw [if_neg h2] at hst
      rw [if_neg (by simpa using h2)]
      rw [← hHost _ _ hbsc] at hst
      cases hh : Impl.parseHost idna k.buffer (!k.url.isSpecial) with
      | none =>
        rw [hh] at hst; simp only at hst ⊢
        rw [run_failure f hst]; rfl
      | some h =>
        rw [hh] at hst; simp only at hst ⊢
        rw [← hpp]
        exact SimAt.after_step (j := i + 1) (sim_port sim_pathStart) (k := k) (fuel := f + 1) hst rfl rfl
          (by simp [hp]) trivial (by omega) hsc (by omega)
end

theorem hostScan_colon (r : List Nat) : Impl.hostScan (0x3A :: r) false = ([], some r) := by
  simp [Impl.hostScan]

theorem hostScan_other (c : Nat) (r : List Nat) (ib : Bool) (h : ¬ (c = 0x3A ∧ ib = false)) :
    Impl.hostScan (c :: r) ib =
      (c :: (Impl.hostScan r (if c = 0x5B then true else if c = 0x5D then false else ib)).1,
        (Impl.hostScan r (if c = 0x5B then true else if c = 0x5D then false else ib)).2) := by
  rw [Impl.hostScan]
  by_cases h1 : c = 0x3A
  · subst h1
    have : ib = true := by simpa using h
    subst this
    simp
  · rw [if_neg h1]
    by_cases h2 : c = 0x5B
    · simp [h2]
    · by_cases h3 : c = 0x5D
      · simp [h3]
      · simp [h2, h3]

section
variable {idna : Idna} {base : Option Url} {ov : Option Override}

/-- the host state with a general buffer and bracket flag -/
theorem run_host
    (hHost : ∀ s o, (∀ c ∈ s, Spec.isScalar c = true) → Impl.parseHost idna s o = Spec.hostParse idna s o)
    (sim_pathStart : SimAt idna base ov .pathStart 1 2 (fun _ => True) (Impl.pathStartState ov))
    (inp : Array Nat) (hsc : ∀ x ∈ inp.toList, Spec.isScalar x = true) :
    ∀ (rest : List Nat) (k : Cfg) (i fuel : Nat), inp.toList.drop i = rest →
      (k.state = .host ∨ k.state = .hostname) → k.p = (i : Int) → i ≤ inp.size →
      ¬ (ov.isSome = true ∧ k.url.scheme = Impl.sFile) →
      (∀ c ∈ k.buffer, Spec.isScalar c = true) → fuel ≥ rest.length + 3 →
      run idna inp base (ov.map ovState) fuel k =
        resOf ov (hostFin idna ov k.url
          (k.buffer ++ (Impl.hostScan (rest.takeWhile (fun c => !isEndC k.url c)) k.insideBrackets).1)
          (Impl.hostScan (rest.takeWhile (fun c => !isEndC k.url c)) k.insideBrackets).2
          (rest.dropWhile (fun c => !isEndC k.url c))) := by
  intro rest
  induction rest with
  | nil =>
    intro k i fuel hd hs hp hi hnf hbsc hf
    obtain ⟨hnone, hsize⟩ := getElem?_of_drop_nil hd
    have := run_host_end hHost sim_pathStart hsc hs hp hi hnf hbsc (by simp [hnone]) (by simp [hnone])
      (fuel := fuel) (by simp at hf; omega)
    rw [this, hd]
    simp [Impl.hostScan]
  | cons c r ih =>
    intro k i fuel hd hs hp hi hnf hbsc hf
    obtain ⟨hget, hlt, hd'⟩ := getElem?_of_drop_cons hd
    have hlen := drop_length hd
    simp only [List.length_cons] at hlen hf
    by_cases hend : isEndC k.url c = true
    · have hne : c ≠ 0x3A := by
        intro h; rw [h, isEndC_colon] at hend; cases hend
      have := run_host_end hHost sim_pathStart hsc hs hp hi hnf hbsc (by simp [hget, hne])
        (by rw [hget]; exact (end_iff c k.url).2 hend) (fuel := fuel) (by omega)
      rw [this, hd, List.takeWhile_cons_of_neg (by simp [hend]), List.dropWhile_cons_of_neg (by simp [hend])]
      simp [Impl.hostScan]
    · have hend' : (!isEndC k.url c) = true := by simpa using hend
      rw [List.takeWhile_cons_of_pos (p := fun c => !isEndC k.url c) hend',
        List.dropWhile_cons_of_pos (p := fun c => !isEndC k.url c) hend']
      by_cases hcol : c = 0x3A ∧ k.insideBrackets = false
      · obtain ⟨rfl, hib⟩ := hcol
        rw [hib, hostScan_colon]
        have := run_host_colon hHost sim_pathStart hsc hs hp hlt hnf hbsc hget hib
          (r.takeWhile (fun c => !isEndC k.url c)) (r.dropWhile (fun c => !isEndC k.url c))
          (by rw [hd', List.takeWhile_append_dropWhile]) (fuel := fuel) (by omega)
        rw [this]; simp
      · have hst := step_host (idna := idna) (inp := inp) (base := base) (ov := ov.map ovState) hs hp
        rw [if_neg (by simpa using hnf), if_neg (by simpa [hget] using hcol),
          if_neg (by rw [hget, end_iff]; exact hend)] at hst
        obtain ⟨f, rfl, hf'⟩ := fuel_succ (n := r.length + 3) hf
        rw [run_continue' (j := i + 1) f hst (by simp [hp]) (by omega)]
        refine (ih _ (i + 1) f hd' ?_ ?_ (by omega) ?_ ?_ hf').trans ?_
        · exact hs
        · rfl
        · exact hnf
        · intro x hx
          simp only [hget, Option.toList_some, List.mem_append, List.mem_singleton] at hx
          rcases hx with hx | rfl
          · exact hbsc x hx
          · exact hsc x (by rw [← List.take_append_drop i inp.toList, hd]; simp)
        · rw [hostScan_other c _ _ hcol]
          simp [hget]
end

section
variable {idna : Idna} {base : Option Url} {ov : Option Override}

theorem _root_.Upa.Proofs.C01.sim_host_gen (S : State) (hS : S = .host ∨ S = .hostname)
    (hHost : ∀ s o, (∀ c ∈ s, Spec.isScalar c = true) → Impl.parseHost idna s o = Spec.hostParse idna s o)
    (sim_pathStart : SimAt idna base ov .pathStart 1 2 (fun _ => True) (Impl.pathStartState ov))
    (sim_fileHost : ov.isSome = true →
      SimAt idna base ov .fileHost 1 1 (fun _ => True) (Impl.fileHostState idna ov)) :
    SimAt idna base ov S 1 3 (fun k => k.insideBrackets = false) (Impl.hostState idna ov) := by
  intro inp k i fuel hs hb hp hib hi hsc hf
  have hs' : k.state = .host ∨ k.state = .hostname := by rw [hs]; exact hS
  by_cases hfile : ov.isSome = true ∧ k.url.scheme = Impl.sFile
  · have hst := step_host (idna := idna) (inp := inp) (base := base) (ov := ov.map ovState) hs' hp
    rw [if_pos (by simpa using hfile)] at hst
    have := SimAt.after_step (j := i) (sim_fileHost hfile.1) (k := k) (fuel := fuel) hst rfl hb
      (by simp [hp]) trivial hi hsc (by omega)
    rw [this]
    unfold Impl.hostState
    rw [if_pos (by simp [hfile.1, Url.isFile, Impl.isFileScheme, hfile.2])]
  · rw [hostState_eq idna ov k.url _ hfile,
      run_host hHost sim_pathStart inp hsc _ k i fuel rfl hs' hp hi hfile (by simp [hb]) (by simp; omega),
      hb, hib]
    rfl

/-- host state -/
theorem _root_.Upa.Proofs.C01.sim_host
    (hHost : ∀ s o, (∀ c ∈ s, Spec.isScalar c = true) → Impl.parseHost idna s o = Spec.hostParse idna s o)
    (sim_pathStart : SimAt idna base ov .pathStart 1 2 (fun _ => True) (Impl.pathStartState ov))
    (sim_fileHost : ov.isSome = true →
      SimAt idna base ov .fileHost 1 1 (fun _ => True) (Impl.fileHostState idna ov)) :
    SimAt idna base ov .host 1 3 (fun k => k.insideBrackets = false) (Impl.hostState idna ov) :=
  sim_host_gen .host (Or.inl rfl) hHost sim_pathStart sim_fileHost

/-- hostname state (only entered as a state override) -/
theorem _root_.Upa.Proofs.C01.sim_hostname
    (hHost : ∀ s o, (∀ c ∈ s, Spec.isScalar c = true) → Impl.parseHost idna s o = Spec.hostParse idna s o)
    (sim_pathStart : SimAt idna base ov .pathStart 1 2 (fun _ => True) (Impl.pathStartState ov))
    (sim_fileHost : ov.isSome = true →
      SimAt idna base ov .fileHost 1 1 (fun _ => True) (Impl.fileHostState idna ov)) :
    SimAt idna base ov .hostname 1 3 (fun k => k.insideBrackets = false) (Impl.hostState idna ov) :=
  sim_host_gen .hostname (Or.inr rfl) hHost sim_pathStart sim_fileHost
end

/-! ## authority state: pure part -/

/-- split at the last '@', by recursion -/
def lastAt : List Nat → Option (List Nat × List Nat)
  | [] => none
  | c :: r =>
    match lastAt r with
    | some (a, b) => some (c :: a, b)
    | none => if c = 0x40 then some ([], r) else none

theorem splitLastAt_cons (c : Nat) (r : List Nat) :
    Impl.splitLastAt (c :: r) =
      match Impl.splitLastAt r with
      | some (a, b) => some (c :: a, b)
      | none => if c = 0x40 then some ([], r) else none := by
  unfold Impl.splitLastAt
  simp only [List.reverse_cons]
  rw [List.dropWhile_append, List.takeWhile_append]
  have hsplit := List.takeWhile_append_dropWhile (p := (· != 0x40)) (l := r.reverse)
  cases h : List.dropWhile (· != 0x40) r.reverse with
  | nil =>
    rw [h, List.append_nil] at hsplit
    rw [hsplit]
    by_cases hc : c = 0x40
    · subst hc; simp
    · simp [hc]
  | cons x before =>
    have hlen := congrArg List.length hsplit
    rw [h] at hlen
    simp only [List.length_append, List.length_cons] at hlen
    have h1 : ¬ (List.takeWhile (· != 0x40) r.reverse).length = r.reverse.length := by omega
    simp only [List.isEmpty_cons, Bool.false_eq_true, if_false, if_neg h1]
    simp

theorem splitLastAt_eq (s : List Nat) : Impl.splitLastAt s = lastAt s := by
  induction s with
  | nil => rfl
  | cons c r ih => rw [splitLastAt_cons, ih]; rfl


/-- the authority state's buffer / atSignSeen bookkeeping on the authority slice (no end code point in
    it): returns (atSignSeen, the code points fed to the credential loop with '@' for each "%40",
    buffer) at the end of the authority -/
def authScan : List Nat → List Nat → Bool → Bool × List Nat × List Nat
  | [], buf, seen => (seen, [], buf)
  | c :: r, buf, seen =>
    if c = 0x40 then
      ((authScan r [] true).1, (if seen then 0x40 :: buf else buf) ++ (authScan r [] true).2.1,
        (authScan r [] true).2.2)
    else authScan r (buf ++ [c]) seen

theorem authScan_eq (a : List Nat) : ∀ (buf : List Nat) (seen : Bool),
    authScan a buf seen =
      match lastAt a with
      | none => (seen, [], buf ++ a)
      | some (cred, hp) => (true, (if seen then 0x40 :: (buf ++ cred) else buf ++ cred), hp) := by
  induction a with
  | nil => intro buf seen; simp [authScan, lastAt]
  | cons c r ih =>
    intro buf seen
    rw [authScan, lastAt]
    by_cases hc : c = 0x40
    · subst hc
      rw [if_pos rfl, ih]
      cases lastAt r with
      | none => cases seen <;> simp
      | some ab => cases seen <;> simp
    · rw [if_neg hc, ih]
      cases lastAt r with
      | none => simp [hc]
      | some ab => cases seen <;> simp

/-- one iteration of "for each codePoint in buffer" of the authority state on
    (passwordTokenSeen, username, password) -/
def credStep (st : Bool × List Nat × List Nat) (cp : Nat) : Bool × List Nat × List Nat :=
  if cp = 0x3A ∧ st.1 = false then (true, st.2.1, st.2.2)
  else if st.1 = true then (st.1, st.2.1, st.2.2 ++ Spec.utf8PercentEncodeChar Spec.userinfoSet cp)
  else (st.1, st.2.1 ++ Spec.utf8PercentEncodeChar Spec.userinfoSet cp, st.2.2)

theorem loop_eq (s : List Nat) : ∀ (pw : Bool) (user pass : List Nat),
    Spec.step.loop s pw user pass = s.foldl credStep (pw, user, pass) := by
  induction s with
  | nil => intro pw user pass; simp [Spec.step.loop]
  | cons c r ih =>
    intro pw user pass
    rw [Spec.step.loop, List.foldl_cons]
    by_cases h : c = 0x3A ∧ pw = false
    · rw [if_pos h, ih]; simp only [credStep, h, and_self, if_true]
    · rw [if_neg h]
      cases pw
      · have hc : c ≠ 0x3A := by simpa using h
        simp [ih, credStep, hc]
      · simp [ih, credStep]

theorem credStep_pct40 (st : Bool × List Nat × List Nat) (b : List Nat) :
    (asciiStr "%40" ++ b).foldl credStep st = (0x40 :: b).foldl credStep st := by
  have e : asciiStr "%40" = [0x25, 0x34, 0x30] := by decide
  rw [e]
  simp only [List.cons_append, List.nil_append, List.foldl_cons]
  congr 1
  obtain ⟨pw, user, pass⟩ := st
  have e1 : Spec.utf8PercentEncodeChar Spec.userinfoSet 0x25 = [0x25] := by decide
  have e2 : Spec.utf8PercentEncodeChar Spec.userinfoSet 0x34 = [0x34] := by decide
  have e3 : Spec.utf8PercentEncodeChar Spec.userinfoSet 0x30 = [0x30] := by decide
  have e4 : Spec.utf8PercentEncodeChar Spec.userinfoSet 0x40 = [0x25, 0x34, 0x30] := by decide
  cases pw <;> simp [credStep, e1, e2, e3, e4]

theorem fold_cred_true (s : List Nat) : ∀ (user pass : List Nat),
    s.foldl credStep (true, user, pass) = (true, user, pass ++ Spec.utf8PercentEncode Spec.userinfoSet s) := by
  induction s with
  | nil => intro user pass; simp [Spec.utf8PercentEncode]
  | cons c r ih =>
    intro user pass
    rw [List.foldl_cons]
    simp only [credStep, Bool.true_eq_false, and_false, if_false, if_true]
    rw [ih]; simp [Spec.utf8PercentEncode]

theorem fold_cred_false (s : List Nat) : ∀ (user pass : List Nat),
    (s.foldl credStep (false, user, pass)).2 =
      (user ++ Spec.utf8PercentEncode Spec.userinfoSet (s.takeWhile (· != 0x3A)),
       pass ++ Spec.utf8PercentEncode Spec.userinfoSet ((s.dropWhile (· != 0x3A)).drop 1)) := by
  induction s with
  | nil => intro user pass; simp [Spec.utf8PercentEncode]
  | cons c r ih =>
    intro user pass
    rw [List.foldl_cons]
    by_cases hc : c = 0x3A
    · subst hc
      simp [credStep, fold_cred_true, Spec.utf8PercentEncode]
    · simp only [credStep, hc, false_and, if_false, Bool.false_eq_true]
      rw [ih]
      simp [hc, Spec.utf8PercentEncode]


theorem loop_at (seen : Bool) (buf : List Nat) (pw : Bool) (user pass : List Nat) :
    Spec.step.loop (if seen = true then asciiStr "%40" ++ buf else buf) pw user pass =
      (if seen = true then 0x40 :: buf else buf).foldl credStep (pw, user, pass) := by
  rw [loop_eq]
  cases seen
  · rfl
  · simp only [if_true]; exact credStep_pct40 _ _

section
variable {idna : Idna} {base : Option Url} {inp : Array Nat} {ov : Option State}

theorem step_authority {k : Cfg} {i : Nat} (hs : k.state = .authority) (hp : k.p = (i : Int)) :
    step idna inp base ov k =
      if (inp[i]? == some 0x40) = true then
        .continue { k with
          url := { k.url with
            username := ((if k.atSignSeen = true then 0x40 :: k.buffer else k.buffer).foldl credStep
              (k.passwordTokenSeen, k.url.username, k.url.password)).2.1,
            password := ((if k.atSignSeen = true then 0x40 :: k.buffer else k.buffer).foldl credStep
              (k.passwordTokenSeen, k.url.username, k.url.password)).2.2 },
          atSignSeen := true,
          passwordTokenSeen := ((if k.atSignSeen = true then 0x40 :: k.buffer else k.buffer).foldl credStep
              (k.passwordTokenSeen, k.url.username, k.url.password)).1,
          buffer := [] }
      else if inp[i]?.isNone = true ∨ (inp[i]? == some 0x2F) = true ∨ (inp[i]? == some 0x3F) = true ∨
          (inp[i]? == some 0x23) = true ∨ (Spec.isSpecial k.url = true ∧ (inp[i]? == some 0x5C) = true) then
        if k.atSignSeen = true ∧ k.buffer = [] then .failure k.url
        else .continue { k with p := k.p - (k.buffer.length + 1), buffer := [], state := .host }
      else .continue { k with buffer := k.buffer ++ inp[i]?.toList } := by
  unfold step
  simp only [hs, hp, Int.toNat_natCast, ptr_neg, if_false, loop_at]
end

/-- result of the authority state given the bookkeeping `scan` at the end of the authority
    (`Spec.run`'s pair: on "host missing" the Standard has already written the credentials) -/
def authFin (idna : Idna) (ov : Option Override) (u : Url) (pw : Bool) (scan : Bool × List Nat × List Nat)
    (after : List Nat) : Option Url × Url :=
  if scan.1 = true ∧ scan.2.2 = [] then
    (none, { u with username := (scan.2.1.foldl credStep (pw, u.username, u.password)).2.1,
                    password := (scan.2.1.foldl credStep (pw, u.username, u.password)).2.2 })
  else resOf ov (Impl.hostState idna ov
    { u with username := (scan.2.1.foldl credStep (pw, u.username, u.password)).2.1,
             password := (scan.2.1.foldl credStep (pw, u.username, u.password)).2.2 } (scan.2.2 ++ after))

section
variable {idna : Idna} {base : Option Url} {ov : Option Override}

/-- the authority state at the end of the authority -/
theorem run_authority_end
    (sim_host : SimAt idna base ov .host 1 3 (fun k => k.insideBrackets = false) (Impl.hostState idna ov))
    {inp : Array Nat} (hsc : ∀ x ∈ inp.toList, Spec.isScalar x = true) {k : Cfg} {i fuel : Nat}
    (hs : k.state = .authority) (hp : k.p = (i : Int)) (hi : i ≤ inp.size) (hib : k.insideBrackets = false)
    (hm : ∃ m, m + k.buffer.length = i ∧ inp.toList.drop m = k.buffer ++ inp.toList.drop i)
    (hnat : ¬ (inp[i]? == some 0x40) = true)
    (hend : inp[i]?.isNone = true ∨ (inp[i]? == some 0x2F) = true ∨ (inp[i]? == some 0x3F) = true ∨
          (inp[i]? == some 0x23) = true ∨ (Spec.isSpecial k.url = true ∧ (inp[i]? == some 0x5C) = true))
    (hf : fuel ≥ (inp.size - i) + k.buffer.length + 4) :
    run idna inp base (ov.map ovState) fuel k =
      authFin idna ov k.url k.passwordTokenSeen (k.atSignSeen, [], k.buffer) (inp.toList.drop i) := by
  have hst := step_authority (idna := idna) (inp := inp) (base := base) (ov := ov.map ovState) hs hp
  rw [if_neg hnat, if_pos hend] at hst
  obtain ⟨f, rfl, hf'⟩ := fuel_succ (n := inp.size - i + k.buffer.length + 3) hf
  unfold authFin
  simp only [List.foldl_nil]
  by_cases h1 : k.atSignSeen = true ∧ k.buffer = []
  · rw [if_pos h1] at hst
    rw [if_pos h1, run_failure f hst]
  · rw [if_neg h1] at hst
    rw [if_neg h1]
    obtain ⟨m, hm1, hm2⟩ := hm
    have := SimAt.after_step (j := m) sim_host (k := k) (fuel := f + 1) hst rfl rfl
      (by simp only [hp]; omega) hib (by omega) hsc (by omega)
    rw [this, hm2]
end

section
variable {idna : Idna} {base : Option Url} {ov : Option Override}

/-- the authority state with general buffer / flags -/
theorem run_authority
    (sim_host : SimAt idna base ov .host 1 3 (fun k => k.insideBrackets = false) (Impl.hostState idna ov))
    (inp : Array Nat) (hsc : ∀ x ∈ inp.toList, Spec.isScalar x = true) :
    ∀ (rest : List Nat) (k : Cfg) (i fuel : Nat), inp.toList.drop i = rest →
      k.state = .authority → k.p = (i : Int) → i ≤ inp.size → k.insideBrackets = false →
      (∃ m, m + k.buffer.length = i ∧ inp.toList.drop m = k.buffer ++ rest) →
      fuel ≥ 2 * rest.length + k.buffer.length + 4 →
      run idna inp base (ov.map ovState) fuel k =
        authFin idna ov k.url k.passwordTokenSeen
          (authScan (rest.takeWhile (fun c => !isEndC k.url c)) k.buffer k.atSignSeen)
          (rest.dropWhile (fun c => !isEndC k.url c)) := by
  intro rest
  induction rest with
  | nil =>
    intro k i fuel hd hs hp hi hib hm hf
    obtain ⟨hnone, hsize⟩ := getElem?_of_drop_nil hd
    have := run_authority_end sim_host hsc hs hp hi hib (by rw [hd]; exact hm) (by simp [hnone])
      (by simp [hnone]) (fuel := fuel) (by simp at hf; omega)
    rw [this, hd]
    simp [authScan]
  | cons c r ih =>
    intro k i fuel hd hs hp hi hib hm hf
    obtain ⟨hget, hlt, hd'⟩ := getElem?_of_drop_cons hd
    have hlen := drop_length hd
    simp only [List.length_cons] at hlen hf
    by_cases hend : isEndC k.url c = true
    · have hne : c ≠ 0x40 := by
        intro h; rw [h, isEndC_at] at hend; cases hend
      have := run_authority_end sim_host hsc hs hp hi hib (by rw [hd]; exact hm) (by simp [hget, hne])
        (by rw [hget]; exact (end_iff c k.url).2 hend) (fuel := fuel) (by omega)
      rw [this, hd, List.takeWhile_cons_of_neg (by simp [hend]), List.dropWhile_cons_of_neg (by simp [hend])]
      simp [authScan]
    · have hend' : (!isEndC k.url c) = true := by simpa using hend
      rw [List.takeWhile_cons_of_pos (p := fun c => !isEndC k.url c) hend',
        List.dropWhile_cons_of_pos (p := fun c => !isEndC k.url c) hend']
      have hst := step_authority (idna := idna) (inp := inp) (base := base) (ov := ov.map ovState) hs hp
      obtain ⟨f, rfl, hf'⟩ := fuel_succ (n := 2 * r.length + k.buffer.length + 5)
        (show fuel ≥ 2 * r.length + k.buffer.length + 5 + 1 by omega)
      by_cases hat : c = 0x40
      · subst hat
        rw [if_pos (by simp [hget])] at hst
        rw [run_continue' (j := i + 1) f hst (by simp [hp]) (by omega)]
        refine (ih _ (i + 1) f hd' ?_ ?_ (by omega) ?_ ?_ ?_).trans ?_
        · exact hs
        · rfl
        · exact hib
        · exact ⟨i + 1, by simp, by simp [hd']⟩
        · simp only [List.length_nil]; omega
        · rw [authScan, if_pos rfl]
          unfold authFin
          simp only [List.foldl_append]
          rfl
      · rw [if_neg (by simp [hget, hat]), if_neg (by rw [hget, end_iff]; exact hend)] at hst
        rw [run_continue' (j := i + 1) f hst (by simp [hp]) (by omega)]
        refine (ih _ (i + 1) f hd' ?_ ?_ (by omega) ?_ ?_ ?_).trans ?_
        · exact hs
        · rfl
        · exact hib
        · obtain ⟨m, hm1, hm2⟩ := hm
          refine ⟨m, ?_, ?_⟩
          · simp only [hget, Option.toList_some, List.length_append, List.length_singleton]; omega
          · simp only [hget, Option.toList_some, List.append_assoc, List.singleton_append]; exact hm2
        · simp only [hget, Option.toList_some, List.length_append, List.length_singleton]; omega
        · rw [authScan, if_neg hat]
          simp [hget]
end

/-! ## authority state: the code block -/

theorem lastAt_some {a cred hp : List Nat} (h : lastAt a = some (cred, hp)) : a = cred ++ 0x40 :: hp := by
  induction a generalizing cred with
  | nil => simp [lastAt] at h
  | cons c r ih =>
    rw [lastAt] at h
    cases hr : lastAt r with
    | none =>
      rw [hr] at h
      by_cases hc : c = 0x40
      · simp only [hc, if_true, Option.some.injEq, Prod.mk.injEq] at h
        obtain ⟨rfl, rfl⟩ := h
        simp [hc]
      · simp [hc] at h
    | some ab =>
      obtain ⟨a', b'⟩ := ab
      rw [hr] at h
      simp only [Option.some.injEq, Prod.mk.injEq] at h
      obtain ⟨rfl, rfl⟩ := h
      rw [ih hr]; simp

/-- agreement of two `Spec.run`-shaped results: equal, or both failure (the URL left behind by a
    failing run without state override has no meaning in the Standard; the authority state of the
    Standard writes the credentials before it detects the missing host, the code does not) -/
def _root_.Upa.Proofs.C01.ResAgree (r e : Option Url × Url) : Prop := r = e ∨ (r.1 = none ∧ e.1 = none)

theorem _root_.Upa.Proofs.C01.ResAgree.rfl' {r : Option Url × Url} : ResAgree r r := Or.inl rfl
theorem _root_.Upa.Proofs.C01.ResAgree.fst {r e : Option Url × Url} (h : ResAgree r e) : r.1 = e.1 := by
  rcases h with h | ⟨h1, h2⟩
  · rw [h]
  · rw [h1, h2]
theorem _root_.Upa.Proofs.C01.ResAgree.snd {r e : Option Url × Url} (h : ResAgree r e) (hne : r.1 ≠ none) : r.2 = e.2 := by
  rcases h with h | ⟨h1, _⟩
  · rw [h]
  · exact absurd h1 hne

theorem cred_url_eq (u : Url) (hu : u.username = []) (hpw : u.password = []) (user pw : List Nat)
    (E : List Nat → List Nat) (h0 : E [] = []) :
    ({ u with username := E user, password := E pw } : Url) =
      if (pw ≠ [] || user ≠ []) = true then
        { u with username := E user, password := if pw ≠ [] then E pw else u.password }
      else u := by
  by_cases h1 : pw = []
  · by_cases h2 : user = []
    · subst h1; subst h2
      cases u
      simp_all
    · subst h1
      simp [h2, h0, hpw]
  · simp [h1]

theorem authorityState_agree (idna : Idna) (ov : Option Override) (u : Url) (p : List Nat)
    (hu : u.username = []) (hpw : u.password = []) (hp : ∀ c ∈ p, Spec.isScalar c = true) :
    ResAgree
      (authFin idna ov u false (authScan (p.takeWhile (fun c => !isEndC u c)) [] false)
        (p.dropWhile (fun c => !isEndC u c)))
      (resOf ov (Impl.authorityState idna ov u p)) := by
  unfold Impl.authorityState
  simp only
  rw [splitLastAt_eq, authScan_eq]
  have hauth : ∀ c ∈ p.takeWhile (fun c => !isEndC u c), Spec.isScalar c = true :=
    fun c hc => hp c ((List.takeWhile_prefix _).sublist.subset hc)
  change ResAgree (authFin idna ov u false
      (match lastAt (p.takeWhile (fun c => !isEndC u c)) with
        | none => (false, [], [] ++ p.takeWhile (fun c => !isEndC u c))
        | some (cred, hp) => (true, (if false = true then 0x40 :: ([] ++ cred) else [] ++ cred), hp))
      (p.dropWhile (fun c => !isEndC u c)))
    (resOf ov (match lastAt (p.takeWhile (fun c => !isEndC u c)) with
      | none => Impl.hostState idna ov u p
      | some (cred, hostport) =>
        if hostport = [] then ⟨.failure, u⟩
        else Impl.hostState idna ov
          (if ((cred.dropWhile (· != 0x3A)).drop 1 ≠ [] || cred.takeWhile (· != 0x3A) ≠ []) = true then
            { u with username := Impl.percentEncode Impl.userinfoNoEnc (cred.takeWhile (· != 0x3A)),
                     password := if (cred.dropWhile (· != 0x3A)).drop 1 ≠ [] then
                        Impl.percentEncode Impl.userinfoNoEnc ((cred.dropWhile (· != 0x3A)).drop 1)
                      else u.password }
           else u) (hostport ++ p.dropWhile (fun c => !isEndC u c))))
  cases hl : lastAt (p.takeWhile (fun c => !isEndC u c)) with
  | none =>
    left
    simp only [authFin, List.foldl_nil, Bool.false_eq_true, false_and, if_false, List.nil_append,
      List.takeWhile_append_dropWhile]
  | some ab =>
    obtain ⟨cred, hostport⟩ := ab
    simp only [Bool.false_eq_true, if_false, List.nil_append]
    unfold authFin
    simp only [true_and]
    by_cases hh : hostport = []
    · right
      rw [if_pos hh, if_pos hh]
      exact ⟨rfl, rfl⟩
    · left
      rw [if_neg hh, if_neg hh, fold_cred_false]
      have hcred : ∀ c ∈ cred, Spec.isScalar c = true := by
        intro c hc; apply hauth; rw [lastAt_some hl]; simp [hc]
      have e1 : Impl.percentEncode Impl.userinfoNoEnc (cred.takeWhile (· != 0x3A)) =
          Spec.utf8PercentEncode Spec.userinfoSet (cred.takeWhile (· != 0x3A)) :=
        C14.percentEncode_eq_spec _ C14.userinfo_hi _
          (fun c hc => hcred c ((List.takeWhile_prefix _).sublist.subset hc))
      have e2 : Impl.percentEncode Impl.userinfoNoEnc ((cred.dropWhile (· != 0x3A)).drop 1) =
          Spec.utf8PercentEncode Spec.userinfoSet ((cred.dropWhile (· != 0x3A)).drop 1) :=
        C14.percentEncode_eq_spec _ C14.userinfo_hi _
          (fun c hc => hcred c ((List.dropWhile_suffix _).sublist.subset (List.mem_of_mem_drop hc)))
      rw [e1, e2]
      rw [← cred_url_eq u hu hpw _ _ (Spec.utf8PercentEncode Spec.userinfoSet) rfl, hu, hpw]
      simp only [List.nil_append]

/-! ## weak simulation (`ResAgree` instead of equality) -/

/-- `SimAt` with `ResAgree` as conclusion: the results agree, and so do the URLs left behind unless
    the result is failure -/
def _root_.Upa.Proofs.C01.SimAtW (idna : Idna) (base : Option Url) (ov : Option Override) (S : State) (a c : Nat)
    (Pre : Cfg → Prop) (B : Url → List Nat → Res) : Prop :=
  ∀ (inp : Array Nat) (k : Cfg) (i fuel : Nat),
    k.state = S → k.buffer = [] → k.p = (i : Int) → Pre k → i ≤ inp.size →
    (∀ x ∈ inp.toList, Spec.isScalar x = true) → fuel ≥ a * (inp.size - i) + c →
    ResAgree (run idna inp base (ov.map ovState) fuel k) (resOf ov (B k.url (inp.toList.drop i)))

theorem _root_.Upa.Proofs.C01.SimAt.toW {idna : Idna} {base : Option Url} {ov : Option Override} {S : State} {a c : Nat}
    {Pre : Cfg → Prop} {B : Url → List Nat → Res} (h : SimAt idna base ov S a c Pre B) :
    SimAtW idna base ov S a c Pre B :=
  fun inp k i fuel hs hb hp hP hi hsc hf => Or.inl (h inp k i fuel hs hb hp hP hi hsc hf)

theorem _root_.Upa.Proofs.C01.SimAtW.mono {idna : Idna} {base : Option Url} {ov : Option Override} {S : State} {a c a' c' : Nat}
    {Pre Pre' : Cfg → Prop} {B : Url → List Nat → Res}
    (h : SimAtW idna base ov S a c Pre B) (ha : a ≤ a') (hc : c ≤ c') (hpre : ∀ k, Pre' k → Pre k) :
    SimAtW idna base ov S a' c' Pre' B := by
  intro inp k i fuel hs hb hp hP hi hsc hf
  refine h inp k i fuel hs hb hp (hpre k hP) hi hsc ?_
  have := Nat.mul_le_mul_right (inp.size - i) ha
  omega

/-- one machine run from `k` into state `S'`, then the weak simulation of `S'` -/
theorem _root_.Upa.Proofs.C01.SimAtW.after_step {idna : Idna} {base : Option Url} {ov : Option Override} {S' : State} {a c : Nat}
    {Pre : Cfg → Prop} {B : Url → List Nat → Res} (hsim : SimAtW idna base ov S' a c Pre B)
    {inp : Array Nat} {k k' : Cfg} {j fuel : Nat}
    (hstep : step idna inp base (ov.map ovState) k = .continue k')
    (hs : k'.state = S') (hb : k'.buffer = []) (hp : k'.p + 1 = (j : Int))
    (hpre : Pre { k' with p := k'.p + 1 }) (hj : j ≤ inp.size)
    (hsc : ∀ x ∈ inp.toList, Spec.isScalar x = true) (hf : fuel ≥ a * (inp.size - j) + c + 1) :
    ResAgree (run idna inp base (ov.map ovState) fuel k) (resOf ov (B k'.url (inp.toList.drop j))) := by
  obtain ⟨f, rfl, hf'⟩ := fuel_succ hf
  rw [run_continue f hstep (by omega)]
  exact hsim inp { k' with p := k'.p + 1 } j f hs hb hp hpre hj hsc hf'

/-- the plain form: default flags, no override, first component -/
theorem _root_.Upa.Proofs.C01.SimAtW.basic {idna : Idna} {base : Option Url} {S : State} {a c : Nat}
    {Pre : Cfg → Prop} {B : Url → List Nat → Res} (h : SimAtW idna base none S a c Pre B)
    (ha : a ≤ 4) (hc : c ≤ 16) (inp : Array Nat) (i : Nat) (u : Url) (fuel : Nat)
    (hpre : Pre { url := u, state := S, p := (i : Int) })
    (hi : i ≤ inp.size) (hsc : ∀ x ∈ inp.toList, Spec.isScalar x = true)
    (hf : fuel ≥ 4 * (inp.size - i) + 16) :
    (run idna inp base none fuel { url := u, state := S, p := (i : Int) }).1
      = okUrl (B u (inp.toList.drop i)) := by
  have := (h.mono ha hc (fun _ hk => hk)) inp { url := u, state := S, p := (i : Int) } i fuel
    rfl rfl rfl hpre hi hsc hf
  simp only [Option.map_none] at this
  rw [this.fst]; exact resOf_fst_none _

/-! ## authority, special authority ignore slashes, special authority slashes, path or authority -/

/-- entry condition of the authority state: flags as initialised by the basic URL parser, and no
    credentials written yet (the Standard appends to username/password, the code overwrites them) -/
def _root_.Upa.Proofs.C01.AuthPre (k : Cfg) : Prop :=
  k.atSignSeen = false ∧ k.passwordTokenSeen = false ∧ k.insideBrackets = false ∧
    k.url.username = [] ∧ k.url.password = []

section
variable {idna : Idna} {base : Option Url} {inp : Array Nat} {ov : Option State}

theorem remHead_eq (i : Nat) :
    (if (i : Int) + 1 < 0 then none else inp[((i : Int) + 1).toNat]?) = inp[i + 1]? := by
  rw [if_neg (by omega)]
  congr 1

theorem step_ignoreSlashes {k : Cfg} {i : Nat} (hs : k.state = .specialAuthorityIgnoreSlashes)
    (hp : k.p = (i : Int)) :
    step idna inp base ov k =
      if ¬ (inp[i]? == some 0x2F) = true ∧ ¬ (inp[i]? == some 0x5C) = true then
        .continue { k with state := .authority, p := k.p - 1 }
      else .continue k := by
  unfold step
  simp only [hs, hp, Int.toNat_natCast, ptr_neg, if_false]

theorem step_specialAuthoritySlashes {k : Cfg} {i : Nat} (hs : k.state = .specialAuthoritySlashes)
    (hp : k.p = (i : Int)) :
    step idna inp base ov k =
      if (inp[i]? == some 0x2F) = true ∧ inp[i + 1]? = some 0x2F then
        .continue { k with state := .specialAuthorityIgnoreSlashes, p := k.p + 1 }
      else .continue { k with state := .specialAuthorityIgnoreSlashes, p := k.p - 1 } := by
  unfold step
  simp only [hs, hp, Int.toNat_natCast, ptr_neg, if_false, remHead_eq]

theorem step_pathOrAuthority {k : Cfg} {i : Nat} (hs : k.state = .pathOrAuthority) (hp : k.p = (i : Int)) :
    step idna inp base ov k =
      if (inp[i]? == some 0x2F) = true then .continue { k with state := .authority }
      else .continue { k with state := .path, p := k.p - 1 } := by
  unfold step
  simp only [hs, hp, Int.toNat_natCast, ptr_neg, if_false]
end

section
variable {idna : Idna} {base : Option Url} {ov : Option Override}

/-- authority state (weak form: see `ResAgree`) -/
theorem _root_.Upa.Proofs.C01.sim_authority_partial
    (sim_host : SimAt idna base ov .host 1 3 (fun k => k.insideBrackets = false) (Impl.hostState idna ov)) :
    SimAtW idna base ov .authority 2 4 AuthPre (Impl.authorityState idna ov) := by
  intro inp k i fuel hs hb hp hpre hi hsc hf
  obtain ⟨hseen, hpw, hib, hu, hpass⟩ := hpre
  rw [run_authority sim_host inp hsc _ k i fuel rfl hs hp hi hib ⟨i, by simp [hb], by simp [hb]⟩
    (by simp [hb]; omega), hb, hseen, hpw]
  exact authorityState_agree idna ov k.url _ hu hpass (drop_scalar hsc rfl)

/-- the special authority ignore slashes state, general position -/
theorem run_ignoreSlashes
    (sim_authority : SimAtW idna base ov .authority 2 4 AuthPre (Impl.authorityState idna ov))
    (inp : Array Nat) (hsc : ∀ x ∈ inp.toList, Spec.isScalar x = true) :
    ∀ (rest : List Nat) (k : Cfg) (i fuel : Nat), inp.toList.drop i = rest →
      k.state = .specialAuthorityIgnoreSlashes → k.buffer = [] → k.p = (i : Int) → i ≤ inp.size → AuthPre k →
      fuel ≥ 2 * rest.length + 5 →
      ResAgree (run idna inp base (ov.map ovState) fuel k)
        (resOf ov (Impl.ignoreSlashesState idna ov k.url rest)) := by
  intro rest
  induction rest with
  | nil =>
    intro k i fuel hd hs hb hp hi hpre hf
    obtain ⟨hnone, hsize⟩ := getElem?_of_drop_nil hd
    have hst := step_ignoreSlashes (idna := idna) (inp := inp) (base := base) (ov := ov.map ovState) hs hp
    rw [if_pos (by simp [hnone])] at hst
    have := SimAtW.after_step (j := i) sim_authority (k := k) (fuel := fuel) hst rfl hb
      (by simp [hp]) hpre hi hsc (by simp at hf; omega)
    rw [hd] at this
    exact this
  | cons c r ih =>
    intro k i fuel hd hs hb hp hi hpre hf
    obtain ⟨hget, hlt, hd'⟩ := getElem?_of_drop_cons hd
    have hlen := drop_length hd
    simp only [List.length_cons] at hlen hf
    have hst := step_ignoreSlashes (idna := idna) (inp := inp) (base := base) (ov := ov.map ovState) hs hp
    by_cases hsl : Impl.isSlash c = true
    · rw [if_neg (by
        simp only [Impl.isSlash, Bool.or_eq_true, beq_iff_eq] at hsl
        simp only [hget, beq_iff_eq, Option.some.injEq]; omega)] at hst
      obtain ⟨f, rfl, hf'⟩ := fuel_succ (n := 2 * r.length + 5) (show fuel ≥ 2 * r.length + 5 + 1 by omega)
      rw [run_continue' (j := i + 1) f hst (by simp [hp]) (by omega)]
      have := ih { k with p := ((i + 1 : Nat) : Int) } (i + 1) f hd' hs hb rfl (by omega) hpre hf'
      unfold Impl.ignoreSlashesState at this ⊢
      rw [List.dropWhile_cons_of_pos hsl]
      exact this
    · rw [if_pos (by
        simp only [Impl.isSlash, Bool.or_eq_true, beq_iff_eq, not_or] at hsl
        simp only [hget, beq_iff_eq, Option.some.injEq]; exact hsl)] at hst
      have := SimAtW.after_step (j := i) sim_authority (k := k) (fuel := fuel) hst rfl hb
        (by simp [hp]) hpre hi hsc (by omega)
      rw [hd] at this
      unfold Impl.ignoreSlashesState
      rw [List.dropWhile_cons_of_neg hsl]
      exact this

/-- special authority ignore slashes state -/
theorem _root_.Upa.Proofs.C01.sim_ignoreSlashes_partial
    (sim_authority : SimAtW idna base ov .authority 2 4 AuthPre (Impl.authorityState idna ov)) :
    SimAtW idna base ov .specialAuthorityIgnoreSlashes 2 5 AuthPre (Impl.ignoreSlashesState idna ov) := by
  intro inp k i fuel hs hb hp hpre hi hsc hf
  exact run_ignoreSlashes sim_authority inp hsc _ k i fuel rfl hs hb hp hi hpre (by simp; omega)

/-- special authority slashes state -/
theorem _root_.Upa.Proofs.C01.sim_specialAuthoritySlashes_partial
    (sim_authority : SimAtW idna base ov .authority 2 4 AuthPre (Impl.authorityState idna ov)) :
    SimAtW idna base ov .specialAuthoritySlashes 2 6 AuthPre (Impl.specialAuthoritySlashesState idna ov) := by
  intro inp k i fuel hs hb hp hpre hi hsc hf
  have hst := step_specialAuthoritySlashes (idna := idna) (inp := inp) (base := base) (ov := ov.map ovState) hs hp
  have hsim := sim_ignoreSlashes_partial sim_authority
  by_cases h2 : ∃ r, inp.toList.drop i = 0x2F :: 0x2F :: r
  · obtain ⟨r, hr⟩ := h2
    obtain ⟨hget, hlt, hd'⟩ := getElem?_of_drop_cons hr
    obtain ⟨hget', hlt', hd''⟩ := getElem?_of_drop_cons hd'
    rw [if_pos (by simp [hget, hget'])] at hst
    have := SimAtW.after_step (j := i + 2) hsim (k := k) (fuel := fuel) hst rfl hb
      (by simp [hp]; omega) hpre (by omega) hsc (by omega)
    rw [hd''] at this
    rw [hr]
    exact this
  · have hne : ¬ ((inp[i]? == some 0x2F) = true ∧ inp[i + 1]? = some 0x2F) := by
      intro ⟨h1, h3⟩
      apply h2
      have h1' : inp[i]? = some 0x2F := by simpa using h1
      have hi1 : i < inp.size := by
        apply Classical.byContradiction; intro hn
        rw [Array.getElem?_eq_none (by omega)] at h1'; cases h1'
      have hi2 : i + 1 < inp.size := by
        apply Classical.byContradiction; intro hn
        rw [Array.getElem?_eq_none (by omega)] at h3; cases h3
      refine ⟨inp.toList.drop (i + 2), ?_⟩
      rw [List.drop_eq_getElem_cons (by simpa using hi1), List.drop_eq_getElem_cons (by simpa using hi2)]
      simp only [Array.getElem?_eq_getElem hi1, Array.getElem?_eq_getElem hi2, Option.some.injEq] at h1' h3
      simp [h1', h3]
    rw [if_neg hne] at hst
    have := SimAtW.after_step (j := i) hsim (k := k) (fuel := fuel) hst rfl hb
      (by simp [hp]) hpre hi hsc (by omega)
    have hB : Impl.specialAuthoritySlashesState idna ov k.url (inp.toList.drop i) =
        Impl.ignoreSlashesState idna ov k.url (inp.toList.drop i) := by
      unfold Impl.specialAuthoritySlashesState
      split
      · rename_i r heq; exact absurd ⟨r, heq⟩ h2
      · rfl
    rw [hB]
    exact this

/-- path or authority state -/
theorem _root_.Upa.Proofs.C01.sim_pathOrAuthority_partial
    (sim_path : SimAt idna base ov .path 1 1 (fun _ => True) (Impl.pathState ov))
    (sim_authority : SimAtW idna base ov .authority 2 4 AuthPre (Impl.authorityState idna ov)) :
    SimAtW idna base ov .pathOrAuthority 2 3 AuthPre (Impl.pathOrAuthorityState idna ov) := by
  intro inp k i fuel hs hb hp hpre hi hsc hf
  have hst := step_pathOrAuthority (idna := idna) (inp := inp) (base := base) (ov := ov.map ovState) hs hp
  by_cases h2 : ∃ r, inp.toList.drop i = 0x2F :: r
  · obtain ⟨r, hr⟩ := h2
    obtain ⟨hget, hlt, hd'⟩ := getElem?_of_drop_cons hr
    rw [if_pos (by simp [hget])] at hst
    have := SimAtW.after_step (j := i + 1) sim_authority (k := k) (fuel := fuel) hst rfl hb
      (by simp [hp]) hpre (by omega) hsc (by omega)
    rw [hd'] at this
    rw [hr]
    exact this
  · have hne : ¬ (inp[i]? == some 0x2F) = true := by
      intro h1
      apply h2
      have h1' : inp[i]? = some 0x2F := by simpa using h1
      have hi1 : i < inp.size := by
        apply Classical.byContradiction; intro hn
        rw [Array.getElem?_eq_none (by omega)] at h1'; cases h1'
      refine ⟨inp.toList.drop (i + 1), ?_⟩
      rw [List.drop_eq_getElem_cons (by simpa using hi1)]
      simp only [Array.getElem?_eq_getElem hi1, Option.some.injEq] at h1'
      simp [h1']
    rw [if_neg hne] at hst
    have := (SimAt.after_step (j := i) sim_path (k := k) (fuel := fuel) hst rfl hb
      (by simp [hp]) trivial hi hsc (by omega))
    have hB : Impl.pathOrAuthorityState idna ov k.url (inp.toList.drop i) =
        Impl.pathState ov k.url (inp.toList.drop i) := by
      unfold Impl.pathOrAuthorityState
      split
      · rename_i r heq; exact absurd ⟨r, heq⟩ h2
      · rfl
    rw [hB, this]
    exact Or.inl rfl
end

end Auth

/-! ## concrete instances (kernel-evaluated) -/

section
/-- stub IDNA (ASCII lower-casing) for the evaluated instances -/
private def stub : Idna := fun l => some (l.map toLower)

/-- THE DISAGREEMENT: authority state, scheme http, input "a@".  The Standard has written the username
    when it detects the missing host; the code (as the C++, url.h:1869) fails before writing anything.
    Both fail: only the URL left behind differs. -/
example :
    Spec.run stub #[0x61, 0x40] none none 20 { url := { scheme := asciiStr "http" }, state := .authority }
      = (none, { scheme := asciiStr "http", username := [0x61] }) ∧
    resOf none (Impl.authorityState stub none { scheme := asciiStr "http" } [0x61, 0x40])
      = (none, { scheme := asciiStr "http" }) := by decide +kernel

/-- an agreeing non-trivial instance: "a@b@c:d:e@Host:0080/p" from the authority state (non-special
    scheme: opaque host) -/
example :
    Spec.run stub (asciiStr "a@b@c:d:e@Host:0080/p").toArray none none 50
        { url := { scheme := asciiStr "foo" }, state := .authority }
      = resOf none (Impl.authorityState stub none { scheme := asciiStr "foo" } (asciiStr "a@b@c:d:e@Host:0080/p")) ∧
    (Impl.authorityState stub none { scheme := asciiStr "foo" } (asciiStr "a@b@c:d:e@Host:0080/p")).url
      = { scheme := asciiStr "foo", username := asciiStr "a%40b%40c", password := asciiStr "d%3Ae",
          host := some { kind := .opaque, text := asciiStr "Host" }, port := some 80, path := [asciiStr "p"] } := by
  decide +kernel
end

#print axioms sim_port
#print axioms sim_host
#print axioms sim_hostname
#print axioms sim_authority_partial
#print axioms sim_ignoreSlashes_partial
#print axioms sim_specialAuthoritySlashes_partial
#print axioms sim_pathOrAuthority_partial
#print axioms SimAtW.basic

end Upa.Proofs.C01
