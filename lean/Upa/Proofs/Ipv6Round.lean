import Upa.Proofs.Ipv6Parse
/-
  Helper lemmas for C12: the parser reads back what the serializer prints.
-/
set_option linter.unusedSimpArgs false
set_option linter.unusedVariables false

namespace Upa.Proofs.V6
open Upa

/-! ### reading back one printed piece -/

theorem getHex_stop (max : Nat) (tail : List Nat) (v n : Nat)
    (ht : tail = [] ∨ ∃ t r, tail = t :: r ∧ isHex t = false) :
    Impl.getHexNumber max tail v n = (v, n, tail) := by
  cases max with
  | zero => simp [Impl.getHexNumber]
  | succ m =>
    rcases ht with rfl | ⟨t, r, rfl, ht⟩
    · simp [Impl.getHexNumber]
    · simp [Impl.getHexNumber, ht]

theorem getHex_digit (m d : Nat) (r : List Nat) (v n : Nat) (hd : d < 16) :
    Impl.getHexNumber (m + 1) (hexDigitLower d :: r) v n = Impl.getHexNumber m r (v * 16 + d) (n + 1) := by
  have := hexDigit_facts d hd
  rw [Impl.getHexNumber, if_pos this.1, this.2.1]

theorem getHex_toHex (x : Nat) (hx : x < 65536) (tail : List Nat)
    (ht : tail = [] ∨ ∃ t r, tail = t :: r ∧ isHex t = false) :
    (Impl.getHexNumber 4 (toHexLower x ++ tail) 0 0).1 = x ∧
    (Impl.getHexNumber 4 (toHexLower x ++ tail) 0 0).2.2 = tail := by
  rw [toHexLower_cases x hx]
  by_cases h1 : x < 16
  · simp only [h1, if_true, List.cons_append, List.nil_append]
    rw [getHex_digit _ _ _ _ _ h1, getHex_stop _ _ _ _ ht]
    exact ⟨by simp, rfl⟩
  · by_cases h2 : x < 256
    · simp only [h1, h2, if_true, if_false, List.cons_append, List.nil_append]
      rw [getHex_digit _ _ _ _ _ (by omega), getHex_digit _ _ _ _ _ (by omega), getHex_stop _ _ _ _ ht]
      exact ⟨by simp; omega, rfl⟩
    · by_cases h3 : x < 4096
      · simp only [h1, h2, h3, if_true, if_false, List.cons_append, List.nil_append]
        rw [getHex_digit _ _ _ _ _ (by omega), getHex_digit _ _ _ _ _ (by omega),
          getHex_digit _ _ _ _ _ (by omega), getHex_stop _ _ _ _ ht]
        exact ⟨by simp; omega, rfl⟩
      · simp only [h1, h2, h3, if_false, List.cons_append, List.nil_append]
        rw [getHex_digit _ _ _ _ _ (by omega), getHex_digit _ _ _ _ _ (by omega),
          getHex_digit _ _ _ _ _ (by omega), getHex_digit _ _ _ _ _ (by omega)]
        simp only [Impl.getHexNumber]
        exact ⟨by omega, trivial⟩

/-- a printed piece starts with a hex digit (so not with ':') -/
theorem toHex_head (x : Nat) (hx : x < 65536) : ∃ c r, toHexLower x = c :: r ∧ c ≠ 0x3A := by
  rw [toHexLower_cases x hx]
  by_cases h1 : x < 16
  · simp only [h1, if_true]
    exact ⟨_, _, rfl, (hexDigit_facts x h1).2.2.1⟩
  · by_cases h2 : x < 256
    · simp only [h1, h2, if_true, if_false]
      exact ⟨_, _, rfl, (hexDigit_facts (x / 16) (by omega)).2.2.1⟩
    · by_cases h3 : x < 4096
      · simp only [h1, h2, h3, if_true, if_false]
        exact ⟨_, _, rfl, (hexDigit_facts (x / 256) (by omega)).2.2.1⟩
      · simp only [h1, h2, h3, if_false]
        exact ⟨_, _, rfl, (hexDigit_facts (x / 4096) (by omega)).2.2.1⟩

theorem mainLoop_piece_colon (f x : Nat) (rest : List Nat) (st : Impl.V6St) (hx : x < 65536)
    (hrest : rest ≠ []) (h8 : st.pieceIndex ≠ 8) :
    Impl.v6MainLoop (f + 1) (toHexLower x ++ 0x3A :: rest) st = Impl.v6MainLoop f rest (stPut st x) := by
  obtain ⟨c, r, hc, hne⟩ := toHex_head x hx
  have hg := getHex_toHex x hx (0x3A :: rest) (Or.inr ⟨0x3A, rest, rfl, by decide⟩)
  generalize hgg : Impl.getHexNumber 4 (toHexLower x ++ 0x3A :: rest) 0 0 = g at hg
  obtain ⟨value, n, p'⟩ := g
  simp only at hg
  obtain ⟨rfl, rfl⟩ := hg
  rw [hc] at hgg ⊢
  rw [List.cons_append] at hgg ⊢
  rw [mainLoop_step f c _ st _ _ _ hgg]
  simp [h8, hne, hrest]

theorem mainLoop_piece_end (f x : Nat) (st : Impl.V6St) (hx : x < 65536) (h8 : st.pieceIndex ≠ 8) :
    Impl.v6MainLoop (f + 1 + 1) (toHexLower x) st = some (stPut st x, none) := by
  obtain ⟨c, r, hc, hne⟩ := toHex_head x hx
  have hg := getHex_toHex x hx [] (Or.inl rfl)
  rw [List.append_nil] at hg
  generalize hgg : Impl.getHexNumber 4 (toHexLower x) 0 0 = g at hg
  obtain ⟨value, n, p'⟩ := g
  simp only at hg
  obtain ⟨rfl, rfl⟩ := hg
  rw [hc] at hgg ⊢
  rw [mainLoop_step (f + 1) c _ st _ _ _ hgg]
  simp [h8, hne, Impl.v6MainLoop]


/-! ### parser state while reading back: pieces read so far, followed by zeros -/

def mk (done : List Nat) (m cmp : Nat) : Impl.V6St :=
  { address := done ++ List.replicate m 0, pieceIndex := done.length, compress := cmp }

theorem set_at_length (L R : List Nat) (x y : Nat) : (L ++ x :: R).set L.length y = L ++ y :: R := by
  induction L with
  | nil => rfl
  | cons a L ih => simp [ih]

theorem getD_at_length (L R : List Nat) (x : Nat) : (L ++ x :: R).getD L.length 0 = x := by
  induction L with
  | nil => rfl
  | cons a L ih => simp [ih]

theorem stPut_mk (done : List Nat) (m cmp x : Nat) : stPut (mk done (m + 1) cmp) x = mk (done ++ [x]) m cmp := by
  simp only [stPut, mk, List.replicate_succ, set_at_length, List.length_append, List.length_singleton,
    List.append_assoc, List.cons_append, List.nil_append]

theorem stCompress_mk (done : List Nat) (m cmp : Nat) :
    stCompress (mk done (m + 1) cmp) = mk (done ++ [0]) m (done.length + 1) := by
  simp only [stCompress, mk, List.replicate_succ, List.length_append, List.length_singleton,
    List.append_assoc, List.cons_append, List.nil_append]

theorem toHex_ne_nil (x : Nat) (hx : x < 65536) : toHexLower x ≠ [] := by
  obtain ⟨c, r, hc, _⟩ := toHex_head x hx
  rw [hc]; simp

theorem joinC_ne_nil (x : Nat) (r : List Nat) (hx : x < 65536) : joinC (x :: r) ≠ [] := by
  rw [joinC]
  intro h
  exact toHex_ne_nil x hx (List.append_eq_nil_iff.mp h).1

theorem length_colonEach (ps : List Nat) (h : ∀ x ∈ ps, x < 65536) :
    2 * ps.length ≤ (colonEach ps).length := by
  induction ps with
  | nil => simp
  | cons x r ih =>
    have := ih (fun y hy => h y (by simp [hy]))
    have h1 : 1 ≤ (toHexLower x).length := by
      have := toHex_ne_nil x (h x (by simp))
      cases hh : toHexLower x with
      | nil => exact absurd hh this
      | cons _ _ => simp
    simp [colonEach]; omega

theorem length_joinC (ps : List Nat) (h : ∀ x ∈ ps, x < 65536) : ps.length ≤ (joinC ps).length := by
  induction ps with
  | nil => simp
  | cons x r ih =>
    have := ih (fun y hy => h y (by simp [hy]))
    have h1 : 1 ≤ (toHexLower x).length := by
      have := toHex_ne_nil x (h x (by simp))
      cases hh : toHexLower x with
      | nil => exact absurd hh this
      | cons _ _ => simp
    rw [joinC]
    by_cases hr : r = []
    · subst hr; simp; omega
    · simp [hr]; omega

/-- reading pieces that are each followed by ':' and then more text -/
theorem mainLoop_colonEach (rest : List Nat) (hrest : rest ≠ []) (cmp : Nat) :
    ∀ (ps done : List Nat) (m fuel : Nat), (∀ x ∈ ps, x < 65536) → done.length + ps.length + m = 8 →
    ps.length ≤ fuel →
    Impl.v6MainLoop fuel (colonEach ps ++ rest) (mk done (ps.length + m) cmp) =
      Impl.v6MainLoop (fuel - ps.length) rest (mk (done ++ ps) m cmp) := by
  intro ps
  induction ps with
  | nil => intro done m fuel _ _ _; simp [colonEach]
  | cons x ps ih =>
    intro done m fuel hx hlen hf
    obtain ⟨f, rfl⟩ : ∃ f, fuel = f + 1 := ⟨fuel - 1, by simp at hf; omega⟩
    have e1 : (x :: ps).length + m = (ps.length + m) + 1 := by simp; omega
    have hne : colonEach ps ++ rest ≠ [] := by simp [hrest]
    simp only [colonEach, List.append_assoc, List.cons_append]
    rw [e1, mainLoop_piece_colon f x _ _ (hx x (by simp)) hne (by simp [mk]; simp at hlen; omega),
      stPut_mk, ih (done ++ [x]) m f (fun y hy => hx y (by simp [hy])) (by simp at hlen ⊢; omega)
        (by simp at hf; omega)]
    simp only [List.append_assoc, List.cons_append, List.nil_append, List.length_cons]
    congr 1
    omega

/-- reading the ':'-separated tail up to the end of the input -/
theorem mainLoop_joinC (cmp : Nat) :
    ∀ (post done : List Nat) (m fuel : Nat), (∀ x ∈ post, x < 65536) → done.length + post.length + m = 8 →
    post.length + 1 ≤ fuel →
    Impl.v6MainLoop fuel (joinC post) (mk done (post.length + m) cmp) =
      some (mk (done ++ post) m cmp, none) := by
  intro post
  induction post with
  | nil =>
    intro done m fuel _ _ hf
    obtain ⟨f, rfl⟩ : ∃ f, fuel = f + 1 := ⟨fuel - 1, by simp at hf; omega⟩
    simp [joinC, Impl.v6MainLoop]
  | cons x post ih =>
    intro done m fuel hx hlen hf
    have e1 : (x :: post).length + m = (post.length + m) + 1 := by simp; omega
    have h8 : (mk done (post.length + m + 1) cmp).pieceIndex ≠ 8 := by simp [mk]; simp at hlen; omega
    rw [joinC, e1]
    by_cases hr : post = []
    · subst hr
      obtain ⟨f, rfl⟩ : ∃ f, fuel = f + 1 + 1 := ⟨fuel - 2, by simp at hf; omega⟩
      simp only [if_true, List.append_nil]
      rw [mainLoop_piece_end f x _ (hx x (by simp)) h8, stPut_mk]
      simp
    · obtain ⟨f, rfl⟩ : ∃ f, fuel = f + 1 := ⟨fuel - 1, by simp at hf; omega⟩
      simp only [hr, if_false]
      have hne : joinC post ≠ [] := by
        cases post with
        | nil => exact absurd rfl hr
        | cons y r => exact joinC_ne_nil y r (hx y (by simp))
      rw [mainLoop_piece_colon f x _ _ (hx x (by simp)) hne h8, stPut_mk,
        ih (done ++ [x]) m f (fun y hy => hx y (by simp [hy])) (by simp at hlen ⊢; omega)
          (by simp at hf; omega)]
      simp

/-! ### the final shift restores the zero run -/

theorem shift_closed (P : List Nat) (d : Nat) : ∀ (k : Nat) (mid tail : List Nat), mid.length = k →
    Impl.v6Shift (d + 1) P.length k (P ++ (mid ++ (List.replicate (d + 1) 0 ++ tail))) =
      P ++ (List.replicate (d + 1) 0 ++ (mid ++ tail)) := by
  intro k
  induction k with
  | zero =>
    intro mid tail hm
    have : mid = [] := List.eq_nil_of_length_eq_zero hm
    subst this
    rfl
  | succ k ih =>
    intro mid tail hm
    have hne : mid ≠ [] := by intro h; subst h; simp at hm
    obtain ⟨mid', x, rfl⟩ : ∃ mid' x, mid = mid' ++ [x] :=
      ⟨mid.dropLast, mid.getLast hne, (List.dropLast_concat_getLast hne).symm⟩
    have hm' : mid'.length = k := by simp at hm; exact hm
    rw [Impl.v6Shift]
    -- the source position is right after `P ++ mid'`
    have eL1 : P.length + k = (P ++ mid').length := by simp [hm']
    -- the target position is the last zero of the gap
    have eL2 : P.length + k + (d + 1) = (P ++ (mid' ++ (x :: List.replicate d 0))).length := by
      simp [hm']; omega
    have form1 : P ++ ((mid' ++ [x]) ++ (List.replicate (d + 1) 0 ++ tail)) =
        (P ++ mid') ++ x :: (List.replicate (d + 1) 0 ++ tail) := by simp
    have form2 : (P ++ mid') ++ x :: (List.replicate (d + 1) 0 ++ tail) =
        (P ++ (mid' ++ (x :: List.replicate d 0))) ++ 0 :: tail := by
      simp [List.replicate_succ']
    have form3 : (P ++ (mid' ++ (x :: List.replicate d 0))) ++ x :: tail =
        (P ++ mid') ++ x :: (List.replicate d 0 ++ x :: tail) := by simp
    have form4 : (P ++ mid') ++ 0 :: (List.replicate d 0 ++ x :: tail) =
        P ++ (mid' ++ (List.replicate (d + 1) 0 ++ (x :: tail))) := by
      simp [List.replicate_succ]
    have hget : (P ++ ((mid' ++ [x]) ++ (List.replicate (d + 1) 0 ++ tail))).getD (P.length + k) 0 = x := by
      rw [form1, eL1, getD_at_length]
    rw [hget]
    have hset : ((P ++ ((mid' ++ [x]) ++ (List.replicate (d + 1) 0 ++ tail))).set (P.length + k + (d + 1)) x).set
        (P.length + k) 0 = P ++ (mid' ++ (List.replicate (d + 1) 0 ++ (x :: tail))) := by
      rw [form1, form2, eL2, set_at_length, form3, eL1, set_at_length, form4]
    rw [hset, ih mid' (x :: tail) hm']
    simp


/-! ### parsing the two shapes of serializer output -/

theorem implStart_plain (c : Nat) (r : List Nat) (hc : c ≠ 0x3A) :
    implStart (c :: r) = some (c :: r, {}) := by
  unfold implStart
  split
  · rename_i heq; simp at heq; omega
  · rfl

theorem mainLoop_colon (f : Nat) (r : List Nat) (st : Impl.V6St) (h8 : st.pieceIndex ≠ 8)
    (hc : st.compress = 0) :
    Impl.v6MainLoop (f + 1) (0x3A :: r) st = Impl.v6MainLoop f r (stCompress st) := by
  generalize hg : Impl.getHexNumber 4 (0x3A :: r) 0 0 = g
  obtain ⟨value, n, p'⟩ := g
  rw [mainLoop_step f 0x3A r st value n p' hg]
  simp [h8, hc]

theorem final_plain (a : List Nat) (h8 : a.length = 8) : implFinal (mk a 0 0) = some a := by
  simp [implFinal, mk, h8]

theorem final_compressed (P post : List Nat) (d : Nat) (hP : P.length + post.length + (d + 1) = 8)
    (hP1 : 1 ≤ P.length) :
    implFinal (mk (P ++ post) (d + 1) P.length) = some (P ++ (List.replicate (d + 1) 0 ++ post)) := by
  have h1 : P.length ≠ 0 := by omega
  have h2 : 8 - (P ++ post).length = d + 1 := by simp; omega
  have h3 : (P ++ post).length - P.length = post.length := by simp
  have h4 := shift_closed P d post.length post [] rfl
  simp only [List.append_nil] at h4
  simp only [implFinal, mk, h1, h2, h3, ne_eq, not_false_eq_true, if_true, Nat.add_one_ne_zero,
    List.append_assoc, h4]

theorem parse_joinC (a : List Nat) (h8 : a.length = 8) (hx : ∀ x ∈ a, x < 65536) :
    Impl.ipv6Parse (joinC a) = some a := by
  have hlen := length_joinC a hx
  rw [ipv6Parse_eq, if_neg (by omega)]
  match a, h8 with
  | x :: a', h8 =>
    obtain ⟨c, r, hc, hne⟩ := toHex_head x (hx x (by simp))
    have hs : ∃ r', joinC (x :: a') = c :: r' := by
      rw [joinC, hc]; exact ⟨_, rfl⟩
    obtain ⟨r', hr'⟩ := hs
    have hstart : implStart (joinC (x :: a')) = some (joinC (x :: a'), mk [] ((x :: a').length + 0) 0) := by
      rw [hr', implStart_plain c r' hne, h8]; rfl
    rw [hstart]
    simp only [Option.bind_some]
    rw [mainLoop_joinC 0 (x :: a') [] 0 _ hx (by simp at h8 ⊢; omega) (by omega)]
    simp only [implV4, Option.bind_some, List.nil_append]
    exact final_plain _ h8

theorem parse_compressed (pre post : List Nat) (len : Nat) (h8 : pre.length + len + post.length = 8)
    (hlen : 2 ≤ len) (hpre : ∀ x ∈ pre, x < 65536) (hpost : ∀ x ∈ post, x < 65536) :
    Impl.ipv6Parse (colonEach pre ++ (marker pre.length ++ joinC post)) =
      some (pre ++ (List.replicate len 0 ++ post)) := by
  obtain ⟨d, rfl⟩ : ∃ d, len = d + 2 := ⟨len - 2, by omega⟩
  have hlp := length_joinC post hpost
  have hlc := length_colonEach pre hpre
  rw [ipv6Parse_eq]
  cases pre with
  | nil =>
    have e : colonEach [] ++ (marker ([] : List Nat).length ++ joinC post) = 0x3A :: 0x3A :: joinC post := rfl
    rw [e, if_neg (by simp)]
    have hstart : implStart (0x3A :: 0x3A :: joinC post) =
        some (joinC post, mk [0] (post.length + (d + 1)) 1) := by
      have : post.length + (d + 1) = 7 := by simp at h8; omega
      rw [this]; simp [implStart]; rfl
    rw [hstart]
    simp only [Option.bind_some]
    rw [mainLoop_joinC 1 post [0] (d + 1) _ hpost (by simp at h8 ⊢; omega) (by simp; omega)]
    simp only [implV4, Option.bind_some]
    have := final_compressed [0] post d (by simp at h8 ⊢; omega) (by simp)
    simp only [List.length_singleton] at this
    rw [this]
    simp [List.replicate_succ]
  | cons x pre' =>
    have e : colonEach (x :: pre') ++ (marker (x :: pre').length ++ joinC post) =
        colonEach (x :: pre') ++ (0x3A :: joinC post) := by simp [marker]
    rw [e]
    obtain ⟨c, r, hc, hne⟩ := toHex_head x (hpre x (by simp))
    obtain ⟨r', hr'⟩ : ∃ r', colonEach (x :: pre') ++ (0x3A :: joinC post) = c :: r' := by
      rw [colonEach, hc]; exact ⟨_, rfl⟩
    have hslen : (x :: pre').length + post.length + 1 ≤
        (colonEach (x :: pre') ++ (0x3A :: joinC post)).length := by
      simp at hlc ⊢; omega
    rw [if_neg (by simp at hslen ⊢; omega)]
    have hstart : implStart (colonEach (x :: pre') ++ (0x3A :: joinC post)) =
        some (colonEach (x :: pre') ++ (0x3A :: joinC post),
          mk [] ((x :: pre').length + (post.length + (d + 1) + 1)) 0) := by
      have : (x :: pre').length + (post.length + (d + 1) + 1) = 8 := by omega
      rw [this, hr', implStart_plain c r' hne]; rfl
    rw [hstart]
    simp only [Option.bind_some]
    rw [mainLoop_colonEach (0x3A :: joinC post) (by simp) 0 (x :: pre') [] (post.length + (d + 1) + 1) _ hpre
      (by simp at h8 ⊢; omega) (by omega)]
    obtain ⟨f, hf⟩ : ∃ f, (colonEach (x :: pre') ++ (0x3A :: joinC post)).length + 1 - (x :: pre').length = f + 1 :=
      ⟨(colonEach (x :: pre') ++ (0x3A :: joinC post)).length - (x :: pre').length, by omega⟩
    rw [hf, List.nil_append, mainLoop_colon f _ _ (by simp [mk]; simp at h8; omega) rfl, stCompress_mk,
      mainLoop_joinC _ post ((x :: pre') ++ [0]) (d + 1) f hpost (by simp at h8 ⊢; omega) (by omega)]
    simp only [implV4, Option.bind_some]
    have := final_compressed ((x :: pre') ++ [0]) post d (by simp at h8 ⊢; omega) (by simp)
    simp only [List.length_append, List.length_singleton] at this
    rw [this]
    simp [List.replicate_succ]

end Upa.Proofs.V6
