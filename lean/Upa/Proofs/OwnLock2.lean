import Upa.Proofs.OwnLock
/-
  C06b, layer 5 (continued): side conditions of the operations, one step keeps `LockInv`, histories.
-/
set_option linter.unusedSimpArgs false
set_option linter.unusedVariables false

namespace Upa.Impl.Own
open Upa Upa.Impl Upa.Proofs.C06

/-- side condition of a list edit: the names / values handed in are well-formed UTF-8 (finding F3), a
    query string handed to `parse` is a byte string — exactly `Upa.Proofs.C06.Op.WF` -/
def PMut.WF : PMut → Prop
  | .append n v => WFB n ∧ WFB v
  | .set n v => WFB n ∧ WFB v
  | .parse _ bytes => ∀ x ∈ bytes, x < 256
  | _ => True

/-- side condition of an operation (for the lock-step half only) -/
def HOp.WF : HOp → Prop
  | .newParams l => AllWFP l
  | .paramsMutate _ m => m.WF
  | _ => True

instance (m : PMut) : Decidable m.WF := by
  cases m <;> unfold PMut.WF <;> infer_instance
instance (op : HOp) : Decidable op.WF := by
  cases op <;> unfold HOp.WF <;> infer_instance

end Upa.Impl.Own

namespace Upa.Proofs.Own
open Upa Upa.Impl Upa.Impl.Own Upa.Proofs.C06

theorem pmut_lockS (o : UrlObj) (m : PMut) (h : LockS o) (hw : m.WF) : LockS (o.spApply m.fn m.always) := by
  cases m with
  | append n v => exact spApply_lockS o _ h (append_wf n v hw.1 hw.2)
  | set n v => exact spApply_lockS o _ h (set_wf n v hw.1 hw.2)
  | del n => exact spApply_lockS o _ h (filter_wf _)
  | del2 n v => exact spApply_lockS o _ h (filter_wf _)
  | remove n => exact spApply_lockS_filter o _ h
  | remove2 n v => exact spApply_lockS_filter o _ h
  | sort => exact spApply_lockS o _ h sort_wf
  | clear => exact spApply_lockS o _ h (fun _ _ => AllWFP_nil)
  | parse r bytes => exact spApply_lockS o _ h (fun _ _ => formParse_wfp' r bytes hw)

theorem pmut_wf (m : PMut) (hw : m.WF) (c : Params) (hc : AllWFP c.list) : AllWFP (m.fn c).list := by
  cases m with
  | append n v => exact append_wf n v hw.1 hw.2 c hc
  | set n v => exact set_wf n v hw.1 hw.2 c hc
  | del n => exact filter_wf _ c hc
  | del2 n v => exact filter_wf _ c hc
  | remove n => exact filter_wf _ c hc
  | remove2 n v => exact filter_wf _ c hc
  | sort => exact sort_wf c hc
  | clear => exact AllWFP_nil
  | parse r bytes => exact formParse_wfp' r bytes hw

theorem searchBytes_byte (r : Option Url) (hq : QBytes r) : ∀ x ∈ searchBytes r, x < 256 := by
  unfold searchBytes
  cases r with
  | none => simp
  | some u =>
    unfold QBytes queryBytes at hq
    unfold getSearch
    dsimp only at hq ⊢
    split
    · rename_i c q hcq
      rw [hcq] at hq
      intro x hx
      simp only [List.mem_cons] at hx
      rcases hx with rfl | hx
      · decide
      · exact hq x (by simpa using hx)
    · simp

/-! ## FREE objects under the params operations -/

def WFree (h : Heap) : Prop := ∀ p c, cont h p = some c → up h p = some none → AllWFP c.list

theorem wfree_setContent (h : Heap) (p : Nat) (l : List BPair) (s : Bool) (hw : WFree h) (hl : AllWFP l) :
    WFree (h.setContent p l s) := by
  intro q c hc hup
  simp only [cont_setContent, up_setContent] at hc hup
  split at hc
  · cases hcp : cont h p with
    | none => simp [hcp] at hc
    | some c0 => simp [hcp] at hc; subst hc; exact hl
  · exact hw q c hc hup
theorem wfree_allocP (h : Heap) (c : PCell) (hw : WFree h) (hl : AllWFP c.list) : WFree (h.allocP c) := by
  intro q c' hc hup
  simp only [cont_allocP, up_allocP] at hc hup
  split at hc
  · cases hc; exact hl
  · rename_i hne; simp only [hne, if_false] at hup; exact hw q c' hc hup
theorem wfree_delP (h : Heap) (p : Nat) (hw : WFree h) : WFree (h.delP p) := by
  intro q c hc hup
  simp only [cont_delP, up_delP] at hc hup
  split at hc
  · cases hc
  · rename_i hne; simp only [hne, if_false] at hup; exact hw q c hc hup
theorem wfree_update (h : Heap) (p : Nat) (hw : WFree h) : WFree (update h p) := by
  intro q c hc hup
  simp only [cont_update, up_update] at hc hup
  exact hw q c hc hup

/-! ## one step -/

theorem lockS_safeAssignSrc (dst src : UrlObj) (hs : LockS src) : LockS (safeAssignSrc dst src) := by
  unfold safeAssignSrc
  apply lockS_invalid
  intro p hp
  split at hp
  · cases hsp : src.sp with
    | none => simp [hsp] at hp
    | some q => simp [hsp] at hp; subst hp; exact AllWFP_nil
  · exact hs.wf p hp

theorem stepH_lockInv (idna : Idna) (h : Heap) (op : HOp) (hi : OwnG h) (hl : LockInv h)
    (hp : pre h op = true) (hw : op.WF) (hs : lockSafe h op = true) : LockInv (stepH idna h op) := by
  have hlock := hl.lock
  have hwf : WFree h := hl.wfFree
  cases op with
  | newUrl =>
    exact ⟨fun u' => by rw [stepH, newUrl_abs h hi]; exact hlock u', (freeKeep_newUrl h).wfFree hl⟩
  | newParams l =>
    exact ⟨fun u' => by rw [stepH, newParams_abs h l hi]; exact hlock u', wfree_allocP h _ hwf hw⟩
  | urlSearchParams u =>
    simp only [pre, live, asserts, Bool.and_true] at hp
    refine ⟨fun u' => ?_, (freeKeep_urlSearchParams h u hi).wfFree hl⟩
    rw [stepH, urlSearchParams_abs h u hi hp]
    split
    · exact searchParams_lockS _ (hlock u)
    · exact hlock u'
  | urlCopyConstruct s =>
    refine ⟨fun u' => ?_, (freeKeep_urlCopyConstruct h s).wfFree hl⟩
    rw [stepH, urlCopyConstruct_abs h s hi]
    split
    · exact copyConstruct_lockS _ (hlock s)
    · exact hlock u'
  | urlCopyAssign d s =>
    simp only [pre, live, Bool.and_eq_true] at hp
    refine ⟨fun u' => ?_, (freeKeep_urlCopyAssign h d s hi).wfFree hl⟩
    rw [stepH, urlCopyAssign_abs h d s hi hp.1.1 hp.1.2]
    split
    · exact copyAssign_lockS _ _ (hlock s)
    · exact hlock u'
  | urlMoveConstruct s =>
    simp only [pre, live, asserts, Bool.and_true] at hp
    refine ⟨fun u' => ?_, (freeKeep_urlMoveConstruct h s hi).wfFree hl⟩
    rw [stepH, urlMoveConstruct_abs h s hi hp]
    split
    · exact (moveAssign_lockS _ (hlock s)).1
    · split
      · exact (moveAssign_lockS _ (hlock s)).2
      · exact hlock u'
  | urlMoveAssign d s =>
    simp only [pre, live, asserts, Bool.and_true, Bool.and_eq_true, bne_iff_ne, ne_eq] at hp
    refine ⟨fun u' => ?_, (freeKeep_urlMoveAssign h d s hi).wfFree hl⟩
    rw [stepH, urlMoveAssign_abs h d s hi hp.1.1 hp.1.2 hp.2]
    split
    · exact (moveAssign_lockS _ (hlock s)).1
    · split
      · exact (moveAssign_lockS _ (hlock s)).2
      · exact hlock u'
  | urlSafeAssign d s =>
    simp only [pre, live, asserts, Bool.and_true, Bool.and_eq_true, bne_iff_ne, ne_eq] at hp
    refine ⟨fun u' => ?_, (freeKeep_urlSafeAssign h d s hi).wfFree hl⟩
    rw [stepH, urlSafeAssign_abs h d s hi hp.1.1 hp.1.2 hp.2]
    split
    · exact (safeAssign_lockS _ _ (hlock s)).1
    · split
      · exact lockS_safeAssignSrc _ _ (hlock s)
      · exact hlock u'
  | urlSwap a b =>
    simp only [pre, live, asserts, Bool.and_true, Bool.and_eq_true] at hp
    refine ⟨fun u' => ?_, (freeKeep_urlSwap h a b hi).wfFree hl⟩
    rw [stepH, urlSwap_abs h a b hi hp.1 hp.2]
    split
    · exact hlock b
    · split
      · exact hlock a
      · exact hlock u'
  | urlClear u =>
    refine ⟨fun u' => ?_, (freeKeep_urlClear h u hi).wfFree hl⟩
    rw [stepH, urlClear_abs h u hi]
    split
    · exact clear_lockS _ (hlock u)
    · exact hlock u'
  | urlParse u e units base =>
    simp only [pre, live, asserts, Bool.and_true, Bool.and_eq_true] at hp
    refine ⟨fun u' => ?_, (freeKeep_urlDoParse h u _ hi).wfFree hl⟩
    rw [stepH, urlDoParse_abs h u _ hi hp.1]
    split
    · rw [← parse_eq_parseRes]
      refine parse_lockS idna _ e units _ ?_ (hlock u)
      intro b hb
      cases base with
      | none => cases hb
      | some bid =>
        simp only [Option.map_some, Option.some.injEq] at hb
        rw [← hb]; exact hl.qbytes bid
    · exact hlock u'
  | urlSet u s e units =>
    simp only [pre, live, asserts, Bool.and_true] at hp
    refine ⟨fun u' => ?_, (freeKeep_urlSet idna h u s e units hi).wfFree hl⟩
    rw [stepH, urlSet_abs idna h u s e units hi hp]
    split
    · exact set_lockS idna _ s e units (hlock u)
    · exact hlock u'
  | urlSearchParamsRvalue u =>
    simp only [lockSafe, Option.isNone_iff_eq_none] at hs
    refine ⟨fun u' => ?_, ?_⟩
    · rw [stepH, urlSearchParamsRvalue_abs h u hi hs]; exact hlock u'
    · simp only [stepH, urlSearchParamsRvalue, hs, newParams]
      exact wfree_allocP h _ hwf (formParse_wfp' _ _ (searchBytes_byte _ (hl.qbytes u)))
  | destroyUrl u =>
    refine ⟨fun u' => ?_, (freeKeep_destroyUrl h u).wfFree hl⟩
    rw [stepH, destroyUrl_abs h u hi]
    split
    · exact lockS_init
    · exact hlock u'
  | paramsCopyConstruct p =>
    exact ⟨fun u' => by rw [stepH, paramsCopyConstruct_abs h p hi]; exact hlock u',
      wfree_allocP h _ hwf (hl.wf_listOf hi p)⟩
  | paramsCopyAssign d s =>
    simp only [pre, live, asserts, Bool.and_true, Bool.and_eq_true] at hp
    by_cases hds : d = s
    · have : stepH idna h (.paramsCopyAssign d s) = h := by simp [stepH, paramsCopyAssign, hds]
      rw [this]; exact hl
    · refine ⟨fun u' => ?_, ?_⟩
      · rw [stepH, paramsCopyAssign_eq h d s hds hp.1 hp.2, paramsMutate_abs h d _ _ hi hp.1]
        split
        · exact spApply_lockS _ _ (hlock u') (fun _ _ => hl.wf_listOf hi s)
        · exact hlock u'
      · simp only [stepH, paramsCopyAssign, hds, hp.1, hp.2, Bool.and_self, Bool.not_true, Bool.false_eq_true,
          or_self, if_false]
        exact wfree_update _ _ (wfree_setContent _ _ _ _ hwf (hl.wf_listOf hi s))
  | paramsMoveConstruct p =>
    simp only [pre, live, asserts, Bool.and_true] at hp
    simp only [lockSafe, Option.isNone_iff_eq_none, urlPtrOf_eq] at hs
    have hfree : ∀ u, up h p ≠ some (some u) := by intro u hu; rw [hu] at hs; cases hs
    refine ⟨fun u' => ?_, ?_⟩
    · rw [stepH, paramsMoveConstruct_abs h p hi hfree]; exact hlock u'
    · simp only [stepH, paramsMoveConstruct]
      exact wfree_setContent _ _ _ _ (wfree_allocP h _ hwf (hl.wf_listOf hi p)) AllWFP_nil
  | paramsMoveAssign d s =>
    simp only [pre, live, asserts, Bool.and_eq_true, bne_iff_ne, ne_eq, Option.isNone_iff_eq_none, urlPtrOf_eq] at hp
    simp only [lockSafe, Option.isNone_iff_eq_none, urlPtrOf_eq] at hs
    have hfd : ∀ u, up h d ≠ some (some u) := by intro u hu; rw [hu] at hp; cases hp.2
    have hfs : ∀ u, up h s ≠ some (some u) := by intro u hu; rw [hu] at hs; cases hs
    refine ⟨fun u' => ?_, ?_⟩
    · rw [stepH, paramsMoveAssign_abs h d s hi hfd hfs]; exact hlock u'
    · simp only [stepH, paramsMoveAssign, moveParams]
      split
      · exact hwf
      · exact wfree_setContent _ _ _ _ (wfree_setContent _ _ _ _ hwf (hl.wf_listOf hi s)) AllWFP_nil
  | paramsSafeAssign d s =>
    simp only [pre, live, asserts, Bool.and_true, Bool.and_eq_true, bne_iff_ne, ne_eq] at hp
    simp only [lockSafe, Option.isNone_iff_eq_none, urlPtrOf_eq] at hs
    have hss : up h s = some none := by
      have := hp.1.2; rw [liveP_eq] at this
      rcases hu : up h s with _ | _ | u
      · simp [hu] at this
      · rfl
      · rw [hu] at hs; cases hs
    refine ⟨fun u' => ?_, ?_⟩
    · rw [stepH, paramsSafeAssign_abs h d s hi hp.2 hp.1.1 hss]
      split
      · exact spApply_lockS _ _ (hlock u') (fun _ _ => hl.wf_listOf hi s)
      · exact hlock u'
    · simp only [stepH, paramsSafeAssign, moveParams]
      split
      · exact hwf
      · exact wfree_update _ _
          (wfree_setContent _ _ _ _ (wfree_setContent _ _ _ _ hwf (hl.wf_listOf hi s)) AllWFP_nil)
  | paramsSwap a b =>
    simp only [pre, live, asserts, Bool.and_eq_true, Option.isNone_iff_eq_none, urlPtrOf_eq] at hp
    have hfa : ∀ u, up h a ≠ some (some u) := by intro u hu; rw [hu] at hp; cases hp.2.1
    have hfb : ∀ u, up h b ≠ some (some u) := by intro u hu; rw [hu] at hp; cases hp.2.2
    refine ⟨fun u' => ?_, ?_⟩
    · rw [stepH, paramsSwap_abs h a b hi hfa hfb]; exact hlock u'
    · simp only [stepH, paramsSwap]
      split
      · exact hwf
      · exact wfree_setContent _ _ _ _ (wfree_setContent _ _ _ _ hwf (hl.wf_listOf hi b)) (hl.wf_listOf hi a)
  | paramsMutate p m =>
    simp only [pre, live, asserts, Bool.and_true] at hp
    refine ⟨fun u' => ?_, ?_⟩
    · rw [stepH, paramsMutate_abs h p _ _ hi hp]
      split
      · exact pmut_lockS _ m (hlock u') hw
      · exact hlock u'
    · simp only [stepH, paramsMutate, hp, Bool.not_true, Bool.false_eq_true, if_false]
      have := wfree_setContent h p _ (m.fn { list := h.listOf p, isSorted := h.sortedOf p }).isSorted hwf
        (pmut_wf m hw { list := h.listOf p, isSorted := h.sortedOf p } (hl.wf_listOf hi p))
      split
      · exact wfree_update _ _ this
      · exact this
  | destroyParams p =>
    simp only [pre, live, asserts, Bool.and_true, Bool.and_eq_true, Option.isNone_iff_eq_none, urlPtrOf_eq] at hp
    have hfree : ∀ u, up h p ≠ some (some u) := by intro u hu; rw [hu] at hp; cases hp.2
    exact ⟨fun u' => by rw [stepH, destroyParams_abs h p hi hfree]; exact hlock u', wfree_delP h p hwf⟩

end Upa.Proofs.Own
