import Upa.Proofs.BoundsMiscAgree
import Upa.Proofs.EncIndep
import Upa.Proofs.Percent
/-
  Helper lemmas for C10d / C04g, part 1: the percent-ENCODE loops of url_percent_encode.h / url.h decode
  LAZILY (one `read_utf_char` per non-ASCII position); the list models run on the eagerly decoded scalar
  values.  `encLoopM_agrees`: the two coincide for every encoding, ill-formed input included.
-/
namespace Upa.Impl.B
open Upa.Proofs.C10b

/-! ### one percent-encoded byte, one percent-encoded code point -/

theorem appendPercentEncodedByteM_eq (uc : Nat) (h : uc < 256) :
    appendPercentEncodedByteM uc = .ok (pctByte uc) := by
  unfold appendPercentEncodedByteM
  simp only [shr4_eq, and_f_eq]
  simp only [idx_ok (by omega : uc / 16 < 16), idx_ok (by omega : uc % 16 < 16), R.ok_bind]
  rfl

theorem byte_c0 (cp : Nat) (h : cp ≤ 0x7FF) : ((cp >>> 6) ||| 0xC0) % 256 = (cp >>> 6) ||| 0xC0 := by
  rw [Impl.shr6, Impl.orC0 _ (by omega)]; omega

theorem byte_e0 (cp : Nat) (h : cp ≤ 0xFFFF) : ((cp >>> 12) ||| 0xE0) % 256 = (cp >>> 12) ||| 0xE0 := by
  rw [Impl.shr12, Impl.orE0 _ (by omega)]; omega

theorem byte_80 (x : Nat) : ((x &&& 0x3F) ||| 0x80) % 256 = (x &&& 0x3F) ||| 0x80 := by
  rw [Impl.and3F, Impl.or80 _ (by omega)]; omega

/-- `append_utf8<…, append_percent_encoded_byte>` = `%XX` for every UTF-8 byte (any `cp`) -/
theorem appendUtf8PctM_eq (cp : Nat) : appendUtf8PctM cp = .ok (Impl.pctEncodeChar cp) := by
  have hb : ∀ x : Nat, appendPercentEncodedByteM (x % 256) = .ok (pctByte (x % 256)) :=
    fun x => appendPercentEncodedByteM_eq _ (Nat.mod_lt _ (by decide))
  unfold appendUtf8PctM Impl.pctEncodeChar Impl.encodeUtf8Char
  by_cases h1 : cp ≤ 0x7F
  · rw [if_pos h1, if_pos h1, hb, Nat.mod_eq_of_lt (by omega)]
    simp
  rw [if_neg h1, if_neg h1]
  by_cases h2 : cp ≤ 0x7FF
  · simp only [if_pos h2, hb, R.ok_bind]
    simp only [byte_c0 cp h2, byte_80]
    simp [R.pure_eq]
  simp only [if_neg h2]
  by_cases h3 : cp ≤ 0xFFFF
  · simp only [if_pos h3, hb, R.ok_bind]
    simp only [byte_e0 cp h3, byte_80]
    simp [R.pure_eq]
  simp only [if_neg h3, hb, R.ok_bind]
  simp only [byte_80]
  simp [R.pure_eq]

/-! ### `read_utf_char` on the array = on the slice -/

theorem slice_mem_of_idx (a : Array Nat) (first last i : Nat) (h1 : first ≤ i) (h2 : i < last) (hl : last ≤ a.size) :
    a[i]! ∈ slice a first last := by
  rw [← slice_append a first i last h1 (by omega) hl, slice_cons a i last h2 hl]
  exact List.mem_append_right _ List.mem_cons_self

theorem slice_subset (a : Array Nat) (first p last : Nat) (h1 : first ≤ p) (h2 : p ≤ last) (hl : last ≤ a.size) :
    ∀ x ∈ slice a p last, x ∈ slice a first last := by
  intro x hx
  rw [← slice_append a first p last h1 h2 hl]
  exact List.mem_append_right _ hx

theorem readChar_agrees (e : Enc) (a : Array Nat) (first last : Nat) (h : first < last) (hl : last ≤ a.size)
    (hu : UOk e (slice a first last)) :
    (readChar e a first last).sat (fun r =>
      Impl.readChar e (slice a first last) = (r.1, r.2.1, slice a r.2.2 last) ∧ first < r.2.2 ∧ r.2.2 ≤ last) := by
  refine R.sat_mono (R.sat_and (readChar_sat e a first last h hl) ?_) (fun r hr => ⟨hr.2, hr.1⟩)
  cases e
  · exact readU8_agrees a first last h hl (fun i hi1 hi2 => hu _ (slice_mem_of_idx a first last i hi1 hi2 hl))
  · exact readU16_agrees a first last h hl
  · exact readU32_agrees a first last h hl

theorem appendUtf8PercentEncodedCharM_agrees (e : Enc) (a : Array Nat) (first last it : Nat) (h1 : first ≤ it)
    (h2 : it < last) (hl : last ≤ a.size) (hu : UOk e (slice a it last)) :
    (appendUtf8PercentEncodedCharM e a first last it).sat (fun r =>
      r.1 = (Impl.readChar e (slice a it last)).1 ∧
      r.2.2 = Impl.pctEncodeChar (cpOf (Impl.readChar e (slice a it last))) ∧
      slice a r.2.1 last = (Impl.readChar e (slice a it last)).2.2 ∧ it < r.2.1 ∧ r.2.1 ≤ last) := by
  unfold appendUtf8PercentEncodedCharM
  simp only [sub_ok h1 (Nat.le_of_lt h2) (Nat.le_refl _), R.ok_bind]
  refine R.sat_bind (readChar_agrees e a it last h2 hl hu) ?_
  intro ⟨ok, cp, it'⟩ ⟨hag, hlt1, hle⟩
  simp only at hag hlt1 hle ⊢
  simp only [appendUtf8PctM_eq, R.ok_bind]
  refine R.sat_pure ?_
  rw [hag]
  exact ⟨rfl, rfl, rfl, hlt1, hle⟩

/-! ### the three encode loops -/

/-- what one iteration of the list models appends for the scalar value `c` -/
def encOne (hi : Nat) (kf : Nat → Bool) (c : Nat) : List Nat :=
  if c ≥ hi then Impl.pctEncodeChar c else if kf c then [c] else pctByte c

theorem percentEncode_flatMap (noEnc : Nat → Bool) (s : List Nat) :
    Impl.percentEncode noEnc s = s.flatMap (encOne 0x80 noEnc) := by
  induction s with
  | nil => rfl
  | cons c cs ih => rw [Upa.Proofs.C14.percentEncode_cons, ih, List.flatMap_cons]; rfl

theorem percentEncodeC0_flatMap (s : List Nat) :
    Impl.percentEncodeC0 s = s.flatMap (encOne 0x7F (fun c => decide (¬ c ≤ 0x1F))) := by
  induction s with
  | nil => rfl
  | cons c cs ih =>
    rw [Upa.Proofs.C14.percentEncodeC0_cons, ih, List.flatMap_cons]
    congr 1
    unfold encOne
    by_cases h1 : c ≥ 0x7F
    · rw [if_pos h1, if_pos h1]
    · rw [if_neg h1, if_neg h1]
      by_cases h2 : c ≤ 0x1F <;> simp [h2]

/-- LAZY = EAGER: the loop `while (pointer < last) { uch = *pointer; if (uch >= hi) read_utf_char … }`
    appends, for the code units `[first, last)` in encoding `e`, exactly what the list model appends for
    the eagerly decoded scalar values — ill-formed input included -/
theorem encLoopM_agrees (e : Enc) (hi : Nat) (keep : Nat → R Bool) (kf : Nat → Bool) (hhi : hi ≤ 0x80)
    (hk : ∀ c, c < hi → keep c = .ok (kf c))
    (a : Array Nat) (first last : Nat) (h : first ≤ last) (hl : last ≤ a.size) (hu : UOk e (slice a first last)) :
    (encLoopM e hi keep a first last).sat (fun r =>
      r.2 = (Impl.decode e (slice a first last)).flatMap (encOne hi kf)) := by
  unfold encLoopM
  refine iter_sat _ (fun s => first ≤ s.1 ∧ s.1 ≤ last ∧
      s.2.2 ++ (Impl.decode e (slice a s.1 last)).flatMap (encOne hi kf) =
        (Impl.decode e (slice a first last)).flatMap (encOne hi kf)) (fun s => last - s.1) _ ?_ _ _ ?_ ?_
  · intro ⟨p, success, out⟩ ⟨h1, h2, h3⟩
    simp only at h1 h2 h3 ⊢
    split
    · have hp : p = last := by omega
      subst hp
      refine R.sat_pure ?_
      rw [slice_nil a p p (by omega), Impl.decode_nil] at h3
      simpa using h3
    have hpl : p < last := by omega
    have hup : UOk e (slice a p last) := hu.subset (slice_subset a first p last h1 h2 hl)
    have hne : slice a p last ≠ [] := by rw [slice_cons a p last hpl hl]; exact List.cons_ne_nil _ _
    simp only [rd_ok h1 hpl hl, R.ok_bind]
    split
    · rename_i hge
      refine R.sat_bind (appendUtf8PercentEncodedCharM_agrees e a first last p h1 hpl hl hup) ?_
      intro ⟨ok, it', s⟩ ⟨hok, hs, hrest, hlt1, hle⟩
      simp only at hok hs hrest hlt1 hle ⊢
      refine R.sat_pure ⟨⟨by omega, hle, ?_⟩, by omega⟩
      simp only []
      rw [decode_step' e _ hne, List.flatMap_cons, ← hrest] at h3
      have hcp := (readChar_cp e _ hne hup).2
      generalize cpOf (Impl.readChar e (slice a p last)) = cpv at h3 hcp hs
      have hbig : cpv ≥ hi := by
        by_cases hsmall : cpv < 0x80
        · have hh := hcp hsmall
          rw [slice_cons a p last hpl hl] at hh
          have : a[p]! = cpv := (List.cons.inj hh).1
          omega
        · omega
      have hone : encOne hi kf cpv = Impl.pctEncodeChar cpv := by unfold encOne; rw [if_pos hbig]
      rw [← h3, List.append_assoc, hone, hs]
    · rename_i hlt
      have hasc : a[p]! < 0x80 := by omega
      have hm : a[p]! % 256 = a[p]! := Nat.mod_eq_of_lt (by omega)
      simp only [hm, hk _ (by omega : a[p]! < hi), R.ok_bind]
      have hs : (if kf a[p]! = true then pure [a[p]!] else appendPercentEncodedByteM a[p]! : R (List Nat)) =
          .ok (if kf a[p]! = true then [a[p]!] else pctByte a[p]!) := by
        split
        · rfl
        · exact appendPercentEncodedByteM_eq _ (by omega)
      rw [hs]
      psimp
      refine R.sat_pure ⟨⟨by omega, by omega, ?_⟩, by omega⟩
      simp only []
      rw [slice_cons a p last hpl hl, decode_cons_ascii e _ _ hasc, List.flatMap_cons] at h3
      have hone : encOne hi kf a[p]! = (if kf a[p]! = true then [a[p]!] else pctByte a[p]!) := by
        unfold encOne; rw [if_neg hlt]
      rw [← h3, List.append_assoc, hone]
  · refine ⟨Nat.le_refl _, h, ?_⟩
    simp
  · simp only []; omega

theorem cpsetGetM_ascii (set : Nat → Bool) (c : Nat) (h : c < 0x80) : cpsetGetM set c = .ok (set c) := by
  obtain ⟨v, hv, he⟩ := cpsetGetM_sat set c
  rw [hv, he]
  simp [show c ≤ 0xFF by omega]

/-- `detail::append_utf8_percent_encoded` (= `upa::percent_encode`) -/
theorem appendUtf8PercentEncodedM_agrees (e : Enc) (noEnc : Nat → Bool) (a : Array Nat) (first last : Nat)
    (h : first ≤ last) (hl : last ≤ a.size) (hu : UOk e (slice a first last)) :
    appendUtf8PercentEncodedM e noEnc a first last =
      .ok (Impl.percentEncode noEnc (Impl.decode e (slice a first last))) := by
  apply R.sat_eq
  unfold appendUtf8PercentEncodedM
  refine R.sat_bind (encLoopM_agrees e 0x80 _ noEnc (Nat.le_refl _) (fun c hc => cpsetGetM_ascii noEnc c hc)
    a first last h hl hu) ?_
  intro ⟨ok, out⟩ hout
  refine R.sat_pure ?_
  rw [percentEncode_flatMap]
  exact hout

/-- `url_parser::do_path_segment` -/
theorem pathSegmentEncM_agrees (e : Enc) (a : Array Nat) (first last : Nat)
    (h : first ≤ last) (hl : last ≤ a.size) (hu : UOk e (slice a first last)) :
    (pathSegmentEncM e a first last).sat (fun r =>
      r.2 = Impl.percentEncode Impl.pathNoEnc (Impl.decode e (slice a first last))) := by
  unfold pathSegmentEncM
  refine R.sat_mono (encLoopM_agrees e 0x80 _ Impl.pathNoEnc (Nat.le_refl _)
    (fun c hc => cpsetGetM_ascii _ c hc) a first last h hl hu) ?_
  intro r hr
  rw [percentEncode_flatMap]
  exact hr

/-- `url_parser::do_simple_path` (and the loop of `parse_opaque_host`) -/
theorem simplePathM_agrees (e : Enc) (a : Array Nat) (first last : Nat)
    (h : first ≤ last) (hl : last ≤ a.size) (hu : UOk e (slice a first last)) :
    (simplePathM e a first last).sat (fun r =>
      r.2 = Impl.percentEncodeC0 (Impl.decode e (slice a first last))) := by
  unfold simplePathM
  refine R.sat_mono (encLoopM_agrees e 0x7F _ (fun c => decide (¬ c ≤ 0x1F)) (by omega)
    (fun c _ => rfl) a first last h hl hu) ?_
  intro r hr
  rw [percentEncodeC0_flatMap]
  exact hr

end Upa.Impl.B
