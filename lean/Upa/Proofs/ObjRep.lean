import Upa.Impl.ObjRep
import Upa.Props.C05e
import Upa.Props.C05f
import Upa.Proofs.Lockstep
/-
  Helpers for C05g: the simulation between the representation-level object model (`RObj`,
  Impl/ObjRep.lean) and the record-level one (`UrlObj`, Impl/Api.lean), operation by operation.

  `Good idna u`  the invariant of the record of a valid object.  It is `NormX idna u` of C02b
                 (`Norm` without its two file-only clauses: `Norm idna u ∨ (NormX idna u ∧ FileExc u)`),
                 the one predicate every operation keeps, the protocol setter included, and it implies
                 everything the representation theorems ask for (`GoodS.ok`).
  `SpBytes sp`   the stored names and values of a params object are byte strings (< 256).
  `Sim idna ro o`  same params object, `SpBytes`, both invalid or `RepFor r u ∧ Good idna u`.

  Everything is proved for the two strengths `st : Bool` of the invariant at once (`GoodS idna st`:
  `Norm` for `st = true`, `NormX` for `st = false`; `SimS`, `SimS₂`): `Norm` is kept by every operation
  but the protocol setter, so histories without a protocol call never meet the file exception.
-/
namespace Upa.Proofs.ObjRep
open Upa Upa.Impl Upa.Props Upa.Proofs.C05 Upa.Proofs.SetRep Upa.Proofs.SetRepApi
open Upa.Proofs.C02b (IdnaStable)

/-! ## the invariant of a valid object's record -/

/-- the invariant on the record of a valid object, in two strengths: `Norm` of C02 (`st = true`), or
    `NormX` of C02b, i.e. `Norm` without its two file-only clauses (`st = false`) -/
def GoodS (idna : Idna) : Bool → Url → Prop
  | true, u => Norm idna u
  | false, u => NormX idna u

/-- the invariant every operation keeps: `NormX` of C02b -/
abbrev Good (idna : Idna) (u : Url) : Prop := GoodS idna false u

instance (idna : Idna) (st : Bool) (u : Url) : Decidable (GoodS idna st u) := by
  cases st <;> unfold GoodS <;> infer_instance

theorem GoodS.toAll {idna : Idna} {st : Bool} {u : Url} (h : GoodS idna st u) : Proofs.C02b.All idna st u := by
  cases st with
  | true => exact Proofs.C02b.all_of_normP (Norm.toNormP h)
  | false => exact NormX.toAll h

theorem GoodS.ofAll {idna : Idna} {st : Bool} {u : Url} (h : Proofs.C02b.All idna st u) : GoodS idna st u := by
  cases st with
  | true => exact Norm.ofNormP (Proofs.C02b.normP_of_all h)
  | false => exact NormX.ofAll h

theorem GoodS.weaken {idna : Idna} {st : Bool} {u : Url} (h : GoodS idna st u) : Good idna u :=
  GoodS.ofAll h.toAll.weaken

/-- `NormX` implies the hypotheses of the representation theorems: `RepOk`, `HostInv`, `RecShape`
    (C05b / C05d) and "file ⇒ no port" (`C05e_parse_base`) -/
theorem normx_ok {idna : Idna} {u : Url} (h : NormX idna u) :
    RepOk u ∧ HostInv u ∧ RecShape u ∧ (u.isFile = true → u.port = none) := by
  obtain ⟨h1, h2, h3, h4, _, h6, h7, _, _, _, _, h12, _⟩ := h
  have hs : u.scheme ≠ [] := by
    intro hc; rw [hc] at h1; simp [Proofs.C02.schemeOk] at h1
  have hsp : HostInv u := fun hsp => by
    have := (h4 hsp).1
    cases hh : u.host with
    | none => exact absurd hh this
    | some x => rfl
  refine ⟨⟨⟨hs, fun hn => h6 (Or.inr (by simp [Url.hostText, hn]))⟩, fun hn ho => ?_, fun ho => (h2 ho).1⟩,
    hsp, ⟨fun ho => (h2 ho).2.1, fun ho => ⟨h3 ho, fun seg hseg c hc => ?_⟩⟩, fun hf => (h6 (Or.inl hf)).2.2⟩
  · cases hsp' : u.isSpecial with
    | true => exact (h4 hsp').2
    | false => exact h7 hsp' hn ho
  · have := h12 seg hseg
    simp only [Proofs.C02.segOk, Bool.and_eq_true, List.all_eq_true] at this
    have := this.1.1 c hc
    simp only [Proofs.C02.segCharOk, Bool.and_eq_true, bne_iff_ne, ne_eq] at this
    exact this.1.2

theorem GoodS.ok {idna : Idna} {st : Bool} {u : Url} (h : GoodS idna st u) :
    RepOk u ∧ HostInv u ∧ RecShape u ∧ (u.isFile = true → u.port = none) := normx_ok h.weaken

theorem GoodS.repOk {idna : Idna} {st : Bool} {u : Url} (h : GoodS idna st u) : RepOk u := h.ok.1
theorem GoodS.recWF {idna : Idna} {st : Bool} {u : Url} (h : GoodS idna st u) : RecWF u := h.ok.1.1

theorem Good.ofNorm {idna : Idna} {u : Url} (h : Norm idna u) : Good idna u :=
  ((C02_norm_iff_normx idna u).1 h).1

/-- `Good` is `Norm`, or one of the two exceptional file records of C02 -/
theorem good_iff (idna : Idna) (u : Url) : Good idna u ↔ (Norm idna u ∨ (NormX idna u ∧ FileExc u)) := by
  constructor
  · intro h
    by_cases hf : FileExc u
    · exact Or.inr ⟨h, hf⟩
    · exact Or.inl ((C02_norm_iff_normx idna u).2 ⟨h, hf⟩)
  · rintro (h | h)
    · exact Good.ofNorm h
    · exact h.1

/-- the query of a good record is a byte string -/
theorem normx_qbytes {idna : Idna} {u : Url} (h : NormX idna u) : ∀ x ∈ queryBytes (some u), x < 256 := by
  obtain ⟨_, _, _, _, _, _, _, _, _, _, _, _, _, h15, _⟩ := h
  intro x hx
  have hx' : x ∈ u.query.getD [] := hx
  cases hq : u.query with
  | none => rw [hq] at hx'; simp at hx'
  | some q =>
    rw [hq] at hx'
    have := h15 q hq
    simp only [Proofs.C02.queryOk, List.all_eq_true] at this
    have := this x (by simpa using hx')
    simp only [Proofs.C02.keeps, Bool.and_eq_true, decide_eq_true_eq] at this
    omega

theorem GoodS.qbytes {idna : Idna} {st : Bool} {u : Url} (h : GoodS idna st u) :
    ∀ x ∈ queryBytes (some u), x < 256 := normx_qbytes h.weaken

/-- every setter keeps `Good` (`C02_set_normx`), and every setter but `protocol` keeps `Norm`
    (`C02_set_norm`): both are `set_all` of Proofs/ReparseParsed.lean -/
theorem good_set {idna : Idna} {st : Bool} (hi : IdnaStable idna) (s : Setter) (e : Enc) (units : List Nat)
    {u : Url} (hs : s = .protocol → st = false) (h : GoodS idna st u) :
    GoodS idna st (setValid idna s e units u).1 :=
  GoodS.ofAll (Proofs.C02b.set_all hi s e units u h.toAll hs)

/-- the parser returns good records, without a base or against a good base (`parse_all`) -/
theorem good_parse {idna : Idna} {st : Bool} (hi : IdnaStable idna) (e : Enc) (units : List Nat)
    (base : Option Url) (hb : ∀ b, base = some b → GoodS idna st b) {u : Url}
    (hp : parse idna e units base = some u) : GoodS idna st u :=
  GoodS.ofAll (Proofs.C02b.parse_all hi e units base (fun b hbb => (hb b hbb).toAll) u hp)

/-! ## the QUERY part view -/

/-- `get_part_view(QUERY)` of any representation of `u` is the query of `u` (null ↦ empty) -/
theorem queryView_eq {r : Rep} {u : Url} (wf : RecWF u) (h : RepFor r u) :
    rQueryView (some r) = queryBytes (some u) := by
  show r.partView QUERY = _
  rw [partView_eq wf h QUERY (by decide) (by decide), partView_query_layout]
  show (querySeg u).drop 1 = u.query.getD []
  unfold querySeg
  cases u.query <;> rfl

/-! ## byte strings in the params -/

def PairsBytes (l : List BPair) : Prop := ∀ pr ∈ l, (∀ b ∈ pr.1, b < 256) ∧ (∀ b ∈ pr.2, b < 256)

def SpBytes (sp : Option Params) : Prop := ∀ p, sp = some p → PairsBytes p.list

instance (l : List BPair) : Decidable (PairsBytes l) := by unfold PairsBytes; infer_instance
instance (sp : Option Params) : Decidable (SpBytes sp) :=
  match sp with
  | none => isTrue (fun _ h => by cases h)
  | some p =>
    if h : PairsBytes p.list then isTrue (fun q hq => by cases hq; exact h)
    else isFalse (fun hn => h (hn p rfl))

theorem pairsBytes_nil : PairsBytes [] := fun _ h => by cases h

theorem spBytes_none : SpBytes none := fun _ h => by cases h

theorem spBytes_some {p : Params} (h : PairsBytes p.list) : SpBytes (some p) :=
  fun q hq => by cases hq; exact h

theorem pairsBytes_formParse (r : Bool) (bytes : List Nat) (hb : ∀ x ∈ bytes, x < 256) :
    PairsBytes (formParse r bytes) :=
  fun pr hpr =>
    have := Proofs.C06.formParse_wfp' r bytes hb pr hpr
    ⟨this.1.2, this.2.2⟩

theorem pairsBytes_setLoop (n v : List Nat) (hv : ∀ b ∈ v, b < 256) :
    ∀ (l : List BPair) (m : Bool), PairsBytes l → PairsBytes (setLoop n v l m).1
  | [], _, _ => pairsBytes_nil
  | x :: xs, m, h => by
    have hxs : PairsBytes xs := fun y hy => h y (by simp [hy])
    have hx := h x (by simp)
    unfold setLoop
    split
    · split
      · exact pairsBytes_setLoop n v hv xs true hxs
      · intro y hy
        rcases List.mem_cons.1 hy with rfl | hy
        · exact ⟨hx.1, hv⟩
        · exact pairsBytes_setLoop n v hv xs true hxs y hy
    · intro y hy
      rcases List.mem_cons.1 hy with rfl | hy
      · exact hx
      · exact pairsBytes_setLoop n v hv xs m hxs y hy

theorem pairsBytes_spOp (f : SpOp) (hf : f.WF) (p : Params) (h : PairsBytes p.list) :
    PairsBytes (f.fn p).list := by
  cases f with
  | append n v =>
    intro x hx
    simp only [SpOp.fn, Params.append, List.mem_append, List.mem_singleton] at hx
    rcases hx with hx | rfl
    · exact h x hx
    · exact hf
  | set n v =>
    show PairsBytes (p.set n v).list
    unfold Params.set
    have := pairsBytes_setLoop n v hf.2 p.list false h
    generalize setLoop n v p.list false = r at this
    rcases r with ⟨l, m⟩
    dsimp only
    split
    · intro x hx
      simp only [Params.append, List.mem_append, List.mem_singleton] at hx
      rcases hx with hx | rfl
      · exact h x hx
      · exact hf
    · exact this
  | del n => exact fun x hx => h x (List.mem_filter.1 hx).1
  | del2 n v => exact fun x hx => h x (List.mem_filter.1 hx).1
  | remove n => exact fun x hx => h x (List.mem_filter.1 hx).1
  | remove2 n v => exact fun x hx => h x (List.mem_filter.1 hx).1
  | sort =>
    show PairsBytes p.sort.list
    unfold Params.sort
    split
    · intro x hx; exact h x (List.mem_mergeSort.1 hx)
    · exact h
  | clear => exact pairsBytes_nil
  | parse q => exact pairsBytes_formParse true q hf

/-! ## the simulation relation -/

/-- the records: both invalid, or a representation of a good record -/
def RecSimS (idna : Idna) (st : Bool) : Option Rep → Option Url → Prop
  | some r, some u => RepFor r u ∧ GoodS idna st u
  | none, none => True
  | _, _ => False

/-- the objects: the same params object (of byte strings), and related records -/
def SimS (idna : Idna) (st : Bool) (ro : RObj) (o : UrlObj) : Prop :=
  ro.sp = o.sp ∧ SpBytes o.sp ∧ RecSimS idna st ro.rep o.url

def SimS₂ (idna : Idna) (st : Bool) (rs : RObj × RObj) (us : UrlObj × UrlObj) : Prop :=
  SimS idna st rs.1 us.1 ∧ SimS idna st rs.2 us.2

/-- the relation every operation keeps (`st = false`: `Good` is `NormX`) -/
abbrev RecSim (idna : Idna) := RecSimS idna false
abbrev Sim (idna : Idna) := SimS idna false
abbrev Sim₂ (idna : Idna) := SimS₂ idna false

instance (idna : Idna) (st : Bool) (a : Option Rep) (b : Option Url) : Decidable (RecSimS idna st a b) := by
  cases a <;> cases b <;> unfold RecSimS <;> infer_instance
instance (idna : Idna) (st : Bool) (ro : RObj) (o : UrlObj) : Decidable (SimS idna st ro o) := by
  unfold SimS; infer_instance
instance (idna : Idna) (st : Bool) (rs : RObj × RObj) (us : UrlObj × UrlObj) : Decidable (SimS₂ idna st rs us) := by
  unfold SimS₂; infer_instance

theorem recSim_none (idna : Idna) (st : Bool) : RecSimS idna st none none := trivial

theorem recSim_some {idna : Idna} {st : Bool} {r : Rep} {u : Url} (h : RepFor r u) (g : GoodS idna st u) :
    RecSimS idna st (some r) (some u) := ⟨h, g⟩

theorem RecSimS.isSome {idna : Idna} {st : Bool} {a : Option Rep} {b : Option Url} (h : RecSimS idna st a b) :
    a.isSome = b.isSome := by
  cases a <;> cases b <;> first | rfl | exact absurd h (by simp [RecSimS])

theorem RecSimS.query {idna : Idna} {st : Bool} {a : Option Rep} {b : Option Url} (h : RecSimS idna st a b) :
    rQueryView a = queryBytes b := by
  cases a <;> cases b
  · rfl
  · exact absurd h (by simp [RecSimS])
  · exact absurd h (by simp [RecSimS])
  · exact queryView_eq h.2.recWF h.1

theorem RecSimS.qbytes {idna : Idna} {st : Bool} {a : Option Rep} {b : Option Url} (h : RecSimS idna st a b) :
    ∀ x ∈ queryBytes b, x < 256 := by
  cases a <;> cases b
  · intro x hx; simp [queryBytes] at hx
  · exact absurd h (by simp [RecSimS])
  · exact absurd h (by simp [RecSimS])
  · exact h.2.qbytes

theorem sim_empty (idna : Idna) (st : Bool) : SimS idna st {} {} := ⟨rfl, spBytes_none, trivial⟩

theorem sim_mk {idna : Idna} {st : Bool} {a : Option Rep} {b : Option Url} {sp : Option Params}
    (h : RecSimS idna st a b) (hs : SpBytes sp) : SimS idna st ⟨a, sp⟩ ⟨b, sp⟩ := ⟨rfl, hs, h⟩

/-- a fresh list parsed from the query of related records -/
theorem spBytes_query {idna : Idna} {st : Bool} {a : Option Rep} {b : Option Url} (h : RecSimS idna st a b) (s : Bool) :
    SpBytes (some { list := formParse false (queryBytes b), isSorted := s }) :=
  spBytes_some (pairsBytes_formParse false _ h.qbytes)

/-! ## one-object operations -/

theorem sim_reparseParams {idna : Idna} {st : Bool} {ro : RObj} {o : UrlObj} (h : SimS idna st ro o) :
    SimS idna st ro.reparseParams o.reparseParams := by
  obtain ⟨a, sp⟩ := ro
  obtain ⟨b, sp'⟩ := o
  obtain ⟨h1, h2, h3⟩ := h
  simp only at h1 h2 h3
  subst h1
  cases sp with
  | none => exact ⟨rfl, h2, h3⟩
  | some p =>
    simp only [RObj.reparseParams, UrlObj.reparseParams, h3.query]
    exact sim_mk h3 (spBytes_query h3 false)

theorem sim_clearParams {idna : Idna} {st : Bool} {ro : RObj} {o : UrlObj} (h : SimS idna st ro o) :
    SimS idna st ro.clearParams o.clearParams := by
  obtain ⟨a, sp⟩ := ro
  obtain ⟨b, sp'⟩ := o
  obtain ⟨h1, h2, h3⟩ := h
  simp only at h1 h2 h3
  subst h1
  cases sp with
  | none => exact ⟨rfl, h2, h3⟩
  | some p => exact sim_mk h3 (spBytes_some pairsBytes_nil)

/-- replacing the record -/
theorem sim_setRec {idna : Idna} {st : Bool} {ro : RObj} {o : UrlObj} (h : SimS idna st ro o)
    {a : Option Rep} {b : Option Url} (hab : RecSimS idna st a b) :
    SimS idna st { ro with rep := a } { o with url := b } := ⟨h.1, h.2.1, hab⟩

theorem sim_clear {idna : Idna} {st : Bool} {ro : RObj} {o : UrlObj} (h : SimS idna st ro o) :
    SimS idna st ro.clear o.clear :=
  sim_clearParams (sim_setRec h (recSim_none idna st))

/-- the parser on related bases yields related results -/
theorem recSim_parse {idna : Idna} {st : Bool} (hi : IdnaStable idna) (e : Enc) (units : List Nat)
    {rb : Option Rep} {b : Option Url} (hb : RecSimS idna st rb b) :
    RecSimS idna st (parseRep idna e units rb) (parse idna e units b) := by
  cases rb with
  | none =>
    cases b with
    | some _ => exact absurd hb (by simp [RecSimS])
    | none =>
      obtain ⟨k1, k2⟩ := C05e_parse_nobase idna e units
      cases hr : parseRep idna e units none with
      | none =>
        cases hp : parse idna e units none with
        | none => trivial
        | some u => rw [hr, hp] at k1; simp at k1
      | some r =>
        cases hp : parse idna e units none with
        | none => rw [hr, hp] at k1; simp at k1
        | some u =>
          exact ⟨(k2 r u hr hp).1, good_parse hi e units none (fun _ hc => by cases hc) hp⟩
  | some rb =>
    cases b with
    | none => exact absurd hb (by simp [RecSimS])
    | some b =>
      obtain ⟨hrb, hg⟩ := hb
      obtain ⟨a1, a2, a3, a4⟩ := hg.ok
      obtain ⟨k1, k2⟩ := C05e_parse_base idna e units b rb a1 a2 a3 a4 hrb
      cases hr : parseRep idna e units (some rb) with
      | none =>
        cases hp : parse idna e units (some b) with
        | none => trivial
        | some u => rw [hr, hp] at k1; simp at k1
      | some r =>
        cases hp : parse idna e units (some b) with
        | none => rw [hr, hp] at k1; simp at k1
        | some u =>
          exact ⟨(k2 r u hr hp).1,
            good_parse hi e units (some b) (fun b' hc => by cases hc; exact hg) hp⟩

/-- related base arguments of `parse`: no base, or the records of two related objects -/
inductive BaseSimS (idna : Idna) (st : Bool) : Option (Option Rep) → Option (Option Url) → Prop
  | none : BaseSimS idna st none none
  | obj {rb : Option Rep} {b : Option Url} : RecSimS idna st rb b → BaseSimS idna st (some rb) (some b)

theorem sim_parse {idna : Idna} {st : Bool} (hi : IdnaStable idna) {ro : RObj} {o : UrlObj} (h : SimS idna st ro o)
    (e : Enc) (units : List Nat) {rbase : Option (Option Rep)} {base : Option (Option Url)}
    (hb : BaseSimS idna st rbase base) :
    SimS idna st (ro.parse idna e units rbase).1 (o.parse idna e units base).1 ∧
    (ro.parse idna e units rbase).2 = (o.parse idna e units base).2 := by
  -- the object after `new_url()`
  have h1 : SimS idna st (if ro.rep.isSome then ro.clearParams else ro)
      (if o.url.isSome then o.clearParams else o) := by
    rw [h.2.2.isSome]
    split
    · exact sim_clearParams h
    · exact h
  unfold RObj.parse UrlObj.parse
  simp only
  generalize (if ro.rep.isSome then ro.clearParams else ro) = ro1 at h1
  generalize (if o.url.isSome then o.clearParams else o) = o1 at h1
  have key : ∀ (rb : Option Rep) (b : Option Url), RecSimS idna st rb b →
      SimS idna st (match parseRep idna e units rb with
          | some r => (({ ro1 with rep := some r } : RObj).reparseParams, true)
          | none => (({ ro1 with rep := none } : RObj), false)).1
        (match parse idna e units b with
          | some u => (({ o1 with url := some u } : UrlObj).reparseParams, true)
          | none => (({ o1 with url := none } : UrlObj), false)).1 ∧
      (match parseRep idna e units rb with
          | some r => (({ ro1 with rep := some r } : RObj).reparseParams, true)
          | none => (({ ro1 with rep := none } : RObj), false)).2 =
        (match parse idna e units b with
          | some u => (({ o1 with url := some u } : UrlObj).reparseParams, true)
          | none => (({ o1 with url := none } : UrlObj), false)).2 := by
    intro rb b hrb
    have hs := recSim_parse hi e units hrb
    cases hr : parseRep idna e units rb with
    | none =>
      cases hp : parse idna e units b with
      | none => exact ⟨sim_setRec h1 (recSim_none idna st), rfl⟩
      | some u => rw [hr, hp] at hs; exact absurd hs (by simp [RecSimS])
    | some r =>
      cases hp : parse idna e units b with
      | none => rw [hr, hp] at hs; exact absurd hs (by simp [RecSimS])
      | some u =>
        rw [hr, hp] at hs
        exact ⟨sim_reparseParams (sim_setRec h1 hs), rfl⟩
  cases hb with
  | none => exact key none none (recSim_none idna st)
  | @obj rb b hrb =>
    cases rb with
    | none =>
      cases b with
      | some _ => exact absurd hrb (by simp [RecSimS])
      | none => exact ⟨sim_setRec h1 (recSim_none idna st), rfl⟩
    | some rb =>
      cases b with
      | none => exact absurd hrb (by simp [RecSimS])
      | some b => exact key (some rb) (some b) hrb

/-! ## safe_assign and the href setter -/

theorem sim_safeAssign {idna : Idna} {st : Bool} {rd rs : RObj} {d s : UrlObj} (hd : SimS idna st rd d) (hs : SimS idna st rs s) :
    SimS idna st (rSafeAssign rd rs).1 (safeAssign d s).1 ∧ SimS idna st (rSafeAssign rd rs).2 (safeAssign d s).2 := by
  obtain ⟨da, dsp⟩ := rd
  obtain ⟨db, dsp'⟩ := d
  obtain ⟨sa, ssp⟩ := rs
  obtain ⟨sb, ssp'⟩ := s
  obtain ⟨d1, d2, d3⟩ := hd
  obtain ⟨s1, s2, s3⟩ := hs
  simp only at d1 d2 d3 s1 s2 s3
  subst d1 s1
  constructor
  · cases dsp with
    | none => exact sim_mk s3 spBytes_none
    | some dp =>
      cases ssp with
      | none =>
        simp only [rSafeAssign, safeAssign, s3.query]
        exact sim_mk s3 (spBytes_query s3 false)
      | some p => exact sim_mk s3 (spBytes_some (s2 p rfl))
  · refine sim_mk (recSim_none idna st) ?_
    cases ssp with
    | none => exact spBytes_none
    | some p => exact spBytes_some pairsBytes_nil

/-- the href setter of the record-level model, as the C++ does it: parse into a fresh object, then
    `safe_assign` -/
theorem urlObj_set_href (idna : Idna) (o : UrlObj) (e : Enc) (units : List Nat) :
    o.set idna .href e units =
      match (({} : UrlObj).parse idna e units none) with
      | (fresh, true) => ((safeAssign o fresh).1, true)
      | (_, false) => (o, false) := by
  obtain ⟨u, sp⟩ := o
  simp only [UrlObj.set, UrlObj.parse, Option.isSome_none, Bool.false_eq_true, if_false, Option.bind_none]
  cases hp : parse idna e units none with
  | none => rfl
  | some u' =>
    cases sp <;> rfl

theorem sim_set {idna : Idna} {st : Bool} (hi : IdnaStable idna) {ro : RObj} {o : UrlObj} (h : SimS idna st ro o)
    (s : Setter) (e : Enc) (units : List Nat) (hsp : s = .protocol → st = false) :
    SimS idna st (ro.set idna s e units).1 (o.set idna s e units).1 ∧
    (ro.set idna s e units).2 = (o.set idna s e units).2 := by
  by_cases hs : s = .href
  · subst hs
    rw [urlObj_set_href]
    have hf := sim_parse hi (sim_empty idna st) e units (BaseSimS.none (idna := idna) (st := st))
    have e1 : ro.set idna .href e units =
        match (({} : RObj).parse idna e units none) with
        | (fresh, true) => ((rSafeAssign ro fresh).1, true)
        | (_, false) => (ro, false) := by
      unfold RObj.set; rfl
    rw [e1]
    generalize ({} : RObj).parse idna e units none = x at hf
    generalize ({} : UrlObj).parse idna e units none = y at hf
    obtain ⟨xf, xb⟩ := x
    obtain ⟨yf, yb⟩ := y
    obtain ⟨hf1, hf2⟩ := hf
    simp only at hf1 hf2
    subst hf2
    cases xb with
    | false => exact ⟨h, rfl⟩
    | true => exact ⟨(sim_safeAssign h hf1).1, rfl⟩
  · obtain ⟨a, sp⟩ := ro
    obtain ⟨b, sp'⟩ := o
    obtain ⟨h1, h2, h3⟩ := h
    simp only at h1 h2 h3
    subst h1
    cases a with
    | none =>
      cases b with
      | some _ => exact absurd h3 (by simp [RecSimS])
      | none =>
        have e1 : RObj.set idna ⟨none, sp⟩ s e units = (⟨none, sp⟩, false) := by
          cases s <;> first | exact absurd rfl hs | rfl
        rw [e1, C03_invalid_inert idna sp s e units hs]
        exact ⟨⟨rfl, h2, h3⟩, rfl⟩
    | some r =>
      cases b with
      | none => exact absurd h3 (by simp [RecSimS])
      | some u =>
        obtain ⟨hr, hg⟩ := h3
        obtain ⟨ok, hinv, _, _⟩ := hg.ok
        obtain ⟨k1, k2⟩ := C05d_setter idna s e units u r hs ok hinv.file hr
        have hg' := good_set hi s e units hsp hg
        have hrec : RecSimS idna st (some (setRep idna s e units r).1) (some (setValid idna s e units u).1) :=
          ⟨k1, hg'⟩
        by_cases hq : s = .search
        · subst hq
          have e1 : RObj.set idna ⟨some r, sp⟩ .search e units =
              (if units = [] then (⟨some (setRep idna .search e units r).1, sp⟩ : RObj).clearParams
                else (⟨some (setRep idna .search e units r).1, sp⟩ : RObj).reparseParams,
               (setRep idna .search e units r).2) := rfl
          have e2 : UrlObj.set idna ⟨some u, sp⟩ .search e units =
              (if units = [] then (⟨some (setValid idna .search e units u).1, sp⟩ : UrlObj).clearParams
                else (⟨some (setValid idna .search e units u).1, sp⟩ : UrlObj).reparseParams,
               (setValid idna .search e units u).2) := rfl
          rw [e1, e2]
          refine ⟨?_, k2⟩
          simp only
          split
          · exact sim_clearParams (sim_mk hrec h2)
          · exact sim_reparseParams (sim_mk hrec h2)
        · have e1 : RObj.set idna ⟨some r, sp⟩ s e units =
              (⟨some (setRep idna s e units r).1, sp⟩, (setRep idna s e units r).2) := by
            cases s <;> first | exact absurd rfl hs | exact absurd rfl hq | rfl
          have e2 : UrlObj.set idna ⟨some u, sp⟩ s e units =
              (⟨some (setValid idna s e units u).1, sp⟩, (setValid idna s e units u).2) := by
            cases s <;> first | exact absurd rfl hs | exact absurd rfl hq | rfl
          rw [e1, e2]
          exact ⟨sim_mk hrec h2, k2⟩

/-! ## the params object -/

theorem sim_searchParams {idna : Idna} {st : Bool} {ro : RObj} {o : UrlObj} (h : SimS idna st ro o) :
    SimS idna st ro.searchParams o.searchParams := by
  obtain ⟨a, sp⟩ := ro
  obtain ⟨b, sp'⟩ := o
  obtain ⟨h1, h2, h3⟩ := h
  simp only at h1 h2 h3
  subst h1
  cases sp with
  | some p => exact ⟨rfl, h2, h3⟩
  | none =>
    simp only [RObj.searchParams, UrlObj.searchParams, h3.query]
    exact sim_mk h3 (spBytes_query h3 false)

theorem urlObj_update_sp (o : UrlObj) : o.update.sp = o.sp := by
  unfold UrlObj.update
  split
  · split <;> rfl
  · rfl

theorem sim_update {idna : Idna} {st : Bool} {ro : RObj} {o : UrlObj} (h : SimS idna st ro o) :
    SimS idna st ro.update o.update := by
  obtain ⟨a, sp⟩ := ro
  obtain ⟨b, sp'⟩ := o
  obtain ⟨h1, h2, h3⟩ := h
  simp only at h1 h2 h3
  subst h1
  cases a with
  | none =>
    cases b with
    | some _ => exact absurd h3 (by simp [RecSimS])
    | none => exact ⟨rfl, h2, h3⟩
  | some r =>
    cases b with
    | none => exact absurd h3 (by simp [RecSimS])
    | some u =>
      cases sp with
      | none => exact ⟨rfl, h2, h3⟩
      | some p =>
        obtain ⟨hr, hg⟩ := h3
        obtain ⟨u', hu', hrep⟩ := C05f_update u p r hg.repOk hr
        have hg' : GoodS idna st u' :=
          GoodS.ofAll (Proofs.C02b.update_all ⟨some u, some p⟩
            (fun v hv => by cases hv; exact hg.toAll) (fun q hq => by cases hq; exact h2 p rfl) u' hu')
        have hsp := urlObj_update_sp ⟨some u, some p⟩
        generalize UrlObj.update ⟨some u, some p⟩ = o' at hu' hsp
        obtain ⟨ou, osp⟩ := o'
        simp only at hu' hsp
        subst hu' hsp
        exact ⟨rfl, h2, hrep, hg'⟩

theorem sim_spApply {idna : Idna} {st : Bool} {ro : RObj} {o : UrlObj} (h : SimS idna st ro o) (f : Params → Params)
    (hf : ∀ p, PairsBytes p.list → PairsBytes (f p).list) (always : Bool) :
    SimS idna st (ro.spApply f always) (o.spApply f always) := by
  have h' := sim_searchParams h
  unfold RObj.spApply UrlObj.spApply
  simp only
  generalize ro.searchParams = ro1 at h'
  generalize o.searchParams = o1 at h'
  obtain ⟨a, sp⟩ := ro1
  obtain ⟨b, sp'⟩ := o1
  obtain ⟨h1, h2, h3⟩ := h'
  simp only at h1 h2 h3
  subst h1
  cases sp with
  | none => exact ⟨rfl, h2, h3⟩
  | some p =>
    simp only
    have hn : SimS idna st ⟨a, some (f p)⟩ ⟨b, some (f p)⟩ := sim_mk h3 (spBytes_some (hf p (h2 p rfl)))
    split
    · exact sim_update hn
    · exact hn

/-- `search_params() &&`: the owned list is moved out on both levels, the record is not touched -/
theorem sim_searchParamsRvalue {idna : Idna} {st : Bool} {ro : RObj} {o : UrlObj} (h : SimS idna st ro o) :
    SimS idna st ro.searchParamsRvalue (uSearchParamsRvalue o) := by
  obtain ⟨a, sp⟩ := ro
  obtain ⟨b, sp'⟩ := o
  obtain ⟨h1, h2, h3⟩ := h
  simp only at h1 h2 h3
  subst h1
  cases sp with
  | none => exact ⟨rfl, h2, h3⟩
  | some p => exact sim_mk h3 (spBytes_some pairsBytes_nil)

/-! ## copy / move -/

theorem sim_copyAssign {idna : Idna} {st : Bool} {rd rs : RObj} {d s : UrlObj} (hd : SimS idna st rd d) (hs : SimS idna st rs s) :
    SimS idna st (rCopyAssign rd rs) (copyAssign d s) := by
  obtain ⟨da, dsp⟩ := rd
  obtain ⟨db, dsp'⟩ := d
  obtain ⟨sa, ssp⟩ := rs
  obtain ⟨sb, ssp'⟩ := s
  obtain ⟨d1, d2, d3⟩ := hd
  obtain ⟨s1, s2, s3⟩ := hs
  simp only at d1 d2 d3 s1 s2 s3
  subst d1 s1
  cases dsp with
  | none => exact sim_mk s3 spBytes_none
  | some dp =>
    cases ssp with
    | none => exact sim_reparseParams (sim_mk s3 d2)
    | some p => exact sim_mk s3 (spBytes_some (s2 p rfl))

theorem sim_copyConstruct {idna : Idna} {st : Bool} {rs : RObj} {s : UrlObj} (hs : SimS idna st rs s) :
    SimS idna st (rCopyConstruct rs) (copyConstruct s) :=
  sim_mk hs.2.2 spBytes_none

theorem sim_moveAssign {idna : Idna} {st : Bool} {rs : RObj} {s : UrlObj} (hs : SimS idna st rs s) :
    SimS idna st (rMoveAssign rs).1 (moveAssign s).1 ∧ SimS idna st (rMoveAssign rs).2 (moveAssign s).2 :=
  ⟨hs, sim_empty idna st⟩

theorem rSwap_eq (a b : RObj) : rSwap a b = (b, a) := rfl
theorem uSwap_eq (a b : UrlObj) : uSwap a b = (b, a) := rfl

/-! ## the two slots -/

theorem sim₂_get {idna : Idna} {st : Bool} {rs : RObj × RObj} {us : UrlObj × UrlObj} (h : SimS₂ idna st rs us) (k : Slot) :
    SimS idna st (getSlot rs k) (getSlot us k) := by
  cases k
  · exact h.1
  · exact h.2

theorem sim₂_set {idna : Idna} {st : Bool} {rs : RObj × RObj} {us : UrlObj × UrlObj} (h : SimS₂ idna st rs us) (k : Slot)
    {x : RObj} {y : UrlObj} (hxy : SimS idna st x y) : SimS₂ idna st (setSlot rs k x) (setSlot us k y) := by
  cases k
  · exact ⟨hxy, h.2⟩
  · exact ⟨h.1, hxy⟩

/-- every operation keeps the relation on both slots and returns the same result -/
theorem sim_step {idna : Idna} {st : Bool} (hi : IdnaStable idna) (op : Op) (hop : op.WF)
    (hnp : st = true → op.NoProtocol)
    {rs : RObj × RObj} {us : UrlObj × UrlObj} (h : SimS₂ idna st rs us) :
    SimS₂ idna st (stepR idna op rs).1 (stepU idna op us).1 ∧ (stepR idna op rs).2 = (stepU idna op us).2 := by
  cases op with
  | parse k e units base =>
    have hk := sim₂_get h k
    cases base with
    | none =>
      obtain ⟨a, b⟩ := sim_parse hi hk e units (BaseSimS.none (idna := idna) (st := st))
      exact ⟨sim₂_set h k a, b⟩
    | other =>
      obtain ⟨a, b⟩ := sim_parse hi hk e units (BaseSimS.obj (sim₂_get h (!k)).2.2)
      exact ⟨sim₂_set h k a, b⟩
    | same =>
      obtain ⟨a, b⟩ := sim_parse hi hk e units (BaseSimS.obj hk.2.2)
      exact ⟨sim₂_set h k a, b⟩
    | str eb ub =>
      have hf := sim_parse hi (sim_empty idna st) eb ub (BaseSimS.none (idna := idna) (st := st))
      simp only [stepR, stepU]
      generalize ({} : RObj).parse idna eb ub none = x at hf
      generalize ({} : UrlObj).parse idna eb ub none = y at hf
      obtain ⟨xf, xb⟩ := x
      obtain ⟨yf, yb⟩ := y
      obtain ⟨hf1, hf2⟩ := hf
      simp only at hf1 hf2
      subst hf2
      cases xb with
      | false =>
        obtain ⟨a, b⟩ := sim_parse hi hk e units (BaseSimS.obj (recSim_none idna st))
        exact ⟨sim₂_set h k a, b⟩
      | true =>
        obtain ⟨a, b⟩ := sim_parse hi hk e units (BaseSimS.obj hf1.2.2)
        exact ⟨sim₂_set h k a, b⟩
  | set k s e units =>
    have hsp : s = .protocol → st = false := by
      intro hs
      subst hs
      cases st with
      | false => rfl
      | true => exact absurd (hnp rfl) (by simp [Op.NoProtocol])
    obtain ⟨a, b⟩ := sim_set hi (sim₂_get h k) s e units hsp
    exact ⟨sim₂_set h k a, b⟩
  | searchParams k => exact ⟨sim₂_set h k (sim_searchParams (sim₂_get h k)), rfl⟩
  | sp k f =>
    exact ⟨sim₂_set h k (sim_spApply (sim₂_get h k) f.fn (pairsBytes_spOp f hop) f.always), rfl⟩
  | spAssign k list sorted =>
    have hl : PairsBytes list := hop
    exact ⟨sim₂_set h k (sim_spApply (sim₂_get h k) (fun _ => { list := list, isSorted := sorted })
      (fun _ _ => hl) true), rfl⟩
  | spSafeAssign k list sorted =>
    have hl : PairsBytes list := hop
    exact ⟨sim₂_set h k (sim_spApply (sim₂_get h k) (fun _ => { list := list, isSorted := sorted })
      (fun _ _ => hl) true), rfl⟩
  | searchParamsRvalue k => exact ⟨sim₂_set h k (sim_searchParamsRvalue (sim₂_get h k)), rfl⟩
  | clear k => exact ⟨sim₂_set h k (sim_clear (sim₂_get h k)), rfl⟩
  | copyAssign d s =>
    simp only [stepR, stepU]
    split
    · exact ⟨h, rfl⟩
    · exact ⟨sim₂_set h d (sim_copyAssign (sim₂_get h d) (sim₂_get h s)), rfl⟩
  | copyConstruct d s =>
    simp only [stepR, stepU]
    split
    · exact ⟨h, rfl⟩
    · exact ⟨sim₂_set h d (sim_copyConstruct (sim₂_get h s)), rfl⟩
  | moveAssign d s =>
    simp only [stepR, stepU]
    split
    · exact ⟨h, rfl⟩
    · obtain ⟨a, b⟩ := sim_moveAssign (sim₂_get h s)
      exact ⟨sim₂_set (sim₂_set h d a) s b, rfl⟩
  | safeAssign d s =>
    simp only [stepR, stepU]
    split
    · exact ⟨h, rfl⟩
    · obtain ⟨a, b⟩ := sim_safeAssign (sim₂_get h d) (sim₂_get h s)
      exact ⟨sim₂_set (sim₂_set h d a) s b, rfl⟩
  | swap => exact ⟨⟨h.2, h.1⟩, rfl⟩

/-- … hence every history -/
theorem sim_run {idna : Idna} {st : Bool} (hi : IdnaStable idna) (ops : List Op) (hops : ∀ op ∈ ops, op.WF)
    (hnp : st = true → ∀ op ∈ ops, op.NoProtocol)
    {rs : RObj × RObj} {us : UrlObj × UrlObj} (h : SimS₂ idna st rs us) :
    SimS₂ idna st (runR idna ops rs) (runU idna ops us) ∧ retR idna ops rs = retU idna ops us := by
  induction ops generalizing rs us with
  | nil => exact ⟨h, rfl⟩
  | cons op ops ih =>
    obtain ⟨a, b⟩ := sim_step hi op (hops op List.mem_cons_self) (fun hst => hnp hst op List.mem_cons_self) h
    obtain ⟨c, d⟩ := ih (fun o ho => hops o (List.mem_cons_of_mem _ ho))
      (fun hst o ho => hnp hst o (List.mem_cons_of_mem _ ho)) a
    exact ⟨c, by simp only [retR, retU]; rw [b, d]⟩

/-! ## what can be observed of a valid object -/

/-- `≈` (same string, flags, host type, segment count, scheme index, same offsets once the never-started
    trailing parts are read as "end of string"), the twelve getters and the record read back agree -/
def Indist (a b : Rep) : Prop :=
  a.equiv b ∧
  a.norm = b.norm ∧ a.hostNotNull = b.hostNotNull ∧ a.portNotNull = b.portNotNull ∧
  a.queryNotNull = b.queryNotNull ∧ a.fragmentNotNull = b.fragmentNotNull ∧ a.opaquePath = b.opaquePath ∧
  a.hostType = b.hostType ∧ a.segCount = b.segCount ∧ a.schemeIdx = b.schemeIdx ∧
  a.href = b.href ∧ a.protocol = b.protocol ∧ a.username = b.username ∧
  a.password = b.password ∧ a.host = b.host ∧ a.hostname = b.hostname ∧
  a.port = b.port ∧ a.pathname = b.pathname ∧ a.path = b.path ∧
  a.search = b.search ∧ a.hash = b.hash ∧ a.serializeNoFragment = b.serializeNoFragment ∧
  a.toRecord = b.toRecord

instance (a b : Rep) : Decidable (Indist a b) := by unfold Indist; infer_instance

/-- two representations of the same record are indistinguishable -/
theorem indist_of_repFor {a b : Rep} {u : Url} (wf : RecWF u) (sh : RecShape u)
    (ha : RepFor a u) (hb : RepFor b u) : Indist a b := by
  have he : a.equiv b := ha.1.trans hb.1.symm
  have hf : a.fill = b.fill := he
  have g := C05b_equiv_getters a b he ha.2 hb.2
  exact ⟨he, (congrArg Rep.norm hf : a.fill.norm = b.fill.norm),
    (congrArg Rep.hostNotNull hf : a.fill.hostNotNull = _), (congrArg Rep.portNotNull hf : a.fill.portNotNull = _),
    (congrArg Rep.queryNotNull hf : a.fill.queryNotNull = _),
    (congrArg Rep.fragmentNotNull hf : a.fill.fragmentNotNull = _),
    (congrArg Rep.opaquePath hf : a.fill.opaquePath = _), (congrArg Rep.hostType hf : a.fill.hostType = _),
    (congrArg Rep.segCount hf : a.fill.segCount = _), (congrArg Rep.schemeIdx hf : a.fill.schemeIdx = _),
    g.1, g.2.1, g.2.2.1, g.2.2.2.1, g.2.2.2.2.1, g.2.2.2.2.2.1, g.2.2.2.2.2.2.1, g.2.2.2.2.2.2.2.1,
    g.2.2.2.2.2.2.2.2.1, g.2.2.2.2.2.2.2.2.2.1, g.2.2.2.2.2.2.2.2.2.2.1, g.2.2.2.2.2.2.2.2.2.2.2,
    (C05d_toRecord u a wf sh ha).trans (C05d_toRecord u b wf sh hb).symm⟩

/-- the flags, host type, segment count and scheme index of a representation are those of its record -/
theorem flags_of_repFor {r : Rep} {u : Url} (wf : RecWF u) (h : RepFor r u) :
    r.hostNotNull = u.host.isSome ∧ r.portNotNull = u.port.isSome ∧ r.queryNotNull = u.query.isSome ∧
    r.fragmentNotNull = u.fragment.isSome ∧ r.opaquePath = u.hasOpaquePath ∧
    r.hostType = (match u.host with | some x => hostKindCode x.kind | none => 0) ∧
    r.segCount = (if u.hasOpaquePath then 0 else u.path.length) ∧ r.schemeIdx = schemeIndex u.scheme := by
  have hf : r.fill = layout u := fill_eq wf h
  exact ⟨(congrArg Rep.hostNotNull hf : r.fill.hostNotNull = _), (congrArg Rep.portNotNull hf : r.fill.portNotNull = _),
    (congrArg Rep.queryNotNull hf : r.fill.queryNotNull = _),
    (congrArg Rep.fragmentNotNull hf : r.fill.fragmentNotNull = _),
    (congrArg Rep.opaquePath hf : r.fill.opaquePath = _), (congrArg Rep.hostType hf : r.fill.hostType = _),
    (congrArg Rep.segCount hf : r.fill.segCount = _), (congrArg Rep.schemeIdx hf : r.fill.schemeIdx = _)⟩

/-- a fresh parse of the href of a representation of a normal-form record, with no base or against
    any related base, is again a representation of that record (`C02_reparse`, then
    `C05e_parse_nobase` / `C05e_parse_base`) -/
theorem fresh_parse {idna : Idna} {st : Bool} (hi : IdnaStable idna) {r : Rep} {u : Url} (hr : RepFor r u)
    (hn : Norm idna u) {rb : Option Rep} {b : Option Url} (hb : RecSimS idna st rb b) :
    ∃ r', parseRep idna .u8 r.href rb = some r' ∧ RepFor r' u := by
  have wf := (Good.ofNorm hn).recWF
  have hh : r.href = serialize u := (C05b_getters u r wf hr).1
  have hp : parse idna .u8 (serialize u) b = some u := C02_reparse idna u hn b (by cases b <;> simp)
  have hs := recSim_parse hi .u8 (serialize u) hb
  rw [hp] at hs
  rw [hh]
  cases hq : parseRep idna .u8 (serialize u) rb with
  | none => rw [hq] at hs; exact absurd hs (by simp [RecSimS])
  | some r' => rw [hq] at hs; exact ⟨r', rfl, hs.1⟩

/-- a good record that is not one of the two file exceptions is in normal form -/
theorem GoodS.norm {idna : Idna} {st : Bool} {u : Url} (h : GoodS idna st u) (hx : ¬ FileExc u) : Norm idna u :=
  (C02_norm_iff_normx idna u).2 ⟨h.weaken, hx⟩

/-- the strong invariant excludes the file exception -/
theorem GoodS.not_fileExc {idna : Idna} {u : Url} (h : GoodS idna true u) : ¬ FileExc u :=
  ((C02_norm_iff_normx idna u).1 h).2

end Upa.Proofs.ObjRep
