import Upa.Proofs.OwnViews
/-
  C06b, layer 3: the ownership invariant and its preservation by every operation of
  `Upa/Impl/Own.lean`.
-/
namespace Upa.Proofs.Own
open Upa Upa.Impl Upa.Impl.Own

/-! ## the invariant -/

/-- **The ownership invariant** of the pointer graph.
    * `fwd`  (a) the `search_params_ptr_` of a live url points to a live params object whose `url_ptr_`
             points back to that url;
    * `back` (b) a live params object whose `url_ptr_` is `u` is the object the live url `u` holds — no
             params object points to a url that does not hold it (no dangling, no crossed back pointer);
    * `excl` (c) no two urls hold the same params object;
    * `freshU`, `freshP`, `keysU`, `keysP` (d) live ids are below `next`, keys are unique. -/
structure OwnInv (h : Heap) : Prop where
  fwd : ∀ u uc p, h.getU u = some uc → uc.spPtr = some p → ∃ pc, h.getP p = some pc ∧ pc.urlPtr = some u
  back : ∀ p pc u, h.getP p = some pc → pc.urlPtr = some u → ∃ uc, h.getU u = some uc ∧ uc.spPtr = some p
  excl : ∀ u₁ u₂ c₁ c₂ p, h.getU u₁ = some c₁ → h.getU u₂ = some c₂ → c₁.spPtr = some p → c₂.spPtr = some p →
    u₁ = u₂
  freshU : ∀ u, h.liveU u = true → u < h.next
  freshP : ∀ p, h.liveP p = true → p < h.next
  keysU : (h.urls.map (·.1)).Nodup
  keysP : (h.params.map (·.1)).Nodup

/-- the same in terms of the two pointer views (no cells, no existentials) -/
structure OwnG (h : Heap) : Prop where
  fwd : ∀ u p, sp h u = some (some p) → up h p = some (some u)
  back : ∀ p u, up h p = some (some u) → sp h u = some (some p)
  freshU : ∀ u, h.next ≤ u → sp h u = none
  freshP : ∀ p, h.next ≤ p → up h p = none

theorem ownInv_iff (h : Heap) : OwnInv h ↔ (OwnG h ∧ NodupK h) := by
  constructor
  · intro hi
    refine ⟨⟨?_, ?_, ?_, ?_⟩, hi.keysU, hi.keysP⟩
    · intro u p hu
      unfold sp at hu; unfold up
      cases hg : h.getU u with
      | none => simp [hg] at hu
      | some uc =>
        simp only [hg, Option.map_some, Option.some.injEq] at hu
        obtain ⟨pc, h1, h2⟩ := hi.fwd u uc p hg hu
        simp [h1, h2]
    · intro p u hp
      unfold up at hp; unfold sp
      cases hg : h.getP p with
      | none => simp [hg] at hp
      | some pc =>
        simp only [hg, Option.map_some, Option.some.injEq] at hp
        obtain ⟨uc, h1, h2⟩ := hi.back p pc u hg hp
        simp [h1, h2]
    · intro u hu
      cases hs : sp h u with
      | none => rfl
      | some o =>
        have := hi.freshU u (by rw [liveU_eq, hs]; rfl)
        omega
    · intro p hp
      cases hs : up h p with
      | none => rfl
      | some o =>
        have := hi.freshP p (by rw [liveP_eq, hs]; rfl)
        omega
  · rintro ⟨hg, hn⟩
    have hfwd : ∀ u uc p, h.getU u = some uc → uc.spPtr = some p → ∃ pc, h.getP p = some pc ∧ pc.urlPtr = some u := by
      intro u uc p hu hp
      have := hg.fwd u p (by unfold sp; simp [hu, hp])
      unfold up at this
      cases hc : h.getP p with
      | none => simp [hc] at this
      | some pc => simp only [hc, Option.map_some, Option.some.injEq] at this; exact ⟨pc, rfl, this⟩
    refine ⟨hfwd, ?_, ?_, ?_, ?_, hn.1, hn.2⟩
    · intro p pc u hp hu
      have := hg.back p u (by unfold up; simp [hp, hu])
      unfold sp at this
      cases hc : h.getU u with
      | none => simp [hc] at this
      | some uc => simp only [hc, Option.map_some, Option.some.injEq] at this; exact ⟨uc, rfl, this⟩
    · intro u₁ u₂ c₁ c₂ p h1 h2 h3 h4
      obtain ⟨pc, hp, hu1⟩ := hfwd u₁ c₁ p h1 h3
      obtain ⟨pc', hp', hu2⟩ := hfwd u₂ c₂ p h2 h4
      rw [hp] at hp'; cases hp'
      rw [hu1] at hu2; exact Option.some.inj hu2
    · intro u hu
      rw [liveU_eq] at hu
      by_cases hlt : u < h.next
      · exact hlt
      · rw [hg.freshU u (by omega)] at hu; cases hu
    · intro p hp
      rw [liveP_eq] at hp
      by_cases hlt : p < h.next
      · exact hlt
      · rw [hg.freshP p (by omega)] at hp; cases hp

theorem ownG_empty : OwnG {} := ⟨fun _ _ h => (by cases h), fun _ _ h => (by cases h), fun _ _ => rfl, fun _ _ => rfl⟩
theorem nodupK_empty : NodupK {} := ⟨List.nodup_nil, List.nodup_nil⟩
theorem ownInv_empty : OwnInv {} := (ownInv_iff _).2 ⟨ownG_empty, nodupK_empty⟩

/-! ## views of the building blocks -/

@[simp] theorem sp_update (h : Heap) (p u : Nat) : sp (update h p) u = sp h u := by
  unfold update; split <;> simp
@[simp] theorem up_update (h : Heap) (p p' : Nat) : up (update h p) p' = up h p' := by
  unfold update; split <;> simp
@[simp] theorem cont_update (h : Heap) (p p' : Nat) : cont (update h p) p' = cont h p' := by
  unfold update; split <;> simp
@[simp] theorem next_update (h : Heap) (p : Nat) : (update h p).next = h.next := by
  unfold update; split <;> simp
/-- `update` writes into the record of the url `url_ptr_` names, and into no other -/
theorem recOf_update (h : Heap) (p u : Nat) :
    (update h p).recOf u = if (up h p).join = some u then recUpdate (h.recOf u) (h.listOf p) else h.recOf u := by
  unfold update
  rw [urlPtrOf_eq]
  cases hj : (up h p).join with
  | none => simp
  | some o =>
    simp only [recOf_setRec, Option.some.injEq]
    by_cases hu : u = o
    · subst hu
      simp only [if_true]
      cases hs : sp h u with
      | none => simp [recOf_dead h u hs, recUpdate]
      | some x => simp
    · simp [hu, Ne.symm hu]

@[simp] theorem sp_moveParams (h : Heap) (d s u : Nat) : sp (moveParams h d s) u = sp h u := by
  unfold moveParams; simp
@[simp] theorem up_moveParams (h : Heap) (d s p : Nat) : up (moveParams h d s) p = up h p := by
  unfold moveParams; simp
@[simp] theorem next_moveParams (h : Heap) (d s : Nat) : (moveParams h d s).next = h.next := by
  unfold moveParams; simp
@[simp] theorem recOf_moveParams (h : Heap) (d s u : Nat) : (moveParams h d s).recOf u = h.recOf u := by
  unfold moveParams; simp

@[simp] theorem sp_moveRecord (h : Heap) (d s u : Nat) : sp (moveRecord h d s) u = sp h u := by
  unfold moveRecord; dsimp only; split <;> simp
@[simp] theorem up_moveRecord (h : Heap) (d s p : Nat) : up (moveRecord h d s) p = up h p := by
  unfold moveRecord; dsimp only; split <;> simp
@[simp] theorem cont_moveRecord (h : Heap) (d s p : Nat) : cont (moveRecord h d s) p = cont h p := by
  unfold moveRecord; dsimp only; split <;> simp
@[simp] theorem next_moveRecord (h : Heap) (d s : Nat) : (moveRecord h d s).next = h.next := by
  unfold moveRecord; dsimp only; split <;> simp

@[simp] theorem sp_clearSearchParams (h : Heap) (u u' : Nat) : sp (clearSearchParams h u) u' = sp h u' := by
  unfold clearSearchParams; split <;> simp
@[simp] theorem up_clearSearchParams (h : Heap) (u p : Nat) : up (clearSearchParams h u) p = up h p := by
  unfold clearSearchParams; split <;> simp
@[simp] theorem next_clearSearchParams (h : Heap) (u : Nat) : (clearSearchParams h u).next = h.next := by
  unfold clearSearchParams; split <;> simp
@[simp] theorem recOf_clearSearchParams (h : Heap) (u u' : Nat) : (clearSearchParams h u).recOf u' = h.recOf u' := by
  unfold clearSearchParams; split <;> simp

@[simp] theorem sp_parseSearchParams (h : Heap) (u u' : Nat) : sp (parseSearchParams h u) u' = sp h u' := by
  unfold parseSearchParams; split <;> simp
@[simp] theorem up_parseSearchParams (h : Heap) (u p : Nat) : up (parseSearchParams h u) p = up h p := by
  unfold parseSearchParams; split <;> simp
@[simp] theorem next_parseSearchParams (h : Heap) (u : Nat) : (parseSearchParams h u).next = h.next := by
  unfold parseSearchParams; split <;> simp
@[simp] theorem recOf_parseSearchParams (h : Heap) (u u' : Nat) : (parseSearchParams h u).recOf u' = h.recOf u' := by
  unfold parseSearchParams; split <;> simp

/-! ## operations that write no pointer -/

/-- same graph: same pointer views, same `next` -/
def SameG (h h' : Heap) : Prop := (∀ u, sp h' u = sp h u) ∧ (∀ p, up h' p = up h p) ∧ h'.next = h.next

theorem SameG.ownG {h h' : Heap} (hs : SameG h h') (hi : OwnG h) : OwnG h' := by
  obtain ⟨h1, h2, h3⟩ := hs
  constructor
  · intro u p; rw [h1, h2]; exact hi.fwd u p
  · intro p u; rw [h1, h2]; exact hi.back p u
  · intro u; rw [h1, h3]; exact hi.freshU u
  · intro p; rw [h2, h3]; exact hi.freshP p

theorem sameG_paramsCopyAssign (h : Heap) (d s : Nat) : SameG h (paramsCopyAssign h d s) := by
  unfold paramsCopyAssign SameG; split <;> simp
theorem sameG_paramsMoveAssign (h : Heap) (d s : Nat) : SameG h (paramsMoveAssign h d s) := by
  unfold paramsMoveAssign SameG; split <;> simp
theorem sameG_paramsSafeAssign (h : Heap) (d s : Nat) : SameG h (paramsSafeAssign h d s) := by
  unfold paramsSafeAssign SameG; split <;> simp
theorem sameG_paramsSwap (h : Heap) (a b : Nat) : SameG h (paramsSwap h a b) := by
  unfold paramsSwap SameG; split <;> simp
theorem sameG_paramsMutate (h : Heap) (p : Nat) (f : Params → Params) (a : Bool) :
    SameG h (paramsMutate h p f a) := by
  unfold paramsMutate SameG; dsimp only; split
  · simp
  · split <;> simp
theorem sameG_urlClear (h : Heap) (u : Nat) : SameG h (urlClear h u) := by
  unfold urlClear SameG; simp
theorem sameG_urlDoParse (h : Heap) (u : Nat) (res : Option Url) : SameG h (urlDoParse h u res) := by
  unfold urlDoParse SameG; dsimp only
  have := sameG_urlClear h u
  unfold SameG at this
  split <;> split <;> simp [this]
theorem sameG_urlSetSearch (h : Heap) (u : Nat) (r : Url) (e : Bool) : SameG h (urlSetSearch h u r e) := by
  unfold urlSetSearch SameG; dsimp only; split
  · simp
  · split <;> simp
theorem sameG_urlSetOther (h : Heap) (u : Nat) (r : Url) : SameG h (urlSetOther h u r) := by
  unfold urlSetOther SameG; split <;> simp
theorem sameG_urlCopyAssign (h : Heap) (d s : Nat) : SameG h (urlCopyAssign h d s) := by
  unfold urlCopyAssign SameG; dsimp only
  repeat' split
  all_goals simp

end Upa.Proofs.Own
