import Upa.Proofs.C01Closed
import Upa.Props.C01b
import Upa.Props.C03
/-
  C03 — the setters conform to the URL Standard's API setters.

  Part 1: every state-override entry point of `Impl.urlParse` against `Spec.basicParse` with that state
  override, as the FULL pair (result, URL as left behind), from the `SimAt` simulations of C01
  (`entry_host`, `entry_hostname`, `entry_port`, `entry_pathStart`, `entry_query(_reset)`,
  `entry_fragment(_reset)`).  The protocol setter (scheme start state with override; the Standard parses
  `value ++ ":"`, the code takes the end of the input for the colon) is proved here directly:
  `basicParse_scheme_spec` (the machine, any record), `urlParse_scheme_impl` (the code, any record), both in
  the common shape `schemeOv`, and `sim_scheme_ov` (they agree under `RecOk`).

  `RecOk u`: a `file` URL has a host, and a host whose serialization is empty is the empty host — where
  the code's "host text empty" meets the Standard's "host null or the empty host".

  Part 2: the ten setters, `set_<name>` and `setter_conforms`.
  Histories: Upa/Proofs/SettersInv.lean (invariant), Upa/Proofs/SettersHist.lean (necessity of `RecOk`,
  call sequences).
-/
namespace Upa.Proofs.C03
open Upa.Spec (State Cfg StepResult step run)
open Upa.Proofs.C01

/-! ## from a `SimAt` with a state override to `Spec.basicParse` -/

theorem basicParse_ov {idna : Idna} {ov : Override} {a c : Nat}
    {Pre : Cfg → Prop} {B : Url → List Nat → Res}
    (h : SimAt idna none (some ov) (ovState ov) a c Pre B)
    (ha : a ≤ 4) (hc : c ≤ 16) (inp : List Nat) (u : Url)
    (hpre : Pre { url := u, state := ovState ov })
    (hsc : ∀ x ∈ inp, Spec.isScalar x = true) :
    Spec.basicParse idna inp none u (some (ovState ov)) = resOf (some ov) (B u inp) := by
  unfold Spec.basicParse
  have := (h.mono ha hc (fun _ hk => hk)) inp.toArray { url := u, state := ovState ov } 0
    (4 * inp.length + 16) rfl rfl rfl hpre (Nat.zero_le _) (by simpa using hsc) (by simp)
  simpa using this

section entry
variable {idna : Idna}
variable (hHost : ∀ s o, (∀ c ∈ s, Spec.isScalar c = true) → Impl.parseHost idna s o = Spec.hostParse idna s o)

include hHost in
theorem entry_host (u : Url) (inp : List Nat) (hsc : ∀ x ∈ inp, Spec.isScalar x = true) :
    Spec.basicParse idna inp none u (some (ovState .host)) =
      resOf (some .host) (Impl.urlParse idna none (some .host) u inp) :=
  basicParse_ov (sim_host_all (some .host) hHost) (by decide) (by decide) inp u rfl hsc

include hHost in
theorem entry_hostname (u : Url) (inp : List Nat) (hsc : ∀ x ∈ inp, Spec.isScalar x = true) :
    Spec.basicParse idna inp none u (some (ovState .hostname)) =
      resOf (some .hostname) (Impl.urlParse idna none (some .hostname) u inp) :=
  basicParse_ov (sim_hostname_all (some .hostname) hHost) (by decide) (by decide) inp u rfl hsc

theorem entry_port (u : Url) (inp : List Nat) (hsc : ∀ x ∈ inp, Spec.isScalar x = true) :
    Spec.basicParse idna inp none u (some (ovState .port)) =
      resOf (some .port) (Impl.urlParse idna none (some .port) u inp) :=
  basicParse_ov (sim_port_closed (some .port)) (by decide) (by decide) inp u trivial hsc

theorem entry_pathStart (u : Url) (inp : List Nat) (hsc : ∀ x ∈ inp, Spec.isScalar x = true) :
    Spec.basicParse idna inp none u (some (ovState .pathStart)) =
      resOf (some .pathStart) (Impl.urlParse idna none (some .pathStart) u inp) :=
  basicParse_ov (sim_pathStart idna none (some .pathStart)) (by decide) (by decide) inp u trivial hsc

/-- query state: the Standard appends to the URL's query, the code overwrites it; they agree when the
    query is null or empty at the start -/
theorem entry_query (u : Url) (inp : List Nat) (hsc : ∀ x ∈ inp, Spec.isScalar x = true)
    (hq : u.query.getD [] = []) :
    Spec.basicParse idna inp none u (some (ovState .query)) =
      resOf (some .query) (Impl.urlParse idna none (some .query) u inp) :=
  basicParse_ov (sim_query idna none (some .query)) (by decide) (by decide) inp u hq hsc

/-- the form the search setter uses: the API sets the query to the empty string first -/
theorem entry_query_reset (u : Url) (inp : List Nat) (hsc : ∀ x ∈ inp, Spec.isScalar x = true) :
    Spec.basicParse idna inp none { u with query := some [] } (some (ovState .query)) =
      resOf (some .query) (Impl.urlParse idna none (some .query) u inp) := by
  rw [entry_query _ inp hsc rfl]
  have h1 : ∀ v : Url, Impl.urlParse idna none (some .query) v inp = Impl.queryState (some .query) v inp :=
    fun _ => rfl
  rw [h1, h1, queryState_setQuery]

theorem entry_fragment (u : Url) (inp : List Nat) (hsc : ∀ x ∈ inp, Spec.isScalar x = true)
    (hf : u.fragment = some []) :
    Spec.basicParse idna inp none u (some (ovState .fragment)) =
      resOf (some .fragment) (Impl.urlParse idna none (some .fragment) u inp) :=
  basicParse_ov (sim_fragment idna none (some .fragment)) (by decide) (by decide) inp u hf hsc

theorem entry_fragment_reset (u : Url) (inp : List Nat) (hsc : ∀ x ∈ inp, Spec.isScalar x = true) :
    Spec.basicParse idna inp none { u with fragment := some [] } (some (ovState .fragment)) =
      resOf (some .fragment) (Impl.urlParse idna none (some .fragment) u inp) := by
  rw [entry_fragment _ inp hsc rfl]
  rfl

end entry

/-! ## the well-formedness of the start record that the setters need -/

/-- What the setter proofs need of the record they start from: a `file` URL has a host, and a host
    whose serialization is empty is the empty host.  (The code tests "host text empty"; the Standard
    tests "host is null or the empty host".)  Every successfully parsed URL satisfies it. -/
def RecOk (u : Url) : Bool :=
  match u.host with
  | none => !u.isFile
  | some h => h.text != [] || h.kind == .empty

theorem RecOk.file_iff {u : Url} (h : RecOk u = true) :
    (u.isFile && decide (u.hostText = [])) = decide (u.scheme = Impl.sFile ∧ u.host = some Spec.emptyHost) := by
  unfold RecOk at h
  unfold Url.hostText Url.isFile Impl.isFileScheme at *
  rcases hh : u.host with _ | ⟨k, t⟩
  · rw [hh] at h; simp at h; simp [h]
  · rw [hh] at h
    cases t with
    | nil =>
      simp at h; subst h; simp [Spec.emptyHost]
      by_cases hs : u.scheme = Impl.sFile <;> simp [hs]
    | cons a t => simp [Spec.emptyHost]

theorem RecOk.guard {u : Url} (h : RecOk u = true) :
    Impl.canHaveUsernamePasswordPort u = !Spec.cannotHaveUsernamePasswordPort u := by
  apply Props.C03_guard_agrees
  unfold RecOk at h
  unfold Url.hostText
  rcases hh : u.host with _ | ⟨k, t⟩
  · simp
  · rw [hh] at h
    cases t with
    | nil => simp at h; subst h; simp [Spec.emptyHost]
    | cons a t => simp

/-! ## scheme start state and scheme state under a state override (protocol setter) -/

section scheme
variable (idna : Idna) (inp : Array Nat)

local notation "OV" => (some State.schemeStart : Option State)

theorem step_ss_alpha (u : Url) (buf : List Nat) (f1 f2 f3 : Bool) (i c : Nat)
    (hc : inp[i]? = some c) (h : isAlpha c = true) :
    step idna inp none OV ⟨u, .schemeStart, buf, f1, f2, f3, (i : Int)⟩ =
      .continue ⟨u, .scheme, buf ++ [toLower c], f1, f2, f3, (i : Int)⟩ := by
  unfold step
  simp only [Int.toNat_natCast, ptr_neg, if_false, hc]
  simp [h]

theorem step_ss_fail (u : Url) (buf : List Nat) (f1 f2 f3 : Bool) (i : Nat)
    (h : ∀ c, inp[i]? = some c → isAlpha c = false) :
    step idna inp none OV ⟨u, .schemeStart, buf, f1, f2, f3, (i : Int)⟩ = .failure u := by
  unfold step
  simp only [Int.toNat_natCast, ptr_neg, if_false]
  cases hc : inp[i]? with
  | none => simp
  | some c => simp [h c hc]

theorem step_sc_char (u : Url) (buf : List Nat) (f1 f2 f3 : Bool) (i c : Nat)
    (hc : inp[i]? = some c) (h : isSchemeChar c = true) :
    step idna inp none OV ⟨u, .scheme, buf, f1, f2, f3, (i : Int)⟩ =
      .continue ⟨u, .scheme, buf ++ [toLower c], f1, f2, f3, (i : Int)⟩ := by
  unfold step
  simp only [Int.toNat_natCast, ptr_neg, if_false, hc]
  have : (isAlpha c || isDigit c || c == 0x2B || c == 0x2D || c == 0x2E) = true := h
  simp only [this, if_true]

theorem step_sc_fail (u : Url) (buf : List Nat) (f1 f2 f3 : Bool) (i : Nat)
    (h : ∀ c, inp[i]? = some c → isSchemeChar c = false ∧ c ≠ 0x3A) :
    step idna inp none OV ⟨u, .scheme, buf, f1, f2, f3, (i : Int)⟩ = .failure u := by
  unfold step
  simp only [Int.toNat_natCast, ptr_neg, if_false]
  cases hc : inp[i]? with
  | none => simp
  | some c =>
    obtain ⟨h1, h2⟩ := h c hc
    have : (isAlpha c || isDigit c || c == 0x2B || c == 0x2D || c == 0x2E) = false := h1
    simp only [this, Bool.false_eq_true, if_false, if_neg h2]
    simp

/-- what the Standard's scheme state does at ':' under a state override -/
def specSchemeFin (u : Url) (buf : List Nat) : Url :=
  if (Spec.isSpecial u != Impl.isSpecialScheme buf) = true then u
  else if (Spec.includesCredentials u || u.port.isSome) = true ∧ buf = Impl.sFile then u
  else if u.scheme = Impl.sFile ∧ u.host = some Spec.emptyHost then u
  else if u.port.isSome = true ∧ u.port = Impl.defaultPort buf then { u with scheme := buf, port := none }
  else { u with scheme := buf }

theorem step_sc_colon (u : Url) (buf : List Nat) (f1 f2 f3 : Bool) (i : Nat)
    (hc : inp[i]? = some 0x3A) :
    step idna inp none OV ⟨u, .scheme, buf, f1, f2, f3, (i : Int)⟩ = .done (specSchemeFin u buf) := by
  unfold step specSchemeFin
  simp only [Int.toNat_natCast, ptr_neg, if_false, hc]
  simp only [isAlpha, isDigit]
  simp only [Nat.reduceLeDiff, decide_false, decide_true, Bool.and_false, Bool.false_and, Bool.or_self,
    Nat.reduceBEq, Bool.false_eq_true, if_false, if_true, Option.isSome_some, true_and]
  split
  · rfl
  · split
    · rfl
    · split
      · rfl
      · split <;> rfl

/-- the buffering runs of the scheme state -/
theorem run_scheme_scan_ov (u : Url) (f1 f2 f3 : Bool) :
    ∀ (s : List Nat) (r : List Nat) (i : Nat) (buf : List Nat) (fuel : Nat),
    inp.toList.drop i = s ++ r → (∀ c ∈ s, isSchemeChar c = true) →
    run idna inp none OV (fuel + s.length) ⟨u, .scheme, buf, f1, f2, f3, (i : Int)⟩ =
      run idna inp none OV fuel ⟨u, .scheme, buf ++ s.map toLower, f1, f2, f3, ((i + s.length : Nat) : Int)⟩ := by
  intro s
  induction s with
  | nil => intro r i buf fuel _ _; simp
  | cons c cs ih =>
    intro r i buf fuel hr hs
    obtain ⟨hc, hsz, hr'⟩ := getElem?_of_drop_cons (r := cs ++ r) hr
    have hst := step_sc_char idna inp u buf f1 f2 f3 i c hc (hs c List.mem_cons_self)
    rw [List.length_cons, ← Nat.add_assoc]
    refine (run_continue' (j := i + 1) _ hst (by simp) hsz).trans ?_
    refine (ih r (i + 1) (buf ++ [toLower c]) fuel hr' (fun x hx => hs x (List.mem_cons_of_mem _ hx))).trans ?_
    simp [Nat.add_assoc, Nat.add_comm 1]

end scheme

/-- the code's scheme block once the scheme is complete, under a state override -/
def implSchemeFin (u : Url) (scheme : List Nat) : Res :=
  if u.isSpecial != Impl.isSpecialScheme scheme then ⟨.ignored, u⟩
  else if Impl.isFileScheme scheme && (u.hasCredentials || u.port.isSome) then ⟨.ignored, u⟩
  else if u.isFile && u.hostText = [] then ⟨.ignored, u⟩
  else
    let u := { u with scheme := scheme }
    let u := if u.port.isSome && Impl.defaultPort scheme = u.port then { u with port := none } else u
    ⟨.ok, u⟩

theorem schemeState_ov_scheme (idna : Idna) (u : Url) (c0 : Nat) (r0 : List Nat)
    (h : ∀ c, (r0.dropWhile isSchemeChar).head? = some c → c = 0x3A) :
    Impl.schemeState idna none (some .schemeStart) u (c0 :: r0) = implSchemeFin u (Head.schemeOf c0 r0) := by
  unfold Impl.schemeState implSchemeFin Head.schemeOf
  simp only
  cases hd : r0.dropWhile isSchemeChar with
  | nil => simp
  | cons c t =>
    have := h c (by rw [hd]; rfl)
    simp [this]

theorem schemeState_ov_fail (idna : Idna) (u : Url) (c0 : Nat) (r0 : List Nat) (c : Nat) (t : List Nat)
    (hd : r0.dropWhile isSchemeChar = c :: t) (hc : c ≠ 0x3A) :
    Impl.schemeState idna none (some .schemeStart) u (c0 :: r0) = ⟨.failure, u⟩ := by
  unfold Impl.schemeState
  simp [hd, hc]

theorem implSchemeFin_res (u : Url) (s : List Nat) (hok : RecOk u = true) :
    resOf (some .schemeStart) (implSchemeFin u s) = (some (specSchemeFin u s), specSchemeFin u s) := by
  have hf := RecOk.file_iff hok
  unfold implSchemeFin specSchemeFin
  simp only [Spec.isSpecial, Spec.includesCredentials, Url.isSpecial, Url.hasCredentials, Impl.isFileScheme] at *
  by_cases h1 : (Impl.isSpecialScheme u.scheme != Impl.isSpecialScheme s) = true
  · simp [h1, resOf_ignored]
  · simp only [h1]
    rw [hf]
    by_cases h2 : (decide (u.username ≠ []) || decide (u.password ≠ []) || u.port.isSome) = true ∧ s = Impl.sFile
    · obtain ⟨h2a, h2b⟩ := h2
      simp only [h2a, h2b, beq_self_eq_true, Bool.and_self, and_self, if_true, Bool.false_eq_true, if_false,
        resOf_ignored]
    · have h2' : (s == Impl.sFile && (decide (u.username ≠ []) || decide (u.password ≠ []) || u.port.isSome)) = false := by
        cases hc : (decide (u.username ≠ []) || decide (u.password ≠ []) || u.port.isSome)
        · simp
        · simp only [Bool.and_true, beq_eq_false_iff_ne]
          intro hs; exact h2 ⟨hc, hs⟩
      simp only [h2', h2, Bool.false_eq_true, if_false]
      by_cases h3 : u.scheme = Impl.sFile ∧ u.host = some Spec.emptyHost
      · simp [h3, resOf_ignored]
      · simp only [h3, decide_false, Bool.false_eq_true, if_false]
        by_cases h4 : u.port.isSome = true ∧ u.port = Impl.defaultPort s
        · obtain ⟨h4a, h4b⟩ := h4
          simp [h4b]
        · have h4' : (u.port.isSome && decide (Impl.defaultPort s = u.port)) = false := by
            cases hp : u.port.isSome
            · simp
            · simp only [Bool.true_and, decide_eq_false_iff_not]
              intro he; exact h4 ⟨hp, he.symm⟩
          simp only [h4', h4, Bool.false_eq_true, if_false]
          rfl

theorem colon_not_alpha : isAlpha 0x3A = false := by decide
theorem colon_not_schemeChar : isSchemeChar 0x3A = false := by decide

/-- shape shared by the Standard's run on `inp ++ ":"` and by the code's block on `inp`: failure unless
    `inp` starts with a scheme that ends at the end of `inp` or at a ':'; `fin` = what happens then -/
def schemeOv (u : Url) (fin : List Nat → Option Url × Url) : List Nat → Option Url × Url
  | [] => (none, u)
  | c0 :: r0 =>
    if isAlpha c0 then
      match r0.dropWhile isSchemeChar with
      | [] => fin (Head.schemeOf c0 r0)
      | c :: _ => if c = 0x3A then fin (Head.schemeOf c0 r0) else (none, u)
    else (none, u)

/-- the machine started in the scheme start state with that state as override, on `inp ++ ":"`
    (any URL record) -/
theorem run_scheme_spec (idna : Idna) (A : Array Nat) (u : Url) (f1 f2 f3 : Bool) (inp : List Nat)
    (hA : A.toList = inp ++ [0x3A]) (fuel : Nat) (hf : fuel ≥ inp.length + 2) :
    run idna A none (some .schemeStart) fuel ⟨u, .schemeStart, [], f1, f2, f3, ((0 : Nat) : Int)⟩ =
      schemeOv u (fun s => (some (specSchemeFin u s), specSchemeFin u s)) inp := by
  obtain ⟨f, rfl, hf'⟩ := fuel_succ (n := inp.length + 1) hf
  cases inp with
  | nil =>
    have hd : A.toList.drop 0 = 0x3A :: [] := by simpa using hA
    obtain ⟨hc, _, _⟩ := getElem?_of_drop_cons hd
    rw [run_failure f (step_ss_fail idna A u [] f1 f2 f3 0 (fun c h => by
      rw [hc] at h; cases h; exact colon_not_alpha))]
    rfl
  | cons c0 r0 =>
    have hd : A.toList.drop 0 = c0 :: (r0 ++ [0x3A]) := by simpa using hA
    obtain ⟨hc, hsz, hd1⟩ := getElem?_of_drop_cons hd
    by_cases ha : isAlpha c0 = true
    · simp only [schemeOv, ha, if_true]
      rw [run_continue' (j := 0 + 1) f (step_ss_alpha idna A u [] f1 f2 f3 0 c0 hc ha) (by simp) hsz]
      -- the scan
      have hsplit := (List.takeWhile_append_dropWhile (p := isSchemeChar) (l := r0)).symm
      obtain ⟨hbody, hrest⟩ := Head.split_schemeChar r0
      have hbuf : [] ++ [toLower c0] ++ (r0.takeWhile isSchemeChar).map toLower = Head.schemeOf c0 r0 := by
        unfold Head.schemeOf
        rw [← Head.map_toLower_eq (c0 :: r0.takeWhile isSchemeChar)
          (fun c hc => by
            rcases List.mem_cons.1 hc with rfl | hc
            · exact Head.alpha_schemeChar _ ha
            · exact hbody c hc)]
        simp
      generalize Head.schemeOf c0 r0 = sch at hbuf ⊢
      generalize r0.takeWhile isSchemeChar = body at hsplit hbody hbuf
      generalize r0.dropWhile isSchemeChar = rest at hsplit hrest
      have hd1' : A.toList.drop (0 + 1) = body ++ (rest ++ [0x3A]) := by
        rw [hd1, hsplit, List.append_assoc]
      have hlen : r0.length = body.length + rest.length := by rw [hsplit]; simp
      simp only [List.length_cons] at hf'
      obtain ⟨f', rfl⟩ : ∃ f', f = f' + body.length := ⟨f - body.length, by omega⟩
      rw [run_scheme_scan_ov idna A u f1 f2 f3 body (rest ++ [0x3A]) (0 + 1) _ f' hd1' hbody]
      have hd2 : A.toList.drop (0 + 1 + body.length) = rest ++ [0x3A] := by
        rw [← List.drop_drop, hd1', List.drop_left]
      rw [hbuf]
      obtain ⟨f'', rfl, _⟩ := fuel_succ (n := 0) (fuel := f') (by omega)
      cases rest with
      | nil =>
        obtain ⟨hc2, _, _⟩ := getElem?_of_drop_cons (r := []) (by simpa using hd2)
        rw [run_done f'' (step_sc_colon idna A u _ f1 f2 f3 _ hc2)]
      | cons c t =>
        obtain ⟨hc2, _, _⟩ := getElem?_of_drop_cons (r := t ++ [0x3A]) (by simpa using hd2)
        by_cases hcol : c = 0x3A
        · subst hcol
          rw [run_done f'' (step_sc_colon idna A u _ f1 f2 f3 _ hc2)]
          simp
        · rw [run_failure f'' (step_sc_fail idna A u _ f1 f2 f3 _ (fun x hx => by
            rw [hc2] at hx; cases hx; exact ⟨hrest c rfl, hcol⟩))]
          simp [hcol]
    · have ha' : isAlpha c0 = false := by simpa using ha
      rw [run_failure f (step_ss_fail idna A u [] f1 f2 f3 0 (fun c h => by
        rw [hc] at h; cases h; exact ha'))]
      simp [schemeOv, ha']

/-- the Standard's protocol setter run, for any URL record -/
theorem basicParse_scheme_spec (idna : Idna) (u : Url) (inp : List Nat) :
    Spec.basicParse idna (inp ++ [0x3A]) none u (some .schemeStart) =
      schemeOv u (fun s => (some (specSchemeFin u s), specSchemeFin u s)) inp := by
  unfold Spec.basicParse
  exact run_scheme_spec idna (inp ++ [0x3A]).toArray u false false false inp (by simp)
    (4 * (inp ++ [0x3A]).length + 16) (by simp only [List.length_append, List.length_singleton]; omega)

/-- the code's scheme block under the state override, for any URL record -/
theorem urlParse_scheme_impl (idna : Idna) (u : Url) (inp : List Nat) :
    resOf (some .schemeStart) (Impl.urlParse idna none (some .schemeStart) u inp) =
      schemeOv u (fun s => resOf (some .schemeStart) (implSchemeFin u s)) inp := by
  cases inp with
  | nil => rfl
  | cons c0 r0 =>
    by_cases ha : isAlpha c0 = true
    · have hup : Impl.urlParse idna none (some .schemeStart) u (c0 :: r0) =
          Impl.schemeState idna none (some .schemeStart) u (c0 :: r0) := by
        simp [Impl.urlParse, ha]
      rw [hup]
      simp only [schemeOv, ha, if_true]
      cases hr : r0.dropWhile isSchemeChar with
      | nil => rw [schemeState_ov_scheme idna u c0 r0 (by rw [hr]; simp)]
      | cons c t =>
        by_cases hcol : c = 0x3A
        · rw [schemeState_ov_scheme idna u c0 r0 (by rw [hr]; simpa using hcol)]
          simp [hcol]
        · rw [schemeState_ov_fail idna u c0 r0 c t hr hcol]
          simp [hcol]
    · have ha' : isAlpha c0 = false := by simpa using ha
      simp [Impl.urlParse, schemeOv, ha']

/-- protocol setter: the Standard's basic URL parser on `value ++ ":"` with the scheme start state as
    state override, against the code, which accepts the end of the input in place of the colon -/
theorem sim_scheme_ov (idna : Idna) (u : Url) (hok : RecOk u = true) (inp : List Nat) :
    Spec.basicParse idna (inp ++ [0x3A]) none u (some .schemeStart) =
      resOf (some .schemeStart) (Impl.urlParse idna none (some .schemeStart) u inp) := by
  rw [basicParse_scheme_spec, urlParse_scheme_impl]
  congr 1
  funext s
  exact (implSchemeFin_res u s hok).symm

/-! ## Part 2: the ten setters -/

section setters
open Upa.Impl (Setter)

theorem unitsOk_tail {e : Enc} {c : Nat} {r : List Nat} (h : Props.UnitsOk e (c :: r)) : Props.UnitsOk e r := by
  cases e
  · exact fun x hx => h x (List.mem_cons_of_mem _ hx)
  · exact fun x hx => h x (List.mem_cons_of_mem _ hx)
  · trivial

/-- the plain conversion (values that never reach the parser: username, password) -/
theorem decode_eq (e : Enc) (units : List Nat) (h : Props.UnitsOk e units) :
    Impl.decode e units = Spec.decode e units := by
  cases e with
  | u8 => exact Impl.decode_u8_eq_spec _ h
  | u16 => exact Impl.decode_u16_eq_spec _ h
  | u32 => exact Impl.decode_u32_eq_spec _

theorem decode_scalar (e : Enc) (units : List Nat) (h : Props.UnitsOk e units) :
    ∀ c ∈ Impl.decode e units, Spec.isScalar c = true := by
  cases e with
  | u8 => exact Impl.decode_u8_scalar _ h
  | u16 => rw [Impl.decode_u16_eq_spec _ h]; exact Head.utf16Decode_scalar _ h
  | u32 => rw [Impl.decode_u32_eq_spec]; exact Head.utf32Decode_scalar _

theorem userinfo_enc (e : Enc) (units : List Nat) (h : Props.UnitsOk e units) :
    Impl.percentEncode Impl.userinfoNoEnc (Impl.decode e units) =
      Spec.utf8PercentEncode Spec.userinfoSet (Spec.decode e units) := by
  rw [← decode_eq e units h]
  exact (Props.C01_component_encoders _ (decode_scalar e units h)).2.2.2.2.1

theorem stripTrailingSpaces_eq (u : Url) : Impl.stripTrailingSpaces u = Spec.stripTrailingSpaces u := by
  unfold Impl.stripTrailingSpaces Spec.stripTrailingSpaces
  cases u.hasOpaquePath <;> cases u.fragment.isNone <;> cases u.query.isNone <;> simp

variable {idna : Idna}

/-- a state-override run of the code against the Standard's, second components, on the API input -/
theorem run_snd (ov : Override) (u u' : Url) (e : Enc) (units : List Nat) (hu : Props.UnitsOk e units)
    (h : ∀ inp, (∀ x ∈ inp, Spec.isScalar x = true) →
      Spec.basicParse idna inp none u' (some (ovState ov)) =
        resOf (some ov) (Impl.urlParse idna none (some ov) u inp)) :
    (Impl.urlParse idna none (some ov) u (Impl.prep e units)).url =
      (Spec.basicParse idna (Spec.parserInput e units) none u' (some (ovState ov))).2 := by
  rw [← Props.C01_input_conversion e units hu, h _ (Head.prep_scalar e units hu)]
  rfl

variable (hI : Props.IdnaOk idna)
include hI

theorem hHost_of : ∀ s o, (∀ c ∈ s, Spec.isScalar c = true) →
    Impl.parseHost idna s o = Spec.hostParse idna s o :=
  fun s o hs => C07.parseHost_eq idna hI.ascii hI.persist s o hs

theorem set_href (e : Enc) (units : List Nat) (u : Url) (hu : Props.UnitsOk e units) :
    (Impl.setValid idna .href e units u).1 = Spec.apiSet idna .href e units u := by
  unfold Impl.setValid Spec.apiSet
  simp only
  rw [Props.C01_parse_conforms idna hI e units none hu]
  cases Spec.apiParse idna e units none <;> rfl

omit hI in
theorem set_protocol (e : Enc) (units : List Nat) (u : Url) (hu : Props.UnitsOk e units)
    (hok : RecOk u = true) :
    (Impl.setValid idna .protocol e units u).1 = Spec.apiSet idna .protocol e units u := by
  unfold Impl.setValid Spec.apiSet
  simp only
  rw [← Props.C01_input_conversion e units hu, sim_scheme_ov idna u hok]
  rfl

omit hI in
theorem set_username (e : Enc) (units : List Nat) (u : Url) (hu : Props.UnitsOk e units)
    (hok : RecOk u = true) :
    (Impl.setValid idna .username e units u).1 = Spec.apiSet idna .username e units u := by
  unfold Impl.setValid Spec.apiSet
  simp only
  rw [RecOk.guard hok, userinfo_enc e units hu]
  cases Spec.cannotHaveUsernamePasswordPort u <;> simp

omit hI in
theorem set_password (e : Enc) (units : List Nat) (u : Url) (hu : Props.UnitsOk e units)
    (hok : RecOk u = true) :
    (Impl.setValid idna .password e units u).1 = Spec.apiSet idna .password e units u := by
  unfold Impl.setValid Spec.apiSet
  simp only
  rw [RecOk.guard hok, userinfo_enc e units hu]
  cases Spec.cannotHaveUsernamePasswordPort u <;> simp

theorem set_host (e : Enc) (units : List Nat) (u : Url) (hu : Props.UnitsOk e units) :
    (Impl.setValid idna .host e units u).1 = Spec.apiSet idna .host e units u := by
  unfold Impl.setValid Spec.apiSet
  simp only
  cases u.hasOpaquePath
  · simp only [Bool.not_false, if_true, Bool.false_eq_true, if_false]
    exact run_snd .host u u e units hu (fun inp hsc => entry_host (hHost_of hI) u inp hsc)
  · simp

theorem set_hostname (e : Enc) (units : List Nat) (u : Url) (hu : Props.UnitsOk e units) :
    (Impl.setValid idna .hostname e units u).1 = Spec.apiSet idna .hostname e units u := by
  unfold Impl.setValid Spec.apiSet
  simp only
  cases u.hasOpaquePath
  · simp only [Bool.not_false, if_true, Bool.false_eq_true, if_false]
    exact run_snd .hostname u u e units hu (fun inp hsc => entry_hostname (hHost_of hI) u inp hsc)
  · simp

omit hI in
theorem set_port (e : Enc) (units : List Nat) (u : Url) (hu : Props.UnitsOk e units)
    (hok : RecOk u = true) :
    (Impl.setValid idna .port e units u).1 = Spec.apiSet idna .port e units u := by
  unfold Impl.setValid Spec.apiSet
  simp only
  rw [RecOk.guard hok]
  cases Spec.cannotHaveUsernamePasswordPort u
  · simp only [Bool.not_false, if_true, Bool.false_eq_true, if_false]
    by_cases hn : units = []
    · simp [hn]
    · simp only [hn, if_false]
      exact run_snd .port u u e units hu (fun inp hsc => entry_port u inp hsc)
  · simp

omit hI in
theorem set_pathname (e : Enc) (units : List Nat) (u : Url) (hu : Props.UnitsOk e units) :
    (Impl.setValid idna .pathname e units u).1 = Spec.apiSet idna .pathname e units u := by
  unfold Impl.setValid Spec.apiSet
  simp only
  cases u.hasOpaquePath
  · simp only [Bool.not_false, if_true, Bool.false_eq_true, if_false]
    exact run_snd .pathStart _ _ e units hu (fun inp hsc => entry_pathStart _ inp hsc)
  · simp

omit hI in
theorem set_search (e : Enc) (units : List Nat) (u : Url) (hu : Props.UnitsOk e units) :
    (Impl.setValid idna .search e units u).1 = Spec.apiSet idna .search e units u := by
  unfold Impl.setValid Spec.apiSet
  cases units with
  | nil => simp only; exact stripTrailingSpaces_eq _
  | cons c r =>
    simp only
    have hu' : Props.UnitsOk e (if c = 0x3F then r else c :: r) := by
      split
      · exact unitsOk_tail hu
      · exact hu
    exact run_snd .query u _ e _ hu' (fun inp hsc => entry_query_reset u inp hsc)

omit hI in
theorem set_hash (e : Enc) (units : List Nat) (u : Url) (hu : Props.UnitsOk e units) :
    (Impl.setValid idna .hash e units u).1 = Spec.apiSet idna .hash e units u := by
  unfold Impl.setValid Spec.apiSet
  cases units with
  | nil => simp only; exact stripTrailingSpaces_eq _
  | cons c r =>
    simp only
    have hu' : Props.UnitsOk e (if c = 0x23 then r else c :: r) := by
      split
      · exact unitsOk_tail hu
      · exact hu
    exact run_snd .fragment u _ e _ hu' (fun inp hsc => entry_fragment_reset u inp hsc)

/-- all ten setters -/
theorem setter_conforms (s : Setter) (e : Enc) (units : List Nat) (u : Url) (hu : Props.UnitsOk e units)
    (hok : RecOk u = true) :
    (Impl.setValid idna s e units u).1 = Spec.apiSet idna s e units u := by
  cases s
  · exact set_href hI e units u hu
  · exact set_protocol e units u hu hok
  · exact set_username e units u hu hok
  · exact set_password e units u hu hok
  · exact set_host hI e units u hu
  · exact set_hostname hI e units u hu
  · exact set_port e units u hu hok
  · exact set_pathname e units u hu
  · exact set_search e units u hu
  · exact set_hash e units u hu

end setters

#print axioms sim_scheme_ov
#print axioms setter_conforms
end Upa.Proofs.C03
