import Upa.Proofs.FilePathWin
import Upa.Proofs.ReparseParsed
/-
  Helper lemmas for C17b, part 2: UNC paths (`\\server\share\…`, `\\?\UNC\server\share\…`).
-/
namespace Upa.Proofs.C17
open Upa.Proofs.C14

/-! ### is_unc_path accepts -/

/-- the per-component test of is_unc_path (`n` = number of the component, from 1) -/
def uncBad (n : Nat) (comp : List Nat) : Bool :=
  if n = 1 then
    (match comp with
     | [a] => a == 0x3F || a == 0x2E
     | [a, b] => Impl.isWindowsDrive a b
     | _ => false)
  else if n = 2 then
    (match comp with
     | [a] => a == 0x2E
     | [a, b] => a == 0x2E && b == 0x2E
     | _ => false)
  else false

def Clean (t : List Nat) : Prop := ∀ c ∈ t, Impl.isWindowsSlash c = false ∧ c ≠ 0

theorem takeWhile_comp (comp rest0 : List Nat) (hc : Clean comp)
    (hrest : rest0 = [] ∨ ∃ r, rest0 = 0x5C :: r) :
    (comp ++ rest0).takeWhile (fun c => !Impl.isWindowsSlash c) = comp ∧
    (comp ++ rest0).dropWhile (fun c => !Impl.isWindowsSlash c) = rest0 := by
  have hb : ∀ c ∈ comp, (fun c => !Impl.isWindowsSlash c) c = true := by
    intro c h; simp [(hc c h).1]
  rw [List.takeWhile_append_of_pos hb, List.dropWhile_append_of_pos hb]
  rcases hrest with rfl | ⟨r, rfl⟩
  · simp
  · have : Impl.isWindowsSlash 0x5C = true := by decide
    rw [List.takeWhile_cons_of_neg (by simp [this]), List.dropWhile_cons_of_neg (by simp [this])]
    simp

/-- one iteration of the is_unc_path loop on `comp ++ rest0` -/
theorem uncAux_step (f : Nat) (comp rest0 : List Nat) (n : Nat) (sh : Option (List Nat))
    (hne : comp ≠ []) (hc : Clean comp) (hrest : rest0 = [] ∨ ∃ r, rest0 = 0x5C :: r) :
    Impl.isUncPathAux (f + 1) (comp ++ rest0) n sh =
      if uncBad (n + 1) comp = true then none
      else match rest0 with
        | [] => (if n + 1 = 2 then some rest0 else sh)
        | _ :: r => Impl.isUncPathAux f r (n + 1) (if n + 1 = 2 then some rest0 else sh) := by
  obtain ⟨ht, hd⟩ := takeWhile_comp comp rest0 hc hrest
  have hany : (comp.any (· == 0)) = false := by
    cases ha : comp.any (· == 0) with
    | false => rfl
    | true => exact absurd rfl (hc 0 ((any_zero_iff _).1 ha)).2
  cases hcomp : comp ++ rest0 with
  | nil =>
    have : comp = [] := by
      cases comp with
      | nil => rfl
      | cons a b => simp at hcomp
    exact absurd this hne
  | cons c0 cr =>
    rw [Impl.isUncPathAux]
    · rw [← hcomp]
      simp only [ht, hd, hne, if_false, hany, Bool.false_eq_true]
      rfl
    · simp

def interc : List (List Nat) → List Nat
  | [] => []
  | t :: L => t ++ joinBs L

/-- the components after the share name: all but the last one non-empty -/
def GoodTail : List (List Nat) → Prop
  | [] => True
  | [t] => Clean t
  | t :: L => Clean t ∧ t ≠ [] ∧ GoodTail L

theorem joinBs_shape (L : List (List Nat)) : joinBs L = [] ∨ ∃ r, joinBs L = 0x5C :: r := by
  cases L with
  | nil => left; rfl
  | cons t L' => right; exact ⟨_, rfl⟩

theorem uncBad_ge3 (n : Nat) (comp : List Nat) (h : 3 ≤ n) : uncBad n comp = false := by
  unfold uncBad
  rw [if_neg (by omega), if_neg (by omega)]

/-- after the share name the loop only checks for empty components and NUL -/
theorem uncAux_tail (L : List (List Nat)) : ∀ (fuel n : Nat) (sh : Option (List Nat)),
    (interc L).length < fuel → 2 ≤ n → GoodTail L →
    Impl.isUncPathAux fuel (interc L) n sh = sh := by
  induction L with
  | nil =>
    intro fuel n sh hf _ _
    obtain ⟨f, rfl⟩ : ∃ f, fuel = f + 1 := ⟨fuel - 1, by omega⟩
    simp [interc, Impl.isUncPathAux]
  | cons t L' ih =>
    intro fuel n sh hf hn hg
    obtain ⟨f, rfl⟩ : ∃ f, fuel = f + 1 := ⟨fuel - 1, by omega⟩
    cases L' with
    | nil =>
      have hcl : Clean t := hg
      by_cases hte : t = []
      · subst hte; simp [interc, joinBs, Impl.isUncPathAux]
      · have := uncAux_step f t [] n sh hte hcl (Or.inl rfl)
        simp only [List.append_nil] at this
        show Impl.isUncPathAux (f + 1) (t ++ joinBs []) n sh = sh
        have e : t ++ joinBs [] = t := by simp [joinBs]
        rw [e, this, uncBad_ge3 _ _ (by omega)]
        simp only [Bool.false_eq_true, if_false]
        rw [if_neg (by omega)]
    | cons t2 L'' =>
      obtain ⟨hcl, hte, hg'⟩ : Clean t ∧ t ≠ [] ∧ GoodTail (t2 :: L'') := hg
      show Impl.isUncPathAux (f + 1) (t ++ joinBs (t2 :: L'')) n sh = sh
      rw [joinBs_cons, uncAux_step f t _ n sh hte hcl (Or.inr ⟨_, rfl⟩), uncBad_ge3 _ _ (by omega)]
      simp only [Bool.false_eq_true, if_false]
      rw [if_neg (by omega)]
      apply ih
      · have : (interc (t :: t2 :: L'')).length = t.length + 1 + (interc (t2 :: L'')).length := by
          show (t ++ joinBs (t2 :: L'')).length = _
          rw [joinBs_cons]; simp [interc]; omega
        omega
      · omega
      · exact hg'

/-- is_unc_path on `host \ w0 \ w1 \ …` returns the text after the share name -/
theorem isUncPath_join (H w0 : List Nat) (W' : List (List Nat))
    (hH : H ≠ []) (hHc : Clean H) (hHb : uncBad 1 H = false)
    (hw : w0 ≠ []) (hwc : Clean w0) (hwb : uncBad 2 w0 = false) (hg : GoodTail W') :
    Impl.isUncPath (H ++ 0x5C :: (w0 ++ joinBs W')) = some (joinBs W') := by
  unfold Impl.isUncPath
  rw [uncAux_step _ H _ 0 none hH hHc (Or.inr ⟨_, rfl⟩), hHb]
  simp only [Bool.false_eq_true, if_false, Nat.zero_add]
  rw [if_neg (by omega)]
  obtain ⟨f, hf⟩ : ∃ f, (H ++ 0x5C :: (w0 ++ joinBs W')).length = f + 1 := ⟨_, by simp; rfl⟩
  rw [hf, uncAux_step f w0 _ 1 none hw hwc (joinBs_shape W'), hwb]
  simp only [Bool.false_eq_true, if_false, if_true]
  cases W' with
  | nil => rfl
  | cons t L =>
    rw [joinBs_cons]
    simp only []
    have := uncAux_tail (t :: L) f 2 (some (0x5C :: (t ++ joinBs L))) ?_ (by omega) hg
    · exact this
    · have hl : (H ++ 0x5C :: (w0 ++ joinBs (t :: L))).length =
          H.length + 1 + w0.length + (1 + (interc (t :: L)).length) := by
        rw [joinBs_cons]; simp [interc]; omega
      have : 0 < H.length := List.length_pos_iff.2 hH
      omega

/-! ### the URL made from a UNC pointer -/

/-- a drive-like share name is rewritten by the path state (`C|` → `C:`) -/
def fixShare (share : List Nat) : List Nat :=
  match share with
  | [a, b] => if Impl.isWindowsDrive a b then [a, 0x3A] else share
  | _ => share

theorem encR_drive (a b : Nat) (hd : Impl.isWindowsDrive a b = true) : encR [a, b] = [a, b] := by
  obtain ⟨ha, hb⟩ := (isWindowsDrive_iff a b).1 hd
  obtain ⟨ha1, ha2, -⟩ := alpha_facts a ha
  obtain ⟨hb1, hb2, -⟩ := driveSep_facts b hb
  unfold encR
  rw [percentEncode_ascii_noenc _ _ _ ha1 ha2, percentEncode_ascii_noenc _ _ _ hb1 hb2]
  rfl

theorem pathSegment_share (u : Url) (share : List Nat) (isLast : Bool) (hf : u.isFile = true)
    (hp : u.path = []) (hs : ∀ c ∈ share, Spec.isScalar c = true)
    (h1 : share ≠ [0x2E]) (h2 : share ≠ dd) :
    Impl.pathSegment u (encR share) isLast = { u with path := [encR (fixShare share)] } := by
  have hd2 : Impl.doubleDot (encR share) = false := by
    cases h : Impl.doubleDot (encR share) with
    | false => rfl
    | true => exact absurd ((enc_doubleDot _ (by decide) (by decide) share hs).1 h) h2
  have hd1 : Impl.singleDot (encR share) = false := by
    cases h : Impl.singleDot (encR share) with
    | false => rfl
    | true => exact absurd ((enc_singleDot _ (by decide) (by decide) share hs).1 h) h1
  have hre := reencode_raw share hs
  unfold Impl.pathSegment
  rw [hd2, hd1]
  simp only [Bool.false_eq_true, if_false]
  split
  · rename_i a b he
    have hsh : share = [a, b] := percentEncode_two _ _ _ _ he
    subst hsh
    rw [he] at hre
    by_cases hd : Impl.isWindowsDrive a b = true
    · have : fixShare [a, b] = [a, 0x3A] := by simp [fixShare, hd]
      rw [this, encR_drive a 0x3A ((isWindowsDrive_iff a 0x3A).2 ⟨((isWindowsDrive_iff a b).1 hd).1, Or.inl rfl⟩)]
      simp [hf, hp, hd]
    · have : fixShare [a, b] = [a, b] := by simp [fixShare, hd]
      rw [this, he]
      simp [hp, hd, hre]
  · rename_i hno
    have : fixShare share = share := by
      unfold fixShare
      split
      · rename_i a b
        split
        · rename_i hd
          exact absurd (encR_drive a b hd) (hno a b)
        · rfl
      · rfl
    rw [this, hre, hp]
    rfl

def uncRest (r : List Nat) : List (List Nat) :=
  match r with
  | [] => []
  | _ :: r' => splitOnP Impl.isWindowsSlash r'

theorem split_share (share r : List Nat) (hc : ∀ c ∈ share, Impl.isWindowsSlash c = false)
    (hr : r = [] ∨ ∃ x r', r = x :: r' ∧ Impl.isWindowsSlash x = true) :
    splitOnP Impl.isWindowsSlash (share ++ r) = share :: uncRest r := by
  rw [splitOnP_append_nosep _ _ _ hc]
  rcases hr with rfl | ⟨x, r', rfl, hx⟩
  · simp [splitOnP, uncRest]
  · rw [splitOnP_cons_sep _ _ _ hx]
    simp [uncRest]

theorem parsePath_unc (U : Url) (hsp : U.isSpecial = true) (hf : U.isFile = true) (hp : U.path = [])
    (share r : List Nat) (hs : ∀ c ∈ share ++ r, Spec.isScalar c = true)
    (hc : ∀ c ∈ share, Impl.isWindowsSlash c = false) (h1 : share ≠ [0x2E]) (h2 : share ≠ dd)
    (hr : r = [] ∨ ∃ x r', r = x :: r' ∧ Impl.isWindowsSlash x = true)
    (hdd : dd ∉ splitOnP Impl.isWindowsSlash r) :
    Impl.parsePath U (encR (share ++ r)) =
      { U with path := (fixShare share :: winSegs (uncRest r)).map encR } := by
  have hss : ∀ c ∈ share, Spec.isScalar c = true := fun c h => hs c (List.mem_append_left _ h)
  unfold Impl.parsePath
  rw [hsp]
  simp only [if_true]
  rw [split_encR _ hs, split_share share r hc hr, List.map_cons]
  cases hR : uncRest r with
  | nil =>
    simp only [List.map_nil, Impl.pathSegments, winSegs]
    rw [pathSegment_share U share true hf hp hss h1 h2]
    simp
  | cons t0 R' =>
    have hRm : ∀ t ∈ t0 :: R', (∀ c ∈ t, Spec.isScalar c = true) ∧ t ≠ dd := by
      intro t ht
      rcases hr with rfl | ⟨x, r', rfl, hx⟩
      · simp [uncRest] at hR
      · simp only [uncRest] at hR
        rw [splitOnP_cons_sep _ _ _ hx] at hdd
        refine ⟨fun c hc' => hs c ?_, fun e => hdd ?_⟩
        · have := mem_splitOnP _ _ t (hR ▸ ht) c hc'
          simp [this]
        · rw [hR]; exact List.mem_cons_of_mem _ (e ▸ ht)
    rw [List.map_cons, pathSegments_cons2, ← List.map_cons, pathSegment_share U share false hf hp hss h1 h2,
      pathSegments_encR _ _ (by simp) hRm]
    simp

/-! ### the parser on `file://host/…` -/

theorem unc_forward (idna : Idna) (host : List Nat) (sl : Nat) (rest : List Nat)
    (hs : ∀ c ∈ host ++ sl :: rest, Spec.isScalar c = true)
    (hne : host ≠ []) (hc : ∀ c ∈ host, Impl.isWindowsSlash c = false)
    (hdrv : ∀ a b, host = [a, b] → Impl.isWindowsDrive a b = false)
    (hsl : Impl.isWindowsSlash sl = true) :
    Impl.parse idna .u8 (Impl.sFilePrefix ++ encR (host ++ sl :: rest)) none =
      (Impl.parseHost idna (encR host) false).map (fun h => Impl.parsePath (uncUrl h) (encR rest)) := by
  have hhost : ∀ c ∈ host, Spec.isScalar c = true := fun c h => hs c (List.mem_append_left _ h)
  have hrest : ∀ c ∈ rest, Spec.isScalar c = true :=
    fun c h => hs c (List.mem_append_right _ (List.mem_cons_of_mem _ h))
  have hsl' : sl = 0x5C ∨ sl = 0x2F := by simpa [Impl.isWindowsSlash] using hsl
  have henc : encR (host ++ sl :: rest) = encR host ++ sl :: encR rest := by
    unfold encR
    rw [percentEncode_append]
    congr 1
    rcases hsl' with e | e <;> subst e <;>
      exact percentEncode_ascii_noenc _ _ _ (by omega) (by decide)
  have hbufne : encR host ≠ [] := by
    cases host with
    | nil => exact absurd rfl hne
    | cons c cs =>
      unfold encR
      rw [percentEncode_cons]
      intro e
      have := congrArg List.length e
      simp only [List.length_append, List.length_nil] at this
      have h3 := pctEncodeChar_len c
      split at this
      · omega
      · split at this <;> simp [pctByte] at this
  have hbuf : ∀ c ∈ encR host, Impl.isSpecialAuthorityEnd c = false ∧ 0x20 < c ∧ c < 0x80 := by
    intro c hcm
    have h1 := raw_safe host hhost c hcm
    unfold SafeRaw at h1
    refine ⟨?_, by omega, by omega⟩
    rcases percentEncode_mem _ host hhost c hcm with ⟨hm, -, -⟩ | h25 | hhex
    · have := hc c hm
      simp only [Impl.isWindowsSlash, Bool.or_eq_false_iff, beq_eq_false_iff_ne] at this
      simp only [Impl.isSpecialAuthorityEnd, Bool.or_eq_false_iff, beq_eq_false_iff_ne]
      omega
    · subst h25; decide
    · rw [isUpperHex_iff] at hhex
      simp only [Impl.isSpecialAuthorityEnd, Bool.or_eq_false_iff, beq_eq_false_iff_ne]
      omega
  have hdrive : ∀ a b, encR host = [a, b] → Impl.isWindowsDrive a b = false := by
    intro a b e
    exact hdrv a b (percentEncode_two _ _ _ _ e)
  have hsafe := raw_safe rest hrest
  rw [henc, parse_file_unc idna _ sl _ hbufne hbuf hdrive hsl (fun c hc => by
    have := hsafe c hc; unfold SafeRaw at this; omega)]

theorem uncUrl_plain (hst : Host) (hloc : hst.text ≠ Impl.sLocalhost) :
    uncUrl hst = { scheme := Impl.sFile, host := some hst } := by
  unfold uncUrl
  have : (hst.text == Impl.sLocalhost) = false := by simpa using hloc
  rw [this]; rfl

theorem uncUrl_hostText (hst : Host) (hloc : hst.text ≠ Impl.sLocalhost) (x : List Nat) :
    (Impl.parsePath (uncUrl hst) x).hostText = hst.text := by
  obtain ⟨p, hp⟩ := parsePath_frame (uncUrl hst) x
  rw [hp, uncUrl_plain hst hloc]
  rfl

/-- everything url_from_file_path returns for a UNC path, with the shape facts of is_unc_path -/
theorem from_path_unc (idna : Idna) (s : List Nat) (u : Url)
    (hs : ∀ c ∈ s, Spec.isScalar c = true)
    (h : Impl.urlFromFilePath idna s .windows = some u) (hcl : (winClassify s).2 = true) :
    ∃ host sl share r hst, (winClassify s).1 = host ++ sl :: (share ++ r) ∧
      Impl.isWindowsSlash sl = true ∧ host ≠ [] ∧ share ≠ [] ∧ Clean host ∧ Clean share ∧
      (∀ a b, host = [a, b] → Impl.isWindowsDrive a b = false) ∧
      share ≠ [0x2E] ∧ share ≠ dd ∧
      (r = [] ∨ ∃ x r', r = x :: r' ∧ Impl.isWindowsSlash x = true) ∧ 0 ∉ r ∧
      Impl.isUncPath (winClassify s).1 = some r ∧
      dd ∉ splitOnP Impl.isWindowsSlash r ∧
      Impl.parseHost idna (encR host) false = some hst ∧
      u = Impl.parsePath (uncUrl hst) (encR (share ++ r)) ∧ hst.text ≠ [0x2E] := by
  rw [urlFromFilePath_windows] at h
  by_cases hs0 : s = []
  · rw [if_pos hs0] at h; cases h
  rw [if_neg hs0, hcl] at h
  simp only [if_true, List.append_nil] at h
  have hps : ∀ c ∈ (winClassify s).1, Spec.isScalar c = true := fun c hc => hs c (pointer_sub s c hc)
  cases hd : Impl.isUncPath (winClassify s).1 with
  | none => rw [hd] at h; cases h
  | some chk =>
    rw [hd] at h
    simp only at h
    by_cases hbad : dd ∈ splitOnP Impl.isWindowsSlash chk ∨ 0 ∈ chk
    · rw [if_pos hbad] at h; cases h
    rw [if_neg hbad] at h
    obtain ⟨h, hnd⟩ := rejectDotHost_some h
    simp only [not_or] at hbad
    obtain ⟨host, sl, share, hp, hsl, hne, hne2, hc, -, -, hdrv, hn1, hn2, hrs, h0⟩ := isUncPath_shape _ _ hd
    rw [hp] at hps
    rw [hp, unc_forward idna host sl (share ++ chk) hps hne
      (fun c hcm => (hc c (List.mem_append_left _ hcm)).1) hdrv hsl] at h
    cases hph : Impl.parseHost idna (encR host) false with
    | none => rw [hph] at h; cases h
    | some hst =>
      rw [hph] at h
      simp only [Option.map_some, Option.some.injEq] at h
      exact ⟨host, sl, share, chk, hst, hp, hsl, hne, hne2,
        fun c hcm => hc c (List.mem_append_left _ hcm), fun c hcm => hc c (List.mem_append_right _ hcm),
        hdrv, hn1, hn2, hrs, h0, rfl, hbad.1, hph, h.symm, fun e => hnd (by
          rw [← h, uncUrl_hostText hst (by rw [e]; decide)]; exact e)⟩

/-! ### GoodTail: constructors, is_unc_path implies it, "." removal keeps it -/

theorem goodTail_single (t : List Nat) (h : Clean t) : GoodTail [t] := h

theorem goodTail_cons (t : List Nat) (L : List (List Nat)) (hc : Clean t) (hne : t ≠ [])
    (hg : GoodTail L) : GoodTail (t :: L) := by
  cases L with
  | nil => exact hc
  | cons a b => exact ⟨hc, hne, hg⟩

theorem clean_nil : Clean [] := by intro c hc; simp at hc

theorem uncAux_good : ∀ (fuel : Nat) (s : List Nat) (n : Nat) (sh : Option (List Nat)) (r : List Nat),
    2 ≤ n → Impl.isUncPathAux fuel s n sh = some r → GoodTail (splitOnP Impl.isWindowsSlash s) := by
  intro fuel
  induction fuel with
  | zero => intro s n sh r _ h; simp [Impl.isUncPathAux] at h
  | succ f ih =>
    intro s n sh r hn h
    by_cases hs : s = []
    · subst hs; exact clean_nil
    obtain ⟨f', comp, rest, hf, hsc, hne, hcl, -, -, hstep⟩ := unc_one_step _ _ _ _ _ h hs
    have hf' : f' = f := by omega
    subst hf'
    have hcs : ∀ c ∈ comp, Impl.isWindowsSlash c = false := fun c hc => (hcl c hc).1
    rcases hstep with ⟨hrest, -⟩ | ⟨x, r', hrest, hx, hrec⟩
    · rw [hsc, hrest, List.append_nil, splitOnP_nosep _ _ hcs]
      exact hcl
    · rw [hsc, hrest, splitOnP_append_nosep _ _ _ hcs, splitOnP_cons_sep _ _ _ hx]
      simp only [List.headD_cons, List.append_nil, List.tail_cons]
      exact goodTail_cons _ _ hcl hne (ih r' (n + 1) _ r (by omega) hrec)

theorem isUncPath_tail_good (s r : List Nat) (h : Impl.isUncPath s = some r) : GoodTail (uncRest r) := by
  unfold Impl.isUncPath at h
  by_cases hs : s = []
  · subst hs; simp [Impl.isUncPathAux] at h
  obtain ⟨f1, host, rest1, -, hs1, hne1, hc1, hb1, -, hstep1⟩ := unc_one_step _ _ _ _ _ h hs
  simp only [show ¬ (0 = 1) by omega, if_false] at hstep1
  rcases hstep1 with ⟨-, hcontra⟩ | ⟨sl, r1, hrest1, hsl, h1⟩
  · simp at hcontra
  by_cases hr1 : r1 = []
  · subst hr1
    cases f1 <;> simp [Impl.isUncPathAux] at h1
  obtain ⟨f2, share, rest2, -, hs2, hne2, hc2, -, hb2, hstep2⟩ := unc_one_step _ _ _ _ _ h1 hr1
  simp only [if_true] at hstep2
  rcases hstep2 with ⟨hrest2, hr⟩ | ⟨x, r', hrest2, hx, h2⟩
  · have hr : r = [] := by simpa using hr.symm
    subst hr
    exact True.intro
  · obtain ⟨hr, -⟩ := unc_ge2 _ _ _ _ _ (by omega) h2
    have hr : rest2 = r := by simpa using hr
    subst hr
    rw [hrest2]
    exact uncAux_good _ _ _ _ _ (by omega) h2

theorem goodTail_winSegs (L : List (List Nat)) (h : GoodTail L) : GoodTail (winSegs L) := by
  induction L with
  | nil => exact True.intro
  | cons t rest ih =>
    cases rest with
    | nil =>
      simp only [winSegs]
      split
      · exact clean_nil
      · exact h
    | cons t2 r2 =>
      obtain ⟨hc, hne, hg⟩ : Clean t ∧ t ≠ [] ∧ GoodTail (t2 :: r2) := h
      rw [winSegs_cons2]
      split
      · exact ih hg
      · exact goodTail_cons _ _ hc hne (ih hg)

theorem goodTail_clean (L : List (List Nat)) (h : GoodTail L) : ∀ t ∈ L, Clean t := by
  induction L with
  | nil => intro t ht; simp at ht
  | cons a rest ih =>
    cases rest with
    | nil => intro t ht; simp at ht; subst ht; exact h
    | cons t2 r2 =>
      obtain ⟨hc, -, hg⟩ : Clean a ∧ a ≠ [] ∧ GoodTail (t2 :: r2) := h
      intro t ht
      rcases List.mem_cons.1 ht with rfl | ht
      · exact hc
      · exact ih hg t ht

/-! ### UTF-8 of segments -/

theorem utf8Encode_append (a b : List Nat) :
    Spec.utf8Encode (a ++ b) = Spec.utf8Encode a ++ Spec.utf8Encode b := by
  simp [Spec.utf8Encode]

theorem utf8_joinBs (L : List (List Nat)) : Spec.utf8Encode (joinBs L) = joinBs (L.map Spec.utf8Encode) := by
  induction L with
  | nil => rfl
  | cons t L ih =>
    rw [joinBs_cons, List.map_cons, joinBs_cons, utf8Encode_ascii_cons _ (by omega), utf8Encode_append, ih]

theorem utf8_char_cases (c : Nat) (hc : Spec.isScalar c = true) :
    (c < 0x80 ∧ Spec.utf8EncodeChar c = [c]) ∨
    (∃ b t, Spec.utf8EncodeChar c = b :: t ∧ ∀ x ∈ b :: t, 0x80 ≤ x) := by
  by_cases h : c < 0x80
  · left; exact ⟨h, utf8EncodeChar_ascii c h⟩
  · right
    obtain ⟨b, t, e, -, -, hall⟩ := utf8EncodeChar_hi c (by omega) (scalar_le c hc)
    exact ⟨b, t, e, fun x hx => (hall x hx).1⟩

theorem clean_utf8 (t : List Nat) (hs : ∀ c ∈ t, Spec.isScalar c = true) (hc : Clean t) :
    Clean (Spec.utf8Encode t) := by
  induction t with
  | nil => exact clean_nil
  | cons c cs ih =>
    rw [utf8Encode_cons]
    intro x hx
    rcases List.mem_append.1 hx with hx | hx
    · rcases utf8_char_cases c (hs c List.mem_cons_self) with ⟨-, e⟩ | ⟨b, t, e, hall⟩
      · rw [e] at hx; simp only [List.mem_singleton] at hx; subst hx; exact hc x List.mem_cons_self
      · rw [e] at hx
        have := hall x hx
        refine ⟨?_, by omega⟩
        simp only [Impl.isWindowsSlash, Bool.or_eq_false_iff, beq_eq_false_iff_ne]; omega
    · exact ih (fun y hy => hs y (List.mem_cons_of_mem _ hy)) (fun y hy => hc y (List.mem_cons_of_mem _ hy)) x hx

theorem utf8_eq_nil (t : List Nat) (hs : ∀ c ∈ t, Spec.isScalar c = true)
    (h : Spec.utf8Encode t = []) : t = [] := by
  cases t with
  | nil => rfl
  | cons c cs =>
    rw [utf8Encode_cons] at h
    rcases utf8_char_cases c (hs c List.mem_cons_self) with ⟨-, e⟩ | ⟨b, t, e, -⟩ <;> (rw [e] at h; simp at h)

/-- a UTF-8 string that starts with an ASCII byte starts with that scalar -/
theorem utf8_head_ascii (t : List Nat) (hs : ∀ c ∈ t, Spec.isScalar c = true) (a : Nat) (rest : List Nat)
    (ha : a < 0x80) (h : Spec.utf8Encode t = a :: rest) :
    ∃ t', t = a :: t' ∧ Spec.utf8Encode t' = rest := by
  cases t with
  | nil => simp [Spec.utf8Encode] at h
  | cons c cs =>
    rw [utf8Encode_cons] at h
    rcases utf8_char_cases c (hs c List.mem_cons_self) with ⟨-, e⟩ | ⟨b, t, e, hall⟩
    · rw [e] at h
      simp only [List.cons_append, List.nil_append, List.cons.injEq] at h
      exact ⟨cs, by rw [h.1], h.2⟩
    · rw [e] at h
      simp only [List.cons_append, List.cons.injEq] at h
      have := hall b List.mem_cons_self
      omega

theorem uncBad2_utf8 (w : List Nat) (hs : ∀ c ∈ w, Spec.isScalar c = true)
    (h1 : w ≠ [0x2E]) (h2 : w ≠ dd) : uncBad 2 (Spec.utf8Encode w) = false := by
  unfold uncBad
  rw [if_neg (by omega), if_pos rfl]
  split
  · rename_i a he
    cases hb : (a == 0x2E) with
    | false => rfl
    | true =>
      exfalso
      have ha : a = 0x2E := by simpa using hb
      subst ha
      obtain ⟨t', ht, he'⟩ := utf8_head_ascii w hs _ _ (by omega) he
      have := utf8_eq_nil t' (fun c hc => hs c (by rw [ht]; exact List.mem_cons_of_mem _ hc)) he'
      subst this
      exact h1 ht
  · rename_i a b he
    cases hb : (a == 0x2E && b == 0x2E) with
    | false => rfl
    | true =>
      exfalso
      simp only [Bool.and_eq_true, beq_iff_eq] at hb
      obtain ⟨rfl, rfl⟩ := hb
      obtain ⟨t', ht, he'⟩ := utf8_head_ascii w hs _ _ (by omega) he
      have hs' : ∀ c ∈ t', Spec.isScalar c = true := fun c hc => hs c (by rw [ht]; exact List.mem_cons_of_mem _ hc)
      obtain ⟨t'', ht', he''⟩ := utf8_head_ascii t' hs' _ _ (by omega) he'
      have := utf8_eq_nil t'' (fun c hc => hs' c (by rw [ht']; exact List.mem_cons_of_mem _ hc)) he''
      subst this
      subst ht'
      exact h2 ht
  · rfl

theorem goodTail_utf8 (L : List (List Nat)) (hs : ∀ t ∈ L, ∀ c ∈ t, Spec.isScalar c = true)
    (h : GoodTail L) : GoodTail (L.map Spec.utf8Encode) := by
  induction L with
  | nil => exact True.intro
  | cons t rest ih =>
    cases rest with
    | nil => exact clean_utf8 t (hs t List.mem_cons_self) h
    | cons t2 r2 =>
      obtain ⟨hc, hne, hg⟩ : Clean t ∧ t ≠ [] ∧ GoodTail (t2 :: r2) := h
      rw [List.map_cons]
      exact goodTail_cons _ _ (clean_utf8 t (hs t List.mem_cons_self) hc)
        (fun e => hne (utf8_eq_nil t (hs t List.mem_cons_self) e))
        (ih (fun x hx => hs x (List.mem_cons_of_mem _ hx)) hg)

/-! ### path_from_file_url on a URL with a host -/

theorem pathFromFileUrl_unc (u : Url) (hf : u.isFile = true) (H body : List Nat) (hh : u.hostText = H)
    (hne : H ≠ []) (hdot : H ≠ [0x2E]) (hb : winBody u = body)
    (hunc : (Impl.isUncPath (H ++ body)).isSome = true) (h0 : 0 ∉ H ++ body) :
    Impl.pathFromFileUrl u .windows = some (0x5C :: 0x5C :: (H ++ body)) := by
  have hb' : (List.map (fun c => if c = 47 then 92 else c) (Impl.percentDecode (Impl.pathText u))) = body := hb
  have e1 : (H == [46]) = false := by simp [hdot]
  have e2 : (Impl.isUncPath (H ++ body)).isNone = false := by
    cases hq : Impl.isUncPath (H ++ body) with
    | none => rw [hq] at hunc; cases hunc
    | some x => rfl
  have hany : ((0x5C :: 0x5C :: (H ++ body)).any (· == 0)) = false := by
    cases hx : (0x5C :: 0x5C :: (H ++ body)).any (· == 0) with
    | false => rfl
    | true =>
      have := (any_zero_iff _).1 hx
      simp only [List.mem_cons] at this
      rcases this with h | h | h
      · omega
      · omega
      · exact absurd h h0
  unfold Impl.pathFromFileUrl
  simp only [hf, hh, hb', Bool.not_true, Bool.false_eq_true, if_false, ne_eq, hne, not_false_eq_true,
    decide_true, Bool.true_and, e1, if_true, List.cons_append, List.nil_append, List.drop_succ_cons,
    List.drop_zero, e2, hany]

/-- the conditions on a host text that make it a UNC server name again -/
structure HostTextOk (H : List Nat) : Prop where
  ne : H ≠ []
  clean : Clean H
  notBad : uncBad 1 H = false
  ascii : ∀ c ∈ H, c < 0x80

theorem HostTextOk.notDot {H : List Nat} (h : HostTextOk H) : H ≠ [0x2E] := by
  intro e
  have := h.notBad
  rw [e] at this
  simp [uncBad] at this

theorem HostTextOk.notDrive {H : List Nat} (h : HostTextOk H) :
    ∀ a b, H = [a, b] → Impl.isWindowsDrive a b = false := by
  intro a b e
  have := h.notBad
  rw [e] at this
  simpa [uncBad] using this

/-- the segments kept for a UNC path: share name (non-empty, not "." / ".."), then a good tail -/
structure UncSegs (w0 : List Nat) (W' : List (List Nat)) : Prop where
  scalar0 : ∀ c ∈ w0, Spec.isScalar c = true
  scalar : ∀ t ∈ W', ∀ c ∈ t, Spec.isScalar c = true
  ne : w0 ≠ []
  clean : Clean w0
  notDot : w0 ≠ [0x2E]
  notDD : w0 ≠ dd
  tail : GoodTail W'

theorem clean_no2F {t : List Nat} (h : Clean t) : 0x2F ∉ t := by
  intro hm; have := (h _ hm).1; simp [Impl.isWindowsSlash] at this

/-- path_from_file_url on `file://H/w0/w1/…` -/
theorem unc_back (hst : Host) (w0 : List Nat) (W' : List (List Nat)) (hH : HostTextOk hst.text)
    (hW : UncSegs w0 W') :
    Impl.pathFromFileUrl { scheme := Impl.sFile, host := some hst, path := (w0 :: W').map encR } .windows =
      some (Spec.utf8Encode (0x5C :: 0x5C :: (hst.text ++ joinBs (w0 :: W')))) := by
  have hcl := goodTail_clean W' hW.tail
  have hWs : ∀ t ∈ w0 :: W', ∀ c ∈ t, Spec.isScalar c = true := by
    intro t ht
    rcases List.mem_cons.1 ht with rfl | ht
    · exact hW.scalar0
    · exact hW.scalar t ht
  have hWc : ∀ t ∈ w0 :: W', Clean t := by
    intro t ht
    rcases List.mem_cons.1 ht with rfl | ht
    · exact hW.clean
    · exact hcl t ht
  have hJs : ∀ x ∈ (w0 :: W').flatMap (fun seg => 0x2F :: seg), Spec.isScalar x = true := by
    intro x hx
    rcases mem_join _ _ _ hx with rfl | ⟨t, ht, hxt⟩
    · decide
    · exact hWs t ht x hxt
  have htext : Impl.pathText { scheme := Impl.sFile, host := some hst, path := (w0 :: W').map encR } =
      encR ((w0 :: W').flatMap (fun seg => 0x2F :: seg)) := by
    show ((w0 :: W').map encR).flatMap (fun seg => 0x2F :: seg) = _
    exact flatMap_encR 0x2F (by omega) (by decide) _
  have hbody : winBody { scheme := Impl.sFile, host := some hst, path := (w0 :: W').map encR } =
      0x5C :: (Spec.utf8Encode w0 ++ joinBs (W'.map Spec.utf8Encode)) := by
    unfold winBody
    rw [htext, percentDecode_percentEncode _ _ hJs (by decide)]
    show (Spec.utf8Encode _).map swSlash = _
    rw [map_sw_utf8 _ hJs, map_sw_join _ (fun t ht => clean_no2F (hWc t ht))]
    show Spec.utf8Encode (joinBs (w0 :: W')) = _
    rw [utf8_joinBs]; rfl
  have hres : Spec.utf8Encode (0x5C :: 0x5C :: (hst.text ++ joinBs (w0 :: W'))) =
      0x5C :: 0x5C :: (hst.text ++ 0x5C :: (Spec.utf8Encode w0 ++ joinBs (W'.map Spec.utf8Encode))) := by
    rw [utf8Encode_ascii_cons _ (by omega), utf8Encode_ascii_cons _ (by omega), utf8Encode_append,
      utf8Encode_ascii _ hH.ascii, utf8_joinBs]
    rfl
  have hunc := isUncPath_join hst.text (Spec.utf8Encode w0) (W'.map Spec.utf8Encode) hH.ne hH.clean hH.notBad
    (fun e => hW.ne (utf8_eq_nil w0 hW.scalar0 e)) (clean_utf8 w0 hW.scalar0 hW.clean)
    (uncBad2_utf8 w0 hW.scalar0 hW.notDot hW.notDD) (goodTail_utf8 W' hW.scalar hW.tail)
  rw [hres]
  refine pathFromFileUrl_unc _ rfl hst.text _ rfl hH.ne hH.notDot hbody (by rw [hunc]; rfl) ?_
  intro hm
  rcases List.mem_append.1 hm with hm | hm
  · exact (hH.clean 0 hm).2 rfl
  · have hj : 0 ∉ Spec.utf8Encode (joinBs (w0 :: W')) := by
      apply utf8Encode_no_nul
      · intro x hx
        rcases mem_join _ _ _ hx with rfl | ⟨t, ht, hxt⟩
        · decide
        · exact hWs t ht x hxt
      · intro hx
        rcases mem_join _ _ _ hx with h | ⟨t, ht, hxt⟩
        · omega
        · exact (hWc t ht 0 hxt).2 rfl
    rw [utf8_joinBs] at hj
    exact hj hm

/-! ### the normal form is accepted -/

theorem winClassify_unc (H rest : List Nat) (hH : HostTextOk H) :
    winClassify (0x5C :: 0x5C :: (H ++ 0x5C :: rest)) = (H ++ 0x5C :: rest, true) := by
  have e : Impl.isWindowsSlash 0x5C = true := by decide
  cases hHH : H with
  | nil => exact absurd hHH hH.ne
  | cons x H' =>
    cases H' with
    | nil =>
      have hb := hH.notBad
      rw [hHH] at hb
      have hb' : (x == 0x3F || x == 0x2E) = false := by simpa [uncBad] using hb
      unfold winClassify
      simp [e, hb']
    | cons y H'' =>
      have hy : Impl.isWindowsSlash y = false := (hH.clean y (by rw [hHH]; simp)).1
      unfold winClassify
      simp [e, hy]

theorem uncRest_joinBs (W' : List (List Nat)) (hc : ∀ t ∈ W', Clean t) : uncRest (joinBs W') = W' := by
  cases W' with
  | nil => rfl
  | cons t L =>
    have := split_join Impl.isWindowsSlash (by decide) (t :: L) (fun t ht c hc' => (hc t ht c hc').1)
    rw [show (t :: L).flatMap (fun seg => 0x5C :: seg) = 0x5C :: (t ++ joinBs L) from rfl,
      splitOnP_cons_sep _ _ _ (by decide)] at this
    rw [joinBs_cons]
    simpa [uncRest] using this

theorem accept_unc (idna : Idna) (H w0 : List Nat) (W' : List (List Nat)) (hH : HostTextOk H)
    (hW : UncSegs w0 W') (hdd : dd ∉ W') :
    Impl.urlFromFilePath idna (0x5C :: 0x5C :: (H ++ joinBs (w0 :: W'))) .windows =
      Impl.rejectDotHost ((Impl.parseHost idna (encR H) false).map
        (fun h => Impl.parsePath (uncUrl h) (encR (w0 ++ joinBs W')))) := by
  have hcl := goodTail_clean W' hW.tail
  have hHb := hH.notBad
  have hwb : uncBad 2 w0 = false := by
    have := uncBad2_utf8 w0 hW.scalar0 hW.notDot hW.notDD
    unfold uncBad at this ⊢
    rw [if_neg (by omega), if_pos rfl] at this ⊢
    have h1 := hW.notDot
    have h2 := hW.notDD
    split
    · rename_i a
      cases hb : (a == 0x2E) with
      | false => rfl
      | true => exfalso; apply h1; simp at hb; rw [hb]
    · rename_i a b
      cases hb : (a == 0x2E && b == 0x2E) with
      | false => rfl
      | true => exfalso; apply h2; simp at hb; rw [hb.1, hb.2]; rfl
    · rfl
  have hjs : ∀ x ∈ joinBs W', Spec.isScalar x = true := by
    intro x hx
    rcases mem_join _ _ _ hx with rfl | ⟨t, ht, hxt⟩
    · decide
    · exact hW.scalar t ht x hxt
  have hj0 : 0 ∉ joinBs W' := by
    intro hx
    rcases mem_join _ _ _ hx with h | ⟨t, ht, hxt⟩
    · omega
    · exact (hcl t ht 0 hxt).2 rfl
  have hjdd : dd ∉ splitOnP Impl.isWindowsSlash (joinBs W') := by
    have := split_join Impl.isWindowsSlash (by decide) W' (fun t ht c hc' => (hcl t ht c hc').1)
    show dd ∉ splitOnP Impl.isWindowsSlash (W'.flatMap (fun seg => 0x5C :: seg))
    rw [this]
    intro hm
    rcases List.mem_cons.1 hm with h | h
    · simp [dd] at h
    · exact hdd h
  have hall : ∀ c ∈ H ++ 0x5C :: (w0 ++ joinBs W'), Spec.isScalar c = true := by
    intro c hc
    rcases List.mem_append.1 hc with h | h
    · exact scalar_ascii c (hH.ascii c h)
    · rcases List.mem_cons.1 h with rfl | h
      · decide
      · rcases List.mem_append.1 h with h | h
        · exact hW.scalar0 c h
        · exact hjs c h
  rw [joinBs_cons, urlFromFilePath_windows, if_neg (by simp), winClassify_unc H _ hH]
  simp only [if_true, List.append_nil]
  rw [isUncPath_join H w0 W' hH.ne hH.clean hHb hW.ne hW.clean hwb hW.tail]
  simp only []
  rw [if_neg (by simp [hjdd, hj0]),
    unc_forward idna H 0x5C _ hall hH.ne (fun c hc => (hH.clean c hc).1) hH.notDrive (by decide)]

/-! ### UNC: round trip and fixed point, core statements -/

theorem fixShare_cases (share : List Nat) :
    fixShare share = share ∨
      ∃ a b, share = [a, b] ∧ Impl.isWindowsDrive a b = true ∧ fixShare share = [a, 0x3A] := by
  unfold fixShare
  split
  · rename_i a b
    by_cases hd : Impl.isWindowsDrive a b = true
    · right; exact ⟨a, b, rfl, hd, by simp [hd]⟩
    · left; simp [hd]
  · left; rfl

theorem fixShare_idem (share : List Nat) : fixShare (fixShare share) = fixShare share := by
  rcases fixShare_cases share with h | ⟨a, b, -, hd, h⟩
  · rw [h]; exact h
  · rw [h]
    have : Impl.isWindowsDrive a 0x3A = true :=
      (isWindowsDrive_iff a 0x3A).2 ⟨((isWindowsDrive_iff a b).1 hd).1, Or.inl rfl⟩
    simp [fixShare, this]

theorem uncSegs_of (share r : List Nat) (hs : ∀ c ∈ share ++ r, Spec.isScalar c = true)
    (hne : share ≠ []) (hc : Clean share) (h1 : share ≠ [0x2E]) (h2 : share ≠ dd)
    (hg : GoodTail (uncRest r)) :
    UncSegs (fixShare share) (winSegs (uncRest r)) := by
  have hss : ∀ c ∈ share, Spec.isScalar c = true := fun c h => hs c (List.mem_append_left _ h)
  have hW' : ∀ t ∈ winSegs (uncRest r), ∀ c ∈ t, Spec.isScalar c = true := by
    intro t ht c hc'
    rcases winSegs_mem _ t ht with e | ⟨hm, -⟩
    · subst e; simp at hc'
    · apply hs; apply List.mem_append_right
      cases r with
      | nil => simp [uncRest] at hm
      | cons x r' =>
        simp only [uncRest] at hm
        exact List.mem_cons_of_mem _ (mem_splitOnP _ _ t hm c hc')
  rcases fixShare_cases share with h | ⟨a, b, hsh, hd, h⟩
  · rw [h]
    exact ⟨hss, hW', hne, hc, h1, h2, goodTail_winSegs _ hg⟩
  · rw [h]
    obtain ⟨ha, -⟩ := (isWindowsDrive_iff a b).1 hd
    obtain ⟨ha1, -, ha3, ha0, ha2, -⟩ := alpha_facts a ha
    refine ⟨?_, hW', by simp, ?_, by simp, ?_, goodTail_winSegs _ hg⟩
    · intro c hc'
      simp only [List.mem_cons, List.not_mem_nil, or_false] at hc'
      rcases hc' with rfl | rfl
      · exact scalar_ascii _ ha1
      · decide
    · intro c hc'
      simp only [List.mem_cons, List.not_mem_nil, or_false] at hc'
      rcases hc' with rfl | rfl
      · exact ⟨ha3, ha0⟩
      · exact ⟨by decide, by omega⟩
    · intro e
      simp only [dd, List.cons.injEq] at e
      omega

theorem dd_not_winSegs (r : List Nat) (hr : r = [] ∨ ∃ x r', r = x :: r' ∧ Impl.isWindowsSlash x = true)
    (hdd : dd ∉ splitOnP Impl.isWindowsSlash r) : dd ∉ winSegs (uncRest r) := by
  intro hm
  rcases winSegs_mem _ _ hm with e | ⟨h, -⟩
  · simp [dd] at e
  · rcases hr with rfl | ⟨x, r', rfl, hx⟩
    · simp [uncRest] at h
    · rw [splitOnP_cons_sep _ _ _ hx] at hdd
      exact hdd (List.mem_cons_of_mem _ h)

/-- the Windows split of the UNC pointer: server, share, the rest -/
theorem split_pointer (host : List Nat) (sl : Nat) (share r : List Nat) (hh : Clean host) (hc : Clean share)
    (hsl : Impl.isWindowsSlash sl = true)
    (hr : r = [] ∨ ∃ x r', r = x :: r' ∧ Impl.isWindowsSlash x = true) :
    splitOnP Impl.isWindowsSlash (host ++ sl :: (share ++ r)) = host :: share :: uncRest r := by
  rw [splitOnP_append_nosep _ _ _ (fun c h => (hh c h).1), splitOnP_cons_sep _ _ _ hsl,
    split_share share r (fun c h => (hc c h).1) hr]
  simp

/-- the explicit normal form of a UNC path from its parsed server and its segments -/
def uncNorm (H share : List Nat) (rest : List (List Nat)) : List Nat :=
  0x5C :: 0x5C :: (H ++ joinBs (fixShare share :: winSegs rest))

/-- round trip of an accepted UNC path -/
theorem roundtrip_unc_core (idna : Idna) (s : List Nat) (u : Url)
    (hs : ∀ c ∈ s, Spec.isScalar c = true)
    (h : Impl.urlFromFilePath idna s .windows = some u) (hcl : (winClassify s).2 = true) :
    ∃ host share rest hst,
      splitOnP Impl.isWindowsSlash (winClassify s).1 = host :: share :: rest ∧ host ≠ [] ∧
      Impl.parseHost idna (encR host) false = some hst ∧
      UncSegs (fixShare share) (winSegs rest) ∧ dd ∉ winSegs rest ∧ hst.text ≠ [0x2E] ∧
      (hst.text ≠ Impl.sLocalhost → HostTextOk hst.text →
        Impl.pathFromFileUrl u .windows = some (Spec.utf8Encode (uncNorm hst.text share rest))) := by
  obtain ⟨host, sl, share, r, hst, hp, hsl, hne, hne2, hch, hcs, hdrv, hn1, hn2, hrs, h0, hunc, hdd, hph, hu, hnd⟩ :=
    from_path_unc idna s u hs h hcl
  have hps : ∀ c ∈ share ++ r, Spec.isScalar c = true := by
    intro c hc
    apply hs; apply pointer_sub s; rw [hp]
    exact List.mem_append_right _ (List.mem_cons_of_mem _ hc)
  have hW := uncSegs_of share r hps hne2 hcs hn1 hn2 (isUncPath_tail_good _ _ hunc)
  refine ⟨host, share, uncRest r, hst, ?_, hne, hph, hW, dd_not_winSegs r hrs hdd, hnd, ?_⟩
  · rw [hp]; exact split_pointer host sl share r hch hcs hsl hrs
  · intro hloc hH
    rw [hu, uncUrl_plain hst hloc,
      parsePath_unc _ rfl rfl rfl share r hps (fun c hc => (hcs c hc).1) hn1 hn2 hrs hdd]
    exact unc_back hst _ _ hH hW

/-- the normal form of a UNC path is accepted and returned unchanged, provided the server name parses
    to the same host again -/
theorem fixed_unc_core (idna : Idna) (hst : Host) (w0 : List Nat) (W' : List (List Nat))
    (hH : HostTextOk hst.text) (hW : UncSegs w0 W') (hdd : dd ∉ W')
    (hloc : hst.text ≠ Impl.sLocalhost) (hfs : fixShare w0 = w0) (hws : winSegs W' = W')
    (hph : Impl.parseHost idna (encR hst.text) false = some hst) :
    rtWin idna (0x5C :: 0x5C :: (hst.text ++ joinBs (w0 :: W'))) =
      some (Spec.utf8Encode (0x5C :: 0x5C :: (hst.text ++ joinBs (w0 :: W')))) := by
  have hcl := goodTail_clean W' hW.tail
  have hps : ∀ c ∈ w0 ++ joinBs W', Spec.isScalar c = true := by
    intro c hc
    rcases List.mem_append.1 hc with h | h
    · exact hW.scalar0 c h
    · rcases mem_join _ _ _ h with rfl | ⟨t, ht, hxt⟩
      · decide
      · exact hW.scalar t ht c hxt
  have hrs : joinBs W' = [] ∨ ∃ x r', joinBs W' = x :: r' ∧ Impl.isWindowsSlash x = true := by
    rcases joinBs_shape W' with h | ⟨r, h⟩
    · left; exact h
    · right; exact ⟨0x5C, r, h, by decide⟩
  have hjdd : dd ∉ splitOnP Impl.isWindowsSlash (joinBs W') := by
    have := split_join Impl.isWindowsSlash (by decide) W' (fun t ht c hc' => (hcl t ht c hc').1)
    show dd ∉ splitOnP Impl.isWindowsSlash (W'.flatMap (fun seg => 0x5C :: seg))
    rw [this]
    intro hm
    rcases List.mem_cons.1 hm with h | h
    · simp [dd] at h
    · exact hdd h
  unfold rtWin
  rw [accept_unc idna hst.text w0 W' hH hW hdd, hph]
  simp only [Option.map_some]
  rw [rejectDotHost_of_ne (by rw [uncUrl_hostText hst hloc]; exact hH.notDot)]
  simp only [Option.bind_some]
  rw [uncUrl_plain hst hloc,
    parsePath_unc _ rfl rfl rfl w0 (joinBs W') hps (fun c hc => (hW.clean c hc).1) hW.notDot hW.notDD hrs hjdd,
    uncRest_joinBs W' hcl, hfs, hws]
  exact unc_back hst w0 W' hH hW

/-! ### host facts from the IDNA hypotheses -/

theorem hostChar_facts : ∀ c, c < 128 → C02.hostCharOk true c = true →
    Impl.isWindowsSlash c = false ∧ c ≠ 0 ∧ c ≠ 0x3F := by decide +kernel

theorem hostTextOk_of_parse (idna : Idna) (hi : C02b.IdnaStable idna) (s : List Nat) (h : Host)
    (hne : s ≠ []) (hh : Impl.parseHost idna s false = some h) (hdot : h.text ≠ [0x2E]) :
    HostTextOk h.text ∧ Impl.parseHost idna h.text false = some h := by
  have hne' := (C08.C08_host idna hi.canon s false h hh).2 hne
  obtain ⟨⟨-, hst⟩, hch⟩ := C02b.hostN_of_parse (sp := true) hi hh
  have hstable : Impl.parseHost idna h.text false = some h := by
    unfold C02.HostStable at hst
    rw [if_neg hne'] at hst
    exact hst
  refine ⟨?_, hstable⟩
  obtain ⟨hc, hcolon⟩ := hch
  have hlt : ∀ c ∈ h.text, c < 0x80 := by
    intro c hcm
    have := (hc c hcm).1
    simp only [C02.hostCharOk, Bool.and_eq_true, decide_eq_true_eq] at this
    omega
  have hf : ∀ c ∈ h.text, Impl.isWindowsSlash c = false ∧ c ≠ 0 ∧ c ≠ 0x3F :=
    fun c hcm => hostChar_facts c (hlt c hcm) (hc c hcm).1
  refine ⟨hne', fun c hcm => ⟨(hf c hcm).1, (hf c hcm).2.1⟩, ?_, hlt⟩
  unfold uncBad
  rw [if_pos rfl]
  split
  · rename_i a he
    have h1 := (hf a (by rw [he]; simp)).2.2
    have h2 : a ≠ 0x2E := fun e => hdot (by rw [he, e])
    simp [h1, h2]
  · rename_i a b he
    cases hd : Impl.isWindowsDrive a b with
    | false => rfl
    | true =>
      exfalso
      obtain ⟨ha, hb⟩ := (isWindowsDrive_iff a b).1 hd
      rcases hb with rfl | rfl
      · rw [he] at hcolon
        have ha' : a ≠ 0x5B := by
          intro e; subst e; simp [isAlpha] at ha
        simp [C02.hostColonOk, ha'] at hcolon
      · exact (hc _ (by rw [he]; simp)).2 rfl
  · rfl

theorem encR_keep (H : List Nat) (h : ∀ c ∈ H, c < 0x80 ∧ Impl.rawPathNoEnc c = true) : encR H = H := by
  induction H with
  | nil => rfl
  | cons c cs ih =>
    unfold encR at ih ⊢
    rw [percentEncode_ascii_noenc _ _ _ (h c List.mem_cons_self).1 (h c List.mem_cons_self).2,
      ih (fun x hx => h x (List.mem_cons_of_mem _ hx))]

theorem encR_ne_nil (host : List Nat) (hne : host ≠ []) : encR host ≠ [] := by
  cases host with
  | nil => exact absurd rfl hne
  | cons c cs =>
    unfold encR
    rw [percentEncode_cons]
    intro e
    have := congrArg List.length e
    simp only [List.length_append, List.length_nil] at this
    have h3 := pctEncodeChar_len c
    split at this
    · omega
    · split at this <;> simp [pctByte] at this

/-- the Windows split of the normal form's pointer -/
theorem split_uncNorm (H w0 : List Nat) (W' : List (List Nat)) (hH : HostTextOk H) (hW : UncSegs w0 W') :
    winClassify (0x5C :: 0x5C :: (H ++ joinBs (w0 :: W'))) = (H ++ 0x5C :: (w0 ++ joinBs W'), true) ∧
    splitOnP Impl.isWindowsSlash (H ++ 0x5C :: (w0 ++ joinBs W')) = H :: w0 :: W' := by
  have hcl := goodTail_clean W' hW.tail
  refine ⟨winClassify_unc H _ hH, ?_⟩
  have hrs : joinBs W' = [] ∨ ∃ x r', joinBs W' = x :: r' ∧ Impl.isWindowsSlash x = true := by
    rcases joinBs_shape W' with h | ⟨r, h⟩
    · left; exact h
    · right; exact ⟨0x5C, r, h, by decide⟩
  rw [split_pointer H 0x5C w0 (joinBs W') hH.clean hW.clean (by decide) hrs, uncRest_joinBs W' hcl]

end Upa.Proofs.C17
