import Upa.Proofs.Ipv6Parse
/-
  Helper lemmas for C12: the code-shaped IPv6 parser (suffix based) simulates the Standard's
  pointer machine.
-/
set_option linter.unusedSimpArgs false
set_option linter.unusedVariables false

namespace Upa.Proofs.V6
open Upa

/-! ### pointer ↔ remaining suffix -/

theorem cAt_of_drop_cons (inp : List Nat) (p c : Nat) (r : List Nat) (h : inp.drop p = c :: r) :
    Spec.cAt inp p = some c ∧ inp.drop (p + 1) = r ∧ p < inp.length := by
  have h1 : (inp.drop p)[0]? = inp[p + 0]? := List.getElem?_drop
  rw [h] at h1
  have h2 : (inp.drop p).drop 1 = r := by rw [h]; rfl
  rw [List.drop_drop] at h2
  have h3 : p < inp.length := by
    apply Classical.byContradiction
    intro hn
    rw [List.drop_of_length_le (by omega)] at h
    cases h
  refine ⟨by simpa [Spec.cAt] using h1.symm, ?_, h3⟩
  rw [← h2]

theorem cAt_of_drop_nil (inp : List Nat) (p : Nat) (h : inp.drop p = []) : Spec.cAt inp p = none := by
  have : inp.length ≤ p := by simpa using h
  simp [Spec.cAt, this]

theorem len_le_of_drop_nil (inp : List Nat) (p : Nat) (h : inp.drop p = []) : inp.length ≤ p := by
  simpa using h

/-! ### the bounded hex read -/

theorem hex_sim (inp : List Nat) : ∀ (max f p v l : Nat), max < f → l + max = 4 →
    ∃ q, Spec.ipv6Loop.hex inp f p v l =
        (q, (Impl.getHexNumber max (inp.drop p) v l).1, (Impl.getHexNumber max (inp.drop p) v l).2.1) ∧
      (Impl.getHexNumber max (inp.drop p) v l).2.2 = inp.drop q ∧
      q + l = p + (Impl.getHexNumber max (inp.drop p) v l).2.1 ∧ (p ≤ inp.length → q ≤ inp.length) := by
  intro max
  induction max with
  | zero =>
    intro f p v l hf hl
    obtain ⟨f', rfl⟩ : ∃ f', f = f' + 1 := ⟨f - 1, by omega⟩
    refine ⟨p, ?_, by simp [Impl.getHexNumber], by simp [Impl.getHexNumber], fun h => h⟩
    have : ¬ l < 4 := by omega
    rw [Spec.ipv6Loop.hex.eq_2]
    cases Spec.cAt inp p <;> simp [Impl.getHexNumber, this]
  | succ m ih =>
    intro f p v l hf hl
    obtain ⟨f', rfl⟩ : ∃ f', f = f' + 1 := ⟨f - 1, by omega⟩
    rw [Spec.ipv6Loop.hex.eq_2]
    cases hd : inp.drop p with
    | nil =>
      rw [cAt_of_drop_nil inp p hd]
      exact ⟨p, by simp [Impl.getHexNumber], by simp [Impl.getHexNumber, hd], by simp [Impl.getHexNumber],
        fun h => h⟩
    | cons c r =>
      obtain ⟨hc, hr, hlt⟩ := cAt_of_drop_cons inp p c r hd
      rw [hc]
      simp only
      by_cases hx : isHex c = true
      · have hl4 : l < 4 := by omega
        rw [Impl.getHexNumber, if_pos hx, if_pos ⟨hl4, hx⟩]
        obtain ⟨q, h1, h2, h3, h4⟩ := ih f' (p + 1) (v * 0x10 + hexVal c) (l + 1) (by omega) (by omega)
        rw [hr] at h1 h2 h3
        exact ⟨q, h1, h2, by omega, fun _ => h4 (by omega)⟩
      · rw [Impl.getHexNumber, if_neg hx, if_neg (by simp [hx])]
        exact ⟨p, rfl, hd.symm, rfl, fun h => h⟩

/-! ### the digit loop of the IPv4 tail -/

theorem digits_sim (inp : List Nat) : ∀ (l : List Nat) (f p v : Nat), inp.drop p = l → l.length < f →
    (Impl.v6Digits l v = none → Spec.ipv6V4Part.digits inp f p (some v) = none) ∧
    (∀ x rest, Impl.v6Digits l v = some (x, rest) →
      ∃ q, Spec.ipv6V4Part.digits inp f p (some v) = some (x, q) ∧ rest = inp.drop q ∧ p ≤ q ∧
        (p ≤ inp.length → q ≤ inp.length)) := by
  intro l
  induction l with
  | nil =>
    intro f p v hd hf
    obtain ⟨f', rfl⟩ : ∃ f', f = f' + 1 := ⟨f - 1, by omega⟩
    rw [Spec.ipv6V4Part.digits.eq_2, cAt_of_drop_nil inp p hd]
    constructor
    · intro h; simp [Impl.v6Digits] at h
    · intro x rest h
      simp [Impl.v6Digits] at h
      obtain ⟨rfl, rfl⟩ := h
      exact ⟨p, rfl, hd.symm, Nat.le_refl _, fun h => h⟩
  | cons d r ih =>
    intro f p v hd hf
    obtain ⟨f', rfl⟩ : ∃ f', f = f' + 1 := ⟨f - 1, by omega⟩
    obtain ⟨hc, hr, hlt⟩ := cAt_of_drop_cons inp p d r hd
    rw [Spec.ipv6V4Part.digits.eq_2, hc, Impl.v6Digits]
    simp only
    by_cases hdig : isDigit d = true
    · simp only [hdig, if_true]
      cases v with
      | zero => simp
      | succ v' =>
        simp only [Nat.succ_ne_zero, if_false, Nat.add_one_ne_zero]
        by_cases hgt : (v' + 1) * 10 + (d - 0x30) > 255
        · simp [hgt]
        · simp only [hgt, if_false]
          obtain ⟨i1, i2⟩ := ih f' (p + 1) ((v' + 1) * 10 + (d - 0x30)) hr (by simp at hf; omega)
          refine ⟨i1, ?_⟩
          intro x rest h
          obtain ⟨q, h1, h2, h3, h4⟩ := i2 x rest h
          exact ⟨q, h1, h2, by omega, fun _ => h4 (by omega)⟩
    · simp only [hdig, if_false]
      constructor
      · intro h; simp at h
      · intro x rest h
        simp at h
        obtain ⟨rfl, rfl⟩ := h
        exact ⟨p, rfl, hd.symm, Nat.le_refl _, fun h => h⟩


/-! ### state correspondence -/

def toSpec (st : Impl.V6St) : Spec.V6 :=
  { addr := st.address, pieceIndex := st.pieceIndex,
    compress := if st.compress = 0 then none else some st.compress }

/-- Standard-side state after one dotted number -/
def spV4 (st : Spec.V6) (v ns' : Nat) : Spec.V6 :=
  { addr := st.addr.set st.pieceIndex (st.addr.getD st.pieceIndex 0 * 0x100 + v),
    pieceIndex := if ns' = 2 ∨ ns' = 4 then st.pieceIndex + 1 else st.pieceIndex,
    compress := st.compress }

theorem specV4_step (inp : List Nat) (f p ns : Nat) (st : Spec.V6) (c : Nat) (hc : Spec.cAt inp p = some c) :
    Spec.ipv6V4Part inp (f + 1) p ns st =
      match (if ns > 0 then (if c = 0x2E ∧ ns < 4 then some (p + 1) else none) else some p) with
      | none => none
      | some p' =>
        match Spec.cAt inp p' with
        | none => none
        | some d =>
          if !isDigit d then none
          else match Spec.ipv6V4Part.digits inp (inp.length + 1) p' none with
            | none => none
            | some (v, q) => Spec.ipv6V4Part inp f q (ns + 1) (spV4 st v (ns + 1)) := by
  rw [Spec.ipv6V4Part.eq_2, hc]
  simp only [spV4]
  generalize (if ns > 0 then (if c = 0x2E ∧ ns < 4 then some (p + 1) else none) else some p) = q
  cases q with
  | none => rfl
  | some p' =>
    simp only
    cases Spec.cAt inp p' with
    | none => rfl
    | some d =>
      simp only
      by_cases hd : (!isDigit d) = true
      · simp only [hd, if_true]
      · simp only [hd, if_false]
        cases Spec.ipv6V4Part.digits inp (inp.length + 1) p' none with
        | none => rfl
        | some pr =>
          obtain ⟨v, q⟩ := pr
          simp only
          by_cases hp : ns + 1 = 2 ∨ ns + 1 = 4
          · simp only [hp, if_true]
          · simp only [hp, if_false]

theorem toSpec_stV4 (st : Impl.V6St) (piece ns : Nat) (hz : V4Z ns st) (hp : piece ≤ 255) (hns : ns + 1 ≤ 4) :
    toSpec (stV4 st piece (ns + 1)) = spV4 (toSpec st) piece (ns + 1) := by
  have hv := (V4Z_value ns st piece hz hp).1
  have e : (ns + 1) % 2 = 0 ↔ (ns + 1 = 2 ∨ ns + 1 = 4) := by omega
  simp only [toSpec, stV4, spV4, Nat.mod_eq_of_lt hv, e]

theorem sim_v4 (inp : List Nat) : ∀ (f1 f2 p ns : Nat) (st : Impl.V6St),
    p ≤ inp.length → inp.length - p < f1 → inp.length - p < f2 → ns ≤ 4 → V4Z ns st →
    (Impl.v6V4Loop f1 (inp.drop p) ns st).map toSpec = Spec.ipv6V4Part inp f2 p ns (toSpec st) := by
  intro f1
  induction f1 with
  | zero => intro f2 p ns st _ h; omega
  | succ f1 ih =>
    intro f2 p ns st hp hf1 hf2 hns hz
    obtain ⟨f2, rfl⟩ : ∃ f', f2 = f' + 1 := ⟨f2 - 1, by omega⟩
    cases hd : inp.drop p with
    | nil =>
      rw [Spec.ipv6V4Part.eq_2, cAt_of_drop_nil inp p hd]
      by_cases h4 : ns = 4 <;> simp [Impl.v6V4Loop, h4]
    | cons c r =>
      obtain ⟨hc, hr, hlt⟩ := cAt_of_drop_cons inp p c r hd
      rw [v4Loop_step, specV4_step inp f2 p ns (toSpec st) c hc]
      -- determine the position of the first digit
      have key : ∀ (p' : Nat) (l' : List Nat), inp.drop p' = l' → p ≤ p' → p' ≤ inp.length → ns + 1 ≤ 4 →
          (match (some l' : Option (List Nat)) with
            | none => none
            | some [] => none
            | some (d :: r') =>
              if !isDigit d then none
              else match Impl.v6Digits r' (d - 0x30) with
                | none => none
                | some (piece, rest) => Impl.v6V4Loop f1 rest (ns + 1) (stV4 st piece (ns + 1))).map toSpec =
          (match (some p' : Option Nat) with
            | none => none
            | some p' =>
              match Spec.cAt inp p' with
              | none => none
              | some d =>
                if !isDigit d then none
                else match Spec.ipv6V4Part.digits inp (inp.length + 1) p' none with
                  | none => none
                  | some (v, q) => Spec.ipv6V4Part inp f2 q (ns + 1) (spV4 (toSpec st) v (ns + 1))) := by
        intro p' l' hd' hpp' hp'len hns1
        simp only
        cases l' with
        | nil => rw [cAt_of_drop_nil inp p' hd']; rfl
        | cons d r' =>
          obtain ⟨hc', hr', hlt'⟩ := cAt_of_drop_cons inp p' d r' hd'
          rw [hc']
          simp only
          by_cases hdig : (!isDigit d) = true
          · simp only [hdig, if_true]; rfl
          · simp only [hdig, if_false]
            have hdig' : isDigit d = true := by simpa using hdig
            have hle : d - 0x30 ≤ 255 := by simp [isDigit] at hdig'; omega
            have hfirst : Spec.ipv6V4Part.digits inp (inp.length + 1) p' none =
                Spec.ipv6V4Part.digits inp inp.length (p' + 1) (some (d - 0x30)) := by
              rw [Spec.ipv6V4Part.digits.eq_2, hc']
              simp only [hdig', if_true]
            rw [hfirst]
            obtain ⟨i1, i2⟩ := digits_sim inp r' inp.length (p' + 1) (d - 0x30) hr'
              (by rw [← hr']; simp; omega)
            cases hdg : Impl.v6Digits r' (d - 0x30) with
            | none => rw [i1 hdg]; rfl
            | some pr =>
              obtain ⟨piece, rest⟩ := pr
              obtain ⟨q, h1, h2, h3, h4⟩ := i2 piece rest hdg
              rw [h1]
              simp only [Bool.false_eq_true, if_false]
              have hpiece := (v6Digits_le _ _ _ _ hle hdg).1
              rw [h2, ih f2 q (ns + 1) (stV4 st piece (ns + 1)) (h4 (by omega)) (by omega) (by omega) hns1
                (V4Z_step ns st piece hz hpiece), toSpec_stV4 st piece ns hz hpiece hns1]
      by_cases h0 : ns > 0
      · simp only [h0, if_true]
        by_cases hdot : c = 0x2E ∧ ns < 4
        · simp only [hdot, and_self, if_true]
          exact key (p + 1) r hr (by omega) (by omega) (by omega)
        · simp only [hdot, if_false]; rfl
      · simp only [h0, if_false]
        exact key p (c :: r) hd (Nat.le_refl _) hp (by omega)


/-! ### the main loop -/

def spPut (st : Spec.V6) (value : Nat) : Spec.V6 :=
  { st with addr := st.addr.set st.pieceIndex value, pieceIndex := st.pieceIndex + 1 }

def spCompress (st : Spec.V6) : Spec.V6 :=
  { st with pieceIndex := st.pieceIndex + 1, compress := some (st.pieceIndex + 1) }

theorem specLoop_step (inp : List Nat) (f p : Nat) (st : Spec.V6) (c q value length : Nat)
    (hc : Spec.cAt inp p = some c) (hh : Spec.ipv6Loop.hex inp 5 p 0 0 = (q, value, length)) :
    Spec.ipv6Loop inp (f + 1) p st =
      if st.pieceIndex = 8 then none
      else if c = 0x3A then
        (if st.compress.isSome then none else Spec.ipv6Loop inp f (p + 1) (spCompress st))
      else match Spec.cAt inp q with
        | none => Spec.ipv6Loop inp f q (spPut st value)
        | some ch =>
          if ch = 0x2E then
            (if length = 0 then none
             else if st.pieceIndex > 6 then none
             else Spec.ipv6V4Part inp (inp.length + 2) (q - length) 0 st)
          else if ch = 0x3A then
            (if (Spec.cAt inp (q + 1)).isNone then none else Spec.ipv6Loop inp f (q + 1) (spPut st value))
          else none := by
  rw [Spec.ipv6Loop.eq_2, hc]
  simp only [hh]
  by_cases h8 : st.pieceIndex = 8
  · simp only [h8, if_true]
  · simp only [h8, if_false]
    by_cases hcol : c = 0x3A
    · simp only [hcol, if_true]; rfl
    · simp only [hcol, if_false]
      cases hq : Spec.cAt inp q with
      | none => rfl
      | some ch =>
        by_cases h1 : ch = 0x2E
        · subst h1; rfl
        · by_cases h2 : ch = 0x3A
          · subst h2; rfl
          · simp only [h1, h2, if_false]

theorem toSpec_stPut (st : Impl.V6St) (v : Nat) : toSpec (stPut st v) = spPut (toSpec st) v := rfl

theorem toSpec_stCompress (st : Impl.V6St) : toSpec (stCompress st) = spCompress (toSpec st) := by
  simp [toSpec, stCompress, spCompress]

theorem sim_main (inp : List Nat) (F : Nat) (hF : inp.length < F) : ∀ (f1 f2 p : Nat) (st : Impl.V6St),
    p ≤ inp.length → inp.length - p < f1 → inp.length - p < f2 → ZerosFrom st.address st.pieceIndex →
    (implV4 F (Impl.v6MainLoop f1 (inp.drop p) st)).map toSpec = Spec.ipv6Loop inp f2 p (toSpec st) := by
  intro f1
  induction f1 with
  | zero => intro f2 p st _ h; omega
  | succ f1 ih =>
    intro f2 p st hp hf1 hf2 hz
    obtain ⟨f2, rfl⟩ : ∃ f', f2 = f' + 1 := ⟨f2 - 1, by omega⟩
    cases hd : inp.drop p with
    | nil =>
      rw [Spec.ipv6Loop.eq_2, cAt_of_drop_nil inp p hd]
      simp [Impl.v6MainLoop, implV4]
    | cons c r =>
      obtain ⟨hc, hr, hlt⟩ := cAt_of_drop_cons inp p c r hd
      obtain ⟨q, h1, h2, h3, h4⟩ := hex_sim inp 4 5 p 0 0 (by omega) (by omega)
      rw [hd] at h1 h2 h3
      generalize hg : Impl.getHexNumber 4 (c :: r) 0 0 = g at h1 h2 h3
      obtain ⟨value, n, p'⟩ := g
      simp only at h1 h2 h3
      have hq := h4 hp
      rw [mainLoop_step f1 c r st value n p' hg, specLoop_step inp f2 p (toSpec st) c q value n hc h1]
      have e8 : (toSpec st).pieceIndex = st.pieceIndex := rfl
      rw [e8]
      by_cases h8 : st.pieceIndex = 8
      · simp only [h8, if_true]; rfl
      · simp only [h8, if_false]
        have hzput : ZerosFrom (stPut st value).address (stPut st value).pieceIndex :=
          ZerosFrom_set _ _ _ hz
        by_cases hcol : c = 0x3A
        · simp only [hcol, if_true]
          by_cases hcm : st.compress = 0
          · have : (toSpec st).compress.isSome = false := by simp [toSpec, hcm]
            simp only [hcm, this, ne_eq, not_true, if_false, Bool.false_eq_true]
            rw [← hr, ih f2 (p + 1) (stCompress st) (by omega) (by omega) (by omega)
              (fun j hj => hz j (by simp [stCompress] at hj; omega)), toSpec_stCompress]
          · have : (toSpec st).compress.isSome = true := by simp [toSpec, hcm]
            simp only [hcm, this, ne_eq, not_false_eq_true, if_true]; rfl
        · simp only [hcol, if_false]
          cases p' with
          | nil =>
            have hqlen := len_le_of_drop_nil inp q h2.symm
            rw [cAt_of_drop_nil inp q h2.symm]
            simp only
            have : ([] : List Nat) = inp.drop q := h2
            rw [this, ih f2 q (stPut st value) hq (by omega) (by omega) hzput, toSpec_stPut]
          | cons ch p1 =>
            obtain ⟨hc', hr', hlt'⟩ := cAt_of_drop_cons inp q ch p1 h2.symm
            rw [hc']
            simp only
            by_cases hdot : ch = 0x2E
            · simp only [hdot, if_true]
              by_cases hn : n = 0
              · simp only [hn, if_true]; rfl
              · simp only [hn, if_false]
                simp only [implV4]
                have hqn : q - n = p := by omega
                by_cases h6 : st.pieceIndex > 6
                · simp only [h6, if_true]; rfl
                · simp only [h6, if_false]
                  rw [hqn, ← hd]
                  exact sim_v4 inp F (inp.length + 2) p 0 st hp (by omega) (by omega) (by omega)
                    ⟨fun _ => hz, fun h => by omega⟩
            · simp only [hdot, if_false]
              by_cases hcol' : ch = 0x3A
              · simp only [hcol', if_true]
                cases p1 with
                | nil =>
                  rw [cAt_of_drop_nil inp (q + 1) hr']
                  simp; rfl
                | cons c2 p2 =>
                  obtain ⟨hc2, _, hlt2⟩ := cAt_of_drop_cons inp (q + 1) c2 p2 hr'
                  rw [hc2]
                  simp only [List.cons_ne_nil, if_false, Option.isNone_some, Bool.false_eq_true, reduceCtorEq]
                  rw [← hr', ih f2 (q + 1) (stPut st value) (by omega) (by omega) (by omega) hzput,
                    toSpec_stPut]
              · simp only [hcol', if_false]; rfl


/-! ### final step: the C++ shift loop against the Standard's swap loop -/

theorem set_getD_self (l : List Nat) (i : Nat) : l.set i (l.getD i 0) = l := by
  apply List.ext_getElem?
  intro j
  rw [List.getElem?_set, List.getD_eq_getElem?_getD]
  by_cases h : i = j
  · subst h
    by_cases h2 : i < l.length <;> simp [h2]
  · simp [h]

theorem swapAt_self (l : List Nat) (i : Nat) : Spec.swapAt l i i = l := by
  unfold Spec.swapAt
  rw [set_getD_self, set_getD_self]

theorem swaps_self (c : Nat) : ∀ (k P : Nat) (a : List Nat), P + 1 = c + k → Spec.ipv6Swaps c P k a = a := by
  intro k
  induction k with
  | zero => intro P a _; cases P <;> rfl
  | succ k ih =>
    intro P a h
    cases P with
    | zero => rfl
    | succ P =>
      rw [Spec.ipv6Swaps]
      have e : c + (k + 1) - 1 = P + 1 := by omega
      rw [e, swapAt_self]
      exact ih P a (by omega)

theorem swaps_eq_shift (c d : Nat) : ∀ (k : Nat) (a : List Nat),
    (∀ j, c + k ≤ j → j < c + k + (d + 1) → a.getD j 0 = 0) →
    Spec.ipv6Swaps c (c + k + d) k a = Impl.v6Shift (d + 1) c k a := by
  intro k
  induction k with
  | zero => intro a _; cases (c + 0 + d) <;> rfl
  | succ k ih =>
    intro a hz
    have e1 : c + (k + 1) + d = (c + k + d) + 1 := by omega
    have e2 : c + (k + 1) - 1 = c + k := by omega
    have e3 : c + k + d + 1 = c + k + (d + 1) := by omega
    rw [e1, Spec.ipv6Swaps, Impl.v6Shift, e2, e3]
    have h0 : a.getD (c + k + (d + 1)) 0 = 0 := hz _ (by omega) (by omega)
    have hs : Spec.swapAt a (c + k + (d + 1)) (c + k) =
        (a.set (c + k + (d + 1)) (a.getD (c + k) 0)).set (c + k) 0 := by
      unfold Spec.swapAt; rw [h0]
    rw [hs]
    apply ih
    intro j hj1 hj2
    rw [getD_set]
    split
    · rfl
    · rename_i hn
      rw [getD_set, if_neg (by omega)]
      by_cases hj : j = c + k
      · have hlen : a.length ≤ j := by
          have : ¬ j < (a.set (c + k + (d + 1)) (a.getD (c + k) 0)).length := fun h => hn ⟨hj.symm, h⟩
          simpa using this
        rw [List.getD_eq_getElem?_getD, List.getElem?_eq_none hlen]
        rfl
      · exact hz j (by omega) (by omega)

def specFinal (st : Spec.V6) : Option (List Nat) :=
  match st.compress with
  | some cmp => some (Spec.ipv6Swaps cmp 7 (st.pieceIndex - cmp) st.addr)
  | none => if st.pieceIndex ≠ 8 then none else some st.addr

theorem final_eq (st : Impl.V6St) (hinv : Inv st) : implFinal st = specFinal (toSpec st) := by
  unfold implFinal specFinal toSpec
  by_cases hc : st.compress = 0
  · simp [hc]
  · have h1 := hinv.cmp
    have h2 := hinv.le8
    simp only [hc, ne_eq, not_false_eq_true, if_true, if_false]
    by_cases h8 : 8 - st.pieceIndex = 0
    · simp only [h8, not_true, if_false]
      rw [swaps_self st.compress (st.pieceIndex - st.compress) 7 st.address (by omega)]
    · simp only [h8, not_false_eq_true, if_true]
      obtain ⟨d, hd⟩ : ∃ d, 8 - st.pieceIndex = d + 1 := ⟨8 - st.pieceIndex - 1, by omega⟩
      have e7 : 7 = st.compress + (st.pieceIndex - st.compress) + d := by omega
      rw [hd]
      conv => rhs; rw [e7]
      rw [swaps_eq_shift]
      intro j hj _
      exact hinv.zeros j (by omega)


/-! ### assembling the two parsers -/

def specStart (inp : List Nat) : Option (Nat × Spec.V6) :=
  if Spec.cAt inp 0 = some 0x3A then
    (if Spec.cAt inp 1 = some 0x3A then some (2, { pieceIndex := 1, compress := some 1 }) else none)
  else some (0, {})

theorem specParse_eq (inp : List Nat) :
    Spec.ipv6Parse inp =
      (specStart inp).bind (fun ps => (Spec.ipv6Loop inp (inp.length + 2) ps.1 ps.2).bind specFinal) := by
  unfold Spec.ipv6Parse
  show (match specStart inp with
      | none => none
      | some (p, st) => _) = _
  cases specStart inp with
  | none => rfl
  | some ps =>
    obtain ⟨p, st⟩ := ps
    simp only [Option.bind]
    cases Spec.ipv6Loop inp (inp.length + 2) p st with
    | none => rfl
    | some st' =>
      simp only [specFinal]
      cases st'.compress <;> rfl

/-- start of the parse for inputs of length ≥ 2 -/
theorem start_eq (c0 c1 : Nat) (r : List Nat) :
    (implStart (c0 :: c1 :: r)).map (fun ps => (ps.1, toSpec ps.2)) =
      (specStart (c0 :: c1 :: r)).map (fun ps => ((c0 :: c1 :: r).drop ps.1, ps.2)) := by
  unfold implStart specStart
  by_cases h0 : c0 = 0x3A
  · subst h0
    by_cases h1 : c1 = 0x3A
    · subst h1; simp [Spec.cAt, toSpec]
    · simp [Spec.cAt, h1]
  · simp only [Spec.cAt, List.getElem?_cons_zero, Option.some.injEq, h0, if_false]
    split
    · rename_i heq; simp at heq; omega
    · simp [toSpec]

theorem zerosFrom_init (k : Nat) : ZerosFrom [0, 0, 0, 0, 0, 0, 0, 0] k := fun j _ => zeros8_getD j

/-- core equivalence: main loop + IPv4 tail + final step, from related starting points -/
theorem core_eq (inp : List Nat) (p : Nat) (st : Impl.V6St) (hp : p ≤ inp.length) (hinv : Inv st) :
    (implV4 (inp.length + 1) (Impl.v6MainLoop (inp.length + 1) (inp.drop p) st)).bind implFinal =
      (Spec.ipv6Loop inp (inp.length + 2) p (toSpec st)).bind specFinal := by
  rw [← sim_main inp (inp.length + 1) (by omega) (inp.length + 1) (inp.length + 2) p st hp
    (by omega) (by omega) hinv.zeros]
  cases hm : implV4 (inp.length + 1) (Impl.v6MainLoop (inp.length + 1) (inp.drop p) st) with
  | none => rfl
  | some st' =>
    have := implV4_inv _ _ _ _ _ hinv hm
    simp only [Option.map, Option.bind]
    exact final_eq st' this

theorem spec_single (c : Nat) : Spec.ipv6Parse [c] = none := by
  rw [specParse_eq]
  unfold specStart
  by_cases h0 : c = 0x3A
  · subst h0; simp [Spec.cAt]
  · have hinv : Inv ({} : Impl.V6St) :=
      ⟨by constructor <;> decide, by simp, by simp, zerosFrom_init _⟩
    have hcore := core_eq [c] 0 {} (by simp) hinv
    have e : toSpec ({} : Impl.V6St) = ({} : Spec.V6) := by simp [toSpec]
    rw [e] at hcore
    simp only [Spec.cAt, List.getElem?_cons_zero, Option.some.injEq, h0, if_false]
    show (Spec.ipv6Loop [c] ([c].length + 2) 0 {}).bind specFinal = none
    rw [← hcore]
    simp only [List.drop_zero, List.length_singleton]
    generalize hg : Impl.getHexNumber 4 [c] 0 0 = g
    obtain ⟨value, n, p'⟩ := g
    rw [mainLoop_step 1 c [] {} value n p' hg]
    simp only [Impl.getHexNumber] at hg
    by_cases hx : isHex c = true
    · simp [hx] at hg
      obtain ⟨rfl, rfl, rfl⟩ := hg
      simp [h0, Impl.v6MainLoop, implV4, implFinal, stPut]
    · simp [hx] at hg
      obtain ⟨rfl, rfl, rfl⟩ := hg
      simp [h0, implV4]

theorem parse_eq (s : List Nat) : Impl.ipv6Parse s = Spec.ipv6Parse s := by
  match s with
  | [] => rfl
  | [c] => rw [spec_single]; rfl
  | c0 :: c1 :: r =>
    rw [ipv6Parse_eq, specParse_eq, if_neg (by simp)]
    have hs := start_eq c0 c1 r
    cases hi : implStart (c0 :: c1 :: r) with
    | none =>
      rw [hi] at hs
      cases hsp : specStart (c0 :: c1 :: r) with
      | none => rfl
      | some ps => rw [hsp] at hs; simp at hs
    | some ps =>
      obtain ⟨l, st⟩ := ps
      rw [hi] at hs
      cases hsp : specStart (c0 :: c1 :: r) with
      | none => rw [hsp] at hs; simp at hs
      | some ps' =>
        obtain ⟨p, st'⟩ := ps'
        rw [hsp] at hs
        simp at hs
        obtain ⟨hl, hst⟩ := hs
        have hp : p ≤ (c0 :: c1 :: r).length := by
          unfold specStart at hsp
          split at hsp
          · split at hsp
            · simp at hsp; simp; omega
            · simp at hsp
          · simp at hsp; omega
        simp only [Option.bind]
        rw [hl, ← hst]
        exact core_eq (c0 :: c1 :: r) p st hp (implStart_inv _ _ _ hi)

end Upa.Proofs.V6
