import Upa.Impl.Bounds
/-
  Helper lemmas for C04b: a small Hoare logic for the `R` monad of `Upa/Impl/Bounds.lean`.
  `r.sat P` : `r` is `.ok v` (neither `.oob` nor `.hang`) and `P v`.
-/
namespace Upa.Impl.B

def R.sat {α : Type} (r : R α) (P : α → Prop) : Prop := ∃ v, r = .ok v ∧ P v

theorem R.sat_ok {α : Type} {v : α} {P : α → Prop} (h : P v) : (R.ok v).sat P := ⟨v, rfl, h⟩
theorem R.sat_pure {α : Type} {v : α} {P : α → Prop} (h : P v) : (pure v : R α).sat P := ⟨v, rfl, h⟩

theorem R.sat_bind {α β : Type} {x : R α} {f : α → R β} {P : α → Prop} {Q : β → Prop}
    (hx : x.sat P) (hf : ∀ v, P v → (f v).sat Q) : (x >>= f).sat Q := by
  obtain ⟨v, rfl, hv⟩ := hx
  exact hf v hv

theorem R.sat_mono {α : Type} {r : R α} {P Q : α → Prop} (h : r.sat P) (hpq : ∀ v, P v → Q v) : r.sat Q := by
  obtain ⟨v, rfl, hv⟩ := h
  exact ⟨v, rfl, hpq v hv⟩

theorem R.sat_ne_oob {α : Type} {r : R α} {P : α → Prop} (h : r.sat P) : r ≠ .oob := by
  obtain ⟨v, rfl, _⟩ := h
  intro h; cases h
theorem R.sat_ne_hang {α : Type} {r : R α} {P : α → Prop} (h : r.sat P) : r ≠ .hang := by
  obtain ⟨v, rfl, _⟩ := h
  intro h; cases h
theorem R.sat_ne_abort {α : Type} {r : R α} {P : α → Prop} (h : r.sat P) : r ≠ .abort := by
  obtain ⟨v, rfl, _⟩ := h
  intro h; cases h
theorem R.sat_ne_badptr {α : Type} {r : R α} {P : α → Prop} (h : r.sat P) : r ≠ .badptr := by
  obtain ⟨v, rfl, _⟩ := h
  intro h; cases h

/-- weak variant: a failed `assert` is tolerated (used where the assertion needs an extra hypothesis
    on the data, while the memory-safety claim does not) -/
def R.wsat {α : Type} (r : R α) (P : α → Prop) : Prop := r = .abort ∨ r.sat P

theorem R.sat.wsat {α : Type} {r : R α} {P : α → Prop} (h : r.sat P) : r.wsat P := Or.inr h
theorem R.wsat_pure {α : Type} {v : α} {P : α → Prop} (h : P v) : (pure v : R α).wsat P := Or.inr ⟨v, rfl, h⟩
theorem R.wsat_bind {α β : Type} {x : R α} {f : α → R β} {P : α → Prop} {Q : β → Prop}
    (hx : x.wsat P) (hf : ∀ v, P v → (f v).wsat Q) : (x >>= f).wsat Q := by
  rcases hx with rfl | ⟨v, rfl, hv⟩
  · exact Or.inl rfl
  · exact hf v hv
theorem R.wsat_ne_oob {α : Type} {r : R α} {P : α → Prop} (h : r.wsat P) : r ≠ .oob := by
  rcases h with rfl | h
  · intro h; cases h
  · exact R.sat_ne_oob h
theorem R.wsat_ne_hang {α : Type} {r : R α} {P : α → Prop} (h : r.wsat P) : r ≠ .hang := by
  rcases h with rfl | h
  · intro h; cases h
  · exact R.sat_ne_hang h
theorem R.wsat_ne_badptr {α : Type} {r : R α} {P : α → Prop} (h : r.wsat P) : r ≠ .badptr := by
  rcases h with rfl | h
  · intro h; cases h
  · exact R.sat_ne_badptr h

@[simp] theorem R.ok_bind {α β : Type} (v : α) (f : α → R β) : (R.ok v >>= f) = f v := rfl
@[simp] theorem R.pure_bind' {α β : Type} (v : α) (f : α → R β) : ((pure v : R α) >>= f) = f v := rfl
theorem R.pure_eq {α : Type} (v : α) : (pure v : R α) = .ok v := rfl

/-! ### accessors -/

theorem rd_ok {a : Array Nat} {first last i : Nat} (h1 : first ≤ i) (h2 : i < last) (h3 : last ≤ a.size) :
    rd a first last i = .ok a[i]! := by
  unfold rd; rw [if_pos]; omega

theorem rdPrev_ok {a : Array Nat} {first last p : Nat} (h1 : first < p) (h2 : p ≤ last) (h3 : last ≤ a.size) :
    rdPrev a first last p = .ok a[p - 1]! := by
  unfold rdPrev; rw [if_pos]; omega

theorem sub_ok {first last p e : Nat} (h1 : first ≤ p) (h2 : p ≤ e) (h3 : e ≤ last) :
    sub first last p e = .ok () := by
  unfold sub; rw [if_pos]; omega

theorem idx_ok {n i : Nat} (h : i < n) : idx n i = .ok () := by
  unfold idx; rw [if_pos h]

theorem mkptr_ok {first last p : Nat} (h1 : first ≤ p) (h2 : p ≤ last) : mkptr first last p = .ok p := by
  unfold mkptr; rw [if_pos ⟨h1, h2⟩]

theorem mkptrSub_ok {first last p k : Nat} (h1 : first + k ≤ p) (h2 : p - k ≤ last) :
    mkptrSub first last p k = .ok (p - k) := by
  unfold mkptrSub; rw [if_pos ⟨h1, h2⟩]

/-- rewrite every pointer formation whose bounds follow from the context by linear arithmetic -/
macro "psimp" : tactic => `(tactic| try simp (disch := omega) only [mkptr_ok, mkptrSub_ok, R.ok_bind])

/-- close a `(pure v).sat P` goal whose `P v` is linear arithmetic (or `True`) -/
macro "rfin" : tactic =>
  `(tactic| (psimp; exact R.sat_pure (by first | (simp only [true_and] <;> omega) | omega | exact True.intro)))

/-- side conditions of `iter_sat` (invariant holds initially, enough fuel) -/
macro "rarith" : tactic => `(tactic| first | omega | (simp only [] <;> omega))


theorem sat_rd {a : Array Nat} {first last i : Nat} (h1 : first ≤ i) (h2 : i < last) (h3 : last ≤ a.size) :
    (rd a first last i).sat (fun v => v = a[i]!) := ⟨_, rd_ok h1 h2 h3, rfl⟩

theorem Loc.rd_ok {l : Loc} {i : Nat} (h : i < l.size) : l.rd i = .ok (l.get i) := by
  unfold Loc.rd; rw [if_pos h]
theorem Loc.wr_ok {l : Loc} {i v : Nat} (h : i < l.size) :
    l.wr i v = .ok ⟨l.size, fun j => if j = i then v else l.get j⟩ := by
  unfold Loc.wr; rw [if_pos h]

/-! ### loops -/

/-- Hoare rule for `iter`: an invariant `I`, a measure `μ` that every `.inl` step decreases, and a
    postcondition `Q` that every `.inr` step establishes. -/
theorem iter_sat {σ β : Type} (step : σ → R (σ ⊕ β)) (I : σ → Prop) (μ : σ → Nat) (Q : β → Prop)
    (h : ∀ s, I s → (step s).sat (fun r => match r with
                                   | .inl s' => I s' ∧ μ s' < μ s
                                   | .inr b => Q b)) :
    ∀ fuel s, I s → μ s < fuel → (iter step fuel s).sat Q := by
  intro fuel
  induction fuel with
  | zero => intro s _ hm; omega
  | succ n ih =>
    intro s hI hm
    obtain ⟨r, hr, hp⟩ := h s hI
    cases r with
    | inl s' =>
      simp only [iter, hr]
      exact ih s' hp.1 (by have := hp.2; omega)
    | inr b =>
      simp only [iter, hr]
      exact ⟨b, rfl, hp⟩

theorem iter_wsat {σ β : Type} (step : σ → R (σ ⊕ β)) (I : σ → Prop) (μ : σ → Nat) (Q : β → Prop)
    (h : ∀ s, I s → (step s).wsat (fun r => match r with
                                    | .inl s' => I s' ∧ μ s' < μ s
                                    | .inr b => Q b)) :
    ∀ fuel s, I s → μ s < fuel → (iter step fuel s).wsat Q := by
  intro fuel
  induction fuel with
  | zero => intro s _ hm; omega
  | succ n ih =>
    intro s hI hm
    rcases h s hI with ha | ⟨r, hr, hp⟩
    · left; simp only [iter, ha]
    · cases r with
      | inl s' =>
        simp only [iter, hr]
        exact ih s' hp.1 (by have := hp.2; omega)
      | inr b =>
        simp only [iter, hr]
        exact Or.inr ⟨b, rfl, hp⟩

theorem wsat_chk (c : Prop) [Decidable c] : (chk c).wsat (fun _ => c) := by
  unfold chk
  split
  · rename_i hc; exact Or.inr ⟨(), rfl, hc⟩
  · exact Or.inl rfl

theorem findCh_sat (a : Array Nat) (first last ch : Nat) (hl : last ≤ a.size) :
    ∀ n p, first ≤ p → p + n ≤ last →
      (findCh a first last ch n p).sat (fun r => ∀ q, r = some q → p ≤ q ∧ q < p + n) := by
  intro n
  induction n with
  | zero => intro p _ _; exact R.sat_pure (by simp)
  | succ n ih =>
    intro p h1 h2
    simp only [findCh, rd_ok h1 (by omega : p < last) hl, R.ok_bind]
    split
    · exact R.sat_pure (by intro q hq; cases hq; omega)
    · exact R.sat_mono (ih (p + 1) (by omega) (by omega)) (by intro v hv q hq; have := hv q hq; omega)

theorem findIf_sat (a : Array Nat) (first last : Nat) (pred : Nat → Bool) (hl : last ≤ a.size) :
    ∀ n p, first ≤ p → p + n ≤ last →
      (findIf a first last pred n p).sat (fun q => p ≤ q ∧ q ≤ p + n) := by
  intro n
  induction n with
  | zero => intro p _ _; exact R.sat_pure (by omega)
  | succ n ih =>
    intro p h1 h2
    simp only [findIf, rd_ok h1 (by omega : p < last) hl, R.ok_bind]
    split
    · exact R.sat_pure (by omega)
    · exact R.sat_mono (ih (p + 1) (by omega) (by omega)) (by intro v hv; omega)

theorem allOf_sat (a : Array Nat) (first last : Nat) (pred : Nat → Bool) (hl : last ≤ a.size) :
    ∀ n p, first ≤ p → p + n ≤ last → (allOf a first last pred n p).sat (fun _ => True) := by
  intro n
  induction n with
  | zero => intro p _ _; exact R.sat_pure trivial
  | succ n ih =>
    intro p h1 h2
    simp only [allOf, rd_ok h1 (by omega : p < last) hl, R.ok_bind]
    split
    · exact ih (p + 1) (by omega) (by omega)
    · exact R.sat_pure trivial

/-! ### read_code_point -/

/-- what every `read_code_point` overload guarantees: it succeeds in range and advances the pointer
    by at least one unit without passing `last` -/
def ReadPost (first last : Nat) (r : Bool × Nat × Nat) : Prop := first < r.2.2 ∧ r.2.2 ≤ last

theorem u8LastTrail_sat (a : Array Nat) (first last p c f0 : Nat) (hl : last ≤ a.size)
    (h1 : first ≤ p) (h2 : p < last) (h0 : f0 < p) :
    (u8LastTrail a first last p c).sat (ReadPost f0 last) := by
  simp only [u8LastTrail, rd_ok h1 h2 hl, R.ok_bind]
  split
  · psimp; exact R.sat_pure (by simp only [ReadPost]; omega)
  · exact R.sat_pure (by simp only [ReadPost]; omega)

theorem u8SecondToLast_sat (a : Array Nat) (first last p c tmp f0 : Nat) (hl : last ≤ a.size)
    (h1 : first ≤ p) (h2 : p < last) (h0 : f0 < p) :
    (u8SecondToLast a first last p c tmp).sat (ReadPost f0 last) := by
  simp only [u8SecondToLast]
  psimp
  split
  · exact u8LastTrail_sat a first last (p + 1) _ f0 hl (by omega) (by omega) (by omega)
  · exact R.sat_pure (by simp only [ReadPost]; omega)

theorem readU8_sat (a : Array Nat) (first last : Nat) (h : first < last) (hl : last ≤ a.size) :
    (readU8 a first last).sat (ReadPost first last) := by
  have hF : ∀ x : Nat, x &&& 0xF < 16 := by
    intro x
    have : (0xF : Nat) = 2 ^ 4 - 1 := by decide
    rw [this, Nat.and_two_pow_sub_one_eq_mod]; omega
  simp only [readU8, rd_ok (Nat.le_refl _) h hl, R.ok_bind]
  psimp
  split
  · exact R.sat_pure (by simp only [ReadPost]; omega)
  split
  · exact R.sat_pure (by simp only [ReadPost]; omega)
  have hp : first + 1 < last := by omega
  split
  · split
    · simp only [idx_ok (hF _), rd_ok (by omega : first ≤ first + 1) hp hl, R.ok_bind]
      split
      · exact u8SecondToLast_sat a first last _ _ _ first hl (by omega) hp (by omega)
      · exact R.sat_pure (by simp only [ReadPost]; omega)
    · split
      · have h16 : ∀ x : Nat, (x % 256) >>> 4 < 16 := by
          intro x; rw [Nat.shiftRight_eq_div_pow]; omega
        simp only [rd_ok (by omega : first ≤ first + 1) hp hl, idx_ok (h16 _), R.ok_bind]
        split
        · psimp
          split
          · rename_i hne
            simp only [rd_ok (by omega : first ≤ first + 1 + 1) (by omega : first + 1 + 1 < last) hl, R.ok_bind]
            split
            · exact u8SecondToLast_sat a first last _ _ _ first hl (by omega) (by omega) (by omega)
            · exact R.sat_pure (by simp only [ReadPost]; omega)
          · exact R.sat_pure (by simp only [ReadPost]; omega)
        · exact R.sat_pure (by simp only [ReadPost]; omega)
      · exact R.sat_pure (by simp only [ReadPost]; omega)
  · split
    · exact u8LastTrail_sat a first last _ _ first hl (by omega) hp (by omega)
    · exact R.sat_pure (by simp only [ReadPost]; omega)

theorem readU16_sat (a : Array Nat) (first last : Nat) (h : first < last) (hl : last ≤ a.size) :
    (readU16 a first last).sat (ReadPost first last) := by
  simp only [readU16, rd_ok (Nat.le_refl _) h hl, R.ok_bind]
  psimp
  split
  · split
    · rename_i hc
      have hp : first + 1 < last := by omega
      simp only [rd_ok (by omega : first ≤ first + 1) hp hl, R.ok_bind]
      split
      · psimp; exact R.sat_pure (by simp only [ReadPost]; omega)
      · exact R.sat_pure (by simp only [ReadPost]; omega)
    · exact R.sat_pure (by simp only [ReadPost]; omega)
  · exact R.sat_pure (by simp only [ReadPost]; omega)

theorem readU32_sat (a : Array Nat) (first last : Nat) (h : first < last) (hl : last ≤ a.size) :
    (readU32 a first last).sat (ReadPost first last) := by
  simp only [readU32, rd_ok (Nat.le_refl _) h hl, R.ok_bind]
  psimp
  exact R.sat_pure (by simp only [ReadPost]; omega)

theorem readChar_sat (e : Enc) (a : Array Nat) (first last : Nat) (h : first < last) (hl : last ≤ a.size) :
    (readChar e a first last).sat (ReadPost first last) := by
  cases e
  · exact readU8_sat a first last h hl
  · exact readU16_sat a first last h hl
  · exact readU32_sat a first last h hl

theorem readUtfChar_sat (e : Enc) (a : Array Nat) (first last it : Nat) (h1 : first ≤ it) (h : it < last)
    (hl : last ≤ a.size) : (readUtfChar e a first last it).sat (fun r => it < r.2 ∧ r.2 ≤ last) := by
  simp only [readUtfChar, sub_ok h1 (Nat.le_of_lt h) (Nat.le_refl _), R.ok_bind]
  refine R.sat_bind (readChar_sat e a it last h hl) ?_
  intro ⟨ok, cp, it'⟩ hv
  exact R.sat_pure hv

theorem checkFixUtf8_sat (a : Array Nat) (first last : Nat) (h : first ≤ last) (hl : last ≤ a.size) :
    (checkFixUtf8 a first last).sat (fun _ => True) := by
  unfold checkFixUtf8
  refine R.sat_bind (iter_sat _ (fun s => first ≤ s.1 ∧ s.1 ≤ s.2 ∧ s.2 ≤ last) (fun s => last - s.2)
    (fun r => first ≤ r.1 ∧ r.1 ≤ r.2 ∧ r.2 ≤ last) ?_ _ _ ?_ ?_) ?_
  · intro ⟨ptr, it⟩ hI
    simp only at hI ⊢
    split
    · exact R.sat_pure hI
    · simp only [sub_ok (by omega : first ≤ it) (by omega : it ≤ last) (Nat.le_refl _), R.ok_bind]
      refine R.sat_bind (readU8_sat a it last (by omega) hl) ?_
      intro ⟨ok, c, it'⟩ hv
      simp only [ReadPost] at hv
      split
      · exact R.sat_pure (by simp only []; omega)
      · exact R.sat_pure (by simp only []; omega)
  · simp only []; omega
  · simp only []; omega
  · intro ⟨ptr, it⟩ hv
    simp only at hv ⊢
    split
    · simp only [sub_ok (Nat.le_refl first) hv.1 (by omega : ptr ≤ last), R.ok_bind]
      refine R.sat_bind (iter_sat _
        (fun s => first ≤ s.2.1 ∧ s.2.1 ≤ s.2.2.1 ∧ s.2.2.1 ≤ s.2.2.2 ∧ s.2.2.2 ≤ last)
        (fun s => last - s.2.2.2)
        (fun r => first ≤ r.2.1 ∧ r.2.1 ≤ r.2.2 ∧ r.2.2 ≤ last) ?_ _ _ ?_ ?_) ?_
      · intro ⟨buff, bgn, ptr, it⟩ hI
        simp only at hI ⊢
        split
        · exact R.sat_pure (by simp only []; omega)
        · simp only [sub_ok (by omega : first ≤ it) (by omega : it ≤ last) (Nat.le_refl _), R.ok_bind]
          refine R.sat_bind (readU8_sat a it last (by omega) hl) ?_
          intro ⟨ok, c, it'⟩ hv
          simp only [ReadPost] at hv
          split
          · exact R.sat_pure (by simp only []; omega)
          · simp only [sub_ok (by omega : first ≤ bgn) (by omega : bgn ≤ ptr) (by omega : ptr ≤ last), R.ok_bind]
            exact R.sat_pure (by simp only []; omega)
      · simp only []; omega
      · simp only []; omega
      · intro ⟨buff, bgn, ptr⟩ hv
        simp only at hv ⊢
        simp only [sub_ok hv.1 hv.2.1 hv.2.2, R.ok_bind]
        exact R.sat_pure trivial
    · exact R.sat_pure trivial

/-- close a `(pure v).wsat P` goal -/
macro "wfin" : tactic =>
  `(tactic| (psimp; exact R.wsat_pure (by first | (simp only [true_and] <;> omega) | omega | exact True.intro)))

/-- memory safety and termination of compare_by_code_units for arbitrary code units (the `assert` is
    dealt with in `compareByCodeUnits_sat`, Proofs/BoundsAgree.lean) -/
theorem compareByCodeUnits_wsat (a1 : Array Nat) (first1 last1 : Nat) (a2 : Array Nat) (first2 last2 : Nat)
    (h1 : first1 ≤ last1) (hl1 : last1 ≤ a1.size) (h2 : first2 ≤ last2) (hl2 : last2 ≤ a2.size) :
    (compareByCodeUnits a1 first1 last1 a2 first2 last2).wsat (fun _ => True) := by
  unfold compareByCodeUnits
  refine iter_wsat _ (fun s => first1 ≤ s.1 ∧ s.1 ≤ last1 ∧ first2 ≤ s.2 ∧ s.2 ≤ last2) (fun s => last1 - s.1)
    (fun _ => True) ?_ _ _ ?_ ?_
  · intro ⟨it1, it2⟩ hI
    simp only at hI ⊢
    split
    · rename_i hc
      simp only [rd_ok hI.1 (by omega : it1 < last1) hl1, rd_ok hI.2.2.1 (by omega : it2 < last2) hl2, R.ok_bind]
      split
      · split
        · wfin
        · wfin
      · refine R.wsat_bind (readUtfChar_sat .u8 a1 first1 last1 it1 hI.1 (by omega) hl1).wsat ?_
        intro ⟨cp1, it1'⟩ hv1
        refine R.wsat_bind (readUtfChar_sat .u8 a2 first2 last2 it2 hI.2.2.1 (by omega) hl2).wsat ?_
        intro ⟨cp2, it2'⟩ hv2
        simp only at hv1 hv2 ⊢
        split
        · wfin
        · generalize (if cp1 ≤ 0xFFFF then cp1 else (cp1 >>> 10) + 0xD7C0) = cu1
          generalize (if cp2 ≤ 0xFFFF then cp2 else (cp2 >>> 10) + 0xD7C0) = cu2
          split
          · refine R.wsat_bind (wsat_chk _) ?_
            intro _ _
            wfin
          · wfin
    · wfin
  · rarith
  · rarith

theorem decodeHexToByte_sat (a : Array Nat) (first last : Nat) (h : first ≤ last) (hl : last ≤ a.size) :
    (decodeHexToByte a first last).sat (fun r => ∀ v p, r = some (v, p) → p = first + 2 ∧ p ≤ last) := by
  unfold decodeHexToByte
  split
  · exact R.sat_pure (by simp)
  · simp only [rd_ok (Nat.le_refl first) (by omega : first < last) hl, R.ok_bind]
    split
    · exact R.sat_pure (by simp)
    · simp only [rd_ok (by omega : first ≤ first + 1) (by omega : first + 1 < last) hl, R.ok_bind]
      split
      · exact R.sat_pure (by simp)
      · simp only [idx_ok (by omega : a[first]! % 256 / 0x20 < 8), idx_ok (by omega : a[first + 1]! % 256 / 0x20 < 8),
          R.ok_bind]
        psimp
        exact R.sat_pure (by intro v p hp; cases hp; omega)

theorem pctRun_sat (a : Array Nat) (first last : Nat) (hl : last ≤ a.size) (it : Nat) (buff : List Nat)
    (h1 : first ≤ it) (h2 : it ≤ last) :
    (pctRun a first last (last - it + 1) (it, buff)).sat (fun r => it ≤ r.1 ∧ r.1 ≤ last) := by
  unfold pctRun
  refine iter_sat _ (fun s => it ≤ s.1 ∧ s.1 ≤ last) (fun s => last - s.1) _ ?_ _ _ ?_ ?_
  · intro ⟨p, b⟩ hI
    simp only at hI ⊢
    split
    · rfin
    · simp only [rd_ok (by omega : first ≤ p) (by omega : p < last) hl, R.ok_bind]
      split
      · rfin
      · psimp
        simp only [sub_ok (by omega : first ≤ p + 1) (by omega : p + 1 ≤ last) (Nat.le_refl _), R.ok_bind]
        refine R.sat_bind (decodeHexToByte_sat a (p + 1) last (by omega) hl) ?_
        intro r hr
        cases r with
        | none => rfin
        | some vp =>
          obtain ⟨v, q⟩ := vp
          have := hr v q rfl
          rfin
  · rarith
  · rarith

theorem appendPercentDecoded_sat (e : Enc) (a : Array Nat) (first last : Nat) (h : first ≤ last) (hl : last ≤ a.size) :
    (appendPercentDecoded e a first last).sat (fun _ => True) := by
  unfold appendPercentDecoded
  refine iter_sat _ (fun s => first ≤ s.1 ∧ s.1 ≤ last) (fun s => last - s.1) _ ?_ _ _ ?_ ?_
  · intro ⟨it, out⟩ hI
    simp only at hI ⊢
    split
    · rfin
    · simp only [rd_ok hI.1 (by omega : it < last) hl, R.ok_bind]
      psimp
      split
      · split
        · rfin
        · simp only [sub_ok (by omega : first ≤ it + 1) (by omega : it + 1 ≤ last) (Nat.le_refl _), R.ok_bind]
          refine R.sat_bind (decodeHexToByte_sat a (it + 1) last (by omega) hl) ?_
          intro r hr
          cases r with
          | none => rfin
          | some vp =>
            obtain ⟨v, q⟩ := vp
            have := hr v q rfl
            simp only
            split
            · rfin
            · refine R.sat_bind (pctRun_sat a first last hl q [v] (by omega) (by omega)) ?_
              intro ⟨q', buff⟩ hq
              simp only at hq ⊢
              refine R.sat_bind (checkFixUtf8_sat buff.toArray 0 buff.length (Nat.zero_le _) (by simp)) ?_
              intro fixed _
              rfin
      · psimp
        have : it + 1 - 1 = it := by omega
        rw [this]
        refine R.sat_bind (readUtfChar_sat e a first last it hI.1 (by omega) hl) ?_
        intro ⟨cp, it'⟩ hv
        exact R.sat_pure (by simp only [] at hv ⊢; omega)
  · rarith
  · rarith

theorem hasXnLabel_sat (a : Array Nat) (first last : Nat) (h : first ≤ last) (hl : last ≤ a.size) :
    (hasXnLabel a first last).sat (fun _ => True) := by
  unfold hasXnLabel
  split
  · rename_i h4
    psimp
    refine iter_sat _ (fun p => first ≤ p ∧ p ≤ last - 4) (fun p => last - p) _ ?_ _ _ ?_ ?_
    · intro p hI
      simp only [rd_ok hI.1 (by omega : p < last) hl, R.ok_bind]
      refine R.sat_bind (P := fun _ => True) ?_ ?_
      rotate_left
      · intro hit _
        split
        · rfin
        · refine R.sat_bind (findCh_sat a first last 0x2E hl (last - 4 - p) p hI.1 (by omega)) ?_
          intro r hr
          cases r with
          | none => rfin
          | some q =>
            have := hr q rfl
            rfin
      split
      · simp only [rd_ok (by omega : first ≤ p + 1) (by omega : p + 1 < last) hl, R.ok_bind]
        split
        · simp only [rd_ok (by omega : first ≤ p + 2) (by omega : p + 2 < last) hl, R.ok_bind]
          split
          · simp only [rd_ok (by omega : first ≤ p + 3) (by omega : p + 3 < last) hl, R.ok_bind]
            rfin
          · rfin
        · rfin
      · rfin
    · rarith
    · rarith
  · rfin

theorem endsInNumber_sat (a : Array Nat) (first last : Nat) (h : first ≤ last) (hl : last ≤ a.size) :
    (endsInNumber a first last).sat (fun _ => True) := by
  unfold endsInNumber
  split
  · rename_i hne
    simp only [rdPrev_ok (by omega : first < last) (Nat.le_refl _) hl, R.ok_bind]
    refine R.sat_bind (P := fun last' => first ≤ last' ∧ last' ≤ last) ?_ ?_
    · split
      · rfin
      · rfin
    intro last' hl'
    refine R.sat_bind (iter_sat _ (fun sol => first ≤ sol ∧ sol ≤ last') (fun sol => sol - first)
      (fun sol => first ≤ sol ∧ sol ≤ last') ?_ _ _ ?_ ?_) ?_
    · intro sol hI
      split
      · simp only [rdPrev_ok (by omega : first < sol) (by omega : sol ≤ last) hl, R.ok_bind]
        split
        · rfin
        · rfin
      · rfin
    · rarith
    · rarith
    · intro sol hs
      split
      · rename_i hlen
        refine R.sat_bind (P := fun b => b = true → sol + 2 ≤ last') ?_ ?_
        · split
          · simp only [rd_ok hs.1 (by omega : sol < last) hl, R.ok_bind]
            split
            · simp only [rd_ok (by omega : first ≤ sol + 1) (by omega : sol + 1 < last) hl, R.ok_bind]
              exact R.sat_pure (by intro _; omega)
            · exact R.sat_pure (by simp)
          · exact R.sat_pure (by simp)
        · intro is0x h0x
          split
          · rename_i ht
            have := h0x ht
            psimp
            simp only [sub_ok (by omega : first ≤ sol + 2) this hl'.2, R.ok_bind]
            exact allOf_sat a first last _ hl _ _ (by omega) (by omega)
          · simp only [sub_ok hs.1 hs.2 hl'.2, R.ok_bind]
            exact allOf_sat a first last _ hl _ _ hs.1 (by omega)
      · rfin
  · rfin

theorem ipv4ParseNumber_sat (a : Array Nat) (first last : Nat) (h : first ≤ last) (hl : last ≤ a.size) :
    (ipv4ParseNumber a first last).sat (fun _ => True) := by
  unfold ipv4ParseNumber
  split
  · rfin
  · simp only [rd_ok (Nat.le_refl first) (by omega : first < last) hl, R.ok_bind]
    refine R.sat_bind (P := fun pre => ∀ radix p, pre = .inr (radix, p) → first ≤ p ∧ p ≤ last) ?_ ?_
    · split
      · split
        · exact R.sat_pure (by simp)
        · simp only [rd_ok (by omega : first ≤ first + 1) (by omega : first + 1 < last) hl, R.ok_bind]
          have hrp : first ≤ (if a[first + 1]! = 0x58 ∨ a[first + 1]! = 0x78 then ((16 : Nat), first + 2)
                else (8, first + 1)).2 ∧
              (if a[first + 1]! = 0x58 ∨ a[first + 1]! = 0x78 then ((16 : Nat), first + 2) else (8, first + 1)).2 ≤ last := by
            split <;> (simp only []; omega)
          rw [mkptr_ok hrp.1 hrp.2]
          simp only [R.ok_bind]
          refine R.sat_bind (iter_sat _ (fun p => first ≤ p ∧ p ≤ last) (fun p => last - p)
            (fun p => first ≤ p ∧ p ≤ last) ?_ _ _ ?_ ?_) ?_
          · intro p hI
            split
            · simp only [rd_ok hI.1 (by omega : p < last) hl, R.ok_bind]
              split <;> rfin
            · rfin
          · split <;> rarith
          · split <;> rarith
          · intro p hp
            exact R.sat_pure (by intro r q hrq; cases hrq; exact hp)
      · exact R.sat_pure (by intro r q hrq; cases hrq; omega)
    · intro pre hpre
      cases pre with
      | inl r => rfin
      | inr rp =>
        obtain ⟨radix, p⟩ := rp
        have hp := hpre radix p rfl
        simp only
        split
        · rfin
        split
        · rfin
        refine R.sat_bind (iter_sat _ (fun s => first ≤ s.1 ∧ s.1 ≤ last) (fun s => last - s.1)
          (fun _ => True) ?_ _ _ ?_ ?_) ?_
        · intro ⟨it, num⟩ hI
          simp only at hI ⊢
          split
          · rfin
          · simp only [rd_ok hI.1 (by omega : it < last) hl, R.ok_bind]
            split
            · split <;> rfin
            · split
              · rfin
              · simp only [idx_ok (by omega : a[it]! % 256 / 0x20 < 8), R.ok_bind]
                rfin
        · rarith
        · rarith
        · intro r _
          cases r with
          | none => rfin
          | some num => simp only; split <;> rfin

/-- invariant of the `part[]` array in ipv4_parse: entries `0..dc` are pointers into `[first, it]`,
    consecutive ones are at least two apart (a non-empty part and the dot), and every entry after the
    first points just behind a dot -/
def PartInv (a : Array Nat) (first it dc : Nat) (part : Loc) : Prop :=
  dc ≤ 4 ∧ part.size = 6 ∧ (∀ k, k ≤ dc → first ≤ part.get k ∧ part.get k ≤ it) ∧
  (∀ k, k < dc → part.get k + 2 ≤ part.get (k + 1)) ∧
  (∀ k, k < dc → a[part.get (k + 1) - 1]! = 0x2E)

theorem ipv4Scan_sat (a : Array Nat) (first last : Nat) (h : first ≤ last) (hl : last ≤ a.size) :
    (ipv4Scan a first last).sat (fun r => ∀ dc part, r = some (dc, part) → PartInv a first last dc part) := by
  unfold ipv4Scan
  simp only [Loc.wr_ok (show 0 < (Loc.new 6).size by decide), R.ok_bind]
  refine iter_sat _
    (fun s => first ≤ s.1 ∧ s.1 ≤ last ∧ PartInv a first s.1 s.2.1 s.2.2)
    (fun s => last - s.1)
    (fun r => ∀ dc part, r = some (dc, part) → PartInv a first last dc part) ?_ _ _ ?_ ?_
  · intro ⟨it, dc, part⟩ hI
    simp only at hI ⊢
    obtain ⟨h1, h2, h3, h4, h5, h6, h7⟩ := hI
    split
    · rename_i hit
      refine R.sat_pure ?_
      intro dc' part' heq
      simp only [Option.some.injEq, Prod.mk.injEq] at heq
      obtain ⟨rfl, rfl⟩ := heq
      subst hit
      exact ⟨h3, h4, h5, h6, h7⟩
    · simp only [rd_ok h1 (by omega : it < last) hl, R.ok_bind]
      split
      · rename_i hdot
        split
        · exact R.sat_pure (by intro _ _ hh; cases hh)
        · simp only [Loc.rd_ok (by omega : dc < part.size), R.ok_bind]
          split
          · exact R.sat_pure (by intro _ _ hh; cases hh)
          · rename_i hd4 hpd
            psimp
            simp only [Loc.wr_ok (by omega : dc + 1 < part.size), R.ok_bind]
            refine R.sat_pure ?_
            simp only []
            refine ⟨⟨by omega, by omega, by omega, h4, ?_, ?_, ?_⟩, by omega⟩
            rotate_left 2
            · intro k hk
              simp only []
              by_cases hkd : k = dc
              · subst hkd
                simp only [if_pos, Nat.add_sub_cancel]
                exact hdot
              · have := h7 k (by omega)
                simp only [if_neg (by omega : ¬ k + 1 = dc + 1)]
                exact this
            · intro k hk
              simp only []
              split
              · omega
              · have := h5 k (by omega); omega
            · intro k hk
              simp only []
              by_cases hkd : k = dc
              · subst hkd
                have := h5 k (Nat.le_refl _)
                simp only [if_pos, if_neg (by omega : ¬ k = k + 1)]
                omega
              · have := h6 k (by omega)
                simp only [if_neg (by omega : ¬ k = dc + 1), if_neg (by omega : ¬ k + 1 = dc + 1)]
                exact this
      · split
        · exact R.sat_pure (by intro _ _ hh; cases hh)
        · psimp
          refine R.sat_pure ?_
          simp only []
          refine ⟨⟨by omega, by omega, h3, h4, ?_, h6, h7⟩, by omega⟩
          intro k hk
          have := h5 k hk; omega
  · simp only [Loc.new]
    refine ⟨Nat.le_refl _, h, by omega, rfl, ?_, ?_, ?_⟩
    · intro k hk
      have : k = 0 := by omega
      subst this; simp
    · intro k hk; omega
    · intro k hk; omega
  · rarith

theorem ipv4Combine_sat (number : Loc) (partCount : Nat) (hn : number.size = 4) (h1 : 1 ≤ partCount)
    (h4 : partCount ≤ 4) : (ipv4Combine number partCount).sat (fun _ => True) := by
  unfold ipv4Combine
  refine R.sat_bind (iter_sat _ (fun _ => True) (fun ind => partCount - ind) (fun _ => True) ?_ _ _ ?_ ?_) ?_
  · intro ind _
    split
    · simp only [Loc.rd_ok (by omega : ind < number.size), R.ok_bind]
      split <;> rfin
    · rfin
  · trivial
  · rarith
  intro big _
  split
  · rfin
  simp only [Loc.rd_ok (by omega : partCount - 1 < number.size), R.ok_bind]
  split
  · rfin
  refine R.sat_bind (iter_sat _ (fun _ => True) (fun s => partCount - s.1) (fun _ => True) ?_ _ _ ?_ ?_) ?_
  · intro ⟨counter, ipv4⟩ _
    simp only
    split
    · simp only [Loc.rd_ok (by omega : counter < number.size), R.ok_bind]
      rfin
    · rfin
  · trivial
  · rarith
  intro _ _
  rfin

theorem ipv4Parse_sat (a : Array Nat) (first last : Nat) (h : first ≤ last) (hl : last ≤ a.size) :
    (ipv4Parse a first last).sat (fun _ => True) := by
  unfold ipv4Parse
  split
  · rfin
  rename_i hne
  refine R.sat_bind (ipv4Scan_sat a first last h hl) ?_
  intro scan hscan
  cases scan with
  | none => rfin
  | some dp =>
    obtain ⟨dc, part⟩ := dp
    obtain ⟨h3, h4, h5, h6, _⟩ := hscan dc part rfl
    simp only
    refine R.sat_bind (P := fun b => b = true → dc > 0) ?_ ?_
    · split
      · simp only [Loc.rd_ok (by omega : dc < part.size), R.ok_bind]
        exact R.sat_pure (by intro _; omega)
      · exact R.sat_pure (by simp)
    intro dropLast hdrop
    generalize hpc : (if dropLast = true then dc + 1 - 1 else dc + 1) = partCount
    have hpc1 : 1 ≤ partCount ∧ partCount ≤ dc + 1 := by
      rw [← hpc]; split
      · rename_i hb; have := hdrop hb; omega
      · omega
    split
    · rfin
    rename_i hpc4
    refine R.sat_bind (iter_sat _ (fun s => s.1 ≤ partCount ∧ s.2.size = 4) (fun s => partCount - s.1)
      (fun r => ∀ number, r = some number → number.size = 4) ?_ _ _ ?_ ?_) ?_
    · intro ⟨ind, number⟩ hI
      simp only at hI ⊢
      split
      · rename_i hind
        have a1 := h5 ind (by omega)
        refine R.sat_bind (P := fun pe => part.get ind ≤ pe ∧ pe ≤ last) ?_ ?_
        · split
          · rename_i hid
            have a2 := h5 (ind + 1) (by omega)
            have a3 := h6 ind hid
            simp only [Loc.rd_ok (by omega : ind + 1 < part.size), R.ok_bind]
            psimp
            rfin
          · exact R.sat_pure ⟨a1.2, Nat.le_refl _⟩
        intro pe hpe
        simp only [Loc.rd_ok (by omega : ind < part.size), sub_ok a1.1 hpe.1 hpe.2, R.ok_bind]
        refine R.sat_bind (ipv4ParseNumber_sat a _ _ hpe.1 (by omega)) ?_
        intro r _
        cases r with
        | none => exact R.sat_pure (by intro _ hh; cases hh)
        | some n =>
          simp only [Loc.wr_ok (by omega : ind < number.size), R.ok_bind]
          refine R.sat_pure ?_
          simp only []
          omega
      · refine R.sat_pure ?_
        intro number' heq
        simp only [Option.some.injEq] at heq
        subst heq
        exact hI.2
    · exact ⟨Nat.zero_le _, rfl⟩
    · rarith
    intro numbers hnum
    cases numbers with
    | none => rfin
    | some number =>
      exact ipv4Combine_sat number partCount (hnum number rfl) hpc1.1 (by omega)

/-! ### the finding: ipv4_parse before commit b0c7a48 formed `last + 1` -/

theorem mkptr_bad {first last p : Nat} (h : last < p) : mkptr first last p = .badptr := by
  unfold mkptr; rw [if_neg]; omega

/-- whenever the old code gets past the scan and does not drop a trailing empty part, it forms the
    sentinel pointer `last + 1` -/
theorem ipv4ParseOldSentinel_badptr (a : Array Nat) (first last : Nat) (hne : first ≠ last) (h : first ≤ last)
    (hl : last ≤ a.size) (dc : Nat) (part : Loc) (hscan : ipv4Scan a first last = .ok (some (dc, part)))
    (hnd : ¬ (dc > 0 ∧ part.get dc = last)) : ipv4ParseOldSentinel a first last = .badptr := by
  obtain ⟨r, hr, hinv⟩ := ipv4Scan_sat a first last h hl
  rw [hscan] at hr
  cases hr
  obtain ⟨h3, h4, _⟩ := hinv dc part rfl
  unfold ipv4ParseOldSentinel
  rw [if_neg hne, hscan]
  simp only [R.ok_bind]
  by_cases hd : dc > 0
  · have hpd : ¬ part.get dc = last := fun he => hnd ⟨hd, he⟩
    simp only [if_pos hd, Loc.rd_ok (by omega : dc < part.size), R.ok_bind, R.pure_bind', decide_eq_true_eq,
      if_neg hpd, mkptr_bad (Nat.lt_succ_self last)]
    rfl
  · simp only [if_neg hd, R.pure_bind', Bool.false_eq_true, if_false, mkptr_bad (Nat.lt_succ_self last)]
    rfl

/-- … in particular for every input that does not end in a dot -/
theorem ipv4ParseOldSentinel_badptr_of_no_trailing_dot (a : Array Nat) (first last : Nat) (hlt : first < last)
    (hl : last ≤ a.size) (hdot : a[last - 1]! ≠ 0x2E) (dc : Nat) (part : Loc)
    (hscan : ipv4Scan a first last = .ok (some (dc, part))) : ipv4ParseOldSentinel a first last = .badptr := by
  refine ipv4ParseOldSentinel_badptr a first last (by omega) (by omega) hl dc part hscan ?_
  intro ⟨hd, he⟩
  obtain ⟨r, hr, hinv⟩ := ipv4Scan_sat a first last (by omega) hl
  rw [hscan] at hr
  cases hr
  obtain ⟨_, _, _, _, h7⟩ := hinv dc part rfl
  have := h7 (dc - 1) (by omega)
  have e : dc - 1 + 1 = dc := by omega
  rw [e, he] at this
  exact hdot this

theorem startsWithWindowsDrive_sat (a : Array Nat) (first last : Nat) (h : first ≤ last) (hl : last ≤ a.size) :
    (startsWithWindowsDrive a first last).sat (fun _ => True) := by
  unfold startsWithWindowsDrive
  refine R.sat_bind (P := fun b => b = true → last - first ≥ 2) ?_ ?_
  · split
    · exact R.sat_pure (by intro _; omega)
    · split
      · simp only [rd_ok (by omega : first ≤ first + 2) (by omega : first + 2 < last) hl, R.ok_bind]
        exact R.sat_pure (by intro _; omega)
      · exact R.sat_pure (by simp)
  · intro b hb
    split
    · rename_i ht
      have := hb ht
      simp only [rd_ok (Nat.le_refl first) (by omega : first < last) hl,
        rd_ok (by omega : first ≤ first + 1) (by omega : first + 1 < last) hl, R.ok_bind]
      rfin
    · rfin

theorem pathnameHasWindowsDrive_sat (a : Array Nat) (first last : Nat) (h : first ≤ last) (hl : last ≤ a.size) :
    (pathnameHasWindowsDrive a first last).sat (fun _ => True) := by
  unfold pathnameHasWindowsDrive
  refine R.sat_bind (P := fun b => b = true → last - first ≥ 3) ?_ ?_
  · split
    · exact R.sat_pure (by intro _; omega)
    · split
      · simp only [rd_ok (by omega : first ≤ first + 3) (by omega : first + 3 < last) hl, R.ok_bind]
        exact R.sat_pure (by intro _; omega)
      · exact R.sat_pure (by simp)
  · intro b hb
    split
    · rename_i ht
      have := hb ht
      simp only [rd_ok (Nat.le_refl first) (by omega : first < last) hl, R.ok_bind]
      split
      · simp only [rd_ok (by omega : first ≤ first + 1) (by omega : first + 1 < last) hl,
          rd_ok (by omega : first ≤ first + 2) (by omega : first + 2 < last) hl, R.ok_bind]
        rfin
      · rfin
    · rfin

theorem isWindowsDriveAbsolutePath_sat (a : Array Nat) (first last : Nat) (h : first ≤ last) (hl : last ≤ a.size) :
    (isWindowsDriveAbsolutePath a first last).sat (fun r => ∀ p, r = some p → p ≤ last) := by
  unfold isWindowsDriveAbsolutePath
  split
  · simp only [rd_ok (Nat.le_refl first) (by omega : first < last) hl,
      rd_ok (by omega : first ≤ first + 1) (by omega : first + 1 < last) hl, R.ok_bind]
    split
    · simp only [rd_ok (by omega : first ≤ first + 2) (by omega : first + 2 < last) hl, R.ok_bind]
      split
      · psimp
        exact R.sat_pure (by intro p hp; cases hp; omega)
      · exact R.sat_pure (by simp)
    · exact R.sat_pure (by simp)
  · exact R.sat_pure (by simp)

theorem hasDotDotSegment_sat (isSl : Nat → Bool) (a : Array Nat) (first last : Nat) (h : first ≤ last)
    (hl : last ≤ a.size) : (hasDotDotSegment isSl a first last).sat (fun _ => True) := by
  unfold hasDotDotSegment
  split
  · rename_i h2
    psimp
    refine iter_sat _ (fun p => first ≤ p ∧ p ≤ last - 1) (fun p => last - p) _ ?_ _ _ ?_ ?_
    · intro p hI
      refine R.sat_bind (findCh_sat a first last 0x2E hl (last - 1 - p) p hI.1 (by omega)) ?_
      intro r hr
      cases r with
      | none => rfin
      | some q =>
        have hq := hr q rfl
        simp only [rd_ok (by omega : first ≤ q + 1) (by omega : q + 1 < last) hl, R.ok_bind]
        refine R.sat_bind (P := fun _ => True) ?_ ?_
        · split
          · refine R.sat_bind (P := fun _ => True) ?_ ?_
            · split
              · rfin
              · simp only [rdPrev_ok (by omega : first < q) (by omega : q ≤ last) hl, R.ok_bind]
                rfin
            · intro left _
              split
              · split
                · rfin
                · simp only [rd_ok (by omega : first ≤ q + 2) (by omega : q + 2 < last) hl, R.ok_bind]
                  rfin
              · rfin
          · rfin
        · intro hit _
          split
          · rfin
          · psimp
            split <;> rfin
    · rarith
    · rarith
  · rfin

theorem uncBadComponent_sat (a : Array Nat) (first last start pcend count : Nat) (hl : last ≤ a.size)
    (h1 : first ≤ start) (h2 : pcend ≤ last) :
    (uncBadComponent a first last start pcend count).sat (fun _ => True) := by
  unfold uncBadComponent
  split
  · split
    · simp only [rd_ok h1 (by omega : start < last) hl, R.ok_bind]; rfin
    · split
      · simp only [rd_ok h1 (by omega : start < last) hl,
          rd_ok (by omega : first ≤ start + 1) (by omega : start + 1 < last) hl, R.ok_bind]; rfin
      · rfin
  · split
    · split
      · simp only [rd_ok h1 (by omega : start < last) hl, R.ok_bind]; rfin
      · split
        · simp only [rd_ok h1 (by omega : start < last) hl, R.ok_bind]
          split
          · simp only [rd_ok (by omega : first ≤ start + 1) (by omega : start + 1 < last) hl, R.ok_bind]; rfin
          · rfin
        · rfin
    · rfin

theorem isUncPath_sat (a : Array Nat) (first last : Nat) (h : first ≤ last) (hl : last ≤ a.size) :
    (isUncPath a first last).sat (fun r => ∀ p, r = some p → first ≤ p ∧ p ≤ last) := by
  unfold isUncPath
  refine iter_sat _ (fun s => first ≤ s.1 ∧ s.1 ≤ last ∧ ∀ p, s.2.2 = some p → first ≤ p ∧ p ≤ last)
    (fun s => last - s.1) _ ?_ _ _ ?_ ?_
  · intro ⟨start, count, eos⟩ hI
    simp only at hI ⊢
    obtain ⟨h1, h2, h3⟩ := hI
    split
    · exact R.sat_pure h3
    · simp only [sub_ok h1 h2 (Nat.le_refl _), R.ok_bind]
      refine R.sat_bind (findIf_sat a first last _ hl (last - start) start h1 (by omega)) ?_
      intro pcend hpc
      split
      · exact R.sat_pure (by simp)
      · simp only [sub_ok h1 hpc.1 (by omega : pcend ≤ last), R.ok_bind]
        refine R.sat_bind (findCh_sat a first last 0 hl (pcend - start) start h1 (by omega)) ?_
        intro r _
        cases r with
        | some _ => exact R.sat_pure (by simp)
        | none =>
          simp only
          refine R.sat_bind (uncBadComponent_sat a first last start pcend _ hl h1 (by omega)) ?_
          intro bad _
          split
          · exact R.sat_pure (by simp)
          · have he : ∀ p, (if count + 1 = 2 then some pcend else eos) = some p → first ≤ p ∧ p ≤ last := by
              intro p hp
              split at hp
              · cases hp; omega
              · exact h3 p hp
            split
            · exact R.sat_pure he
            · psimp
              exact R.sat_pure ⟨⟨by simp only []; omega, by simp only []; omega, he⟩, by simp only []; omega⟩
  · exact ⟨Nat.le_refl _, h, by simp⟩
  · rarith

theorem escapedDot_sat (a : Array Nat) (first last p : Nat) (hl : last ≤ a.size) (h1 : first ≤ p)
    (h2 : p + 3 ≤ last) : (escapedDot a first last p).sat (fun _ => True) := by
  unfold escapedDot
  simp only [rd_ok h1 (by omega : p < last) hl, R.ok_bind]
  split
  · simp only [rd_ok (by omega : first ≤ p + 1) (by omega : p + 1 < last) hl, R.ok_bind]
    split
    · simp only [rd_ok (by omega : first ≤ p + 2) (by omega : p + 2 < last) hl, R.ok_bind]; rfin
    · rfin
  · rfin

theorem doubleDot_sat (a : Array Nat) (first last : Nat) (h : first ≤ last) (hl : last ≤ a.size) :
    (doubleDot a first last).sat (fun _ => True) := by
  unfold doubleDot
  simp only []
  split
  · simp only [rd_ok (Nat.le_refl first) (by omega : first < last) hl, R.ok_bind]
    split
    · simp only [rd_ok (by omega : first ≤ first + 1) (by omega : first + 1 < last) hl, R.ok_bind]; rfin
    · rfin
  split
  · simp only [rd_ok (Nat.le_refl first) (by omega : first < last) hl, R.ok_bind]
    refine R.sat_bind (P := fun _ => True) ?_ ?_
    · split
      · psimp
        exact escapedDot_sat a first last _ hl (by omega) (by omega)
      · rfin
    · intro l _
      split
      · rfin
      · refine R.sat_bind (escapedDot_sat a first last first hl (Nat.le_refl _) (by omega)) ?_
        intro e _
        split
        · simp only [rd_ok (by omega : first ≤ first + 3) (by omega : first + 3 < last) hl, R.ok_bind]; rfin
        · rfin
  split
  · refine R.sat_bind (escapedDot_sat a first last first hl (Nat.le_refl _) (by omega)) ?_
    intro e _
    split
    · psimp
      exact escapedDot_sat a first last _ hl (by omega) (by omega)
    · rfin
  · rfin

theorem singleDot_sat (a : Array Nat) (first last : Nat) (h : first ≤ last) (hl : last ≤ a.size) :
    (singleDot a first last).sat (fun _ => True) := by
  unfold singleDot
  simp only []
  split
  · simp only [rd_ok (Nat.le_refl first) (by omega : first < last) hl, R.ok_bind]; rfin
  split
  · exact escapedDot_sat a first last first hl (Nat.le_refl _) (by omega)
  · rfin

theorem doParse_sat (remQmark : Bool) (a : Array Nat) (first last : Nat) (h : first ≤ last) (hl : last ≤ a.size) :
    (doParse remQmark a first last).sat (fun _ => True) := by
  unfold doParse
  have hfix : ∀ l : List Nat, (checkFixUtf8 l.toArray 0 l.length).sat (fun _ => True) :=
    fun l => checkFixUtf8_sat l.toArray 0 l.length (Nat.zero_le _) (by simp)
  have hflush : ∀ (start it : Nat) (name value : List Nat) (lst : List (List Nat × List Nat)),
      ((if start ≠ it then do
          let n ← checkFixUtf8 name.toArray 0 name.length
          let v ← checkFixUtf8 value.toArray 0 value.length
          pure (lst ++ [(n, v)])
        else pure lst) : R (List (List Nat × List Nat))).sat (fun _ => True) := by
    intro start it name value lst
    split
    · refine R.sat_bind (hfix name) ?_
      intro n _
      refine R.sat_bind (hfix value) ?_
      intro v _
      rfin
    · rfin
  refine R.sat_bind (P := fun b => first ≤ b ∧ b ≤ last) ?_ ?_
  · split
    · rename_i hq
      simp only [rd_ok (Nat.le_refl first) (by omega : first < last) hl, R.ok_bind]
      split <;> rfin
    · rfin
  intro b hb
  simp only []
  refine R.sat_bind (iter_sat _ (fun s => first ≤ s.1 ∧ s.1 ≤ last) (fun s => last - s.1) (fun _ => True)
    ?_ _ _ ?_ ?_) ?_
  · intro ⟨it, start, inValue, name, value, lst⟩ hI
    simp only at hI ⊢
    split
    · rfin
    simp only [rd_ok hI.1 (by omega : it < last) hl, R.ok_bind]
    split
    · split
      · rfin
      · split <;> rfin
    split
    · refine R.sat_bind (hflush start it name value lst) ?_
      intro _ _
      rfin
    split
    · split <;> rfin
    split
    · split
      · psimp
        simp only [rd_ok (by omega : first ≤ it + 1) (by omega : it + 1 < last) hl, R.ok_bind]
        psimp
        simp only [rd_ok (by omega : first ≤ it + 1 + 1) (by omega : it + 1 + 1 < last) hl, R.ok_bind]
        split
        · simp only [idx_ok (by omega : a[it + 1]! % 256 / 0x20 < 8),
            idx_ok (by omega : a[it + 1 + 1]! % 256 / 0x20 < 8), R.ok_bind]
          psimp
          split <;> rfin
        · split <;> rfin
      · split <;> rfin
    · split <;> rfin
  · rarith
  · rarith
  · intro ⟨start, name, value, lst⟩ _
    exact hflush start last name value lst

theorem getHexNumber_sat (a : Array Nat) (first last : Nat) (h : first ≤ last) (hl : last ≤ a.size) :
    (getHexNumber a first last).sat (fun r => first ≤ r.1 ∧ r.1 ≤ last) := by
  unfold getHexNumber
  refine iter_sat _ (fun s => first ≤ s.1 ∧ s.1 ≤ last) (fun s => last - s.1) _ ?_ _ _ ?_ ?_
  · intro ⟨p, value⟩ hI
    simp only at hI ⊢
    split
    · rfin
    · simp only [rd_ok hI.1 (by omega : p < last) hl, R.ok_bind]
      split
      · simp only [idx_ok (by omega : a[p]! % 256 / 0x20 < 8), R.ok_bind]
        rfin
      · rfin
  · rarith
  · rarith

theorem v6AfterHex_sat (a : Array Nat) (first last pointer0 pointer : Nat) (hl : last ≤ a.size)
    (h1 : first ≤ pointer0) (h2 : pointer0 ≤ pointer) (h3 : pointer ≤ last) (h4 : pointer0 < last) :
    (v6AfterHex a first last pointer0 pointer).sat (fun r => ∀ p, r = .go p → pointer0 < p ∧ p ≤ last) := by
  unfold v6AfterHex
  split
  · simp only [rd_ok (by omega : first ≤ pointer) (by omega : pointer < last) hl, R.ok_bind]
    split
    · split <;> exact R.sat_pure (by intro p hp; cases hp)
    · split
      · psimp
        split
        · exact R.sat_pure (by intro p hp; cases hp)
        · exact R.sat_pure (by intro p hp; cases hp; omega)
      · exact R.sat_pure (by intro p hp; cases hp)
  · exact R.sat_pure (by intro p hp; cases hp; omega)

def V6Inv (first last : Nat) (s : V6Main) : Prop :=
  first ≤ s.1 ∧ s.1 ≤ last ∧ s.2.1 ≤ 8 ∧ s.2.2.2.size = 8

theorem v6MainLoop_sat (a : Array Nat) (first last : Nat) (hl : last ≤ a.size) (st : V6Main)
    (hst : V6Inv first last st) :
    (v6MainLoop a first last 8 (last - first + 1) st).sat (fun r => ∀ s b, r = some (s, b) → V6Inv first last s) := by
  unfold v6MainLoop
  refine iter_sat _ (V6Inv first last) (fun s => last - s.1) _ ?_ _ _ hst ?_
  · intro ⟨pointer, pieceIndex, compress, address⟩ hI
    obtain ⟨h1, h2, h3, h4⟩ := hI
    simp only at h1 h2 h3 h4 ⊢
    split
    · refine R.sat_pure ?_
      intro s b hsb
      simp only [Option.some.injEq, Prod.mk.injEq] at hsb
      rw [← hsb.1]
      exact ⟨h1, h2, h3, h4⟩
    split
    · exact R.sat_pure (by intro s b hsb; cases hsb)
    rename_i hlt h8
    simp only [rd_ok h1 (by omega : pointer < last) hl, R.ok_bind]
    split
    · split
      · exact R.sat_pure (by intro s b hsb; cases hsb)
      · psimp
        exact R.sat_pure ⟨⟨by simp only []; omega, by simp only []; omega, by simp only []; omega, h4⟩,
          by simp only []; omega⟩
    · refine R.sat_bind (P := fun lim => pointer ≤ lim ∧ lim ≤ last) ?_ ?_
      · split
        · rfin
        · rfin
      intro lim hlim
      simp only [sub_ok h1 hlim.1 hlim.2, R.ok_bind]
      refine R.sat_bind (getHexNumber_sat a pointer _ hlim.1 (by omega)) ?_
      intro ⟨pointer', value⟩ hp'
      simp only at hp' ⊢
      refine R.sat_bind (v6AfterHex_sat a first last pointer pointer' hl h1 hp'.1 (by omega) (by omega)) ?_
      intro nx hnx
      cases nx with
      | fail => exact R.sat_pure (by intro s b hsb; cases hsb)
      | v4 =>
        refine R.sat_pure ?_
        intro s b hsb
        simp only [Option.some.injEq, Prod.mk.injEq] at hsb
        rw [← hsb.1]
        exact ⟨h1, h2, h3, h4⟩
      | go p'' =>
        have := hnx p'' rfl
        simp only [Loc.wr_ok (by omega : pieceIndex < address.size), R.ok_bind]
        exact R.sat_pure ⟨⟨by simp only []; omega, by simp only []; omega, by simp only []; omega, h4⟩,
          by simp only []; omega⟩
  · have := hst.1; have := hst.2.1; omega

theorem v6Digits_sat (a : Array Nat) (first last : Nat) (hl : last ≤ a.size) (p0 piece0 fuel : Nat)
    (h1 : first ≤ p0) (h2 : p0 ≤ last) (hf : last - p0 < fuel) :
    (v6Digits a first last fuel (p0, piece0)).sat
      (fun r => ∀ p piece, r = some (p, piece) → p0 ≤ p ∧ p ≤ last) := by
  unfold v6Digits
  refine iter_sat _ (fun s => p0 ≤ s.1 ∧ s.1 ≤ last) (fun s => last - s.1) _ ?_ _ _ ?_ ?_
  · intro ⟨p, piece⟩ hI
    simp only at hI ⊢
    split
    · exact R.sat_pure (by intro p' pc hh; cases hh; omega)
    · simp only [rd_ok (by omega : first ≤ p) (by omega : p < last) hl, R.ok_bind]
      split
      · split
        · exact R.sat_pure (by intro p' pc hh; cases hh)
        · split
          · exact R.sat_pure (by intro p' pc hh; cases hh)
          · rfin
      · exact R.sat_pure (by intro p' pc hh; cases hh; omega)
  · rarith
  · rarith

theorem v6V4Loop_sat (a : Array Nat) (first last : Nat) (hl : last ≤ a.size) (pointer p0 : Nat) (address : Loc)
    (h1 : first ≤ pointer) (h2 : pointer ≤ last) (h3 : p0 ≤ 6) (h4 : address.size = 8) :
    (v6V4Loop a first last (last - first + 1) (pointer, 0, p0, address)).sat
      (fun r => ∀ s, r = some s → s.2.2.1 ≤ 8 ∧ s.2.2.2.size = 8) := by
  unfold v6V4Loop
  refine iter_sat _ (fun s => first ≤ s.1 ∧ s.1 ≤ last ∧ s.2.1 ≤ 4 ∧ s.2.2.1 = p0 + s.2.1 / 2 ∧ s.2.2.2.size = 8)
    (fun s => last - s.1) _ ?_ _ _ ?_ ?_
  · intro ⟨ptr, ns, pi, addr⟩ hI
    obtain ⟨i1, i2, i3, i4, i5⟩ := hI
    simp only at i1 i2 i3 i4 i5 ⊢
    split
    · refine R.sat_pure ?_
      intro s hs
      simp only [Option.some.injEq] at hs
      rw [← hs]
      simp only []
      omega
    rename_i hlt
    refine R.sat_bind (P := fun r => ∀ p, r = some p → ptr ≤ p ∧ p ≤ last ∧ ns ≤ 3) ?_ ?_
    · split
      · simp only [rd_ok i1 (by omega : ptr < last) hl, R.ok_bind]
        split
        · psimp
          exact R.sat_pure (by intro p hp; cases hp; omega)
        · exact R.sat_pure (by intro p hp; cases hp)
      · exact R.sat_pure (by intro p hp; cases hp; omega)
    intro p? hp?
    cases p? with
    | none => exact R.sat_pure (by intro s hs; cases hs)
    | some p =>
      have hp := hp? p rfl
      simp only
      split
      · exact R.sat_pure (by intro s hs; cases hs)
      simp only [rd_ok (by omega : first ≤ p) (by omega : p < last) hl, R.ok_bind]
      split
      · exact R.sat_pure (by intro s hs; cases hs)
      psimp
      refine R.sat_bind (v6Digits_sat a first last hl (p + 1) _ _ (by omega) (by omega) (by omega)) ?_
      intro r hr
      cases r with
      | none => exact R.sat_pure (by intro s hs; cases hs)
      | some pp =>
        obtain ⟨p', piece⟩ := pp
        have := hr p' piece rfl
        simp only [Loc.rd_ok (by omega : pi < addr.size), Loc.wr_ok (by omega : pi < addr.size), R.ok_bind]
        refine R.sat_pure ?_
        simp only []
        refine ⟨⟨by omega, by omega, by omega, ?_, i5⟩, by omega⟩
        split <;> omega
  · simp only []; omega
  · rarith

theorem v6Shift_sat (diff compress pieceIndex : Nat) (address : Loc) (hc : 1 ≤ compress) (hp : pieceIndex ≤ 8)
    (hd : diff = 8 - pieceIndex) (h4 : address.size = 8) :
    (v6Shift diff compress 9 (pieceIndex - 1, address)).sat (fun _ => True) := by
  unfold v6Shift
  refine iter_sat _ (fun s => s.1 ≤ pieceIndex - 1 ∧ s.2.size = 8) (fun s => s.1) _ ?_ _ _ ?_ ?_
  · intro ⟨ind, addr⟩ hI
    simp only at hI ⊢
    split
    · simp only [Loc.rd_ok (by omega : ind < addr.size), Loc.wr_ok (by omega : ind + diff < addr.size), R.ok_bind]
      rw [Loc.wr_ok (by simp only []; omega)]
      simp only [R.ok_bind]
      refine R.sat_pure ?_
      simp only []
      omega
    · rfin
  · exact ⟨Nat.le_refl _, h4⟩
  · rarith

theorem ipv6Parse_sat (a : Array Nat) (first last : Nat) (h : first ≤ last) (hl : last ≤ a.size) :
    (ipv6Parse a first last).sat (fun _ => True) := by
  unfold ipv6Parse
  simp only []
  split
  · split
    · rfin
    · simp only [rd_ok (Nat.le_refl first) (by omega : first < last) hl, R.ok_bind]
      rfin
  simp only [rd_ok (Nat.le_refl first) (by omega : first < last) hl, R.ok_bind]
  refine R.sat_bind (P := fun r => ∀ s, r = some s → V6Inv first last s) ?_ ?_
  · split
    · simp only [rd_ok (by omega : first ≤ first + 1) (by omega : first + 1 < last) hl, R.ok_bind]
      split
      · exact R.sat_pure (by intro s hs; cases hs)
      · psimp
        refine R.sat_pure ?_
        intro s hs
        simp only [Option.some.injEq] at hs
        rw [← hs]
        exact ⟨by simp only []; omega, by simp only []; omega, by simp only []; omega, rfl⟩
    · refine R.sat_pure ?_
      intro s hs
      simp only [Option.some.injEq] at hs
      rw [← hs]
      exact ⟨by simp only []; omega, by simp only []; omega, by simp only []; omega, rfl⟩
  intro start hstart
  cases start with
  | none => rfin
  | some st =>
    simp only
    refine R.sat_bind (v6MainLoop_sat a first last hl st (hstart st rfl)) ?_
    intro r hr
    cases r with
    | none => rfin
    | some sb =>
      obtain ⟨⟨pointer, pieceIndex, compress, address⟩, isIpv4⟩ := sb
      obtain ⟨m1, m2, m3, m4⟩ := hr _ _ rfl
      simp only at m1 m2 m3 m4 ⊢
      refine R.sat_bind (P := fun r => ∀ pi ad, r = some (pi, ad) → pi ≤ 8 ∧ ad.size = 8) ?_ ?_
      · split
        · split
          · exact R.sat_pure (by intro _ _ hh; cases hh)
          · refine R.sat_bind (v6V4Loop_sat a first last hl pointer pieceIndex address m1 m2 (by omega) m4) ?_
            intro r4 hr4
            cases r4 with
            | none => exact R.sat_pure (by intro _ _ hh; cases hh)
            | some s4 =>
              obtain ⟨p4, ns4, pi4, ad4⟩ := s4
              have := hr4 _ rfl
              simp only at this ⊢
              split
              · exact R.sat_pure (by intro _ _ hh; cases hh)
              · refine R.sat_pure ?_
                intro pi ad hh
                simp only [Option.some.injEq, Prod.mk.injEq] at hh
                rw [← hh.1, ← hh.2]
                exact this
        · refine R.sat_pure ?_
          intro pi ad hh
          simp only [Option.some.injEq, Prod.mk.injEq] at hh
          rw [← hh.1, ← hh.2]
          exact ⟨m3, m4⟩
      intro tail htail
      cases tail with
      | none => rfin
      | some pa =>
        obtain ⟨pi, ad⟩ := pa
        have ht := htail pi ad rfl
        simp only
        split
        · split
          · refine R.sat_bind (v6Shift_sat _ compress pi ad (by omega) ht.1 rfl ht.2) ?_
            intro _ _
            rfin
          · rfin
        · split <;> rfin

end Upa.Impl.B
