import Upa.Spec.UrlParser
import Upa.Proofs.Percent
/-
  C01 — one path segment: the code's `Impl.pathSegment` on the RAW segment equals the Standard's
  path-state update on the PERCENT-ENCODED buffer (`segUrl`).  Pure list reasoning, no machine.
  * dot tests: `Impl.singleDot/doubleDot` (raw) vs `Spec.isSingleDot/isDoubleDot` (encoded, lower-cased),
    both characterised by `stripDot` (strip one `.` / `%2e` / `%2E` token);
  * `Spec.shorten = Impl.shortenPath`;
  * Windows drive letter quirk on the encoded buffer.
-/
namespace Upa.Proofs.C01

/-- UTF-8 percent-encode with the path percent-encode set -/
abbrev encP (s : List Nat) : List Nat := Spec.utf8PercentEncode Spec.pathSet s
abbrev encPc (c : Nat) : List Nat := Spec.utf8PercentEncodeChar Spec.pathSet c

theorem encP_nil : encP [] = [] := rfl
theorem encP_cons (c : Nat) (s : List Nat) : encP (c :: s) = encPc c ++ encP s := by
  simp [encP, encPc, Spec.utf8PercentEncode]
theorem encP_append (s t : List Nat) : encP (s ++ t) = encP s ++ encP t := by
  simp [encP, Spec.utf8PercentEncode]

/-! ## one encoded character -/

theorem hexUpper_2E (b0 : Nat) (hb : b0 < 256)
    (h : hexDigitUpper (b0 / 16) = 0x32 ∧ (hexDigitUpper (b0 % 16) = 0x65 ∨ hexDigitUpper (b0 % 16) = 0x45)) :
    b0 = 0x2E := by
  unfold hexDigitUpper at h
  obtain ⟨h1, h2⟩ := h
  split at h1 <;> split at h2 <;> omega

/-- a scalar value is either kept, or becomes `%XY…` where `XY` is not `2E`/`2e` -/
theorem encPc_cases (a : Nat) (ha : Spec.isScalar a = true) :
    (Spec.pathSet a = false ∧ encPc a = [a]) ∨
    (Spec.pathSet a = true ∧ ∃ X Y t, encPc a = 0x25 :: X :: Y :: t ∧
      ¬ (X = 0x32 ∧ (Y = 0x65 ∨ Y = 0x45))) := by
  cases hin : Spec.pathSet a
  · left; simp [encPc, Spec.utf8PercentEncodeChar, hin]
  · right
    refine ⟨rfl, ?_⟩
    have hle := C14.scalar_le a ha
    by_cases hlt : a < 0x80
    · refine ⟨hexDigitUpper (a / 16), hexDigitUpper (a % 16), [], ?_, ?_⟩
      · simp [encPc, Spec.utf8PercentEncodeChar, hin, C14.utf8EncodeChar_ascii a hlt, pctByte]
      · intro h
        have := hexUpper_2E a (by omega) h
        subst this
        revert hin; decide
    · obtain ⟨b, t, e, h1, h2, h3⟩ := C14.utf8EncodeChar_hi a (by omega) hle
      refine ⟨hexDigitUpper (b / 16), hexDigitUpper (b % 16), t.flatMap pctByte, ?_, ?_⟩
      · simp [encPc, Spec.utf8PercentEncodeChar, hin, e, pctByte]
      · intro h
        have := hexUpper_2E b (by omega) h
        omega

theorem pathSet_false_of (a : Nat)
    (h : a = 0x2E ∨ a = 0x25 ∨ a = 0x32 ∨ a = 0x65 ∨ a = 0x45 ∨ a = 0x3A ∨ a = 0x7C ∨ isAlpha a = true) :
    Spec.pathSet a = false := by
  by_cases hlt : a < 128
  · revert h; revert a; decide +kernel
  · exfalso
    simp only [isAlpha, Bool.or_eq_true, Bool.and_eq_true, decide_eq_true_eq] at h
    omega

/-! ## strip one dot token -/

def stripDot : List Nat → Option (List Nat)
  | [] => none
  | a :: r =>
    if a = 0x2E then some r
    else if a = 0x25 then
      match r with
      | b :: c :: r' => if b = 0x32 ∧ (c = 0x65 ∨ c = 0x45) then some r' else none
      | _ => none
    else none

theorem stripDot_encP : ∀ (s : List Nat), (∀ c ∈ s, Spec.isScalar c = true) →
    stripDot (encP s) = (stripDot s).map encP := by
  intro s hs
  match s, hs with
  | [], _ => rfl
  | a :: r, hs =>
    rw [encP_cons]
    rcases encPc_cases a (hs a (by simp)) with ⟨hin, e⟩ | ⟨hin, X, Y, t, e, hne⟩
    · rw [e]
      simp only [List.singleton_append, stripDot]
      by_cases h1 : a = 0x2E
      · simp [h1]
      · rw [if_neg h1, if_neg h1]
        by_cases h2 : a = 0x25
        · rw [if_pos h2, if_pos h2]
          match r, hs with
          | [], _ => rfl
          | [b], hs =>
            rw [encP_cons, encP_nil]
            rcases encPc_cases b (hs b (by simp)) with ⟨hinb, eb⟩ | ⟨hinb, Xb, Yb, tb, eb, _⟩
            · rw [eb]; rfl
            · rw [eb]; simp
          | b :: c :: r', hs =>
            rw [encP_cons, encP_cons]
            rcases encPc_cases b (hs b (by simp)) with ⟨hinb, eb⟩ | ⟨hinb, Xb, Yb, tb, eb, _⟩
            · rw [eb]
              rcases encPc_cases c (hs c (by simp)) with ⟨hinc, ec⟩ | ⟨hinc, Xc, Yc, tc, ec, _⟩
              · rw [ec]
                simp only [List.singleton_append]
                split <;> simp
              · rw [ec]
                have hc : ¬ (c = 0x65 ∨ c = 0x45) := by
                  intro h
                  have := pathSet_false_of c (by omega)
                  simp [this] at hinc
                simp [hc]
            · rw [eb]
              have hb : b ≠ 0x32 := by
                intro h
                have := pathSet_false_of b (by omega)
                simp [this] at hinb
              simp [hb]
        · rw [if_neg h2, if_neg h2]; rfl
    · rw [e]
      have h1 : a ≠ 0x2E := by
        intro h
        have := pathSet_false_of a (by omega)
        simp [this] at hin
      have h2 : a ≠ 0x25 := by
        intro h
        have := pathSet_false_of a (by omega)
        simp [this] at hin
      simp only [List.cons_append, stripDot]
      simp [h1, h2, hne]

/-! ## the dot tests -/

theorem or20 (c : Nat) : (c ||| 0x20 = 0x65) ↔ (c = 0x65 ∨ c = 0x45) := by
  by_cases h : c < 256
  · revert h; revert c; decide +kernel
  · have := @Nat.left_le_or c 0x20
    omega

theorem toLower_2E (a : Nat) : toLower a = 0x2E ↔ a = 0x2E := by unfold toLower; split <;> omega
theorem toLower_25 (a : Nat) : toLower a = 0x25 ↔ a = 0x25 := by unfold toLower; split <;> omega
theorem toLower_32 (a : Nat) : toLower a = 0x32 ↔ a = 0x32 := by unfold toLower; split <;> omega
theorem toLower_65 (a : Nat) : toLower a = 0x65 ↔ (a = 0x65 ∨ a = 0x45) := by unfold toLower; split <;> omega

theorem singleDot_iff (s : List Nat) : Impl.singleDot s = true ↔ stripDot s = some [] := by
  match s with
  | [] => simp [Impl.singleDot, stripDot]
  | [a] => simp [Impl.singleDot, stripDot]
  | [a, b] => simp [Impl.singleDot, stripDot]
  | [a, b, c] => simp [Impl.singleDot, Impl.escapedDot, stripDot, or20]; (repeat' split) <;> simp_all
  | a :: b :: c :: d :: r => simp [Impl.singleDot, stripDot]; (repeat' split) <;> simp_all


theorem doubleDot_iff (s : List Nat) : Impl.doubleDot s = true ↔ (stripDot s).bind stripDot = some [] := by
  match s with
  | [] => simp [Impl.doubleDot, stripDot]
  | [a] => simp [Impl.doubleDot, stripDot]; (repeat' split) <;> simp_all [stripDot]
  | [a, b] => simp [Impl.doubleDot, stripDot]; (repeat' split) <;> simp_all [stripDot]
  | [a, b, c] => simp [Impl.doubleDot, stripDot]; (repeat' split) <;> simp_all [stripDot]
  | [a, b, c, d] =>
    simp [Impl.doubleDot, Impl.escapedDot, stripDot, or20]
    (repeat' split) <;> simp_all [stripDot] <;> (repeat' split) <;> simp_all
  | [a, b, c, d, e] =>
    simp [Impl.doubleDot, stripDot]
    (repeat' split) <;> simp_all [stripDot] <;> (repeat' split) <;> simp_all
  | [a, b, c, d, e, f] =>
    simp [Impl.doubleDot, Impl.escapedDot, stripDot, or20]
    (repeat' split) <;> simp_all [stripDot] <;> (repeat' split) <;> simp_all
  | a :: b :: c :: d :: e :: f :: g :: r =>
    simp [Impl.doubleDot, stripDot]
    (repeat' split) <;> simp_all [stripDot] <;> (repeat' split) <;> simp_all

theorem s1 : asciiStr "." = [0x2E] := rfl
theorem s2 : asciiStr "%2e" = [0x25, 0x32, 0x65] := rfl
theorem s3 : asciiStr ".." = [0x2E, 0x2E] := rfl
theorem s4 : asciiStr ".%2e" = [0x2E, 0x25, 0x32, 0x65] := rfl
theorem s5 : asciiStr "%2e." = [0x25, 0x32, 0x65, 0x2E] := rfl
theorem s6 : asciiStr "%2e%2e" = [0x25, 0x32, 0x65, 0x25, 0x32, 0x65] := rfl

theorem isSingleDot_iff (s : List Nat) : Spec.isSingleDot s = true ↔ stripDot s = some [] := by
  unfold Spec.isSingleDot Spec.lowerStr
  rw [s1, s2]
  match s with
  | [] => simp [stripDot]
  | [a] => simp [stripDot, toLower_2E]
  | [a, b] => simp [stripDot]
  | [a, b, c] =>
    simp [stripDot, toLower_25, toLower_32, toLower_65]
    (repeat' split) <;> simp_all
  | a :: b :: c :: d :: r =>
    simp [stripDot]
    (repeat' split) <;> simp_all

theorem isDoubleDot_iff (s : List Nat) : Spec.isDoubleDot s = true ↔ (stripDot s).bind stripDot = some [] := by
  unfold Spec.isDoubleDot Spec.lowerStr
  rw [s3, s4, s5, s6]
  match s with
  | [] => simp [stripDot]
  | [a] => simp [stripDot]; (repeat' split) <;> simp_all [stripDot]
  | [a, b] => simp [stripDot, toLower_2E]; (repeat' split) <;> simp_all [stripDot]
  | [a, b, c] => simp [stripDot]; (repeat' split) <;> simp_all [stripDot]
  | [a, b, c, d] =>
    simp [stripDot, toLower_2E, toLower_25, toLower_32, toLower_65]
    (repeat' split) <;> simp_all [stripDot] <;> (repeat' split) <;> simp_all
  | [a, b, c, d, e] =>
    simp [stripDot]
    (repeat' split) <;> simp_all [stripDot] <;> (repeat' split) <;> simp_all
  | [a, b, c, d, e, f] =>
    simp [stripDot, toLower_25, toLower_32, toLower_65]
    (repeat' split) <;> simp_all [stripDot] <;> (repeat' split) <;> simp_all
  | a :: b :: c :: d :: e :: f :: g :: r =>
    simp [stripDot]
    (repeat' split) <;> simp_all [stripDot] <;> (repeat' split) <;> simp_all

theorem encPc_ne_nil (c : Nat) : encPc c ≠ [] := by
  unfold encPc Spec.utf8PercentEncodeChar
  split
  · unfold Spec.utf8EncodeChar
    (repeat' split) <;> simp [pctByte]
  · simp

theorem encP_eq_nil (r : List Nat) : encP r = [] ↔ r = [] := by
  cases r with
  | nil => simp [encP_nil]
  | cons c cs => rw [encP_cons]; simp [encPc_ne_nil]

theorem stripDot_mem {s r : List Nat} (h : stripDot s = some r) : ∀ c ∈ r, c ∈ s := by
  match s with
  | [] => simp [stripDot] at h
  | [a] => simp [stripDot] at h; obtain ⟨_, rfl⟩ := h; simp
  | [a, b] => simp [stripDot] at h; obtain ⟨_, rfl⟩ := h; simp
  | a :: b :: c :: t =>
    simp only [stripDot] at h
    (repeat' split at h) <;> simp_all
    all_goals (subst_vars; intro x hx; simp [hx])

theorem isSingleDot_encP (s : List Nat) (hs : ∀ c ∈ s, Spec.isScalar c = true) :
    Spec.isSingleDot (encP s) = Impl.singleDot s := by
  rw [Bool.eq_iff_iff, isSingleDot_iff, singleDot_iff, stripDot_encP s hs]
  cases stripDot s with
  | none => simp
  | some r => simp [encP_eq_nil]

theorem isDoubleDot_encP (s : List Nat) (hs : ∀ c ∈ s, Spec.isScalar c = true) :
    Spec.isDoubleDot (encP s) = Impl.doubleDot s := by
  rw [Bool.eq_iff_iff, isDoubleDot_iff, doubleDot_iff, stripDot_encP s hs]
  cases h : stripDot s with
  | none => simp
  | some r =>
    simp only [Option.map_some, Option.bind_some]
    rw [stripDot_encP r (fun c hc => hs c (stripDot_mem h c hc))]
    cases stripDot r with
    | none => simp
    | some r' => simp [encP_eq_nil]

/-! ## shorten a URL's path -/

theorem normDrive_eq (seg : List Nat) :
    Spec.isNormalizedWindowsDriveLetter seg =
      (match seg with | [a, b] => Impl.isNormalizedWindowsDrive a b | _ => false) := by
  unfold Spec.isNormalizedWindowsDriveLetter
  split <;> simp [Impl.isNormalizedWindowsDrive]

theorem shorten_eq (u : Url) : Spec.shorten u = Impl.shortenPath u := by
  unfold Spec.shorten Impl.shortenPath
  obtain ⟨sc, us, pw, h, po, op, opp, path, q, f⟩ := u
  match path with
  | [] => simp
  | [seg] =>
    simp only [List.length_cons, List.length_nil, List.head?_cons, normDrive_eq, Url.isFile, Impl.isFileScheme]
    by_cases hs : sc = Impl.sFile
    · simp [hs]; rfl
    · simp [hs]
  | a :: b :: t => simp

/-! ## Windows drive letter on the encoded buffer -/

theorem winDrive_eq (seg : List Nat) :
    Spec.isWindowsDriveLetter seg = (match seg with | [a, b] => Impl.isWindowsDrive a b | _ => false) := by
  unfold Spec.isWindowsDriveLetter
  split <;> simp [Impl.isWindowsDrive]

theorem winDrive_encP (s : List Nat) (hs : ∀ c ∈ s, Spec.isScalar c = true) :
    Spec.isWindowsDriveLetter (encP s) = Spec.isWindowsDriveLetter s ∧
    (Spec.isWindowsDriveLetter s = true → encP s = s) := by
  match s, hs with
  | [], _ => exact ⟨rfl, fun _ => rfl⟩
  | [a], hs =>
    rw [encP_cons, encP_nil]
    rcases encPc_cases a (hs a (by simp)) with ⟨_, e⟩ | ⟨_, X, Y, t, e, _⟩
    · rw [e]; simp
    · rw [e]; simp [Spec.isWindowsDriveLetter]
  | [a, b], hs =>
    rw [encP_cons, encP_cons, encP_nil]
    rcases encPc_cases a (hs a (by simp)) with ⟨_, e⟩ | ⟨hina, X, Y, t, e, _⟩
    · rw [e]
      rcases encPc_cases b (hs b (by simp)) with ⟨_, eb⟩ | ⟨hinb, Xb, Yb, tb, eb, _⟩
      · rw [eb]; simp
      · rw [eb]
        have hb : ¬ (b = 0x3A ∨ b = 0x7C) := by
          intro h
          have := pathSet_false_of b (by omega)
          simp [this] at hinb
        simp [Spec.isWindowsDriveLetter]
        omega
    · rw [e]
      have ha : isAlpha a = false := by
        cases h : isAlpha a
        · rfl
        · have := pathSet_false_of a (by simp [h])
          simp [this] at hina
      simp [Spec.isWindowsDriveLetter, ha]
  | a :: b :: c :: r, hs =>
    rw [encP_cons, encP_cons, encP_cons]
    obtain ⟨x, tx, ex⟩ := List.exists_cons_of_ne_nil (encPc_ne_nil a)
    obtain ⟨y, ty, ey⟩ := List.exists_cons_of_ne_nil (encPc_ne_nil b)
    obtain ⟨z, tz, ez⟩ := List.exists_cons_of_ne_nil (encPc_ne_nil c)
    rw [ex, ey, ez]
    cases tx <;> cases ty <;> simp [Spec.isWindowsDriveLetter]

/-! ## one path segment -/

/-- the URL update of the Standard's path state when a segment ends (`isSep`: ended by a separator) -/
def segUrl (url : Url) (buffer : List Nat) (isSep : Bool) : Url :=
  if Spec.isDoubleDot buffer then
    let url := Spec.shorten url
    if !isSep then { url with path := url.path ++ [[]] } else url
  else if Spec.isSingleDot buffer ∧ !isSep then { url with path := url.path ++ [[]] }
  else if !Spec.isSingleDot buffer then
    let buffer :=
      if url.scheme = Impl.sFile ∧ url.path = [] ∧ Spec.isWindowsDriveLetter buffer then
        [buffer.head!, 0x3A] else buffer
    { url with path := url.path ++ [buffer] }
  else url

theorem enc_path (p : List Nat) (hp : ∀ c ∈ p, Spec.isScalar c = true) :
    Impl.percentEncode Impl.pathNoEnc p = encP p :=
  C14.percentEncode_eq_spec Spec.pathSet C14.path_hi p hp

theorem segUrl_eq (u : Url) (s : List Nat) (isSep : Bool) (hs : ∀ c ∈ s, Spec.isScalar c = true) :
    segUrl u (encP s) isSep = Impl.pathSegment u s (!isSep) := by
  unfold segUrl Impl.pathSegment
  rw [isDoubleDot_encP s hs, isSingleDot_encP s hs, shorten_eq, enc_path s hs]
  cases hd : Impl.doubleDot s
  · cases hsd : Impl.singleDot s
    · simp only [Bool.false_eq_true, if_false, false_and, Bool.not_false, if_true]
      obtain ⟨h1, h2⟩ := winDrive_encP s hs
      rw [h1]
      by_cases hw : Spec.isWindowsDriveLetter s = true
      · have h3 := h2 hw
        rw [winDrive_eq] at hw
        match s, hw with
        | [a, b], hw =>
          rw [h3]
          simp [hw, Url.isFile, Impl.isFileScheme, winDrive_eq]
          split <;> rfl
      · have hw' : Spec.isWindowsDriveLetter s = false := by simpa using hw
        rw [hw']
        simp only [Bool.false_eq_true, and_false, if_false]
        split
        · next a b =>
          rw [winDrive_eq] at hw'
          simp only at hw'
          simp [hw']
        · rfl
    · cases isSep <;> simp
  · cases isSep <;> simp

/-! ## splitting the path into segments -/

/-- path separator: `/`, and `\` when the URL is special -/
def pathSep (special : Bool) (c : Nat) : Bool := c == 0x2F || (special && c == 0x5C)

theorem pathSep_true : pathSep true = Impl.isSlash := by
  funext c; simp [pathSep, Impl.isSlash]
theorem pathSep_false : pathSep false = (· == 0x2F) := by
  funext c; simp [pathSep]

theorem shortenPath_scheme (u : Url) : (Impl.shortenPath u).scheme = u.scheme := by
  unfold Impl.shortenPath
  (repeat' split) <;> rfl

theorem pathSegment_scheme (u : Url) (s : List Nat) (l : Bool) :
    (Impl.pathSegment u s l).scheme = u.scheme := by
  unfold Impl.pathSegment
  (repeat' split) <;> simp [shortenPath_scheme]

theorem pathSegment_isSpecial (u : Url) (s : List Nat) (l : Bool) :
    (Impl.pathSegment u s l).isSpecial = u.isSpecial := by
  simp [Url.isSpecial, pathSegment_scheme]

/-- `parse_path` as a left-to-right scan with the current raw segment `s` made explicit -/
def pathLoop (sp : Bool) : Url → List Nat → List Nat → Url
  | u, s, [] => Impl.pathSegment u s true
  | u, s, c :: cs =>
    if pathSep sp c then pathLoop sp (Impl.pathSegment u s false) [] cs
    else pathLoop sp u (s ++ [c]) cs

theorem splitOnP_ne_nil (p : Nat → Bool) (l : List Nat) : ∃ h t, splitOnP p l = h :: t := by
  induction l with
  | nil => exact ⟨[], [], rfl⟩
  | cons c cs ih =>
    obtain ⟨h, t, e⟩ := ih
    unfold splitOnP
    split
    · exact ⟨_, _, rfl⟩
    · rw [e]; exact ⟨_, _, rfl⟩

theorem pathLoop_eq (sp : Bool) : ∀ (r : List Nat) (u : Url) (s : List Nat),
    pathLoop sp u s r =
      Impl.pathSegments u (match splitOnP (pathSep sp) r with | h :: t => (s ++ h) :: t | [] => [s]) := by
  intro r
  induction r with
  | nil => intro u s; simp [pathLoop, splitOnP, Impl.pathSegments]
  | cons c cs ih =>
    intro u s
    obtain ⟨h, t, e⟩ := splitOnP_ne_nil (pathSep sp) cs
    unfold pathLoop splitOnP
    split
    · rw [ih, e]; simp [Impl.pathSegments]
    · rw [ih, e]; simp

theorem parsePath_eq (u : Url) (s : List Nat) : Impl.parsePath u s = pathLoop u.isSpecial u [] s := by
  unfold Impl.parsePath
  rw [pathLoop_eq]
  obtain ⟨h, t, e⟩ := splitOnP_ne_nil (pathSep u.isSpecial) s
  cases hsp : u.isSpecial
  · rw [hsp] at e
    simp only [Bool.false_eq_true, if_false, ← pathSep_false, e, List.nil_append]
  · rw [hsp] at e
    simp only [if_true, ← pathSep_true, e, List.nil_append]

end Upa.Proofs.C01
