import Upa.Proofs.BoundsUrlVerdictRel
import Upa.Proofs.BoundsUrlVerdictScheme
/-
  Helper lemmas for C04f, part 9: scheme_start_state / the state-override dispatch, the whole chain
  `urlParseB`, and url_parse with its whitespace removal: the instrumented model with the real host parser
  plugged in answers what the list model `Impl.urlParse` answers on the decoded input.
-/
namespace Upa.Impl.B
open UP Upa.Proofs.C10b

section
variable (c : Ctx) (W : c.Wf)
include W

theorem sim_scheme' (m : M) (hI : Inv c m c.u0) (hs : m.state = .scheme) (hp : m.pointer < c.last)
    (ha : isAlpha c.a[m.pointer]! = true) :
    kScheme c m = .ok (vd (schemeState c.idna c.baseU c.ov c.u0 (c.D m.pointer))) :=
  sim_scheme c W
    (fun _ m' u' hI' hs' => sim_file c W m' u' hI' hs')
    (fun hov b hb m' u' hI' _ hs' => sim_sroa c W hov b hb m' u' hI' hs')
    (fun hov => sim_sas c W hov)
    (fun hov => sim_pathOrAuthority c W hov)
    (fun hov => sim_noScheme c W hov)
    m hI hs hp ha

omit W in
theorem isAlpha_ascii {x : Nat} (h : isAlpha x = true) : x < 0x80 := by
  simp [isAlpha] at h; omega

/-- scheme_start_state for a parse from scratch or the protocol setter -/
theorem sim_schemeStart (sp fl : Bool)
    (hI : Inv c ⟨.schemeStart, c.first, sp, fl⟩ c.u0) :
    kSchemeStart c ⟨.schemeStart, c.first, sp, fl⟩ =
      .ok (vd (match c.D c.first with
        | ch :: _ =>
          if isAlpha ch then schemeState c.idna c.baseU c.ov c.u0 (c.D c.first)
          else if c.ov.isNone then noSchemeState c.idna c.baseU c.ov c.u0 (c.D c.first) else ⟨.failure, c.u0⟩
        | [] => if c.ov.isNone then noSchemeState c.idna c.baseU c.ov c.u0 (c.D c.first) else ⟨.failure, c.u0⟩)) := by
  obtain ⟨⟨h1, h2⟩, h3, h4⟩ := hI
  simp only [] at h1 h2 h3 h4
  have hl := W.hl
  refine stepB_ok rfl ?_
  unfold bSchemeStart
  simp only []
  -- the two non-scheme leaves
  have leafNo : c.ov.isNone = true →
      kScheme c ⟨.noScheme, c.first, sp, fl⟩ = .ok (vd (noSchemeState c.idna c.baseU c.ov c.u0 (c.D c.first))) := by
    intro hn
    have hov' : c.ov = none := by
      cases hh : c.ov with
      | none => rfl
      | some _ => rw [hh] at hn; cases hn
    rw [kScheme_skip c _ (by simp)]
    exact sim_noScheme c W hov' ⟨.noScheme, c.first, sp, fl⟩ c.u0 ⟨⟨h1, h2⟩, h3, h4⟩ rfl
  by_cases hpl : c.first = c.last
  · rw [if_neg (by simpa using hpl)]
    simp only [R.pure_bind', Bool.false_eq_true, if_false]
    have hD : c.D c.first = [] := by rw [hpl]; exact c.D_end
    rw [hD]
    simp only []
    split
    · rename_i hn
      refine R.sat_pure ?_
      simp only []
      rw [← hD]
      exact leafNo hn
    · exact R.sat_pure rfl
  · rw [if_pos (by simpa using hpl)]
    have hp : c.first < c.last := by omega
    upsimp
    obtain ⟨ch, t, hD, hc⟩ := c.D_peek W c.first hp
    have halpha : isAlpha ch = isAlpha c.a[c.first]! := by
      rcases hc with ⟨_, h2, _⟩ | ⟨hn1, hn2⟩
      · rw [h2]
      · cases hh1 : isAlpha ch with
        | true => exact absurd (isAlpha_ascii hh1) hn2
        | false =>
          cases hh2 : isAlpha c.a[c.first]! with
          | true => exact absurd (isAlpha_ascii hh2) hn1
          | false => rfl
    have hmatch : (match c.D c.first with
        | ch :: _ =>
          if isAlpha ch then schemeState c.idna c.baseU c.ov c.u0 (c.D c.first)
          else if c.ov.isNone then noSchemeState c.idna c.baseU c.ov c.u0 (c.D c.first) else ⟨.failure, c.u0⟩
        | [] => if c.ov.isNone then noSchemeState c.idna c.baseU c.ov c.u0 (c.D c.first) else ⟨.failure, c.u0⟩) =
        (if isAlpha c.a[c.first]! then schemeState c.idna c.baseU c.ov c.u0 (c.D c.first)
          else if c.ov.isNone then noSchemeState c.idna c.baseU c.ov c.u0 (c.D c.first) else ⟨.failure, c.u0⟩) := by
      rw [← halpha]
      generalize c.D c.first = L at hD
      subst hD
      rfl
    rw [hmatch]
    cases hal : isAlpha c.a[c.first]! with
    | true =>
      simp only [if_true]
      refine R.sat_pure ?_
      exact sim_scheme' c W ⟨.scheme, c.first, sp, fl⟩ ⟨⟨h1, h2⟩, h3, h4⟩ rfl hp hal
    | false =>
      simp only [Bool.false_eq_true, if_false]
      split
      · rename_i hn
        exact R.sat_pure (leafNo hn)
      · exact R.sat_pure rfl

/-- the whole chain from the initial machine state -/
theorem sim_urlParse :
    urlParseB c.e c.a c.first c.last c.ov c.base c.ui c.orc c.fuel =
      .ok (vd (urlParse c.idna c.baseU c.ov c.u0 (c.D c.first))) := by
  rw [urlParseB_eq]
  have hI : ∀ st, Inv c ⟨st, c.first, c.ui.special, c.ui.file⟩ c.u0 :=
    fun st => ⟨⟨Nat.le_refl _, W.h⟩, rfl, rfl⟩
  have hb : ∀ st, Bnd c ⟨st, c.first, c.ui.special, c.ui.file⟩ := fun st => ⟨Nat.le_refl _, W.h⟩
  cases hov : c.ov with
  | none =>
    have := sim_schemeStart c W _ _ (hI .schemeStart)
    rw [hov] at this
    simp only [St.ofOverride, urlParse]
    exact this
  | some o =>
    cases o with
    | schemeStart =>
      have := sim_schemeStart c W _ _ (hI .schemeStart)
      rw [hov] at this
      simp only [St.ofOverride, urlParse]
      exact this
    | host =>
      simp only [St.ofOverride, urlParse]
      have := sim_host' c W ⟨.host, c.first, c.ui.special, c.ui.file⟩ c.u0 (hI _) (Or.inl rfl) (fun _ => rfl)
      rw [hov] at this
      rw [← this]
      unfold kSchemeStart
      rw [stepB_skip (by simp)]
      kskip
    | hostname =>
      simp only [St.ofOverride, urlParse]
      have := sim_host' c W ⟨.hostname, c.first, c.ui.special, c.ui.file⟩ c.u0 (hI _) (Or.inr rfl) (fun _ => rfl)
      rw [hov] at this
      rw [← this]
      unfold kSchemeStart
      rw [stepB_skip (by simp)]
      kskip
    | port =>
      simp only [St.ofOverride, urlParse]
      have := sim_port c W ⟨.port, c.first, c.ui.special, c.ui.file⟩ c.u0 (hI _) rfl
      rw [hov] at this
      rw [← this]
      unfold kSchemeStart
      rw [stepB_skip (by simp)]
      kskip
    | pathStart =>
      simp only [St.ofOverride, urlParse, vd_pathStartState]
      unfold kSchemeStart
      rw [stepB_skip (by simp)]
      kskip
      exact pathStart_ok c W _ (hb _) rfl
    | query =>
      simp only [St.ofOverride, urlParse, vd_queryState]
      unfold kSchemeStart
      rw [stepB_skip (by simp)]
      kskip
      exact query_ok c W _ (hb _) (Or.inl rfl)
    | fragment =>
      simp only [St.ofOverride, urlParse, vd_fragmentState]
      unfold kSchemeStart
      rw [stepB_skip (by simp)]
      kskip
      exact frag_ok c W _ (hb _) rfl

end

/-! ### url_parse from its first line -/

theorem slice_toArray (l : List Nat) : slice l.toArray 0 l.length = l := by
  simp [slice]

/-- `urlParseVerdictB` (whitespace removal + the instrumented states on the code units, real host parser
    plugged in) answers what the list model answers on the prepared input -/
theorem urlParseVerdictB_agrees (idna : Idna) (e : Enc) (units : List Nat) (base : Option Url)
    (ov : Option Override) (u : Url) (hu : UOk e units) :
    urlParseVerdictB idna e units base ov u = some (vd (urlParse idna base ov u (prep e units))) := by
  unfold urlParseVerdictB urlParseWsB
  simp only []
  have hsz : units.toArray.size = units.length := by simp
  obtain ⟨r, hr, hag⟩ := doRemoveWhitespaceB_agrees units.toArray 0 units.toArray.size (Nat.zero_le _) (Nat.le_refl _)
  rw [hr]
  simp only [R.ok_bind]
  rw [hsz, slice_toArray] at hag
  cases r with
  | none =>
    simp only [] at hag
    let c : Ctx := ⟨idna, e, units.toArray, 0, units.toArray.size, ov, base, u, units.toArray.size - 0 + 1⟩
    have W : c.Wf := ⟨Nat.zero_le _, Nat.le_refl _, by show units.toArray.size - 0 < units.toArray.size - 0 + 1; omega,
      by show UOk e units.toArray.toList; simpa using hu⟩
    have := sim_urlParse c W
    have hD : c.D c.first = prep e units := by
      show decode e (slice units.toArray 0 units.toArray.size) = decode e (removeWs units)
      rw [hsz, slice_toArray, ← hag]
    rw [hD] at this
    show (match urlParseB c.e c.a c.first c.last c.ov c.base c.ui c.orc c.fuel with | .ok v => some v | _ => none) = _
    rw [this]
  | some buff =>
    simp only [] at hag
    let c : Ctx := ⟨idna, e, buff.toArray, 0, buff.length, ov, base, u, buff.length - 0 + 1⟩
    have W : c.Wf := ⟨Nat.zero_le _, by show buff.length ≤ buff.toArray.size; simp,
      by show buff.length - 0 < buff.length - 0 + 1; omega,
      by show UOk e buff.toArray.toList; rw [List.toList_toArray, hag]; exact hu.removeWs⟩
    have := sim_urlParse c W
    have hD : c.D c.first = prep e units := by
      show decode e (slice buff.toArray 0 buff.length) = decode e (removeWs units)
      rw [slice_toArray, hag]
    rw [hD] at this
    show (match urlParseB c.e c.a c.first c.last c.ov c.base c.ui c.orc c.fuel with | .ok v => some v | _ => none) = _
    rw [this]

end Upa.Impl.B
