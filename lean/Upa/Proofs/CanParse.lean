import Upa.Impl.CanParse
/-
  C09 helpers: `can_parse` (the `need_save() == false` run, `Impl.…NS`) against the saving run
  (`Impl.urlParse … none`), block by block, innermost first.
-/
namespace Upa.Proofs.C09
open Upa Upa.Impl

/-! ## 1. the tail of the state chain cannot fail without a state override -/

theorem fragment_ok (u : Url) (p : List Nat) : (fragmentState u p).out = .ok := rfl

theorem query_ok (u : Url) (p : List Nat) : (queryState none u p).out = .ok := by
  unfold queryState
  simp only [Option.isSome_none]
  split
  · rfl
  · exact fragment_ok _ _

theorem afterPath_ok (u : Url) (p : List Nat) : (afterPath none u p).out = .ok := by
  unfold afterPath
  split
  · rfl
  · split
    · exact query_ok _ _
    · exact fragment_ok _ _

theorem opaquePath_ok (u : Url) (p : List Nat) : (opaquePathState none u p).out = .ok := by
  unfold opaquePathState
  exact afterPath_ok _ _

theorem path_ok (u : Url) (p : List Nat) : (pathState none u p).out = .ok := by
  unfold pathState
  exact afterPath_ok _ _

theorem pathStart_ok (u : Url) (p : List Nat) : (pathStartState none u p).out = .ok := by
  unfold pathStartState
  split
  · split
    · split <;> exact path_ok _ _
    · exact path_ok _ _
  · split
    · simp only [Option.isNone_none, ↓reduceIte]
      split
      · exact query_ok _ _
      · split
        · exact fragment_ok _ _
        · split <;> exact path_ok _ _
    · split <;> rfl

/-! ## 2. simulation: every `…NS` block computes "the saving block ends with `.ok`" -/

/-- the saving run ended with `validation_errc::ok` -/
def isOk (r : Res) : Bool := r.out == .ok

theorem isOk_of_ok {r : Res} (h : r.out = .ok) : isOk r = true := by simp [isOk, h]
@[simp] theorem isOk_failure (u : Url) : isOk ⟨.failure, u⟩ = false := rfl
@[simp] theorem isOk_ok (u : Url) : isOk ⟨.ok, u⟩ = true := rfl
@[simp] theorem isOk_pathStart (u : Url) (p : List Nat) : isOk (pathStartState none u p) = true :=
  isOk_of_ok (pathStart_ok u p)
@[simp] theorem isOk_path (u : Url) (p : List Nat) : isOk (pathState none u p) = true :=
  isOk_of_ok (path_ok u p)
@[simp] theorem isOk_query (u : Url) (p : List Nat) : isOk (queryState none u p) = true :=
  isOk_of_ok (query_ok u p)
@[simp] theorem isOk_fragment (u : Url) (p : List Nat) : isOk (fragmentState u p) = true :=
  isOk_of_ok (fragment_ok u p)
@[simp] theorem isOk_opaquePath (u : Url) (p : List Nat) : isOk (opaquePathState none u p) = true :=
  isOk_of_ok (opaquePath_ok u p)

theorem port_sim (u : Url) (sp : Bool) (hsp : u.isSpecial = sp) (p : List Nat) :
    portStateNS sp p = isOk (portState none u p) := by
  subst hsp
  unfold portStateNS portState
  simp only [Option.isSome_none, Bool.or_false]
  generalize List.takeWhile isDigit p = ds
  by_cases hd : ds = []
  · cases h : List.dropWhile isDigit p <;> simp [hd, apply_ite isOk]
  · by_cases h5 : (stripLeadingZeros ds).length > 5
    · cases h : List.dropWhile isDigit p <;> simp [hd, h5]
    · by_cases hv : decimalValue (stripLeadingZeros ds) > 0xFFFF
      · cases h : List.dropWhile isDigit p <;> simp [hd, h5, hv]
      · by_cases hdp : defaultPort u.scheme = some (decimalValue (stripLeadingZeros ds))
        · cases h : List.dropWhile isDigit p <;> simp [hd, h5, hv, hdp, apply_ite isOk] <;> omega
        · cases h : List.dropWhile isDigit p <;> simp [hd, h5, hv, hdp, apply_ite isOk] <;> omega

theorem fileHost_sim (idna : Idna) (u : Url) (sp : Bool) (hsp : u.isSpecial = sp) (p : List Nat) :
    fileHostStateNS idna sp p = isOk (fileHostState idna none u p) := by
  subst hsp
  unfold fileHostStateNS fileHostState parseHostNS
  simp only [Option.isSome_none, Option.isNone_none, Bool.true_and]
  generalize List.takeWhile (fun c => !isSpecialAuthorityEnd c) p = buf
  by_cases hb : buf = []
  · simp [hb]
  · simp only [hb, if_false]
    split
    · rename_i a b
      by_cases hw : isWindowsDrive a b = true <;> simp [hw]
      cases parseHost idna _ (!u.isSpecial) <;> simp
    · simp
      cases parseHost idna _ (!u.isSpecial) <;> simp

theorem host_sim (idna : Idna) (u : Url) (sp : Bool) (hsp : u.isSpecial = sp) (p : List Nat) :
    hostStateNS idna sp p = isOk (hostState idna none u p) := by
  subst hsp
  unfold hostStateNS hostState parseHostNS
  simp only [Option.isSome_none, Bool.false_and, Bool.and_false, Bool.false_eq_true, if_false]
  generalize hs : hostScan _ false = r
  obtain ⟨hp, pp⟩ := r
  simp only []
  split
  · rfl
  · simp only [reduceCtorEq, decide_false, Bool.and_false, Bool.false_eq_true, if_false]
    cases parseHost idna hp (!u.isSpecial) with
    | none => rfl
    | some h =>
      cases pp with
      | none => simp
      | some pp => simp; exact port_sim _ _ (by rfl) _

theorem authority_sim (idna : Idna) (u : Url) (sp : Bool) (hsp : u.isSpecial = sp) (p : List Nat) :
    authorityStateNS idna sp p = isOk (authorityState idna none u p) := by
  subst hsp
  unfold authorityStateNS authorityState
  simp only []
  generalize splitLastAt _ = r
  cases r with
  | none => exact host_sim idna u _ rfl p
  | some ch =>
    obtain ⟨cred, hostport⟩ := ch
    simp only []
    split
    · rfl
    · apply host_sim
      split <;> rfl

theorem ignoreSlashes_sim (idna : Idna) (u : Url) (sp : Bool) (hsp : u.isSpecial = sp) (p : List Nat) :
    ignoreSlashesStateNS idna sp p = isOk (ignoreSlashesState idna none u p) :=
  authority_sim idna u sp hsp _

theorem specialAuthoritySlashes_sim (idna : Idna) (u : Url) (hsp : u.isSpecial = true) (p : List Nat) :
    specialAuthoritySlashesStateNS idna p = isOk (specialAuthoritySlashesState idna none u p) := by
  unfold specialAuthoritySlashesStateNS specialAuthoritySlashesState
  split <;> split <;>
    first
    | exact ignoreSlashes_sim idna u _ hsp _
    | (injections; subst_vars; exact ignoreSlashes_sim idna u _ hsp _)
    | (exfalso; simp_all; done)

theorem relativeSlash_sim (idna : Idna) (b u : Url) (sp : Bool) (hsp : u.isSpecial = sp) (p : List Nat) :
    relativeSlashStateNS idna sp p = isOk (relativeSlashState idna b none u p) := by
  subst hsp
  unfold relativeSlashStateNS relativeSlashState
  cases p with
  | nil => simp
  | cons c r =>
    simp only []
    split
    · split
      · exact ignoreSlashes_sim idna u _ rfl _
      · exact authority_sim idna u _ rfl _
    · split
      · exact ignoreSlashes_sim idna u _ rfl _
      · simp

theorem relative_sim (idna : Idna) (b u : Url) (p : List Nat) :
    relativeStateNS idna b p = isOk (relativeState idna b none u p) := by
  unfold relativeStateNS relativeState
  cases p with
  | nil => simp
  | cons c r =>
    simp only [show ({ u with scheme := b.scheme } : Url).isSpecial = isSpecialScheme b.scheme from rfl]
    split
    · exact relativeSlash_sim idna b _ _ (by rfl) _
    · split
      · simp
      · split
        · simp
        · split
          · exact relativeSlash_sim idna b _ _ (by rfl) _
          · simp

theorem isSpecial_of_isFile {u : Url} (h : u.isFile = true) : u.isSpecial = true := by
  simp only [Url.isFile, isFileScheme, beq_iff_eq] at h
  simp [Url.isSpecial, isSpecialScheme, h]

theorem fileSlash_sim (idna : Idna) (base : Option Url) (u : Url) (hsp : u.isSpecial = true) (p : List Nat) :
    fileSlashStateNS idna p = isOk (fileSlashState idna base none u p) := by
  unfold fileSlashStateNS fileSlashState fileSlashState.fileSlashDefault
  cases p with
  | nil => simp
  | cons c r =>
    simp only []
    split
    · exact fileHost_sim idna u _ hsp _
    · simp

theorem file_sim (idna : Idna) (base : Option Url) (u : Url) (p : List Nat) :
    fileStateNS idna p = isOk (fileState idna base none u p) := by
  unfold fileStateNS fileState
  have hdef : ∀ u p, isOk (fileState.fileDefault base none u p) = true := by
    intro u p
    unfold fileState.fileDefault
    repeat' split
    all_goals simp
  cases p with
  | nil => simp [hdef]
  | cons c r =>
    simp only []
    split
    · apply fileSlash_sim
      apply isSpecial_of_isFile
      split
      · rfl
      · simp_all [Url.isFile]
    · simp [hdef]

theorem noScheme_sim (idna : Idna) (base : Option Url) (u : Url) (p : List Nat) :
    noSchemeStateNS idna base p = isOk (noSchemeState idna base none u p) := by
  unfold noSchemeStateNS noSchemeState
  cases base with
  | none => rfl
  | some b =>
    simp only []
    split
    · split <;> split <;> first | rfl | (simp; done) | (exfalso; simp_all; done)
    · split
      · exact file_sim idna _ u p
      · exact relative_sim idna b u p

theorem specialRelativeOrAuthority_sim (idna : Idna) (b u : Url) (hsp : u.isSpecial = true)
    (p : List Nat) :
    (match p with
      | 0x2F :: 0x2F :: r => ignoreSlashesStateNS idna true r
      | _ => relativeStateNS idna b p)
      = isOk (specialRelativeOrAuthorityState idna b none u p) := by
  unfold specialRelativeOrAuthorityState
  split <;> split <;>
    first
    | exact ignoreSlashes_sim idna u _ hsp _
    | (injections; subst_vars; exact ignoreSlashes_sim idna u _ hsp _)
    | exact relative_sim idna b u _
    | (exfalso; simp_all; done)

theorem nonSpecialTail_sim (idna : Idna) (u : Url) (hsp : u.isSpecial = false) (p : List Nat) :
    (match p with
      | 0x2F :: 0x2F :: r => authorityStateNS idna false r
      | _ => true)
      = isOk (match p with
              | 0x2F :: r => pathOrAuthorityState idna none u r
              | _ => opaquePathState none { u with hasOpaquePath := true } p) := by
  unfold pathOrAuthorityState
  split
  · simp only []
    exact authority_sim idna u _ hsp _
  · split
    · split
      · exfalso; simp_all
      · simp
    · simp

theorem scheme_sim (idna : Idna) (base : Option Url) (u : Url) (p : List Nat) :
    schemeStateNS idna base p = isOk (schemeState idna base none u p) := by
  unfold schemeStateNS schemeState
  cases p with
  | nil => rfl
  | cons c0 r0 =>
    simp only [Option.isSome_none, Option.isNone_none, Bool.false_eq_true, if_false, if_true]
    generalize hsch : List.map (fun x => x ||| 32) (c0 :: List.takeWhile isSchemeChar r0) = scheme
    generalize List.dropWhile isSchemeChar r0 = rest
    have hF : ({ u with scheme := scheme } : Url).isFile = isFileScheme scheme := rfl
    have hS : ({ u with scheme := scheme } : Url).isSpecial = isSpecialScheme scheme := rfl
    let v : Url := { u with scheme := scheme }
    cases rest with
    | nil => simp only [Bool.false_eq_true, if_false]; exact noScheme_sim idna base u _
    | cons c t =>
      simp only [beq_iff_eq]
      by_cases hc : c = 58
      · simp only [hc, if_true, hF]
        generalize List.drop 1 (58 :: t) = q
        by_cases hf : isFileScheme scheme = true
        · simp only [hf, if_true]
          exact file_sim idna base v q
        · simp only [hf, if_false, hS, Bool.false_eq_true]
          by_cases hs : isSpecialScheme scheme = true
          · simp only [hs, if_true]
            cases base with
            | none => exact specialAuthoritySlashes_sim idna v (hS.trans hs) q
            | some b =>
              simp only []
              by_cases hb : b.scheme = scheme
              · simp only [hb, if_true]
                exact specialRelativeOrAuthority_sim idna b v (hS.trans hs) q
              · simp only [hb, if_false]
                exact specialAuthoritySlashes_sim idna v (hS.trans hs) q
          · simp only [hs, if_false, Bool.false_eq_true]
            exact nonSpecialTail_sim idna v (hS.trans (by simpa using hs)) q
      · simp only [hc, if_false]
        exact noScheme_sim idna base u _

theorem urlParse_sim (idna : Idna) (base : Option Url) (u : Url) (p : List Nat) :
    (match p with
      | c :: _ => if isAlpha c then schemeStateNS idna base p else noSchemeStateNS idna base p
      | [] => noSchemeStateNS idna base p)
      = isOk (urlParse idna base none u p) := by
  unfold urlParse
  cases p with
  | nil => simp only [Option.isNone_none, if_true]; exact noScheme_sim idna base u _
  | cons c r =>
    simp only [Option.isNone_none, if_true]
    split
    · exact scheme_sim idna base u _
    · exact noScheme_sim idna base u _

theorem parse_isSome (idna : Idna) (e : Enc) (units : List Nat) (base : Option Url) :
    (parse idna e units base).isSome = isOk (urlParse idna base none {} (prep e (doTrim units))) := by
  unfold parse isOk
  generalize urlParse idna base none {} (prep e (doTrim units)) = r
  obtain ⟨o, u⟩ := r
  cases o <;> rfl

theorem canParse_eq (idna : Idna) (e : Enc) (units : List Nat) (base : Option Url) :
    canParse idna e units base = (parse idna e units base).isSome := by
  rw [parse_isSome, ← urlParse_sim]
  rfl

/-! ## 3. object level (`url::parse` on an object, the throwing constructor) -/

theorem reparseParams_url (o : UrlObj) : o.reparseParams.url = o.url := by
  unfold UrlObj.reparseParams
  split <;> rfl

theorem objParse_valid (idna : Idna) (o : UrlObj) (e : Enc) (units : List Nat) (base : Option Url) :
    (o.parse idna e units (base.map some)).2 = (parse idna e units base).isSome ∧
    (o.parse idna e units (base.map some)).1.url = parse idna e units base := by
  unfold UrlObj.parse
  cases base with
  | none =>
    simp only [Option.map_none, Option.bind_none]
    cases parse idna e units none <;> simp [reparseParams_url]
  | some b =>
    simp only [Option.map_some, Option.bind_some, id]
    cases parse idna e units (some b) <;> simp [reparseParams_url]

/-! ## 4. `can_parse` reads only the scheme and the opaque-path flag of the base
    (what a `need_save() == false` run has written into the base object of the two-string overload
    `can_parse(str_url, str_base)`, url.h:244-251) -/

/-- the part of a base URL that `can_parse` looks at -/
def baseKey (b : Url) : Url := { scheme := b.scheme, hasOpaquePath := b.hasOpaquePath }

theorem relativeNS_baseKey (idna : Idna) (b : Url) (p : List Nat) :
    relativeStateNS idna (baseKey b) p = relativeStateNS idna b p := rfl

theorem noSchemeNS_baseKey (idna : Idna) (b : Url) (p : List Nat) :
    noSchemeStateNS idna (some (baseKey b)) p = noSchemeStateNS idna (some b) p := rfl

theorem schemeNS_baseKey (idna : Idna) (b : Url) (p : List Nat) :
    schemeStateNS idna (some (baseKey b)) p = schemeStateNS idna (some b) p := by
  unfold schemeStateNS
  simp only [noSchemeNS_baseKey, relativeNS_baseKey]
  rfl

theorem canParse_baseKey (idna : Idna) (e : Enc) (units : List Nat) (b : Url) :
    canParse idna e units (some (baseKey b)) = canParse idna e units (some b) := by
  unfold canParse
  simp only [noSchemeNS_baseKey, schemeNS_baseKey]

end Upa.Proofs.C09
