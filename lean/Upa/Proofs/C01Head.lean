import Upa.Proofs.C01Run
import Upa.Props.C01
/-
  C01 — simulations for the head states of the basic URL parser (file host, file slash, file,
  relative slash, relative, special relative or authority, no scheme, scheme, scheme start) and the
  assembly of the parse theorem from the per-state simulations.  (Part 3 of 3; the tail states are in
  C01Tail.lean, the authority states in C01Auth.lean; everything is closed in C01Closed.lean.)

  ## Statement shape
  `SimR R idna base ov S a c Pre B` is `SimAt` (C01Run.lean) with the conclusion
  `R (run …) (resOf ov (B k.url (inp.toList.drop i)))` for a relation `R` instead of `=`:
    * `SimR Eq`    = `SimAt` (`simAt_iff_simR_eq`, by `Iff.rfl`);
    * `SimR WEq`   = `SimAtW` of C01Auth (`WEq r e := r = e ∨ (r.1 = none ∧ e.1 = none)`, the same
                     body as `ResAgree`);
    * `SimR FstEq` : first components equal (all that `Impl.parse = Spec.apiParse` needs).
  Every lemma below is parametric in `R` and only needs `hR : ∀ x, R x x`; a `SimAt` is turned into a
  `SimR R` by `SimAt.toR hR`, constants / preconditions are adapted by `SimR.mono`, and
  `SimR.imp` weakens the relation (e.g. `WEq.fst : WEq r e → FstEq r e`).

  ## Preconditions
  `Fresh k` : the three flags are unset and `k.url = { scheme := k.url.scheme }` — what holds in the
  no-override parser until a tail / authority state is entered (the API starts from `{}`).  It implies
  C01Auth's `AuthPre`.  It is NEEDED: with an arbitrary URL record the code blocks `fileState`,
  `relativeState` keep the old `query` (and `fileState` the old `path`) where the Standard resets them,
  and `schemeState` keeps the old `opaquePath`; unreachable through the API.

  ## Fuel constants (all hypotheses may have `a ≤ 3`, `c ≤ 13`; adapt with `SimR.mono`)
      hypotheses (tail + authority states) : 3 13
      fileHost 3 18 (with override: `SimAt … 1 1`) · fileSlash 3 16 · file 3 14
      relativeSlash 3 14 · relative 3 14 · specialRelativeOrAuthority 3 15 · noScheme 3 15
      schemeStart 4 16  = the `4 * n + 16` of `Spec.basicParse`
  (the scheme state scans `s ≤ n` code points and, without ':', restarts at pointer 0: `n + 1 + (3 n + 15)`).

  ## Results (namespace `Upa.Proofs.C01`; helpers in `Upa.Proofs.C01.Head`)
    sim_fileHost      hR hHost sim_path sim_pathStart            (ov = none; Windows drive letter quirk)
    sim_fileHost_ov   hHost o : SimAt idna base (some o) .fileHost 1 1 (fun _ => True) (Impl.fileHostState idna (some o))
    sim_fileHost_isSome hHost ov : ov.isSome = true → SimAt idna base ov .fileHost 1 1 … (the form C01Auth's host state takes)
    sim_fileHost_gen  hR hHost ov sim_path sim_pathStart          (any ov)
    sim_fileSlash     sim_fileHost sim_path                       (any ov)
    sim_file          hR sim_fileSlash sim_path sim_query sim_fragment   (any ov; Pre: path = [] ∧ query = none)
    sim_relativeSlash b (hbase : base = some b) sim_ignoreSlashes sim_authority sim_path    (any ov)
    sim_relative      hR b hbase (b.scheme ≠ sFile) sim_relativeSlash sim_path sim_query sim_fragment
    sim_specialRelativeOrAuthority b sim_ignoreSlashes sim_relative
    sim_noScheme      hR sim_file sim_relative sim_fragment
    sim_schemeStart   sim_noScheme sim_file sim_sroa sim_sas sim_poa sim_opaquePath      (ov = none)
    sim_urlParse      hR hHost <the 5 tail and 4 authority simulations> :
        SimR R idna base none .schemeStart 4 16 (fun k => k.p = 0 ∧ Fresh k) (Impl.urlParse idna base none)
    basicParse_fst    : from `SimR FstEq … .schemeStart …` to `(Spec.basicParse idna inp base {} none).1 = okUrl (Impl.urlParse …)`
    C01_parse_conforms_partial : from hHost and the nine simulations (∀ base, first-component form),
        ∀ e units base, UnitsOk e units → Impl.parse idna e units base = Spec.apiParse idna e units base
    Head.prep_scalar  : the parser input consists of scalar values (u8, u16, u32)

  The Windows drive letter quirk of the file host state (the Standard keeps the buffer for the path
  state, the code passes the whole rest to `pathState`) needs NO generalised path simulation: the
  configuration (path state, buffer `[a, b]`, pointer `i`) is what the path state reaches from the
  start of the buffer (pointer `i - 2`, empty buffer) after two runs, so `sim_path` is applied there.
-/
namespace Upa.Proofs.C01
open Upa.Spec (State Cfg StepResult step run)

/-! ## the simulation statement, parametric in the relation between the two results -/

/-- `SimAt` with the conclusion `R (run …) (resOf …)` instead of an equation.
    `SimR Eq` is `SimAt`; `SimR FstEq` relates the first components only. -/
def SimR (R : Option Url × Url → Option Url × Url → Prop)
    (idna : Idna) (base : Option Url) (ov : Option Override) (S : State) (a c : Nat)
    (Pre : Cfg → Prop) (B : Url → List Nat → Res) : Prop :=
  ∀ (inp : Array Nat) (k : Cfg) (i fuel : Nat),
    k.state = S → k.buffer = [] → k.p = (i : Int) → Pre k → i ≤ inp.size →
    (∀ x ∈ inp.toList, Spec.isScalar x = true) → fuel ≥ a * (inp.size - i) + c →
    R (run idna inp base (ov.map ovState) fuel k) (resOf ov (B k.url (inp.toList.drop i)))

/-- first components equal -/
def FstEq (r e : Option Url × Url) : Prop := r.1 = e.1
/-- equal, or both failed (the URL left behind by a failing parse may differ) -/
def WEq (r e : Option Url × Url) : Prop := r = e ∨ (r.1 = none ∧ e.1 = none)

theorem FstEq.refl (x : Option Url × Url) : FstEq x x := rfl
theorem WEq.refl (x : Option Url × Url) : WEq x x := Or.inl rfl
theorem WEq.fst {r e : Option Url × Url} (h : WEq r e) : FstEq r e := by
  rcases h with h | ⟨h1, h2⟩
  · rw [h]; rfl
  · unfold FstEq; rw [h1, h2]

theorem simAt_iff_simR_eq {idna : Idna} {base : Option Url} {ov : Option Override} {S : State} {a c : Nat}
    {Pre : Cfg → Prop} {B : Url → List Nat → Res} :
    SimAt idna base ov S a c Pre B ↔ SimR Eq idna base ov S a c Pre B := Iff.rfl

section simr
variable {R : Option Url × Url → Option Url × Url → Prop}
variable {idna : Idna} {base : Option Url} {ov : Option Override}

theorem SimAt.toR (hR : ∀ x, R x x) {S : State} {a c : Nat} {Pre : Cfg → Prop} {B : Url → List Nat → Res}
    (h : SimAt idna base ov S a c Pre B) : SimR R idna base ov S a c Pre B := by
  intro inp k i fuel hs hb hp hP hi hsc hf
  rw [h inp k i fuel hs hb hp hP hi hsc hf]; exact hR _

theorem SimR.imp {R' : Option Url × Url → Option Url × Url → Prop} (hRR : ∀ x y, R x y → R' x y)
    {S : State} {a c : Nat} {Pre : Cfg → Prop} {B : Url → List Nat → Res}
    (h : SimR R idna base ov S a c Pre B) : SimR R' idna base ov S a c Pre B := by
  intro inp k i fuel hs hb hp hP hi hsc hf
  exact hRR _ _ (h inp k i fuel hs hb hp hP hi hsc hf)

theorem SimR.mono {S : State} {a c a' c' : Nat} {Pre Pre' : Cfg → Prop} {B : Url → List Nat → Res}
    (h : SimR R idna base ov S a c Pre B) (ha : a ≤ a') (hc : c ≤ c') (hpre : ∀ k, Pre' k → Pre k) :
    SimR R idna base ov S a' c' Pre' B := by
  intro inp k i fuel hs hb hp hP hi hsc hf
  refine h inp k i fuel hs hb hp (hpre k hP) hi hsc ?_
  have := Nat.mul_le_mul_right (inp.size - i) ha
  omega

/-- one machine run from `k` into state `S'` (empty buffer, pointer `j` after the loop's increment),
    then the simulation of `S'` -/
theorem SimR.after_step {S' : State} {a c : Nat} {Pre : Cfg → Prop} {B : Url → List Nat → Res}
    (hsim : SimR R idna base ov S' a c Pre B)
    {inp : Array Nat} {k k' : Cfg} {j fuel : Nat}
    (hstep : step idna inp base (ov.map ovState) k = .continue k')
    (hs : k'.state = S') (hb : k'.buffer = []) (hp : k'.p + 1 = (j : Int))
    (hpre : Pre { k' with p := k'.p + 1 }) (hj : j ≤ inp.size)
    (hsc : ∀ x ∈ inp.toList, Spec.isScalar x = true) (hf : fuel ≥ a * (inp.size - j) + c + 1) :
    R (run idna inp base (ov.map ovState) fuel k) (resOf ov (B k'.url (inp.toList.drop j))) := by
  obtain ⟨f, rfl, hf'⟩ := fuel_succ hf
  rw [run_continue f hstep (by omega)]
  exact hsim inp { k' with p := k'.p + 1 } j f hs hb hp hpre hj hsc hf'

/-- `after_step` with the target configuration spelled out (keeps unification cheap) -/
theorem SimR.step_to {S' : State} {a c : Nat} {Pre : Cfg → Prop} {B : Url → List Nat → Res}
    (hsim : SimR R idna base ov S' a c Pre B)
    {inp : Array Nat} {k : Cfg} {u' : Url} {f1 f2 f3 : Bool} {p' : Int} {j fuel : Nat}
    (hstep : step idna inp base (ov.map ovState) k = .continue ⟨u', S', [], f1, f2, f3, p'⟩)
    (hp : p' + 1 = (j : Int))
    (hpre : Pre ⟨u', S', [], f1, f2, f3, p' + 1⟩) (hj : j ≤ inp.size)
    (hsc : ∀ x ∈ inp.toList, Spec.isScalar x = true) (hf : fuel ≥ a * (inp.size - j) + c + 1) :
    R (run idna inp base (ov.map ovState) fuel k) (resOf ov (B u' (inp.toList.drop j))) :=
  hsim.after_step hstep rfl rfl hp hpre hj hsc hf

end simr

namespace Head

/-! ## small facts about the two vocabularies -/

theorem fromP_eq (inp : Array Nat) (i : Nat) : (inp.extract i inp.size).toList = inp.toList.drop i := by
  simp [List.take_of_length_le]

theorem swd_eq (s : List Nat) : Spec.startsWithWindowsDriveLetter s = Impl.startsWithWindowsDrive s := by
  unfold Spec.startsWithWindowsDriveLetter Impl.startsWithWindowsDrive
  match s with
  | [] => simp
  | [_] => simp
  | [a, b] => simp [Spec.isWindowsDriveLetter, Impl.isWindowsDrive]
  | a :: b :: c :: r =>
    simp only [Spec.isWindowsDriveLetter, Impl.isWindowsDrive, Impl.isSpecialAuthorityEnd, List.length_cons,
      List.take_succ_cons, List.take_zero]
    simp
    cases isAlpha a <;> cases (b == 58 || b == 124) <;> cases (c == 47) <;> cases (c == 92) <;> cases (c == 63) <;> cases (c == 35) <;> simp

theorem isSpecial_eq (u : Url) : u.isSpecial = Spec.isSpecial u := rfl
theorem isFile_iff (u : Url) : u.isFile = true ↔ u.scheme = Impl.sFile := by
  simp [Url.isFile, Impl.isFileScheme]

theorem shortenPath_eq (u : Url) : Impl.shortenPath u = Spec.shorten u := by
  obtain ⟨sc, un, pw, h, po, hop, op, pa, q, f⟩ := u
  unfold Impl.shortenPath Spec.shorten
  match pa with
  | [] => simp
  | [seg] =>
    simp only [List.length_cons, List.length_nil, List.head?_cons, List.dropLast_singleton]
    match seg with
    | [] => simp [Spec.isNormalizedWindowsDriveLetter]
    | [_] => simp [Spec.isNormalizedWindowsDriveLetter]
    | [a, b] => simp [Spec.isNormalizedWindowsDriveLetter, Impl.isNormalizedWindowsDrive, isFile_iff]
    | _ :: _ :: _ :: _ => simp [Spec.isNormalizedWindowsDriveLetter]
  | _ :: _ :: _ => simp


theorem takeWhile_append_stop (p : Nat → Bool) (buf r : List Nat) (hb : ∀ c ∈ buf, p c = true)
    (hr : ∀ c, r.head? = some c → p c = false) :
    (buf ++ r).takeWhile p = buf ∧ (buf ++ r).dropWhile p = r := by
  rw [List.takeWhile_append_of_pos hb, List.dropWhile_append_of_pos hb]
  cases r with
  | nil => simp
  | cons c cs =>
    have := hr c rfl
    simp [this]

section steps
variable (idna : Idna) (inp : Array Nat) (base : Option Url) (ov : Option State)

theorem step_fileHost_other (u : Url) (buf : List Nat) (f1 f2 f3 : Bool) (i c : Nat)
    (hc : inp[i]? = some c) (h : Impl.isSpecialAuthorityEnd c = false) :
    step idna inp base ov ⟨u, .fileHost, buf, f1, f2, f3, (i : Int)⟩ =
      .continue ⟨u, .fileHost, buf ++ [c], f1, f2, f3, (i : Int)⟩ := by
  unfold step
  simp only [Int.toNat_natCast, ptr_neg, if_false, hc]
  simp [Impl.isSpecialAuthorityEnd] at h
  simp [h]

theorem step_fileHost_end (u : Url) (buf : List Nat) (f1 f2 f3 : Bool) (i : Nat)
    (hend : ∀ c, inp[i]? = some c → Impl.isSpecialAuthorityEnd c = true) :
    step idna inp base ov ⟨u, .fileHost, buf, f1, f2, f3, (i : Int)⟩ =
      if ov.isNone ∧ Spec.isWindowsDriveLetter buf then
        .continue ⟨u, .path, buf, f1, f2, f3, (i : Int) - 1⟩
      else if buf = [] then
        if ov.isSome then .done { u with host := some Spec.emptyHost }
        else .continue ⟨{ u with host := some Spec.emptyHost }, .pathStart, [], f1, f2, f3, (i : Int) - 1⟩
      else match Spec.hostParse idna buf (!Spec.isSpecial u) with
        | none => .failure u
        | some h =>
          if ov.isSome then
            .done { u with host := some (if h.text = asciiStr "localhost" then Spec.emptyHost else h) }
          else .continue ⟨{ u with host := some (if h.text = asciiStr "localhost" then Spec.emptyHost else h) },
                 .pathStart, [], f1, f2, f3, (i : Int) - 1⟩ := by
  unfold step
  simp only [Int.toNat_natCast, ptr_neg, if_false]
  cases hc : inp[i]? with
  | none => 
    simp only [Option.isNone_none, true_or, if_true]
    split
    · rfl
    · split
      · subst_vars; rfl
      · rfl
  | some c =>
    have := hend c hc
    simp [Impl.isSpecialAuthorityEnd] at this
    rcases this with ((rfl | rfl) | rfl) | rfl
    all_goals
      simp
      split
      · rfl
      · split
        · subst_vars; rfl
        · rfl

theorem step_path_other (u : Url) (buf : List Nat) (f1 f2 f3 : Bool) (i c : Nat)
    (hc : inp[i]? = some c) (h1 : c ≠ 0x2F) (h2 : c ≠ 0x5C) (h3 : c ≠ 0x3F) (h4 : c ≠ 0x23) :
    step idna inp base ov ⟨u, .path, buf, f1, f2, f3, (i : Int)⟩ =
      .continue ⟨u, .path, buf ++ Spec.utf8PercentEncodeChar Spec.pathSet c, f1, f2, f3, (i : Int)⟩ := by
  unfold step
  simp only [Int.toNat_natCast, ptr_neg, if_false, hc]
  simp [h1, h2, h3, h4]

end steps

/-- the buffering runs of the file host state -/
theorem run_fileHost_scan (idna : Idna) (inp : Array Nat) (base : Option Url) (ov : Option State)
    (u : Url) (f1 f2 f3 : Bool) :
    ∀ (s : List Nat) (r : List Nat) (i : Nat) (buf : List Nat) (fuel : Nat),
    inp.toList.drop i = s ++ r → (∀ c ∈ s, Impl.isSpecialAuthorityEnd c = false) →
    run idna inp base ov (fuel + s.length) ⟨u, .fileHost, buf, f1, f2, f3, (i : Int)⟩ =
      run idna inp base ov fuel ⟨u, .fileHost, buf ++ s, f1, f2, f3, ((i + s.length : Nat) : Int)⟩ := by
  intro s
  induction s with
  | nil => intro r i buf fuel _ _; simp
  | cons c cs ih =>
    intro r i buf fuel hr hs
    obtain ⟨hc, hsz, hr'⟩ := getElem?_of_drop_cons (r := cs ++ r) hr
    have hst := step_fileHost_other idna inp base ov u buf f1 f2 f3 i c hc (hs c List.mem_cons_self)
    rw [List.length_cons, ← Nat.add_assoc]
    refine (run_continue' (j := i + 1) _ hst (by simp) hsz).trans ?_
    refine (ih r (i + 1) (buf ++ [c]) fuel hr' (fun x hx => hs x (List.mem_cons_of_mem _ hx))).trans ?_
    simp [Nat.add_assoc, Nat.add_comm 1]

theorem fileHostState_split (buf r : List Nat)
    (hb : ∀ c ∈ buf, Impl.isSpecialAuthorityEnd c = false)
    (hr : ∀ c, r.head? = some c → Impl.isSpecialAuthorityEnd c = true) :
    (buf ++ r).takeWhile (fun c => !Impl.isSpecialAuthorityEnd c) = buf ∧
    (buf ++ r).dropWhile (fun c => !Impl.isSpecialAuthorityEnd c) = r :=
  takeWhile_append_stop (fun c => !Impl.isSpecialAuthorityEnd c) buf r
    (by intro c hc; simp [hb c hc]) (by intro c hc; simp [hr c hc])

theorem fileHostState_nil (idna : Idna) (ov : Option Override) (u : Url) (r : List Nat)
    (hr : ∀ c, r.head? = some c → Impl.isSpecialAuthorityEnd c = true) :
    Impl.fileHostState idna ov u r =
      if ov.isSome then ⟨.ok, { u with host := some Impl.emptyHost }⟩
      else Impl.pathStartState ov { u with host := some Impl.emptyHost } r := by
  obtain ⟨h1, h2⟩ := fileHostState_split [] r (by simp) hr
  simp only [List.nil_append] at h1 h2
  unfold Impl.fileHostState
  simp only [h1, h2, if_true]

theorem fileHostState_drive (idna : Idna) (u : Url) (a b : Nat) (r : List Nat)
    (hb : ∀ c ∈ [a, b], Impl.isSpecialAuthorityEnd c = false)
    (hr : ∀ c, r.head? = some c → Impl.isSpecialAuthorityEnd c = true)
    (hd : Impl.isWindowsDrive a b = true) :
    Impl.fileHostState idna none u (a :: b :: r) = Impl.pathState none u (a :: b :: r) := by
  obtain ⟨h1, h2⟩ := fileHostState_split [a, b] r hb hr
  simp only [List.cons_append, List.nil_append] at h1 h2
  unfold Impl.fileHostState
  simp only [h1, h2]
  simp [hd]

theorem fileHostState_host (idna : Idna) (ov : Option Override) (u : Url) (buf r : List Nat)
    (hb : ∀ c ∈ buf, Impl.isSpecialAuthorityEnd c = false)
    (hr : ∀ c, r.head? = some c → Impl.isSpecialAuthorityEnd c = true)
    (hne : buf ≠ []) (hd : ¬ (ov.isNone ∧ Spec.isWindowsDriveLetter buf = true)) :
    Impl.fileHostState idna ov u (buf ++ r) =
      match Impl.parseHost idna buf (!u.isSpecial) with
      | none => ⟨.failure, u⟩
      | some h =>
        if ov.isSome then ⟨.ok, { u with host := some (if h.text = Impl.sLocalhost then Impl.emptyHost else h) }⟩
        else Impl.pathStartState ov { u with host := some (if h.text = Impl.sLocalhost then Impl.emptyHost else h) } r := by
  obtain ⟨h1, h2⟩ := fileHostState_split buf r hb hr
  unfold Impl.fileHostState
  simp only [h1, h2, if_neg hne]
  split
  · rw [if_neg (by simpa [Spec.isWindowsDriveLetter, Impl.isWindowsDrive] using hd)]
    cases Impl.parseHost idna _ (!u.isSpecial) <;> simp
  · simp only [Bool.and_false, Bool.false_eq_true, if_false]
    cases Impl.parseHost idna buf (!u.isSpecial) <;> simp

theorem wdl_cases (buf : List Nat) (h : Spec.isWindowsDriveLetter buf = true) :
    ∃ a b, buf = [a, b] ∧ isAlpha a = true ∧ (b = 0x3A ∨ b = 0x7C) := by
  unfold Spec.isWindowsDriveLetter at h
  split at h
  · next a b => exact ⟨a, b, rfl, by simpa using h⟩
  · simp at h

theorem enc_alpha (a : Nat) (h : isAlpha a = true) : Spec.utf8PercentEncodeChar Spec.pathSet a = [a] := by
  have : Spec.pathSet a = false := by
    simp [isAlpha] at h
    simp [Spec.pathSet, Spec.querySet, Spec.c0ControlSet]; omega
  simp [Spec.utf8PercentEncodeChar, this]


theorem end_of_drop {inp : Array Nat} {i : Nat} {r : List Nat} (hr : inp.toList.drop i = r)
    (hrend : ∀ c, r.head? = some c → Impl.isSpecialAuthorityEnd c = true) :
    ∀ c, inp[i]? = some c → Impl.isSpecialAuthorityEnd c = true := by
  intro c hc
  cases r with
  | nil => rw [(getElem?_of_drop_nil hr).1] at hc; cases hc
  | cons d ds =>
    rw [(getElem?_of_drop_cons hr).1] at hc
    injection hc with hc; subst hc; exact hrend d rfl

section fileHost
variable {R : Option Url × Url → Option Url × Url → Prop} (hR : ∀ x, R x x)
variable {idna : Idna} {base : Option Url}
variable (hHost : ∀ s o, (∀ c ∈ s, Spec.isScalar c = true) → Impl.parseHost idna s o = Spec.hostParse idna s o)

include hR hHost in
theorem run_fileHost_end_none
    (sim_path : SimR R idna base none .path 3 13 (fun _ => True) (Impl.pathState none))
    (sim_pathStart : SimR R idna base none .pathStart 3 13 (fun _ => True) (Impl.pathStartState none))
    (inp : Array Nat) (hsc : ∀ x ∈ inp.toList, Spec.isScalar x = true)
    (u : Url) (buf : List Nat) (f1 f2 f3 : Bool) (i j : Nat) (r : List Nat) (fuel : Nat)
    (hr : inp.toList.drop i = r) (hj : inp.toList.drop j = buf ++ r) (hij : j + buf.length = i)
    (hi : i ≤ inp.size)
    (hrend : ∀ c, r.head? = some c → Impl.isSpecialAuthorityEnd c = true)
    (hb : ∀ c ∈ buf, Impl.isSpecialAuthorityEnd c = false)
    (hf : fuel ≥ 3 * r.length + 18) :
    R (run idna inp base none fuel ⟨u, .fileHost, buf, f1, f2, f3, (i : Int)⟩)
      (resOf none (Impl.fileHostState idna none u (buf ++ r))) := by
  have hst := step_fileHost_end idna inp base ((none : Option Override).map ovState) u buf f1 f2 f3 i
    (end_of_drop hr hrend)
  simp only [Option.map_none, Option.isNone_none, true_and, Option.isSome_none, Bool.false_eq_true,
    if_false] at hst
  have hlen := drop_length hr
  by_cases hd : Spec.isWindowsDriveLetter buf = true
  · obtain ⟨a, b, rfl, ha, hb'⟩ := wdl_cases buf hd
    rw [if_pos hd] at hst
    obtain ⟨f, rfl, hf'⟩ := fuel_succ (n := 3 * r.length + 17) hf
    rw [run_continue' (j := i) f hst (by simp) hi]
    simp only [List.cons_append, List.nil_append] at hj
    obtain ⟨hca, hja, hj'⟩ := getElem?_of_drop_cons hj
    obtain ⟨hcb, hjb, hj''⟩ := getElem?_of_drop_cons hj'
    have hbe : ∀ c, c = 0x3A ∨ c = 0x7C → Spec.utf8PercentEncodeChar Spec.pathSet c = [c] := by
      intro c hc; rcases hc with rfl | rfl <;> decide
    have hae := hb a (by simp)
    have hbb := hb b (by simp)
    simp [Impl.isSpecialAuthorityEnd] at hae hbb
    obtain ⟨⟨⟨a1, a2⟩, a3⟩, a4⟩ := hae
    obtain ⟨⟨⟨b1, b2⟩, b3⟩, b4⟩ := hbb
    have e : run idna inp base none (f + 2) ⟨u, .path, [], f1, f2, f3, (j : Int)⟩ =
        run idna inp base none f ⟨u, .path, [a, b], f1, f2, f3, (i : Int)⟩ := by
      rw [run_continue' (j := j + 1) (f + 1)
        (step_path_other idna inp base _ u [] f1 f2 f3 j a hca a1 a4 a2 a3) (by simp) hja]
      rw [run_continue' (j := j + 1 + 1) f
        (step_path_other idna inp base _ u _ f1 f2 f3 (j + 1) b hcb b1 b4 b2 b3) (by simp) hjb]
      simp only [List.length_cons, List.length_nil] at hij
      have : j + 1 + 1 = i := by omega
      rw [this, enc_alpha a ha, hbe b hb']
      rfl
    simp only [List.cons_append, List.nil_append]
    rw [fileHostState_drive idna u a b r hb hrend (by simp [Impl.isWindowsDrive, ha]; simpa using hb')]
    rw [← e, ← hj]
    refine sim_path inp _ j (f + 2) rfl rfl rfl trivial (by omega) hsc ?_
    simp only [List.length_cons, List.length_nil] at hij
    omega
  · by_cases hne : buf = []
    · subst hne
      rw [if_neg hd, if_pos rfl] at hst
      rw [List.nil_append, fileHostState_nil idna none u r hrend]
      simp only [Option.isSome_none, Bool.false_eq_true, if_false]
      simp only [List.length_nil, Nat.add_zero] at hij
      subst hij
      rw [← hr]
      exact sim_pathStart.step_to (j := j) hst (by simp) trivial hi hsc (by omega)
    · rw [if_neg hd, if_neg hne] at hst
      have hbs : ∀ c ∈ buf, Spec.isScalar c = true := by
        intro c hc
        exact drop_scalar hsc hj c (List.mem_append_left _ hc)
      rw [fileHostState_host idna none u buf r hb hrend hne (by simp [hd]), hHost buf _ hbs]
      cases hh : Spec.hostParse idna buf (!Spec.isSpecial u) with
      | none =>
        rw [hh] at hst
        obtain ⟨f, rfl, hf'⟩ := fuel_succ (n := 3 * r.length + 17) hf
        rw [run_failure f hst]
        simp only [isSpecial_eq, hh]
        exact hR _
      | some h =>
        rw [hh] at hst
        simp only [isSpecial_eq, hh, Option.isSome_none, Bool.false_eq_true, if_false]
        rw [← hr]
        exact sim_pathStart.step_to (j := i) hst (by simp) trivial hi hsc (by omega)


include hHost in
theorem run_fileHost_end_ov (o : Override)
    (inp : Array Nat) (hsc : ∀ x ∈ inp.toList, Spec.isScalar x = true)
    (u : Url) (buf : List Nat) (f1 f2 f3 : Bool) (i j : Nat) (r : List Nat) (fuel : Nat)
    (hr : inp.toList.drop i = r) (hj : inp.toList.drop j = buf ++ r)
    (hrend : ∀ c, r.head? = some c → Impl.isSpecialAuthorityEnd c = true)
    (hb : ∀ c ∈ buf, Impl.isSpecialAuthorityEnd c = false)
    (hf : fuel ≥ 1) :
    run idna inp base (some (ovState o)) fuel ⟨u, .fileHost, buf, f1, f2, f3, (i : Int)⟩ =
      resOf (some o) (Impl.fileHostState idna (some o) u (buf ++ r)) := by
  have hst := step_fileHost_end idna inp base (some (ovState o)) u buf f1 f2 f3 i (end_of_drop hr hrend)
  simp only [Option.isNone_some, Bool.false_eq_true, false_and, if_false, Option.isSome_some, if_true] at hst
  obtain ⟨f, rfl, _⟩ := fuel_succ (n := 0) hf
  by_cases hne : buf = []
  · subst hne
    rw [if_pos rfl] at hst
    rw [run_done f hst, List.nil_append, fileHostState_nil idna (some o) u r hrend]
    rfl
  · rw [if_neg hne] at hst
    have hbs : ∀ c ∈ buf, Spec.isScalar c = true := by
      intro c hc
      exact drop_scalar hsc hj c (List.mem_append_left _ hc)
    rw [fileHostState_host idna (some o) u buf r hb hrend hne (by simp), hHost buf _ hbs]
    cases hh : Spec.hostParse idna buf (!Spec.isSpecial u) with
    | none =>
      rw [hh] at hst
      rw [run_failure f hst]
      simp only [isSpecial_eq, hh]
      rfl
    | some h =>
      rw [hh] at hst
      rw [run_done f hst]
      simp only [isSpecial_eq, hh]
      rfl

end fileHost
end Head

/-! ## file host state -/

theorem Head.split_end (l : List Nat) :
    (∀ c ∈ l.takeWhile (fun c => !Impl.isSpecialAuthorityEnd c), Impl.isSpecialAuthorityEnd c = false) ∧
    (∀ c, (l.dropWhile (fun c => !Impl.isSpecialAuthorityEnd c)).head? = some c → Impl.isSpecialAuthorityEnd c = true) := by
  constructor
  · intro c hc
    have := List.all_takeWhile (p := fun c => !Impl.isSpecialAuthorityEnd c) (l := l)
    rw [List.all_eq_true] at this
    simpa using this c hc
  · intro c hc
    have := List.head?_dropWhile_not (fun c => !Impl.isSpecialAuthorityEnd c) l
    rw [hc] at this
    simpa using this

section
variable {R : Option Url × Url → Option Url × Url → Prop} (hR : ∀ x, R x x)
variable {idna : Idna} {base : Option Url}
variable (hHost : ∀ s o, (∀ c ∈ s, Spec.isScalar c = true) → Impl.parseHost idna s o = Spec.hostParse idna s o)

include hR hHost in
/-- file host state, no override.  The Windows-drive-letter quirk (buffer kept for the path state) is
    handled by running the path state from the start of the buffer. -/
theorem sim_fileHost
    (sim_path : SimR R idna base none .path 3 13 (fun _ => True) (Impl.pathState none))
    (sim_pathStart : SimR R idna base none .pathStart 3 13 (fun _ => True) (Impl.pathStartState none)) :
    SimR R idna base none .fileHost 3 18 (fun _ => True) (Impl.fileHostState idna none) := by
  intro inp k i fuel hs hb hp _ hi hsc hf
  obtain ⟨u, st, buf, f1, f2, f3, p⟩ := k
  simp only at hs hb hp
  subst hs hb hp
  have hsplit := List.takeWhile_append_dropWhile (p := fun c => !Impl.isSpecialAuthorityEnd c) (l := inp.toList.drop i)
  obtain ⟨h1, h2⟩ := Head.split_end (inp.toList.drop i)
  generalize hs : (inp.toList.drop i).takeWhile (fun c => !Impl.isSpecialAuthorityEnd c) = s at hsplit h1
  generalize hr : (inp.toList.drop i).dropWhile (fun c => !Impl.isSpecialAuthorityEnd c) = r at hsplit h2
  have hlen : s.length + r.length = inp.size - i := by
    have := congrArg List.length hsplit
    simpa using this
  have hfu : fuel = (fuel - s.length) + s.length := by omega
  show R (run idna inp base none fuel _) _
  rw [hfu, Head.run_fileHost_scan idna inp base none u f1 f2 f3 s r i [] _ hsplit.symm h1]
  rw [← hsplit]
  have hr' : inp.toList.drop (i + s.length) = r := by
    rw [← List.drop_drop, ← hsplit]; simp
  exact Head.run_fileHost_end_none hR hHost sim_path sim_pathStart inp hsc u ([] ++ s) f1 f2 f3 (i + s.length) i r _
    hr' (by simpa using hsplit.symm) (by simp) (by omega) h2 (by simpa using h1) (by omega)


include hHost in
/-- file host state under a state override (entered from the host state of a file URL): ends in
    done / failure, no further state -/
theorem sim_fileHost_ov (o : Override) :
    SimAt idna base (some o) .fileHost 1 1 (fun _ => True) (Impl.fileHostState idna (some o)) := by
  intro inp k i fuel hs hb hp _ hi hsc hf
  obtain ⟨u, st, buf, f1, f2, f3, p⟩ := k
  simp only at hs hb hp
  subst hs hb hp
  have hsplit := List.takeWhile_append_dropWhile (p := fun c => !Impl.isSpecialAuthorityEnd c) (l := inp.toList.drop i)
  obtain ⟨h1, h2⟩ := Head.split_end (inp.toList.drop i)
  generalize hs : (inp.toList.drop i).takeWhile (fun c => !Impl.isSpecialAuthorityEnd c) = s at hsplit h1
  generalize hr : (inp.toList.drop i).dropWhile (fun c => !Impl.isSpecialAuthorityEnd c) = r at hsplit h2
  have hlen : s.length + r.length = inp.size - i := by
    have := congrArg List.length hsplit
    simpa using this
  have hfu : fuel = (fuel - s.length) + s.length := by omega
  show run idna inp base (some (ovState o)) fuel _ = _
  rw [hfu, Head.run_fileHost_scan idna inp base _ u f1 f2 f3 s r i [] _ hsplit.symm h1]
  rw [← hsplit]
  have hr' : inp.toList.drop (i + s.length) = r := by
    rw [← List.drop_drop, ← hsplit]; simp
  exact Head.run_fileHost_end_ov hHost o inp hsc u ([] ++ s) f1 f2 f3 (i + s.length) i r _
    hr' (by simpa using hsplit.symm) h2 (by simpa using h1) (by omega)

include hHost in
/-- the form the host state of C01Auth asks for -/
theorem sim_fileHost_isSome (ov : Option Override) (h : ov.isSome = true) :
    SimAt idna base ov .fileHost 1 1 (fun _ => True) (Impl.fileHostState idna ov) := by
  cases ov with
  | none => cases h
  | some o => exact sim_fileHost_ov hHost o

include hR hHost in
/-- file host state, any state override -/
theorem sim_fileHost_gen (ov : Option Override)
    (sim_path : SimR R idna base ov .path 3 13 (fun _ => True) (Impl.pathState ov))
    (sim_pathStart : SimR R idna base ov .pathStart 3 13 (fun _ => True) (Impl.pathStartState ov)) :
    SimR R idna base ov .fileHost 3 18 (fun _ => True) (Impl.fileHostState idna ov) := by
  cases ov with
  | none => exact sim_fileHost hR hHost sim_path sim_pathStart
  | some o => exact ((sim_fileHost_ov hHost o).toR hR).mono (by decide) (by decide) (fun _ h => h)

end
/-! ## file slash state -/

namespace Head

theorem ptr_neg1 (i : Nat) : ((i : Int) + 1 < 0) = False := by
  simp; omega

theorem isSlash_iff (c : Nat) : Impl.isSlash c = true ↔ (c = 0x2F ∨ c = 0x5C) := by
  simp [Impl.isSlash]

section steps
variable (idna : Idna) (inp : Array Nat) (base : Option Url) (ov : Option State)

theorem step_fileSlash_slash (u : Url) (buf : List Nat) (f1 f2 f3 : Bool) (i c : Nat)
    (hc : inp[i]? = some c) (h : Impl.isSlash c = true) :
    step idna inp base ov ⟨u, .fileSlash, buf, f1, f2, f3, (i : Int)⟩ =
      .continue ⟨u, .fileHost, buf, f1, f2, f3, (i : Int)⟩ := by
  unfold step
  simp only [Int.toNat_natCast, ptr_neg, if_false, hc]
  rw [isSlash_iff] at h
  rcases h with rfl | rfl <;> simp

end steps

/-- the file slash state's "otherwise" branch: one run into the path state, and the code's URL -/
theorem step_fileSlash_default (idna : Idna) (inp : Array Nat) (base : Option Url) (ov : Option Override)
    (u : Url) (buf : List Nat) (f1 f2 f3 : Bool) (i : Nat)
    (hns : ∀ c, inp[i]? = some c → Impl.isSlash c = false) :
    ∃ u', step idna inp base (ov.map ovState) ⟨u, .fileSlash, buf, f1, f2, f3, (i : Int)⟩ =
        .continue ⟨u', .path, buf, f1, f2, f3, (i : Int) - 1⟩ ∧
      Impl.fileSlashState.fileSlashDefault base ov u (inp.toList.drop i) =
        Impl.pathState ov u' (inp.toList.drop i) := by
  have hcc : ¬ ((inp[i]? == some 47) = true ∨ (inp[i]? == some 92) = true) := by
    cases hc : inp[i]? with
    | none => simp
    | some c => have := hns c hc; simp [Impl.isSlash] at this; simp [this]
  unfold step Impl.fileSlashState.fileSlashDefault
  simp only [Int.toNat_natCast, ptr_neg, if_false, fromP_eq, swd_eq, if_neg hcc]
  cases base with
  | none => exact ⟨u, rfl, rfl⟩
  | some b =>
    simp only [isFile_iff]
    by_cases hb : b.scheme = Impl.sFile
    · simp only [if_pos hb]
      refine ⟨_, rfl, ?_⟩
      congr 1
      by_cases hw : (!Impl.startsWithWindowsDrive (List.drop i inp.toList)) = true
      · simp only [hw, if_true, true_and]
        rcases hbp : b.path with _ | ⟨seg, t⟩
        · simp
        · match seg with
          | [a, c] => simp [Spec.isNormalizedWindowsDriveLetter, Impl.isNormalizedWindowsDrive, List.head!]
          | [] => simp [Spec.isNormalizedWindowsDriveLetter]
          | [_] => simp [Spec.isNormalizedWindowsDriveLetter]
          | _ :: _ :: _ :: _ => simp [Spec.isNormalizedWindowsDriveLetter]
      · simp [hw]
    · simp only [if_neg hb]
      exact ⟨u, rfl, rfl⟩

end Head

section fileSlash
variable {R : Option Url × Url → Option Url × Url → Prop}
variable {idna : Idna} {base : Option Url} {ov : Option Override}

theorem Head.drop_cases (inp : Array Nat) (i : Nat) :
    (inp.toList.drop i = [] ∧ inp[i]? = none ∧ inp.size ≤ i) ∨
    (∃ c r, inp.toList.drop i = c :: r ∧ inp[i]? = some c ∧ i < inp.size ∧ inp.toList.drop (i + 1) = r) := by
  cases hr : inp.toList.drop i with
  | nil => exact Or.inl ⟨rfl, getElem?_of_drop_nil hr⟩
  | cons c r => exact Or.inr ⟨c, r, rfl, getElem?_of_drop_cons hr⟩

theorem sim_fileSlash
    (sim_fileHost : SimR R idna base ov .fileHost 3 18 (fun _ => True) (Impl.fileHostState idna ov))
    (sim_path : SimR R idna base ov .path 3 13 (fun _ => True) (Impl.pathState ov)) :
    SimR R idna base ov .fileSlash 3 16 (fun _ => True) (Impl.fileSlashState idna base ov) := by
  intro inp k i fuel hs hb hp _ hi hsc hf
  obtain ⟨u, st, buf, f1, f2, f3, p⟩ := k
  simp only at hs hb hp
  subst hs hb hp
  rcases Head.drop_cases inp i with ⟨hr, hc, hsz⟩ | ⟨c, r, hr, hc, hsz, hr'⟩
  · obtain ⟨u', hst, himpl⟩ := Head.step_fileSlash_default idna inp base ov u [] f1 f2 f3 i
      (by intro c h; rw [hc] at h; cases h)
    have e : Impl.fileSlashState idna base ov u (inp.toList.drop i) =
        Impl.fileSlashState.fileSlashDefault base ov u (inp.toList.drop i) := by rw [hr]; rfl
    rw [e, himpl]
    refine sim_path.step_to (j := i) hst ?_ trivial hi hsc ?_
    · simp
    · omega
  · by_cases hsl : Impl.isSlash c = true
    · have hst := Head.step_fileSlash_slash idna inp base (ov.map ovState) u [] f1 f2 f3 i c hc hsl
      have e : Impl.fileSlashState idna base ov u (inp.toList.drop i) = Impl.fileHostState idna ov u r := by
        rw [hr]; unfold Impl.fileSlashState; simp only [hsl, if_true]
      rw [e, ← hr']
      refine sim_fileHost.step_to (j := i + 1) hst ?_ trivial hsz hsc ?_
      · simp
      · omega
    · obtain ⟨u', hst, himpl⟩ := Head.step_fileSlash_default idna inp base ov u [] f1 f2 f3 i
        (by intro c' h; rw [hc] at h; injection h with h; subst h; simpa using hsl)
      have e : Impl.fileSlashState idna base ov u (inp.toList.drop i) =
          Impl.fileSlashState.fileSlashDefault base ov u (inp.toList.drop i) := by
        rw [hr]; unfold Impl.fileSlashState; simp only [hsl, Bool.false_eq_true, if_false]
      rw [e, himpl]
      refine sim_path.step_to (j := i) hst ?_ trivial hi hsc ?_
      · simp
      · omega

end fileSlash
/-! ## file state -/

namespace Head

/-- the URL after the first two assignments of the file state -/
def fileUrl (u : Url) : Url := { u with scheme := Impl.sFile, host := some Spec.emptyHost }

theorem fileUrl_eq (u : Url) :
    { (if !u.isFile then { u with scheme := Impl.sFile } else u) with host := some Impl.emptyHost } = fileUrl u := by
  by_cases h : u.isFile = true
  · have := (isFile_iff u).1 h
    obtain ⟨sc, un, pw, ho, po, hop, op, pa, q, f⟩ := u
    simp only at this
    subst this
    simp [h, fileUrl, Impl.emptyHost, Spec.emptyHost]
  · simp [h, fileUrl, Impl.emptyHost, Spec.emptyHost]

section steps
variable (idna : Idna) (inp : Array Nat) (base : Option Url) (ov : Option State)

theorem step_file_slash (u : Url) (buf : List Nat) (f1 f2 f3 : Bool) (i c : Nat)
    (hc : inp[i]? = some c) (h : Impl.isSlash c = true) :
    step idna inp base ov ⟨u, .file, buf, f1, f2, f3, (i : Int)⟩ =
      .continue ⟨fileUrl u, .fileSlash, buf, f1, f2, f3, (i : Int)⟩ := by
  unfold step
  simp only [Int.toNat_natCast, ptr_neg, if_false, hc]
  rw [isSlash_iff] at h
  rcases h with rfl | rfl <;> simp [fileUrl]

theorem not_slash_opt {inp : Array Nat} {i : Nat} (hns : ∀ c, inp[i]? = some c → Impl.isSlash c = false) :
    ¬ ((inp[i]? == some 47) = true ∨ (inp[i]? == some 92) = true) := by
  cases hc : inp[i]? with
  | none => simp
  | some c => have := hns c hc; simp [Impl.isSlash] at this; simp [this]

theorem step_file_nobase (u : Url) (buf : List Nat) (f1 f2 f3 : Bool) (i : Nat)
    (hns : ∀ c, inp[i]? = some c → Impl.isSlash c = false)
    (hb : ∀ b, base = some b → b.scheme ≠ Impl.sFile) :
    step idna inp base ov ⟨u, .file, buf, f1, f2, f3, (i : Int)⟩ =
      .continue ⟨fileUrl u, .path, buf, f1, f2, f3, (i : Int) - 1⟩ := by
  unfold step
  simp only [Int.toNat_natCast, ptr_neg, if_false, if_neg (not_slash_opt hns)]
  cases base with
  | none => rfl
  | some b => simp only [if_neg (hb b rfl)]; rfl

theorem step_file_base_eof (u b : Url) (buf : List Nat) (f1 f2 f3 : Bool) (i : Nat)
    (hc : inp[i]? = none) (hb : b.scheme = Impl.sFile) :
    step idna inp (some b) ov ⟨u, .file, buf, f1, f2, f3, (i : Int)⟩ =
      .continue ⟨{ fileUrl u with host := b.host, path := b.path, query := b.query }, .file, buf, f1, f2, f3, (i : Int)⟩ := by
  unfold step
  simp only [Int.toNat_natCast, ptr_neg, if_false, hc, if_pos hb]
  simp [fileUrl]

theorem step_file_base_q (u b : Url) (buf : List Nat) (f1 f2 f3 : Bool) (i : Nat)
    (hc : inp[i]? = some 0x3F) (hb : b.scheme = Impl.sFile) :
    step idna inp (some b) ov ⟨u, .file, buf, f1, f2, f3, (i : Int)⟩ =
      .continue ⟨{ fileUrl u with host := b.host, path := b.path, query := some [] }, .query, buf, f1, f2, f3, (i : Int)⟩ := by
  unfold step
  simp only [Int.toNat_natCast, ptr_neg, if_false, hc, if_pos hb]
  simp [fileUrl]

theorem step_file_base_h (u b : Url) (buf : List Nat) (f1 f2 f3 : Bool) (i : Nat)
    (hc : inp[i]? = some 0x23) (hb : b.scheme = Impl.sFile) :
    step idna inp (some b) ov ⟨u, .file, buf, f1, f2, f3, (i : Int)⟩ =
      .continue ⟨{ fileUrl u with host := b.host, path := b.path, query := b.query, fragment := some [] },
        .fragment, buf, f1, f2, f3, (i : Int)⟩ := by
  unfold step
  simp only [Int.toNat_natCast, ptr_neg, if_false, hc, if_pos hb]
  simp [fileUrl]

theorem step_file_base_other (u b : Url) (buf : List Nat) (f1 f2 f3 : Bool) (i c : Nat)
    (hc : inp[i]? = some c) (hb : b.scheme = Impl.sFile)
    (h1 : Impl.isSlash c = false) (h2 : c ≠ 0x3F) (h3 : c ≠ 0x23) :
    step idna inp (some b) ov ⟨u, .file, buf, f1, f2, f3, (i : Int)⟩ =
      .continue ⟨if !Impl.startsWithWindowsDrive (inp.toList.drop i) then
                   Impl.shortenPath { fileUrl u with host := b.host, path := b.path, query := none }
                 else { fileUrl u with host := b.host, path := [], query := none },
        .path, buf, f1, f2, f3, (i : Int) - 1⟩ := by
  unfold step
  simp only [Int.toNat_natCast, ptr_neg, if_false, hc, if_pos hb, fromP_eq, swd_eq, shortenPath_eq]
  simp [Impl.isSlash] at h1
  simp [fileUrl, h1, h2, h3]

end steps

theorem fileState_eq (idna : Idna) (base : Option Url) (ov : Option Override) (u : Url) (p : List Nat) :
    Impl.fileState idna base ov u p =
      match p with
      | c :: r => if Impl.isSlash c then Impl.fileSlashState idna base ov (fileUrl u) r
                  else Impl.fileState.fileDefault base ov (fileUrl u) p
      | [] => Impl.fileState.fileDefault base ov (fileUrl u) p := by
  unfold Impl.fileState
  simp only [fileUrl_eq]
  cases p <;> rfl

end Head

section file
variable {R : Option Url × Url → Option Url × Url → Prop} (hR : ∀ x, R x x)
variable {idna : Idna} {base : Option Url} {ov : Option Override}

include hR in
theorem sim_file
    (sim_fileSlash : SimR R idna base ov .fileSlash 3 16 (fun _ => True) (Impl.fileSlashState idna base ov))
    (sim_path : SimR R idna base ov .path 3 13 (fun _ => True) (Impl.pathState ov))
    (sim_query : SimR R idna base ov .query 3 13 (fun k => k.url.query.getD [] = []) (Impl.queryState ov))
    (sim_fragment : SimR R idna base ov .fragment 3 13 (fun k => k.url.fragment = some []) Impl.fragmentState) :
    SimR R idna base ov .file 3 14 (fun k => k.url.path = [] ∧ k.url.query = none)
      (Impl.fileState idna base ov) := by
  intro inp k i fuel hs hb hp hpre hi hsc hf
  obtain ⟨u, st, buf, f1, f2, f3, p⟩ := k
  simp only at hs hb hp hpre
  subst hs hb hp
  obtain ⟨hpath, hquery⟩ := hpre
  rw [Head.fileState_eq]
  by_cases hbase : ∃ b, base = some b ∧ b.scheme = Impl.sFile
  · obtain ⟨b, rfl, hbf⟩ := hbase
    have hbf' : b.isFile = true := (Head.isFile_iff b).2 hbf
    rcases Head.drop_cases inp i with ⟨hr, hc, hsz⟩ | ⟨c, r, hr, hc, hsz, hr'⟩
    · have hst := Head.step_file_base_eof idna inp (ov.map ovState) u b [] f1 f2 f3 i hc hbf
      obtain ⟨f, rfl, _⟩ := fuel_succ (n := 0) (by omega : fuel ≥ 0 + 1)
      rw [run_stop f hst (by simp only; omega), hr]
      simp only [Impl.fileState.fileDefault, hbf', if_true]
      exact hR _
    · rw [hr]
      simp only
      by_cases hsl : Impl.isSlash c = true
      · have hst := Head.step_file_slash idna inp (some b) (ov.map ovState) u [] f1 f2 f3 i c hc hsl
        rw [if_pos hsl, ← hr']
        refine sim_fileSlash.step_to (j := i + 1) hst ?_ trivial hsz hsc ?_
        · simp
        · omega
      · rw [if_neg hsl]
        simp only [Impl.fileState.fileDefault, hbf', if_true]
        by_cases h2 : c = 0x3F
        · subst h2
          have hst := Head.step_file_base_q idna inp (ov.map ovState) u b [] f1 f2 f3 i hc hbf
          simp only [if_true]
          rw [← hr', ← queryState_setQuery ov _ (some [])]
          refine sim_query.step_to (j := i + 1) hst ?_ rfl hsz hsc ?_
          · simp
          · omega
        · by_cases h3 : c = 0x23
          · subst h3
            have hst := Head.step_file_base_h idna inp (ov.map ovState) u b [] f1 f2 f3 i hc hbf
            simp only [if_neg h2, if_true]
            rw [← hr', ← fragmentState_setFragment _ (some [])]
            refine sim_fragment.step_to (j := i + 1) hst ?_ rfl hsz hsc ?_
            · simp
            · omega
          · have hst := Head.step_file_base_other idna inp (ov.map ovState) u b [] f1 f2 f3 i c hc hbf
              (by simpa using hsl) h2 h3
            simp only [if_neg h2, if_neg h3]
            have e1 : ({ Head.fileUrl u with host := b.host, path := b.path, query := none } : Url) =
                { Head.fileUrl u with host := b.host, path := b.path } := by
              cases u; simp_all [Head.fileUrl]
            have e2 : ({ Head.fileUrl u with host := b.host, path := [], query := none } : Url) =
                { Head.fileUrl u with host := b.host } := by
              cases u; simp_all [Head.fileUrl]
            rw [e1, e2] at hst
            rw [← hr]
            by_cases hw : (!Impl.startsWithWindowsDrive (inp.toList.drop i)) = true
            · rw [if_pos hw] at hst
              rw [if_pos hw]
              refine sim_path.step_to (j := i) hst ?_ trivial hi hsc ?_
              · simp
              · omega
            · rw [if_neg hw] at hst
              rw [if_neg hw]
              refine sim_path.step_to (j := i) hst ?_ trivial hi hsc ?_
              · simp
              · omega
  · have hnb : ∀ b, base = some b → b.scheme ≠ Impl.sFile := fun b h1 h2 => hbase ⟨b, h1, h2⟩
    have hdef : ∀ p, Impl.fileState.fileDefault base ov (Head.fileUrl u) p = Impl.pathState ov (Head.fileUrl u) p := by
      intro p
      unfold Impl.fileState.fileDefault
      cases base with
      | none => rfl
      | some b =>
        have : b.isFile = false := by
          have := hnb b rfl
          simpa [Url.isFile, Impl.isFileScheme] using this
        simp only [this, Bool.false_eq_true, if_false]
    rcases Head.drop_cases inp i with ⟨hr, hc, hsz⟩ | ⟨c, r, hr, hc, hsz, hr'⟩
    · have hst := Head.step_file_nobase idna inp base (ov.map ovState) u [] f1 f2 f3 i
        (by intro c h; rw [hc] at h; cases h) hnb
      have e : (match inp.toList.drop i with
          | c :: r => if Impl.isSlash c then Impl.fileSlashState idna base ov (Head.fileUrl u) r
                      else Impl.fileState.fileDefault base ov (Head.fileUrl u) (inp.toList.drop i)
          | [] => Impl.fileState.fileDefault base ov (Head.fileUrl u) (inp.toList.drop i)) =
          Impl.pathState ov (Head.fileUrl u) (inp.toList.drop i) := by
        rw [hr]; exact hdef []
      rw [e]
      refine sim_path.step_to (j := i) hst ?_ trivial hi hsc ?_
      · simp
      · omega
    · by_cases hsl : Impl.isSlash c = true
      · have hst := Head.step_file_slash idna inp base (ov.map ovState) u [] f1 f2 f3 i c hc hsl
        rw [hr]
        simp only
        rw [if_pos hsl, ← hr']
        refine sim_fileSlash.step_to (j := i + 1) hst ?_ trivial hsz hsc ?_
        · simp
        · omega
      · have hst := Head.step_file_nobase idna inp base (ov.map ovState) u [] f1 f2 f3 i
          (by intro c' h; rw [hc] at h; injection h with h; subst h; simpa using hsl) hnb
        have e : (match inp.toList.drop i with
            | c :: r => if Impl.isSlash c then Impl.fileSlashState idna base ov (Head.fileUrl u) r
                        else Impl.fileState.fileDefault base ov (Head.fileUrl u) (inp.toList.drop i)
            | [] => Impl.fileState.fileDefault base ov (Head.fileUrl u) (inp.toList.drop i)) =
            Impl.pathState ov (Head.fileUrl u) (inp.toList.drop i) := by
          rw [hr]; simp only [if_neg hsl]; exact hdef _
        rw [e]
        refine sim_path.step_to (j := i) hst ?_ trivial hi hsc ?_
        · simp
        · omega

end file
/-! ## relative slash state, relative state -/

/-- the configuration the no-override parser has before the authority / path states are entered:
    flags unset and nothing but the scheme written to the URL -/
def Fresh (k : Cfg) : Prop :=
  k.atSignSeen = false ∧ k.insideBrackets = false ∧ k.passwordTokenSeen = false ∧
  k.url = { scheme := k.url.scheme }

namespace Head

section steps
variable (idna : Idna) (inp : Array Nat) (b : Url) (ov : Option State)

theorem step_relativeSlash_special (u : Url) (buf : List Nat) (f1 f2 f3 : Bool) (i c : Nat)
    (hc : inp[i]? = some c) (hs : u.isSpecial = true) (h : Impl.isSlash c = true) :
    step idna inp (some b) ov ⟨u, .relativeSlash, buf, f1, f2, f3, (i : Int)⟩ =
      .continue ⟨u, .specialAuthorityIgnoreSlashes, buf, f1, f2, f3, (i : Int)⟩ := by
  unfold step
  simp only [Int.toNat_natCast, ptr_neg, if_false, hc]
  rw [isSlash_iff] at h
  rw [isSpecial_eq] at hs
  rcases h with rfl | rfl <;> simp [hs]

theorem step_relativeSlash_slash (u : Url) (buf : List Nat) (f1 f2 f3 : Bool) (i : Nat)
    (hc : inp[i]? = some 0x2F) (hs : u.isSpecial = false) :
    step idna inp (some b) ov ⟨u, .relativeSlash, buf, f1, f2, f3, (i : Int)⟩ =
      .continue ⟨u, .authority, buf, f1, f2, f3, (i : Int)⟩ := by
  unfold step
  simp only [Int.toNat_natCast, ptr_neg, if_false, hc]
  rw [isSpecial_eq] at hs
  simp [hs]

theorem step_relativeSlash_other (u : Url) (buf : List Nat) (f1 f2 f3 : Bool) (i : Nat)
    (h1 : inp[i]? ≠ some 0x2F) (h2 : inp[i]? = some 0x5C → u.isSpecial = false) :
    step idna inp (some b) ov ⟨u, .relativeSlash, buf, f1, f2, f3, (i : Int)⟩ =
      .continue ⟨Impl.copyAuthority u b, .path, buf, f1, f2, f3, (i : Int) - 1⟩ := by
  unfold step
  simp only [Int.toNat_natCast, ptr_neg, if_false]
  have e1 : (inp[i]? == some 47) = false := by simpa using h1
  by_cases h3 : inp[i]? = some 0x5C
  · have := h2 h3
    rw [isSpecial_eq] at this
    simp [e1, this, Impl.copyAuthority]
  · have e2 : (inp[i]? == some 92) = false := by simpa using h3
    simp [e1, e2, Impl.copyAuthority]


/-- everything the relative state copies from the base URL -/
def relCopy (u b : Url) : Url :=
  { Impl.copyPath (Impl.copyAuthority { u with scheme := b.scheme } b) b with query := b.query }

theorem step_relative_slash (u : Url) (buf : List Nat) (f1 f2 f3 : Bool) (i c : Nat)
    (hc : inp[i]? = some c) (h : c = 0x2F ∨ (c = 0x5C ∧ Impl.isSpecialScheme b.scheme = true)) :
    step idna inp (some b) ov ⟨u, .relative, buf, f1, f2, f3, (i : Int)⟩ =
      .continue ⟨{ u with scheme := b.scheme }, .relativeSlash, buf, f1, f2, f3, (i : Int)⟩ := by
  unfold step
  simp only [Int.toNat_natCast, ptr_neg, if_false, hc]
  rcases h with rfl | ⟨rfl, h⟩
  · simp
  · simp [Spec.isSpecial, h]

theorem step_relative_q (u : Url) (buf : List Nat) (f1 f2 f3 : Bool) (i : Nat)
    (hc : inp[i]? = some 0x3F) :
    step idna inp (some b) ov ⟨u, .relative, buf, f1, f2, f3, (i : Int)⟩ =
      .continue ⟨{ relCopy u b with query := some [] }, .query, buf, f1, f2, f3, (i : Int)⟩ := by
  unfold step
  simp only [Int.toNat_natCast, ptr_neg, if_false, hc]
  simp [relCopy, Impl.copyPath, Impl.copyAuthority]

theorem step_relative_h (u : Url) (buf : List Nat) (f1 f2 f3 : Bool) (i : Nat)
    (hc : inp[i]? = some 0x23) :
    step idna inp (some b) ov ⟨u, .relative, buf, f1, f2, f3, (i : Int)⟩ =
      .continue ⟨{ relCopy u b with fragment := some [] }, .fragment, buf, f1, f2, f3, (i : Int)⟩ := by
  unfold step
  simp only [Int.toNat_natCast, ptr_neg, if_false, hc]
  simp [relCopy, Impl.copyPath, Impl.copyAuthority]

theorem step_relative_eof (u : Url) (buf : List Nat) (f1 f2 f3 : Bool) (i : Nat)
    (hc : inp[i]? = none) :
    step idna inp (some b) ov ⟨u, .relative, buf, f1, f2, f3, (i : Int)⟩ =
      .continue ⟨relCopy u b, .relative, buf, f1, f2, f3, (i : Int)⟩ := by
  unfold step
  simp only [Int.toNat_natCast, ptr_neg, if_false, hc]
  simp [relCopy, Impl.copyPath, Impl.copyAuthority]

theorem step_relative_other (u : Url) (buf : List Nat) (f1 f2 f3 : Bool) (i c : Nat)
    (hc : inp[i]? = some c) (h1 : c ≠ 0x2F) (h2 : c = 0x5C → Impl.isSpecialScheme b.scheme = false)
    (h3 : c ≠ 0x3F) (h4 : c ≠ 0x23) :
    step idna inp (some b) ov ⟨u, .relative, buf, f1, f2, f3, (i : Int)⟩ =
      .continue ⟨Spec.shorten { relCopy u b with query := none }, .path, buf, f1, f2, f3, (i : Int) - 1⟩ := by
  unfold step
  simp only [Int.toNat_natCast, ptr_neg, if_false, hc]
  by_cases h5 : c = 0x5C
  · have := h2 h5
    subst h5
    simp [relCopy, Impl.copyPath, Impl.copyAuthority, Spec.isSpecial, this]
  · simp [relCopy, Impl.copyPath, Impl.copyAuthority, h1, h3, h4, h5]

end steps

theorem shorten_nonfile (u : Url) (h : u.scheme ≠ Impl.sFile) : Spec.shorten u = Impl.removeLastSegment u := by
  unfold Spec.shorten Impl.removeLastSegment
  rw [if_neg (by intro hh; exact h hh.1)]

end Head

section relative
variable {R : Option Url × Url → Option Url × Url → Prop} (hR : ∀ x, R x x)
variable {idna : Idna} {base : Option Url} {ov : Option Override}

theorem sim_relativeSlash (b : Url) (hbase : base = some b)
    (sim_ignoreSlashes : SimR R idna base ov .specialAuthorityIgnoreSlashes 3 13 Fresh (Impl.ignoreSlashesState idna ov))
    (sim_authority : SimR R idna base ov .authority 3 13 Fresh (Impl.authorityState idna ov))
    (sim_path : SimR R idna base ov .path 3 13 (fun _ => True) (Impl.pathState ov)) :
    SimR R idna base ov .relativeSlash 3 14 Fresh (Impl.relativeSlashState idna b ov) := by
  subst hbase
  intro inp k i fuel hs hb hp hpre hi hsc hf
  obtain ⟨u, st, buf, f1, f2, f3, p⟩ := k
  simp only at hs hb hp
  subst hs hb hp
  rcases Head.drop_cases inp i with ⟨hr, hc, hsz⟩ | ⟨c, r, hr, hc, hsz, hr'⟩
  · have hst := Head.step_relativeSlash_other idna inp b (ov.map ovState) u [] f1 f2 f3 i
      (by rw [hc]; simp) (by rw [hc]; simp)
    have e : Impl.relativeSlashState idna b ov u (inp.toList.drop i) =
        Impl.pathState ov (Impl.copyAuthority u b) (inp.toList.drop i) := by rw [hr]; rfl
    rw [e]
    refine sim_path.step_to (j := i) hst ?_ trivial hi hsc ?_
    · simp
    · omega
  · by_cases hsp : u.isSpecial = true
    · by_cases hsl : Impl.isSlash c = true
      · have hst := Head.step_relativeSlash_special idna inp b (ov.map ovState) u [] f1 f2 f3 i c hc hsp hsl
        have e : Impl.relativeSlashState idna b ov u (inp.toList.drop i) =
            Impl.ignoreSlashesState idna ov u (inp.toList.drop (i + 1)) := by
          rw [hr, hr']; unfold Impl.relativeSlashState
          rw [Head.isSlash_iff] at hsl
          rcases hsl with rfl | rfl <;> simp [hsp]
        rw [e]
        refine sim_ignoreSlashes.step_to (j := i + 1) hst ?_ hpre hsz hsc ?_
        · simp
        · omega
      · have hsl' : c ≠ 0x2F ∧ c ≠ 0x5C := by simpa [Impl.isSlash] using hsl
        have hst := Head.step_relativeSlash_other idna inp b (ov.map ovState) u [] f1 f2 f3 i
          (by rw [hc]; simp [hsl'.1]) (by rw [hc]; simp [hsl'.2])
        have e : Impl.relativeSlashState idna b ov u (inp.toList.drop i) =
            Impl.pathState ov (Impl.copyAuthority u b) (inp.toList.drop i) := by
          rw [hr]; unfold Impl.relativeSlashState; simp [hsl'.1, hsl'.2]
        rw [e]
        refine sim_path.step_to (j := i) hst ?_ trivial hi hsc ?_
        · simp
        · omega
    · have hsp' : u.isSpecial = false := by simpa using hsp
      by_cases h2 : c = 0x2F
      · subst h2
        have hst := Head.step_relativeSlash_slash idna inp b (ov.map ovState) u [] f1 f2 f3 i hc hsp'
        have e : Impl.relativeSlashState idna b ov u (inp.toList.drop i) =
            Impl.authorityState idna ov u (inp.toList.drop (i + 1)) := by
          rw [hr, hr']; unfold Impl.relativeSlashState; simp [hsp']
        rw [e]
        refine sim_authority.step_to (j := i + 1) hst ?_ hpre hsz hsc ?_
        · simp
        · omega
      · have hst := Head.step_relativeSlash_other idna inp b (ov.map ovState) u [] f1 f2 f3 i
          (by rw [hc]; simp [h2]) (by intro _; exact hsp')
        have e : Impl.relativeSlashState idna b ov u (inp.toList.drop i) =
            Impl.pathState ov (Impl.copyAuthority u b) (inp.toList.drop i) := by
          rw [hr]; unfold Impl.relativeSlashState; simp [h2, hsp']
        rw [e]
        refine sim_path.step_to (j := i) hst ?_ trivial hi hsc ?_
        · simp
        · omega


theorem Fresh.query {k : Cfg} (h : Fresh k) : k.url.query = none := by
  rw [h.2.2.2]
theorem Fresh.path {k : Cfg} (h : Fresh k) : k.url.path = [] := by
  rw [h.2.2.2]
theorem Fresh.opaquePath {k : Cfg} (h : Fresh k) : k.url.opaquePath = [] := by
  rw [h.2.2.2]

theorem Fresh.setScheme {u : Url} {S S' : State} {buf buf' : List Nat} {f1 f2 f3 : Bool} {p p' : Int}
    (h : Fresh ⟨u, S, buf, f1, f2, f3, p⟩) (s : List Nat) :
    Fresh ⟨{ u with scheme := s }, S', buf', f1, f2, f3, p'⟩ := by
  obtain ⟨h1, h2, h3, h4⟩ := h
  refine ⟨h1, h2, h3, ?_⟩
  simp only at h4 ⊢
  rw [h4]

include hR in
theorem sim_relative (b : Url) (hbase : base = some b) (hnf : b.scheme ≠ Impl.sFile)
    (sim_relativeSlash : SimR R idna base ov .relativeSlash 3 14 Fresh (Impl.relativeSlashState idna b ov))
    (sim_path : SimR R idna base ov .path 3 13 (fun _ => True) (Impl.pathState ov))
    (sim_query : SimR R idna base ov .query 3 13 (fun k => k.url.query.getD [] = []) (Impl.queryState ov))
    (sim_fragment : SimR R idna base ov .fragment 3 13 (fun k => k.url.fragment = some []) Impl.fragmentState) :
    SimR R idna base ov .relative 3 14 Fresh (Impl.relativeState idna b ov) := by
  subst hbase
  intro inp k i fuel hs hb hp hpre hi hsc hf
  obtain ⟨u, st, buf, f1, f2, f3, p⟩ := k
  simp only at hs hb hp
  subst hs hb hp
  have hq : u.query = none := hpre.query
  rcases Head.drop_cases inp i with ⟨hr, hc, hsz⟩ | ⟨c, r, hr, hc, hsz, hr'⟩
  · have hst := Head.step_relative_eof idna inp b (ov.map ovState) u [] f1 f2 f3 i hc
    obtain ⟨f, rfl, _⟩ := fuel_succ (n := 0) (by omega : fuel ≥ 0 + 1)
    rw [run_stop f hst (by simp only; omega), hr]
    exact hR _
  · by_cases h1 : c = 0x2F ∨ (c = 0x5C ∧ Impl.isSpecialScheme b.scheme = true)
    · have hst := Head.step_relative_slash idna inp b (ov.map ovState) u [] f1 f2 f3 i c hc h1
      have e : Impl.relativeState idna b ov u (inp.toList.drop i) =
          Impl.relativeSlashState idna b ov { u with scheme := b.scheme } (inp.toList.drop (i + 1)) := by
        rw [hr, hr']; unfold Impl.relativeState
        rcases h1 with rfl | ⟨rfl, h⟩
        · simp
        · simp [Url.isSpecial, h]
      rw [e]
      refine sim_relativeSlash.step_to (j := i + 1) hst ?_ (hpre.setScheme _) hsz hsc ?_
      · simp
      · omega
    · have h1a : c ≠ 0x2F := fun h => h1 (Or.inl h)
      have h1b : c = 0x5C → Impl.isSpecialScheme b.scheme = false := by
        intro h; cases hh : Impl.isSpecialScheme b.scheme with
        | false => rfl
        | true => exact absurd (Or.inr ⟨h, hh⟩) h1
      by_cases h2 : c = 0x3F
      · subst h2
        have hst := Head.step_relative_q idna inp b (ov.map ovState) u [] f1 f2 f3 i hc
        have e : Impl.relativeState idna b ov u (inp.toList.drop i) =
            Impl.queryState ov { Head.relCopy u b with query := some [] } (inp.toList.drop (i + 1)) := by
          rw [hr, hr', queryState_setQuery]; unfold Impl.relativeState
          simp only [if_neg h1a]
          simp only [if_true]
          rw [← queryState_setQuery ov _ b.query]
          rfl
        rw [e]
        refine sim_query.step_to (j := i + 1) hst ?_ rfl hsz hsc ?_
        · simp
        · omega
      · by_cases h3 : c = 0x23
        · subst h3
          have hst := Head.step_relative_h idna inp b (ov.map ovState) u [] f1 f2 f3 i hc
          have e : Impl.relativeState idna b ov u (inp.toList.drop i) =
              Impl.fragmentState { Head.relCopy u b with fragment := some [] } (inp.toList.drop (i + 1)) := by
            rw [hr, hr', fragmentState_setFragment]; unfold Impl.relativeState
            simp only [if_neg h1a, if_neg h2]
            simp only [if_true]
            rfl
          rw [e]
          refine sim_fragment.step_to (j := i + 1) hst ?_ rfl hsz hsc ?_
          · simp
          · omega
        · have hst := Head.step_relative_other idna inp b (ov.map ovState) u [] f1 f2 f3 i c hc h1a h1b h2 h3
          have e : Impl.relativeState idna b ov u (inp.toList.drop i) =
              Impl.pathState ov (Spec.shorten { Head.relCopy u b with query := none }) (inp.toList.drop i) := by
            rw [Head.shorten_nonfile { Head.relCopy u b with query := none } hnf]
            have e1 : ({ Head.relCopy u b with query := none } : Url) =
                Impl.copyPath (Impl.copyAuthority { u with scheme := b.scheme } b) b := by
              cases u; simp_all [Head.relCopy, Impl.copyPath, Impl.copyAuthority]
            rw [e1, hr]; unfold Impl.relativeState
            simp only [if_neg h1a, if_neg h2, if_neg h3]
            by_cases h5 : c = 0x5C
            · have := h1b h5
              simp [Url.isSpecial, this]
            · simp [h5]
          rw [e]
          refine sim_path.step_to (j := i) hst ?_ trivial hi hsc ?_
          · simp
          · omega

end relative
/-! ## special relative or authority state, no scheme state -/

namespace Head

section steps
variable (idna : Idna) (inp : Array Nat) (base : Option Url) (ov : Option State)

theorem step_sroa_slashes (u : Url) (buf : List Nat) (f1 f2 f3 : Bool) (i : Nat)
    (hc : inp[i]? = some 0x2F) (hc1 : inp[i + 1]? = some 0x2F) :
    step idna inp base ov ⟨u, .specialRelativeOrAuthority, buf, f1, f2, f3, (i : Int)⟩ =
      .continue ⟨u, .specialAuthorityIgnoreSlashes, buf, f1, f2, f3, (i : Int) + 1⟩ := by
  unfold step
  simp only [Int.toNat_natCast, Int.toNat_natCast_add_one, ptr_neg, ptr_neg1, if_false, hc, hc1]
  simp

theorem step_sroa_other (u : Url) (buf : List Nat) (f1 f2 f3 : Bool) (i : Nat)
    (h : ¬ (inp[i]? = some 0x2F ∧ inp[i + 1]? = some 0x2F)) :
    step idna inp base ov ⟨u, .specialRelativeOrAuthority, buf, f1, f2, f3, (i : Int)⟩ =
      .continue ⟨u, .relative, buf, f1, f2, f3, (i : Int) - 1⟩ := by
  unfold step
  simp only [Int.toNat_natCast, Int.toNat_natCast_add_one, ptr_neg, ptr_neg1, if_false]
  rw [if_neg (by simpa using h)]

theorem step_noScheme_none (u : Url) (buf : List Nat) (f1 f2 f3 : Bool) (i : Nat) :
    step idna inp none ov ⟨u, .noScheme, buf, f1, f2, f3, (i : Int)⟩ = .failure u := by
  unfold step
  simp only

theorem step_noScheme_opaque_fail (u b : Url) (buf : List Nat) (f1 f2 f3 : Bool) (i : Nat)
    (hb : b.hasOpaquePath = true) (hc : inp[i]? ≠ some 0x23) :
    step idna inp (some b) ov ⟨u, .noScheme, buf, f1, f2, f3, (i : Int)⟩ = .failure u := by
  unfold step
  simp only [Int.toNat_natCast, ptr_neg, if_false]
  simp [hb, hc]

theorem step_noScheme_opaque_h (u b : Url) (buf : List Nat) (f1 f2 f3 : Bool) (i : Nat)
    (hb : b.hasOpaquePath = true) (hc : inp[i]? = some 0x23) :
    step idna inp (some b) ov ⟨u, .noScheme, buf, f1, f2, f3, (i : Int)⟩ =
      .continue ⟨{ Impl.copyPath { u with scheme := b.scheme } b with query := b.query, fragment := some [] },
        .fragment, buf, f1, f2, f3, (i : Int)⟩ := by
  unfold step
  simp only [Int.toNat_natCast, ptr_neg, if_false]
  simp [hb, hc, Impl.copyPath]

theorem step_noScheme_relative (u b : Url) (buf : List Nat) (f1 f2 f3 : Bool) (i : Nat)
    (hb : b.hasOpaquePath = false) (hf : b.scheme ≠ Impl.sFile) :
    step idna inp (some b) ov ⟨u, .noScheme, buf, f1, f2, f3, (i : Int)⟩ =
      .continue ⟨u, .relative, buf, f1, f2, f3, (i : Int) - 1⟩ := by
  unfold step
  simp only [Int.toNat_natCast, ptr_neg, if_false]
  simp [hb, hf]

theorem step_noScheme_file (u b : Url) (buf : List Nat) (f1 f2 f3 : Bool) (i : Nat)
    (hb : b.hasOpaquePath = false) (hf : b.scheme = Impl.sFile) :
    step idna inp (some b) ov ⟨u, .noScheme, buf, f1, f2, f3, (i : Int)⟩ =
      .continue ⟨u, .file, buf, f1, f2, f3, (i : Int) - 1⟩ := by
  unfold step
  simp only [Int.toNat_natCast, ptr_neg, if_false]
  simp [hb, hf]

end steps
end Head

section noScheme
variable {R : Option Url × Url → Option Url × Url → Prop} (hR : ∀ x, R x x)
variable {idna : Idna} {base : Option Url} {ov : Option Override}

theorem sim_specialRelativeOrAuthority (b : Url)
    (sim_ignoreSlashes : SimR R idna base ov .specialAuthorityIgnoreSlashes 3 13 Fresh (Impl.ignoreSlashesState idna ov))
    (sim_relative : SimR R idna base ov .relative 3 14 Fresh (Impl.relativeState idna b ov)) :
    SimR R idna base ov .specialRelativeOrAuthority 3 15 Fresh
      (Impl.specialRelativeOrAuthorityState idna b ov) := by
  intro inp k i fuel hs hb hp hpre hi hsc hf
  obtain ⟨u, st, buf, f1, f2, f3, p⟩ := k
  simp only at hs hb hp
  subst hs hb hp
  by_cases h : inp[i]? = some 0x2F ∧ inp[i + 1]? = some 0x2F
  · obtain ⟨hc, hc1⟩ := h
    have hst := Head.step_sroa_slashes idna inp base (ov.map ovState) u [] f1 f2 f3 i hc hc1
    rcases Head.drop_cases inp i with ⟨hr, hc', hsz⟩ | ⟨c, r, hr, hc', hsz, hr'⟩
    · rw [hc] at hc'; cases hc'
    · rcases Head.drop_cases inp (i + 1) with ⟨hr1, hc1', hsz1⟩ | ⟨c1, r1, hr1, hc1', hsz1, hr1'⟩
      · rw [hc1] at hc1'; cases hc1'
      · rw [hc] at hc'; rw [hc1] at hc1'
        injection hc' with hc'; injection hc1' with hc1'
        subst hc' hc1'
        have e : Impl.specialRelativeOrAuthorityState idna b ov u (inp.toList.drop i) =
            Impl.ignoreSlashesState idna ov u (inp.toList.drop (i + 1 + 1)) := by
          rw [hr, ← hr', hr1, hr1']; rfl
        rw [e]
        refine sim_ignoreSlashes.step_to (j := i + 1 + 1) hst ?_ hpre hsz1 hsc ?_
        · simp
        · omega
  · have hst := Head.step_sroa_other idna inp base (ov.map ovState) u [] f1 f2 f3 i h
    have e : Impl.specialRelativeOrAuthorityState idna b ov u (inp.toList.drop i) =
        Impl.relativeState idna b ov u (inp.toList.drop i) := by
      rcases Head.drop_cases inp i with ⟨hr, hc', hsz⟩ | ⟨c, r, hr, hc', hsz, hr'⟩
      · rw [hr]; rfl
      · rcases Head.drop_cases inp (i + 1) with ⟨hr1, hc1', hsz1⟩ | ⟨c1, r1, hr1, hc1', hsz1, hr1'⟩
        · rw [hr, ← hr', hr1]
          unfold Impl.specialRelativeOrAuthorityState
          split
          · next heq => simp at heq
          · rfl
        · rw [hr, ← hr', hr1]
          unfold Impl.specialRelativeOrAuthorityState
          split
          · next heq =>
            simp at heq
            rw [hc', hc1'] at h
            exact absurd ⟨by rw [heq.1], by rw [heq.2.1]⟩ h
          · rfl
    rw [e]
    refine sim_relative.step_to (j := i) hst ?_ hpre hi hsc ?_
    · simp
    · omega


include hR in
theorem sim_noScheme
    (sim_file : SimR R idna base ov .file 3 14 (fun k => k.url.path = [] ∧ k.url.query = none)
      (Impl.fileState idna base ov))
    (sim_relative : ∀ b, base = some b → b.scheme ≠ Impl.sFile →
      SimR R idna base ov .relative 3 14 Fresh (Impl.relativeState idna b ov))
    (sim_fragment : SimR R idna base ov .fragment 3 13 (fun k => k.url.fragment = some []) Impl.fragmentState) :
    SimR R idna base ov .noScheme 3 15 Fresh (Impl.noSchemeState idna base ov) := by
  intro inp k i fuel hs hb hp hpre hi hsc hf
  obtain ⟨u, st, buf, f1, f2, f3, p⟩ := k
  simp only at hs hb hp
  subst hs hb hp
  obtain ⟨f, rfl, hf'⟩ := fuel_succ (n := 3 * (inp.size - i) + 14) hf
  cases hbase : base with
  | none =>
    subst hbase
    rw [run_failure f (Head.step_noScheme_none idna inp (ov.map ovState) u [] f1 f2 f3 i)]
    exact hR _
  | some b =>
    by_cases hop : b.hasOpaquePath = true
    · by_cases hc : inp[i]? = some 0x23
      · have hst := Head.step_noScheme_opaque_h idna inp (ov.map ovState) u b [] f1 f2 f3 i hop hc
        rcases Head.drop_cases inp i with ⟨hr, hc', hsz⟩ | ⟨c, r, hr, hc', hsz, hr'⟩
        · rw [hc] at hc'; cases hc'
        · rw [hc] at hc'; injection hc' with hc'; subst hc'
          have e : Impl.noSchemeState idna (some b) ov u (inp.toList.drop i) =
              Impl.fragmentState { Impl.copyPath { u with scheme := b.scheme } b with query := b.query, fragment := some [] }
                (inp.toList.drop (i + 1)) := by
            rw [hr, hr']; unfold Impl.noSchemeState
            simp only [hop, if_true]
            rfl
          rw [e]
          subst hbase
          refine sim_fragment.step_to (j := i + 1) hst ?_ rfl hsz hsc ?_
          · simp
          · omega
      · subst hbase
        rw [run_failure f (Head.step_noScheme_opaque_fail idna inp (ov.map ovState) u b [] f1 f2 f3 i hop hc)]
        have e : Impl.noSchemeState idna (some b) ov u (inp.toList.drop i) = ⟨.failure, u⟩ := by
          unfold Impl.noSchemeState
          simp only [hop, if_true]
          rcases Head.drop_cases inp i with ⟨hr, hc', hsz⟩ | ⟨c, r, hr, hc', hsz, hr'⟩
          · rw [hr]
          · rw [hr]
            split
            · next heq =>
              injection heq with h1 h2
              rw [hc', h1] at hc
              exact absurd rfl hc
            · rfl
        rw [e]
        exact hR _
    · have hop' : b.hasOpaquePath = false := by simpa using hop
      by_cases hbf : b.scheme = Impl.sFile
      · have hst := Head.step_noScheme_file idna inp (ov.map ovState) u b [] f1 f2 f3 i hop' hbf
        have e : Impl.noSchemeState idna (some b) ov u (inp.toList.drop i) =
            Impl.fileState idna (some b) ov u (inp.toList.drop i) := by
          unfold Impl.noSchemeState
          simp only [hop', Bool.false_eq_true, if_false, (Head.isFile_iff b).2 hbf, if_true]
        rw [e]
        subst hbase
        refine sim_file.step_to (j := i) hst ?_ ⟨hpre.path, hpre.query⟩ hi hsc ?_
        · simp
        · omega
      · have hst := Head.step_noScheme_relative idna inp (ov.map ovState) u b [] f1 f2 f3 i hop' hbf
        have hnf : b.isFile = false := by simpa [Url.isFile, Impl.isFileScheme] using hbf
        have e : Impl.noSchemeState idna (some b) ov u (inp.toList.drop i) =
            Impl.relativeState idna b ov u (inp.toList.drop i) := by
          unfold Impl.noSchemeState
          simp only [hop', Bool.false_eq_true, if_false, hnf]
        rw [e]
        have hsim := sim_relative b hbase hbf
        subst hbase
        refine hsim.step_to (j := i) hst ?_ hpre hi hsc ?_
        · simp
        · omega

end noScheme
/-! ## scheme start state, scheme state -/

namespace Head

theorem toLower_eq_or : ∀ c, c < 128 → isSchemeChar c = true → toLower c = c ||| 0x20 := by decide +kernel

theorem schemeChar_lt (c : Nat) (h : isSchemeChar c = true) : c < 128 := by
  simp [isSchemeChar, isAlpha, isDigit] at h; omega

theorem map_toLower_eq (s : List Nat) (h : ∀ c ∈ s, isSchemeChar c = true) :
    s.map toLower = s.map (· ||| 0x20) := by
  apply List.map_congr_left
  intro c hc
  exact toLower_eq_or c (schemeChar_lt c (h c hc)) (h c hc)

theorem alpha_schemeChar (c : Nat) (h : isAlpha c = true) : isSchemeChar c = true := by
  simp [isSchemeChar, h]

section steps
variable (idna : Idna) (inp : Array Nat) (base : Option Url)

theorem step_schemeStart_alpha (u : Url) (buf : List Nat) (f1 f2 f3 : Bool) (i c : Nat)
    (hc : inp[i]? = some c) (h : isAlpha c = true) :
    step idna inp base none ⟨u, .schemeStart, buf, f1, f2, f3, (i : Int)⟩ =
      .continue ⟨u, .scheme, buf ++ [toLower c], f1, f2, f3, (i : Int)⟩ := by
  unfold step
  simp only [Int.toNat_natCast, ptr_neg, if_false, hc]
  simp [h]

theorem step_schemeStart_other (u : Url) (buf : List Nat) (f1 f2 f3 : Bool) (i : Nat)
    (h : ∀ c, inp[i]? = some c → isAlpha c = false) :
    step idna inp base none ⟨u, .schemeStart, buf, f1, f2, f3, (i : Int)⟩ =
      .continue ⟨u, .noScheme, buf, f1, f2, f3, (i : Int) - 1⟩ := by
  unfold step
  simp only [Int.toNat_natCast, ptr_neg, if_false]
  cases hc : inp[i]? with
  | none => simp
  | some c => simp [h c hc]

theorem step_scheme_char (u : Url) (buf : List Nat) (f1 f2 f3 : Bool) (i c : Nat)
    (hc : inp[i]? = some c) (h : isSchemeChar c = true) :
    step idna inp base none ⟨u, .scheme, buf, f1, f2, f3, (i : Int)⟩ =
      .continue ⟨u, .scheme, buf ++ [toLower c], f1, f2, f3, (i : Int)⟩ := by
  unfold step
  simp only [Int.toNat_natCast, ptr_neg, if_false, hc]
  have : (isAlpha c || isDigit c || c == 0x2B || c == 0x2D || c == 0x2E) = true := h
  simp only [this, if_true]

theorem step_scheme_restart (u : Url) (buf : List Nat) (f1 f2 f3 : Bool) (i : Nat)
    (h : ∀ c, inp[i]? = some c → isSchemeChar c = false ∧ c ≠ 0x3A) :
    step idna inp base none ⟨u, .scheme, buf, f1, f2, f3, (i : Int)⟩ =
      .continue ⟨u, .noScheme, [], f1, f2, f3, -1⟩ := by
  unfold step
  simp only [Int.toNat_natCast, ptr_neg, if_false]
  cases hc : inp[i]? with
  | none => simp
  | some c =>
    obtain ⟨h1, h2⟩ := h c hc
    have : (isAlpha c || isDigit c || c == 0x2B || c == 0x2D || c == 0x2E) = false := h1
    simp only [this, Bool.false_eq_true, if_false, if_neg h2]
    simp

theorem step_scheme_file (u : Url) (f1 f2 f3 : Bool) (i : Nat)
    (hc : inp[i]? = some 0x3A) :
    step idna inp base none ⟨u, .scheme, Impl.sFile, f1, f2, f3, (i : Int)⟩ =
      .continue ⟨{ u with scheme := Impl.sFile }, .file, [], f1, f2, f3, (i : Int)⟩ := by
  unfold step
  simp only [Int.toNat_natCast, ptr_neg, if_false, hc]
  simp [isAlpha, isDigit]

theorem step_scheme_sroa (u : Url) (buf : List Nat) (f1 f2 f3 : Bool) (i : Nat)
    (hc : inp[i]? = some 0x3A) (h1 : buf ≠ Impl.sFile) (h2 : Impl.isSpecialScheme buf = true)
    (h3 : base.map (·.scheme) = some buf) :
    step idna inp base none ⟨u, .scheme, buf, f1, f2, f3, (i : Int)⟩ =
      .continue ⟨{ u with scheme := buf }, .specialRelativeOrAuthority, [], f1, f2, f3, (i : Int)⟩ := by
  unfold step
  simp only [Int.toNat_natCast, ptr_neg, if_false, hc]
  simp [isAlpha, isDigit, h1, h2, h3, Spec.isSpecial]

theorem step_scheme_sas (u : Url) (buf : List Nat) (f1 f2 f3 : Bool) (i : Nat)
    (hc : inp[i]? = some 0x3A) (h1 : buf ≠ Impl.sFile) (h2 : Impl.isSpecialScheme buf = true)
    (h3 : base.map (·.scheme) ≠ some buf) :
    step idna inp base none ⟨u, .scheme, buf, f1, f2, f3, (i : Int)⟩ =
      .continue ⟨{ u with scheme := buf }, .specialAuthoritySlashes, [], f1, f2, f3, (i : Int)⟩ := by
  unfold step
  simp only [Int.toNat_natCast, ptr_neg, if_false, hc]
  simp [isAlpha, isDigit, h1, h2, h3, Spec.isSpecial]

theorem step_scheme_poa (u : Url) (buf : List Nat) (f1 f2 f3 : Bool) (i : Nat)
    (hc : inp[i]? = some 0x3A) (h1 : buf ≠ Impl.sFile) (h2 : Impl.isSpecialScheme buf = false)
    (h3 : inp[i + 1]? = some 0x2F) :
    step idna inp base none ⟨u, .scheme, buf, f1, f2, f3, (i : Int)⟩ =
      .continue ⟨{ u with scheme := buf }, .pathOrAuthority, [], f1, f2, f3, (i : Int) + 1⟩ := by
  unfold step
  simp only [Int.toNat_natCast, Int.toNat_natCast_add_one, ptr_neg, ptr_neg1, if_false, hc, h3]
  simp [isAlpha, isDigit, h1, h2, Spec.isSpecial]

theorem step_scheme_opaque (u : Url) (buf : List Nat) (f1 f2 f3 : Bool) (i : Nat)
    (hc : inp[i]? = some 0x3A) (h1 : buf ≠ Impl.sFile) (h2 : Impl.isSpecialScheme buf = false)
    (h3 : inp[i + 1]? ≠ some 0x2F) :
    step idna inp base none ⟨u, .scheme, buf, f1, f2, f3, (i : Int)⟩ =
      .continue ⟨{ u with scheme := buf, hasOpaquePath := true, opaquePath := [] }, .opaquePath, [], f1, f2, f3, (i : Int)⟩ := by
  unfold step
  simp only [Int.toNat_natCast, Int.toNat_natCast_add_one, ptr_neg, ptr_neg1, if_false, hc]
  simp [isAlpha, isDigit, h1, h2, h3, Spec.isSpecial]

end steps

/-- the buffering runs of the scheme state -/
theorem run_scheme_scan (idna : Idna) (inp : Array Nat) (base : Option Url)
    (u : Url) (f1 f2 f3 : Bool) :
    ∀ (s : List Nat) (r : List Nat) (i : Nat) (buf : List Nat) (fuel : Nat),
    inp.toList.drop i = s ++ r → (∀ c ∈ s, isSchemeChar c = true) →
    run idna inp base none (fuel + s.length) ⟨u, .scheme, buf, f1, f2, f3, (i : Int)⟩ =
      run idna inp base none fuel ⟨u, .scheme, buf ++ s.map toLower, f1, f2, f3, ((i + s.length : Nat) : Int)⟩ := by
  intro s
  induction s with
  | nil => intro r i buf fuel _ _; simp
  | cons c cs ih =>
    intro r i buf fuel hr hs
    obtain ⟨hc, hsz, hr'⟩ := getElem?_of_drop_cons (r := cs ++ r) hr
    have hst := step_scheme_char idna inp base u buf f1 f2 f3 i c hc (hs c List.mem_cons_self)
    rw [List.length_cons, ← Nat.add_assoc]
    refine (run_continue' (j := i + 1) _ hst (by simp) hsz).trans ?_
    refine (ih r (i + 1) (buf ++ [toLower c]) fuel hr' (fun x hx => hs x (List.mem_cons_of_mem _ hx))).trans ?_
    simp [Nat.add_assoc, Nat.add_comm 1]

theorem split_schemeChar (l : List Nat) :
    (∀ c ∈ l.takeWhile isSchemeChar, isSchemeChar c = true) ∧
    (∀ c, (l.dropWhile isSchemeChar).head? = some c → isSchemeChar c = false) := by
  constructor
  · intro c hc
    have := List.all_takeWhile (p := isSchemeChar) (l := l)
    rw [List.all_eq_true] at this
    exact this c hc
  · intro c hc
    have := List.head?_dropWhile_not isSchemeChar l
    rw [hc] at this
    simpa using this


section implScheme
variable (idna : Idna) (base : Option Url) (u : Url) (c0 : Nat) (r0 p' : List Nat)

/-- the scheme as the code computes it -/
def schemeOf (c0 : Nat) (r0 : List Nat) : List Nat := (c0 :: r0.takeWhile isSchemeChar).map (· ||| 0x20)

theorem schemeState_restart (h : ∀ c, (r0.dropWhile isSchemeChar).head? = some c → c ≠ 0x3A) :
    Impl.schemeState idna base none u (c0 :: r0) = Impl.noSchemeState idna base none u (c0 :: r0) := by
  unfold Impl.schemeState
  simp only
  cases hd : r0.dropWhile isSchemeChar with
  | nil => simp
  | cons c t =>
    have := h c (by rw [hd]; rfl)
    simp [this]

theorem schemeState_file (hrest : r0.dropWhile isSchemeChar = 0x3A :: p')
    (hs : schemeOf c0 r0 = Impl.sFile) :
    Impl.schemeState idna base none u (c0 :: r0) =
      Impl.fileState idna base none { u with scheme := schemeOf c0 r0 } p' := by
  unfold Impl.schemeState
  simp only [hrest]
  have : ({ u with scheme := schemeOf c0 r0 } : Url).isFile = true := (isFile_iff _).2 hs
  unfold schemeOf at this hs ⊢
  simp only [List.drop_succ_cons, List.drop_zero, beq_self_eq_true, Option.isSome_none, Bool.false_eq_true, if_false, if_true, this]

theorem schemeState_sroa (b : Url) (hrest : r0.dropWhile isSchemeChar = 0x3A :: p')
    (hnf : schemeOf c0 r0 ≠ Impl.sFile) (hsp : Impl.isSpecialScheme (schemeOf c0 r0) = true)
    (hbs : b.scheme = schemeOf c0 r0) :
    Impl.schemeState idna (some b) none u (c0 :: r0) =
      Impl.specialRelativeOrAuthorityState idna b none { u with scheme := schemeOf c0 r0 } p' := by
  unfold Impl.schemeState
  simp only [hrest]
  have h1 : ({ u with scheme := schemeOf c0 r0 } : Url).isFile = false := by
    simpa [Url.isFile, Impl.isFileScheme] using hnf
  have h2 : ({ u with scheme := schemeOf c0 r0 } : Url).isSpecial = true := hsp
  unfold schemeOf at h1 h2 hbs ⊢
  simp only [List.drop_succ_cons, List.drop_zero, beq_self_eq_true, Option.isSome_none, Bool.false_eq_true, if_false, if_true, h1, h2, hbs]

theorem schemeState_sas (hrest : r0.dropWhile isSchemeChar = 0x3A :: p')
    (hnf : schemeOf c0 r0 ≠ Impl.sFile) (hsp : Impl.isSpecialScheme (schemeOf c0 r0) = true)
    (hbs : base.map (·.scheme) ≠ some (schemeOf c0 r0)) :
    Impl.schemeState idna base none u (c0 :: r0) =
      Impl.specialAuthoritySlashesState idna none { u with scheme := schemeOf c0 r0 } p' := by
  unfold Impl.schemeState
  simp only [hrest]
  have h1 : ({ u with scheme := schemeOf c0 r0 } : Url).isFile = false := by
    simpa [Url.isFile, Impl.isFileScheme] using hnf
  have h2 : ({ u with scheme := schemeOf c0 r0 } : Url).isSpecial = true := hsp
  unfold schemeOf at h1 h2 hbs ⊢
  cases base with
  | none =>
    simp only [List.drop_succ_cons, List.drop_zero, beq_self_eq_true, Option.isSome_none, Bool.false_eq_true, if_false, if_true, h1, h2]
  | some b =>
    have : b.scheme ≠ List.map (fun x => x ||| 32) (c0 :: List.takeWhile isSchemeChar r0) := by
      simpa using hbs
    simp only [List.drop_succ_cons, List.drop_zero, beq_self_eq_true, Option.isSome_none, Bool.false_eq_true, if_false, if_true, h1, h2, this]

theorem schemeState_poa (r : List Nat) (hrest : r0.dropWhile isSchemeChar = 0x3A :: 0x2F :: r)
    (hsp : Impl.isSpecialScheme (schemeOf c0 r0) = false) :
    Impl.schemeState idna base none u (c0 :: r0) =
      Impl.pathOrAuthorityState idna none { u with scheme := schemeOf c0 r0 } r := by
  unfold Impl.schemeState
  simp only [hrest]
  have h1 : ({ u with scheme := schemeOf c0 r0 } : Url).isFile = false := by
    cases h : ({ u with scheme := schemeOf c0 r0 } : Url).isFile with
    | false => rfl
    | true =>
      have := (isFile_iff _).1 h
      simp only at this
      rw [this] at hsp
      exact absurd hsp (by decide)
  have h2 : ({ u with scheme := schemeOf c0 r0 } : Url).isSpecial = false := hsp
  unfold schemeOf at h1 h2 ⊢
  simp only [List.drop_succ_cons, List.drop_zero, beq_self_eq_true, Option.isSome_none, Bool.false_eq_true, if_false, if_true, h1, h2]

theorem schemeState_opaque (hrest : r0.dropWhile isSchemeChar = 0x3A :: p')
    (hsp : Impl.isSpecialScheme (schemeOf c0 r0) = false) (hp : p'.head? ≠ some 0x2F) :
    Impl.schemeState idna base none u (c0 :: r0) =
      Impl.opaquePathState none { u with scheme := schemeOf c0 r0, hasOpaquePath := true } p' := by
  unfold Impl.schemeState
  simp only [hrest]
  have h1 : ({ u with scheme := schemeOf c0 r0 } : Url).isFile = false := by
    cases h : ({ u with scheme := schemeOf c0 r0 } : Url).isFile with
    | false => rfl
    | true =>
      have := (isFile_iff _).1 h
      simp only at this
      rw [this] at hsp
      exact absurd hsp (by decide)
  have h2 : ({ u with scheme := schemeOf c0 r0 } : Url).isSpecial = false := hsp
  unfold schemeOf at h1 h2 ⊢
  simp only [List.drop_succ_cons, List.drop_zero, beq_self_eq_true, Option.isSome_none, Bool.false_eq_true, if_false, if_true, h1, h2]
  split
  · simp at hp
  · rfl

end implScheme

theorem url_setOpaque (u : Url) (s : List Nat) (h : u.opaquePath = []) :
    ({ u with scheme := s, hasOpaquePath := true } : Url) =
      { u with scheme := s, hasOpaquePath := true, opaquePath := [] } := by
  cases u; simp only at h; subst h; rfl

end Head

section scheme
variable {R : Option Url × Url → Option Url × Url → Prop} (hR : ∀ x, R x x)
variable {idna : Idna} {base : Option Url}

/-- scheme start state and scheme state (no override): the whole parser.
    On a non-scheme code point without ':' the Standard restarts at pointer 0 in the no scheme state,
    which costs one more pass over the input (`4 * n`). -/
theorem sim_schemeStart
    (sim_noScheme : SimR R idna base none .noScheme 3 15 Fresh (Impl.noSchemeState idna base none))
    (sim_file : SimR R idna base none .file 3 14 (fun k => k.url.path = [] ∧ k.url.query = none)
      (Impl.fileState idna base none))
    (sim_sroa : ∀ b, base = some b → b.scheme ≠ Impl.sFile →
      SimR R idna base none .specialRelativeOrAuthority 3 15 Fresh
        (Impl.specialRelativeOrAuthorityState idna b none))
    (sim_sas : SimR R idna base none .specialAuthoritySlashes 3 13 Fresh
      (Impl.specialAuthoritySlashesState idna none))
    (sim_poa : SimR R idna base none .pathOrAuthority 3 13 Fresh (Impl.pathOrAuthorityState idna none))
    (sim_opaquePath : SimR R idna base none .opaquePath 3 13 (fun _ => True) (Impl.opaquePathState none)) :
    SimR R idna base none .schemeStart 4 16 (fun k => k.p = 0 ∧ Fresh k) (Impl.urlParse idna base none) := by
  intro inp k i fuel hs hb hp hpre hi hsc hf
  obtain ⟨u, st, buf, f1, f2, f3, p⟩ := k
  simp only at hs hb hp
  subst hs hb hp
  obtain ⟨hp0, hfresh⟩ := hpre
  simp only at hp0
  have hi0 : i = 0 := by omega
  subst hi0
  show R (run idna inp base none fuel _) _
  have hd0 : inp.toList.drop 0 = inp.toList := rfl
  have hlen : inp.toList.length = inp.size := by simp
  simp only [Nat.sub_zero] at hf
  by_cases halpha : ∃ c0 r0, inp.toList = c0 :: r0 ∧ isAlpha c0 = true
  · obtain ⟨c0, r0, hl, ha⟩ := halpha
    have hd : inp.toList.drop 0 = c0 :: r0 := hl
    obtain ⟨hc0, hsz0, hr0⟩ := getElem?_of_drop_cons hd
    have hst0 := Head.step_schemeStart_alpha idna inp base u [] f1 f2 f3 0 c0 hc0 ha
    obtain ⟨f0, rfl, hf0⟩ := fuel_succ (n := 4 * inp.size + 15) hf
    rw [run_continue' (j := 0 + 1) f0 hst0 (by simp) hsz0]
    simp only
    have hsplit := List.takeWhile_append_dropWhile (p := isSchemeChar) (l := r0)
    obtain ⟨h1, h2⟩ := Head.split_schemeChar r0
    obtain ⟨body, hbody⟩ : ∃ b, r0.takeWhile isSchemeChar = b := ⟨_, rfl⟩
    obtain ⟨rest, hrest⟩ : ∃ b, r0.dropWhile isSchemeChar = b := ⟨_, rfl⟩
    rw [hbody] at h1
    rw [hrest] at h2
    rw [hbody, hrest] at hsplit
    have hsz : 1 + body.length + rest.length = inp.size := by
      rw [← hlen, hl, ← hsplit]; simp; omega
    have hfu : f0 = (f0 - body.length) + body.length := by omega
    rw [hfu, Head.run_scheme_scan idna inp base u f1 f2 f3 body rest (0 + 1) ([] ++ [toLower c0]) _
      (by rw [hr0, hsplit]) h1]
    have hbuf : ([] ++ [toLower c0]) ++ body.map toLower = Head.schemeOf c0 r0 := by
      unfold Head.schemeOf
      rw [hbody, ← Head.map_toLower_eq (c0 :: body) (by
        intro c hc
        rcases List.mem_cons.1 hc with rfl | hc
        · exact Head.alpha_schemeChar _ ha
        · exact h1 c hc)]
      simp
    rw [hbuf]
    have hdi : inp.toList.drop (0 + 1 + body.length) = rest := by
      rw [← List.drop_drop, hr0, ← hsplit]; simp
    have e0 : Impl.urlParse idna base none u (inp.toList.drop 0) =
        Impl.schemeState idna base none u (c0 :: r0) := by
      rw [hd]; unfold Impl.urlParse; simp [ha]
    rw [e0]
    have hfr : ∀ (S' : State) (p' : Int), Fresh ⟨{ u with scheme := Head.schemeOf c0 r0 }, S', [], f1, f2, f3, p'⟩ :=
      fun S' p' => hfresh.setScheme _
    by_cases hcolon : ∃ p', rest = 0x3A :: p'
    · obtain ⟨p', rfl⟩ := hcolon
      obtain ⟨hci, hszi, hri⟩ := getElem?_of_drop_cons hdi
      by_cases hfile : Head.schemeOf c0 r0 = Impl.sFile
      · rw [Head.schemeState_file idna base u c0 r0 p' hrest hfile, hfile, ← hri]
        have hst := Head.step_scheme_file idna inp base u f1 f2 f3 (0 + 1 + body.length) hci
        refine sim_file.step_to (j := 0 + 1 + body.length + 1) hst ?_ ⟨hfresh.path, hfresh.query⟩ hszi hsc ?_
        · simp
        · omega
      · by_cases hsp : Impl.isSpecialScheme (Head.schemeOf c0 r0) = true
        · by_cases hbs : base.map (·.scheme) = some (Head.schemeOf c0 r0)
          · have hst := Head.step_scheme_sroa idna inp base u _ f1 f2 f3 (0 + 1 + body.length) hci hfile hsp hbs
            cases hbase : base with
            | none => rw [hbase] at hbs; cases hbs
            | some b =>
              have hb' : b.scheme = Head.schemeOf c0 r0 := by
                rw [hbase] at hbs; simpa using hbs
              have hsim := sim_sroa b hbase (by rw [hb']; exact hfile)
              subst hbase
              rw [Head.schemeState_sroa idna u c0 r0 p' b hrest hfile hsp hb', ← hri]
              refine hsim.step_to (j := 0 + 1 + body.length + 1) hst ?_ (hfr _ _) hszi hsc ?_
              · simp
              · omega
          · have hst := Head.step_scheme_sas idna inp base u _ f1 f2 f3 (0 + 1 + body.length) hci hfile hsp hbs
            rw [Head.schemeState_sas idna base u c0 r0 p' hrest hfile hsp hbs, ← hri]
            refine sim_sas.step_to (j := 0 + 1 + body.length + 1) hst ?_ (hfr _ _) hszi hsc ?_
            · simp
            · omega
        · have hsp' : Impl.isSpecialScheme (Head.schemeOf c0 r0) = false := by simpa using hsp
          rcases Head.drop_cases inp (0 + 1 + body.length + 1) with ⟨hr1, hc1, hsz1⟩ | ⟨c1, r1, hr1, hc1, hsz1, hr1'⟩
          · have hst := Head.step_scheme_opaque idna inp base u _ f1 f2 f3 (0 + 1 + body.length) hci hfile hsp'
              (by rw [hc1]; simp)
            have hp' : p' = [] := by rw [← hri, hr1]
            rw [Head.schemeState_opaque idna base u c0 r0 p' hrest hsp' (by rw [hp']; simp), ← hri]
            have e : ({ u with scheme := Head.schemeOf c0 r0, hasOpaquePath := true } : Url) =
                { u with scheme := Head.schemeOf c0 r0, hasOpaquePath := true, opaquePath := [] } := by
              exact Head.url_setOpaque u _ hfresh.opaquePath
            rw [e]
            refine sim_opaquePath.step_to (j := 0 + 1 + body.length + 1) hst ?_ trivial hszi hsc ?_
            · simp
            · omega
          · by_cases hsl : c1 = 0x2F
            · subst hsl
              have hst := Head.step_scheme_poa idna inp base u _ f1 f2 f3 (0 + 1 + body.length) hci hfile hsp' hc1
              have hp' : p' = 0x2F :: r1 := by rw [← hri, hr1]
              rw [hp'] at hrest
              rw [Head.schemeState_poa idna base u c0 r0 r1 hrest hsp', ← hr1']
              refine sim_poa.step_to (j := 0 + 1 + body.length + 1 + 1) hst ?_ (hfr _ _) hsz1 hsc ?_
              · simp
              · omega
            · have hst := Head.step_scheme_opaque idna inp base u _ f1 f2 f3 (0 + 1 + body.length) hci hfile hsp'
                (by rw [hc1]; simp [hsl])
              have hp' : p' = c1 :: r1 := by rw [← hri, hr1]
              rw [Head.schemeState_opaque idna base u c0 r0 p' hrest hsp' (by rw [hp']; simp [hsl]), ← hri]
              have e : ({ u with scheme := Head.schemeOf c0 r0, hasOpaquePath := true } : Url) =
                  { u with scheme := Head.schemeOf c0 r0, hasOpaquePath := true, opaquePath := [] } := by
                exact Head.url_setOpaque u _ hfresh.opaquePath
              rw [e]
              refine sim_opaquePath.step_to (j := 0 + 1 + body.length + 1) hst ?_ trivial hszi hsc ?_
              · simp
              · omega
    · have hnc : ∀ c, rest.head? = some c → c ≠ 0x3A := by
        intro c hc hcc
        subst hcc
        cases rest with
        | nil => cases hc
        | cons c' t => injection hc with hc; subst hc; exact hcolon ⟨t, rfl⟩
      have hst := Head.step_scheme_restart idna inp base u (Head.schemeOf c0 r0) f1 f2 f3 (0 + 1 + body.length) (by
        intro c hc
        rcases Head.drop_cases inp (0 + 1 + body.length) with ⟨hr1, hc1, hsz1⟩ | ⟨c1, r1, hr1, hc1, hsz1, hr1'⟩
        · rw [hc1] at hc; cases hc
        · rw [hc1] at hc; injection hc with hc; subst hc
          rw [hdi] at hr1
          exact ⟨h2 c1 (by rw [hr1]; rfl), hnc c1 (by rw [hr1]; rfl)⟩)
      rw [Head.schemeState_restart idna base u c0 r0 (by rw [hrest]; exact hnc), ← hd]
      refine sim_noScheme.step_to (j := 0) hst ?_ hfresh (Nat.zero_le _) hsc ?_
      · simp
      · simp only [Nat.sub_zero]; omega
  · have hst := Head.step_schemeStart_other idna inp base u [] f1 f2 f3 0 (by
      intro c hc
      rcases Head.drop_cases inp 0 with ⟨hr, hc', hsz⟩ | ⟨c', r, hr, hc', hsz, hr'⟩
      · rw [hc'] at hc; cases hc
      · rw [hc'] at hc; injection hc with hc; subst hc
        cases h : isAlpha c' with
        | false => rfl
        | true => exact absurd ⟨c', r, hr, h⟩ halpha)
    have e : Impl.urlParse idna base none u (inp.toList.drop 0) =
        Impl.noSchemeState idna base none u (inp.toList.drop 0) := by
      rw [hd0]
      unfold Impl.urlParse
      simp only
      cases hl : inp.toList with
      | nil => simp
      | cons c r =>
        have : isAlpha c = false := by
          cases h : isAlpha c with
          | false => rfl
          | true => exact absurd ⟨c, r, hl, h⟩ halpha
        simp [this]
    rw [e]
    refine sim_noScheme.step_to (j := 0) hst ?_ hfresh (Nat.zero_le _) hsc ?_
    · simp
    · simp only [Nat.sub_zero]; omega

end scheme
/-! ## the parser input -/

namespace Head

theorem utf16Decode_scalar : ∀ l : List Nat, (∀ x ∈ l, x < 65536) →
    ∀ c ∈ Spec.utf16Decode l, Spec.isScalar c = true := by
  intro l
  fun_induction Spec.utf16Decode l with
  | case1 => intro _ c hc; cases hc
  | case2 c =>
    intro hl x hx
    have := hl c (by simp)
    simp only [List.mem_singleton] at hx
    subst hx
    simp only [Impl.isScalar_iff]
    split
    · omega
    · next h => simp [Spec.isSurrogate] at h; omega
  | case3 c t r1 h ih =>
    intro hl x hx
    simp [Spec.isLeadSurrogate, Spec.isTrailSurrogate] at h
    rcases List.mem_cons.1 hx with h0 | hx
    · have := hl t (by simp)
      rw [h0]
      simp only [Impl.isScalar_iff]; omega
    · exact ih (fun y hy => hl y (by simp [hy])) x hx
  | case4 c t r1 h ih =>
    intro hl x hx
    rcases List.mem_cons.1 hx with rfl | hx
    · have := hl c (by simp)
      simp only [Impl.isScalar_iff]
      split
      · omega
      · next h => simp [Spec.isSurrogate] at h; omega
    · exact ih (fun y hy => hl y (by simp [hy])) x hx

theorem utf32Decode_scalar (l : List Nat) : ∀ c ∈ Spec.utf32Decode l, Spec.isScalar c = true := by
  intro c hc
  simp only [Spec.utf32Decode, List.mem_map] at hc
  obtain ⟨x, _, rfl⟩ := hc
  simp only [Impl.isScalar_iff]
  split
  · omega
  · next h => simp [Spec.isSurrogate] at h; omega

theorem mem_doTrim (l : List Nat) : ∀ x ∈ Impl.doTrim l, x ∈ l := by
  intro x hx
  unfold Impl.doTrim at hx
  rw [List.mem_reverse] at hx
  have h1 := (List.dropWhile_sublist Impl.isTrimChar).subset hx
  rw [List.mem_reverse] at h1
  exact (List.dropWhile_sublist Impl.isTrimChar).subset h1

theorem unitsOk_doTrim {e : Enc} {l : List Nat} (h : Props.UnitsOk e l) : Props.UnitsOk e (Impl.doTrim l) := by
  cases e
  · exact fun x hx => h x (mem_doTrim l x hx)
  · exact fun x hx => h x (mem_doTrim l x hx)
  · trivial

/-- the parser input consists of scalar values -/
theorem prep_scalar (e : Enc) (units : List Nat) (h : Props.UnitsOk e units) :
    ∀ c ∈ Impl.prep e units, Spec.isScalar c = true := by
  have h' := Props.unitsOk_filter (fun c => !Impl.isRemovable c) h
  cases e with
  | u8 => exact Impl.decode_u8_scalar _ h'
  | u16 =>
    unfold Impl.prep Impl.removeWs
    rw [Impl.decode_u16_eq_spec _ h']
    exact utf16Decode_scalar _ h'
  | u32 =>
    unfold Impl.prep Impl.removeWs
    rw [Impl.decode_u32_eq_spec]
    exact utf32Decode_scalar _


theorem parse_eq_okUrl (idna : Idna) (e : Enc) (units : List Nat) (base : Option Url) :
    Impl.parse idna e units base = okUrl (Impl.urlParse idna base none {} (Impl.prep e (Impl.doTrim units))) := by
  unfold Impl.parse okUrl
  generalize Impl.urlParse idna base none {} (Impl.prep e (Impl.doTrim units)) = r
  obtain ⟨o, u⟩ := r
  cases o <;> simp

end Head

/-! ## assembly -/

section assembly
variable {R : Option Url × Url → Option Url × Url → Prop} (hR : ∀ x, R x x)
variable {idna : Idna} {base : Option Url}
variable (hHost : ∀ s o, (∀ c ∈ s, Spec.isScalar c = true) → Impl.parseHost idna s o = Spec.hostParse idna s o)

include hR hHost in
/-- all head states composed: the whole no-override parser (`Impl.urlParse`) simulates the Standard's
    machine started in the scheme start state, given the simulations of the tail states and of the
    authority states -/
theorem sim_urlParse
    (sim_fragment : SimR R idna base none .fragment 3 13 (fun k => k.url.fragment = some []) Impl.fragmentState)
    (sim_query : SimR R idna base none .query 3 13 (fun k => k.url.query.getD [] = []) (Impl.queryState none))
    (sim_opaquePath : SimR R idna base none .opaquePath 3 13 (fun _ => True) (Impl.opaquePathState none))
    (sim_path : SimR R idna base none .path 3 13 (fun _ => True) (Impl.pathState none))
    (sim_pathStart : SimR R idna base none .pathStart 3 13 (fun _ => True) (Impl.pathStartState none))
    (sim_authority : SimR R idna base none .authority 3 13 Fresh (Impl.authorityState idna none))
    (sim_ignoreSlashes : SimR R idna base none .specialAuthorityIgnoreSlashes 3 13 Fresh
      (Impl.ignoreSlashesState idna none))
    (sim_specialAuthoritySlashes : SimR R idna base none .specialAuthoritySlashes 3 13 Fresh
      (Impl.specialAuthoritySlashesState idna none))
    (sim_pathOrAuthority : SimR R idna base none .pathOrAuthority 3 13 Fresh
      (Impl.pathOrAuthorityState idna none)) :
    SimR R idna base none .schemeStart 4 16 (fun k => k.p = 0 ∧ Fresh k) (Impl.urlParse idna base none) := by
  have hFileHost := sim_fileHost hR hHost sim_path sim_pathStart
  have hFileSlash := sim_fileSlash (base := base) hFileHost sim_path
  have hFile := sim_file hR hFileSlash sim_path sim_query sim_fragment
  have hRel : ∀ b, base = some b → b.scheme ≠ Impl.sFile →
      SimR R idna base none .relative 3 14 Fresh (Impl.relativeState idna b none) :=
    fun b hb hnf => sim_relative hR b hb hnf
      (sim_relativeSlash b hb sim_ignoreSlashes sim_authority sim_path) sim_path sim_query sim_fragment
  have hNoScheme := sim_noScheme hR hFile hRel sim_fragment
  exact sim_schemeStart hNoScheme hFile
    (fun b hb hnf => sim_specialRelativeOrAuthority b sim_ignoreSlashes (hRel b hb hnf))
    sim_specialAuthoritySlashes sim_pathOrAuthority sim_opaquePath

end assembly

/-- from a first-component simulation of the start state to `Spec.basicParse` on a fresh URL -/
theorem basicParse_fst {idna : Idna} {base : Option Url}
    (h : SimR FstEq idna base none .schemeStart 4 16 (fun k => k.p = 0 ∧ Fresh k) (Impl.urlParse idna base none))
    (inp : List Nat) (hsc : ∀ x ∈ inp, Spec.isScalar x = true) :
    (Spec.basicParse idna inp base {} none).1 = okUrl (Impl.urlParse idna base none {} inp) := by
  unfold Spec.basicParse
  have := h inp.toArray { url := {}, state := .schemeStart } 0 (4 * inp.length + 16) rfl rfl rfl
    ⟨rfl, rfl, rfl, rfl, rfl⟩ (Nat.zero_le _) (by simpa using hsc) (by simp)
  unfold FstEq at this
  simp only [Option.map_none, List.drop_zero, Option.getD_none] at this ⊢
  rw [this]
  exact resOf_fst_none _

/-- C01 (parse), from the per-state simulations of the tail states (C01Tail) and of the authority
    states (C01Auth, weak form: first components) and the host parser equality: the library's
    `parse` is the Standard's URL parser, with and without a base, for every input encoding. -/
theorem C01_parse_conforms_partial (idna : Idna)
    (hHost : ∀ s o, (∀ c ∈ s, Spec.isScalar c = true) → Impl.parseHost idna s o = Spec.hostParse idna s o)
    (sim_fragment : ∀ base, SimR FstEq idna base none .fragment 3 13 (fun k => k.url.fragment = some []) Impl.fragmentState)
    (sim_query : ∀ base, SimR FstEq idna base none .query 3 13 (fun k => k.url.query.getD [] = []) (Impl.queryState none))
    (sim_opaquePath : ∀ base, SimR FstEq idna base none .opaquePath 3 13 (fun _ => True) (Impl.opaquePathState none))
    (sim_path : ∀ base, SimR FstEq idna base none .path 3 13 (fun _ => True) (Impl.pathState none))
    (sim_pathStart : ∀ base, SimR FstEq idna base none .pathStart 3 13 (fun _ => True) (Impl.pathStartState none))
    (sim_authority : ∀ base, SimR FstEq idna base none .authority 3 13 Fresh (Impl.authorityState idna none))
    (sim_ignoreSlashes : ∀ base, SimR FstEq idna base none .specialAuthorityIgnoreSlashes 3 13 Fresh
      (Impl.ignoreSlashesState idna none))
    (sim_specialAuthoritySlashes : ∀ base, SimR FstEq idna base none .specialAuthoritySlashes 3 13 Fresh
      (Impl.specialAuthoritySlashesState idna none))
    (sim_pathOrAuthority : ∀ base, SimR FstEq idna base none .pathOrAuthority 3 13 Fresh
      (Impl.pathOrAuthorityState idna none)) :
    ∀ (e : Enc) (units : List Nat) (base : Option Url), Props.UnitsOk e units →
      Impl.parse idna e units base = Spec.apiParse idna e units base := by
  intro e units base hu
  have hu' := Head.unitsOk_doTrim hu
  have hsim := sim_urlParse FstEq.refl hHost (sim_fragment base) (sim_query base) (sim_opaquePath base)
    (sim_path base) (sim_pathStart base) (sim_authority base) (sim_ignoreSlashes base)
    (sim_specialAuthoritySlashes base) (sim_pathOrAuthority base)
  rw [Head.parse_eq_okUrl]
  unfold Spec.apiParse
  rw [← Props.C01_input_conversion e _ hu']
  exact (basicParse_fst hsim _ (Head.prep_scalar e _ hu')).symm


#print axioms sim_fileHost_ov
#print axioms sim_urlParse
#print axioms C01_parse_conforms_partial
end Upa.Proofs.C01
