import Upa.Impl.Ip
import Upa.Spec.Ip
/-
  Helper lemmas for C12 (IPv6 parser / serializer).
-/
set_option linter.unusedSimpArgs false
set_option linter.unusedVariables false

namespace Upa.Proofs.V6
open Upa

theorem ite_cases {α : Type} (c : Prop) [Decidable c] (x y : α) :
    (c ∧ ite c x y = x) ∨ (¬c ∧ ite c x y = y) := by
  by_cases h : c <;> simp [h]

/-! ### hex printing of a 16-bit piece -/

theorem hexDigit_facts : ∀ d, d < 16 →
    isHex (hexDigitLower d) = true ∧ hexVal (hexDigitLower d) = d ∧ hexDigitLower d ≠ 0x3A ∧
    hexDigitLower d ≠ 0x2E := by
  decide

/-- explicit digits of `toHexLower` for a 16-bit value -/
theorem toHexLower_cases (x : Nat) (hx : x < 65536) :
    toHexLower x =
      if x < 16 then [hexDigitLower x]
      else if x < 256 then [hexDigitLower (x / 16), hexDigitLower (x % 16)]
      else if x < 4096 then [hexDigitLower (x / 256), hexDigitLower (x / 16 % 16), hexDigitLower (x % 16)]
      else [hexDigitLower (x / 4096), hexDigitLower (x / 256 % 16), hexDigitLower (x / 16 % 16),
            hexDigitLower (x % 16)] := by
  unfold toHexLower
  by_cases h1 : x < 16
  · have m : x % 16 = x := by omega
    simp [toDigitsAux, h1, m]
  · obtain ⟨f, hf⟩ : ∃ f, x + 1 = f + 4 := ⟨x - 3, by omega⟩
    rw [hf]
    by_cases h2 : x < 256
    · have a2 : x / 16 < 16 := by omega
      have m : x / 16 % 16 = x / 16 := by omega
      simp [toDigitsAux, h1, h2, a2, m]
    · by_cases h3 : x < 4096
      · have a2 : ¬ x / 16 < 16 := by omega
        have e1 : x / 16 / 16 = x / 256 := by omega
        have a3 : x / 256 < 16 := by omega
        have m : x / 256 % 16 = x / 256 := by omega
        simp [toDigitsAux, h1, h2, h3, a2, a3, e1, m]
      · have a2 : ¬ x / 16 < 16 := by omega
        have e1 : x / 16 / 16 = x / 256 := by omega
        have e2 : x / 256 / 16 = x / 4096 := by omega
        have a3 : ¬ x / 256 < 16 := by omega
        have a4 : x / 4096 < 16 := by omega
        have m : x / 4096 % 16 = x / 4096 := by omega
        simp [toDigitsAux, h1, h2, h3, a2, a3, a4, e1, e2, m]

/-- own copy of the `unsigned_to_str` ≡ `toHexLower` fact (16-bit range) -/
theorem unsignedToStr_hex16 (x : Nat) (hx : x < 65536) :
    Impl.unsignedToStr 16 hexDigitLower x = toHexLower x := by
  rw [toHexLower_cases x hx]
  unfold Impl.unsignedToStr
  by_cases h1 : x < 16
  · have : ¬ (1 ≤ x / 16) := by omega
    have m : x % 16 = x := by omega
    simp [Impl.digitCountLoop, Impl.fillDigits, h1, this, m]
  · obtain ⟨f, hf⟩ : ∃ f, x + 1 = f + 5 := ⟨x - 4, by omega⟩
    rw [hf]
    by_cases h2 : x < 256
    · have a1 : 1 ≤ x / 16 := by omega
      have a2 : ¬ (16 ≤ x / 16) := by omega
      have m : x / 16 % 16 = x / 16 := by omega
      simp [Impl.digitCountLoop, Impl.fillDigits, h1, h2, a1, a2, m]
    · by_cases h3 : x < 4096
      · have a1 : 1 ≤ x / 16 := by omega
        have a2 : (16 ≤ x / 16) := by omega
        have a3 : ¬ (256 ≤ x / 16) := by omega
        have e1 : x / 16 / 16 = x / 256 := by omega
        have m : x / 256 % 16 = x / 256 := by omega
        simp [Impl.digitCountLoop, Impl.fillDigits, h1, h2, h3, a1, a2, a3, e1, m]
      · have a1 : 1 ≤ x / 16 := by omega
        have a2 : (16 ≤ x / 16) := by omega
        have a3 : (256 ≤ x / 16) := by omega
        have a4 : ¬ (4096 ≤ x / 16) := by omega
        have e1 : x / 16 / 16 = x / 256 := by omega
        have e2 : x / 256 / 16 = x / 4096 := by omega
        have m : x / 4096 % 16 = x / 4096 := by omega
        simp [Impl.digitCountLoop, Impl.fillDigits, h1, h2, h3, a1, a2, a3, a4, e1, e2, m]


/-! ### serializer: which run is compressed -/

theorem zr_cons_zero (r : List Nat) : Spec.zeroRunLen (0 :: r) = Spec.zeroRunLen r + 1 := by
  simp [Spec.zeroRunLen]

theorem zr_cons_ne (a : Nat) (r : List Nat) (h : a ≠ 0) : Spec.zeroRunLen (a :: r) = 0 := by
  cases a with
  | zero => exact absurd rfl h
  | succ n => simp [Spec.zeroRunLen]

theorem countZeros_eq : ∀ l, Impl.countZeros l = Spec.zeroRunLen l := by
  intro l
  induction l with
  | nil => rfl
  | cons a r ih =>
    cases a with
    | zero => simp [Impl.countZeros, Spec.zeroRunLen, ih]
    | succ n => simp [Impl.countZeros, Spec.zeroRunLen]

/-- relation between the C++ `(last_count, compress)` and the Standard's best run -/
def R (lc cmp : Nat) (best : Option (Nat × Nat)) : Prop :=
  (lc ≤ 1 ∧ best = none) ∨ (2 ≤ lc ∧ best = some (cmp, lc))

def better (best : Option (Nat × Nat)) (len : Nat) : Bool :=
  match best with
  | none => true
  | some (_, bl) => decide (len > bl)

theorem fca_cons (a : Nat) (r : List Nat) (i : Nat) (best : Option (Nat × Nat)) :
    Spec.findCompressAux (a :: r) i best =
      Spec.findCompressAux r (i + 1)
        (if Spec.zeroRunLen (a :: r) > 1 ∧ better best (Spec.zeroRunLen (a :: r)) = true
         then some (i, Spec.zeroRunLen (a :: r)) else best) := rfl

theorem fca_noupd (a : Nat) (r : List Nat) (i lc cmp : Nat) (best : Option (Nat × Nat))
    (hR : R lc cmp best) (h : Spec.zeroRunLen (a :: r) ≤ lc ∨ Spec.zeroRunLen (a :: r) ≤ 1) :
    Spec.findCompressAux (a :: r) i best = Spec.findCompressAux r (i + 1) best := by
  rw [fca_cons]
  congr 1
  rcases hR with ⟨h1, rfl⟩ | ⟨h2, rfl⟩
  · have : ¬ (Spec.zeroRunLen (a :: r) > 1) := by omega
    simp [this]
  · have : ¬ (Spec.zeroRunLen (a :: r) > lc) := by omega
    simp [this, better]

theorem fca_upd (a : Nat) (r : List Nat) (i lc cmp : Nat) (best : Option (Nat × Nat))
    (hR : R lc cmp best) (h1 : Spec.zeroRunLen (a :: r) > lc) (h2 : Spec.zeroRunLen (a :: r) > 1) :
    Spec.findCompressAux (a :: r) i best =
      Spec.findCompressAux r (i + 1) (some (i, Spec.zeroRunLen (a :: r))) := by
  rw [fca_cons]
  congr 1
  rcases hR with ⟨_, rfl⟩ | ⟨_, rfl⟩
  · simp [h2, better]
  · simp [h1, h2, better]

theorem longest_rel : ∀ (l : List Nat) (i skip lc cmp : Nat) (best : Option (Nat × Nat)),
    R lc cmp best → (0 < skip → Spec.zeroRunLen l = skip - 1 ∧ skip ≤ lc) →
    R (Impl.longestZeroSeq l i skip lc cmp).1 (Impl.longestZeroSeq l i skip lc cmp).2
      (Spec.findCompressAux l i best) := by
  intro l
  induction l with
  | nil => intro i skip lc cmp best hR _; simpa [Impl.longestZeroSeq, Spec.findCompressAux] using hR
  | cons a r ih =>
    intro i skip lc cmp best hR hskip
    by_cases hs : skip > 0
    · obtain ⟨hz, hle⟩ := hskip hs
      rw [Impl.longestZeroSeq, if_pos hs, fca_noupd a r i lc cmp best hR (by omega)]
      apply ih _ _ _ _ _ hR
      intro hs'
      by_cases ha : a = 0
      · subst ha; rw [zr_cons_zero] at hz; omega
      · rw [zr_cons_ne a r ha] at hz; omega
    · by_cases ha : a = 0
      · subst ha
        rw [Impl.longestZeroSeq, if_neg hs, if_pos rfl, countZeros_eq]
        have hc := zr_cons_zero r
        by_cases hlt : lc < Spec.zeroRunLen (0 :: r)
        · simp only [hlt, if_true]
          by_cases h1 : Spec.zeroRunLen (0 :: r) > 1
          · rw [fca_upd 0 r i lc cmp best hR hlt h1]
            apply ih
            · exact Or.inr ⟨by omega, rfl⟩
            · intro _; omega
          · rw [fca_noupd 0 r i lc cmp best hR (by omega)]
            apply ih
            · rcases hR with ⟨_, rfl⟩ | ⟨h2, _⟩
              · exact Or.inl ⟨by omega, rfl⟩
              · omega
            · intro _; omega
        · simp only [hlt, if_false]
          rw [fca_noupd 0 r i lc cmp best hR (by omega)]
          apply ih _ _ _ _ _ hR
          intro _; omega
      · rw [Impl.longestZeroSeq, if_neg hs, if_neg ha,
          fca_noupd a r i lc cmp best hR (by rw [zr_cons_ne a r ha]; omega)]
        apply ih _ _ _ _ _ hR
        intro h; omega

theorem findCompressAux_spec (P : Nat → Nat → Prop) : ∀ (l : List Nat) (i : Nat) (best : Option (Nat × Nat)),
    (∀ j n, best = some (j, n) → P j n) →
    (∀ k, k < l.length → Spec.zeroRunLen (l.drop k) > 1 → P (i + k) (Spec.zeroRunLen (l.drop k))) →
    ∀ j n, Spec.findCompressAux l i best = some (j, n) → P j n := by
  intro l
  induction l with
  | nil => intro i best hb _ j n h; exact hb j n (by simpa [Spec.findCompressAux] using h)
  | cons a r ih =>
    intro i best hb hk j n h
    rw [fca_cons] at h
    refine ih (i + 1) _ ?_ ?_ j n h
    · intro j' n' hj
      rcases ite_cases (Spec.zeroRunLen (a :: r) > 1 ∧ better best (Spec.zeroRunLen (a :: r)) = true)
          (some (i, Spec.zeroRunLen (a :: r))) best with ⟨hc, he⟩ | ⟨hc, he⟩
      · rw [he] at hj
        have := hk 0 (by simp) (by simpa using hc.1)
        simp at hj
        obtain ⟨rfl, rfl⟩ := hj
        simpa using this
      · rw [he] at hj
        exact hb j' n' hj
    · intro k hk1 hk2
      have := hk (k + 1) (by simpa using hk1) (by simpa using hk2)
      have e : i + (k + 1) = i + 1 + k := by omega
      rw [e] at this
      simpa using this

/-- result of the C++ scan, related to the Standard's "compressed piece index" -/
theorem longest_findCompress (a : List Nat) :
    ((Impl.longestZeroSeq a 0 0 0 0).1 ≤ 1 ∧ Spec.findCompress a = none) ∨
    (2 ≤ (Impl.longestZeroSeq a 0 0 0 0).1 ∧
      Spec.findCompress a = some (Impl.longestZeroSeq a 0 0 0 0).2 ∧
      (Impl.longestZeroSeq a 0 0 0 0).2 < a.length ∧
      Spec.zeroRunLen (a.drop (Impl.longestZeroSeq a 0 0 0 0).2) = (Impl.longestZeroSeq a 0 0 0 0).1) := by
  have h := longest_rel a 0 0 0 0 none (Or.inl ⟨by omega, rfl⟩) (by intro h; omega)
  rcases h with ⟨h1, h2⟩ | ⟨h1, h2⟩
  · left; exact ⟨h1, by simp [Spec.findCompress, h2]⟩
  · right
    refine ⟨h1, by simp [Spec.findCompress, h2], ?_⟩
    have := findCompressAux_spec (fun j n => j < a.length ∧ Spec.zeroRunLen (a.drop j) = n) a 0 none
      (by intro j n h; cases h) (by intro k hk _; simpa using hk) _ _ h2
    exact this


/-! ### serializer: closed form of the output -/

/-- every piece followed by ':' -/
def colonEach : List Nat → List Nat
  | [] => []
  | x :: r => toHexLower x ++ 0x3A :: colonEach r

/-- pieces separated by ':' -/
def joinC : List Nat → List Nat
  | [] => []
  | x :: r => toHexLower x ++ (if r = [] then [] else 0x3A :: joinC r)

/-- the compression marker: "::" at the start, ":" after a piece that already printed its ':' -/
def marker (idx : Nat) : List Nat := if idx = 0 then [0x3A, 0x3A] else [0x3A]

theorem impl_loop_plain (c : Option Nat) (len : Nat) : ∀ (l : List Nat) (fuel i : Nat),
    l.length < fuel → (∀ x ∈ l, x < 65536) → (c = none ∨ ∃ idx, c = some idx ∧ idx < i) →
    Impl.ipv6SerLoop c len fuel l i = joinC l := by
  intro l
  induction l with
  | nil => intro fuel i _ _ _; cases fuel <;> simp [Impl.ipv6SerLoop, joinC]
  | cons a r ih =>
    intro fuel i hf hx hc
    obtain ⟨f, rfl⟩ : ∃ f, fuel = f + 1 := ⟨fuel - 1, by simp at hf; omega⟩
    have hne : c ≠ some i := by
      rcases hc with rfl | ⟨idx, rfl, h⟩
      · simp
      · simp; omega
    rw [Impl.ipv6SerLoop, if_neg hne, unsignedToStr_hex16 a (hx a (by simp)), joinC]
    by_cases hr : r = []
    · simp [hr]
    · simp only [hr, if_false]
      rw [ih f (i + 1) (by simp at hf; omega) (fun x h => hx x (by simp [h]))]
      rcases hc with rfl | ⟨idx, rfl, h⟩
      · exact Or.inl rfl
      · exact Or.inr ⟨idx, rfl, by omega⟩

theorem impl_loop_compress (len : Nat) (post : List Nat) (hlen : 2 ≤ len) (idx : Nat) :
    ∀ (pre : List Nat) (fuel i : Nat), idx = i + pre.length →
    (pre ++ (List.replicate len 0 ++ post)).length < fuel →
    (∀ x ∈ pre, x < 65536) → (∀ x ∈ post, x < 65536) →
    Impl.ipv6SerLoop (some idx) len fuel (pre ++ (List.replicate len 0 ++ post)) i =
      colonEach pre ++ (marker idx ++ joinC post) := by
  intro pre
  induction pre with
  | nil =>
    intro fuel i hidx hf _ hpost
    simp at hidx
    subst hidx
    obtain ⟨f, rfl⟩ : ∃ f, fuel = f + 1 := ⟨fuel - 1, by omega⟩
    obtain ⟨n, rfl⟩ : ∃ n, len = n + 1 := ⟨len - 1, by omega⟩
    have hd : (0 :: (List.replicate n 0 ++ post)).drop (n + 1) = post := by
      simp
    simp only [List.nil_append, List.replicate_succ, List.cons_append, colonEach]
    rw [Impl.ipv6SerLoop, if_pos rfl, hd]
    cases post with
    | nil => simp [marker, joinC]
    | cons b r' =>
      simp only [marker, joinC]
      rw [unsignedToStr_hex16 b (hpost b (by simp))]
      by_cases hr : r' = []
      · simp [hr]
      · simp only [hr, if_false]
        rw [impl_loop_plain (some idx) (n + 1) r' f (idx + (n + 1) + 1)
          (by simp at hf; omega) (fun x h => hpost x (by simp [h])) (Or.inr ⟨idx, rfl, by omega⟩)]
        simp
  | cons x pre' ih =>
    intro fuel i hidx hf hpre hpost
    obtain ⟨f, rfl⟩ : ∃ f, fuel = f + 1 := ⟨fuel - 1, by simp at hf; omega⟩
    have hne : some idx ≠ some i := by simp at hidx ⊢; omega
    have hr : pre' ++ (List.replicate len 0 ++ post) ≠ [] := by
      obtain ⟨n, rfl⟩ : ∃ n, len = n + 1 := ⟨len - 1, by omega⟩
      simp [List.replicate_succ]
    simp only [List.cons_append, colonEach]
    rw [Impl.ipv6SerLoop, if_neg hne, unsignedToStr_hex16 x (hpre x (by simp)), if_neg hr,
      ih f (i + 1) (by simp at hidx; omega) (by simp at hf ⊢; omega)
        (fun y h => hpre y (by simp [h])) hpost]
    simp

theorem spec_ser_plain (c : Option Nat) : ∀ (l : List Nat) (i : Nat),
    i + l.length = 8 → (c = none ∨ ∃ idx, c = some idx ∧ idx < i) →
    Spec.ipv6SerAux c l i false = joinC l := by
  intro l
  induction l with
  | nil => intro i _ _; simp [Spec.ipv6SerAux, joinC]
  | cons a r ih =>
    intro i hl hc
    have hne : c ≠ some i := by
      rcases hc with rfl | ⟨idx, rfl, h⟩
      · simp
      · simp; omega
    have hc' : c = none ∨ ∃ idx, c = some idx ∧ idx < i + 1 := by
      rcases hc with rfl | ⟨idx, rfl, h⟩
      · exact Or.inl rfl
      · exact Or.inr ⟨idx, rfl, by omega⟩
    rw [Spec.ipv6SerAux, if_neg (by simp), if_neg hne, joinC, ih (i + 1) (by simp at hl; omega) hc']
    cases r with
    | nil => simp at hl; simp [hl, joinC]
    | cons b r' =>
      have : i ≠ 7 := by simp at hl; omega
      simp [this]

theorem spec_ser_skip (c : Option Nat) (l : List Nat) : ∀ (n i : Nat),
    Spec.ipv6SerAux c (List.replicate n 0 ++ l) i true = Spec.ipv6SerAux c l (i + n) true := by
  intro n
  induction n with
  | zero => intro i; simp
  | succ n ih =>
    intro i
    simp only [List.replicate_succ, List.cons_append]
    rw [Spec.ipv6SerAux, if_pos (by simp), ih]
    congr 1; omega

theorem spec_ser_compress (len : Nat) (post : List Nat) (hlen : 2 ≤ len) (idx : Nat)
    (hpost : ∀ b r, post = b :: r → b ≠ 0) :
    ∀ (pre : List Nat) (i : Nat), idx = i + pre.length →
    i + (pre ++ (List.replicate len 0 ++ post)).length = 8 →
    Spec.ipv6SerAux (some idx) (pre ++ (List.replicate len 0 ++ post)) i false =
      colonEach pre ++ (marker idx ++ joinC post) := by
  intro pre
  induction pre with
  | nil =>
    intro i hidx hl
    simp at hidx
    subst hidx
    obtain ⟨n, rfl⟩ : ∃ n, len = n + 1 := ⟨len - 1, by omega⟩
    simp only [List.nil_append, List.replicate_succ, List.cons_append, colonEach]
    rw [Spec.ipv6SerAux, if_neg (by simp), if_pos rfl, spec_ser_skip]
    cases post with
    | nil => simp [marker, joinC, Spec.ipv6SerAux]
    | cons b r' =>
      have hb := hpost b r' rfl
      have e : Spec.ipv6SerAux (some idx) (b :: r') (idx + 1 + n) true =
          Spec.ipv6SerAux (some idx) (b :: r') (idx + 1 + n) false := by
        rw [Spec.ipv6SerAux, Spec.ipv6SerAux]; simp [hb]
      rw [e, spec_ser_plain (some idx) (b :: r') (idx + 1 + n) (by simp at hl ⊢; omega)
        (Or.inr ⟨idx, rfl, by omega⟩)]
      simp [marker]
  | cons x pre' ih =>
    intro i hidx hl
    have hne : some idx ≠ some i := by simp at hidx ⊢; omega
    have h7 : i ≠ 7 := by simp at hl; omega
    simp only [List.cons_append, colonEach]
    rw [Spec.ipv6SerAux, if_neg (by simp), if_neg hne,
      ih (i + 1) (by simp at hidx; omega) (by simp at hl ⊢; omega)]
    simp [h7]

/-- a list is its leading zero run followed by a rest that does not start with 0 -/
theorem zeroRun_decomp : ∀ l : List Nat,
    l = List.replicate (Spec.zeroRunLen l) 0 ++ l.drop (Spec.zeroRunLen l) ∧
    ∀ b r, l.drop (Spec.zeroRunLen l) = b :: r → b ≠ 0 := by
  intro l
  induction l with
  | nil => simp [Spec.zeroRunLen]
  | cons a r ih =>
    by_cases ha : a = 0
    · subst ha
      rw [zr_cons_zero]
      simp only [List.replicate_succ, List.cons_append, List.drop_succ_cons]
      exact ⟨by rw [← ih.1], ih.2⟩
    · rw [zr_cons_ne a r ha]
      simp
      intro b; exact ha b

/-- closed form of both serializers -/
theorem serialize_form (a : List Nat) (h8 : a.length = 8) (hx : ∀ x ∈ a, x < 65536) :
    (Impl.ipv6Serialize a = joinC a ∧ Spec.ipv6Serialize a = joinC a) ∨
    (∃ pre len post, a = pre ++ (List.replicate len 0 ++ post) ∧ 2 ≤ len ∧
      Impl.ipv6Serialize a = colonEach pre ++ (marker pre.length ++ joinC post) ∧
      Spec.ipv6Serialize a = colonEach pre ++ (marker pre.length ++ joinC post)) := by
  rcases longest_findCompress a with ⟨h1, h2⟩ | ⟨h1, h2, h3, h4⟩
  · left
    constructor
    · unfold Impl.ipv6Serialize
      have : (Impl.longestZeroSeq a 0 0 0 0).1 = 0 ∨ (Impl.longestZeroSeq a 0 0 0 0).1 = 1 := by omega
      simp only [this, if_true]
      exact impl_loop_plain none _ a _ 0 (by omega) hx (Or.inl rfl)
    · unfold Spec.ipv6Serialize
      rw [h2]
      exact spec_ser_plain none a 0 (by omega) (Or.inl rfl)
  · right
    generalize hidx : (Impl.longestZeroSeq a 0 0 0 0).2 = idx at h2 h3 h4
    generalize hlen : (Impl.longestZeroSeq a 0 0 0 0).1 = len at h1 h4
    obtain ⟨hd1, hd2⟩ := zeroRun_decomp (a.drop idx)
    rw [h4] at hd1 hd2
    have ha : a = a.take idx ++ (List.replicate len 0 ++ (a.drop idx).drop len) := by
      rw [← hd1]; simp
    have hpl : (a.take idx).length = idx := by simp; omega
    refine ⟨a.take idx, len, (a.drop idx).drop len, ha, h1, ?_, ?_⟩
    · unfold Impl.ipv6Serialize
      have : ¬ (len = 0 ∨ len = 1) := by omega
      simp only [hidx, hlen, this, if_false]
      rw [hpl]
      have e := impl_loop_compress len ((a.drop idx).drop len) h1 idx (a.take idx) (a.length + 1) 0
        (by omega) (by rw [← ha]; omega)
        (fun x h => hx x (List.mem_of_mem_take h))
        (fun x h => hx x (List.mem_of_mem_drop (List.mem_of_mem_drop h)))
      rw [← ha] at e
      exact e
    · unfold Spec.ipv6Serialize
      rw [h2, hpl]
      have e := spec_ser_compress len ((a.drop idx).drop len) h1 idx hd2 (a.take idx) 0
        (by omega) (by rw [← ha]; omega)
      rw [← ha] at e
      exact e

end Upa.Proofs.V6
