import Upa.Proofs.Bounds
import Upa.Impl.Host
/-
  Helper lemmas for C04b, part 2: the bounds-instrumented models of `Upa/Impl/Bounds.lean` compute the
  same results as the list models of `Upa/Impl/*.lean` on `slice a first last`
  (= `(a.extract first last).toList`).
-/
namespace Upa.Impl.B

/-- the list the un-instrumented models work on -/
def slice (a : Array Nat) (first last : Nat) : List Nat := (a.extract first last).toList

theorem slice_nil (a : Array Nat) (first last : Nat) (h : last ≤ first) : slice a first last = [] := by
  simp [slice]
  omega

theorem slice_cons (a : Array Nat) (first last : Nat) (h : first < last) (hl : last ≤ a.size) :
    slice a first last = a[first]! :: slice a (first + 1) last := by
  simp only [slice, Array.toList_extract, List.extract_eq_take_drop]
  have h1 : first < a.toList.length := by simp; omega
  rw [List.drop_eq_getElem_cons h1]
  have : last - first = (last - (first + 1)) + 1 := by omega
  rw [this, List.take_succ_cons]
  congr 1
  simp [getElem!_pos a first (by omega)]

theorem slice_le1 (a : Array Nat) (first last : Nat) (h : last - first ≤ 1) (hl : last ≤ a.size) :
    slice a first last = [] ∨ ∃ x, slice a first last = [x] := by
  by_cases h0 : last ≤ first
  · exact Or.inl (slice_nil a first last h0)
  · right
    rw [slice_cons a first last (by omega) hl, slice_nil a (first + 1) last (by omega)]
    exact ⟨_, rfl⟩

theorem startsWithWindowsDrive_agrees (a : Array Nat) (first last : Nat) (h : first ≤ last) (hl : last ≤ a.size) :
    startsWithWindowsDrive a first last = .ok (Impl.startsWithWindowsDrive (slice a first last)) := by
  unfold startsWithWindowsDrive
  by_cases h2 : last - first = 2
  · rw [slice_cons a first last (by omega) hl, slice_cons a (first + 1) last (by omega) hl,
      slice_nil a (first + 1 + 1) last (by omega)]
    simp only [h2, if_true, R.pure_bind', rd_ok (Nat.le_refl first) (by omega : first < last) hl,
      rd_ok (by omega : first ≤ first + 1) (by omega : first + 1 < last) hl, R.ok_bind,
      Impl.startsWithWindowsDrive]
    rfl
  · by_cases h3 : last - first > 2
    · rw [slice_cons a first last (by omega) hl, slice_cons a (first + 1) last (by omega) hl,
        slice_cons a (first + 1 + 1) last (by omega) hl]
      simp only [h2, h3, if_true, if_false, rd_ok (Nat.le_refl first) (by omega : first < last) hl,
        rd_ok (by omega : first ≤ first + 1) (by omega : first + 1 < last) hl,
        rd_ok (by omega : first ≤ first + 2) (by omega : first + 2 < last) hl, R.ok_bind,
        Impl.startsWithWindowsDrive]
      cases isSpecialAuthorityEnd a[first + 2]! <;> simp [R.pure_eq]
    · simp only [h2, h3, if_false, R.pure_bind']
      rcases slice_le1 a first last (by omega) hl with h0 | ⟨x, h1⟩
      · rw [h0]; rfl
      · rw [h1]; rfl
theorem slice_length (a : Array Nat) (first last : Nat) (hl : last ≤ a.size) :
    (slice a first last).length = last - first := by
  simp [slice]; omega

theorem pathnameHasWindowsDrive_agrees (a : Array Nat) (first last : Nat) (h : first ≤ last) (hl : last ≤ a.size) :
    pathnameHasWindowsDrive a first last = .ok (Impl.pathnameHasWindowsDrive (slice a first last)) := by
  unfold pathnameHasWindowsDrive
  by_cases h3 : last - first = 3
  · rw [slice_cons a first last (by omega) hl, slice_cons a (first + 1) last (by omega) hl,
      slice_cons a (first + 1 + 1) last (by omega) hl, slice_nil a (first + 1 + 1 + 1) last (by omega)]
    simp only [h3, if_true, R.pure_bind', rd_ok (Nat.le_refl first) (by omega : first < last) hl,
      rd_ok (by omega : first ≤ first + 1) (by omega : first + 1 < last) hl,
      rd_ok (by omega : first ≤ first + 2) (by omega : first + 2 < last) hl, R.ok_bind,
      Impl.pathnameHasWindowsDrive]
    cases Impl.isWindowsSlash a[first]! <;> simp [R.pure_eq]
  · by_cases h4 : last - first > 3
    · rw [slice_cons a first last (by omega) hl, slice_cons a (first + 1) last (by omega) hl,
        slice_cons a (first + 1 + 1) last (by omega) hl, slice_cons a (first + 1 + 1 + 1) last (by omega) hl]
      simp only [h3, h4, if_true, if_false, rd_ok (Nat.le_refl first) (by omega : first < last) hl,
        rd_ok (by omega : first ≤ first + 1) (by omega : first + 1 < last) hl,
        rd_ok (by omega : first ≤ first + 2) (by omega : first + 2 < last) hl,
        rd_ok (by omega : first ≤ first + 3) (by omega : first + 3 < last) hl, R.ok_bind,
        Impl.pathnameHasWindowsDrive]
      cases Impl.isWindowsSlash a[first + 3]! <;> cases Impl.isWindowsSlash a[first]! <;> simp [R.pure_eq]
    · simp only [h3, h4, if_false, R.pure_bind']
      have hlen := slice_length a first last hl
      generalize slice a first last = s at hlen
      rcases s with _ | ⟨x, _ | ⟨y, _ | ⟨z, _ | ⟨w, t⟩⟩⟩⟩ <;> simp [Impl.pathnameHasWindowsDrive, R.pure_eq] at hlen ⊢ <;> omega

/-- `some (pointer + 3)` of the C++ is the suffix the list model returns -/
theorem isWindowsDriveAbsolutePath_agrees (a : Array Nat) (first last : Nat) (h : first ≤ last) (hl : last ≤ a.size) :
    ∃ o, isWindowsDriveAbsolutePath a first last = .ok o ∧
      o.map (fun p => slice a p last) = Impl.isWindowsDriveAbsolutePath (slice a first last) := by
  unfold isWindowsDriveAbsolutePath
  by_cases h3 : last - first > 2
  · rw [slice_cons a first last (by omega) hl, slice_cons a (first + 1) last (by omega) hl,
      slice_cons a (first + 1 + 1) last (by omega) hl]
    simp only [h3, if_true, rd_ok (Nat.le_refl first) (by omega : first < last) hl,
      rd_ok (by omega : first ≤ first + 1) (by omega : first + 1 < last) hl,
      rd_ok (by omega : first ≤ first + 2) (by omega : first + 2 < last) hl, R.ok_bind,
      Impl.isWindowsDriveAbsolutePath]
    cases Impl.isWindowsDrive a[first]! a[first + 1]! <;> cases Impl.isWindowsSlash a[first + 2]! <;>
      simp [R.pure_eq]
  · simp only [h3, if_false]
    refine ⟨none, rfl, ?_⟩
    have hlen := slice_length a first last hl
    generalize slice a first last = s at hlen
    rcases s with _ | ⟨x, _ | ⟨y, _ | ⟨z, t⟩⟩⟩ <;> simp [Impl.isWindowsDriveAbsolutePath] at hlen ⊢ <;> omega

theorem escapedDot_agrees (a : Array Nat) (first last p : Nat) (hl : last ≤ a.size) (h1 : first ≤ p) (h2 : p + 3 ≤ last) :
    escapedDot a first last p = .ok (Impl.escapedDot [a[p]!, a[p + 1]!, a[p + 2]!]) := by
  unfold escapedDot
  simp only [rd_ok h1 (by omega : p < last) hl, rd_ok (by omega : first ≤ p + 1) (by omega : p + 1 < last) hl,
    rd_ok (by omega : first ≤ p + 2) (by omega : p + 2 < last) hl, R.ok_bind, Impl.escapedDot]
  by_cases c0 : a[p]! = 0x25 <;> by_cases c1 : a[p + 1]! = 0x32 <;> simp [c0, c1, R.pure_eq]

theorem singleDot_agrees (a : Array Nat) (first last : Nat) (h : first ≤ last) (hl : last ≤ a.size) :
    singleDot a first last = .ok (Impl.singleDot (slice a first last)) := by
  unfold singleDot
  simp only []
  by_cases h1 : last - first = 1
  · rw [slice_cons a first last (by omega) hl, slice_nil a (first + 1) last (by omega)]
    simp only [h1, if_true, rd_ok (Nat.le_refl first) (by omega : first < last) hl, R.ok_bind, Impl.singleDot]
    rfl
  · by_cases h3 : last - first = 3
    · rw [slice_cons a first last (by omega) hl, slice_cons a (first + 1) last (by omega) hl,
        slice_cons a (first + 1 + 1) last (by omega) hl, slice_nil a (first + 1 + 1 + 1) last (by omega)]
      simp only [h3, if_true, Impl.singleDot]
      exact escapedDot_agrees a first last first hl (Nat.le_refl _) (by omega)
    · simp only [h1, h3, if_false]
      have hlen := slice_length a first last hl
      generalize slice a first last = s at hlen
      rcases s with _ | ⟨x, _ | ⟨y, _ | ⟨z, _ | ⟨w, t⟩⟩⟩⟩ <;> simp [Impl.singleDot, R.pure_eq] at hlen ⊢ <;> omega

theorem doubleDot_agrees (a : Array Nat) (first last : Nat) (h : first ≤ last) (hl : last ≤ a.size) :
    doubleDot a first last = .ok (Impl.doubleDot (slice a first last)) := by
  unfold doubleDot
  simp only []
  by_cases h2 : last - first = 2
  · rw [slice_cons a first last (by omega) hl, slice_cons a (first + 1) last (by omega) hl,
      slice_nil a (first + 1 + 1) last (by omega)]
    simp only [h2, if_true, rd_ok (Nat.le_refl first) (by omega : first < last) hl,
      rd_ok (by omega : first ≤ first + 1) (by omega : first + 1 < last) hl, R.ok_bind, Impl.doubleDot]
    by_cases c0 : a[first]! = 0x2E <;> simp [c0, R.pure_eq]
  by_cases h4 : last - first = 4
  · rw [slice_cons a first last (by omega) hl, slice_cons a (first + 1) last (by omega) hl,
      slice_cons a (first + 1 + 1) last (by omega) hl, slice_cons a (first + 1 + 1 + 1) last (by omega) hl,
      slice_nil a (first + 1 + 1 + 1 + 1) last (by omega)]
    simp only [h4, if_true, rd_ok (Nat.le_refl first) (by omega : first < last) hl,
      rd_ok (by omega : first ≤ first + 3) (by omega : first + 3 < last) hl, R.ok_bind, Impl.doubleDot,
      escapedDot_agrees a first last first hl (Nat.le_refl _) (by omega),
      escapedDot_agrees a first last (first + 1) hl (by omega) (by omega)]
    by_cases c0 : a[first]! = 0x2E <;>
      cases Impl.escapedDot [a[first + 1]!, a[first + 1 + 1]!, a[first + 1 + 2]!] <;>
      cases Impl.escapedDot [a[first]!, a[first + 1]!, a[first + 2]!] <;> simp [c0, R.pure_eq]
  by_cases h6 : last - first = 6
  · rw [slice_cons a first last (by omega) hl, slice_cons a (first + 1) last (by omega) hl,
      slice_cons a (first + 1 + 1) last (by omega) hl, slice_cons a (first + 1 + 1 + 1) last (by omega) hl,
      slice_cons a (first + 1 + 1 + 1 + 1) last (by omega) hl,
      slice_cons a (first + 1 + 1 + 1 + 1 + 1) last (by omega) hl,
      slice_nil a (first + 1 + 1 + 1 + 1 + 1 + 1) last (by omega)]
    simp only [h6, if_true, R.ok_bind, Impl.doubleDot,
      escapedDot_agrees a first last first hl (Nat.le_refl _) (by omega),
      escapedDot_agrees a first last (first + 3) hl (by omega) (by omega)]
    cases Impl.escapedDot [a[first]!, a[first + 1]!, a[first + 2]!] <;> simp [R.pure_eq]
  simp only [h2, h4, h6, if_false]
  have hlen := slice_length a first last hl
  generalize slice a first last = s at hlen
  rcases s with _ | ⟨x1, _ | ⟨x2, _ | ⟨x3, _ | ⟨x4, _ | ⟨x5, _ | ⟨x6, _ | ⟨x7, t⟩⟩⟩⟩⟩⟩⟩ <;>
    simp [Impl.doubleDot, R.pure_eq] at hlen ⊢ <;> omega
theorem findCh_spec (a : Array Nat) (first last ch : Nat) (hl : last ≤ a.size) :
    ∀ n p, first ≤ p → p + n ≤ last →
      (findCh a first last ch n p).sat (fun r => match r with
        | none => ∀ i, p ≤ i → i < p + n → a[i]! ≠ ch
        | some q => p ≤ q ∧ q < p + n ∧ a[q]! = ch ∧ ∀ i, p ≤ i → i < q → a[i]! ≠ ch) := by
  intro n
  induction n with
  | zero => intro p _ _; exact R.sat_pure (by intro i h1 h2; omega)
  | succ n ih =>
    intro p h1 h2
    simp only [findCh, rd_ok h1 (by omega : p < last) hl, R.ok_bind]
    split
    · rename_i hc
      exact R.sat_pure ⟨Nat.le_refl _, by omega, hc, by intro i h1 h2; omega⟩
    · rename_i hc
      refine R.sat_mono (ih (p + 1) (by omega) (by omega)) ?_
      intro r hr
      cases r with
      | none =>
        intro i hi1 hi2
        by_cases hip : i = p
        · subst hip; exact hc
        · exact hr i (by omega) (by omega)
      | some q =>
        obtain ⟨q1, q2, q3, q4⟩ := hr
        refine ⟨by omega, by omega, q3, ?_⟩
        intro i hi1 hi2
        by_cases hip : i = p
        · subst hip; exact hc
        · exact q4 i (by omega) hi2

theorem afterDot_short : ∀ s : List Nat, s.length ≤ 4 → Impl.hasXnAfterDot s = false := by
  intro s hs
  rcases s with _ | ⟨a, _ | ⟨b, _ | ⟨c, _ | ⟨d, _ | ⟨e, t⟩⟩⟩⟩⟩ <;>
    simp [Impl.hasXnAfterDot, Impl.hasXnAt] at hs ⊢

theorem xnAt_short : ∀ s : List Nat, s.length < 4 → Impl.hasXnAt s = false := by
  intro s hs
  rcases s with _ | ⟨a, _ | ⟨b, _ | ⟨c, _ | ⟨d, t⟩⟩⟩⟩ <;> simp [Impl.hasXnAt] at hs ⊢
  omega

theorem afterDot_skip (a : Array Nat) (last : Nat) (hl : last ≤ a.size) :
    ∀ k p, p + k ≤ last → (∀ i, p ≤ i → i < p + k → a[i]! ≠ 0x2E) →
      Impl.hasXnAfterDot (slice a p last) = Impl.hasXnAfterDot (slice a (p + k) last) := by
  intro k
  induction k with
  | zero => intro p _ _; rfl
  | succ k ih =>
    intro p h1 h2
    rw [slice_cons a p last (by omega) hl]
    have hp := h2 p (Nat.le_refl _) (by omega)
    simp only [Impl.hasXnAfterDot]
    have := ih (p + 1) (by omega) (by intro i hi1 hi2; exact h2 i (by omega) (by omega))
    rw [this]
    have e : p + 1 + k = p + (k + 1) := by omega
    rw [e]
    simp [hp]

theorem hasXnLabel_agrees (a : Array Nat) (first last : Nat) (h : first ≤ last) (hl : last ≤ a.size) :
    hasXnLabel a first last = .ok (Impl.hasXnLabel (slice a first last)) := by
  suffices hs : (hasXnLabel a first last).sat (fun b => b = Impl.hasXnLabel (slice a first last)) by
    obtain ⟨v, hv, hb⟩ := hs
    rw [hv, hb]
  unfold hasXnLabel
  split
  · rename_i h4
    refine iter_sat _ (fun p => first ≤ p ∧ p ≤ last - 4 ∧
        (Impl.hasXnAt (slice a p last) || Impl.hasXnAfterDot (slice a p last)) = Impl.hasXnLabel (slice a first last))
      (fun p => last - p) _ ?_ _ _ ?_ ?_
    · intro p ⟨hI1, hI2, hI3⟩
      simp only [rd_ok hI1 (by omega : p < last) hl, R.ok_bind]
      refine R.sat_bind (P := fun b => b = Impl.hasXnAt (slice a p last)) ?_ ?_
      · rw [slice_cons a p last (by omega) hl, slice_cons a (p + 1) last (by omega) hl,
          slice_cons a (p + 1 + 1) last (by omega) hl, slice_cons a (p + 1 + 1 + 1) last (by omega) hl]
        simp only [Impl.hasXnAt, rd_ok (by omega : first ≤ p + 1) (by omega : p + 1 < last) hl,
          rd_ok (by omega : first ≤ p + 2) (by omega : p + 2 < last) hl,
          rd_ok (by omega : first ≤ p + 3) (by omega : p + 3 < last) hl, R.ok_bind]
        by_cases c0 : a[p]! ||| 0x20 = 0x78 <;> by_cases c1 : a[p + 1]! ||| 0x20 = 0x6E <;>
          by_cases c2 : a[p + 2]! = 0x2D <;> simp [c0, c1, c2, R.sat, R.pure_eq, Nat.add_assoc]
      · intro hit hhit
        split
        · rename_i ht
          refine R.sat_pure ?_
          simp only []
          rw [← hI3, ← hhit, ht]; rfl
        · rename_i hf
          refine R.sat_bind (findCh_spec a first last 0x2E hl (last - 4 - p) p hI1 (by omega)) ?_
          intro r hr
          cases r with
          | none =>
            refine R.sat_pure ?_
            simp only [] at hr ⊢
            have e : p + (last - 4 - p) = last - 4 := by omega
            have := afterDot_skip a last hl (last - 4 - p) p (by omega) hr
            rw [e] at this
            rw [← hI3, this, afterDot_short _ (by rw [slice_length a _ _ hl]; omega), ← hhit]
            simpa using hf
          | some q =>
            obtain ⟨q1, q2, q3, q4⟩ := hr
            refine R.sat_pure ?_
            simp only []
            refine ⟨⟨by omega, by omega, ?_⟩, by omega⟩
            have := afterDot_skip a last hl (q - p) p (by omega) (by intro i h1 h2; exact q4 i h1 (by omega))
            have e : p + (q - p) = q := by omega
            rw [e, slice_cons a q last (by omega) hl] at this
            rw [← hI3, this, ← hhit]
            simp only [Impl.hasXnAfterDot, q3]
            have : hit = false := by simpa using hf
            simp [this]
    · exact ⟨Nat.le_refl _, by omega, rfl⟩
    · rarith
  · rename_i h4
    refine R.sat_pure ?_
    simp only [Impl.hasXnLabel]
    rw [xnAt_short _ (by rw [slice_length a _ _ hl]; omega), afterDot_short _ (by rw [slice_length a _ _ hl]; omega)]
    rfl
theorem readU32_agrees (a : Array Nat) (first last : Nat) (h : first < last) (hl : last ≤ a.size) :
    (readU32 a first last).sat (fun r => Impl.readU32 (slice a first last) = (r.1, r.2.1, slice a r.2.2 last)) := by
  rw [slice_cons a first last h hl]
  simp only [readU32, rd_ok (Nat.le_refl _) h hl, R.ok_bind, Impl.readU32]
  exact R.sat_pure rfl

theorem readU16_agrees (a : Array Nat) (first last : Nat) (h : first < last) (hl : last ≤ a.size) :
    (readU16 a first last).sat (fun r => Impl.readU16 (slice a first last) = (r.1, r.2.1, slice a r.2.2 last)) := by
  rw [slice_cons a first last h hl]
  simp only [readU16, rd_ok (Nat.le_refl _) h hl, R.ok_bind, Impl.readU16]
  split
  · split
    · rename_i hc
      have hp : first + 1 < last := by omega
      rw [slice_cons a (first + 1) last hp hl]
      simp only [rd_ok (by omega : first ≤ first + 1) hp hl, R.ok_bind, if_pos hc.1]
      split
      · exact R.sat_pure rfl
      · exact R.sat_pure (by simp only []; rw [slice_cons a (first + 1) last hp hl])
    · rename_i hc
      by_cases hlead : a[first]! &&& 0x400 = 0
      · have : first + 1 = last := by
          apply Classical.byContradiction
          intro hne
          exact hc ⟨hlead, by omega⟩
        rw [if_pos hlead, slice_nil a (first + 1) last (by omega)]
        exact R.sat_pure (by simp only []; rw [slice_nil a (first + 1) last (by omega)])
      · rw [if_neg hlead]
        exact R.sat_pure rfl
  · exact R.sat_pure rfl

theorem and80_iff : ∀ b, b < 256 → ((b &&& 0x80 = 0) ↔ b < 0x80) := by decide +kernel

theorem subByte80_def (b : Nat) : (b + 256 - 0x80) % 256 = Impl.subByte80 b := rfl

theorem u8LastTrail_eq (a : Array Nat) (first last p c : Nat) (hl : last ≤ a.size) (h1 : first ≤ p) (h2 : p < last)
    (hb : a[p]! < 256) :
    u8LastTrail a first last p c = .ok (if Impl.subByte80 a[p]! ≤ 0x3F then
      (true, (c <<< 6) ||| Impl.subByte80 a[p]!, p + 1) else (false, 0xFFFD, p)) := by
  simp only [u8LastTrail, rd_ok h1 h2 hl, R.ok_bind, Nat.mod_eq_of_lt hb, subByte80_def]
  by_cases hc : Impl.subByte80 a[p]! ≤ 0x3F
  · rw [if_pos hc, if_pos hc]; rfl
  · rw [if_neg hc, if_neg hc]; rfl

theorem readU8_agrees (a : Array Nat) (first last : Nat) (h : first < last) (hl : last ≤ a.size)
    (hb : ∀ i, first ≤ i → i < last → a[i]! < 256) :
    (readU8 a first last).sat (fun r => Impl.readU8 (slice a first last) = (r.1, r.2.1, slice a r.2.2 last)) := by
  have m0 : a[first]! % 256 = a[first]! := Nat.mod_eq_of_lt (hb first (Nat.le_refl _) h)
  have hF : ∀ x : Nat, x &&& 0xF < 16 := by
    intro x
    have : (0xF : Nat) = 2 ^ 4 - 1 := by decide
    rw [this, Nat.and_two_pow_sub_one_eq_mod]; omega
  rw [slice_cons a first last h hl]
  simp only [readU8, rd_ok (Nat.le_refl _) h hl, R.ok_bind, m0, Impl.readU8]
  have hand := and80_iff _ (hb first (Nat.le_refl _) h)
  split
  · rename_i h80
    rw [if_pos (hand.1 h80)]; exact R.sat_pure rfl
  rename_i h80
  rw [if_neg (mt hand.2 h80)]
  split
  · rename_i hp
    rw [slice_nil a (first + 1) last (by omega)]
    exact R.sat_pure (by simp only []; rw [slice_nil a (first + 1) last (by omega)])
  rename_i hp
  have hp1 : first + 1 < last := by omega
  have m1 : a[first + 1]! % 256 = a[first + 1]! := Nat.mod_eq_of_lt (hb _ (by omega) hp1)
  rw [slice_cons a (first + 1) last hp1 hl]
  simp only []
  split
  · split
    · simp only [idx_ok (hF _), rd_ok (by omega : first ≤ first + 1) hp1 hl, R.ok_bind, m1]
      split
      · simp only [u8SecondToLast]
        split
        · rename_i hp2
          have hp2' : first + 1 + 1 < last := by omega
          rw [slice_cons a (first + 1 + 1) last hp2' hl, u8LastTrail_eq a first last _ _ hl (by omega) hp2' (hb _ (by omega) hp2')]
          simp only []
          by_cases hc : Impl.subByte80 a[first + 1 + 1]! ≤ 0x3F
          · simp only [if_pos hc]; refine R.sat_pure ?_; simp only []
          · simp only [if_neg hc]; refine R.sat_pure ?_; simp only []; rw [slice_cons a (first + 1 + 1) last hp2' hl]
        · rename_i hp2
          rw [slice_nil a (first + 1 + 1) last (by omega)]
          refine R.sat_pure ?_; simp only []; rw [slice_nil a (first + 1 + 1) last (by omega)]
      · refine R.sat_pure ?_; simp only []; rw [slice_cons a (first + 1) last hp1 hl]
    · split
      · have h16 : ∀ x : Nat, (x % 256) >>> 4 < 16 := by
          intro x; rw [Nat.shiftRight_eq_div_pow]; omega
        simp only [rd_ok (by omega : first ≤ first + 1) hp1 hl, idx_ok (h16 _), R.ok_bind, m1]
        rename_i hc4
        split
        · rename_i ht
          have hct := And.intro hc4 ht
          simp only [if_pos hct]
          split
          · rename_i hp2
            have hp2' : first + 1 + 1 < last := by omega
            have m2 : a[first + 1 + 1]! % 256 = a[first + 1 + 1]! := Nat.mod_eq_of_lt (hb _ (by omega) hp2')
            rw [slice_cons a (first + 1 + 1) last hp2' hl]
            simp only [rd_ok (by omega : first ≤ first + 1 + 1) hp2' hl, R.ok_bind, m2, subByte80_def]
            by_cases hc : Impl.subByte80 a[first + 1 + 1]! ≤ 0x3F
            · simp only [if_pos hc, u8SecondToLast]
              split
              · rename_i hp3
                have hp3' : first + 1 + 1 + 1 < last := by omega
                rw [slice_cons a (first + 1 + 1 + 1) last hp3' hl,
                  u8LastTrail_eq a first last _ _ hl (by omega) hp3' (hb _ (by omega) hp3')]
                by_cases hc3 : Impl.subByte80 a[first + 1 + 1 + 1]! ≤ 0x3F
                · simp only [if_pos hc3]; refine R.sat_pure ?_; simp only []
                · simp only [if_neg hc3]; refine R.sat_pure ?_; simp only []
                  rw [slice_cons a (first + 1 + 1 + 1) last hp3' hl]
              · rename_i hp3
                rw [slice_nil a (first + 1 + 1 + 1) last (by omega)]
                refine R.sat_pure ?_; simp only []; rw [slice_nil a (first + 1 + 1 + 1) last (by omega)]
            · simp only [if_neg hc]; refine R.sat_pure ?_; simp only []
              rw [slice_cons a (first + 1 + 1) last hp2' hl]
          · rename_i hp2
            rw [slice_nil a (first + 1 + 1) last (by omega)]
            refine R.sat_pure ?_; simp only []; rw [slice_nil a (first + 1 + 1) last (by omega)]
        · rename_i ht
          simp only [if_neg (show ¬ (a[first]! - 0xF0 ≤ 4 ∧ _) from fun hh => ht hh.2)]
          refine R.sat_pure ?_; simp only []; rw [slice_cons a (first + 1) last hp1 hl]
      · rename_i hc4
        simp only [if_neg (show ¬ (a[first]! - 0xF0 ≤ 4 ∧ _) from fun hh => hc4 hh.1)]
        refine R.sat_pure ?_; simp only []; rw [slice_cons a (first + 1) last hp1 hl]
  · split
    · rw [u8LastTrail_eq a first last _ _ hl (by omega) hp1 (hb _ (by omega) hp1)]
      by_cases hc : Impl.subByte80 a[first + 1]! ≤ 0x3F
      · simp only [if_pos hc]; refine R.sat_pure ?_; simp only []
      · simp only [if_neg hc]; refine R.sat_pure ?_; simp only []; rw [slice_cons a (first + 1) last hp1 hl]
    · refine R.sat_pure ?_; simp only []; rw [slice_cons a (first + 1) last hp1 hl]
end Upa.Impl.B
