import Upa.Proofs.Bounds
import Upa.Proofs.Utf
import Upa.Impl.Host
/-
  Helper lemmas for C04b, part 2: the bounds-instrumented models of `Upa/Impl/Bounds.lean` compute the
  same results as the list models of `Upa/Impl/*.lean` on `slice a first last`
  (= `(a.extract first last).toList`).
-/
namespace Upa.Impl.B

/-- the list the un-instrumented models work on -/
def slice (a : Array Nat) (first last : Nat) : List Nat := (a.extract first last).toList

theorem slice_nil (a : Array Nat) (first last : Nat) (h : last ≤ first) : slice a first last = [] := by
  simp [slice]
  omega

theorem slice_cons (a : Array Nat) (first last : Nat) (h : first < last) (hl : last ≤ a.size) :
    slice a first last = a[first]! :: slice a (first + 1) last := by
  simp only [slice, Array.toList_extract, List.extract_eq_take_drop]
  have h1 : first < a.toList.length := by simp; omega
  rw [List.drop_eq_getElem_cons h1]
  have : last - first = (last - (first + 1)) + 1 := by omega
  rw [this, List.take_succ_cons]
  congr 1
  simp [getElem!_pos a first (by omega)]

theorem slice_le1 (a : Array Nat) (first last : Nat) (h : last - first ≤ 1) (hl : last ≤ a.size) :
    slice a first last = [] ∨ ∃ x, slice a first last = [x] := by
  by_cases h0 : last ≤ first
  · exact Or.inl (slice_nil a first last h0)
  · right
    rw [slice_cons a first last (by omega) hl, slice_nil a (first + 1) last (by omega)]
    exact ⟨_, rfl⟩

theorem startsWithWindowsDrive_agrees (a : Array Nat) (first last : Nat) (h : first ≤ last) (hl : last ≤ a.size) :
    startsWithWindowsDrive a first last = .ok (Impl.startsWithWindowsDrive (slice a first last)) := by
  unfold startsWithWindowsDrive
  by_cases h2 : last - first = 2
  · rw [slice_cons a first last (by omega) hl, slice_cons a (first + 1) last (by omega) hl,
      slice_nil a (first + 1 + 1) last (by omega)]
    simp only [h2, if_true, R.pure_bind', rd_ok (Nat.le_refl first) (by omega : first < last) hl,
      rd_ok (by omega : first ≤ first + 1) (by omega : first + 1 < last) hl, R.ok_bind,
      Impl.startsWithWindowsDrive]
    rfl
  · by_cases h3 : last - first > 2
    · rw [slice_cons a first last (by omega) hl, slice_cons a (first + 1) last (by omega) hl,
        slice_cons a (first + 1 + 1) last (by omega) hl]
      simp only [h2, h3, if_true, if_false, rd_ok (Nat.le_refl first) (by omega : first < last) hl,
        rd_ok (by omega : first ≤ first + 1) (by omega : first + 1 < last) hl,
        rd_ok (by omega : first ≤ first + 2) (by omega : first + 2 < last) hl, R.ok_bind,
        Impl.startsWithWindowsDrive]
      cases isSpecialAuthorityEnd a[first + 2]! <;> simp [R.pure_eq]
    · simp only [h2, h3, if_false, R.pure_bind']
      rcases slice_le1 a first last (by omega) hl with h0 | ⟨x, h1⟩
      · rw [h0]; rfl
      · rw [h1]; rfl
theorem slice_length (a : Array Nat) (first last : Nat) (hl : last ≤ a.size) :
    (slice a first last).length = last - first := by
  simp [slice]; omega

theorem pathnameHasWindowsDrive_agrees (a : Array Nat) (first last : Nat) (h : first ≤ last) (hl : last ≤ a.size) :
    pathnameHasWindowsDrive a first last = .ok (Impl.pathnameHasWindowsDrive (slice a first last)) := by
  unfold pathnameHasWindowsDrive
  by_cases h3 : last - first = 3
  · rw [slice_cons a first last (by omega) hl, slice_cons a (first + 1) last (by omega) hl,
      slice_cons a (first + 1 + 1) last (by omega) hl, slice_nil a (first + 1 + 1 + 1) last (by omega)]
    simp only [h3, if_true, R.pure_bind', rd_ok (Nat.le_refl first) (by omega : first < last) hl,
      rd_ok (by omega : first ≤ first + 1) (by omega : first + 1 < last) hl,
      rd_ok (by omega : first ≤ first + 2) (by omega : first + 2 < last) hl, R.ok_bind,
      Impl.pathnameHasWindowsDrive]
    cases Impl.isWindowsSlash a[first]! <;> simp [R.pure_eq]
  · by_cases h4 : last - first > 3
    · rw [slice_cons a first last (by omega) hl, slice_cons a (first + 1) last (by omega) hl,
        slice_cons a (first + 1 + 1) last (by omega) hl, slice_cons a (first + 1 + 1 + 1) last (by omega) hl]
      simp only [h3, h4, if_true, if_false, rd_ok (Nat.le_refl first) (by omega : first < last) hl,
        rd_ok (by omega : first ≤ first + 1) (by omega : first + 1 < last) hl,
        rd_ok (by omega : first ≤ first + 2) (by omega : first + 2 < last) hl,
        rd_ok (by omega : first ≤ first + 3) (by omega : first + 3 < last) hl, R.ok_bind,
        Impl.pathnameHasWindowsDrive]
      cases Impl.isWindowsSlash a[first + 3]! <;> cases Impl.isWindowsSlash a[first]! <;> simp [R.pure_eq]
    · simp only [h3, h4, if_false, R.pure_bind']
      have hlen := slice_length a first last hl
      generalize slice a first last = s at hlen
      rcases s with _ | ⟨x, _ | ⟨y, _ | ⟨z, _ | ⟨w, t⟩⟩⟩⟩ <;> simp [Impl.pathnameHasWindowsDrive, R.pure_eq] at hlen ⊢ <;> omega

/-- `some (pointer + 3)` of the C++ is the suffix the list model returns -/
theorem isWindowsDriveAbsolutePath_agrees (a : Array Nat) (first last : Nat) (h : first ≤ last) (hl : last ≤ a.size) :
    ∃ o, isWindowsDriveAbsolutePath a first last = .ok o ∧
      o.map (fun p => slice a p last) = Impl.isWindowsDriveAbsolutePath (slice a first last) := by
  unfold isWindowsDriveAbsolutePath
  by_cases h3 : last - first > 2
  · rw [slice_cons a first last (by omega) hl, slice_cons a (first + 1) last (by omega) hl,
      slice_cons a (first + 1 + 1) last (by omega) hl]
    simp only [h3, if_true, rd_ok (Nat.le_refl first) (by omega : first < last) hl,
      rd_ok (by omega : first ≤ first + 1) (by omega : first + 1 < last) hl,
      rd_ok (by omega : first ≤ first + 2) (by omega : first + 2 < last) hl, R.ok_bind,
      mkptr_ok (by omega : first ≤ first + 3) (by omega : first + 3 ≤ last),
      Impl.isWindowsDriveAbsolutePath]
    cases Impl.isWindowsDrive a[first]! a[first + 1]! <;> cases Impl.isWindowsSlash a[first + 2]! <;>
      simp [R.pure_eq]
  · simp only [h3, if_false]
    refine ⟨none, rfl, ?_⟩
    have hlen := slice_length a first last hl
    generalize slice a first last = s at hlen
    rcases s with _ | ⟨x, _ | ⟨y, _ | ⟨z, t⟩⟩⟩ <;> simp [Impl.isWindowsDriveAbsolutePath] at hlen ⊢ <;> omega

theorem escapedDot_agrees (a : Array Nat) (first last p : Nat) (hl : last ≤ a.size) (h1 : first ≤ p) (h2 : p + 3 ≤ last) :
    escapedDot a first last p = .ok (Impl.escapedDot [a[p]!, a[p + 1]!, a[p + 2]!]) := by
  unfold escapedDot
  simp only [rd_ok h1 (by omega : p < last) hl, rd_ok (by omega : first ≤ p + 1) (by omega : p + 1 < last) hl,
    rd_ok (by omega : first ≤ p + 2) (by omega : p + 2 < last) hl, R.ok_bind, Impl.escapedDot]
  by_cases c0 : a[p]! = 0x25 <;> by_cases c1 : a[p + 1]! = 0x32 <;> simp [c0, c1, R.pure_eq]

theorem singleDot_agrees (a : Array Nat) (first last : Nat) (h : first ≤ last) (hl : last ≤ a.size) :
    singleDot a first last = .ok (Impl.singleDot (slice a first last)) := by
  unfold singleDot
  simp only []
  by_cases h1 : last - first = 1
  · rw [slice_cons a first last (by omega) hl, slice_nil a (first + 1) last (by omega)]
    simp only [h1, if_true, rd_ok (Nat.le_refl first) (by omega : first < last) hl, R.ok_bind, Impl.singleDot]
    rfl
  · by_cases h3 : last - first = 3
    · rw [slice_cons a first last (by omega) hl, slice_cons a (first + 1) last (by omega) hl,
        slice_cons a (first + 1 + 1) last (by omega) hl, slice_nil a (first + 1 + 1 + 1) last (by omega)]
      simp only [h3, if_true, Impl.singleDot]
      exact escapedDot_agrees a first last first hl (Nat.le_refl _) (by omega)
    · simp only [h1, h3, if_false]
      have hlen := slice_length a first last hl
      generalize slice a first last = s at hlen
      rcases s with _ | ⟨x, _ | ⟨y, _ | ⟨z, _ | ⟨w, t⟩⟩⟩⟩ <;> simp [Impl.singleDot, R.pure_eq] at hlen ⊢ <;> omega

theorem doubleDot_agrees (a : Array Nat) (first last : Nat) (h : first ≤ last) (hl : last ≤ a.size) :
    doubleDot a first last = .ok (Impl.doubleDot (slice a first last)) := by
  unfold doubleDot
  simp only []
  by_cases h2 : last - first = 2
  · rw [slice_cons a first last (by omega) hl, slice_cons a (first + 1) last (by omega) hl,
      slice_nil a (first + 1 + 1) last (by omega)]
    simp only [h2, if_true, rd_ok (Nat.le_refl first) (by omega : first < last) hl,
      rd_ok (by omega : first ≤ first + 1) (by omega : first + 1 < last) hl, R.ok_bind, Impl.doubleDot]
    by_cases c0 : a[first]! = 0x2E <;> simp [c0, R.pure_eq]
  by_cases h4 : last - first = 4
  · rw [slice_cons a first last (by omega) hl, slice_cons a (first + 1) last (by omega) hl,
      slice_cons a (first + 1 + 1) last (by omega) hl, slice_cons a (first + 1 + 1 + 1) last (by omega) hl,
      slice_nil a (first + 1 + 1 + 1 + 1) last (by omega)]
    simp only [h4, if_true, rd_ok (Nat.le_refl first) (by omega : first < last) hl,
      rd_ok (by omega : first ≤ first + 3) (by omega : first + 3 < last) hl, R.ok_bind, Impl.doubleDot,
      mkptr_ok (by omega : first ≤ first + 1) (by omega : first + 1 ≤ last),
      escapedDot_agrees a first last first hl (Nat.le_refl _) (by omega),
      escapedDot_agrees a first last (first + 1) hl (by omega) (by omega)]
    by_cases c0 : a[first]! = 0x2E <;>
      cases Impl.escapedDot [a[first + 1]!, a[first + 1 + 1]!, a[first + 1 + 2]!] <;>
      cases Impl.escapedDot [a[first]!, a[first + 1]!, a[first + 2]!] <;> simp [c0, R.pure_eq]
  by_cases h6 : last - first = 6
  · rw [slice_cons a first last (by omega) hl, slice_cons a (first + 1) last (by omega) hl,
      slice_cons a (first + 1 + 1) last (by omega) hl, slice_cons a (first + 1 + 1 + 1) last (by omega) hl,
      slice_cons a (first + 1 + 1 + 1 + 1) last (by omega) hl,
      slice_cons a (first + 1 + 1 + 1 + 1 + 1) last (by omega) hl,
      slice_nil a (first + 1 + 1 + 1 + 1 + 1 + 1) last (by omega)]
    simp only [h6, if_true, R.ok_bind, Impl.doubleDot,
      mkptr_ok (by omega : first ≤ first + 3) (by omega : first + 3 ≤ last),
      escapedDot_agrees a first last first hl (Nat.le_refl _) (by omega),
      escapedDot_agrees a first last (first + 3) hl (by omega) (by omega)]
    cases Impl.escapedDot [a[first]!, a[first + 1]!, a[first + 2]!] <;> simp [R.pure_eq]
  simp only [h2, h4, h6, if_false]
  have hlen := slice_length a first last hl
  generalize slice a first last = s at hlen
  rcases s with _ | ⟨x1, _ | ⟨x2, _ | ⟨x3, _ | ⟨x4, _ | ⟨x5, _ | ⟨x6, _ | ⟨x7, t⟩⟩⟩⟩⟩⟩⟩ <;>
    simp [Impl.doubleDot, R.pure_eq] at hlen ⊢ <;> omega
theorem findCh_spec (a : Array Nat) (first last ch : Nat) (hl : last ≤ a.size) :
    ∀ n p, first ≤ p → p + n ≤ last →
      (findCh a first last ch n p).sat (fun r => match r with
        | none => ∀ i, p ≤ i → i < p + n → a[i]! ≠ ch
        | some q => p ≤ q ∧ q < p + n ∧ a[q]! = ch ∧ ∀ i, p ≤ i → i < q → a[i]! ≠ ch) := by
  intro n
  induction n with
  | zero => intro p _ _; exact R.sat_pure (by intro i h1 h2; omega)
  | succ n ih =>
    intro p h1 h2
    simp only [findCh, rd_ok h1 (by omega : p < last) hl, R.ok_bind]
    split
    · rename_i hc
      exact R.sat_pure ⟨Nat.le_refl _, by omega, hc, by intro i h1 h2; omega⟩
    · rename_i hc
      refine R.sat_mono (ih (p + 1) (by omega) (by omega)) ?_
      intro r hr
      cases r with
      | none =>
        intro i hi1 hi2
        by_cases hip : i = p
        · subst hip; exact hc
        · exact hr i (by omega) (by omega)
      | some q =>
        obtain ⟨q1, q2, q3, q4⟩ := hr
        refine ⟨by omega, by omega, q3, ?_⟩
        intro i hi1 hi2
        by_cases hip : i = p
        · subst hip; exact hc
        · exact q4 i (by omega) hi2

theorem afterDot_short : ∀ s : List Nat, s.length ≤ 4 → Impl.hasXnAfterDot s = false := by
  intro s hs
  rcases s with _ | ⟨a, _ | ⟨b, _ | ⟨c, _ | ⟨d, _ | ⟨e, t⟩⟩⟩⟩⟩ <;>
    simp [Impl.hasXnAfterDot, Impl.hasXnAt] at hs ⊢

theorem xnAt_short : ∀ s : List Nat, s.length < 4 → Impl.hasXnAt s = false := by
  intro s hs
  rcases s with _ | ⟨a, _ | ⟨b, _ | ⟨c, _ | ⟨d, t⟩⟩⟩⟩ <;> simp [Impl.hasXnAt] at hs ⊢
  omega

theorem afterDot_skip (a : Array Nat) (last : Nat) (hl : last ≤ a.size) :
    ∀ k p, p + k ≤ last → (∀ i, p ≤ i → i < p + k → a[i]! ≠ 0x2E) →
      Impl.hasXnAfterDot (slice a p last) = Impl.hasXnAfterDot (slice a (p + k) last) := by
  intro k
  induction k with
  | zero => intro p _ _; rfl
  | succ k ih =>
    intro p h1 h2
    rw [slice_cons a p last (by omega) hl]
    have hp := h2 p (Nat.le_refl _) (by omega)
    simp only [Impl.hasXnAfterDot]
    have := ih (p + 1) (by omega) (by intro i hi1 hi2; exact h2 i (by omega) (by omega))
    rw [this]
    have e : p + 1 + k = p + (k + 1) := by omega
    rw [e]
    simp [hp]

theorem hasXnLabel_agrees (a : Array Nat) (first last : Nat) (h : first ≤ last) (hl : last ≤ a.size) :
    hasXnLabel a first last = .ok (Impl.hasXnLabel (slice a first last)) := by
  suffices hs : (hasXnLabel a first last).sat (fun b => b = Impl.hasXnLabel (slice a first last)) by
    obtain ⟨v, hv, hb⟩ := hs
    rw [hv, hb]
  unfold hasXnLabel
  split
  · rename_i h4
    psimp
    refine iter_sat _ (fun p => first ≤ p ∧ p ≤ last - 4 ∧
        (Impl.hasXnAt (slice a p last) || Impl.hasXnAfterDot (slice a p last)) = Impl.hasXnLabel (slice a first last))
      (fun p => last - p) _ ?_ _ _ ?_ ?_
    · intro p ⟨hI1, hI2, hI3⟩
      simp only [rd_ok hI1 (by omega : p < last) hl, R.ok_bind]
      refine R.sat_bind (P := fun b => b = Impl.hasXnAt (slice a p last)) ?_ ?_
      · rw [slice_cons a p last (by omega) hl, slice_cons a (p + 1) last (by omega) hl,
          slice_cons a (p + 1 + 1) last (by omega) hl, slice_cons a (p + 1 + 1 + 1) last (by omega) hl]
        simp only [Impl.hasXnAt, rd_ok (by omega : first ≤ p + 1) (by omega : p + 1 < last) hl,
          rd_ok (by omega : first ≤ p + 2) (by omega : p + 2 < last) hl,
          rd_ok (by omega : first ≤ p + 3) (by omega : p + 3 < last) hl, R.ok_bind]
        by_cases c0 : a[p]! ||| 0x20 = 0x78 <;> by_cases c1 : a[p + 1]! ||| 0x20 = 0x6E <;>
          by_cases c2 : a[p + 2]! = 0x2D <;> simp [c0, c1, c2, R.sat, R.pure_eq, Nat.add_assoc]
      · intro hit hhit
        split
        · rename_i ht
          refine R.sat_pure ?_
          simp only []
          rw [← hI3, ← hhit, ht]; rfl
        · rename_i hf
          refine R.sat_bind (findCh_spec a first last 0x2E hl (last - 4 - p) p hI1 (by omega)) ?_
          intro r hr
          cases r with
          | none =>
            refine R.sat_pure ?_
            simp only [] at hr ⊢
            have e : p + (last - 4 - p) = last - 4 := by omega
            have := afterDot_skip a last hl (last - 4 - p) p (by omega) hr
            rw [e] at this
            rw [← hI3, this, afterDot_short _ (by rw [slice_length a _ _ hl]; omega), ← hhit]
            simpa using hf
          | some q =>
            obtain ⟨q1, q2, q3, q4⟩ := hr
            psimp
            refine R.sat_pure ?_
            simp only []
            refine ⟨⟨by omega, by omega, ?_⟩, by omega⟩
            have := afterDot_skip a last hl (q - p) p (by omega) (by intro i h1 h2; exact q4 i h1 (by omega))
            have e : p + (q - p) = q := by omega
            rw [e, slice_cons a q last (by omega) hl] at this
            rw [← hI3, this, ← hhit]
            simp only [Impl.hasXnAfterDot, q3]
            have : hit = false := by simpa using hf
            simp [this]
    · exact ⟨Nat.le_refl _, by omega, rfl⟩
    · rarith
  · rename_i h4
    refine R.sat_pure ?_
    simp only [Impl.hasXnLabel]
    rw [xnAt_short _ (by rw [slice_length a _ _ hl]; omega), afterDot_short _ (by rw [slice_length a _ _ hl]; omega)]
    rfl
theorem readU32_agrees (a : Array Nat) (first last : Nat) (h : first < last) (hl : last ≤ a.size) :
    (readU32 a first last).sat (fun r => Impl.readU32 (slice a first last) = (r.1, r.2.1, slice a r.2.2 last)) := by
  rw [slice_cons a first last h hl]
  simp only [readU32, rd_ok (Nat.le_refl _) h hl, R.ok_bind, Impl.readU32,
    mkptr_ok (by omega : first ≤ first + 1) (by omega : first + 1 ≤ last)]
  exact R.sat_pure rfl

theorem readU16_agrees (a : Array Nat) (first last : Nat) (h : first < last) (hl : last ≤ a.size) :
    (readU16 a first last).sat (fun r => Impl.readU16 (slice a first last) = (r.1, r.2.1, slice a r.2.2 last)) := by
  rw [slice_cons a first last h hl]
  simp only [readU16, rd_ok (Nat.le_refl _) h hl, R.ok_bind, Impl.readU16,
    mkptr_ok (by omega : first ≤ first + 1) (by omega : first + 1 ≤ last)]
  split
  · split
    · rename_i hc
      have hp : first + 1 < last := by omega
      rw [slice_cons a (first + 1) last hp hl]
      simp only [rd_ok (by omega : first ≤ first + 1) hp hl, R.ok_bind, if_pos hc.1]
      split
      · psimp
        exact R.sat_pure rfl
      · exact R.sat_pure (by simp only []; rw [slice_cons a (first + 1) last hp hl])
    · rename_i hc
      by_cases hlead : a[first]! &&& 0x400 = 0
      · have : first + 1 = last := by
          apply Classical.byContradiction
          intro hne
          exact hc ⟨hlead, by omega⟩
        rw [if_pos hlead, slice_nil a (first + 1) last (by omega)]
        exact R.sat_pure (by simp only []; rw [slice_nil a (first + 1) last (by omega)])
      · rw [if_neg hlead]
        exact R.sat_pure rfl
  · exact R.sat_pure rfl

theorem and80_iff : ∀ b, b < 256 → ((b &&& 0x80 = 0) ↔ b < 0x80) := by decide +kernel

theorem subByte80_def (b : Nat) : (b + 256 - 0x80) % 256 = Impl.subByte80 b := rfl

theorem u8LastTrail_eq (a : Array Nat) (first last p c : Nat) (hl : last ≤ a.size) (h1 : first ≤ p) (h2 : p < last)
    (hb : a[p]! < 256) :
    u8LastTrail a first last p c = .ok (if Impl.subByte80 a[p]! ≤ 0x3F then
      (true, (c <<< 6) ||| Impl.subByte80 a[p]!, p + 1) else (false, 0xFFFD, p)) := by
  simp only [u8LastTrail, rd_ok h1 h2 hl, R.ok_bind, Nat.mod_eq_of_lt hb, subByte80_def]
  by_cases hc : Impl.subByte80 a[p]! ≤ 0x3F
  · rw [if_pos hc, if_pos hc, mkptr_ok (by omega : first ≤ p + 1) (by omega : p + 1 ≤ last)]; rfl
  · rw [if_neg hc, if_neg hc]; rfl

theorem readU8_agrees (a : Array Nat) (first last : Nat) (h : first < last) (hl : last ≤ a.size)
    (hb : ∀ i, first ≤ i → i < last → a[i]! < 256) :
    (readU8 a first last).sat (fun r => Impl.readU8 (slice a first last) = (r.1, r.2.1, slice a r.2.2 last)) := by
  have m0 : a[first]! % 256 = a[first]! := Nat.mod_eq_of_lt (hb first (Nat.le_refl _) h)
  have hF : ∀ x : Nat, x &&& 0xF < 16 := by
    intro x
    have : (0xF : Nat) = 2 ^ 4 - 1 := by decide
    rw [this, Nat.and_two_pow_sub_one_eq_mod]; omega
  rw [slice_cons a first last h hl]
  simp only [readU8, rd_ok (Nat.le_refl _) h hl, R.ok_bind, m0, Impl.readU8,
    mkptr_ok (by omega : first ≤ first + 1) (by omega : first + 1 ≤ last)]
  have hand := and80_iff _ (hb first (Nat.le_refl _) h)
  split
  · rename_i h80
    rw [if_pos (hand.1 h80)]; exact R.sat_pure rfl
  rename_i h80
  rw [if_neg (mt hand.2 h80)]
  split
  · rename_i hp
    rw [slice_nil a (first + 1) last (by omega)]
    exact R.sat_pure (by simp only []; rw [slice_nil a (first + 1) last (by omega)])
  rename_i hp
  have hp1 : first + 1 < last := by omega
  have m1 : a[first + 1]! % 256 = a[first + 1]! := Nat.mod_eq_of_lt (hb _ (by omega) hp1)
  rw [slice_cons a (first + 1) last hp1 hl]
  simp only []
  split
  · split
    · simp only [idx_ok (hF _), rd_ok (by omega : first ≤ first + 1) hp1 hl, R.ok_bind, m1]
      split
      · simp only [u8SecondToLast]
        psimp
        split
        · rename_i hp2
          have hp2' : first + 1 + 1 < last := by omega
          rw [slice_cons a (first + 1 + 1) last hp2' hl, u8LastTrail_eq a first last _ _ hl (by omega) hp2' (hb _ (by omega) hp2')]
          simp only []
          by_cases hc : Impl.subByte80 a[first + 1 + 1]! ≤ 0x3F
          · simp only [if_pos hc]; refine R.sat_pure ?_; simp only []
          · simp only [if_neg hc]; refine R.sat_pure ?_; simp only []; rw [slice_cons a (first + 1 + 1) last hp2' hl]
        · rename_i hp2
          rw [slice_nil a (first + 1 + 1) last (by omega)]
          refine R.sat_pure ?_; simp only []; rw [slice_nil a (first + 1 + 1) last (by omega)]
      · refine R.sat_pure ?_; simp only []; rw [slice_cons a (first + 1) last hp1 hl]
    · split
      · have h16 : ∀ x : Nat, (x % 256) >>> 4 < 16 := by
          intro x; rw [Nat.shiftRight_eq_div_pow]; omega
        simp only [rd_ok (by omega : first ≤ first + 1) hp1 hl, idx_ok (h16 _), R.ok_bind, m1]
        rename_i hc4
        split
        · rename_i ht
          have hct := And.intro hc4 ht
          simp only [if_pos hct]
          psimp
          split
          · rename_i hp2
            have hp2' : first + 1 + 1 < last := by omega
            have m2 : a[first + 1 + 1]! % 256 = a[first + 1 + 1]! := Nat.mod_eq_of_lt (hb _ (by omega) hp2')
            rw [slice_cons a (first + 1 + 1) last hp2' hl]
            simp only [rd_ok (by omega : first ≤ first + 1 + 1) hp2' hl, R.ok_bind, m2, subByte80_def]
            by_cases hc : Impl.subByte80 a[first + 1 + 1]! ≤ 0x3F
            · simp only [if_pos hc, u8SecondToLast]
              psimp
              split
              · rename_i hp3
                have hp3' : first + 1 + 1 + 1 < last := by omega
                rw [slice_cons a (first + 1 + 1 + 1) last hp3' hl,
                  u8LastTrail_eq a first last _ _ hl (by omega) hp3' (hb _ (by omega) hp3')]
                by_cases hc3 : Impl.subByte80 a[first + 1 + 1 + 1]! ≤ 0x3F
                · simp only [if_pos hc3]; refine R.sat_pure ?_; simp only []
                · simp only [if_neg hc3]; refine R.sat_pure ?_; simp only []
                  rw [slice_cons a (first + 1 + 1 + 1) last hp3' hl]
              · rename_i hp3
                rw [slice_nil a (first + 1 + 1 + 1) last (by omega)]
                refine R.sat_pure ?_; simp only []; rw [slice_nil a (first + 1 + 1 + 1) last (by omega)]
            · simp only [if_neg hc]; refine R.sat_pure ?_; simp only []
              rw [slice_cons a (first + 1 + 1) last hp2' hl]
          · rename_i hp2
            rw [slice_nil a (first + 1 + 1) last (by omega)]
            refine R.sat_pure ?_; simp only []; rw [slice_nil a (first + 1 + 1) last (by omega)]
        · rename_i ht
          simp only [if_neg (show ¬ (a[first]! - 0xF0 ≤ 4 ∧ _) from fun hh => ht hh.2)]
          refine R.sat_pure ?_; simp only []; rw [slice_cons a (first + 1) last hp1 hl]
      · rename_i hc4
        simp only [if_neg (show ¬ (a[first]! - 0xF0 ≤ 4 ∧ _) from fun hh => hc4 hh.1)]
        refine R.sat_pure ?_; simp only []; rw [slice_cons a (first + 1) last hp1 hl]
  · split
    · rw [u8LastTrail_eq a first last _ _ hl (by omega) hp1 (hb _ (by omega) hp1)]
      by_cases hc : Impl.subByte80 a[first + 1]! ≤ 0x3F
      · simp only [if_pos hc]; refine R.sat_pure ?_; simp only []
      · simp only [if_neg hc]; refine R.sat_pure ?_; simp only []; rw [slice_cons a (first + 1) last hp1 hl]
    · refine R.sat_pure ?_; simp only []; rw [slice_cons a (first + 1) last hp1 hl]

/-! ### the `assert` of compare_by_code_units -/


theorem R.sat_and {α : Type} {r : R α} {P Q : α → Prop} (h1 : r.sat P) (h2 : r.sat Q) :
    r.sat (fun v => P v ∧ Q v) := by
  obtain ⟨v, hv, hp⟩ := h1
  obtain ⟨w, hw, hq⟩ := h2
  rw [hv] at hw
  cases hw
  exact ⟨v, hv, hp, hq⟩

theorem mem_slice (a : Array Nat) (p last x : Nat) (hl : last ≤ a.size) (hx : x ∈ slice a p last) :
    ∃ i, p ≤ i ∧ i < last ∧ x = a[i]! := by
  simp only [slice, Array.mem_toList_iff] at hx
  obtain ⟨k, hk, rfl⟩ := Array.mem_iff_getElem.1 hx
  simp only [Array.size_extract] at hk
  refine ⟨p + k, by omega, by omega, ?_⟩
  rw [Array.getElem_extract, getElem!_pos a (p + k) (by omega)]

theorem readUtfChar_u8_scalar (a : Array Nat) (first last it : Nat) (h1 : first ≤ it) (h : it < last)
    (hl : last ≤ a.size) (hb : ∀ i, first ≤ i → i < last → a[i]! < 256) :
    (readUtfChar .u8 a first last it).sat (fun r => (it < r.2 ∧ r.2 ≤ last) ∧ Spec.isScalar r.1 = true) := by
  simp only [readUtfChar, sub_ok h1 (Nat.le_of_lt h) (Nat.le_refl _), R.ok_bind, readChar]
  have hb' : ∀ i, it ≤ i → i < last → a[i]! < 256 := fun i hi1 hi2 => hb i (by omega) hi2
  refine R.sat_bind (R.sat_and (readU8_sat a it last h hl) (readU8_agrees a it last h hl hb')) ?_
  intro ⟨ok, cp, it'⟩ ⟨hp, hag⟩
  refine R.sat_pure ⟨hp, ?_⟩
  simp only [] at hag ⊢
  have hmem : ∀ x ∈ slice a it last, x < 256 := by
    intro x hx
    obtain ⟨i, hi1, hi2, rfl⟩ := mem_slice a it last x hl hx
    exact hb' i hi1 hi2
  rw [Impl.readU8_eq_readU8A _ hmem] at hag
  have hs := Impl.readU8A_scalar (slice a it last)
  rw [hag] at hs
  split
  · rename_i hok; exact hs hok
  · decide

theorem lead_of_eq (cp1 cp2 : Nat) (s1 : Spec.isScalar cp1 = true) (s2 : Spec.isScalar cp2 = true) (hne : cp1 ≠ cp2)
    (heq : (if cp1 ≤ 0xFFFF then cp1 else (cp1 >>> 10) + 0xD7C0) = (if cp2 ≤ 0xFFFF then cp2 else (cp2 >>> 10) + 0xD7C0)) :
    (if cp1 ≤ 0xFFFF then cp1 else (cp1 >>> 10) + 0xD7C0) &&& 0xFFFFFC00 = 0xD800 := by
  rw [Impl.isScalar_iff] at s1 s2
  rw [Impl.andHi10]
  simp only [Impl.shr10] at heq ⊢
  split at heq <;> split at heq <;> simp only [*, if_true, if_false] <;> omega
theorem sat_chk {c : Prop} [Decidable c] (hc : c) : (chk c).sat (fun _ => True) := by
  unfold chk; rw [if_pos hc]; exact ⟨(), rfl, trivial⟩

/-- on byte buffers (`const char*`) compare_by_code_units neither leaves its ranges nor fails its
    `assert(u16_is_lead(cu1))` -/
theorem compareByCodeUnits_sat (a1 : Array Nat) (first1 last1 : Nat) (a2 : Array Nat) (first2 last2 : Nat)
    (h1 : first1 ≤ last1) (hl1 : last1 ≤ a1.size) (h2 : first2 ≤ last2) (hl2 : last2 ≤ a2.size)
    (hb1 : ∀ i, first1 ≤ i → i < last1 → a1[i]! < 256) (hb2 : ∀ i, first2 ≤ i → i < last2 → a2[i]! < 256) :
    (compareByCodeUnits a1 first1 last1 a2 first2 last2).sat (fun _ => True) := by
  unfold compareByCodeUnits
  refine iter_sat _ (fun s => first1 ≤ s.1 ∧ s.1 ≤ last1 ∧ first2 ≤ s.2 ∧ s.2 ≤ last2) (fun s => last1 - s.1)
    (fun _ => True) ?_ _ _ ?_ ?_
  · intro ⟨it1, it2⟩ hI
    simp only at hI ⊢
    split
    · rename_i hc
      simp only [rd_ok hI.1 (by omega : it1 < last1) hl1, rd_ok hI.2.2.1 (by omega : it2 < last2) hl2, R.ok_bind]
      split
      · split
        · rfin
        · rfin
      · refine R.sat_bind (readUtfChar_u8_scalar a1 first1 last1 it1 hI.1 (by omega) hl1 hb1) ?_
        intro ⟨cp1, it1'⟩ ⟨hv1, hs1⟩
        refine R.sat_bind (readUtfChar_u8_scalar a2 first2 last2 it2 hI.2.2.1 (by omega) hl2 hb2) ?_
        intro ⟨cp2, it2'⟩ ⟨hv2, hs2⟩
        simp only at hv1 hv2 hs1 hs2 ⊢
        split
        · rfin
        · rename_i hne
          have hlead := lead_of_eq cp1 cp2 hs1 hs2 hne
          generalize (if cp1 ≤ 0xFFFF then cp1 else (cp1 >>> 10) + 0xD7C0) = cu1 at hlead ⊢
          generalize (if cp2 ≤ 0xFFFF then cp2 else (cp2 >>> 10) + 0xD7C0) = cu2 at hlead ⊢
          split
          · rename_i heq
            refine R.sat_bind (sat_chk (hlead heq)) ?_
            intro _ _
            rfin
          · rfin
    · rfin
  · rarith
  · rarith

/-! ### has_dot_dot_segment -/


/-- the `prev` argument of the list model at pointer `p` -/
def prevOf (a : Array Nat) (first p : Nat) : Option Nat := if p = first then none else some a[p - 1]!

theorem hasDot_short (isSl : Nat → Bool) (prev : Option Nat) (l : List Nat) (h : l.length ≤ 1) :
    Impl.hasDotDotSegment isSl prev l = false := by
  rcases l with _ | ⟨x, _ | ⟨y, t⟩⟩ <;> simp [Impl.hasDotDotSegment] at h ⊢

theorem hasDot_cons2 (isSl : Nat → Bool) (prev : Option Nat) (c d : Nat) (r2 : List Nat) :
    Impl.hasDotDotSegment isSl prev (c :: d :: r2) =
      if c = 0x2E then
        if (d = 0x2E && (match prev with | none => true | some p => isSl p) &&
           (match r2 with | [] => true | x :: _ => isSl x)) = true then true
        else Impl.hasDotDotSegment isSl (some d) r2
      else Impl.hasDotDotSegment isSl (some c) (d :: r2) := by
  rw [Impl.hasDotDotSegment.eq_def]
  cases r2 <;> rfl

theorem hasDot_skip (isSl : Nat → Bool) (a : Array Nat) (first last : Nat) (hl : last ≤ a.size) :
    ∀ k p, first ≤ p → p + k ≤ last - 1 → (∀ i, p ≤ i → i < p + k → a[i]! ≠ 0x2E) →
      Impl.hasDotDotSegment isSl (prevOf a first p) (slice a p last) =
      Impl.hasDotDotSegment isSl (prevOf a first (p + k)) (slice a (p + k) last) := by
  intro k
  induction k with
  | zero => intro p _ _ _; rfl
  | succ k ih =>
    intro p h0 h1 h2
    rw [slice_cons a p last (by omega) hl, slice_cons a (p + 1) last (by omega) hl]
    have hp := h2 p (Nat.le_refl _) (by omega)
    rw [hasDot_cons2, if_neg hp]
    have := ih (p + 1) (by omega) (by omega) (by intro i hi1 hi2; exact h2 i (by omega) (by omega))
    rw [slice_cons a (p + 1) last (by omega) hl] at this
    have e : p + 1 + k = p + (k + 1) := by omega
    rw [e] at this
    rw [← this]
    simp only [prevOf, if_neg (by omega : ¬ p + 1 = first), Nat.add_sub_cancel]

theorem hasDotDotSegment_agrees (isSl : Nat → Bool) (a : Array Nat) (first last : Nat) (h : first ≤ last)
    (hl : last ≤ a.size) :
    hasDotDotSegment isSl a first last = .ok (Impl.hasDotDotSegment isSl none (slice a first last)) := by
  suffices hs : (hasDotDotSegment isSl a first last).sat
      (fun b => b = Impl.hasDotDotSegment isSl none (slice a first last)) by
    obtain ⟨v, hv, hb⟩ := hs
    rw [hv, hb]
  have hV : Impl.hasDotDotSegment isSl none (slice a first last) =
      Impl.hasDotDotSegment isSl (prevOf a first first) (slice a first last) := by simp [prevOf]
  rw [hV]
  unfold hasDotDotSegment
  split
  · rename_i h2
    psimp
    refine iter_sat _ (fun p => first ≤ p ∧ p ≤ last - 1 ∧
        Impl.hasDotDotSegment isSl (prevOf a first p) (slice a p last) =
        Impl.hasDotDotSegment isSl (prevOf a first first) (slice a first last))
      (fun p => last - p) _ ?_ _ _ ?_ ?_
    · intro p ⟨hI1, hI2, hI3⟩
      refine R.sat_bind (findCh_spec a first last 0x2E hl (last - 1 - p) p hI1 (by omega)) ?_
      intro r hr
      cases r with
      | none =>
        refine R.sat_pure ?_
        simp only [] at hr ⊢
        have := hasDot_skip isSl a first last hl (last - 1 - p) p hI1 (by omega) hr
        rw [← hI3, this, hasDot_short isSl _ _ (by rw [slice_length a _ _ hl]; omega)]
      | some q =>
        obtain ⟨q1, q2, q3, q4⟩ := hr
        have hskip := hasDot_skip isSl a first last hl (q - p) p hI1 (by omega)
          (by intro i h1 h2; exact q4 i h1 (by omega))
        have e : p + (q - p) = q := by omega
        rw [e, slice_cons a q last (by omega) hl, slice_cons a (q + 1) last (by omega) hl] at hskip
        rw [hasDot_cons2, if_pos q3] at hskip
        have e2 : q + 1 + 1 = q + 2 := by omega
        rw [e2] at hskip
        simp only [rd_ok (by omega : first ≤ q + 1) (by omega : q + 1 < last) hl, R.ok_bind]
        refine R.sat_bind (P := fun b => b = (decide (a[q + 1]! = 0x2E) &&
            (match prevOf a first q with | none => true | some p => isSl p) &&
            (match slice a (q + 2) last with | [] => true | x :: _ => isSl x))) ?_ ?_
        · split
          · rename_i hd
            refine R.sat_bind (P := fun b => b = (match prevOf a first q with | none => true | some p => isSl p)) ?_ ?_
            · split
              · rename_i hqf
                exact R.sat_pure (by simp [prevOf, hqf])
              · rename_i hqf
                simp only [rdPrev_ok (by omega : first < q) (by omega : q ≤ last) hl, R.ok_bind]
                exact R.sat_pure (by simp [prevOf, hqf])
            · intro left hleft
              split
              · rename_i hlt
                split
                · rename_i h22
                  refine R.sat_pure ?_
                  rw [slice_nil a (q + 2) last (by omega), ← hleft, hlt, hd]; rfl
                · rename_i h22
                  simp only [rd_ok (by omega : first ≤ q + 2) (by omega : q + 2 < last) hl, R.ok_bind]
                  refine R.sat_pure ?_
                  rw [slice_cons a (q + 2) last (by omega) hl, ← hleft, hlt, hd]; simp
              · rename_i hlt
                refine R.sat_pure ?_
                have : left = false := by simpa using hlt
                rw [← hleft, this]; simp
          · rename_i hd
            exact R.sat_pure (by simp [hd])
        · intro hit hhit
          rw [← hhit] at hskip
          split
          · rename_i ht
            refine R.sat_pure ?_
            simp only []
            rw [← hI3, hskip, ht]; rfl
          · rename_i hf
            have hf' : hit = false := by simpa using hf
            rw [hf'] at hskip
            simp only [Bool.false_eq_true, if_false] at hskip
            have hprev : prevOf a first (q + 2) = some a[q + 1]! := by
              simp only [prevOf, if_neg (by omega : ¬ q + 2 = first)]; rfl
            psimp
            split
            · refine R.sat_pure ?_
              simp only []
              rw [← hI3, hskip, hasDot_short isSl _ _ (by rw [slice_length a _ _ hl]; omega)]
            · refine R.sat_pure ?_
              simp only []
              refine ⟨⟨by omega, by omega, ?_⟩, by omega⟩
              rw [← hI3, hskip, hprev]
    · exact ⟨Nat.le_refl _, by omega, rfl⟩
    · rarith
  · refine R.sat_pure ?_
    rw [hasDot_short isSl _ _ (by rw [slice_length a _ _ hl]; omega)]

/-! ### ipv4_parse_number -/


theorem skipZeros_cons_ne (c : Nat) (r : List Nat) (h : c ≠ 0x30) : Impl.skipZeros (c :: r) = c :: r := by
  rw [Impl.skipZeros.eq_def]
  split
  · rename_i heq; cases heq; exact absurd rfl h
  · rfl
theorem skipZeros_cons_eq (r : List Nat) : Impl.skipZeros (0x30 :: r) = Impl.skipZeros r := by
  rw [Impl.skipZeros]

theorem accumulate_cons (radix ch : Nat) (cs : List Nat) (num : Nat) :
    Impl.accumulate radix (ch :: cs) num =
      if radix ≤ 10 then
        if ch > 0x30 - 1 + radix ∨ ch < 0x30 then none
        else Impl.accumulate radix cs ((num * radix + (ch - 0x30)) % 2^64)
      else
        if (!isHex ch) = true then none
        else Impl.accumulate radix cs ((num * radix + hexVal ch) % 2^64) := by
  rw [Impl.accumulate]

/-- the common tail of ipv4_parse_number: emptiness / length test, accumulation, 32-bit check -/
def numTail (radix : Nat) (body : List Nat) : Option Nat :=
  if body = [] then some 0
  else if body.length > 11 then none
  else match Impl.accumulate radix body 0 with
    | some v => if v > 0xFFFFFFFF then none else some v
    | none => none

theorem ipv4Num_A (c0 : Nat) (rest : List Nat) (h : c0 ≠ 0x30) :
    Impl.ipv4ParseNumber (c0 :: rest) = numTail 10 (c0 :: rest) := by
  unfold Impl.ipv4ParseNumber numTail
  split
  · rename_i heq; cases heq
  · rename_i heq; cases heq; exact absurd rfl h
  · rename_i heq; cases heq; exact absurd rfl h
  · simp; rfl

theorem ipv4Num_C (c1 : Nat) (rest : List Nat) :
    Impl.ipv4ParseNumber (0x30 :: c1 :: rest) =
      numTail (if c1 = 0x58 ∨ c1 = 0x78 then 16 else 8)
        (Impl.skipZeros (if c1 = 0x58 ∨ c1 = 0x78 then rest else c1 :: rest)) := by
  unfold numTail
  rw [Impl.ipv4ParseNumber]
  by_cases hc : c1 = 0x58 ∨ c1 = 0x78
  · simp only [if_pos hc]; rfl
  · simp only [if_neg hc]; rfl

theorem ipv4ParseNumber_agrees (a : Array Nat) (first last : Nat) (h : first ≤ last) (hl : last ≤ a.size)
    (hb : ∀ i, first ≤ i → i < last → a[i]! < 256) :
    ipv4ParseNumber a first last = .ok (Impl.ipv4ParseNumber (slice a first last)) := by
  suffices hs : (ipv4ParseNumber a first last).sat (fun r => r = Impl.ipv4ParseNumber (slice a first last)) by
    obtain ⟨v, hv, hr⟩ := hs
    rw [hv, hr]
  unfold ipv4ParseNumber
  split
  · rename_i hfl
    rw [slice_nil a first last (by omega)]
    exact R.sat_pure rfl
  rename_i hne
  have hlt : first < last := by omega
  simp only [rd_ok (Nat.le_refl first) hlt hl, R.ok_bind]
  refine R.sat_bind (P := fun pre => match pre with
      | .inl r => r = Impl.ipv4ParseNumber (slice a first last)
      | .inr (radix, p) => first ≤ p ∧ p ≤ last ∧ (radix = 8 ∨ radix = 10 ∨ radix = 16) ∧
          numTail radix (slice a p last) = Impl.ipv4ParseNumber (slice a first last)) ?_ ?_
  · split
    · rename_i hc0
      split
      · rename_i h1
        refine R.sat_pure ?_
        simp only []
        rw [slice_cons a first last hlt hl, slice_nil a (first + 1) last (by omega), hc0]
        rfl
      · rename_i h1
        have hlt1 : first + 1 < last := by omega
        simp only [rd_ok (by omega : first ≤ first + 1) hlt1 hl, R.ok_bind]
        have hV : Impl.ipv4ParseNumber (slice a first last) =
            numTail (if a[first + 1]! = 0x58 ∨ a[first + 1]! = 0x78 then 16 else 8)
              (Impl.skipZeros (slice a (if a[first + 1]! = 0x58 ∨ a[first + 1]! = 0x78 then first + 2 else first + 1) last)) := by
          rw [slice_cons a first last hlt hl, slice_cons a (first + 1) last hlt1 hl, hc0, ipv4Num_C]
          by_cases hx : a[first + 1]! = 0x58 ∨ a[first + 1]! = 0x78
          · simp only [if_pos hx]
          · simp only [if_neg hx]; rw [slice_cons a (first + 1) last hlt1 hl]
        generalize hrp : (if a[first + 1]! = 0x58 ∨ a[first + 1]! = 0x78 then ((16 : Nat), first + 2) else (8, first + 1)) = rp
        have hrp1 : rp.1 = (if a[first + 1]! = 0x58 ∨ a[first + 1]! = 0x78 then 16 else 8) := by
          rw [← hrp]; split <;> rfl
        have hrp2 : rp.2 = (if a[first + 1]! = 0x58 ∨ a[first + 1]! = 0x78 then first + 2 else first + 1) := by
          rw [← hrp]; split <;> rfl
        rw [← hrp1, ← hrp2] at hV
        have hr2 : first ≤ rp.2 ∧ rp.2 ≤ last := by rw [hrp2]; split <;> omega
        have hr1 : rp.1 = 8 ∨ rp.1 = 10 ∨ rp.1 = 16 := by rw [hrp1]; split <;> omega
        rw [mkptr_ok hr2.1 hr2.2]
        simp only [R.ok_bind]
        refine R.sat_bind (iter_sat _
          (fun p => first ≤ p ∧ p ≤ last ∧ Impl.skipZeros (slice a p last) = Impl.skipZeros (slice a rp.2 last))
          (fun p => last - p)
          (fun p => first ≤ p ∧ p ≤ last ∧ slice a p last = Impl.skipZeros (slice a rp.2 last)) ?_ _ _ ?_ ?_) ?_
        · intro p ⟨hp1, hp2, hp3⟩
          split
          · rename_i hpl
            simp only [rd_ok hp1 hpl hl, R.ok_bind]
            split
            · rename_i hz
              psimp
              refine R.sat_pure ⟨⟨by omega, by omega, ?_⟩, by omega⟩
              rw [← hp3, slice_cons a p last hpl hl, hz, skipZeros_cons_eq]
            · rename_i hz
              refine R.sat_pure ⟨hp1, hp2, ?_⟩
              rw [← hp3, slice_cons a p last hpl hl, skipZeros_cons_ne _ _ hz]
          · rename_i hpl
            refine R.sat_pure ⟨hp1, hp2, ?_⟩
            rw [← hp3, slice_nil a p last (by omega)]
            rfl
        · exact ⟨hr2.1, hr2.2, rfl⟩
        · have := hr2.1; omega
        · intro p ⟨hp1, hp2, hp3⟩
          refine R.sat_pure ?_
          simp only []
          exact ⟨hp1, hp2, hr1, by rw [hp3, hV]⟩
    · rename_i hc0
      refine R.sat_pure ?_
      simp only []
      refine ⟨Nat.le_refl _, h, by simp, ?_⟩
      rw [slice_cons a first last hlt hl, ipv4Num_A _ _ hc0]
  · intro pre hpre
    cases pre with
    | inl r => exact R.sat_pure hpre
    | inr rp =>
      obtain ⟨radix, p⟩ := rp
      obtain ⟨hp1, hp2, hrad, hV⟩ := hpre
      simp only []
      rw [← hV]
      unfold numTail
      split
      · rename_i hpl
        rw [slice_nil a p last (by omega)]
        exact R.sat_pure (by simp)
      rename_i hpl
      have hne' : slice a p last ≠ [] := by
        intro he
        have := slice_length a p last hl
        rw [he] at this
        simp at this
        omega
      rw [if_neg hne', slice_length a p last hl]
      split
      · rename_i h11
        exact R.sat_pure rfl
      rename_i h11
      refine R.sat_bind (iter_sat _
        (fun s => p ≤ s.1 ∧ s.1 ≤ last ∧
          Impl.accumulate radix (slice a s.1 last) s.2 = Impl.accumulate radix (slice a p last) 0)
        (fun s => last - s.1)
        (fun r => r = Impl.accumulate radix (slice a p last) 0) ?_ _ _ ?_ ?_) ?_
      · intro ⟨it, num⟩ ⟨hi1, hi2, hi3⟩
        simp only at hi1 hi2 hi3 ⊢
        split
        · rename_i hil
          refine R.sat_pure ?_
          simp only []
          rw [← hi3, slice_nil a it last (by omega)]
          rfl
        rename_i hil
        have hitl : it < last := by omega
        simp only [rd_ok (by omega : first ≤ it) hitl hl, R.ok_bind]
        rw [slice_cons a it last hitl hl, accumulate_cons] at hi3
        have hm : a[it]! % 256 = a[it]! := Nat.mod_eq_of_lt (hb it (by omega) hitl)
        split
        · rename_i hr10
          rw [if_pos hr10] at hi3
          split
          · rename_i hbad
            rw [if_pos hbad] at hi3
            exact R.sat_pure hi3
          · rename_i hbad
            rw [if_neg hbad] at hi3
            psimp
            exact R.sat_pure ⟨⟨by simp only []; omega, by simp only []; omega, hi3⟩, by simp only []; omega⟩
        · rename_i hr10
          rw [if_neg hr10] at hi3
          simp only [hm]
          split
          · rename_i hbad
            rw [if_pos hbad] at hi3
            exact R.sat_pure hi3
          · rename_i hbad
            rw [if_neg hbad] at hi3
            simp only [idx_ok (by omega : a[it]! / 0x20 < 8), R.ok_bind]
            psimp
            exact R.sat_pure ⟨⟨by simp only []; omega, by simp only []; omega, hi3⟩, by simp only []; omega⟩
      · exact ⟨Nat.le_refl _, hp2, rfl⟩
      · rarith
      · intro r hr
        rw [← hr]
        cases r with
        | none => exact R.sat_pure rfl
        | some num =>
          simp only []
          split <;> rename_i hbig
          · exact R.sat_pure (by simp only [])
          · exact R.sat_pure (by simp only [])
end Upa.Impl.B
