import Upa.Proofs.BoundsUrlVerdictChain
namespace Upa.Impl.B
open UP Upa.Proofs.C10b

/-! ### port_state: list-side facts -/

theorem isDigit_ascii : AsciiPred isDigit := by
  intro c hc
  simp only [isDigit, Bool.and_eq_true, decide_eq_true_eq] at hc
  omega

/-- the `isEnd` test of `portState` as a function of the rest after the digits -/
def portEnd (sp : Bool) : List Nat → Bool
  | [] => true
  | c :: _ => isAuthorityEnd c || (c == 0x5C && sp)

/-- the verdict of `portState` in closed form -/
theorem vd_portState (ov : Option Override) (u : Url) (p dg rest : List Nat) (pe : Bool)
    (hd : p.takeWhile isDigit = dg) (hr : p.dropWhile isDigit = rest) (hpe : portEnd u.isSpecial rest = pe) :
    vd (portState ov u p) =
      ((pe || ov.isSome) &&
        !(decide (dg ≠ []) &&
          (decide ((stripLeadingZeros dg).length > 5) || decide (decimalValue (stripLeadingZeros dg) > 0xFFFF)))) := by
  unfold portState
  simp only []
  rw [hd, hr]
  clear hd hr
  subst hpe
  have key : ∀ b : Bool, b = portEnd u.isSpecial rest →
      vd (if (b || ov.isSome) = true then
          match
            (if dg ≠ [] then
              if (stripLeadingZeros dg).length > 5 then none
              else if decimalValue (stripLeadingZeros dg) > 0xFFFF then none
              else if defaultPort u.scheme = some (decimalValue (stripLeadingZeros dg)) then some { u with port := none }
              else some { u with port := some (decimalValue (stripLeadingZeros dg)) }
            else some u : Option Url) with
          | none => ⟨.failure, u⟩
          | some u => if ov.isSome then ⟨.ok, u⟩ else pathStartState ov u rest
        else ⟨.failure, u⟩) =
      ((portEnd u.isSpecial rest || ov.isSome) &&
        !(decide (dg ≠ []) &&
          (decide ((stripLeadingZeros dg).length > 5) || decide (decimalValue (stripLeadingZeros dg) > 0xFFFF)))) := by
    intro b hb
    subst hb
    generalize portEnd u.isSpecial rest = pe
    by_cases h1 : (pe || ov.isSome) = true
    · rw [if_pos h1, h1, Bool.true_and]
      by_cases h2 : dg ≠ []
      · rw [if_pos h2]
        by_cases h3 : (stripLeadingZeros dg).length > 5
        · rw [if_pos h3]
          simp [h2, h3, vd]
        · rw [if_neg h3]
          by_cases h4 : decimalValue (stripLeadingZeros dg) > 0xFFFF
          · rw [if_pos h4]
            simp [h2, h4, vd]
          · rw [if_neg h4]
            have : (decide (dg ≠ []) && (decide ((stripLeadingZeros dg).length > 5) ||
                decide (decimalValue (stripLeadingZeros dg) > 0xFFFF))) = false := by simp [h3, h4]
            rw [this]
            by_cases h5 : defaultPort u.scheme = some (decimalValue (stripLeadingZeros dg))
            · rw [if_pos h5]
              simp only []
              split
              · rfl
              · simp
            · rw [if_neg h5]
              simp only []
              split
              · rfl
              · simp
      · rw [if_neg h2]
        have : decide (dg ≠ []) = false := by simpa using h2
        rw [this]
        simp only []
        split
        · rfl
        · simp
    · rw [if_neg h1]
      have : (pe || ov.isSome) = false := by simpa using h1
      rw [this]
      rfl
  cases rest with
  | nil => exact key _ rfl
  | cons c t => exact key _ rfl

theorem decimalValue_snoc (l : List Nat) (x : Nat) : decimalValue (l ++ [x]) = decimalValue l * 10 + (x - 0x30) := by
  simp [decimalValue, List.foldl_append]

theorem strip_cons_cons_ne (x y : Nat) (r : List Nat) (hx : x ≠ 0x30) :
    stripLeadingZeros (x :: y :: r) = x :: y :: r := by
  unfold stripLeadingZeros
  split
  · rename_i h; cases h
  · rename_i h; cases h; exact absurd rfl hx
  · rfl

theorem strip_zero_cons_cons (y : Nat) (r : List Nat) :
    stripLeadingZeros (0x30 :: y :: r) = stripLeadingZeros (y :: r) := by
  conv => lhs; unfold stripLeadingZeros
  rfl

/-- the scan for the first non-'0' within `[p, eod - 1)` is `stripLeadingZeros` -/
theorem strip_slice (a : Array Nat) (eod : Nat) (he : eod ≤ a.size) :
    ∀ k p p', p + k = p' → p' < eod → (∀ i, p ≤ i → i < p' → a[i]! = 0x30) → (p' + 1 = eod ∨ a[p']! ≠ 0x30) →
      stripLeadingZeros (slice a p eod) = slice a p' eod := by
  intro k
  induction k with
  | zero =>
    intro p p' h1 h2 _ h4
    have : p = p' := by omega
    subst this
    by_cases hlast : p + 1 = eod
    · rw [slice_cons a p eod h2 he, slice_nil a (p + 1) eod (by omega)]
      rfl
    · have hne : a[p]! ≠ 0x30 := by rcases h4 with h | h; exact absurd h hlast; exact h
      rw [slice_cons a p eod h2 he, slice_cons a (p + 1) eod (by omega) he]
      exact strip_cons_cons_ne _ _ _ hne
  | succ k ih =>
    intro p p' h1 h2 h3 h4
    rw [slice_cons a p eod (by omega) he, slice_cons a (p + 1) eod (by omega) he, h3 p (Nat.le_refl _) (by omega),
      strip_zero_cons_cons, ← slice_cons a (p + 1) eod (by omega) he]
    exact ih (p + 1) p' (by omega) h2 (fun i hi1 hi2 => h3 i (by omega) hi2) h4

/-! ### port_state: the simulation -/

theorem sim_port (c : Ctx) (W : c.Wf) (m : M) (u : Url) (hI : Inv c m u) (hs : m.state = .port) :
    kPort c m = .ok (vd (portState c.ov u (c.D m.pointer))) := by
  obtain ⟨st, p, sp, fl⟩ := m
  obtain ⟨⟨h1, h2⟩, hsp, _⟩ := hI
  simp only [] at h1 h2 hsp hs
  subst hs
  have hl := W.hl
  refine stepB_ok rfl ?_
  simp only []
  unfold bPort
  simp only [Nat.add_zero]
  upsimp
  refine R.sat_bind (findIf_specV c.a c.first c.last _ hl _ p h1 (by omega)) ?_
  intro eod ⟨e1, e2, e3, e4⟩
  have e2' : eod ≤ c.last := by omega
  obtain ⟨hT, hD⟩ := Dl_scan_pos c.e c.a W.hu isDigit isDigit_ascii c.last hl (eod - p) p eod (by omega) e2'
    (by intro i hi1 hi2; simpa using e3 i hi1 hi2)
    (by by_cases h : eod = c.last
        · exact Or.inl h
        · right; simpa using e4 (by omega))
  rw [vd_portState c.ov u (c.D p) _ _ _ hT hD rfl]
  refine R.sat_bind (P := fun b => b = portEnd u.isSpecial (Dl c.e c.a eod c.last)) ?_ ?_
  · split
    · rename_i he
      refine R.sat_pure ?_
      rw [he, Dl_nil c.e c.a c.last c.last (Nat.le_refl _)]
      rfl
    · rename_i he
      have hlt : eod < c.last := by omega
      upsimp
      obtain ⟨ch, t, hd, hc⟩ := Ctx.D_peek c W eod hlt
      have hd' : Dl c.e c.a eod c.last = ch :: t := hd
      rw [hd']
      simp only [portEnd]
      rcases hc with ⟨_, hch, _⟩ | ⟨hn1, hn2⟩
      · subst hch
        split
        · rename_i ha; exact R.sat_pure (by simp [ha])
        · rename_i ha; exact R.sat_pure (by simp [ha, hsp])
      · have q1 : isAuthorityEnd c.a[eod]! = false := by
          simp [isAuthorityEnd]; omega
        have q2 : isAuthorityEnd ch = false := by
          simp [isAuthorityEnd]; omega
        have q3 : (c.a[eod]! == 0x5C) = false := by simp; omega
        have q4 : (ch == 0x5C) = false := by simp; omega
        rw [q1, q2, q4]
        simp only [q3]
        exact R.sat_pure (by simp)
  · intro isEnd hE
    subst hE
    generalize portEnd u.isSpecial (Dl c.e c.a eod c.last) = pe
    split
    · rename_i hcond
      refine R.sat_bind (P := fun b => b = (decide (slice c.a p eod ≠ []) &&
          (decide ((stripLeadingZeros (slice c.a p eod)).length > 5) ||
            decide (decimalValue (stripLeadingZeros (slice c.a p eod)) > 0xFFFF)))) ?_ ?_
      · split
        · rename_i hpe
          upsimp
          refine R.sat_bind (findIf_specV c.a c.first c.last _ hl _ p h1 (by omega)) ?_
          intro p' ⟨z1, z2, z3, z4⟩
          have hstrip : stripLeadingZeros (slice c.a p eod) = slice c.a p' eod :=
            strip_slice c.a eod (by omega) (p' - p) p p' (by omega) (by omega)
              (by intro i hi1 hi2; simpa using z3 i hi1 hi2)
              (by by_cases h : p' + 1 = eod
                  · exact Or.inl h
                  · right; simpa using z4 (by omega))
          have hne : slice c.a p eod ≠ [] := slice_ne_nil c.a p eod hpe (by omega)
          rw [hstrip, slice_length c.a p' eod (by omega)]
          split
          · rename_i h5
            exact R.sat_pure (by simp [hne, h5])
          · rename_i h5
            refine R.sat_bind (iter_sat _
              (fun s => p' ≤ s.1 ∧ s.1 ≤ eod ∧ s.2 = decimalValue (slice c.a p' s.1)) (fun s => eod - s.1)
              (fun r => r = decimalValue (slice c.a p' eod)) ?_ _ _ ?_ ?_) ?_
            · intro ⟨it, acc⟩ hI'
              simp only [] at hI' ⊢
              obtain ⟨g1, g2, g3⟩ := hI'
              split
              · upsimp
                refine R.sat_pure ⟨⟨by omega, by omega, ?_⟩, by omega⟩
                rw [slice_snocU c.a p' it g1 (by omega), decimalValue_snoc, g3]
              · have : it = eod := by omega
                subst this
                exact R.sat_pure g3
            · exact ⟨Nat.le_refl _, by omega, by rw [slice_nil c.a p' p' (Nat.le_refl _)]; rfl⟩
            · have := W.hf
              simp only []
              omega
            · intro port hport
              subst hport
              split
              · rename_i h6
                exact R.sat_pure (by simp [hne, h6])
              · rename_i h6
                split
                · upsimp
                  exact R.sat_pure (by simp [h5, h6])
                · exact R.sat_pure (by simp [h5, h6])
        · rename_i hpe
          refine R.sat_pure ?_
          rw [slice_nil c.a p eod (by omega)]
          rfl
      · intro bad hbad
        subst hbad
        generalize (decide (slice c.a p eod ≠ []) &&
          (decide ((stripLeadingZeros (slice c.a p eod)).length > 5) ||
            decide (decimalValue (stripLeadingZeros (slice c.a p eod)) > 0xFFFF))) = B at *
        split
        · rename_i hb
          exact R.sat_pure (by simp [hb])
        · rename_i hb
          have hB : B = false := by simpa using hb
          have hv : ((pe || c.ov.isSome) && !B) = true := by
            rw [hB]
            rcases hcond with h | h <;> simp [h]
          rw [hv]
          split
          · exact R.sat_pure rfl
          · refine R.sat_pure ?_
            simp only []
            kskip
            exact pathStart_ok c W _ ⟨by simp only []; omega, by simp only []; omega⟩ rfl
    · rename_i hcond
      refine R.sat_pure ?_
      have : (pe || c.ov.isSome) = false := by
        cases hh : (pe || c.ov.isSome) with
        | false => rfl
        | true =>
          exfalso; apply hcond
          simpa using hh
      rw [this]
      rfl

end Upa.Impl.B
