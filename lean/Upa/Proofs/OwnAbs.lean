import Upa.Proofs.OwnOps
/-
  C06b, layer 4: refinement.  `abs h u` is the `UrlObj` (value model of `Upa/Impl/Api.lean`) that the
  url at `u` stands for.  For every heap operation: what it does to `abs` of the urls involved is the
  corresponding `UrlObj` operation, and `abs` of every other url is unchanged (frame).
-/
set_option linter.unusedSimpArgs false
set_option linter.unusedVariables false

namespace Upa.Proofs.Own
open Upa Upa.Impl Upa.Impl.Own

theorem abs_dead {h : Heap} {u : Nat} (hs : sp h u = none) : abs h u = {} := by
  unfold abs; unfold sp at hs; cases hg : h.getU u <;> simp_all
theorem abs_none {h : Heap} {u : Nat} (hs : sp h u = some none) : abs h u = { url := h.recOf u, sp := none } := by
  unfold abs Heap.recOf; unfold sp at hs; cases hg : h.getU u <;> simp_all
theorem abs_some {h : Heap} {u p : Nat} (hs : sp h u = some (some p)) :
    abs h u = { url := h.recOf u, sp := cont h p } := by
  unfold abs Heap.recOf cont; unfold sp at hs; cases hg : h.getU u <;> simp_all

/-- frame: `abs h u` depends only on the pointer of `u`, its record and the content of its cell -/
theorem abs_congr {h h' : Heap} {u : Nat} (h1 : sp h' u = sp h u) (h2 : h'.recOf u = h.recOf u)
    (h3 : ∀ p, sp h u = some (some p) → cont h' p = cont h p) : abs h' u = abs h u := by
  rcases hs : sp h u with _ | _ | p
  · rw [abs_dead hs, abs_dead (h1.trans hs)]
  · rw [abs_none hs, abs_none (h1.trans hs), h2]
  · rw [abs_some hs, abs_some (h1.trans hs), h2, h3 p hs]

theorem abs_url (h : Heap) (u : Nat) : (abs h u).url = h.recOf u := by
  rcases hs : sp h u with _ | _ | p
  · rw [abs_dead hs, recOf_dead h u hs]
  · rw [abs_none hs]
  · rw [abs_some hs]

theorem cont_live {h : Heap} {p : Nat} {o : Option Nat} (hp : up h p = some o) : ∃ c, cont h p = some c := by
  have : (cont h p).isSome := by rw [cont_isSome, hp]; rfl
  exact Option.isSome_iff_exists.1 this

theorem fresh_lt {h : Heap} (hi : OwnG h) {u : Nat} {o : Option Nat} (hs : sp h u = some o) : u < h.next := by
  by_cases hlt : u < h.next
  · exact hlt
  · rw [hi.freshU u (by omega)] at hs; cases hs

/-! ## url operations -/

/-- `search_params() &` is `UrlObj.searchParams` -/
theorem urlSearchParams_abs (h : Heap) (u : Nat) (hi : OwnG h) (hu : h.liveU u = true) (u' : Nat) :
    abs (urlSearchParams h u) u' = if u' = u then (abs h u).searchParams else abs h u' := by
  have hi' := hi
  obtain ⟨f, b, fu, fp⟩ := hi
  unfold urlSearchParams
  simp only [hu, Bool.not_true, Bool.false_eq_true, if_false]
  rw [liveU_eq] at hu
  rw [spOf_eq]
  rcases hsu : sp h u with _ | _ | p
  · simp [hsu] at hu
  · have hlt := fresh_lt hi' hsu
    simp only [Option.join_some]
    split
    · subst_vars
      rw [abs_some (p := h.next) (by simp [hsu]), abs_none hsu]
      simp [UrlObj.searchParams]
    · apply abs_congr <;> simp [*] <;> grind
  · simp only [Option.join_some]
    split
    · subst_vars
      obtain ⟨c, hc⟩ := cont_live (f _ _ hsu)
      rw [abs_some hsu]; simp [UrlObj.searchParams, hc]
    · rfl

/-- the copy constructor is `copyConstruct` -/
theorem urlCopyConstruct_abs (h : Heap) (s : Nat) (hi : OwnG h) (u' : Nat) :
    abs (urlCopyConstruct h s).1 u' = if u' = h.next then copyConstruct (abs h s) else abs h u' := by
  unfold urlCopyConstruct
  split
  · subst_vars
    rw [abs_none (by simp), copyConstruct, abs_url]; simp
  · apply abs_congr <;> simp [*]

/-- copy assignment is `copyAssign` -/
theorem urlCopyAssign_abs (h : Heap) (d s : Nat) (hi : OwnG h) (hd : h.liveU d = true) (hs : h.liveU s = true)
    (u : Nat) :
    abs (urlCopyAssign h d s) u = if u = d then copyAssign (abs h d) (abs h s) else abs h u := by
  obtain ⟨f, b, fu, fp⟩ := hi
  unfold urlCopyAssign
  simp only [hd, hs, Bool.and_self, Bool.not_true, Bool.false_eq_true, if_false]
  rw [liveU_eq] at hd hs
  rw [spOf_eq, spOf_eq]
  rcases hsd : sp h d with _ | _ | pd
  · simp [hsd] at hd
  · -- destination without params object: only the record is copied
    simp only [Option.join_some]
    split
    · subst_vars
      rw [abs_none (h := h.setRec _ _) (by simpa using hsd), abs_none hsd]
      rcases hss : sp h s with _ | _ | ps
      · simp [hss] at hs
      · simp [abs_none hss, copyAssign, hsd]
      · simp [abs_some hss, copyAssign, hsd]
    · apply abs_congr <;> simp [*]
  · have hpd := f d pd hsd
    obtain ⟨c, hc⟩ := cont_live hpd
    simp only [Option.join_some]
    by_cases hds : d = s
    · subst hds
      simp only [if_true]
      split
      · subst_vars
        rw [abs_some (h := h.setRec _ _) (p := pd) (by simpa using hsd), abs_some hsd]
        simp [copyAssign, hsd, hc]
      · apply abs_congr <;> simp [*]
    · simp only [hds, if_false]
      rcases hss : sp h s with _ | _ | ps
      · simp [hss] at hs
      · -- source without params object: re-parse through `ptr_->url_ptr_`, which is `d` itself
        simp only [Option.join_some, urlPtrOf_eq, up_setRec, hpd]
        split
        · subst_vars
          rw [abs_some (p := pd) (by simpa using hsd), abs_some hsd, abs_none hss]
          simp [copyAssign, hsd, hc, UrlObj.reparseParams]
        · apply abs_congr <;> simp [*] <;> grind
      · simp only [Option.join_some]
        have hps := f s ps hss
        obtain ⟨c2, hc2⟩ := cont_live hps
        split
        · subst_vars
          rw [abs_some (p := pd) (by simpa using hsd), abs_some hsd, abs_some hss]
          simp [copyAssign, hsd, hc, hc2, listOf_eq, sortedOf_eq]
        · apply abs_congr <;> simp [*] <;> grind

/-- the move constructor is `moveAssign` (new object, source) -/
theorem urlMoveConstruct_abs (h : Heap) (s : Nat) (hi : OwnG h) (hs : h.liveU s = true) (u' : Nat) :
    abs (urlMoveConstruct h s).1 u' =
      if u' = h.next then (moveAssign (abs h s)).1 else if u' = s then (moveAssign (abs h s)).2 else abs h u' := by
  have hi' := hi
  obtain ⟨f, b, fu, fp⟩ := hi
  unfold urlMoveConstruct moveAssign
  rw [liveU_eq] at hs
  rw [spOf_eq]
  rcases hss : sp h s with _ | _ | ps
  · simp [hss] at hs
  · have hlt := fresh_lt hi' hss
    have hne : s ≠ h.next := by omega
    simp only [Option.join_some]
    split
    · subst_vars
      rw [abs_none (by simp [hss, hne, Ne.symm hne]), abs_none hss]; simp [hne, Ne.symm hne]
    · split
      · subst_vars
        rw [abs_none (by simp [hss, hne, Ne.symm hne])]; simp [hss]
      · apply abs_congr <;> simp [*]
  · have hlt := fresh_lt hi' hss
    have hne : s ≠ h.next := by omega
    simp only [Option.join_some]
    split
    · subst_vars
      rw [abs_some (p := ps) (by simp [hss, hne, Ne.symm hne]), abs_some hss]; simp [hne, Ne.symm hne]
    · split
      · subst_vars
        rw [abs_none (by simp [hss, hne, Ne.symm hne])]; simp [hss]
      · apply abs_congr <;> simp [*]

/-- move assignment is `moveAssign` -/
theorem urlMoveAssign_abs (h : Heap) (d s : Nat) (hi : OwnG h) (hd : h.liveU d = true) (hs : h.liveU s = true)
    (hds : d ≠ s) (u' : Nat) :
    abs (urlMoveAssign h d s) u' =
      if u' = d then (moveAssign (abs h s)).1 else if u' = s then (moveAssign (abs h s)).2 else abs h u' := by
  obtain ⟨f, b, fu, fp⟩ := hi
  unfold urlMoveAssign moveAssign moveRecord
  simp only [hd, hs, hds, Ne.symm hds, Bool.and_self, Bool.not_true, Bool.false_eq_true, or_self, if_false]
  rw [liveU_eq] at hd hs
  rw [spOf_eq, spOf_eq]
  rcases hsd : sp h d with _ | _ | pd
  · simp [hsd] at hd
  all_goals
    rcases hss : sp h s with _ | _ | ps
    · simp [hss] at hs
    all_goals
      simp only [Option.join_some]
      split
      · subst_vars
        first
          | (rw [abs_none (by simp [hsd, hss, hds, Ne.symm hds]), abs_none hss]; simp [hds, Ne.symm hds, hss, hsd]; done)
          | (rw [abs_some (p := ps) (by simp [hsd, hss, hds, Ne.symm hds]), abs_some hss]
             simp [hds, Ne.symm hds, hss, hsd]; try grind)
      · split
        · subst_vars
          rw [abs_none (by simp [hsd, hss, hds, Ne.symm hds])]; simp [hss, hds, Ne.symm hds, hsd]
        · apply abs_congr <;> simp [*] <;> grind

end Upa.Proofs.Own
