import Upa.Proofs.BoundsUrlTop
import Upa.Proofs.BoundsUrlAgree
import Upa.Proofs.EncIndep
/-
  Helper lemmas for C04f, part 1: the tie between positions in the code-unit array and suffixes of the
  decoded scalar list (`Dl e a p q = decode e (slice a p q)`), the scan lemmas (`findIf`, `findCh`,
  `findLastB` find positions that correspond to `takeWhile` / `dropWhile` on the decoded list), the chain of
  blocks of `urlParseB` cut into named suffixes (`k…`) and the "skip" lemmas.
-/
namespace Upa.Impl.B
open UP Upa.Proofs.C10b

/-- the decoded scalar values of the units `[p, q)` -/
def Dl (e : Enc) (a : Array Nat) (p q : Nat) : List Nat := decode e (slice a p q)

/-- verdict of a list-model result -/
def vd (r : Res) : Bool := r.out == .ok

/-! ### slices -/

theorem slice_subsetV (a : Array Nat) (p q x : Nat) (hx : x ∈ slice a p q) : x ∈ a.toList := by
  simp only [slice, Array.toList_extract, List.extract_eq_take_drop] at hx
  exact List.mem_of_mem_drop (List.mem_of_mem_take hx)

theorem uok_slice {e : Enc} {a : Array Nat} (h : UOk e a.toList) (p q : Nat) : UOk e (slice a p q) :=
  h.subset (fun x hx => slice_subsetV a p q x hx)

theorem slice_appendV (a : Array Nat) (r : Nat) (hr : r ≤ a.size) :
    ∀ k p q, p + k = q → q ≤ r → slice a p r = slice a p q ++ slice a q r := by
  intro k
  induction k with
  | zero =>
    intro p q h1 _
    have : p = q := by omega
    subst this
    rw [slice_nil a p p (Nat.le_refl _)]; rfl
  | succ k ih =>
    intro p q h1 h2
    rw [slice_cons a p r (by omega) hr, slice_cons a p q (by omega) (by omega), ih (p + 1) q (by omega) h2]
    rfl

theorem slice_split (a : Array Nat) (p q r : Nat) (h1 : p ≤ q) (h2 : q ≤ r) (hr : r ≤ a.size) :
    slice a p r = slice a p q ++ slice a q r :=
  slice_appendV a r hr (q - p) p q (by omega) h2

theorem slice_ne_nil (a : Array Nat) (p q : Nat) (h : p < q) (hq : q ≤ a.size) : slice a p q ≠ [] := by
  rw [slice_cons a p q h hq]; exact List.cons_ne_nil _ _

/-! ### decoded slices -/

section
variable (e : Enc) (a : Array Nat) (hu : UOk e a.toList)

theorem Dl_nil (p q : Nat) (h : q ≤ p) : Dl e a p q = [] := by
  simp only [Dl, slice_nil a p q h]; rfl

theorem Dl_cons_ascii (p q : Nat) (h : p < q) (hq : q ≤ a.size) (hc : a[p]! < 0x80) :
    Dl e a p q = a[p]! :: Dl e a (p + 1) q := by
  simp only [Dl]
  rw [slice_cons a p q h hq, decode_cons_ascii e _ _ hc]

/-- splitting at a position that holds an ASCII unit (or at the end) -/
theorem Dl_split (p q r : Nat) (h1 : p ≤ q) (h2 : q ≤ r) (hr : r ≤ a.size) (hq : q = r ∨ a[q]! < 0x80) :
    Dl e a p r = Dl e a p q ++ Dl e a q r := by
  by_cases hqr : q = r
  · subst hqr
    rw [Dl_nil e a q q (Nat.le_refl _), List.append_nil]
  · have hc : a[q]! < 0x80 := by rcases hq with h | h; exact absurd h hqr; exact h
    have hlt : q < r := by omega
    rw [Dl_cons_ascii e a q r hlt hr hc]
    simp only [Dl]
    rw [slice_split a p q r h1 h2 hr, slice_cons a q r hlt hr, decode_ascii_split e _ _ hc]

include hu in
theorem Dl_mem_ascii (p q x : Nat) (hq : q ≤ a.size) (hx : x ∈ Dl e a p q) (hlt : x < 0x80) :
    ∃ i, p ≤ i ∧ i < q ∧ x = a[i]! := by
  have := decode_ascii_mem e (slice a p q) (uok_slice hu p q) x hx hlt
  exact mem_slice a p q x hq this

include hu in
/-- the first decoded value at a position: the unit itself when it is ASCII, a non-ASCII value otherwise -/
theorem Dl_peek (p q : Nat) (h : p < q) (hq : q ≤ a.size) :
    ∃ c t, Dl e a p q = c :: t ∧
      ((a[p]! < 0x80 ∧ c = a[p]! ∧ t = Dl e a (p + 1) q) ∨ (¬ a[p]! < 0x80 ∧ ¬ c < 0x80)) := by
  by_cases hc : a[p]! < 0x80
  · exact ⟨_, _, Dl_cons_ascii e a p q h hq hc, Or.inl ⟨hc, rfl, rfl⟩⟩
  · have hne : Dl e a p q ≠ [] := decode_ne_nil e (slice_ne_nil a p q h hq)
    match hd : Dl e a p q with
    | [] => exact absurd hd hne
    | c :: t =>
      refine ⟨c, t, rfl, Or.inr ⟨hc, ?_⟩⟩
      intro hlt
      have := decode_head e (slice a p q) (uok_slice hu p q) c (by simp only [Dl] at hd; rw [hd]; rfl) hlt
      rw [slice_cons a p q h hq] at this
      have : a[p]! = c := Option.some.inj this
      omega

theorem Dl_eq_nil_iff (p q : Nat) (h : p ≤ q) (hq : q ≤ a.size) : Dl e a p q = [] ↔ p = q := by
  constructor
  · intro hd
    apply Classical.byContradiction
    intro hne
    exact decode_ne_nil e (slice_ne_nil a p q (by omega) hq) hd
  · intro hpq; subst hpq; exact Dl_nil e a p p (Nat.le_refl _)

include hu in
/-- a predicate that holds for ASCII values only fails on the whole decoded slice when it fails on every unit -/
theorem Dl_all_false (pred : Nat → Bool) (hp : AsciiPred pred) (p q : Nat) (hq : q ≤ a.size)
    (hall : ∀ i, p ≤ i → i < q → pred a[i]! = false) : ∀ x ∈ Dl e a p q, pred x = false := by
  intro x hx
  cases hpx : pred x with
  | false => rfl
  | true =>
    obtain ⟨i, h1, h2, h3⟩ := Dl_mem_ascii e a hu p q x hq hx (hp x hpx)
    rw [h3, hall i h1 h2] at hpx; cases hpx

include hu in
/-- scan with a "continue" predicate `np` that can only fail on ASCII values (delimiter search):
    the units `[p, q)` all continue, `q` is the end or a delimiter -/
theorem Dl_scan_delim (np : Nat → Bool) (hnp : ∀ c, np c = false → c < 0x80) (p q last : Nat)
    (h1 : p ≤ q) (h2 : q ≤ last) (hl : last ≤ a.size)
    (hall : ∀ i, p ≤ i → i < q → np a[i]! = true) (hq : q = last ∨ np a[q]! = false) :
    (Dl e a p last).takeWhile np = Dl e a p q ∧ (Dl e a p last).dropWhile np = Dl e a q last := by
  have hq' : q = last ∨ a[q]! < 0x80 := by
    rcases hq with h | h
    · exact Or.inl h
    · exact Or.inr (hnp _ h)
  have hpre : ∀ x ∈ Dl e a p q, np x = true := by
    intro x hx
    have := Dl_all_false e a hu (fun c => !np c) (by intro c hc; exact hnp c (by simpa using hc)) p q (by omega)
      (by intro i hi1 hi2; simp [hall i hi1 hi2]) x hx
    simpa using this
  have hsuf : (Dl e a q last).takeWhile np = [] ∧ (Dl e a q last).dropWhile np = Dl e a q last := by
    by_cases hql : q = last
    · subst hql; rw [Dl_nil e a q q (Nat.le_refl _)]; exact ⟨rfl, rfl⟩
    · have h : np a[q]! = false := by rcases hq with h | h; exact absurd h hql; exact h
      rw [Dl_cons_ascii e a q last (by omega) hl (hnp _ h)]
      simp [h]
  rw [Dl_split e a p q last h1 h2 hl hq']
  constructor
  · rw [List.takeWhile_append_of_pos hpre, hsuf.1, List.append_nil]
  · rw [List.dropWhile_append_of_pos hpre, hsuf.2]

include hu in
/-- scan with a "continue" predicate that holds for ASCII values only (scheme characters, digits, slashes):
    the scanned units are the scanned values -/
theorem Dl_scan_pos (np : Nat → Bool) (hnp : AsciiPred np) (last : Nat) (hl : last ≤ a.size) :
    ∀ k p q, p + k = q → q ≤ last → (∀ i, p ≤ i → i < q → np a[i]! = true) → (q = last ∨ np a[q]! = false) →
      (Dl e a p last).takeWhile np = slice a p q ∧ (Dl e a p last).dropWhile np = Dl e a q last := by
  intro k
  induction k with
  | zero =>
    intro p q h1 h2 _ hq
    have : p = q := by omega
    subst this
    rw [slice_nil a p p (Nat.le_refl _)]
    by_cases hpl : p = last
    · subst hpl; rw [Dl_nil e a p p (Nat.le_refl _)]; exact ⟨rfl, rfl⟩
    · have h : np a[p]! = false := by rcases hq with h | h; exact absurd h hpl; exact h
      obtain ⟨c, t, hd, hc⟩ := Dl_peek e a hu p last (by omega) hl
      have hnc : np c = false := by
        rcases hc with ⟨_, h2, _⟩ | ⟨_, h2⟩
        · rw [h2]; exact h
        · cases hh : np c with
          | false => rfl
          | true => exact absurd (hnp c hh) h2
      rw [hd]
      simp [hnc]
  | succ k ih =>
    intro p q h1 h2 hall hq
    have hp := hall p (Nat.le_refl _) (by omega)
    rw [Dl_cons_ascii e a p last (by omega) hl (hnp _ hp), slice_cons a p q (by omega) (by omega)]
    obtain ⟨i1, i2⟩ := ih (p + 1) q (by omega) h2 (fun i hi1 hi2 => hall i (by omega) hi2) hq
    simp [hp, i1, i2]

end

end Upa.Impl.B
