import Upa.Proofs.SetRepExcApi
import Upa.Impl.ParseRepExc
/-
  Helpers for C20c: `new_url` on the raw members, the states with a non-empty string, the object-level
  `do_parse` with failure points.
-/
set_option linter.unusedSimpArgs false

namespace Upa.Proofs.C20c
open Upa Upa.Impl Upa.Impl.FaultRep Upa.Proofs.C05 Upa.Proofs.SetRep Upa.Proofs.SetRepApi
  Upa.Proofs.SetRepExc Upa.Props

/-! ### `new_url` -/

/-- the record members `new_url` resets completely: a non-empty string, or nothing to reset -/
def Resettable (r : Rep) : Prop := r.norm ≠ [] ∨ r = Rep.cleared

instance (r : Rep) : Decidable (Resettable r) := by unfold Resettable; infer_instance

theorem newUrl_of_ne {r : Rep} (h : r.norm ≠ []) : r.newUrl = Rep.cleared := by
  unfold Rep.newUrl Rep.emptyUrl
  cases hn : r.norm with
  | nil => exact absurd hn h
  | cons a b => rfl

theorem newUrl_cleared : Rep.cleared.newUrl = Rep.cleared := rfl

theorem newUrl_of_nil {r : Rep} (h : r.norm = []) : r.newUrl = r := by
  unfold Rep.newUrl Rep.emptyUrl
  rw [h]; rfl

theorem newUrl_resettable {r : Rep} (h : Resettable r) : r.newUrl = Rep.cleared := by
  rcases h with h | h
  · exact newUrl_of_ne h
  · rw [h]; rfl

/-- … and only those -/
theorem newUrl_eq_cleared_iff (r : Rep) : r.newUrl = Rep.cleared ↔ Resettable r := by
  constructor
  · intro h
    by_cases hn : r.norm = []
    · right; rw [newUrl_of_nil hn] at h; exact h
    · left; exact hn
  · exact newUrl_resettable

theorem parseRepOn_eq (idna : Idna) {r : Rep} (h : Resettable r) (e : Enc) (units : List Nat)
    (base : Option Rep) : parseRepOn idna r e units base = parseRep idna e units base := by
  unfold parseRepOn parseRep Ser.new
  rw [newUrl_resettable h]

theorem parseRepOn_cleared (idna : Idna) (e : Enc) (units : List Nat) (base : Option Rep) :
    parseRepOn idna Rep.cleared e units base = parseRep idna e units base := rfl

/-! ### the states with a non-empty string -/

theorem off_one_le (A : List (List Nat)) : off A 1 ≤ A.flatten.length := by
  unfold off
  cases A with
  | nil => simp
  | cons a t => simp

theorem Pt.norm_ne {r : Rep} (h : Pt r) : r.norm ≠ [] := by
  obtain ⟨r0, m, A, ex, _, _, hpos, rfl⟩ := h
  have h1 := off_one_le A
  intro hc
  have h2 : (mkRepE r0 A ex).norm.length = 0 := by rw [hc]; rfl
  have h3 : (mkRepE r0 A ex).norm.length = A.flatten.length + ex.length := by simp [mkRepE]
  omega

theorem repFor_norm_ne {u : Url} {r : Rep} (wf : RecWF u) (h : RepFor r u) : r.norm ≠ [] :=
  Pt.norm_ne (ptS_of_repFor wf h).pt

theorem failStates_pt (idna : Idna) (s : Setter) (e : Enc) (units : List Nat) {u : Url} {r : Rep}
    (ok : RepOk u) (h : RepFor r u) : ∀ r' ∈ failStates idna s e units r, Pt r' := by
  intro r' hr'
  rw [failStates_setter_eq] at hr'
  exact setRepT_pts idna s e units ok h r' hr'

theorem failStates_norm_ne (idna : Idna) (s : Setter) (e : Enc) (units : List Nat) {u : Url} {r : Rep}
    (ok : RepOk u) (h : RepFor r u) : ∀ r' ∈ failStates idna s e units r, r'.norm ≠ [] :=
  fun r' hr' => Pt.norm_ne (failStates_pt idna s e units ok h r' hr')

theorem updateFailStates_norm_ne {u : Url} {r : Rep} (ok : RepOk u) (h : RepFor r u) (l : List BPair) :
    ∀ r' ∈ updateFailStates r l, r'.norm ≠ [] := by
  intro r' hr'
  unfold updateFailStates at hr'
  rw [failStates_eq] at hr'
  exact Pt.norm_ne (updateRepT_pts ok h l r' hr').pt

/-! ### the getters of the reset record -/

theorem cleared_pe (t : Nat) : Rep.cleared.pe t = 0 := by
  unfold Rep.pe Rep.cleared
  simp only
  by_cases h : t < 11
  · rw [List.getD_eq_getElem?_getD, List.getElem?_replicate]; simp [h]
  · rw [List.getD_eq_getElem?_getD, List.getElem?_eq_none (by simp; omega)]; rfl

theorem slice_nil (b e : Nat) : slice [] b e = [] := by simp [slice]

theorem cleared_partView (t : Nat) : Rep.cleared.partView t = [] := by
  unfold Rep.partView
  split
  · exact slice_nil _ _
  · simp only [cleared_pe]
    split
    · exact slice_nil _ _
    · rfl

/-! ### `do_parse` on the object -/

theorem objNewUrl_rep (o : ObjR) : o.newUrl.rep = o.rep.newUrl := by
  unfold ObjR.newUrl Rep.newUrl
  split <;> rfl

theorem objNewUrl_of_ne {o : ObjR} (h : o.rep.norm ≠ []) :
    o.newUrl = { rep := Rep.cleared, valid := false, sp := clearSp o.sp } := by
  unfold ObjR.newUrl Rep.emptyUrl
  cases hn : o.rep.norm with
  | nil => exact absurd hn h
  | cons a b => rfl

theorem objNewUrl_of_nil {o : ObjR} (h : o.rep.norm = []) : o.newUrl = o := by
  unfold ObjR.newUrl Rep.emptyUrl
  rw [h]; rfl

theorem tryBodyT_pts_sub (idna : Idna) (r : Rep) (e : Enc) (units : List Nat) (base : Option (Option Rep))
    (trace : List Rep) : ∀ x ∈ (tryBodyT idna r e units base trace).pts, x ∈ trace := by
  intro x hx
  unfold tryBodyT at hx
  split at hx
  · simp [pure] at hx
  · exact hx

theorem tryBodyT_val (idna : Idna) (r : Rep) (e : Enc) (units : List Nat) (base : Option (Option Rep))
    (trace : List Rep) :
    (tryBodyT idna r e units base trace).val =
      match base with
      | some none => none
      | _ => parseRepOn idna r e units (base.bind id) := by
  unfold tryBodyT
  cases base with
  | none => rfl
  | some b => cases b <;> rfl

theorem parseFinish_cases (ph : ObjR → ObjR) (o1 : ObjR) (res : Option Rep) (spFails : Bool) (o' : ObjR)
    (en : ParseEnd) (h : parseFinish ph o1 res spFails = (o', en)) :
    (∃ r', res = some r' ∧ spFails = true ∧ o1.sp.isSome = true ∧
      o' = ph { o1 with rep := r', valid := true } ∧ en = .threw) ∨
    (∃ r', res = some r' ∧ o' = { rep := r', valid := true, sp := parseSp r' o1.sp } ∧ en = .returned true) ∨
    (res = none ∧ o' = o1.resetRecord ∧ en = .returned false) := by
  unfold parseFinish at h
  split at h
  · rename_i r'
    split at h
    · rename_i hc
      simp only [Bool.and_eq_true] at hc
      left
      exact ⟨r', rfl, hc.1, hc.2, (Prod.mk.inj h).1.symm, (Prod.mk.inj h).2.symm⟩
    · right; left
      exact ⟨r', rfl, (Prod.mk.inj h).1.symm, (Prod.mk.inj h).2.symm⟩
  · right; right
    exact ⟨rfl, (Prod.mk.inj h).1.symm, (Prod.mk.inj h).2.symm⟩

theorem doParse_fin (handler ph : ObjR → ObjR) (idna : Idna) (o : ObjR) (e : Enc) (units : List Nat)
    (base : Option (Option Rep)) (trace : List Rep) (o' : ObjR) (en : ParseEnd) (res : Option Rep) (spFails : Bool)
    (hval : res = (tryBodyT idna o.rep e units base trace).val)
    (hf : parseFinish ph o.newUrl res spFails = (o', en)) :
    (o' = o ∧ en = .threw) ∨
    (∃ half ∈ trace, o' = handler { o.newUrl with rep := half } ∧ en = .threw) ∨
    (∃ r', (tryBodyT idna o.rep e units base trace).val = some r' ∧ o.newUrl.sp.isSome = true ∧
      o' = ph { o.newUrl with rep := r', valid := true } ∧ en = .threw) ∨
    (∃ r', (tryBodyT idna o.rep e units base trace).val = some r' ∧
      o' = { rep := r', valid := true, sp := parseSp r' o.newUrl.sp } ∧ en = .returned true) ∨
    ((tryBodyT idna o.rep e units base trace).val = none ∧ o' = o.newUrl.resetRecord ∧ en = .returned false) := by
  rcases parseFinish_cases ph o.newUrl res spFails o' en hf with ⟨r', h1, _, h3, h4, h5⟩ | ⟨r', h1, h2, h3⟩ | ⟨h1, h2, h3⟩
  · exact Or.inr (Or.inr (Or.inl ⟨r', by rw [← hval, h1], h3, h4, h5⟩))
  · exact Or.inr (Or.inr (Or.inr (Or.inl ⟨r', by rw [← hval, h1], h2, h3⟩)))
  · exact Or.inr (Or.inr (Or.inr (Or.inr ⟨by rw [← hval, h1], h2, h3⟩)))

/-- every way a `do_parse` call with handlers can end, for every schedule -/
theorem doParseWith_cases (handler ph : ObjR → ObjR) (idna : Idna) (o : ObjR) (e : Enc) (units : List Nat)
    (base : Option (Option Rep)) (pre : Nat) (trace : List Rep) (k : Option Nat) (o' : ObjR) (en : ParseEnd)
    (h : doParseWith handler ph idna o e units base pre trace k = (o', en)) :
    -- an exception before the `try`
    (o' = o ∧ en = .threw) ∨
    -- an exception inside `url_parse`: the handler ran on the half-built object
    (∃ half ∈ trace, o' = handler { o.newUrl with rep := half } ∧ en = .threw) ∨
    -- an exception in `parse_search_params()`: the parse had succeeded
    (∃ r', (tryBodyT idna o.rep e units base trace).val = some r' ∧ o.newUrl.sp.isSome = true ∧
      o' = ph { o.newUrl with rep := r', valid := true } ∧ en = .threw) ∨
    -- it returned ok
    (∃ r', (tryBodyT idna o.rep e units base trace).val = some r' ∧
      o' = { rep := r', valid := true, sp := parseSp r' o.newUrl.sp } ∧ en = .returned true) ∨
    -- it returned an error
    ((tryBodyT idna o.rep e units base trace).val = none ∧ o' = o.newUrl.resetRecord ∧ en = .returned false) := by
  unfold doParseWith at h
  simp only at h
  cases k with
  | none => exact doParse_fin handler ph idna o e units base trace o' en _ _ rfl h
  | some i =>
    simp only at h
    split at h
    · left; exact ⟨(Prod.mk.inj h).1.symm, (Prod.mk.inj h).2.symm⟩
    · split at h
      · rename_i half n hrun
        right; left
        have hm := run_threw_mem _ (some (i - pre)) half (by rw [hrun])
        exact ⟨half, tryBodyT_pts_sub _ _ _ _ _ _ half hm, (Prod.mk.inj h).1.symm, (Prod.mk.inj h).2.symm⟩
      · rename_i res n hrun
        have hval : res = (tryBodyT idna o.rep e units base trace).val := by
          unfold X.run at hrun
          simp only at hrun
          split at hrun
          · cases hrun
          · have := (Prod.mk.inj hrun).1
            cases this; rfl
        exact doParse_fin handler ph idna o e units base trace o' en _ _ hval h

theorem tryBodyT_pts {base : Option (Option Rep)} (hb : base ≠ some none) (idna : Idna) (r : Rep) (e : Enc)
    (units : List Nat) (trace : List Rep) : (tryBodyT idna r e units base trace).pts = trace := by
  unfold tryBodyT
  cases base with
  | none => rfl
  | some b =>
    cases b with
    | none => exact absurd rfl hb
    | some rb => rfl

/-- a failure inside the `try`: the handler runs on the half-built object -/
theorem doParseWith_inside (handler ph : ObjR → ObjR) (idna : Idna) (o : ObjR) (e : Enc) (units : List Nat)
    {base : Option (Option Rep)} (hb : base ≠ some none) (pre : Nat) (trace : List Rep) (k : Nat)
    (h1 : pre ≤ k) (h2 : k < pre + trace.length) :
    doParseWith handler ph idna o e units base pre trace (some k) =
      (handler { o.newUrl with rep := trace.getD (k - pre) Rep.cleared }, .threw) := by
  unfold doParseWith
  simp only
  rw [if_neg (by omega)]
  have hlt : k - pre < (tryBodyT idna o.rep e units base trace).pts.length := by
    rw [tryBodyT_pts hb]; omega
  rw [run_lt _ _ hlt]
  simp only [tryBodyT_pts hb]
  have : k - pre < trace.length := by omega
  rw [List.getD_eq_getElem?_getD, List.getElem?_eq_getElem this]
  rfl

/-- a failure of `parse_search_params()`: the parse succeeded, the object owns a params object, the
    primitive after the last one of `url_parse` fails -/
theorem doParseWith_params (handler ph : ObjR → ObjR) (idna : Idna) (o : ObjR) (e : Enc) (units : List Nat)
    {base : Option (Option Rep)} (hb : base ≠ some none) (pre : Nat) (trace : List Rep) (r' : Rep)
    (hp : parseRepOn idna o.rep e units (base.bind id) = some r') (hsp : o.newUrl.sp.isSome = true) :
    doParseWith handler ph idna o e units base pre trace (some (pre + trace.length)) =
      (ph { o.newUrl with rep := r', valid := true }, .threw) := by
  unfold doParseWith
  simp only
  rw [if_neg (by omega)]
  have hge : (tryBodyT idna o.rep e units base trace).pts.length ≤ pre + trace.length - pre := by
    rw [tryBodyT_pts hb]; omega
  rw [run_ge _ _ hge]
  have hv : (tryBodyT idna o.rep e units base trace).val = some r' := by
    rw [tryBodyT_val]
    cases base with
    | none => exact hp
    | some b =>
      cases b with
      | none => exact absurd rfl hb
      | some rb => exact hp
  simp only [hv, tryBodyT_pts hb]
  unfold parseFinish
  simp [hsp]

/-! ### the two object models -/

theorem cleared_norm : Rep.cleared.norm = [] := rfl

theorem wf_resettable {o : ObjR} (h : o.Wf) : Resettable o.rep := by
  cases hv : o.valid with
  | true => exact Or.inl (h.1 hv)
  | false => exact Or.inr (h.2 hv)

/-- without a failure `doParseExc` is `RObj.parse` -/
theorem doParse_refines (idna : Idna) (o : ObjR) (hw : o.Wf) (e : Enc) (units : List Nat)
    (base : Option (Option Rep)) (pre : Nat) (trace : List Rep) :
    (doParseExc idna o e units base pre trace none).1.toRObj = (o.toRObj.parse idna e units base).1 ∧
    (doParseExc idna o e units base pre trace none).2 = .returned (o.toRObj.parse idna e units base).2 := by
  have hres := wf_resettable hw
  obtain ⟨rep, valid, sp⟩ := o
  unfold doParseExc doParseWith
  simp only [tryBodyT_val]
  cases valid with
  | true =>
    have hne : rep.norm ≠ [] := hw.1 rfl
    rw [objNewUrl_of_ne (o := ⟨rep, true, sp⟩) hne]
    cases base with
    | none =>
      simp only [parseRepOn_eq idna hres, Option.bind]
      unfold ObjR.toRObj RObj.parse parseFinish
      cases hp : parseRep idna e units none <;> cases sp <;>
        simp [hp, RObj.clearParams, RObj.reparseParams, ObjR.resetRecord, clearSp, parseSp, rQueryView]
    | some b =>
      cases b with
      | none =>
        unfold ObjR.toRObj RObj.parse parseFinish
        cases sp <;> simp [RObj.clearParams, ObjR.resetRecord, clearSp]
      | some rb =>
        simp only [parseRepOn_eq idna hres, Option.bind]
        unfold ObjR.toRObj RObj.parse parseFinish
        cases hp : parseRep idna e units (some rb) <;> cases sp <;>
          simp [hp, Option.bind, RObj.clearParams, RObj.reparseParams, ObjR.resetRecord, clearSp, parseSp, rQueryView]
  | false =>
    have hc : rep = Rep.cleared := hw.2 rfl
    subst hc
    rw [objNewUrl_of_nil (o := ⟨Rep.cleared, false, sp⟩) rfl]
    cases base with
    | none =>
      simp only [parseRepOn_cleared, Option.bind]
      unfold ObjR.toRObj RObj.parse parseFinish
      cases hp : parseRep idna e units none <;> cases sp <;>
        simp [hp, RObj.clearParams, RObj.reparseParams, ObjR.resetRecord, clearSp, parseSp, rQueryView, Rep.resetRecord]
    | some b =>
      cases b with
      | none =>
        unfold ObjR.toRObj RObj.parse parseFinish
        cases sp <;> simp [RObj.clearParams, ObjR.resetRecord, clearSp, Rep.resetRecord]
      | some rb =>
        simp only [parseRepOn_cleared, Option.bind]
        unfold ObjR.toRObj RObj.parse parseFinish
        cases hp : parseRep idna e units (some rb) <;> cases sp <;>
          simp [hp, Option.bind, RObj.clearParams, RObj.reparseParams, ObjR.resetRecord, clearSp, parseSp, rQueryView, Rep.resetRecord]

end Upa.Proofs.C20c
