import Upa.Props.C10
import Upa.Props.C11
import Upa.Props.C12
import Upa.Props.C14
import Upa.Spec.Host
import Upa.Impl.Url
/-
  Helper lemmas for C07 (host parser): `Impl.parseHost` (include/upa/url_host.h:159-361) against the
  Standard's host parser `Spec.hostParse`.  Namespace `Upa.Proofs.C07`.

  Main results:
  * `endsInANumber_lower`, `ipv4Parse_lower` : the ends-in-a-number checker and the IPv4 parser do not see
    ASCII case (needed because the fast path parses the raw input, the Standard the lower-cased one)
  * `implBuf_eq`      : `buff_uc` = UTF-16 of UTF-8-decode-without-BOM of string-percent-decode (C14 + C10)
  * `specBuf_append`  : plain ASCII units (not `%`) reach the buffer unchanged, in place
  * `hostParseIpv4_eq`, `hostParseIpv6_eq`, `parseOpaqueHost_eq` : the three leaf branches (C11, C12, C14)
  * `fast_sound`      : fast path = full path, from the `ascii` hypothesis on ToASCII
  * `precheck_sound`  : the early rejection is sound, from the `persist` hypothesis on ToASCII
  * `parseHost_eq`    : Impl.parseHost = Spec.hostParse
  * `fileHostState_host`, `hostState_host` : what the (file) host state can store in the host
  * `spec_eval`, `impl_eval_slow`, `specBuf_*` : equations to compute concrete instances
-/
namespace Upa.Proofs.C07
open Upa.Spec

/-! ## ASCII lower-casing is invisible to the IPv4 machinery -/

theorem toLower_hi (c : Nat) (h : 0x5A < c) : toLower c = c := by
  unfold toLower; rw [if_neg (by omega)]

/-- lift a property of `toLower c` vs `c` from the 128 ASCII values to all of `Nat` -/
theorem lower_lift (P : Nat → Nat → Prop) (tbl : ∀ c, c < 128 → P (toLower c) c) (hrefl : ∀ c, P c c) :
    ∀ c, P (toLower c) c := by
  intro c
  by_cases h : c < 128
  · exact tbl c h
  · rw [toLower_hi c (by omega)]; exact hrefl c

theorem isDot_lower : ∀ c, isDot (toLower c) = isDot c :=
  lower_lift (fun a c => isDot a = isDot c) (by decide) (fun _ => rfl)

theorem isDigit_lower : ∀ c, isDigit (toLower c) = isDigit c :=
  lower_lift (fun a c => isDigit a = isDigit c) (by decide) (fun _ => rfl)

theorem digitVal_lower16 : ∀ c, digitVal 16 (toLower c) = digitVal 16 c :=
  lower_lift (fun a c => digitVal 16 a = digitVal 16 c) (by decide) (fun _ => rfl)

theorem digitVal_lower10 : ∀ c, digitVal 10 (toLower c) = digitVal 10 c :=
  lower_lift (fun a c => digitVal 10 a = digitVal 10 c) (by decide) (fun _ => rfl)

theorem digitVal_lower8 : ∀ c, digitVal 8 (toLower c) = digitVal 8 c :=
  lower_lift (fun a c => digitVal 8 a = digitVal 8 c) (by decide) (fun _ => rfl)

theorem lower_eq_30 : ∀ c, (toLower c = 0x30 ↔ c = 0x30) :=
  lower_lift (fun a c => (a = 0x30 ↔ c = 0x30)) (by decide) (fun _ => Iff.rfl)

theorem lower_eq_x : ∀ c, ((toLower c = 0x58 ∨ toLower c = 0x78) ↔ (c = 0x58 ∨ c = 0x78)) :=
  lower_lift (fun a c => ((a = 0x58 ∨ a = 0x78) ↔ (c = 0x58 ∨ c = 0x78))) (by decide) (fun _ => Iff.rfl)

theorem radixValue_lower (R : Nat) (hR : ∀ c, digitVal R (toLower c) = digitVal R c) :
    ∀ (l : List Nat) (acc : Nat), radixValue R (l.map toLower) acc = radixValue R l acc := by
  intro l
  induction l with
  | nil => intro acc; rfl
  | cons c cs ih =>
    intro acc
    simp only [List.map_cons, radixValue, hR c]
    cases digitVal R c with
    | none => rfl
    | some d => exact ih _

theorem ipv4Number_lower (l : List Nat) : ipv4Number (l.map toLower) = ipv4Number l := by
  cases l with
  | nil => rfl
  | cons c cs =>
    by_cases hc : c = 0x30
    · subst hc
      cases cs with
      | nil => rfl
      | cons c1 rest =>
        have h30 : toLower 0x30 = 0x30 := by decide
        simp only [List.map_cons, h30, ipv4Number]
        by_cases hx : c1 = 0x58 ∨ c1 = 0x78
        · have hx' := (lower_eq_x c1).2 hx
          rw [if_pos hx, if_pos hx']
          cases rest with
          | nil => rfl
          | cons r rs =>
            rw [if_neg (by simp), if_neg (by simp)]
            exact radixValue_lower 16 digitVal_lower16 _ _
        · have hx' : ¬ (toLower c1 = 0x58 ∨ toLower c1 = 0x78) := fun h => hx ((lower_eq_x c1).1 h)
          rw [if_neg hx, if_neg hx']
          exact radixValue_lower 8 digitVal_lower8 (c1 :: rest) 0
    · have hc' : toLower c ≠ 48 := fun h => hc ((lower_eq_30 c).1 h)
      rw [List.map_cons, Impl.Ipv4.ipv4Number_of_head_ne _ _ hc', Impl.Ipv4.ipv4Number_of_head_ne _ _ hc]
      exact radixValue_lower 10 digitVal_lower10 (c :: cs) 0

theorem splitOnP_map (p : Nat → Bool) (f : Nat → Nat) (hp : ∀ c, p (f c) = p c) :
    ∀ s : List Nat, splitOnP p (s.map f) = (splitOnP p s).map (List.map f) := by
  intro s
  induction s with
  | nil => rfl
  | cons c cs ih =>
    simp only [List.map_cons, splitOnP, hp c, ih]
    by_cases h : p c = true
    · simp [h]
    · simp only [h]
      cases splitOnP p cs with
      | nil => rfl
      | cons a t => rfl


theorem map_lower_eq_nil (l : List Nat) : (l.map toLower = [] ↔ l = []) := by
  cases l <;> simp

theorem getLast_map_nil (P : List (List Nat)) :
    ((P.map (List.map toLower)).getLast? = some [] ↔ P.getLast? = some []) := by
  rw [List.getLast?_map]
  cases P.getLast? with
  | none => simp
  | some l => simp

theorem mapM_ipv4Number_lower (P : List (List Nat)) :
    (P.map (List.map toLower)).mapM ipv4Number = P.mapM ipv4Number := by
  induction P with
  | nil => rfl
  | cons a P ih => simp only [List.map_cons, List.mapM_cons, ipv4Number_lower, ih]

theorem endsInANumber_lower (s : List Nat) : endsInANumber (s.map toLower) = endsInANumber s := by
  have tail : ∀ Q : List (List Nat),
      (match (Q.map (List.map toLower)).getLast? with
        | none => false
        | some last => if last ≠ [] ∧ last.all isDigit then true else (ipv4Number last).isSome) =
      (match Q.getLast? with
        | none => false
        | some last => if last ≠ [] ∧ last.all isDigit then true else (ipv4Number last).isSome) := by
    intro Q
    rw [List.getLast?_map]
    cases Q.getLast? with
    | none => rfl
    | some last =>
      simp only [Option.map_some, ipv4Number_lower, List.all_map, ne_eq, map_lower_eq_nil]
      have : (isDigit ∘ toLower) = isDigit := funext isDigit_lower
      rw [this]
  unfold endsInANumber
  simp only [splitOnP_map isDot toLower isDot_lower, getLast_map_nil, List.length_map]
  by_cases h : (splitOnP isDot s).getLast? = some []
  · simp only [h, if_true]
    by_cases h1 : (splitOnP isDot s).length = 1
    · simp only [h1, if_true]
    · simp only [h1, if_false, ← List.map_dropLast]
      exact tail _
  · simp only [h, if_false]
    exact tail _

theorem ipv4Parse_lower (s : List Nat) : Spec.ipv4Parse (s.map toLower) = Spec.ipv4Parse s := by
  unfold Spec.ipv4Parse
  simp only [splitOnP_map isDot toLower isDot_lower, getLast_map_nil, List.length_map]
  by_cases h : (splitOnP isDot s).getLast? = some [] ∧ (splitOnP isDot s).length > 1
  · simp only [h, and_self, if_true, ← List.map_dropLast, List.length_map, mapM_ipv4Number_lower]
  · simp only [h, if_false, List.length_map, mapM_ipv4Number_lower]


/-! ## the input of "domain to ASCII" -/

/-- steps 4–5 of the host parser: UTF-8 decode without BOM of the string percent-decoding, handed to
    "domain to ASCII" as UTF-16 -/
def specBuf (s : List Nat) : List Nat := utf16Encode (utf8Decode (stringPercentDecode s))

/-- the library's buffer `buff_uc` is the Standard's -/
theorem implBuf_eq (s : List Nat) (hs : ∀ c ∈ s, isScalar c = true) :
    Impl.encodeUtf16 (Impl.decode .u8 (Impl.percentDecode s)) = specBuf s := by
  have hb := C14.spd_lt s hs
  have hsc : ∀ c ∈ utf8Decode (stringPercentDecode s), isScalar c = true := by
    rw [← Impl.decode_u8_eq_spec _ hb]; exact Impl.decode_u8_scalar _ hb
  rw [C14.percentDecode_eq_spec s hs]
  have h1 : Impl.decode .u8 (utf8Encode (utf8Decode (stringPercentDecode s))) =
      utf8Decode (stringPercentDecode s) := Impl.decode_encode .u8 _ hsc
  rw [h1, Impl.encodeUtf16_eq _ hsc]
  rfl

theorem specBuf_nil : specBuf [] = [] := by
  unfold specBuf; rw [C14.spd_nil]; rfl

theorem utf8Decode_ascii_cons (c : Nat) (hc : c < 0x80) (x : List Nat) :
    utf8Decode (c :: x) = c :: utf8Decode x := by
  unfold utf8Decode
  rw [Impl.aux_start, Impl.step0_ascii c hc]
  rfl

/-- a plain ASCII unit (not `%`) goes to the buffer unchanged -/
theorem specBuf_cons (c : Nat) (hc : c < 0x80) (h25 : c ≠ 0x25) (r : List Nat) :
    specBuf (c :: r) = c :: specBuf r := by
  unfold specBuf
  rw [C14.spd_other c r (by omega) h25, C14.utf8EncodeChar_ascii c hc]
  show utf16Encode (utf8Decode (c :: stringPercentDecode r)) = _
  rw [utf8Decode_ascii_cons c hc]
  simp only [utf16Encode, List.flatMap_cons, utf16EncodeChar]
  rw [if_pos (by omega)]
  rfl

theorem specBuf_append (pre : List Nat) (hpre : ∀ c ∈ pre, c < 0x80 ∧ c ≠ 0x25) (r : List Nat) :
    specBuf (pre ++ r) = pre ++ specBuf r := by
  induction pre with
  | nil => rfl
  | cons c cs ih =>
    have := hpre c List.mem_cons_self
    rw [List.cons_append, specBuf_cons c this.1 this.2, ih (fun x hx => hpre x (List.mem_cons_of_mem _ hx))]
    rfl

theorem specBuf_plain (s : List Nat) (hs : ∀ c ∈ s, c < 0x80 ∧ c ≠ 0x25) : specBuf s = s := by
  have := specBuf_append s hs []
  rwa [List.append_nil, specBuf_nil, List.append_nil] at this

theorem utf16Encode_lt (x : List Nat) (hx : ∀ c ∈ x, isScalar c = true) : ∀ u ∈ utf16Encode x, u < 0x10000 := by
  intro u hu
  unfold utf16Encode at hu
  obtain ⟨c, hc, hu⟩ := List.mem_flatMap.1 hu
  have hle := C14.scalar_le c (hx c hc)
  unfold utf16EncodeChar at hu
  split at hu
  · simp at hu; omega
  · simp at hu; omega

theorem specBuf_lt (s : List Nat) (hs : ∀ c ∈ s, isScalar c = true) : ∀ u ∈ specBuf s, u < 0x10000 := by
  have hb := C14.spd_lt s hs
  have hsc : ∀ c ∈ utf8Decode (stringPercentDecode s), isScalar c = true := by
    rw [← Impl.decode_u8_eq_spec _ hb]; exact Impl.decode_u8_scalar _ hb
  exact utf16Encode_lt _ hsc

/-! ## character classes -/

theorem adc_tbl : ∀ c, c < 128 → asciiDomainChar c = true → (c ≠ 0x25 ∧ forbiddenDomain c = false ∧
    forbiddenDomain (toLower c) = false) := by decide

theorem adc_lt (c : Nat) (h : asciiDomainChar c = true) : c < 0x80 := by
  simp [asciiDomainChar] at h; omega

theorem adc_plain (c : Nat) (h : asciiDomainChar c = true) : c < 0x80 ∧ c ≠ 0x25 :=
  ⟨adc_lt c h, (adc_tbl c (adc_lt c h) h).1⟩

theorem not_adc_tbl : ∀ c, c < 128 → asciiDomainChar c = false → c ≠ 0x25 → forbiddenDomain c = true := by
  decide

/-! ## the code's branches -/

theorem dropWhile_split (q : Nat → Bool) (s : List Nat) :
    (s.dropWhile q = [] ∧ ∀ c ∈ s, q c = true) ∨
    ∃ pre p rest, s = pre ++ p :: rest ∧ (∀ c ∈ pre, q c = true) ∧ q p = false ∧
      s.dropWhile q = p :: rest := by
  induction s with
  | nil => left; simp
  | cons c cs ih =>
    by_cases hc : q c = true
    · rw [List.dropWhile_cons_of_pos hc]
      rcases ih with ⟨h1, h2⟩ | ⟨pre, p, rest, e, h1, h2, h3⟩
      · left; refine ⟨h1, ?_⟩
        intro x hx
        rcases List.mem_cons.1 hx with rfl | hx
        · exact hc
        · exact h2 x hx
      · right
        refine ⟨c :: pre, p, rest, by rw [e]; rfl, ?_, h2, h3⟩
        intro x hx
        rcases List.mem_cons.1 hx with rfl | hx
        · exact hc
        · exact h1 x hx
    · right
      refine ⟨[], c, cs, rfl, by simp, by simpa using hc, ?_⟩
      rw [List.dropWhile_cons_of_neg hc]

theorem hostParseIpv4_eq (a : List Nat) :
    Impl.hostParseIpv4 a =
      (Spec.ipv4Parse a).map fun n => ({ kind := .ipv4, text := Spec.ipv4Serialize n } : Host) := by
  unfold Impl.hostParseIpv4
  rw [Impl.Ipv4.ipv4Parse_eq]
  cases Spec.ipv4Parse a with
  | none => rfl
  | some n => simp [Impl.Ipv4.ipv4Serialize_eq]

theorem hostParseIpv6_eq (x : List Nat) :
    Impl.hostParseIpv6 x =
      (Spec.ipv6Parse x).map fun a =>
        ({ kind := .ipv6, text := [0x5B] ++ Spec.ipv6Serialize a ++ [0x5D] } : Host) := by
  unfold Impl.hostParseIpv6
  cases h : Impl.ipv6Parse x with
  | none => rw [← Props.C12_parse, h]; rfl
  | some a =>
    obtain ⟨h8, hr⟩ := Props.C12_parse_range x a h
    rw [← Props.C12_parse, h]
    simp [Props.C12_serialize a h8 hr]

theorem parseOpaqueHost_eq (s : List Nat) (hs : ∀ c ∈ s, isScalar c = true) :
    Impl.parseOpaqueHost s = Spec.opaqueHostParse s := by
  unfold Impl.parseOpaqueHost Spec.opaqueHostParse
  rw [C14.percentEncodeC0_eq_spec s hs]

/-- steps 5–9 of the host parser, after "domain to ASCII" -/
def finish (r : Option (List Nat)) : Option Host :=
  match r with
  | none => none
  | some ascii =>
    if ascii.any forbiddenDomain then none
    else if endsInANumber ascii then
      (Spec.ipv4Parse ascii).map fun n => { kind := .ipv4, text := Spec.ipv4Serialize n }
    else some { kind := .domain, text := ascii }

theorem spec_domain (idna : Idna) (c0 : Nat) (t : List Nat) (h : c0 ≠ 0x5B) :
    Spec.hostParse idna (c0 :: t) false = finish (idna (specBuf (c0 :: t))) := by
  simp only [Spec.hostParse, if_neg h]
  rfl

/-- `ptr + 1 < last && (ptr[1] >= 0x80 || ptr[1] == '%')` -/
def exemptNext (rest : List Nat) : Bool :=
  match rest with | n :: _ => decide (n ≥ 0x80) || n == 0x25 | [] => false

/-- the fast path and the early rejection of url_host.h:189-214: `some r` = return `r` now -/
def implFast (s : List Nat) : Option (Option Host) :=
  match s.dropWhile asciiDomainChar with
  | [] =>
    if !Impl.hasXnLabel s then
      some (if Impl.endsInNumber s then Impl.hostParseIpv4 s
            else some { kind := .domain, text := s.map toLower })
    else none
  | p :: rest =>
    if p < 0x80 ∧ p ≠ 0x25 then
      if ¬ (p ≥ 0x3C ∧ p ≤ 0x3E ∧ exemptNext rest = true)
      then some none else none
    else none

/-- url_host.h:216-286 -/
def implSlow (idna : Idna) (s : List Nat) : Option Host :=
  match idna (Impl.encodeUtf16 (Impl.decode .u8 (Impl.percentDecode s))) with
  | none => none
  | some ascii =>
    if ascii.any forbiddenDomain then none
    else if Impl.endsInNumber ascii then Impl.hostParseIpv4 ascii
    else some { kind := .domain, text := ascii }

theorem impl_domain (idna : Idna) (c0 : Nat) (t : List Nat) (h : c0 ≠ 0x5B) :
    Impl.parseHost idna (c0 :: t) false =
      match implFast (c0 :: t) with
      | some r => r
      | none => implSlow idna (c0 :: t) := by
  simp only [Impl.parseHost, if_neg h]
  rfl

theorem implSlow_eq (idna : Idna) (s : List Nat) (hs : ∀ c ∈ s, isScalar c = true) :
    implSlow idna s = finish (idna (specBuf s)) := by
  unfold implSlow finish
  rw [implBuf_eq s hs]
  cases idna (specBuf s) with
  | none => rfl
  | some a => simp only [Impl.Ipv4.endsInNumber_eq, hostParseIpv4_eq]


/-- the `ascii` hypothesis on "domain to ASCII" (see `Upa.Props.IdnaOk`) -/
def AsciiHyp (idna : Idna) : Prop :=
  ∀ s : List Nat, s ≠ [] → (∀ c ∈ s, asciiDomainChar c = true) → Impl.hasXnLabel s = false →
    idna s = some (s.map toLower)

/-- the `persist` hypothesis on "domain to ASCII" (see `Upa.Props.IdnaOk`) -/
def PersistHyp (idna : Idna) : Prop :=
  ∀ (pre : List Nat) (p : Nat) (post : List Nat),
    (∀ c ∈ pre, asciiDomainChar c = true) →
    p < 0x80 → p ≠ 0x25 → forbiddenDomain p = true →
    (∀ u ∈ post, u < 0x10000) →
    ¬ ((p = 0x3C ∨ p = 0x3E) ∧ ∃ n r, post = n :: r ∧ 0x80 ≤ n) →
    ∀ a, idna (pre ++ p :: post) = some a → a.any forbiddenDomain = true

theorem any_forbidden_lower (s : List Nat) (hall : ∀ c ∈ s, asciiDomainChar c = true) :
    (s.map toLower).any forbiddenDomain = false := by
  rw [List.any_eq_false]
  intro x hx
  obtain ⟨c, hc, rfl⟩ := List.mem_map.1 hx
  have := (adc_tbl c (adc_lt c (hall c hc)) (hall c hc)).2.2
  simp [this]

/-- fast path = full path -/
theorem fast_sound (idna : Idna) (hascii : AsciiHyp idna) (s : List Nat) (hne : s ≠ [])
    (hall : ∀ c ∈ s, asciiDomainChar c = true) (hxn : Impl.hasXnLabel s = false) :
    finish (idna (specBuf s)) =
      (if Impl.endsInNumber s then Impl.hostParseIpv4 s
       else some { kind := .domain, text := s.map toLower }) := by
  rw [specBuf_plain s (fun c hc => adc_plain c (hall c hc)), hascii s hne hall hxn]
  unfold finish
  simp only [any_forbidden_lower s hall, endsInANumber_lower, ipv4Parse_lower,
    Impl.Ipv4.endsInNumber_eq, hostParseIpv4_eq]
  rfl

/-- the early rejection is sound -/
theorem precheck_sound (idna : Idna) (hpersist : PersistHyp idna) (pre : List Nat) (p : Nat)
    (rest : List Nat) (hs : ∀ c ∈ pre ++ p :: rest, isScalar c = true)
    (hpre : ∀ c ∈ pre, asciiDomainChar c = true) (hp : asciiDomainChar p = false)
    (hlt : p < 0x80) (h25 : p ≠ 0x25)
    (hex : ¬ (p ≥ 0x3C ∧ p ≤ 0x3E ∧ exemptNext rest = true)) :
    finish (idna (specBuf (pre ++ p :: rest))) = none := by
  rw [specBuf_append pre (fun c hc => adc_plain c (hpre c hc)), specBuf_cons p hlt h25]
  cases hi : idna (pre ++ p :: specBuf rest) with
  | none => rfl
  | some a =>
    have hrs : ∀ c ∈ rest, isScalar c = true := fun c hc => hs c (by simp [hc])
    have hne : ¬ ((p = 0x3C ∨ p = 0x3E) ∧ ∃ n r, specBuf rest = n :: r ∧ 0x80 ≤ n) := by
      rintro ⟨hp2, n, r, e, hn⟩
      apply hex
      refine ⟨by omega, by omega, ?_⟩
      cases rest with
      | nil => rw [specBuf_nil] at e; cases e
      | cons m r' =>
        show (decide (m ≥ 0x80) || m == 0x25) = true
        by_cases hm : m < 0x80 ∧ m ≠ 0x25
        · rw [specBuf_cons m hm.1 hm.2] at e
          cases e; omega
        · by_cases hm' : m = 0x25
          · simp [hm']
          · have : m ≥ 0x80 := by omega
            simp [this]
    have := hpersist pre p (specBuf rest) hpre hlt h25 (not_adc_tbl p hlt hp h25)
      (specBuf_lt rest hrs) hne a hi
    unfold finish
    simp [this]

/-- C07 (2): the host parser of the library is the Standard's -/
theorem parseHost_eq (idna : Idna) (hascii : AsciiHyp idna) (hpersist : PersistHyp idna)
    (s : List Nat) (isOpaque : Bool) (hs : ∀ c ∈ s, isScalar c = true) :
    Impl.parseHost idna s isOpaque = Spec.hostParse idna s isOpaque := by
  cases s with
  | nil => rfl
  | cons c0 t =>
    by_cases hb : c0 = 0x5B
    · simp only [Impl.parseHost, Spec.hostParse, if_pos hb, hostParseIpv6_eq]
      by_cases hl : (c0 :: t).getLast? = some 0x5D
      · rw [if_pos hl, if_neg (by simpa using hl)]
      · rw [if_neg hl, if_pos hl]
    · cases isOpaque with
      | true =>
        simp only [Impl.parseHost, Spec.hostParse, if_neg hb, if_true]
        exact parseOpaqueHost_eq _ hs
      | false =>
        rw [impl_domain idna c0 t hb, spec_domain idna c0 t hb]
        rcases dropWhile_split asciiDomainChar (c0 :: t) with ⟨hd, hall⟩ | ⟨pre, p, rest, e, hpre, hp, hd⟩
        · by_cases hxn : Impl.hasXnLabel (c0 :: t) = true
          · simp only [implFast, hd, hxn, Bool.not_true]
            exact implSlow_eq idna _ hs
          · have hxn' : Impl.hasXnLabel (c0 :: t) = false := by simpa using hxn
            simp only [implFast, hd, hxn', Bool.not_false, if_true]
            exact (fast_sound idna hascii _ (by simp) hall hxn').symm
        · have hf : implFast (c0 :: t) =
              (if p < 0x80 ∧ p ≠ 0x25 then
                (if ¬ (p ≥ 0x3C ∧ p ≤ 0x3E ∧ exemptNext rest = true) then some none else none)
               else none) := by
            simp only [implFast, hd]
          rw [hf]
          by_cases hc : p < 0x80 ∧ p ≠ 0x25
          · rw [if_pos hc]
            by_cases hex : ¬ (p ≥ 0x3C ∧ p ≤ 0x3E ∧ exemptNext rest = true)
            · rw [if_pos hex]
              rw [e] at hs ⊢
              exact (precheck_sound idna hpersist pre p rest hs hpre hp hc.1 hc.2 hex).symm
            · rw [if_neg hex]
              exact implSlow_eq idna _ hs
          · rw [if_neg hc]
            exact implSlow_eq idna _ hs


/-! ## evaluation helpers for concrete instances

`Spec.percentDecodeBytes` and `Impl.percentDecodeAux` are compiled by well-founded recursion, so the
kernel cannot evaluate them; concrete instances are computed with the equations below and the rest
by `decide +kernel`. -/

/-- a percent-encoded ASCII byte goes to the buffer decoded -/
theorem specBuf_hex_ascii (h1 h2 : Nat) (r : List Nat) (a1 : isHex h1 = true) (a2 : isHex h2 = true)
    (hlt : hexVal h1 * 16 + hexVal h2 < 0x80) :
    specBuf (0x25 :: h1 :: h2 :: r) = (hexVal h1 * 16 + hexVal h2) :: specBuf r := by
  unfold specBuf
  rw [C14.spd_hex h1 h2 r a1 a2, utf8Decode_ascii_cons _ hlt]
  simp only [utf16Encode, List.flatMap_cons, utf16EncodeChar]
  rw [if_pos (by omega)]
  rfl

/-- a scalar value other than `%` goes to the buffer as its UTF-16 code units -/
theorem specBuf_scalar (c : Nat) (hc : isScalar c = true) (h25 : c ≠ 0x25) (r : List Nat)
    (hr : ∀ x ∈ r, isScalar x = true) :
    specBuf (c :: r) = utf16EncodeChar c ++ specBuf r := by
  unfold specBuf
  have hle := C14.scalar_le c hc
  rw [C14.spd_other c r hle h25]
  have hb : ∀ x ∈ utf8EncodeChar c ++ stringPercentDecode r, x < 256 := by
    intro x hx
    rcases List.mem_append.1 hx with h | h
    · exact Impl.utf8EncodeChar_lt c hle x h
    · exact C14.spd_lt r hr x h
  rw [← Impl.decode_u8_eq_spec _ hb, C14.decode_scalar_cons c hc, Impl.decode_u8_eq_spec _ (C14.spd_lt r hr)]
  simp [utf16Encode]

/-- not empty and not starting with `[` -/
def domainInput (s : List Nat) : Bool :=
  match s with
  | [] => false
  | c :: _ => c != 0x5B

theorem spec_eval (idna : Idna) (s buf : List Nat) (hd : domainInput s = true) (hbuf : specBuf s = buf) :
    Spec.hostParse idna s false = finish (idna buf) := by
  cases s with
  | nil => cases hd
  | cons c0 t => rw [spec_domain idna c0 t (by simpa [domainInput] using hd), hbuf]

/-- url_host.h:264-286 -/
def implFinish (r : Option (List Nat)) : Option Host :=
  match r with
  | none => none
  | some ascii =>
    if ascii.any forbiddenDomain then none
    else if Impl.endsInNumber ascii then Impl.hostParseIpv4 ascii
    else some { kind := .domain, text := ascii }

theorem impl_eval_slow (idna : Idna) (s bytes : List Nat) (hd : domainInput s = true)
    (hfast : implFast s = none) (hpd : Impl.percentDecode s = bytes) :
    Impl.parseHost idna s false = implFinish (idna (Impl.encodeUtf16 (Impl.decode .u8 bytes))) := by
  cases s with
  | nil => cases hd
  | cons c0 t =>
    rw [impl_domain idna c0 t (by simpa [domainInput] using hd), hfast, ← hpd]
    rfl

/-! ## "localhost" becomes the empty host in the file host state only -/

section Localhost
open Upa.Impl

theorem fragmentState_host (u : Url) (p : List Nat) : (fragmentState u p).url.host = u.host := rfl

theorem queryRest_host (u : Url) (rest : List Nat) :
    (match rest with
      | [] => (⟨.ok, u⟩ : Res)
      | _ :: r => fragmentState u r).url.host = u.host := by
  cases rest <;> rfl

theorem queryState_host (ov : Option Override) (u : Url) (p : List Nat) :
    (queryState ov u p).url.host = u.host := by
  unfold queryState
  exact queryRest_host _ _

theorem afterPath_host (ov : Option Override) (u : Url) (rest : List Nat) :
    (afterPath ov u rest).url.host = u.host := by
  unfold afterPath
  repeat' split
  all_goals first | rfl | exact queryState_host _ _ _

theorem shortenPath_host (u : Url) : (shortenPath u).host = u.host := by
  unfold shortenPath
  repeat' split
  all_goals rfl

theorem pathSegment_host (u : Url) (seg : List Nat) (isLast : Bool) :
    (pathSegment u seg isLast).host = u.host := by
  unfold pathSegment
  repeat' split
  all_goals first | rfl | exact shortenPath_host u

theorem pathSegments_host (segs : List (List Nat)) : ∀ u : Url, (pathSegments u segs).host = u.host := by
  induction segs with
  | nil => intro u; rfl
  | cons seg rest ih =>
    intro u
    cases rest with
    | nil => exact pathSegment_host u seg true
    | cons s2 r2 =>
      show (pathSegments (pathSegment u seg false) (s2 :: r2)).host = u.host
      rw [ih, pathSegment_host]

theorem pathState_host (ov : Option Override) (u : Url) (p : List Nat) :
    (pathState ov u p).url.host = u.host := by
  unfold pathState
  show (afterPath ov (parsePath u _) _).url.host = u.host
  rw [afterPath_host]
  unfold parsePath
  exact pathSegments_host _ _

theorem pathStartState_host (ov : Option Override) (u : Url) (p : List Nat) :
    (pathStartState ov u p).url.host = u.host := by
  unfold pathStartState
  repeat' split
  all_goals first | rfl | exact pathState_host _ _ _ | exact queryState_host _ _ _

theorem fileHostState_def (idna : Idna) (ov : Option Override) (u : Url) (p : List Nat) :
    fileHostState idna ov u p =
      if p.takeWhile (fun c => !isSpecialAuthorityEnd c) = [] then
        (if ov.isSome then ⟨.ok, { u with host := some emptyHost }⟩
         else pathStartState ov { u with host := some emptyHost }
           (p.dropWhile (fun c => !isSpecialAuthorityEnd c)))
      else if ov.isNone && (match p.takeWhile (fun c => !isSpecialAuthorityEnd c) with
          | [a, b] => isWindowsDrive a b | _ => false) then pathState ov u p
      else
        match parseHost idna (p.takeWhile (fun c => !isSpecialAuthorityEnd c)) (!u.isSpecial) with
        | none => ⟨.failure, u⟩
        | some h =>
          if ov.isSome then
            ⟨.ok, { u with host := some (if h.text == sLocalhost then emptyHost else h) }⟩
          else pathStartState ov { u with host := some (if h.text == sLocalhost then emptyHost else h) }
            (p.dropWhile (fun c => !isSpecialAuthorityEnd c)) := rfl

/-- what the file host state can leave in the host: the old value (failure, or a Windows drive letter
    was found), the empty host, or the parsed host provided its text is not "localhost" -/
theorem fileHostState_host (idna : Idna) (ov : Option Override) (u : Url) (p : List Nat) :
    (fileHostState idna ov u p).url.host = u.host ∨
    (fileHostState idna ov u p).url.host = some emptyHost ∨
    ∃ h, h.text ≠ sLocalhost ∧ (fileHostState idna ov u p).url.host = some h := by
  rw [fileHostState_def]
  by_cases hbuf : p.takeWhile (fun c => !isSpecialAuthorityEnd c) = []
  · rw [if_pos hbuf]
    right; left
    by_cases ho : ov.isSome = true
    · rw [if_pos ho]
    · rw [if_neg ho, pathStartState_host]
  · rw [if_neg hbuf]
    generalize (match p.takeWhile (fun c => !isSpecialAuthorityEnd c) with
          | [a, b] => isWindowsDrive a b | _ => false) = w
    by_cases hw : (ov.isNone && w) = true
    · rw [if_pos hw]; left; exact pathState_host _ _ _
    · rw [if_neg hw]
      cases parseHost idna (p.takeWhile (fun c => !isSpecialAuthorityEnd c)) (!u.isSpecial) with
      | none => left; rfl
      | some h =>
        have key : ∀ h' : Host,
            (if ov.isSome = true then (⟨.ok, { u with host := some h' }⟩ : Res)
             else pathStartState ov { u with host := some h' }
               (p.dropWhile (fun c => !isSpecialAuthorityEnd c))).url.host = some h' := by
          intro h'
          by_cases ho : ov.isSome = true
          · rw [if_pos ho]
          · rw [if_neg ho, pathStartState_host]
        by_cases hl : (h.text == sLocalhost) = true
        · right; left
          simp only [hl, if_true]
          exact key emptyHost
        · right; right
          refine ⟨h, by simpa using hl, ?_⟩
          simp only [hl]
          exact key h

theorem portTail_host (ov : Option Override) (u : Url) (rest : List Nat) (r : Option Url)
    (hr : ∀ u', r = some u' → u'.host = u.host) :
    (match r with
      | none => (⟨.failure, u⟩ : Res)
      | some u' => if ov.isSome then ⟨.ok, u'⟩ else pathStartState ov u' rest).url.host = u.host := by
  cases r with
  | none => rfl
  | some u' =>
    have := hr u' rfl
    by_cases ho : ov.isSome = true
    · simp only [ho, if_true]; exact this
    · simp only [ho]
      rw [← this]
      exact pathStartState_host _ _ _

/-- the port computed by the port state from the digits -/
def portR (u : Url) (digits : List Nat) : Option Url :=
  if digits ≠ [] then
    let d := stripLeadingZeros digits
    if d.length > 5 then none
    else
      let port := decimalValue d
      if port > 0xFFFF then none
      else if defaultPort u.scheme = some port then some { u with port := none }
      else some { u with port := some port }
  else some u

theorem portR_host (u : Url) (digits : List Nat) : ∀ u', portR u digits = some u' → u'.host = u.host := by
  intro u' h
  unfold portR at h
  simp only [] at h
  repeat' split at h
  all_goals first | (cases h; rfl) | cases h

theorem portState_def (ov : Option Override) (u : Url) (p : List Nat) :
    portState ov u p =
      if (match p.dropWhile isDigit with
          | [] => true
          | c :: _ => isAuthorityEnd c || (c == 0x5C && u.isSpecial)) || ov.isSome then
        match portR u (p.takeWhile isDigit) with
        | none => ⟨.failure, u⟩
        | some u => if ov.isSome then ⟨.ok, u⟩ else pathStartState ov u (p.dropWhile isDigit)
      else ⟨.failure, u⟩ := rfl

theorem portState_host (ov : Option Override) (u : Url) (p : List Nat) :
    (portState ov u p).url.host = u.host := by
  rw [portState_def]
  generalize (match p.dropWhile isDigit with
          | [] => true
          | c :: _ => isAuthorityEnd c || (c == 0x5C && u.isSpecial)) = isEnd
  by_cases h : (isEnd || ov.isSome) = true
  · rw [if_pos h]
    exact portTail_host ov u _ _ (portR_host u _)
  · rw [if_neg h]

theorem hostState_def (idna : Idna) (ov : Option Override) (u : Url) (p : List Nat)
    (isEndC : Nat → Bool) (hE : isEndC = if u.isSpecial then isSpecialAuthorityEnd else isAuthorityEnd)
    (hp : List Nat × Option (List Nat)) (hhp : hp = hostScan (p.takeWhile (fun c => !isEndC c)) false) :
    hostState idna ov u p =
      if ov.isSome && u.isFile then fileHostState idna ov u p
      else
        if hp.1 = [] && (hp.2.isSome || u.isSpecial) then ⟨.failure, u⟩
        else if hp.1 = [] && ov.isSome && (u.hasCredentials || u.port.isSome) then ⟨.ignored, u⟩
        else if hp.2.isSome && ov = some .hostname then ⟨.ignored, u⟩
        else
          match parseHost idna hp.1 (!u.isSpecial) with
          | none => ⟨.failure, u⟩
          | some h =>
            match hp.2 with
            | some pp => portState ov { u with host := some h } (pp ++ p.dropWhile (fun c => !isEndC c))
            | none => if ov.isSome then ⟨.ok, { u with host := some h }⟩
                      else pathStartState ov { u with host := some h } (p.dropWhile (fun c => !isEndC c)) := by
  subst hE; subst hhp; rfl

/-- outside the file host state the host state stores exactly what the host parser returned -/
theorem hostState_host (idna : Idna) (ov : Option Override) (u : Url) (p : List Nat)
    (hnf : (ov.isSome && u.isFile) = false) :
    (hostState idna ov u p).url.host = u.host ∨
    ∃ hostPart h, parseHost idna hostPart (!u.isSpecial) = some h ∧
      (hostState idna ov u p).url.host = some h := by
  rw [hostState_def idna ov u p _ rfl _ rfl, hnf]
  generalize (if u.isSpecial then isSpecialAuthorityEnd else isAuthorityEnd) = isEndC
  generalize hostScan _ false = hp
  rw [if_neg (by simp)]
  by_cases h1 : (decide (hp.1 = []) && (hp.2.isSome || u.isSpecial)) = true
  · rw [if_pos h1]; left; rfl
  · rw [if_neg h1]
    by_cases h2 : (decide (hp.1 = []) && ov.isSome && (u.hasCredentials || u.port.isSome)) = true
    · rw [if_pos h2]; left; rfl
    · rw [if_neg h2]
      by_cases h3 : (hp.2.isSome && decide (ov = some .hostname)) = true
      · rw [if_pos h3]; left; rfl
      · rw [if_neg h3]
        cases hph : parseHost idna hp.1 (!u.isSpecial) with
        | none => left; rfl
        | some h =>
          right
          refine ⟨hp.1, h, hph, ?_⟩
          cases hp.2 with
          | some pp => exact portState_host _ _ _
          | none =>
            by_cases ho : ov.isSome = true
            · simp only [ho, if_true]
            · simp only [ho]
              exact pathStartState_host _ _ _

end Localhost

end Upa.Proofs.C07
